(* C02 - the interpreters of the extracted tree skeletons
   (Model/PipelineSk.v) agree with the model's actions. *)
From Coq Require Import String ZArith List Bool Arith Lia.
From SK Require Import Model.Base Model.Skel Model.Stm Model.Pipeline
     Model.PipelineSk Proofs.Pipeline.
Import ListNotations.
Open Scope string_scope.
Open Scope list_scope.
Open Scope Z_scope.

Lemma purge_iter_sound t take wait Q s :
  first_loop (core_list t) = Some purge_body_core ->
  (forall e, take e = negb e) ->
  (forall e l, wait e l = (l <? e)) ->
  ph s = Purging ->
  run_purge_iter take wait t s = Some (model_purge_iter Q s).
Proof.
  intros Hshape Htake Hwait Hph.
  unfold run_purge_iter, run_consumer_iter. rewrite Hshape.
  unfold purge_body_core, model_purge_iter.
  destruct s as [ts q c e p l]. cbn [ph] in Hph. subst p.
  destruct q as [|b q].
  - cbn. rewrite !Htake, !Hwait, Z.ltb_antisym. cbn.
    destruct (e <=? coll_len c); cbn; reflexivity.
  - cbn. rewrite !Htake. cbn. reflexivity.
Qed.

Lemma collector_iter_sound t take stopt Q stop s :
  first_loop (core_list t) = Some collector_body_core ->
  (forall e, take e = negb e) ->
  (forall e, stopt e = e) ->
  ph s = Collecting ->
  run_collector_iter take stopt stop t s
  = Some (model_collector_iter Q stop s).
Proof.
  intros Hshape Htake Hstop Hph.
  unfold run_collector_iter, run_consumer_iter. rewrite Hshape.
  unfold collector_body_core, model_collector_iter.
  destruct s as [ts q c e p l]. cbn [ph] in Hph. subst p.
  destruct q as [|b q].
  - cbn. rewrite !Htake, !Hstop. cbn. destruct stop; cbn; reflexivity.
  - cbn. rewrite !Htake. cbn. reflexivity.
Qed.

(* ------------------------------------------------------------ put_result *)
Record put_params_ok (pp : put_params) : Prop := {
  ok_count : forall a b, pp_count pp a b = a + b;
  ok_direct : forall d, pp_direct pp d = d;
  ok_init : forall m, pp_init pp m = m;
  ok_loop : forall k, pp_loop pp k = (0 <? k);
  ok_first : forall k m, pp_first pp k m = (k =? m);
  ok_onfull : forall k, pp_onfull pp k = k - 1
}.

Lemma iloop_S {St} fuel cond body (st : St) :
  iloop St (S fuel) cond body st =
  if cond st then
    match body st with
    | IOk st1 false => iloop St fuel cond body st1
    | IOk st1 true => IOk st1 false
    | other => other
    end
  else IOk st false.
Proof. reflexivity. Qed.

Fixpoint iter_n {A} (n : nat) (f : A -> A) (x : A) : A :=
  match n with O => x | S k => iter_n k f (f x) end.

(* a loop whose body, under an invariant, always falls through to the next
   iteration with a decreasing counter runs exactly `counter` times *)
Lemma iloop_count {St} (cond : St -> bool) body (next : St -> St)
      (m : St -> nat) (inv : St -> Prop) :
  (forall st, inv st -> cond st = negb (Nat.eqb (m st) 0)) ->
  (forall st, inv st -> m st <> O ->
              body st = IOk (next st) false /\ inv (next st) /\
              m (next st) = pred (m st)) ->
  forall fuel st, inv st -> (m st < fuel)%nat ->
  iloop St fuel cond body st = IOk (iter_n (m st) next st) false.
Proof.
  intros Hcond Hbody. induction fuel as [|f IH]; intros st Hinv Hlt; [lia|].
  rewrite iloop_S, (Hcond st Hinv).
  destruct (m st) as [|k] eqn:Em; cbn [Nat.eqb negb].
  - reflexivity.
  - destruct (Hbody st Hinv) as (Hb & Hi & Hm); [lia|].
    rewrite Hb, IH; auto; [|lia].
    rewrite Hm, Em. cbn [pred iter_n]. reflexivity.
Qed.

Arguments iloop : simpl never.
Arguments pop_todo : simpl never.

Lemma set_nth_set_nth {A} n (x y : A) l :
  set_nth n x (set_nth n y l) = set_nth n x l.
Proof.
  revert n. induction l as [|z l IH]; intros [|n]; cbn; auto.
  rewrite IH. reflexivity.
Qed.

Lemma pop_after_count t ts tk b rest q c e p l cnt :
  nth_error ts t = Some tk -> todo tk = b :: rest ->
  pop_todo t (mkState (set_nth t (mkTask (todo tk) cnt (finished tk)) ts)
                      q c e p l)
  = mkState (set_nth t (mkTask rest cnt (finished tk)) ts) q c e p l.
Proof.
  intros Ht Htodo. unfold pop_todo. cbn [tasks].
  rewrite (nth_error_set_nth_eq _ _ _ _ Ht). cbn.
  rewrite set_nth_set_nth, Htodo. reflexivity.
Qed.

Lemma put_fits_sound pp Q maxr tree t s tk b rest :
  put_params_ok pp ->
  core_list tree = put_result_core ->
  nth_error (tasks s) t = Some tk -> todo tk = b :: rest ->
  1 <= maxr -> lenZ (queue s) < Q ->
  exists s', step Q s (Put t) = Some s' /\
  run_put pp Q maxr false tree t s = Some (mkPR s' true 1 0 maxr).
Proof.
  intros [Hc Hd Hi Hl Hf Ho] Hshape Ht Htodo Hm Hq.
  unfold run_put. rewrite Ht, Htodo, Hshape. unfold put_result_core.
  destruct s as [ts q c e p l]. cbn [tasks queue] in *.
  cbn [step tasks queue]. rewrite Ht, Htodo.
  replace (lenZ q <? Q) with true by (symmetry; apply Z.ltb_lt; lia).
  eexists. split; [reflexivity|].
  cbn. rewrite Ht. cbn. rewrite Hd. cbn. rewrite iloop_S. cbn.
  rewrite Hl, Hi.
  replace (0 <? maxr) with true by (symmetry; apply Z.ltb_lt; lia).
  rewrite Hf, Z.eqb_refl. cbn.
  replace (lenZ q <? Q) with true by (symmetry; apply Z.ltb_lt; lia).
  cbn.
  destruct (pp_gaveup pp maxr); cbn; rewrite Hc;
    unfold set_queue, set_tasks;
    cbn [tasks queue collected expected ph lost];
    rewrite (pop_after_count _ _ _ _ _ _ _ _ _ _ _ Ht Htodo); reflexivity.
Qed.

Definition retry_next (st : pst) : pst :=
  mkP (p_s st) (p_tries st - 1) true false (p_nowait st) (p_block st + 1) [].

Lemma iter_retry k s tr nw bl :
  iter_n k retry_next (mkP s tr true false nw bl [])
  = mkP s (tr - Z.of_nat k) true false nw (bl + Z.of_nat k) [].
Proof.
  revert tr bl. induction k as [|k IH]; intros tr bl.
  - cbn [iter_n]. f_equal; lia.
  - cbn [iter_n]. unfold retry_next at 2. cbn [p_s p_tries p_nowait p_block].
    rewrite IH. f_equal; lia.
Qed.

Lemma put_full_sound pp Q maxr tree t s tk b rest :
  put_params_ok pp ->
  core_list tree = put_result_core ->
  nth_error (tasks s) t = Some tk -> todo tk = b :: rest ->
  1 <= maxr -> Q <= lenZ (queue s) ->
  exists s', step Q s (Drop t) = Some s' /\
  run_put pp Q maxr false tree t s = Some (mkPR s' false 1 (maxr - 1) 0).
Proof.
  intros [Hc Hd Hi Hl Hf Ho] Hshape Ht Htodo Hm Hq.
  unfold run_put. rewrite Ht, Htodo, Hshape. unfold put_result_core.
  destruct s as [ts q c e p l]. cbn [tasks queue] in *.
  cbn [step tasks queue]. rewrite Ht, Htodo.
  eexists. split; [reflexivity|].
  cbn. rewrite Ht. cbn. rewrite Hd. cbn. rewrite iloop_S. cbn.
  rewrite Hl, Hi.
  replace (0 <? maxr) with true by (symmetry; apply Z.ltb_lt; lia).
  rewrite Hf, Z.eqb_refl. cbn.
  replace (lenZ q <? Q) with false by (symmetry; apply Z.ltb_ge; lia).
  cbn. rewrite Hf, Z.eqb_refl, Ho. cbn.
  unfold p_clear. cbn [p_s p_tries p_counted p_done p_nowait p_block p_reads].
  set (s1 := set_tasks _ _).
  assert (Hfull : (lenZ q <? Q) = false) by (apply Z.ltb_ge; exact Hq).
  match goal with |- context [iloop pst ?fu ?cn ?bd ?st0] =>
    rewrite (iloop_count cn bd retry_next
               (fun st => Z.to_nat (p_tries st))
               (fun st => p_s st = s1 /\ p_counted st = true /\
                          p_done st = false /\ 0 <= p_tries st < maxr /\
                          p_reads st = []))
  end.
  - cbn [p_tries]. rewrite iter_retry. cbn.
    rewrite Z2Nat.id by lia.
    replace (maxr - 1 - (maxr - 1)) with 0 by lia.
    destruct (pp_gaveup pp 0); cbn; subst s1; rewrite Hc;
      unfold set_queue, set_tasks;
      cbn [tasks queue collected expected ph lost];
      rewrite (pop_after_count _ _ _ _ _ _ _ _ _ _ _ Ht Htodo); reflexivity.
  - intros st (Hs & Hcn & Hdn & Htr & Hrd). rewrite Hl.
    destruct (Z.to_nat (p_tries st)) eqn:E; cbn [Nat.eqb negb].
    + apply Z.ltb_ge. lia.
    + apply Z.ltb_lt. lia.
  - intros [s' tr cn dn nw bl rd] (Hs & Hcn & Hdn & Htr & Hrd) Hm0.
    cbn [p_s p_tries p_counted p_done p_nowait p_block p_reads] in *.
    subst s' cn dn rd.
    rewrite !Hf. replace (tr =? maxr) with false
      by (symmetry; apply Z.eqb_neq; lia).
    cbn. rewrite Hfull. cbn. rewrite Hf.
    replace (tr =? maxr) with false by (symmetry; apply Z.eqb_neq; lia).
    cbn. rewrite Ho, Z.add_0_r. unfold retry_next. cbn.
    repeat split; try lia.
  - cbn. repeat split; lia.
  - cbn [p_tries]. lia.
Qed.

(* single-process mode: the batch goes straight into the collection *)
Lemma put_direct_sound pp Q maxr tree t s tk b rest :
  put_params_ok pp ->
  core_list tree = put_result_core ->
  nth_error (tasks s) t = Some tk -> todo tk = b :: rest ->
  run_put pp Q maxr true tree t s
  = Some (mkPR (mkState (set_nth t (mkTask rest (sent tk + lenZ b)
                                           (finished tk)) (tasks s))
                        (queue s) (add_batch b (collected s)) (expected s)
                        (ph s) (lost s))
               true 0 0 maxr).
Proof.
  intros [Hc Hd Hi Hl Hf Ho] Hshape Ht Htodo.
  unfold run_put. rewrite Ht, Htodo, Hshape. unfold put_result_core.
  destruct s as [ts q c e p l]. cbn [tasks queue collected expected ph lost] in *.
  cbn. rewrite Ht. cbn. rewrite Hd. cbn. rewrite Hc, Hi.
  unfold set_collected, set_tasks.
  cbn [tasks queue collected expected ph lost].
  rewrite (pop_after_count _ _ _ _ _ _ _ _ _ _ _ Ht Htodo). reflexivity.
Qed.

(* ----------------------------------------------------------- ThreadManager *)
Definition tm_init_tree : list stm :=
  [SEv (Call "event_new"); SEv (Call "event_clear"); SEv (Call "thread_new");
   SEv (Wr "running")].
Definition tm_start_tree : list stm :=
  [SEv (Call "thread_start"); SEv (Wr "running")].
Definition tm_stop_tree : list stm :=
  [SEv (Rd "running");
   SIf [SEv (Call "event_set"); SEv (Call "thread_join"); SEv (Wr "running")]
       []].

Lemma tm_init_sound t st :
  t = tm_init_tree -> run_tm false [] t st = Some (mkTM false false true false (tm_sets st) (tm_joins st) []).
Proof. intros ->. destruct st. reflexivity. Qed.

Lemma tm_start_sound t st :
  t = tm_start_tree -> run_tm true [] t st = tm_model_start st.
Proof.
  intros ->. destruct st as [r e c a s j rd]. unfold tm_model_start.
  cbn. destruct c, a; reflexivity.
Qed.

Lemma tm_stop_sound t test st :
  t = tm_stop_tree -> (forall b, test b = b) ->
  run_tm false (tm_stop_guards test) t st = tm_model_stop st.
Proof.
  intros -> Ht. destruct st as [r e c a s j rd]. unfold tm_model_stop.
  unfold run_tm, tm_stop_tree, tm_stop_guards. cbn.
  rewrite Ht. destruct r, a; reflexivity.
Qed.

(* stop() is idempotent: the second stop() of _run_mp's `finally` does
   nothing; a started manager is stopped by exactly one set and one join *)
Lemma tm_stop_twice st st1 :
  tm_model_stop st = Some st1 -> tm_model_stop st1 = Some st1.
Proof.
  destruct st as [r e c a s j rd]. unfold tm_model_stop. cbn.
  destruct r, a; intros H; inversion H; subst; reflexivity.
Qed.

Lemma tm_lifecycle st1 st2 :
  tm_model_start tm_new = Some st1 -> tm_model_stop st1 = Some st2 ->
  st2 = mkTM false true true false 1 1 [].
Proof.
  cbn. intros H1 H2. inversion H1; subst. cbn in H2. inversion H2.
  reflexivity.
Qed.

(* --------------------------------------------------------- source id table *)
Lemma nodup_snoc {A} (l : list A) x : NoDup l -> ~ In x l -> NoDup (l ++ [x]).
Proof.
  induction l as [|y l IH]; intros Hnd Hx; cbn.
  - constructor; [intros []|constructor].
  - inversion Hnd as [|? ? Hy Hl]; subst. constructor.
    + intros Hin. apply in_app_or in Hin. destruct Hin as [Hin|[E|[]]].
      * contradiction.
      * subst. apply Hx. left. reflexivity.
    + apply IH; auto. intros Hin. apply Hx. right. exact Hin.
Qed.

Section SourceIdsProofs.
  Variable Pth : Type.
  Variable same : Pth -> Pth -> bool.
  Variable first_id : Z.
  Variable fresh : Z -> Z.
  Hypothesis same_spec : forall a b, same a b = true <-> a = b.
  Hypothesis fresh_above : forall m, m < fresh m.

  Notation lookup := (lookup_id Pth same).
  Notation maxid := (max_id Pth first_id).

  Lemma max_id_ge i p (tbl : idtable Pth) :
    In (i, p) tbl -> i <= maxid tbl.
  Proof.
    induction tbl as [|[j q] r IH]; intros Hin; [contradiction|].
    destruct Hin as [E|Hin].
    - inversion E; subst. destruct r as [|e r']; cbn; [lia|].
      destruct e. lia.
    - specialize (IH Hin). destruct r as [|e r']; [contradiction|].
      cbn [max_id]. destruct e as [k q']. cbn [max_id] in IH. lia.
  Qed.

  Lemma lookup_some p (tbl : idtable Pth) i :
    lookup p tbl = Some i -> In (i, p) tbl.
  Proof.
    induction tbl as [|[j q] r IH]; cbn; intros H; [discriminate|].
    destruct (same q p) eqn:E.
    - inversion H; subst. apply same_spec in E. subst. auto.
    - auto.
  Qed.

  Lemma nodup_fst_functional (tbl : idtable Pth) i p q :
    NoDup (map fst tbl) -> In (i, p) tbl -> In (i, q) tbl -> p = q.
  Proof.
    induction tbl as [|[j r] t IH]; intros Hnd Hp Hq; [contradiction|].
    cbn in Hnd. inversion Hnd as [|? ? Hnotin Hnd']; subst.
    destruct Hp as [Ep|Hp], Hq as [Eq|Hq].
    - congruence.
    - inversion Ep; subst. exfalso. apply Hnotin.
      apply (in_map fst) in Hq. exact Hq.
    - inversion Eq; subst. exfalso. apply Hnotin.
      apply (in_map fst) in Hp. exact Hp.
    - eauto.
  Qed.

  Lemma get_source_id_nodup p (tbl : idtable Pth) :
    NoDup (map fst tbl) ->
    NoDup (map fst (snd (get_source_id Pth same first_id fresh p tbl))).
  Proof.
    intros Hnd. unfold get_source_id.
    destruct (lookup p tbl); cbn [snd]; [exact Hnd|].
    rewrite map_app. cbn [map fst].
    apply nodup_snoc; [exact Hnd|].
    intros Hin. apply in_map_iff in Hin. destruct Hin as [[j q] [Ej Hin]].
    cbn in Ej. subst j. pose proof (max_id_ge _ _ _ Hin) as Hle.
    unfold new_id in Hle. destruct tbl as [|e r]; [contradiction|].
    pose proof (fresh_above (maxid (e :: r))). lia.
  Qed.

  Lemma register_all_nodup ps :
    NoDup (map fst (register_all Pth same first_id fresh ps)).
  Proof.
    unfold register_all.
    assert (H : forall t, NoDup (map fst t) ->
              NoDup (map fst (fold_left
                (fun t p => snd (get_source_id Pth same first_id fresh p t))
                ps t))).
    { induction ps as [|p r IH]; intros t Ht; cbn; auto.
      apply IH. apply get_source_id_nodup. exact Ht. }
    apply H. constructor.
  Qed.

  (* distinct registered paths never share a source id *)
  Lemma source_ids_injective ps p q i :
    let tbl := register_all Pth same first_id fresh ps in
    lookup p tbl = Some i -> lookup q tbl = Some i -> p = q.
  Proof.
    intros tbl Hp Hq.
    eapply nodup_fst_functional.
    - apply (register_all_nodup ps).
    - apply lookup_some. exact Hp.
    - apply lookup_some. exact Hq.
  Qed.
End SourceIdsProofs.
