(* C02 - concrete runs used as non-vacuity examples. *)
From Coq Require Import ZArith List Bool Arith Lia.
From SK Require Import Model.Base Model.Pipeline Spec.Pipeline Proofs.Pipeline.
Import ListNotations.
Open Scope Z_scope.

(* two files: file 0 yields results 1,2,3 in batches [1;2] [3]; file 1
   yields 10,11,12 in batches [10] [11;12] *)
Definition exP : list (list (list Z)) := [[[1; 2]; [3]]; [[10]; [11; 12]]].

(* capacity 1: the first Put 1 and the second Put 0 meet a full queue and
   are stutters *)
Definition ex_sched_q1 : list action :=
  [Put 0; Put 1; Collect; Put 1; Put 0; Collect; Put 0; Collect; Put 1;
   Collect; Finish 0; Finish 1; StartPurge; Return]%nat.

(* capacity 2, the last two batches are taken by the purge *)
Definition ex_sched_q2 : list action :=
  [Put 0; Put 1; Collect; Collect; Put 1; Put 0; Finish 1; Finish 0;
   StartPurge; PurgeStep; PurgeStep; Return]%nat.

(* a give-up: file 1's first batch is dropped; Return is never enabled *)
Definition ex_sched_drop : list action :=
  [Put 0; Drop 1; Collect; Put 0; Put 1; Collect; Collect; Finish 0;
   Finish 1; StartPurge; Return; Return]%nat.

(* an infinite schedule: ex_sched_q2 followed by stutters *)
Definition ex_sigma (n : nat) : action := nth n ex_sched_q2 Tick.

Lemma ex_sigma_fair : fair 2 ex_sigma (init exP).
Proof.
  intros n Hn.
  destruct (le_lt_dec 12 n) as [Hge|Hlt].
  - exfalso. apply Hn.
    apply (run_n_returned_stable 2 ex_sigma (init exP) 12 n Hge).
    vm_compute. reflexivity.
  - do 12 (destruct n as [|n];
           [eexists; split; [apply le_n|vm_compute; discriminate]|]).
    lia.
Qed.
