(* CAPSTONE 2, bridge (M2): the completion order of the futures, read off a
   schedule of Model/Pipeline.v ([finish_order]: its effective Finish
   actions), is - for every schedule that reaches the return of run() - a
   permutation of all the tasks.  This is the "any completion order" that
   C17_stats_exact quantifies over. *)
From Coq Require Import ZArith List Bool Arith Lia Permutation.
From SK Require Import Model.Base Model.Pipeline Spec.Pipeline Proofs.Pipeline
     Model.RunMp.
Import ListNotations.
Open Scope Z_scope.

(* has the future of task t completed (and been merged)? *)
Definition fin (s : gstate) (t : nat) : bool :=
  match nth_error (tasks s) t with
  | Some tk => finished tk
  | None => false
  end.

Lemma length_set_nth {A} n (x : A) l : length (set_nth n x l) = length l.
Proof.
  revert n. induction l as [|y l IH]; intros [|n]; cbn; auto.
Qed.

Lemma fin_set_nth s t n tk0 tk :
  nth_error (tasks s) n = Some tk0 ->
  match nth_error (set_nth n tk (tasks s)) t with
  | Some x => finished x
  | None => false
  end = if Nat.eqb t n then finished tk else fin s t.
Proof.
  intros Hn. unfold fin. destruct (Nat.eqb_spec t n) as [->|Hne].
  - rewrite (nth_error_set_nth_eq n tk tk0 _ Hn). reflexivity.
  - rewrite nth_error_set_nth_ne by congruence. reflexivity.
Qed.

(* what one step does to the completion flags and to the number of tasks *)
Lemma step_fin Q s a s' :
  step Q s a = Some s' ->
  length (tasks s') = length (tasks s) /\
  forall t, fin s' t = match a with
                       | Finish t0 => Nat.eqb t t0 || fin s t
                       | _ => fin s t
                       end.
Proof.
  intros Hs. destruct a as [t0|t0|t0| | | | |].
  - destruct (step_Put_inv _ _ _ _ Hs) as (tk & b & rest & Hn & _ & _ & ->).
    split; [apply length_set_nth|]. intros t. unfold fin at 1. cbn [tasks].
    rewrite (fin_set_nth s t t0 tk _ Hn). cbn [finished].
    destruct (Nat.eqb_spec t t0) as [->|]; [|reflexivity].
    unfold fin. rewrite Hn. reflexivity.
  - destruct (step_Drop_inv _ _ _ _ Hs) as (tk & b & rest & Hn & _ & ->).
    split; [apply length_set_nth|]. intros t. unfold fin at 1. cbn [tasks].
    rewrite (fin_set_nth s t t0 tk _ Hn). cbn [finished].
    destruct (Nat.eqb_spec t t0) as [->|]; [|reflexivity].
    unfold fin. rewrite Hn. reflexivity.
  - destruct (step_Finish_inv _ _ _ _ Hs) as (tk & Hn & _ & _ & ->).
    split; [apply length_set_nth|]. intros t. unfold fin at 1. cbn [tasks].
    rewrite (fin_set_nth s t t0 tk _ Hn). cbn [finished].
    destruct (Nat.eqb t t0); reflexivity.
  - destruct (step_Collect_inv _ _ _ Hs) as (b & q & _ & _ & ->).
    split; [reflexivity|]. intros t. reflexivity.
  - destruct (step_StartPurge_inv _ _ _ Hs) as (_ & _ & ->).
    split; [reflexivity|]. intros t. reflexivity.
  - destruct (step_PurgeStep_inv _ _ _ Hs) as (b & q & _ & _ & ->).
    split; [reflexivity|]. intros t. reflexivity.
  - destruct (step_Return_inv _ _ _ Hs) as (_ & _ & _ & ->).
    split; [reflexivity|]. intros t. reflexivity.
  - discriminate.
Qed.

Lemma step_Finish_was_unfinished Q s t s' :
  step Q s (Finish t) = Some s' -> fin s t = false.
Proof.
  intros Hs. destruct (step_Finish_inv _ _ _ _ Hs) as (tk & Hn & _ & Hf & _).
  unfold fin. rewrite Hn. exact Hf.
Qed.

(* along any schedule: the completion order has no repetition, lists only
   tasks that were not yet complete, and the flags at the end are the flags
   at the start plus the order *)
Lemma finish_order_spec Q : forall sched s,
  NoDup (finish_order Q sched s) /\
  (forall t, In t (finish_order Q sched s) -> fin s t = false) /\
  length (tasks (Pipeline.run Q sched s)) = length (tasks s) /\
  (forall t, fin (Pipeline.run Q sched s) t =
             fin s t || existsb (Nat.eqb t) (finish_order Q sched s)).
Proof.
  induction sched as [|a r IH]; intros s.
  - cbn. repeat split; [constructor|intros t []|].
    intros t. rewrite orb_false_r. reflexivity.
  - rewrite run_cons. unfold exec. cbn [finish_order].
    destruct (step Q s a) as [s'|] eqn:Es; [|apply IH].
    destruct (IH s') as (Hnd & Hin & Hlen & Hfin).
    destruct (step_fin Q s a s' Es) as (Hl' & Hf').
    assert (Hgen : forall ord,
      NoDup ord -> (forall t, In t ord -> fin s t = false) ->
      (forall t, fin (Pipeline.run Q r s') t =
                 fin s t || existsb (Nat.eqb t) ord) ->
      NoDup ord /\ (forall t, In t ord -> fin s t = false) /\
      length (tasks (Pipeline.run Q r s')) = length (tasks s) /\
      (forall t, fin (Pipeline.run Q r s') t =
                 fin s t || existsb (Nat.eqb t) ord)).
    { intros ord H1 H2 H3. repeat split; auto. congruence. }
    destruct a as [t0|t0|t0| | | | |];
      try (apply Hgen; [exact Hnd| |];
           [intros t Ht; rewrite <- Hf'; apply Hin; exact Ht
           |intros t; rewrite Hfin, Hf'; reflexivity]).
    (* Finish t0 *)
    apply Hgen.
    + constructor; [|exact Hnd]. intros Hi. apply Hin in Hi.
      rewrite Hf', Nat.eqb_refl in Hi. discriminate.
    + intros t [<-|Ht]; [exact (step_Finish_was_unfinished _ _ _ _ Es)|].
      apply Hin in Ht. rewrite Hf' in Ht. apply orb_false_iff in Ht. tauto.
    + intros t. rewrite Hfin, Hf'. cbn [existsb].
      destruct (Nat.eqb t t0), (fin s t); reflexivity.
Qed.

Lemma fin_init P t : fin (init P) t = false.
Proof.
  unfold fin, init. cbn [tasks]. rewrite nth_error_tag_tasks.
  destruct (nth_error P t); reflexivity.
Qed.

Lemma length_tag_tasks t0 P : length (tag_tasks t0 P) = length P.
Proof. revert t0. induction P as [|bs P IH]; intros t0; cbn; auto. Qed.

(* THE BRIDGE: a schedule that reaches the return of run() completes every
   future exactly once *)
Theorem finish_order_permutation P Q sched :
  ph (Pipeline.run Q sched (init P)) = Returned ->
  Permutation (finish_order Q sched (init P)) (seq 0 (length P)).
Proof.
  intros Hret.
  destruct (finish_order_spec Q sched (init P)) as (Hnd & _ & Hlen & Hfin).
  pose proof (returned_complete P Q sched Hret) as (Hall & _).
  cbn [init tasks] in Hlen. rewrite length_tag_tasks in Hlen.
  apply NoDup_Permutation; [exact Hnd|apply seq_NoDup|].
  intros t. rewrite in_seq. split.
  - intros Ht. assert (Hf : fin (Pipeline.run Q sched (init P)) t = true).
    { rewrite Hfin, fin_init. cbn [orb]. apply existsb_exists.
      exists t. split; [exact Ht|apply Nat.eqb_refl]. }
    unfold fin in Hf.
    destruct (nth_error (tasks (Pipeline.run Q sched (init P))) t) eqn:En;
      [|discriminate].
    assert (t < length (tasks (Pipeline.run Q sched (init P))))%nat
      by (apply nth_error_Some; congruence).
    lia.
  - intros [_ Ht]. cbn in Ht.
    assert (Hs : nth_error (tasks (Pipeline.run Q sched (init P))) t <> None)
      by (apply nth_error_Some; lia).
    destruct (nth_error (tasks (Pipeline.run Q sched (init P))) t) as [tk|]
      eqn:En; [|congruence].
    pose proof (forallb_nth_error _ _ _ _ Hall En) as Hft.
    assert (Hf : fin (Pipeline.run Q sched (init P)) t = true)
      by (unfold fin; rewrite En; exact Hft).
    rewrite Hfin, fin_init in Hf. cbn [orb] in Hf.
    apply existsb_exists in Hf. destruct Hf as (x & Hx & Ex).
    apply Nat.eqb_eq in Ex. subst x. exact Hx.
Qed.
