(* C19 - the executable checker of Spec/Cache.v is sound:
     lin_ok chron = true -> linearizable (rev chron)
   (chron is chronological, the Prop is stated on newest-first histories).
   The proof follows the search: whenever lin_search places a point, the
   annotated history built so far stays legal and bracketed. *)
From Coq Require Import ZArith List Bool Arith Lia.
From SK Require Import Spec.Cache Proofs.CacheInv.
Import ListNotations.
Open Scope nat_scope.

(* ---------------- small facts about the checker's tables ------------- *)
Lemma op_key_eqb_eq a b : op_key_eqb a b = true -> a = b.
Proof.
  destruct a, b. unfold op_key_eqb. simpl. intros H.
  apply andb_true_iff in H. destruct H as [H1 H2].
  apply Nat.eqb_eq in H1. apply Nat.eqb_eq in H2. subst. reflexivity.
Qed.

Lemma op_key_eqb_refl a : op_key_eqb a a = true.
Proof. destruct a. unfold op_key_eqb. simpl. rewrite !Nat.eqb_refl. reflexivity. Qed.

Lemma res_eqb_eq a b : res_eqb a b = true -> a = b.
Proof.
  destruct a as [|[x|]|], b as [|[y|]|]; simpl; intros H;
    try discriminate; try reflexivity.
  apply Z.eqb_eq in H. subst. reflexivity.
Qed.

Lemma kvs_eqb_eq a : forall b, kvs_eqb a b = true -> a = b.
Proof.
  induction a as [|[k v] a IH]; destruct b as [|[k' v'] b]; simpl; intros H;
    try discriminate; [reflexivity|].
  apply andb_true_iff in H. destruct H as [H H3].
  apply andb_true_iff in H. destruct H as [H1 H2].
  apply Z.eqb_eq in H1. apply Z.eqb_eq in H2. apply IH in H3.
  subst. reflexivity.
Qed.

Lemma op_eqb_eq a b : op_eqb a b = true -> a = b.
Proof.
  destruct a, b; simpl; intros H; try discriminate.
  - apply andb_true_iff in H. destruct H as [H1 H2].
    apply Z.eqb_eq in H1. apply Z.eqb_eq in H2. subst. reflexivity.
  - apply kvs_eqb_eq in H. subst. reflexivity.
  - apply Z.eqb_eq in H. subst. reflexivity.
  - apply Z.eqb_eq in H. subst. reflexivity.
Qed.

Lemma find_id_in {A} id (l : list (nat * nat * A)) a :
  find_id id l = Some a -> In (id, a) l.
Proof.
  induction l as [|[x b] l IH]; simpl; intros H; [discriminate|].
  destruct (op_key_eqb x id) eqn:E.
  - inversion H; subst. apply op_key_eqb_eq in E. subst. left. reflexivity.
  - right. apply IH. exact H.
Qed.

Lemma remove_id_in id l x : In x (remove_id id l) -> In x l.
Proof.
  induction l as [|[y o] l IH]; simpl; intros H; [exact H|].
  destruct (op_key_eqb y id).
  - right. exact H.
  - destruct H as [H|H]; [left; exact H|right; apply IH; exact H].
Qed.

Lemma remove_id_nodup id l :
  NoDup (map fst l) -> NoDup (map fst (remove_id id l)).
Proof.
  induction l as [|[y o] l IH]; simpl; intros H; [exact H|].
  inversion H as [|? ? Hn Hd]; subst.
  destruct (op_key_eqb y id); [exact Hd|].
  simpl. constructor; [|apply IH; exact Hd].
  intros Hin. apply Hn. apply in_map_iff in Hin.
  destruct Hin as [[z o'] [Hz Hin]]. simpl in Hz. subst z.
  apply remove_id_in in Hin. apply in_map_iff. exists (y, o'). auto.
Qed.

Lemma remove_id_gone id l a :
  NoDup (map fst l) -> ~ In (id, a) (remove_id id l).
Proof.
  induction l as [|[y o] l IH]; simpl; intros H Hin; [exact Hin|].
  inversion H as [|? ? Hn Hd]; subst.
  destruct (op_key_eqb y id) eqn:E.
  - apply op_key_eqb_eq in E. subst y. apply Hn.
    apply in_map_iff. exists (id, a). auto.
  - destruct Hin as [Hin|Hin].
    + inversion Hin; subst. rewrite op_key_eqb_refl in E. discriminate.
    + apply IH; assumption.
Qed.

Lemma lazy_exists_true {A} (k : A -> bool) l :
  lazy_exists k l = true -> exists y, In y l /\ k y = true.
Proof.
  induction l as [|y l IH]; simpl; intros H; [discriminate|].
  destruct (k y) eqn:E.
  - exists y. auto.
  - destruct (IH H) as [z [Hz Hk]]. exists z. auto.
Qed.

(* ---------------- the invariant of the search ------------------------ *)
Definition plain (ph : phase) : pstatus :=
  match ph with
  | PIdle n => (n, None)
  | PInv n o => (n, Some o)
  | PLin n o _ => (n, Some o)
  end.

(* the entries of process p in the two tables agree with p's phase *)
Definition entries_ok (p : nat) (ph : phase)
           (pending : list (nat * nat * op)) (linned : list (nat * nat * res))
  : Prop :=
  match ph with
  | PIdle n =>
      (forall i o, ~ In (p, i, o) pending) /\
      (forall i r, In (p, i, r) linned -> i < n)
  | PInv n o =>
      (forall i o', In (p, i, o') pending -> i = n /\ o' = o) /\
      (forall i r, In (p, i, r) linned -> i < n)
  | PLin n o r =>
      (forall i o', ~ In (p, i, o') pending) /\
      (forall i r', In (p, i, r') linned -> i < n \/ (i = n /\ r' = r))
  end.

Lemma entries_ok_mono q ph pending linned pending' linned' :
  (forall i o, In (q, i, o) pending' -> In (q, i, o) pending) ->
  (forall i r, In (q, i, r) linned' -> In (q, i, r) linned) ->
  entries_ok q ph pending linned -> entries_ok q ph pending' linned'.
Proof.
  intros Hp Hl H. destruct ph; simpl in *; destruct H as [A B]; split;
    intros; eauto.
  intros Hin. eapply A; eauto.
  intros Hin. eapply A; eauto.
Qed.

Record Good (h : list hev) (d : store) (pending : list (nat * nat * op))
       (linned : list (nat * nat * res)) (st : nat -> pstatus) : Prop := {
  g_sigma : forall k, sigma h k = d k;
  g_legal : lin_legal h;
  g_nodup : NoDup (map fst pending);
  g_proc : forall p, exists ph,
      phase_of p h ph /\ st p = plain ph /\ entries_ok p ph pending linned }.

(* one event of process p is added; p's phase changes, the others keep
   theirs *)
Lemma good_step h d pending linned st e p ph' d' pending' linned' st' :
  Good h d pending linned st ->
  hev_pid e = p ->
  phase_of p (e :: h) ph' ->
  st' p = plain ph' ->
  (forall q, q <> p -> st' q = st q) ->
  entries_ok p ph' pending' linned' ->
  (forall q i o, q <> p -> In (q, i, o) pending' -> In (q, i, o) pending) ->
  (forall q i r, q <> p -> In (q, i, r) linned' -> In (q, i, r) linned) ->
  (forall k, sigma (e :: h) k = d' k) ->
  lin_legal (e :: h) ->
  NoDup (map fst pending') ->
  Good (e :: h) d' pending' linned' st'.
Proof.
  intros G He Hph Hst Hst' Hent Hp Hl Hs Hleg Hnd.
  constructor; auto.
  intros q. destruct (Nat.eq_dec q p) as [->|Hn].
  - exists ph'. auto.
  - destruct (g_proc _ _ _ _ _ G q) as [ph [A [B C]]].
    exists ph. split; [|split].
    + apply ph_other; [congruence|exact A].
    + rewrite Hst'; auto.
    + eapply entries_ok_mono; [| |exact C]; eauto.
Qed.

Lemma set_status_same st p x : set_status st p x p = x.
Proof. unfold set_status. rewrite Nat.eqb_refl. reflexivity. Qed.

Lemma set_status_other st p x q : q <> p -> set_status st p x q = st q.
Proof.
  intros H. unfold set_status. apply Nat.eqb_neq in H. rewrite H. reflexivity.
Qed.

Lemma plain_idle ph n : plain ph = (n, None) -> ph = PIdle n.
Proof. destruct ph; simpl; intros H; inversion H; reflexivity. Qed.

Lemma search_sound : forall f d pending linned evs h st,
  lin_search f d pending linned evs = true ->
  wf_run st evs = true ->
  Good h d pending linned st ->
  exists h', ann_ok h' /\ erase h' = (rev evs ++ erase h)%list.
Proof.
  induction f as [|f IH]; intros d pending linned evs h st Hs Hw G;
    [discriminate|].
  destruct evs as [|e r].
  - (* no more events *)
    exists h. split; [|reflexivity]. split; [apply (g_legal _ _ _ _ _ G)|].
    intros p. destruct (g_proc _ _ _ _ _ G p) as [ph [A _]]. eauto.
  - destruct e as [p i o|p i o rv|p i o rv]; [| simpl in Hw; discriminate |].
    + (* invocation *)
      simpl in Hs, Hw.
      destruct (st p) as [n [o0|]] eqn:Est; [discriminate|].
      apply andb_true_iff in Hw. destruct Hw as [Hi Hw].
      apply Nat.eqb_eq in Hi. subst i.
      destruct (g_proc _ _ _ _ _ G p) as [ph [A [B C]]].
      rewrite Est in B. symmetry in B. apply plain_idle in B. subst ph.
      simpl in C. destruct C as [C1 C2].
      assert (G' : Good (HInv p n o :: h) d ((p, n, o) :: pending) linned
                        (set_status st p (n, Some o))).
      { eapply good_step with (p := p) (ph' := PInv n o); eauto.
        - apply ph_inv. exact A.
        - apply set_status_same.
        - intros q Hq. apply set_status_other. exact Hq.
        - simpl. split.
          + intros i o' [Hin|Hin].
            * inversion Hin; subst. auto.
            * exfalso. eapply C1; eauto.
          + exact C2.
        - intros q i o' Hq [Hin|Hin]; [inversion Hin; congruence|exact Hin].
        - simpl. apply (g_sigma _ _ _ _ _ G).
        - simpl. apply (g_legal _ _ _ _ _ G).
        - simpl. constructor; [|apply (g_nodup _ _ _ _ _ G)].
          intros Hin. apply in_map_iff in Hin.
          destruct Hin as [[z o'] [Hz Hin]]. simpl in Hz. subst z.
          eapply C1; eauto. }
      destruct (IH _ _ _ _ _ _ Hs Hw G') as [h' [Hok He]].
      exists h'. split; [exact Hok|]. rewrite He. simpl.
      rewrite <- app_assoc. reflexivity.
    + (* response *)
      pose proof Hw as Hw0.
      simpl in Hw.
      destruct (st p) as [n [o0|]] eqn:Est; [|discriminate].
      apply andb_true_iff in Hw. destruct Hw as [Hw Hw3].
      apply andb_true_iff in Hw. destruct Hw as [Hi Ho].
      apply Nat.eqb_eq in Hi. subst i. apply op_eqb_eq in Ho. subst o0.
      destruct (g_proc _ _ _ _ _ G p) as [ph [A [B C]]].
      rewrite Est in B.
      cbn [lin_search] in Hs.
      destruct (find_id (p, n) linned) as [rv'|] eqn:Efl.
      * (* its point was placed earlier *)
        destruct (res_eqb rv rv') eqn:Er; [|discriminate].
        apply res_eqb_eq in Er. subst rv'.
        apply find_id_in in Efl.
        destruct ph as [m|m o1|m o1 r1]; simpl in B; [discriminate B| |];
          injection B as Hm Ho1; subst m o1.
        { simpl in C. destruct C as [_ C2]. apply C2 in Efl. lia. }
        simpl in C. destruct C as [C1 C2].
        destruct (C2 _ _ Efl) as [Hlt|[_ Hr]]; [lia|]. subst r1.
        assert (G' : Good (HRes p n o rv :: h) d pending linned
                          (set_status st p (S n, None))).
        { eapply good_step with (p := p) (ph' := PIdle (S n)); eauto.
          - apply ph_res. exact A.
          - apply set_status_same.
          - intros q Hq. apply set_status_other. exact Hq.
          - simpl. split; [exact C1|].
            intros i r' Hin. destruct (C2 _ _ Hin) as [Hlt|[-> _]]; lia.
          - simpl. apply (g_sigma _ _ _ _ _ G).
          - simpl. apply (g_legal _ _ _ _ _ G).
          - apply (g_nodup _ _ _ _ _ G). }
        destruct (IH _ _ _ _ _ _ Hs Hw3 G') as [h' [Hok He]].
        exists h'. split; [exact Hok|]. rewrite He. simpl.
        rewrite <- app_assoc. reflexivity.
      * destruct (find_id (p, n) pending) as [o'|] eqn:Efp; [|discriminate].
        apply find_id_in in Efp.
        destruct ph as [m|m o1|m o1 r1]; simpl in B; [discriminate B| |];
          injection B as Hm Ho1; subst m o1.
        2:{ simpl in C. destruct C as [C1 _]. exfalso. eapply C1; eauto. }
        simpl in C. destruct C as [C1 C2].
        destruct (C1 _ _ Efp) as [_ ->].
        match type of Hs with
        | (if ?c then true else ?alt) = true =>
            destruct c eqn:Enow
        end.
        -- (* the point of this operation is placed now *)
           destruct (res_eqb rv (reg_res o d)) eqn:Er; [|discriminate].
           apply res_eqb_eq in Er.
           assert (Hnone : forall i o',
                      ~ In (p, i, o') (remove_id (p, n) pending)).
           { intros i o' Hin. pose proof (remove_id_in _ _ _ Hin) as Hin'.
             destruct (C1 _ _ Hin') as [-> ->].
             eapply remove_id_gone; [apply (g_nodup _ _ _ _ _ G)|eauto]. }
           assert (G1 : Good (HLin p n o rv :: h) (reg_apply o d)
                             (remove_id (p, n) pending) linned st).
           { eapply good_step with (p := p) (ph' := PLin n o rv); eauto.
             - apply ph_lin. exact A.
             - simpl. split; [exact Hnone|].
               intros i r' Hin. left. eapply C2; eauto.
             - intros q i o' _ Hin. eapply remove_id_in; eauto.
             - intros k. simpl. apply reg_apply_ext.
               apply (g_sigma _ _ _ _ _ G).
             - simpl. split; [|apply (g_legal _ _ _ _ _ G)].
               rewrite Er. apply reg_res_ext. intros k. symmetry.
               apply (g_sigma _ _ _ _ _ G).
             - apply remove_id_nodup. apply (g_nodup _ _ _ _ _ G). }
           assert (G' : Good (HRes p n o rv :: HLin p n o rv :: h)
                             (reg_apply o d) (remove_id (p, n) pending)
                             linned (set_status st p (S n, None))).
           { eapply good_step with (p := p) (ph' := PIdle (S n));
               [exact G1|reflexivity| | | | | | | | |].
             - apply ph_res. apply ph_lin. exact A.
             - apply set_status_same.
             - intros q Hq. apply set_status_other. exact Hq.
             - simpl. split; [exact Hnone|].
               intros i r' Hin. specialize (C2 _ _ Hin). lia.
             - auto.
             - auto.
             - simpl. apply (g_sigma _ _ _ _ _ G1).
             - simpl. apply (g_legal _ _ _ _ _ G1).
             - apply (g_nodup _ _ _ _ _ G1). }
           destruct (IH _ _ _ _ _ _ Enow Hw3 G') as [h' [Hok He]].
           exists h'. split; [exact Hok|]. rewrite He. simpl.
           rewrite <- app_assoc. reflexivity.
        -- (* some other pending operation's point is placed first *)
           apply lazy_exists_true in Hs.
           destruct Hs as [[[q j] oy] [Hin Hk]]. cbn [fst snd] in Hk.
           destruct (op_key_eqb (q, j) (p, n)) eqn:Eid; [discriminate|].
           destruct (g_proc _ _ _ _ _ G q) as [phq [Aq [Bq Cq]]].
           destruct phq as [m|m o1|m o1 r1]; simpl in Cq;
             destruct Cq as [Cq1 Cq2];
             try (exfalso; eapply Cq1; eauto; fail).
           destruct (Cq1 _ _ Hin) as [-> ->].
           assert (G1 : Good (HLin q m o1 (reg_res o1 d) :: h)
                             (reg_apply o1 d) (remove_id (q, m) pending)
                             ((q, m, reg_res o1 d) :: linned) st).
           { eapply good_step with (p := q)
                                   (ph' := PLin m o1 (reg_res o1 d)); eauto.
             - apply ph_lin. exact Aq.
             - simpl. split.
               + intros i o' Hin'.
                 pose proof (remove_id_in _ _ _ Hin') as Hin''.
                 destruct (Cq1 _ _ Hin'') as [-> ->].
                 eapply remove_id_gone; [apply (g_nodup _ _ _ _ _ G)|eauto].
               + intros i r' [Hi|Hi].
                 * inversion Hi; subst. right. auto.
                 * left. eapply Cq2; eauto.
             - intros q' i o' _ Hin'. eapply remove_id_in; eauto.
             - intros q' i r' Hq' [Hi|Hi]; [inversion Hi; congruence|exact Hi].
             - intros k. simpl. apply reg_apply_ext.
               apply (g_sigma _ _ _ _ _ G).
             - simpl. split; [|apply (g_legal _ _ _ _ _ G)].
               apply reg_res_ext. intros k. symmetry.
               apply (g_sigma _ _ _ _ _ G).
             - apply remove_id_nodup. apply (g_nodup _ _ _ _ _ G). }
           destruct (IH _ _ _ _ _ _ Hk Hw0 G1) as [h' [Hok He]].
           exists h'. split; [exact Hok|]. rewrite He. reflexivity.
Qed.

Lemma good_init : Good [] empty [] [] (fun _ => (0, None)).
Proof.
  constructor; simpl; auto; try constructor.
  intros p. exists (PIdle 0). simpl. repeat split; auto; try constructor.
  intros i r F. destruct F.
Qed.

Theorem lin_ok_sound chron :
  lin_ok chron = true -> linearizable (rev chron).
Proof.
  unfold lin_ok, wf_hist, lin_check. intros H.
  apply andb_true_iff in H. destruct H as [Hw Hs].
  destruct (search_sound _ _ _ _ _ _ _ Hs Hw good_init) as [h' [Hok He]].
  exists h'. split; [|exact Hok]. rewrite He. simpl. apply app_nil_r.
Qed.
