(* CAPSTONE 2: Model/Pipeline.v's producer model [task_batches MAX NBUF] and
   Model/Task.v's results buffer (push / _flush_results_buffer) are two
   descriptions of the same thing: for MAX >= 1 and NBUF >= 1 the batches a
   task hands to put_result ARE [task_batches MAX NBUF] of the stream it
   emits - same cuts, same order.  (The multi-file theorem does not need
   this: C02 holds for every batch structure.) *)
From Coq Require Import ZArith List Bool Lia Arith.
From SK Require Import Model.Task Model.Pipeline Proofs.TaskFlush
     Proofs.TaskLoop.
Import ListNotations.
Open Scope Z_scope.

(* ------------------------------------------------------------------ chunks *)
Lemma chunks_fuel_enough {A} (m : nat) : forall f1 f2 (l : list A),
  (1 <= m)%nat -> (length l <= f1)%nat -> (length l <= f2)%nat ->
  chunks_fuel f1 m l = chunks_fuel f2 m l.
Proof.
  induction f1 as [|f1 IH]; intros f2 l Hm H1 H2.
  - destruct l; [|cbn in H1; lia]. destruct f2; reflexivity.
  - destruct l as [|x l]; [destruct f2; reflexivity|].
    destruct f2 as [|f2]; [cbn in H2; lia|].
    cbn [chunks_fuel]. f_equal. apply IH; [exact Hm| |];
      rewrite skipn_length; cbn [length] in *; lia.
Qed.

Lemma chunks_nil {A} m : chunks m (@nil A) = [].
Proof. reflexivity. Qed.

(* a full first chunk *)
Lemma chunks_app_full {A} m (a b : list A) :
  (1 <= m)%nat -> length a = m -> chunks m (a ++ b) = a :: chunks m b.
Proof.
  intros Hm Ha. unfold chunks.
  destruct a as [|x a]; [cbn in Ha; lia|].
  cbn [app length chunks_fuel].
  change (x :: a ++ b) with ((x :: a) ++ b).
  rewrite firstn_app, Ha, Nat.sub_diag, <- Ha, firstn_all. cbn [firstn].
  rewrite app_nil_r. f_equal.
  rewrite skipn_app, Nat.sub_diag, skipn_all. cbn [skipn app].
  apply chunks_fuel_enough; [lia| |lia].
  rewrite app_length. lia.
Qed.

(* a short list is one chunk *)
Lemma chunks_short {A} m (a : list A) :
  a <> [] -> (length a <= m)%nat -> chunks m a = [a].
Proof.
  intros Hne Hl. unfold chunks. destruct a as [|x a]; [congruence|].
  cbn [length chunks_fuel]. rewrite firstn_all2 by exact Hl.
  rewrite skipn_all2 by exact Hl. destruct (length a); reflexivity.
Qed.

(* ------------------------------ the results buffer as a function on lists *)
Section Buffer.
  Variable R : Type.
  Variables MAX NBUF : Z.
  Hypothesis HMAX : 1 <= MAX.
  Hypothesis HNBUF : 1 <= NBUF.

  Notation m := (Z.to_nat MAX).
  Notation n := (Z.to_nat NBUF).

  (* _flush_results_buffer cuts the buffer into chunks of MAX *)
  Lemma flush_loop_chunks : forall fuel (buf : list R) coll,
    (length buf < fuel)%nat ->
    flush_loop R fuel MAX buf coll = ([], coll ++ chunks m buf, false).
  Proof.
    induction fuel as [|fuel IH]; intros buf coll Hf; [lia|].
    destruct buf as [|x t].
    - cbn. rewrite app_nil_r. reflexivity.
    - cbn [flush_loop]. rewrite pop_n_spec.
      remember (x :: t) as buf eqn:Eb.
      assert (Hlen : (1 <= length buf)%nat) by (subst buf; cbn; lia).
      assert (Hm : (1 <= m)%nat) by lia.
      assert (Es : py_slice_to R buf MAX = firstn m buf).
      { unfold py_slice_to. destruct (0 <=? MAX) eqn:E0; [reflexivity|lia]. }
      rewrite Es.
      assert (Ec : chunks m buf = firstn m buf :: chunks m (skipn m buf)).
      { unfold chunks. subst buf. cbn [length chunks_fuel]. f_equal.
        apply chunks_fuel_enough; [exact Hm| |lia].
        rewrite skipn_length. cbn [length]. lia. }
      destruct (length buf <? m)%nat eqn:E.
      + apply Nat.ltb_lt in E. rewrite Ec.
        rewrite (skipn_all2 buf) by lia. rewrite flush_loop_nil, chunks_nil.
        reflexivity.
      + apply Nat.ltb_ge in E.
        rewrite IH by (rewrite skipn_length; lia).
        rewrite Ec, <- app_assoc. reflexivity.
  Qed.

  Lemma flush_chunks (buf : list R) coll :
    flush R MAX (mkT buf coll false) = mkT [] (coll ++ chunks m buf) false.
  Proof.
    unfold flush. cbn [t_div t_buf t_coll].
    rewrite flush_loop_chunks by lia. reflexivity.
  Qed.

  (* what the buffer does with a stream [rs], starting with [buf] buffered *)
  Fixpoint buffered (buf rs : list R) : list (list R) :=
    match rs with
    | [] => chunks m buf
    | r :: rs' =>
        if NBUF <=? Z.of_nat (length (buf ++ [r]))
        then chunks m (buf ++ [r]) ++ buffered [] rs'
        else buffered (buf ++ [r]) rs'
    end.

  Lemma pushes_buffered : forall rs buf coll,
    flush R MAX (fold_left (push R MAX NBUF) rs (mkT buf coll false)) =
    mkT [] (coll ++ buffered buf rs) false.
  Proof.
    induction rs as [|r rs IH]; intros buf coll; cbn [fold_left buffered].
    - apply flush_chunks.
    - unfold push at 2. cbn [t_div t_buf t_coll].
      destruct (NBUF <=? Z.of_nat (length (buf ++ [r]))).
      + rewrite flush_chunks, IH, <- app_assoc. reflexivity.
      + apply IH.
  Qed.

  (* ... is Pipeline's producer model *)
  Lemma buffered_task_batches : forall rs buf,
    (length buf < n)%nat ->
    buffered buf rs = task_batches m n (buf ++ rs).
  Proof.
    assert (Hn : (1 <= n)%nat) by lia.
    induction rs as [|r rs IH]; intros buf Hb; cbn [buffered].
    - rewrite app_nil_r. unfold task_batches.
      destruct buf as [|x b]; [reflexivity|].
      rewrite (chunks_short n (x :: b)); [|discriminate|lia].
      cbn [flat_map]. symmetry. apply app_nil_r.
    - destruct (NBUF <=? Z.of_nat (length (buf ++ [r]))) eqn:E.
      + apply Z.leb_le in E. rewrite app_length in E. cbn [length] in E.
        assert (Hfull : length (buf ++ [r]) = n)
          by (rewrite app_length; cbn [length]; lia).
        rewrite (IH [] ltac:(cbn; lia)). cbn [app].
        replace (buf ++ r :: rs) with ((buf ++ [r]) ++ rs)
          by (rewrite <- app_assoc; reflexivity).
        unfold task_batches at 2.
        rewrite (chunks_app_full n (buf ++ [r]) rs Hn Hfull).
        reflexivity.
      + apply Z.leb_gt in E. rewrite app_length in E. cbn [length] in E.
        rewrite IH by (rewrite app_length; cbn [length]; lia).
        rewrite <- app_assoc. reflexivity.
  Qed.
End Buffer.

(* -------------------- the task loop threads the buffer through the pushes *)
Section Loop.
  Variables line D St R : Type.
  Variable key : D -> Z.
  Variable cons : D -> list Z.
  Variable ocon : Z -> line -> outcome.
  Variable init : D -> St.
  Variable step : D -> St -> Z -> line -> St * list R.
  Variable post : list (D * St) -> Z -> list R.
  Variables MAX NBUF : Z.

  Notation pushR := (push R MAX NBUF).

  Lemma slots_step_pushes : forall ln l sls st,
    let '(sls', st') :=
      slots_step line D St R cons ocon step MAX NBUF ln l sls st in
    sls' = fst (slots_pure line D St R cons ocon step ln l sls) /\
    st' = fold_left pushR
            (snd (slots_pure line D St R cons ocon step ln l sls)) st.
  Proof.
    intros ln l sls. induction sls as [|s r IH]; intros st.
    - cbn. auto.
    - cbn [slots_step]. unfold slots_pure in *. cbn [map flat_map fst snd] in *.
      destruct (slot_step line D St R cons ocon step ln l s) as [s' o].
      specialize (IH (fold_left pushR o st)).
      destruct (slots_step line D St R cons ocon step MAX NBUF ln l r
                           (fold_left pushR o st)) as [r' st''].
      destruct IH as [I1 I2]. cbn [fst snd]. split.
      + rewrite I1. reflexivity.
      + rewrite I2, fold_left_app. reflexivity.
  Qed.

  Lemma lines_loop_pushes : forall lines ln sls st,
    let '(sls', st', k) :=
      lines_loop line D St R cons ocon step MAX NBUF ln lines sls st in
    sls' = fst (fst (lines_pure line D St R cons ocon step ln lines sls)) /\
    st' = fold_left pushR
            (snd (fst (lines_pure line D St R cons ocon step ln lines sls)))
            st /\
    k = snd (lines_pure line D St R cons ocon step ln lines sls).
  Proof.
    induction lines as [|l r IH]; intros ln sls st.
    - cbn. auto.
    - cbn [lines_loop lines_pure].
      pose proof (slots_step_pushes (ln + 1) l sls st) as Hs.
      destruct (slots_step line D St R cons ocon step MAX NBUF (ln + 1) l
                           sls st) as [sls1 st1].
      destruct Hs as [S1 S2].
      specialize (IH (ln + 1) sls1 st1).
      destruct (lines_loop line D St R cons ocon step MAX NBUF (ln + 1) r
                           sls1 st1) as [[sls2 st2] k2].
      destruct IH as (I1 & I2 & I3).
      destruct (slots_pure line D St R cons ocon step (ln + 1) l sls)
        as [a o] eqn:Ep. cbn [fst snd] in S1, S2. subst sls1.
      destruct (lines_pure line D St R cons ocon step (ln + 1) r a)
        as [[a' o'] c] eqn:El. cbn [fst snd] in *.
      repeat split; [exact I1| |exact I3].
      rewrite I2, S2, fold_left_app. reflexivity.
  Qed.

  (* THE TIE: the batches Task.execute hands to put_result are Pipeline's
     [task_batches] of the emitted stream *)
  Theorem execute_batches_are_task_batches ds lines :
    1 <= MAX -> 1 <= NBUF ->
    execute line D St R key cons ocon init step post MAX NBUF ds lines =
    TaskOk (task_batches (Z.to_nat MAX) (Z.to_nat NBUF)
              (emitted line D St R key cons ocon init step post ds lines)).
  Proof.
    intros HM HN. unfold execute, run_search.
    pose proof (lines_loop_pushes lines 0 (search_defs D St key cons init ds)
                                  (mkT [] [] false)) as Hl.
    destruct (lines_loop line D St R cons ocon step MAX NBUF 0 lines
                (search_defs D St key cons init ds) (mkT [] [] false))
      as [[sls st] k].
    destruct Hl as (L1 & L2 & L3). subst st.
    rewrite <- fold_left_app.
    rewrite pushes_buffered by assumption. cbn [t_div t_coll app].
    rewrite buffered_task_batches by (assumption || (cbn; lia)).
    cbn [app]. unfold emitted, emitted_lines, final_slots.
    rewrite L1, L3, lines_pure_last. reflexivity.
  Qed.
End Loop.
