(* C03 - section ids of different definitions of a joint run never coincide
   (needed when find_sequence_by_tag merges the section dictionaries of the
   definitions sharing a tag): the uuid source is shared, every draw is
   fresh. *)
From Coq Require Import ZArith List Bool Arith Lia.
From SK Require Import Model.Sequence Spec.Sequence Proofs.Sequence
     Proofs.SequenceMulti.
Import ListNotations.
Open Scope Z_scope.

Definition pids (acc : list part) : list nat := map fst acc.

Definition ctl_ids (k : ctl) : list nat := if started k then [cur k] else [].

(* ids drawn by a step lie in [next k, next k') *)
Definition drawn (k k' : ctl) (i : nat) : Prop := (next k <= i < next k')%nat.

Lemma ctl_step_adds sh k c k' ops :
  ctl_step sh k c = (k', ops) ->
  (next k <= next k')%nat /\
  (forall r s v, In (Add r s v) ops -> In s (ctl_ids k) \/ drawn k k' s) /\
  (forall s, In s (ctl_ids k') -> In s (ctl_ids k) \/ drawn k k' s).
Proof.
  destruct k as [stt cu nx]. destruct sh as [he hb ee]. destruct c as [cs ce cb].
  unfold ctl_step, ctl_step_with, ctl_ids, drawn. simpl.
  destruct he, stt, cs, ce, hb, cb; simpl; intros H; inversion H; subst;
    clear H; simpl;
    (split; [lia|]; split;
     [ intros r s v Hin; simpl in Hin | intros s Hin; simpl in Hin ];
     repeat match goal with
            | H : _ \/ _ |- _ => destruct H
            | H : False |- _ => contradiction
            | H : Remove _ = Add _ _ _ |- _ => discriminate H
            | H : Add _ _ _ = Add _ _ _ |- _ => injection H as ? ? ?; subst
            | H : ?a = ?b |- _ => is_var b; subst b
            end;
     simpl; try (left; left; reflexivity); try (right; lia)).
Qed.

Lemma pids_filter f acc i : In i (pids (filter f acc)) -> In i (pids acc).
Proof.
  unfold pids. rewrite !in_map_iff. intros [p [E Hin]].
  apply filter_In in Hin. exists p. split; [exact E | apply Hin].
Qed.

Lemma apply_ops_ids ln ops : forall acc i,
  In i (pids (apply_ops ln ops acc)) ->
  In i (pids acc) \/ exists r v, In (Add r i v) ops.
Proof.
  unfold apply_ops.
  induction ops as [|o ops IH]; simpl; intros acc i H; [left; exact H|].
  destruct (IH _ _ H) as [H1|[r [v H1]]].
  - destruct o as [s| |r s v]; simpl in H1.
    + left. eapply pids_filter. exact H1.
    + contradiction.
    + unfold pids in H1. rewrite map_app in H1. apply in_app_or in H1.
      destruct H1 as [H1|[H1|[]]]; [left; exact H1|].
      simpl in H1. subst. right. exists r, v. left. reflexivity.
  - right. exists r, v. right. exact H1.
Qed.

(* ------------------------------------------------ the global invariant *)
Definition ids_at (ds : list dstate) (res : dict) (key : nat) : list nat :=
  pids (alist_get key res) ++
  match nth_error ds key with
  | Some d => if d_started d then [d_cur d] else []
  | None => []
  end.

Definition G (ds : list dstate) (nx : nat) (res : dict) : Prop :=
  (forall key i, In i (ids_at ds res key) -> (i < nx)%nat) /\
  (forall k1 k2 i, k1 <> k2 -> In i (ids_at ds res k1) ->
                   In i (ids_at ds res k2) -> False).

Lemma nth_error_mid {A} (pre : list A) x post :
  nth_error (pre ++ x :: post) (length pre) = Some x.
Proof. rewrite nth_error_app2 by lia. rewrite Nat.sub_diag. reflexivity. Qed.

Lemma nth_error_mid_other {A} (pre : list A) x y post key :
  key <> length pre ->
  nth_error (pre ++ x :: post) key = nth_error (pre ++ y :: post) key.
Proof.
  intros H. destruct (Nat.lt_ge_cases key (length pre)) as [Hlt|Hge].
  - rewrite !nth_error_app1 by exact Hlt. reflexivity.
  - rewrite !nth_error_app2 by exact Hge.
    destruct (key - length pre)%nat as [|m] eqn:E; [lia | reflexivity].
Qed.

Lemma G_one pre d ds nx res ln c k' ops :
  G (pre ++ d :: ds) nx res ->
  ctl_step (d_shape d) (ctl_of d nx) c = (k', ops) ->
  G (pre ++ {| d_shape := d_shape d; d_started := started k';
               d_cur := cur k' |} :: ds)
    (next k') (dict_apply_ops (length pre) ln ops res).
Proof.
  intros [Gb Gd] Hstep.
  destruct (ctl_step_adds _ _ _ _ _ Hstep) as (Hle & Hadd & Hcur).
  simpl in Hle.
  set (idx := length pre) in *.
  set (d1 := {| d_shape := d_shape d; d_started := started k'; d_cur := cur k' |}).
  set (res' := dict_apply_ops idx ln ops res).
  assert (Hother : forall key, key <> idx ->
            ids_at (pre ++ d1 :: ds) res' key = ids_at (pre ++ d :: ds) res key).
  { intros key Hk. unfold ids_at, res'.
    rewrite dict_apply_get_other by exact Hk.
    rewrite (nth_error_mid_other pre d1 d ds key Hk). reflexivity. }
  assert (Hidx : forall i, In i (ids_at (pre ++ d1 :: ds) res' idx) ->
            In i (ids_at (pre ++ d :: ds) res idx) \/ (nx <= i < next k')%nat).
  { intros i Hi. unfold ids_at in *. unfold idx in *.
    rewrite nth_error_mid in *. unfold res' in Hi.
    rewrite dict_apply_get_same in Hi.
    apply in_app_or in Hi. destruct Hi as [Hi|Hi].
    - destruct (apply_ops_ids _ _ _ _ Hi) as [H1|[r [v H1]]].
      + left. apply in_or_app. left. exact H1.
      + destruct (Hadd _ _ _ H1) as [H2|H2].
        * left. apply in_or_app. right. exact H2.
        * right. exact H2.
    - simpl in Hi.
      destruct (Hcur i) as [H2|H2].
      + unfold ctl_ids. exact Hi.
      + left. apply in_or_app. right. exact H2.
      + right. exact H2. }
  split.
  - intros key i Hi. destruct (Nat.eq_dec key idx) as [E|E].
    + subst key. destruct (Hidx i Hi) as [H|H]; [|lia].
      specialize (Gb idx i H). lia.
    + rewrite Hother in Hi by exact E. specialize (Gb key i Hi). lia.
  - intros k1 k2 i Hne H1 H2.
    destruct (Nat.eq_dec k1 idx) as [E1|E1]; destruct (Nat.eq_dec k2 idx) as [E2|E2].
    + congruence.
    + subst k1. rewrite Hother in H2 by exact E2.
      destruct (Hidx i H1) as [H|H].
      * exact (Gd idx k2 i Hne H H2).
      * specialize (Gb k2 i H2). lia.
    + subst k2. rewrite Hother in H1 by exact E1.
      destruct (Hidx i H2) as [H|H].
      * exact (Gd k1 idx i Hne H1 H).
      * specialize (Gb k1 i H1). lia.
    + rewrite Hother in H1 by exact E1. rewrite Hother in H2 by exact E2.
      exact (Gd k1 k2 i Hne H1 H2).
Qed.

Lemma G_defs_step ln cls : forall ds pre nx res ds' nx' res',
  m_defs_step ln cls (length pre) ds nx res = (ds', nx', res') ->
  G (pre ++ ds) nx res -> G (pre ++ ds') nx' res'.
Proof.
  induction ds as [|d ds IH]; intros pre nx res ds' nx' res' H HG.
  - simpl in H. inversion H; subst. exact HG.
  - simpl in H.
    destruct (ctl_step (d_shape d)
                {| started := d_started d; cur := d_cur d; next := nx |}
                (nth (length pre) cls no_match)) as [k' ops] eqn:Ek.
    destruct (m_defs_step ln cls (S (length pre)) ds (next k')
                (dict_apply_ops (length pre) ln ops res))
      as [[r' nx1] res1] eqn:Er.
    inversion H; subst ds' nx' res'; clear H.
    pose proof (G_one pre d ds nx res ln _ k' ops HG Ek) as HG1.
    set (d1 := {| d_shape := d_shape d; d_started := started k';
                  d_cur := cur k' |}) in *.
    specialize (IH (pre ++ [d1]) (next k')
                   (dict_apply_ops (length pre) ln ops res) r' nx1 res1).
    rewrite app_length in IH. simpl in IH.
    rewrite Nat.add_1_r in IH. specialize (IH Er).
    rewrite <- !app_assoc in IH. simpl in IH. apply IH. exact HG1.
Qed.

Lemma G_loop l : forall ms ln ms' ln',
  m_loop ms ln l = (ms', ln') ->
  G (m_defs ms) (m_next ms) (m_res ms) ->
  G (m_defs ms') (m_next ms') (m_res ms').
Proof.
  induction l as [|cls r IH]; simpl; intros ms ln ms' ln' H HG.
  - inversion H; subst. exact HG.
  - apply (IH _ _ _ _ H). unfold m_step.
    destruct (m_defs_step (ln + 1) cls 0 (m_defs ms) (m_next ms) (m_res ms))
      as [[ds1 nx1] res1] eqn:E1. simpl.
    exact (G_defs_step _ _ _ [] _ _ _ _ _ E1 HG).
Qed.

Lemma G_init shapes : G (m_defs (m_init shapes)) 1 [].
Proof.
  unfold G, ids_at, m_init. simpl. split.
  - intros key i Hi. rewrite nth_error_map in Hi.
    destruct (nth_error shapes key); simpl in Hi; contradiction.
  - intros k1 k2 i _ Hi _. rewrite nth_error_map in Hi.
    destruct (nth_error shapes k1); simpl in Hi; contradiction.
Qed.

Lemma keys_loop_NoDup l : forall ms ln ms' ln',
  m_loop ms ln l = (ms', ln') ->
  NoDup (keys (m_res ms)) -> NoDup (keys (m_res ms')).
Proof.
  induction l as [|cls r IH]; simpl; intros ms ln ms' ln' H Hn.
  - inversion H; subst. exact Hn.
  - apply (IH _ _ _ _ H). unfold m_step.
    destruct (m_defs_step (ln + 1) cls 0 (m_defs ms) (m_next ms) (m_res ms))
      as [[ds1 nx1] res1] eqn:E1. simpl.
    destruct (m_defs_step_spec _ _ _ _ _ _ _ _ _ E1) as (_ & Hnd & _).
    apply Hnd. exact Hn.
Qed.

(* every id exported for [key] is one the definition holds at EOF *)
Lemma view_ids shapes l key p ms ln :
  m_loop (m_init shapes) 0 l = (ms, ln) ->
  In p (m_view key (m_run shapes l)) ->
  In (fst p) (ids_at (m_defs ms) (m_res ms) key).
Proof.
  intros EL. unfold m_run. rewrite EL.
  destruct (m_eof_scan ln 0 (m_defs ms) (m_res ms) []) as [res flt] eqn:EE.
  destruct (m_eof_scan_spec ln _ _ _ _ _ _ EE) as (Hnd2 & Hout & Hnth).
  pose proof (keys_loop_NoDup _ _ _ _ _ EL) as Hnd. simpl in Hnd.
  rewrite m_view_export by (apply Hnd2; apply Hnd; constructor).
  intros Hin. apply filter_In in Hin. destruct Hin as [Hin _].
  unfold ids_at.
  destruct (nth_error (m_defs ms) key) as [d|] eqn:En.
  - destruct (Hnth key d En) as [Hget _]. simpl in Hget.
    rewrite Hget in Hin. apply in_app_or in Hin. apply in_or_app.
    destruct Hin as [Hin|Hin].
    + left. unfold pids. apply in_map. exact Hin.
    + right. unfold eof_add in Hin. destruct (d_started d); simpl in Hin;
        [|contradiction].
      destruct (has_end (d_shape d)); [|contradiction].
      destruct (end_empty (d_shape d)); [|contradiction].
      destruct Hin as [Hin|[]]. subst p. left. reflexivity.
  - destruct (Hout key) as [Hget _].
    { right. simpl. apply nth_error_None in En. exact En. }
    rewrite Hget in Hin. apply in_or_app. left. unfold pids.
    apply in_map. exact Hin.
Qed.

(* section ids reported for two different definitions of one run differ *)
Lemma multi_ids_disjoint shapes l k1 k2 p1 p2 :
  k1 <> k2 ->
  In p1 (m_view k1 (m_run shapes l)) ->
  In p2 (m_view k2 (m_run shapes l)) ->
  fst p1 <> fst p2.
Proof.
  intros Hne H1 H2 E.
  destruct (m_loop (m_init shapes) 0 l) as [ms ln] eqn:EL.
  pose proof (G_loop _ _ _ _ _ EL (G_init shapes)) as [_ Gd].
  pose proof (view_ids _ _ _ _ _ _ EL H1) as I1.
  pose proof (view_ids _ _ _ _ _ _ EL H2) as I2.
  rewrite E in I1. exact (Gd k1 k2 _ Hne I1 I2).
Qed.
