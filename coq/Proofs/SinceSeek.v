(* Unconditional facts about Model/SinceSeek.v: whatever the contents, the
   oracle and the since date, the file is left at 0, at the end of the file
   or on the first byte after a line feed; the outcome -> position mapping. *)
From Coq Require Import ZArith List Bool Lia.
From SK Require Import Model.Base Model.Seek Model.SinceSeek Spec.Lines
     Proofs.Seek Proofs.SeekSpec.
Import ListNotations.
Open Scope Z_scope.

Section Inv.
  Variables (H A L W : Z) (tsw : list Z -> option Z) (c : list Z).
  Hypothesis HH : 0 < H.
  Hypothesis HA : 0 < A.

  (* a start-of-line token is genuine: a real line feed, or start of file *)
  Definition good_slf (s : tok) : Prop :=
    match s with
    | Found q => lf_at c q
    | ReachedEof x => x = 0
    | ErrMaxLine => False
    end.
  Definition good_elf (e : tok) : Prop :=
    match e with
    | Found p => lf_at c p
    | ReachedEof x => x = lenZ c
    | ErrMaxLine => False
    end.

  Lemma good_slf_start s : good_slf s -> is_line_start c (start_offset s).
  Proof.
    destruct s as [q|x|]; cbn; intro G.
    - right. replace (q + 1 - 1) with q by lia. exact G.
    - left. exact G.
    - destruct G.
  Qed.

  (* inversion of try_find_line *)
  Lemma try_find_line_inv o so eo s e :
    try_find_line H A c o so eo = Line s e ->
    s = match so with None => find_token_reverse H A c o | Some x => Found x end /\
    e = match eo with None => find_token H A c o | Some x => Found x end /\
    s <> ErrMaxLine /\ e <> ErrMaxLine.
  Proof.
    unfold try_find_line.
    set (e0 := match eo with None => find_token H A c o | Some x => Found x end).
    set (s0 := match so with None => find_token_reverse H A c o | Some x => Found x end).
    destruct e0 eqn:Ee; destruct s0 eqn:Es; try discriminate;
      match goal with
      | |- (if ?b then _ else _) = _ -> _ => destruct b
      end; try discriminate; intro E; inversion E; subst;
        repeat split; congruence.
  Qed.

  Lemma try_find_line_good o so eo s e :
    0 <= o <= lenZ c ->
    (forall x, so = Some x -> lf_at c x) ->
    (forall x, eo = Some x -> lf_at c x) ->
    try_find_line H A c o so eo = Line s e -> good_slf s /\ good_elf e.
  Proof.
    intros Ho Hso Heo E. destruct (try_find_line_inv _ _ _ _ _ E) as (Hs & He & Hns & Hne).
    split.
    - destruct so as [x|].
      + subst s. cbn. apply Hso. reflexivity.
      + destruct s as [q|x|]; cbn; [| |congruence].
        * symmetry in Hs. apply find_token_reverse_found in Hs; try assumption.
          apply Hs.
        * symmetry in Hs. apply find_token_reverse_eof in Hs; try assumption.
          apply Hs.
    - destruct eo as [x|].
      + subst e. cbn. apply Heo. reflexivity.
      + destruct e as [p|x|]; cbn; [| |congruence].
        * symmetry in He. apply find_token_found in He; try assumption.
          apply He.
        * symmetry in He. apply find_token_eof in He; try assumption.
          apply He.
  Qed.

  (* every LogLine returned by try_find_line_with_date starts at a genuine
     line start *)
  Lemma tfld_good : forall fuel o lfo fwd l,
    0 <= o <= lenZ c ->
    (forall x, lfo = Some x -> lf_at c x) ->
    tfld H A W tsw c fuel o lfo fwd = WdLine l -> good_slf (fst l).
  Proof.
    induction fuel as [|f IH]; intros o lfo fwd l Ho Hlfo E; [discriminate|].
    cbn [tfld] in E.
    destruct (try_find_line H A c o (if fwd then lfo else None)
                (if fwd then None else lfo)) as [s e| |] eqn:Et;
      try discriminate.
    assert (Hg : good_slf s /\ good_elf e).
    { eapply try_find_line_good; [exact Ho| | |exact Et];
        intros x Hx; destruct fwd; try discriminate; apply Hlfo; exact Hx. }
    destruct Hg as [Hgs Hge].
    destruct (ll_date W tsw c (s, e)) as [d|].
    - inversion E; subst l. exact Hgs.
    - destruct ((tok_off (if fwd then e else s) + (if fwd then 1 else -1) <? 0)
                || (lenZ c <? tok_off (if fwd then e else s)
                              + (if fwd then 1 else -1))) eqn:Eg;
        [discriminate|].
      apply orb_false_iff in Eg. destruct Eg as [Eg1 Eg2].
      eapply IH; [| |exact E].
      + lia.
      + intros x Hx. inversion Hx; subst x. destruct fwd.
        * destruct e as [p|x|]; cbn in *; [exact Hge| |destruct Hge].
          subst x. lia.
        * destruct s as [q|x|]; cbn in *; [exact Hgs| |destruct Hgs].
          subst x. lia.
  Qed.

  Definition good_state (st : state) : Prop :=
    match snd st with Some l => good_slf (fst l) | None => True end.

  Lemma getitem_good since st o d st' :
    0 <= o < lenZ c -> good_state st ->
    getitem H A L W tsw c since st o = GiDate d st' -> good_state st'.
  Proof.
    intros Ho Hst E. unfold getitem, try_find_line_with_date in E.
    set (r1 := tfld H A W tsw c (Z.to_nat L) o None false) in *.
    assert (G1 : forall l, r1 = WdLine l -> good_slf (fst l)).
    { intros l El. refine (tfld_good _ _ _ _ l _ _ El); [lia|intros ? Hx; discriminate Hx]. }
    set (r2 := tfld H A W tsw c (Z.to_nat L) (o + 1) None true) in *.
    assert (G2 : forall l, r2 = WdLine l -> good_slf (fst l)).
    { intros l El. refine (tfld_good _ _ _ _ l _ _ El); [lia|intros ? Hx; discriminate Hx]. }
    assert (Fin : forall r, (forall l, r = WdLine l -> good_slf (fst l)) ->
              match r with
              | WdErr => GiErr | WdAssert => GiAssert | WdNone => GiTooMany
              | WdLine l =>
                  if wd_unusable W tsw c r then GiTooMany
                  else match ll_date W tsw c l with
                       | None => GiTooMany
                       | Some d0 => GiDate d0 (true, if since <=? d0 then Some l
                                                     else snd st)
                       end
              end = GiDate d st' -> good_state st').
    { intros r Gr Er. destruct r as [l| | |]; try discriminate.
      destruct (wd_unusable W tsw c (WdLine l)); [discriminate|].
      destruct (ll_date W tsw c l) as [d0|]; [|discriminate].
      inversion Er; subst. unfold good_state. cbn [snd].
      match goal with |- context [if ?b then _ else _] => destruct b end;
        [apply Gr; reflexivity|exact Hst]. }
    destruct r1 as [l1| | |] eqn:E1; try discriminate.
    - destruct (wd_unusable W tsw c (WdLine l1)).
      + apply (Fin r2 G2 E).
      + apply (Fin (WdLine l1) G1 E).
    - cbn [wd_unusable] in E. apply (Fin r2 G2 E).
  Qed.

  Lemma bisect_good since : forall fuel st lo hi r st',
    0 <= lo -> hi <= lenZ c -> good_state st ->
    bisect H A L W tsw c fuel since st lo hi = BsDone r st' -> good_state st'.
  Proof.
    induction fuel as [|f IH]; intros st lo hi r st' Hlo Hhi Hst E;
      [discriminate|].
    cbn [bisect] in E. destruct (lo <? hi) eqn:Elt.
    - assert (Hm : lo <= (lo + hi) / 2 < hi) by
          (split; [apply Z.div_le_lower_bound|apply Z.div_lt_upper_bound]; lia).
      destruct (getitem H A L W tsw c since st ((lo + hi) / 2))
        as [d st1| | |] eqn:Eg; try discriminate.
      assert (G1 : good_state st1)
        by (eapply getitem_good; [|exact Hst|exact Eg]; lia).
      destruct (d <? since); eapply IH; try exact E; try exact G1; lia.
    - inversion E; subst. exact Hst.
  Qed.

  (* a successful run started at position 0 returns a line start *)
  Lemma run_okpos since p :
    run H A L W tsw c since 0 = OkPos p -> is_line_start c p.
  Proof.
    unfold run. cbv zeta.
    assert (T : (if match logline_date tsw W c (Found (-1)) with
                    | Some d => since <=? d
                    | None => false
                    end
                 then OkPos 0
                 else match bisect H A L W tsw c (S (Z.to_nat (lenZ c))) since
                              st0 0 (lenZ c) with
                      | BsDone _ st =>
                          match snd st with
                          | Some l => if ll_truthy l then OkPos (ll_start l)
                                      else NoValidLinesFoundInFile
                          | None => NoValidLinesFoundInFile
                          end
                      | BsTooMany st => if fst st then TooManyLinesWithoutDate
                                        else NoTimestampsFoundInFile
                      | BsErr => MaxSearchableLineLengthReached
                      | BsAssert => AssertionFailed
                      | BsFuel => FuelExhausted
                      end) = OkPos p -> is_line_start c p).
    { destruct (match logline_date tsw W c (Found (-1)) with
                | Some d => since <=? d
                | None => false
                end).
      - intro E. inversion E. left. reflexivity.
      - destruct (bisect H A L W tsw c (S (Z.to_nat (lenZ c))) since st0 0
                    (lenZ c)) as [r st'|st'| | |] eqn:Eb; try discriminate.
        + assert (G : good_state st')
            by (eapply bisect_good; [| | |exact Eb]; [lia|lia|exact I]).
          unfold good_state in G. destruct (snd st') as [l|]; [|discriminate].
          destruct (ll_truthy l); [|discriminate].
          intro E. inversion E. apply good_slf_start. exact G.
        + destruct (fst st'); discriminate. }
    destruct (try_find_line_with_date H A L W tsw c (lenZ c) None false)
      as [l0| | |]; try discriminate.
    - destruct (ll_truthy l0 && match ll_date W tsw c l0 with
                                | Some _ => false | None => true end);
        [discriminate|exact T].
    - exact T.
  Qed.

  (* C11, last sentence: the position at which a since constraint leaves a
     freshly opened file is 0, the end of the file, or the first byte after
     a line feed - for ALL contents, oracles, since dates and limits *)
  Theorem position_is_line_boundary since p :
    apply_to_file H A L W tsw c since 0 = Some p -> is_line_boundary c p.
  Proof.
    unfold apply_to_file.
    destruct (run H A L W tsw c since 0) as [q| | | | | |] eqn:Er;
      cbn [position_of]; intro E; inversion E; subst;
      try (left; reflexivity); try (right; left; reflexivity).
    destruct (run_okpos _ _ Er) as [Z0|Zl];
      [left; exact Z0|right; right; exact Zl].
  Qed.

  (* the same with destructive=False *)
  Theorem position_is_line_boundary_nd since p :
    apply_to_file_nd H A L W tsw c since 0 = Some p -> is_line_boundary c p.
  Proof.
    unfold apply_to_file_nd.
    destruct (run H A L W tsw c since 0) as [q| | | | | |] eqn:Er;
      cbn [position_of_nd position_of]; intro E; inversion E; subst;
      try (left; reflexivity); try (right; left; reflexivity).
  Qed.

  (* the outcome -> position mapping of apply_to_file *)
  Theorem outcome_position since pos0 :
    apply_to_file H A L W tsw c since pos0 =
    match run H A L W tsw c since pos0 with
    | OkPos p => Some p
    | NoTimestampsFoundInFile => Some 0
    | NoValidLinesFoundInFile => Some (lenZ c)
    | TooManyLinesWithoutDate => Some 0
    | MaxSearchableLineLengthReached => Some (lenZ c)
    | AssertionFailed | FuelExhausted => None
    end.
  Proof. reflexivity. Qed.
End Inv.
