(* C15 - the store model refines the abstract table of Spec/Store.v. *)
From Coq Require Import ZArith List Bool Arith Lia FinFun.
From SK Require Import Model.Base Model.Store Spec.Store.
Import ListNotations.
Open Scope Z_scope.

(* ------------------------------------------------------------ dicts *)
Lemma dget_dset_same k v d : dget k (dset k v d) = Some v.
Proof.
  induction d as [|[k' v'] r IH]; simpl.
  - rewrite Z.eqb_refl. reflexivity.
  - destruct (k =? k') eqn:E; simpl.
    + rewrite Z.eqb_refl. reflexivity.
    + rewrite E. exact IH.
Qed.

Lemma dget_dset_other k k' v d : k <> k' -> dget k (dset k' v d) = dget k d.
Proof.
  intros Hne. induction d as [|[k2 v2] r IH]; simpl.
  - destruct (k =? k') eqn:E; [apply Z.eqb_eq in E; contradiction|reflexivity].
  - destruct (k' =? k2) eqn:E2; simpl.
    + apply Z.eqb_eq in E2. subst k2.
      destruct (k =? k') eqn:E; [apply Z.eqb_eq in E; contradiction|reflexivity].
    + destruct (k =? k2); [reflexivity|exact IH].
Qed.

Lemma dset_fresh k v d : dget k d = None -> dset k v d = d ++ [(k, v)].
Proof.
  induction d as [|[k' v'] r IH]; simpl; intros H; [reflexivity|].
  destruct (k =? k') eqn:E; [discriminate|]. rewrite IH by exact H. reflexivity.
Qed.

Lemma dget_app_last i d k w :
  dget i (d ++ [(k, w)]) =
  match dget i d with Some x => Some x
                 | None => if i =? k then Some w else None end.
Proof.
  induction d as [|[k' v'] r IH]; simpl; [reflexivity|].
  destruct (i =? k'); [reflexivity|exact IH].
Qed.

Lemma scan_app_last v d k w :
  scan v (d ++ [(k, w)]) =
  match scan v d with Some x => Some x
                 | None => if v =? w then Some k else None end.
Proof.
  induction d as [|[k' v'] r IH]; simpl; [reflexivity|].
  destruct (v =? v'); [reflexivity|exact IH].
Qed.

Definition dict_wf (d : dict) : Prop := NoDup (map fst d).

Lemma dget_none_notin k d : dget k d = None -> ~ In k (map fst d).
Proof.
  induction d as [|[k' v'] r IH]; simpl; intros H; [tauto|].
  destruct (k =? k') eqn:E; [discriminate|].
  apply Z.eqb_neq in E. intros [H1|H1]; [congruence|exact (IH H H1)].
Qed.

Lemma notin_dget_none k d : ~ In k (map fst d) -> dget k d = None.
Proof.
  induction d as [|[k' v'] r IH]; simpl; intros H; [reflexivity|].
  destruct (k =? k') eqn:E.
  - apply Z.eqb_eq in E. subst. tauto.
  - apply IH. tauto.
Qed.

Lemma dset_keys k v d :
  map fst (dset k v d) = if dmem k d then map fst d else map fst d ++ [k].
Proof.
  unfold dmem. induction d as [|[k' v'] r IH]; simpl; [reflexivity|].
  destruct (k =? k') eqn:E; simpl.
  - apply Z.eqb_eq in E. subst. reflexivity.
  - rewrite IH. destruct (dget k r); reflexivity.
Qed.

Lemma NoDup_snoc {A} (l : list A) x : NoDup l -> ~ In x l -> NoDup (l ++ [x]).
Proof.
  induction l as [|a l IH]; simpl; intros Hn Hi.
  - constructor; [tauto|constructor].
  - inversion Hn as [|? ? Ha Hl]; subst. constructor.
    + rewrite in_app_iff. simpl. intros [H|[H|[]]]; [tauto|subst; tauto].
    + apply IH; tauto.
Qed.

Lemma dset_wf k v d : dict_wf d -> dict_wf (dset k v d).
Proof.
  unfold dict_wf. intros H. rewrite dset_keys. unfold dmem.
  destruct (dget k d) eqn:E; [exact H|].
  apply dget_none_notin in E.
  apply NoDup_snoc; assumption.
Qed.

(* ------------------------------------------------------------ tables *)
Lemma pos_app_some v t e k : pos v t = Some k -> pos v (t ++ e) = Some k.
Proof.
  revert k. induction t as [|w r IH]; simpl; intros k H; [discriminate|].
  destruct (v =? w); [exact H|].
  destruct (pos v r) as [k'|] eqn:E; [|discriminate].
  rewrite (IH k' eq_refl). exact H.
Qed.

Lemma pos_app_none v t : pos v t = None -> pos v (t ++ [v]) = Some (length t).
Proof.
  induction t as [|w r IH]; simpl; intros H.
  - rewrite Z.eqb_refl. reflexivity.
  - destruct (v =? w); [discriminate|].
    destruct (pos v r) eqn:E; [discriminate|]. rewrite IH; reflexivity.
Qed.

Lemma pos_nth v t k : pos v t = Some k -> nth_error t k = Some v.
Proof.
  revert k. induction t as [|w r IH]; simpl; intros k H; [discriminate|].
  destruct (v =? w) eqn:E.
  - inversion H. apply Z.eqb_eq in E. subst. reflexivity.
  - destruct (pos v r) as [k'|]; [|discriminate]. inversion H. simpl.
    apply IH. reflexivity.
Qed.

Lemma pos_none_notin v t : pos v t = None -> ~ In v t.
Proof.
  induction t as [|w r IH]; simpl; intros H; [tauto|].
  destruct (v =? w) eqn:E; [discriminate|]. apply Z.eqb_neq in E.
  destruct (pos v r); [discriminate|]. intros [H1|H1]; [congruence|].
  exact (IH eq_refl H1).
Qed.

Lemma pos_lt v t k : pos v t = Some k -> (k < length t)%nat.
Proof.
  intros H. apply pos_nth in H. apply nth_error_Some. congruence.
Qed.

Lemma nth_error_nth_app (t : list Z) v k :
  (k < length t)%nat -> nth k (t ++ [v]) 0 = nth k t 0.
Proof. intros H. apply app_nth1. exact H. Qed.

Lemma image_app slot t v :
  image slot (t ++ [v]) = image slot t ++ [(slot (length t), v)].
Proof.
  unfold image. rewrite app_length. simpl length.
  rewrite seq_app, map_app. simpl. f_equal.
  - apply map_ext_in. intros k Hk. apply in_seq in Hk.
    rewrite app_nth1 by lia. reflexivity.
  - rewrite app_nth2 by lia. rewrite Nat.sub_diag. reflexivity.
Qed.

Lemma image_length slot t : length (image slot t) = length t.
Proof. unfold image. rewrite map_length, seq_length. reflexivity. Qed.

Lemma image_keys slot t : map fst (image slot t) = map slot (seq 0 (length t)).
Proof. unfold image. rewrite map_map. reflexivity. Qed.

Lemma scan_image slot v t :
  scan v (image slot t) = option_map slot (pos v t).
Proof.
  induction t as [|w t IH] using rev_ind; [reflexivity|].
  rewrite image_app, scan_app_last, IH.
  destruct (pos v t) as [k|] eqn:E; simpl.
  - rewrite (pos_app_some _ _ _ _ E). reflexivity.
  - destruct (v =? w) eqn:Ev.
    + apply Z.eqb_eq in Ev. subst w. rewrite (pos_app_none _ _ E). reflexivity.
    + assert (H : pos v (t ++ [w]) = None).
      { clear IH. induction t as [|a r IHr]; simpl in *.
        - rewrite Ev. reflexivity.
        - destruct (v =? a); [discriminate|].
          destruct (pos v r); [discriminate|]. rewrite IHr; reflexivity. }
      rewrite H. reflexivity.
Qed.

Section Slot.
  Variable slot : nat -> Z.
  Hypothesis slot_inj : forall k k', slot k = slot k' -> k = k'.

  Lemma dget_image t k : dget (slot k) (image slot t) = nth_error t k.
  Proof.
    induction t as [|w t IH] using rev_ind.
    - simpl. destruct k; reflexivity.
    - rewrite image_app, dget_app_last, IH.
      destruct (nth_error t k) eqn:E.
      + rewrite nth_error_app1; [symmetry; exact E|].
        apply nth_error_Some. congruence.
      + apply nth_error_None in E.
        destruct (slot k =? slot (length t)) eqn:Es.
        * apply Z.eqb_eq in Es. apply slot_inj in Es. subst k.
          rewrite nth_error_app2 by lia. rewrite Nat.sub_diag. reflexivity.
        * apply Z.eqb_neq in Es. symmetry. apply nth_error_None.
          rewrite app_length. simpl.
          assert (k <> length t) by (intros ->; apply Es; reflexivity). lia.
  Qed.

  Lemma dmem_image t k : dmem (slot k) (image slot t) = (k <? length t)%nat.
  Proof.
    unfold dmem. rewrite dget_image.
    destruct (nth_error t k) eqn:E.
    - symmetry. apply Nat.ltb_lt. apply nth_error_Some. congruence.
    - symmetry. apply Nat.ltb_ge. apply nth_error_None. exact E.
  Qed.

  Lemma image_wf t : dict_wf (image slot t).
  Proof.
    unfold dict_wf. rewrite image_keys.
    apply FinFun.Injective_map_NoDup; [exact slot_inj|apply seq_NoDup].
  Qed.

  Lemma dset_image_fresh t v :
    dset (slot (length t)) v (image slot t) = image slot (t ++ [v]).
  Proof.
    rewrite dset_fresh, image_app; [reflexivity|].
    rewrite dget_image. apply nth_error_None. lia.
  Qed.
End Slot.

(* ------------------------------------------------------------ simulation *)
Definition rev_ok (slot : nat -> Z) (t : list Z) (r : dict) : Prop :=
  dict_wf r /\
  forall v i, dget v r = Some i -> exists k, pos v t = Some k /\ i = slot k.

Record Sim (slot : nat -> Z) (t : list Z) (s : store) : Prop := mkSim {
  sim_data : data s = image slot t;
  sim_v : rev_ok slot t (vstore s);
  sim_t : rev_ok slot t (tstore s);
  sim_s : rev_ok slot t (sstore s) }.

Lemma rev_ok_app slot t e r : rev_ok slot t r -> rev_ok slot (t ++ e) r.
Proof.
  intros [Hw H]. split; [exact Hw|]. intros v i Hg.
  destruct (H v i Hg) as [k [Hp Hi]]. exists k. split; [|exact Hi].
  apply pos_app_some. exact Hp.
Qed.

Lemma rev_ok_dset slot t r v k :
  rev_ok slot t r -> pos v t = Some k -> rev_ok slot t (dset v (slot k) r).
Proof.
  intros [Hw H] Hp. split; [apply dset_wf; exact Hw|]. intros v' i Hg.
  destruct (Z.eq_dec v' v) as [->|Hne].
  - rewrite dget_dset_same in Hg. inversion Hg. exists k. tauto.
  - rewrite dget_dset_other in Hg by exact Hne. exact (H v' i Hg).
Qed.

Lemma rev_ok_ns slot t s n : Sim slot t s -> rev_ok slot t (get_ns s n).
Proof. intros [Hd Hv Ht Hs]. destruct n; assumption. Qed.

Lemma sim_set_ns slot t s n d :
  Sim slot t s -> rev_ok slot t d -> Sim slot t (set_ns s n d).
Proof.
  intros [Hd Hv Ht Hs] Hr. destruct n; constructor; simpl; assumption.
Qed.

Lemma sim_app slot t e s d :
  Sim slot t s -> d = image slot (t ++ e) -> Sim slot (t ++ e) (set_data s d).
Proof.
  intros [Hd Hv Ht Hs] He. constructor; simpl; try (apply rev_ok_app; assumption).
  exact He.
Qed.

Section Generic.
  Variable slot : nat -> Z.
  Hypothesis slot_inj : forall k k', slot k = slot k' -> k = k'.
  (* allocator part of the invariant: only looks at pre/bsz/allocs/pstart/
     ngrants *)
  Variable A : list Z -> store -> Prop.
  Hypothesis A_set_ns : forall t s n d, A t s -> A t (set_ns s n d).
  Hypothesis alloc_ok : forall t s v,
    Sim slot t s -> A t s -> pos v t = None ->
    exists s', allocate_next s v = Ok (s', slot (length t)) /\
               Sim slot (t ++ [v]) s' /\ A (t ++ [v]) s'.

  Lemma allocate_next_sim t s v :
    Sim slot t s -> A t s ->
    exists s' k, allocate_next s v = Ok (s', slot k) /\
                 snd (tadd t (Some v)) = Some k /\
                 Sim slot (fst (tadd t (Some v))) s' /\
                 A (fst (tadd t (Some v))) s'.
  Proof.
    intros HS HA. simpl. destruct (pos v t) as [k|] eqn:Ep.
    - exists s, k. simpl. unfold allocate_next.
      rewrite (sim_data _ _ _ HS), scan_image, Ep. simpl. tauto.
    - destruct (alloc_ok t s v HS HA Ep) as [s' [H1 [H2 H3]]].
      exists s', (length t). simpl. tauto.
  Qed.

  Lemma add_to_store_sim t s n x :
    Sim slot t s -> A t s ->
    exists s', add_to_store s n x = Ok (s', option_map slot (snd (tadd t x))) /\
               Sim slot (fst (tadd t x)) s' /\ A (fst (tadd t x)) s'.
  Proof.
    intros HS HA. destruct x as [v|]; [|exists s; simpl; tauto].
    unfold add_to_store.
    destruct (dget v (get_ns s n)) as [i|] eqn:Eg.
    - destruct (rev_ok_ns _ _ _ n HS) as [_ Hr].
      destruct (Hr v i Eg) as [k [Hp Hi]]. exists s. simpl. rewrite Hp. simpl.
      subst i. tauto.
    - destruct (allocate_next_sim t s v HS HA) as [s' [k [H1 [H2 [H3 H4]]]]].
      rewrite H1. eexists. split; [rewrite H2; reflexivity|].
      split; [|apply A_set_ns; exact H4].
      apply sim_set_ns; [exact H3|]. apply rev_ok_dset.
      + apply rev_ok_ns. exact H3.
      + simpl in *. destruct (pos v t) as [k'|] eqn:Ep; simpl in *.
        * inversion H2. subst. exact Ep.
        * inversion H2. subst. apply pos_app_none. exact Ep.
  Qed.

  Lemma add_sim t s o :
    Sim slot t s -> A t s ->
    exists s', add s o = Ok (s', map_ret slot (snd (tadd3 t o))) /\
               Sim slot (fst (tadd3 t o)) s' /\ A (fst (tadd3 t o)) s'.
  Proof.
    intros HS HA. destruct o as [[tag sq] value]. unfold add, tadd3.
    destruct (add_to_store_sim t s NsValue value HS HA) as [s1 [E1 [S1 A1]]].
    rewrite E1. destruct (tadd t value) as [t1 vi]. simpl in S1, A1. simpl snd.
    destruct (add_to_store_sim t1 s1 NsTag tag S1 A1) as [s2 [E2 [S2 A2]]].
    rewrite E2. destruct (tadd t1 tag) as [t2 ti]. simpl in S2, A2. simpl snd.
    destruct (add_to_store_sim t2 s2 NsSeq sq S2 A2) as [s3 [E3 [S3 A3]]].
    rewrite E3. destruct (tadd t2 sq) as [t3 si]. simpl in S3, A3. simpl.
    exists s3. tauto.
  Qed.

  Lemma run_sim ops : forall t s,
    Sim slot t s -> A t s ->
    exists s', run s ops = Ok (s', map (map_ret slot) (snd (trun t ops))) /\
               Sim slot (fst (trun t ops)) s' /\ A (fst (trun t ops)) s'.
  Proof.
    induction ops as [|o r IH]; intros t s HS HA.
    - exists s. simpl. tauto.
    - simpl. destruct (add_sim t s o HS HA) as [s1 [E1 [S1 A1]]]. rewrite E1.
      destruct (tadd3 t o) as [t1 x]. simpl in S1, A1. simpl snd.
      destruct (IH t1 s1 S1 A1) as [s2 [E2 [S2 A2]]]. rewrite E2.
      destruct (trun t1 r) as [t2 xs]. simpl in *. exists s2. tauto.
  Qed.
End Generic.

(* ------------------------------------------------------------ plain store *)
Definition A_plain (t : list Z) (s : store) : Prop := pre s = false.

Lemma slot_plain_inj k k' : slot_plain k = slot_plain k' -> k = k'.
Proof. unfold slot_plain. lia. Qed.

Lemma A_plain_set_ns t s n d : A_plain t s -> A_plain t (set_ns s n d).
Proof. unfold A_plain. destruct n; simpl; tauto. Qed.

Lemma lenZ_image slot t : lenZ (image slot t) = Z.of_nat (length t).
Proof. unfold lenZ. rewrite image_length. reflexivity. Qed.

Lemma alloc_ok_plain t s v :
  Sim slot_plain t s -> A_plain t s -> pos v t = None ->
  exists s', allocate_next s v = Ok (s', slot_plain (length t)) /\
             Sim slot_plain (t ++ [v]) s' /\ A_plain (t ++ [v]) s'.
Proof.
  intros HS HA Ep. unfold A_plain in HA.
  assert (Hsc : scan v (data s) = None).
  { rewrite (sim_data _ _ _ HS), scan_image, Ep. reflexivity. }
  assert (Hal : allocations s = s) by (unfold allocations; rewrite HA; reflexivity).
  assert (Hav : allocations_value s = None)
    by (unfold allocations_value; rewrite HA; reflexivity).
  unfold allocate_next. rewrite Hsc, Hal, Hav. unfold alloc_pick.
  rewrite (sim_data _ _ _ HS), lenZ_image.
  eexists. split; [reflexivity|]. split.
  - apply sim_app; [exact HS|].
    apply (dset_image_fresh slot_plain slot_plain_inj).
  - unfold A_plain. simpl. exact HA.
Qed.

(* ------------------------------------------------------------ blocks *)
Lemma divmod_at b j o : (o < b)%nat ->
  ((j * b + o) / b = j /\ (j * b + o) mod b = o)%nat.
Proof.
  intros H. split; symmetry.
  - apply (Nat.div_unique _ b j o); lia.
  - apply (Nat.mod_unique _ b j o); lia.
Qed.

Lemma divmod_decomp b n : (1 <= b)%nat ->
  (n = (n / b) * b + n mod b /\ n mod b < b)%nat.
Proof.
  intros H. split.
  - pose proof (Nat.div_mod n b). lia.
  - apply Nat.mod_upper_bound. lia.
Qed.

Lemma blocks_for_eq b n : (1 <= b)%nat ->
  blocks_for b n = if (n mod b =? 0)%nat then (n / b)%nat else S (n / b).
Proof.
  intros Hb. destruct (divmod_decomp b n Hb) as [Hn Ho].
  unfold blocks_for. destruct (n mod b =? 0)%nat eqn:E.
  - apply Nat.eqb_eq in E. symmetry.
    apply (Nat.div_unique _ b _ (b - 1)); lia.
  - apply Nat.eqb_neq in E. symmetry.
    apply (Nat.div_unique _ b _ (n mod b - 1)); lia.
Qed.

Lemma blocks_for_succ b n : (1 <= b)%nat -> blocks_for b (S n) = S (n / b).
Proof.
  intros Hb. destruct (divmod_decomp b n Hb) as [Hn Ho].
  unfold blocks_for. symmetry.
  apply (Nat.div_unique _ b _ (n mod b)); lia.
Qed.

Lemma slot_pre_at b start j o : (o < b)%nat ->
  slot_pre b start (j * b + o) = start j + Z.of_nat o.
Proof.
  intros H. unfold slot_pre. destruct (divmod_at b j o H) as [-> ->].
  reflexivity.
Qed.

Lemma start_mono b start :
  increasing_blocks (Z.of_nat b) start ->
  forall d j, start j + Z.of_nat b * Z.of_nat d <= start (j + d)%nat.
Proof.
  intros Hi d. induction d as [|d IH]; intros j.
  - rewrite Nat.add_0_r. lia.
  - replace (j + S d)%nat with (S (j + d)) by lia.
    specialize (IH j). specialize (Hi (j + d)%nat). lia.
Qed.

Lemma slot_pre_inj b start :
  (1 <= b)%nat -> increasing_blocks (Z.of_nat b) start ->
  forall k k', slot_pre b start k = slot_pre b start k' -> k = k'.
Proof.
  intros Hb Hi k k' H. unfold slot_pre in H.
  destruct (divmod_decomp b k Hb) as [Hk Ho].
  destruct (divmod_decomp b k' Hb) as [Hk' Ho'].
  destruct (lt_eq_lt_dec (k / b) (k' / b)) as [[Hlt|Heq]|Hgt].
  - pose proof (start_mono b start Hi (k' / b - k / b) (k / b)) as M.
    replace (k / b + (k' / b - k / b))%nat with (k' / b)%nat in M by lia.
    exfalso. nia.
  - rewrite Heq in H. assert (k mod b = k' mod b)%nat by lia. lia.
  - pose proof (start_mono b start Hi (k / b - k' / b) (k' / b)) as M.
    replace (k' / b + (k / b - k' / b))%nat with (k / b)%nat in M by lia.
    exfalso. nia.
Qed.

Lemma range_cons p b : (1 <= b)%nat -> range p b = p :: range (p + 1) (b - 1).
Proof. destruct b; [lia|]. simpl. rewrite Nat.sub_0_r. reflexivity. Qed.

Lemma range_last p b : (1 <= b)%nat -> last (range p b) 0 = p + Z.of_nat b - 1.
Proof.
  revert p. induction b as [|b IH]; intros p H; [lia|].
  destruct b as [|b'].
  - simpl. lia.
  - change (range p (S (S b'))) with (p :: range (p + 1) (S b')).
    change (last (p :: range (p + 1) (S b')) 0)
      with (last (range (p + 1) (S b')) 0).
    rewrite IH by lia. lia.
Qed.

Lemma range_in p b x : In x (range p b) <-> p <= x < p + Z.of_nat b.
Proof.
  revert p. induction b as [|b IH]; intros p; simpl.
  - lia.
  - rewrite IH. lia.
Qed.

Lemma find_range (f : Z -> bool) b : forall p o,
  (o < b)%nat ->
  (forall o', (o' < o)%nat -> f (p + Z.of_nat o') = false) ->
  f (p + Z.of_nat o) = true ->
  find f (range p b) = Some (p + Z.of_nat o).
Proof.
  induction b as [|b IH]; intros p o Hb Hlt Hf; [lia|]. simpl.
  destruct o as [|o].
  - replace (p + Z.of_nat 0) with p in * by lia. rewrite Hf. reflexivity.
  - pose proof (Hlt O ltac:(lia)) as H0.
    replace (p + Z.of_nat 0) with p in H0 by lia. rewrite H0.
    rewrite (IH (p + 1) o).
    + f_equal. lia.
    + lia.
    + intros o' Ho'. specialize (Hlt (S o') ltac:(lia)).
      replace (p + 1 + Z.of_nat o') with (p + Z.of_nat (S o')) by lia.
      exact Hlt.
    + replace (p + 1 + Z.of_nat o) with (p + Z.of_nat (S o)) by lia. exact Hf.
Qed.

(* ------------------------------------------------------------ pre-allocating store *)
Definition A_pre (b : nat) (start : nat -> Z) (t : list Z) (s : store) : Prop :=
  pre s = true /\ bsz s = Z.of_nat b /\ pstart s = start /\
  ngrants s = blocks_for b (length t) /\
  allocs s = match ngrants s with
             | O => None
             | S j => Some (range (start j) b)
             end.

Lemma A_pre_set_ns b start t s n d :
  A_pre b start t s -> A_pre b start t (set_ns s n d).
Proof. unfold A_pre. destruct n; simpl; tauto. Qed.

Lemma eqb_of_nat n : (Z.of_nat n =? 0) = (n =? 0)%nat.
Proof.
  destruct (Nat.eqb_spec n 0); destruct (Z.eqb_spec (Z.of_nat n) 0);
    try reflexivity; lia.
Qed.

Lemma rollover_nat n b u :
  rollover (Z.of_nat n) (Z.of_nat b) u =
  negb (n =? 0)%nat && (n mod b =? 0)%nat && u.
Proof.
  unfold rollover. rewrite <- Nat2Z.inj_mod, !eqb_of_nat. reflexivity.
Qed.

Lemma allocate_next_shape s s1 v blk :
  scan v (data s) = None -> allocations s = s1 ->
  allocations_value s1 = Some blk -> blk <> [] -> allocations s1 = s1 ->
  allocate_next s v = alloc_pick s1 (Some blk) v.
Proof.
  intros Hsc H1 Hav Hne H2. unfold allocate_next. rewrite Hsc, H1, Hav.
  destruct blk as [|i0 r]; [contradiction|]. rewrite H2, Hav. reflexivity.
Qed.

Lemma alloc_pick_some s blk v cur :
  blk <> [] -> find (fun i => negb (dmem i (data s))) blk = Some cur ->
  alloc_pick s (Some blk) v = Ok (set_data s (dset cur v (data s)), cur).
Proof.
  intros Hne Hf. unfold alloc_pick. destruct blk as [|i0 r]; [contradiction|].
  rewrite Hf. reflexivity.
Qed.

Lemma range_nonempty p b : (1 <= b)%nat -> range p b <> [].
Proof. intros H. rewrite range_cons by exact H. discriminate. Qed.

Section Pre.
  Variable b : nat.
  Variable start : nat -> Z.
  Hypothesis Hb : (1 <= b)%nat.
  Hypothesis Hinc : increasing_blocks (Z.of_nat b) start.

  Let slot := slot_pre b start.
  Let slot_inj := slot_pre_inj b start Hb Hinc.

  (* the state reached by the first evaluation of `allocations` *)
  Lemma allocations_first t s :
    Sim slot t s -> A_pre b start t s ->
    let j := (length t / b)%nat in
    allocations s =
      mkStore (data s) (vstore s) (tstore s) (sstore s) true (Z.of_nat b)
              (Some (range (start j) b)) start (S j).
  Proof.
    intros HS [Hp [Hz [Hst [Hng Hal]]]] j.
    pose proof (sim_data _ _ _ HS) as Hd.
    destruct (divmod_decomp b (length t) Hb) as [Hn Ho]. fold j in Hn.
    rewrite blocks_for_eq in Hng by exact Hb. fold j in Hng.
    destruct s as [d vs ts ss p bz al ps ng]. simpl in *. subst p bz ps d.
    unfold allocations, alloc_needed, grant. simpl.
    destruct (length t mod b =? 0)%nat eqn:Eo.
    - apply Nat.eqb_eq in Eo. subst ng.
      destruct j as [|j'] eqn:Ej.
      + subst al. simpl. rewrite Nat2Z.id. reflexivity.
      + subst al. rewrite lenZ_image, rollover_nat, Eo. simpl "=?"%nat.
        rewrite range_last by exact Hb.
        replace (start j' + Z.of_nat b - 1)
          with (slot (j' * b + (b - 1))%nat).
        2:{ unfold slot. rewrite slot_pre_at by lia. lia. }
        rewrite (dmem_image slot slot_inj).
        assert (Hlt : (j' * b + (b - 1) <? length t)%nat = true)
          by (apply Nat.ltb_lt; lia).
        rewrite Hlt.
        assert (Hnz : (length t =? 0)%nat = false) by (apply Nat.eqb_neq; lia).
        rewrite Hnz. simpl. rewrite Nat2Z.id. reflexivity.
    - subst ng al. rewrite lenZ_image, rollover_nat, Eo.
      rewrite andb_false_r. simpl. reflexivity.
  Qed.

  Lemma alloc_ok_pre t s v :
    Sim slot t s -> A_pre b start t s -> pos v t = None ->
    exists s', allocate_next s v = Ok (s', slot (length t)) /\
               Sim slot (t ++ [v]) s' /\ A_pre b start (t ++ [v]) s'.
  Proof.
    intros HS HA Ep.
    pose proof (allocations_first t s HS HA) as H1. cbv zeta in H1.
    pose proof (sim_data _ _ _ HS) as Hd.
    destruct (divmod_decomp b (length t) Hb) as [Hn Ho].
    set (j := (length t / b)%nat) in *. set (o := (length t mod b)%nat) in *.
    assert (Hsc : scan v (data s) = None).
    { rewrite Hd, scan_image, Ep. reflexivity. }
    set (s1 := mkStore (data s) (vstore s) (tstore s) (sstore s) true
                       (Z.of_nat b) (Some (range (start j) b)) start (S j)) in *.
    assert (Hav : allocations_value s1 = Some (range (start j) b)) by reflexivity.
    (* second evaluation: no further request *)
    assert (H2 : allocations s1 = s1).
    { unfold allocations, alloc_needed, s1. simpl. rewrite Hd, lenZ_image.
      rewrite rollover_nat, range_last by exact Hb.
      replace (start j + Z.of_nat b - 1) with (slot (j * b + (b - 1))%nat).
      2:{ unfold slot. rewrite slot_pre_at by lia. lia. }
      rewrite (dmem_image slot slot_inj). fold o.
      destruct (o =? 0)%nat eqn:Eo.
      - apply Nat.eqb_eq in Eo.
        assert (Hge : (j * b + (b - 1) <? length t)%nat = false)
          by (apply Nat.ltb_ge; lia).
        rewrite Hge, !andb_false_r. reflexivity.
      - rewrite andb_false_r. reflexivity. }
    (* the slot picked *)
    assert (Hfind : find (fun i => negb (dmem i (data s1))) (range (start j) b)
                    = Some (slot (length t))).
    { replace (slot (length t)) with (start j + Z.of_nat o).
      2:{ unfold slot. rewrite Hn at 1. rewrite slot_pre_at by exact Ho.
          reflexivity. }
      apply find_range; [exact Ho| |].
      - intros o' Ho'. unfold s1. simpl. rewrite Hd.
        replace (start j + Z.of_nat o') with (slot (j * b + o')%nat).
        2:{ unfold slot. rewrite slot_pre_at by lia. reflexivity. }
        rewrite (dmem_image slot slot_inj).
        assert (Hlt : (j * b + o' <? length t)%nat = true)
          by (apply Nat.ltb_lt; lia).
        rewrite Hlt. reflexivity.
      - unfold s1. simpl. rewrite Hd.
        replace (start j + Z.of_nat o) with (slot (j * b + o)%nat).
        2:{ unfold slot. rewrite slot_pre_at by lia. reflexivity. }
        rewrite (dmem_image slot slot_inj).
        assert (Hge : (j * b + o <? length t)%nat = false)
          by (apply Nat.ltb_ge; lia).
        rewrite Hge. reflexivity. }
    rewrite (allocate_next_shape s s1 v _ Hsc H1 Hav (range_nonempty _ _ Hb) H2).
    rewrite (alloc_pick_some s1 _ v _ (range_nonempty _ _ Hb) Hfind).
    eexists. split; [reflexivity|]. split.
    - destruct HS as [_ Hv Ht Hs].
      constructor; simpl; try (apply rev_ok_app; assumption).
      rewrite Hd. apply (dset_image_fresh slot slot_inj).
    - unfold A_pre. simpl. repeat split; try reflexivity.
      rewrite app_length. simpl length. rewrite Nat.add_1_r.
      rewrite blocks_for_succ by exact Hb. reflexivity.
  Qed.

  Lemma run_pre ops t s :
    Sim slot t s -> A_pre b start t s ->
    exists s', run s ops = Ok (s', map (map_ret slot) (snd (trun t ops))) /\
               Sim slot (fst (trun t ops)) s' /\
               A_pre b start (fst (trun t ops)) s'.
  Proof.
    apply (run_sim slot (A_pre b start)).
    - intros. apply A_pre_set_ns. assumption.
    - intros. apply alloc_ok_pre; assumption.
  Qed.
End Pre.

Lemma run_plain ops t s :
  Sim slot_plain t s -> A_plain t s ->
  exists s', run s ops = Ok (s', map (map_ret slot_plain) (snd (trun t ops))) /\
             Sim slot_plain (fst (trun t ops)) s' /\
             A_plain (fst (trun t ops)) s'.
Proof.
  apply (run_sim slot_plain A_plain).
  - intros. apply A_plain_set_ns. assumption.
  - intros. apply alloc_ok_plain; assumption.
Qed.

(* ------------------------------------------------------------ histories (spec level) *)
Definition tevents (ops : list top) (rs : list tret)
  : list (option Z * option nat) :=
  flat_map (fun p => let '((tag, sq, value), (ti, si, vi)) := p in
                     [(value, vi); (tag, ti); (sq, si)])
           (combine ops rs).

Definition ev_ok (t : list Z) (e : option Z * option nat) : Prop :=
  match e with
  | (None, None) => True
  | (Some v, Some k) => nth_error t k = Some v
  | _ => False
  end.

Lemma ev_ok_app t e ev : ev_ok t ev -> ev_ok (t ++ e) ev.
Proof.
  destruct ev as [[v|] [k|]]; simpl; try tauto. intros H.
  rewrite nth_error_app1; [exact H|]. apply nth_error_Some. congruence.
Qed.

Lemma tadd_props t x :
  NoDup t ->
  NoDup (fst (tadd t x)) /\ (exists e, fst (tadd t x) = t ++ e) /\
  ev_ok (fst (tadd t x)) (x, snd (tadd t x)).
Proof.
  intros Hn. destruct x as [v|]; simpl.
  - destruct (pos v t) as [k|] eqn:Ep; simpl.
    + split; [exact Hn|]. split; [exists []; rewrite app_nil_r; reflexivity|].
      apply pos_nth. exact Ep.
    + split; [apply NoDup_snoc; [exact Hn|apply pos_none_notin; exact Ep]|].
      split; [exists [v]; reflexivity|].
      rewrite nth_error_app2 by lia. rewrite Nat.sub_diag. reflexivity.
  - split; [exact Hn|]. split; [exists []; rewrite app_nil_r; reflexivity|exact I].
Qed.

Lemma tadd3_props t o :
  NoDup t ->
  NoDup (fst (tadd3 t o)) /\ (exists e, fst (tadd3 t o) = t ++ e) /\
  Forall (ev_ok (fst (tadd3 t o))) (tevents [o] [snd (tadd3 t o)]).
Proof.
  intros Hn. destruct o as [[tag sq] value]. unfold tadd3.
  destruct (tadd_props t value Hn) as [N1 [[e1 E1] K1]].
  destruct (tadd t value) as [t1 vi]. simpl in *.
  destruct (tadd_props t1 tag N1) as [N2 [[e2 E2] K2]].
  destruct (tadd t1 tag) as [t2 ti]. simpl in *.
  destruct (tadd_props t2 sq N2) as [N3 [[e3 E3] K3]].
  destruct (tadd t2 sq) as [t3 si]. simpl in *.
  split; [exact N3|]. split.
  - exists (e1 ++ e2 ++ e3). subst. rewrite !app_assoc. reflexivity.
  - repeat constructor.
    + subst t3 t2. rewrite <- app_assoc. apply ev_ok_app. exact K1.
    + subst t3. apply ev_ok_app. exact K2.
    + exact K3.
Qed.

Lemma tevents_cons o r x xs : tevents (o :: r) (x :: xs) = tevents [o] [x] ++ tevents r xs.
Proof.
  unfold tevents. simpl. destruct o as [[tag sq] value]. destruct x as [[ti si] vi].
  simpl. reflexivity.
Qed.

Lemma trun_props ops : forall t,
  NoDup t ->
  NoDup (fst (trun t ops)) /\ (exists e, fst (trun t ops) = t ++ e) /\
  Forall (ev_ok (fst (trun t ops))) (tevents ops (snd (trun t ops))).
Proof.
  induction ops as [|o r IH]; intros t Hn; simpl.
  - split; [exact Hn|]. split; [exists []; rewrite app_nil_r; reflexivity|constructor].
  - destruct (tadd3_props t o Hn) as [N1 [[e1 E1] K1]].
    destruct (tadd3 t o) as [t1 x]. simpl in *.
    destruct (IH t1 N1) as [N2 [[e2 E2] K2]].
    destruct (trun t1 r) as [t2 xs]. simpl in *.
    split; [exact N2|]. split.
    + exists (e1 ++ e2). subst. rewrite app_assoc. reflexivity.
    + rewrite tevents_cons. apply Forall_app. split; [|exact K2].
      subst t2. eapply Forall_impl; [|exact K1]. intros a. apply ev_ok_app.
Qed.

Definition lift_ev (slot : nat -> Z) (e : option Z * option nat)
  : option Z * option Z := (fst e, option_map slot (snd e)).

Lemma events_of_map slot ops : forall rs,
  events_of ops (map (map_ret slot) rs) = map (lift_ev slot) (tevents ops rs).
Proof.
  induction ops as [|o r IH]; intros rs; [reflexivity|].
  destruct rs as [|x xs]; [reflexivity|].
  rewrite tevents_cons, map_app, <- IH. unfold events_of, tevents. simpl.
  destruct o as [[tag sq] value]. destruct x as [[ti si] vi]. reflexivity.
Qed.

Lemma injective_table_image slot t tev :
  (forall k k', slot k = slot k' -> k = k') ->
  NoDup t -> Forall (ev_ok t) tev ->
  injective_table (map (lift_ev slot) tev) (fun i => dget i (image slot t)).
Proof.
  intros Hinj Hn Hall. rewrite Forall_forall in Hall.
  assert (Hsome : forall v i, In (Some v, Some i) (map (lift_ev slot) tev) ->
                  exists k, i = slot k /\ nth_error t k = Some v).
  { intros v i Hin. apply in_map_iff in Hin. destruct Hin as [[x k] [He Hin]].
    unfold lift_ev in He. simpl in He. inversion He. subst x.
    specialize (Hall _ Hin). destruct k as [k|]; simpl in *; [|discriminate].
    exists k. split; [congruence|exact Hall]. }
  split; [|split].
  - intros x i Hin. apply in_map_iff in Hin. destruct Hin as [[x' k] [He Hin]].
    unfold lift_ev in He. simpl in He. inversion He. subst.
    specialize (Hall _ Hin). destruct x as [v|]; destruct k as [k|]; simpl in *;
      try tauto; split; discriminate.
  - intros v v' i i' H1 H2.
    destruct (Hsome _ _ H1) as [k [Ei Ek]]. destruct (Hsome _ _ H2) as [k' [Ei' Ek']].
    split.
    + intros ->. subst. f_equal.
      rewrite NoDup_nth_error in Hn. apply Hn.
      * apply nth_error_Some. congruence.
      * congruence.
    + intros ->. subst i'. apply Hinj in Ei'. subst k'. congruence.
  - intros v i H1. destruct (Hsome _ _ H1) as [k [Ei Ek]]. subst i.
    rewrite (dget_image slot Hinj). exact Ek.
Qed.

(* ------------------------------------------------------------ corollaries, generic *)
Section Cor.
  Variable slot : nat -> Z.
  Hypothesis slot_inj : forall k k', slot k = slot k' -> k = k'.
  Variable A : list Z -> store -> Prop.
  Hypothesis run_ok : forall ops t s,
    Sim slot t s -> A t s ->
    exists s', run s ops = Ok (s', map (map_ret slot) (snd (trun t ops))) /\
               Sim slot (fst (trun t ops)) s' /\ A (fst (trun t ops)) s'.

  (* an index handed out in the past resolves to its value in every later
     state *)
  Lemma stable_forever t s ops1 ops2 s1 r1 s2 r2 v i :
    NoDup t -> Sim slot t s -> A t s ->
    run s ops1 = Ok (s1, r1) -> run s1 ops2 = Ok (s2, r2) ->
    In (Some v, Some i) (events_of ops1 r1) -> lookup s2 i = Some v.
  Proof.
    intros Hn HS HA R1 R2 Hin.
    destruct (run_ok ops1 t s HS HA) as [s1' [E1 [S1 A1]]].
    rewrite R1 in E1. inversion E1. subst s1' r1. clear E1.
    destruct (trun_props ops1 t Hn) as [N1 [_ K1]].
    destruct (run_ok ops2 _ s1 S1 A1) as [s2' [E2 [S2 A2]]].
    rewrite R2 in E2. inversion E2. subst s2' r2. clear E2.
    destruct (trun_props ops2 _ N1) as [N2 [[e2 E2] _]].
    rewrite events_of_map in Hin. apply in_map_iff in Hin.
    destruct Hin as [[x k] [He Hin]]. unfold lift_ev in He. simpl in He.
    inversion He. subst x. rewrite Forall_forall in K1. specialize (K1 _ Hin).
    destruct k as [k|]; simpl in *; [|discriminate]. inversion He. subst i.
    unfold lookup. rewrite (sim_data _ _ _ S2), (dget_image slot slot_inj), E2.
    rewrite nth_error_app1; [exact K1|]. apply nth_error_Some. congruence.
  Qed.

  Lemma history_table ops s0 :
    Sim slot [] s0 -> A [] s0 ->
    exists s, run s0 ops = Ok (s, map (map_ret slot) (snd (trun [] ops))) /\
              Sim slot (fst (trun [] ops)) s /\ A (fst (trun [] ops)) s /\
              injective_table (events_of ops (map (map_ret slot) (snd (trun [] ops))))
                              (lookup s).
  Proof.
    intros HS HA. destruct (run_ok ops [] s0 HS HA) as [s [E [S1 A1]]].
    exists s. split; [exact E|]. split; [exact S1|]. split; [exact A1|].
    rewrite events_of_map.
    destruct (trun_props ops [] (NoDup_nil _)) as [N [_ K]].
    pose proof (injective_table_image slot _ _ slot_inj N K) as H.
    unfold lookup. rewrite (sim_data _ _ _ S1). exact H.
  Qed.

  (* reverse maps only point at entries of data *)
  Lemma rev_maps_consistent t s n v i :
    Sim slot t s -> dget v (get_ns s n) = Some i -> lookup s i = Some v.
  Proof.
    intros HS Hg. destruct (rev_ok_ns _ _ _ n HS) as [_ Hr].
    destruct (Hr v i Hg) as [k [Hp Hi]]. subst i. unfold lookup.
    rewrite (sim_data _ _ _ HS), (dget_image slot slot_inj).
    apply pos_nth. exact Hp.
  Qed.
End Cor.

Lemma sim_init_plain : Sim slot_plain [] init_plain.
Proof.
  constructor; simpl; try reflexivity;
    (split; [constructor|intros v i H; discriminate]).
Qed.

Lemma sim_init_pre slot bsize start : Sim slot [] (init_pre bsize start).
Proof.
  constructor; simpl; try reflexivity;
    (split; [constructor|intros v i H; discriminate]).
Qed.

Lemma A_init_pre b start :
  (1 <= b)%nat -> A_pre b start [] (init_pre (Z.of_nat b) start).
Proof.
  intros Hb. unfold A_pre. simpl. repeat split.
  rewrite blocks_for_eq by exact Hb. rewrite Nat.mod_0_l, Nat.div_0_l by lia.
  reflexivity.
Qed.

(* ------------------------------------------------------------ block layout *)
Lemma range_map p b : range p b = map (fun o => p + Z.of_nat o) (seq 0 b).
Proof.
  revert p. induction b as [|b IH]; intros p; [reflexivity|].
  simpl. f_equal; [lia|]. rewrite IH, <- seq_shift, map_map.
  apply map_ext. intros o. lia.
Qed.

Lemma slots_of_block b start g : (1 <= b)%nat ->
  map (slot_pre b start) (seq (g * b) b) = range (start g) b.
Proof.
  intros Hb. rewrite range_map.
  replace (seq (g * b) b) with (map (fun o => (g * b + o)%nat) (seq 0 b)).
  2:{ clear. generalize (g * b)%nat as m. intros m. revert m.
      induction b as [|b IH]; intros m; [reflexivity|].
      simpl. f_equal; [lia|]. rewrite <- seq_shift, map_map.
      rewrite <- (IH (S m)). apply map_ext. intros o. lia. }
  rewrite map_map. apply map_ext_in. intros o Ho. apply in_seq in Ho.
  apply slot_pre_at. lia.
Qed.

Lemma concat_blocks b start g : (1 <= b)%nat ->
  concat (map (fun j => range (start j) b) (seq 0 g)) =
  map (slot_pre b start) (seq 0 (g * b)).
Proof.
  intros Hb. induction g as [|g IH]; [reflexivity|].
  rewrite seq_S, map_app, concat_app, IH. simpl.
  rewrite app_nil_r. replace (b + g * b)%nat with (g * b + b)%nat by lia.
  rewrite seq_app, map_app. simpl. rewrite slots_of_block by exact Hb.
  reflexivity.
Qed.

Lemma firstn_seq n m : (n <= m)%nat -> firstn n (seq 0 m) = seq 0 n.
Proof.
  intros H. replace m with (n + (m - n))%nat by lia. rewrite seq_app.
  rewrite firstn_app, seq_length, Nat.sub_diag. simpl. rewrite app_nil_r.
  rewrite <- (seq_length n 0) at 1. apply firstn_all.
Qed.

Lemma blocks_for_bounds b n : (1 <= b)%nat ->
  (n <= blocks_for b n * b /\ (blocks_for b n - 1) * b < n + (if (n =? 0)%nat then 1 else 0))%nat.
Proof.
  intros Hb. destruct (divmod_decomp b n Hb) as [Hn Ho].
  rewrite blocks_for_eq by exact Hb.
  destruct (n mod b =? 0)%nat eqn:E.
  - apply Nat.eqb_eq in E. destruct (n =? 0)%nat eqn:E0.
    + apply Nat.eqb_eq in E0. subst n. rewrite Nat.div_0_l by lia. simpl. lia.
    + apply Nat.eqb_neq in E0. destruct (n / b)%nat; nia.
  - apply Nat.eqb_neq in E. destruct (n =? 0)%nat eqn:E0.
    + apply Nat.eqb_eq in E0. subst n. rewrite Nat.mod_0_l in E by lia. lia.
    + simpl. nia.
Qed.

(* used indices = the blocks granted so far, in order, cut after n indices:
   all earlier blocks completely, then a prefix of the current block *)
Lemma used_is_prefix_of_blocks b start t s :
  (1 <= b)%nat -> Sim (slot_pre b start) t s -> A_pre b start t s ->
  map fst (data s) = firstn (length t) (concat (granted s)) /\
  ngrants s = blocks_for b (length t).
Proof.
  intros Hb HS [Hp [Hz [Hst [Hng Hal]]]]. split; [|exact Hng].
  unfold granted. rewrite Hz, Hst, Nat2Z.id, Hng.
  rewrite concat_blocks by exact Hb. rewrite firstn_map.
  rewrite firstn_seq by (apply (blocks_for_bounds b _ Hb)).
  rewrite (sim_data _ _ _ HS). apply image_keys.
Qed.

(* ------------------------------------------------------------ sync *)
Lemma merge_data_get l : forall sh i,
  dict_wf l ->
  dget i (merge_data l sh) =
  match dget i l with Some v => Some v | None => dget i sh end.
Proof.
  unfold merge_data, dict_wf.
  induction l as [|[k v] r IH]; intros sh i Hw; [reflexivity|].
  simpl in *. inversion Hw as [|? ? Hk Hr]; subst.
  rewrite IH by exact Hr. destruct (i =? k) eqn:E.
  - apply Z.eqb_eq in E. subst i. rewrite (notin_dget_none _ _ Hk).
    apply dget_dset_same.
  - apply Z.eqb_neq in E. rewrite dget_dset_other by exact E. reflexivity.
Qed.

Lemma merge_rev_get l : forall sh v,
  dict_wf l ->
  dget v (merge_rev l sh) =
  match dget v sh with Some i => Some i | None => dget v l end.
Proof.
  unfold merge_rev, dict_wf.
  induction l as [|[k i0] r IH]; intros sh v Hw; simpl.
  - destruct (dget v sh); reflexivity.
  - simpl in Hw. inversion Hw as [|? ? Hk Hr]; subst.
    rewrite IH by exact Hr. unfold dmem.
    destruct (dget k sh) as [x|] eqn:Ek.
    + destruct (dget v sh) eqn:Ev; [reflexivity|].
      destruct (v =? k) eqn:E; [|reflexivity].
      apply Z.eqb_eq in E. subst. congruence.
    + destruct (v =? k) eqn:E.
      * apply Z.eqb_eq in E. subst v. rewrite dget_dset_same, Ek. reflexivity.
      * apply Z.eqb_neq in E. rewrite dget_dset_other by exact E. reflexivity.
Qed.

Lemma sync_into_empty slot t l :
  (forall k k', slot k = slot k' -> k = k') -> Sim slot t l ->
  let sh := unproxy (sync l shared_empty) in
  (forall i, sh_lookup sh i = lookup l i) /\
  (forall v, dget v (sh_vstore sh) = dget v (vstore l)) /\
  (forall v, dget v (sh_tstore sh) = dget v (tstore l)) /\
  (forall v, dget v (sh_sstore sh) = dget v (sstore l)).
Proof.
  intros Hinj [Hd [Wv _] [Wt _] [Ws _]]. simpl. unfold sh_lookup, lookup. simpl.
  repeat split; intros x.
  - rewrite merge_data_get.
    + destruct (dget x (data l)); reflexivity.
    + rewrite Hd. apply image_wf. exact Hinj.
  - rewrite merge_rev_get by exact Wv. reflexivity.
  - rewrite merge_rev_get by exact Wt. reflexivity.
  - rewrite merge_rev_get by exact Ws. reflexivity.
Qed.

(* ------------------------------------------------------------ top level *)
Lemma start_of_increasing b gaps : forall j p0,
  Forall (fun g => 0 <= g) gaps ->
  start_of p0 b gaps j + b <= start_of p0 b gaps (S j).
Proof.
  intros j. revert gaps. induction j as [|j IH]; intros gaps p0 Hg.
  - simpl. destruct gaps as [|g0 [|g1 r]]; simpl; try lia.
    inversion Hg as [|? ? _ H1]; subst. inversion H1; subst. lia.
  - change (start_of p0 b gaps (S j))
      with (start_of (p0 + hd 0 gaps + b) b (tl gaps) j).
    change (start_of p0 b gaps (S (S j)))
      with (start_of (p0 + hd 0 gaps + b) b (tl gaps) (S j)).
    apply IH. destruct gaps; simpl; [constructor|]. inversion Hg; assumption.
Qed.

Lemma start_of_is_increasing p0 b gaps :
  Forall (fun g => 0 <= g) gaps -> increasing_blocks b (start_of p0 b gaps).
Proof. intros H j. apply start_of_increasing. exact H. Qed.

Theorem plain_store_is_table ops :
  let T := fst (trun [] ops) in
  let rets := map (map_ret slot_plain) (snd (trun [] ops)) in
  exists s, run init_plain ops = Ok (s, rets) /\
            data s = image slot_plain T /\
            injective_table (events_of ops rets) (lookup s) /\
            map fst (data s) = map Z.of_nat (seq 0 (length (data s))).
Proof.
  intros T rets.
  destruct (history_table slot_plain slot_plain_inj A_plain run_plain ops
              init_plain sim_init_plain eq_refl) as [s [E [S1 [_ H]]]].
  exists s. split; [exact E|]. split; [exact (sim_data _ _ _ S1)|].
  split; [exact H|].
  rewrite (sim_data _ _ _ S1), image_keys, image_length. reflexivity.
Qed.

Theorem pre_store_is_table bsize start ops :
  1 <= bsize -> increasing_blocks bsize start ->
  let b := Z.to_nat bsize in
  let T := fst (trun [] ops) in
  let rets := map (map_ret (slot_pre b start)) (snd (trun [] ops)) in
  exists s, run (init_pre bsize start) ops = Ok (s, rets) /\
            data s = image (slot_pre b start) T /\
            injective_table (events_of ops rets) (lookup s) /\
            map fst (data s) = firstn (length T) (concat (granted s)) /\
            ngrants s = blocks_for b (length T).
Proof.
  intros Hbs Hinc b T rets.
  assert (Hb : (1 <= b)%nat) by (unfold b; lia).
  assert (Ez : bsize = Z.of_nat b) by (unfold b; lia).
  rewrite Ez in Hinc.
  pose proof (slot_pre_inj b start Hb Hinc) as Hinj.
  destruct (history_table (slot_pre b start) Hinj (A_pre b start)
              (fun ops t s => run_pre b start Hb Hinc ops t s) ops
              (init_pre bsize start) (sim_init_pre _ _ _)) as [s [E [S1 [A1 H]]]].
  { rewrite Ez. apply A_init_pre. exact Hb. }
  exists s. split; [exact E|]. split; [exact (sim_data _ _ _ S1)|].
  split; [exact H|].
  apply (used_is_prefix_of_blocks b start _ s Hb S1 A1).
Qed.

Theorem plain_index_stable ops1 ops2 s1 r1 s2 r2 v i :
  run init_plain ops1 = Ok (s1, r1) -> run s1 ops2 = Ok (s2, r2) ->
  In (Some v, Some i) (events_of ops1 r1) -> lookup s2 i = Some v.
Proof.
  apply (stable_forever slot_plain slot_plain_inj A_plain run_plain []
           init_plain ops1 ops2 s1 r1 s2 r2 v i (NoDup_nil _) sim_init_plain
           eq_refl).
Qed.

Theorem pre_index_stable bsize start ops1 ops2 s1 r1 s2 r2 v i :
  1 <= bsize -> increasing_blocks bsize start ->
  run (init_pre bsize start) ops1 = Ok (s1, r1) -> run s1 ops2 = Ok (s2, r2) ->
  In (Some v, Some i) (events_of ops1 r1) -> lookup s2 i = Some v.
Proof.
  intros Hbs Hinc.
  set (b := Z.to_nat bsize).
  assert (Hb : (1 <= b)%nat) by (unfold b; lia).
  assert (Ez : bsize = Z.of_nat b) by (unfold b; lia).
  rewrite Ez in Hinc.
  pose proof (slot_pre_inj b start Hb Hinc) as Hinj.
  apply (stable_forever (slot_pre b start) Hinj (A_pre b start)
           (fun ops t s => run_pre b start Hb Hinc ops t s) []
           (init_pre bsize start) ops1 ops2 s1 r1 s2 r2 v i (NoDup_nil _)
           (sim_init_pre _ _ _)).
  rewrite Ez. apply A_init_pre. exact Hb.
Qed.

Theorem plain_rev_maps_consistent ops s rets n v i :
  run init_plain ops = Ok (s, rets) ->
  dget v (get_ns s n) = Some i -> lookup s i = Some v.
Proof.
  intros R. destruct (run_plain ops [] init_plain sim_init_plain eq_refl)
    as [s' [E [S1 _]]].
  rewrite R in E. inversion E. subst s'.
  apply (rev_maps_consistent slot_plain slot_plain_inj _ s n v i S1).
Qed.

Theorem pre_rev_maps_consistent bsize start ops s rets n v i :
  1 <= bsize -> increasing_blocks bsize start ->
  run (init_pre bsize start) ops = Ok (s, rets) ->
  dget v (get_ns s n) = Some i -> lookup s i = Some v.
Proof.
  intros Hbs Hinc R.
  set (b := Z.to_nat bsize).
  assert (Hb : (1 <= b)%nat) by (unfold b; lia).
  assert (Ez : bsize = Z.of_nat b) by (unfold b; lia).
  rewrite Ez in Hinc.
  pose proof (slot_pre_inj b start Hb Hinc) as Hinj.
  destruct (run_pre b start Hb Hinc ops [] (init_pre bsize start)
              (sim_init_pre _ _ _)) as [s' [E [S1 _]]].
  { rewrite Ez. apply A_init_pre. exact Hb. }
  rewrite R in E. inversion E. subst s'.
  apply (rev_maps_consistent (slot_pre b start) Hinj _ s n v i S1).
Qed.

Theorem none_maps_to_none s n : add_to_store s n None = Ok (s, None).
Proof. reflexivity. Qed.

(* the manager-backed store used by one task: after sync (+unproxy) the
   shared dicts answer every lookup as the local ones *)
Theorem pre_sync_exact bsize start ops s rets :
  1 <= bsize -> increasing_blocks bsize start ->
  run (init_pre bsize start) ops = Ok (s, rets) ->
  let sh := unproxy (sync s shared_empty) in
  (forall i, sh_lookup sh i = lookup s i) /\
  (forall v, dget v (sh_vstore sh) = dget v (vstore s)) /\
  (forall v, dget v (sh_tstore sh) = dget v (tstore s)) /\
  (forall v, dget v (sh_sstore sh) = dget v (sstore s)).
Proof.
  intros Hbs Hinc R.
  set (b := Z.to_nat bsize).
  assert (Hb : (1 <= b)%nat) by (unfold b; lia).
  assert (Ez : bsize = Z.of_nat b) by (unfold b; lia).
  rewrite Ez in Hinc.
  pose proof (slot_pre_inj b start Hb Hinc) as Hinj.
  destruct (run_pre b start Hb Hinc ops [] (init_pre bsize start)
              (sim_init_pre _ _ _)) as [s' [E [S1 _]]].
  { rewrite Ez. apply A_init_pre. exact Hb. }
  rewrite R in E. inversion E. subst s'.
  apply (sync_into_empty (slot_pre b start) _ s Hinj S1).
Qed.
