(* C09 - string-level lemmas: what the regex matchers do to a path without
   whitespace, in terms of the specification's classification [rotated]. *)
From Coq Require Import ZArith List Bool Lia.
From SK Require Import Model.Collection Model.Catalog Spec.Catalog.
Import ListNotations.
Open Scope Z_scope.

Lemma str_eqb_spec a b : str_eqb a b = true <-> a = b.
Proof.
  revert b. induction a as [|x a IH]; destruct b as [|y b]; simpl;
    split; intro H; try discriminate; try reflexivity.
  - apply andb_true_iff in H. destruct H as [H1 H2].
    apply Z.eqb_eq in H1. apply IH in H2. now subst.
  - inversion H; subst. rewrite Z.eqb_refl. simpl. now apply IH.
Qed.

Lemma starts_with_app p s :
  starts_with p s = true -> s = p ++ skipn (length p) s.
Proof.
  revert s. induction p as [|a p IH]; intros [|b s] H; simpl in *;
    try reflexivity; try discriminate.
  apply andb_true_iff in H. destruct H as [H1 H2].
  apply Z.eqb_eq in H1. subst. f_equal. now apply IH.
Qed.

Lemma starts_with_refl_app p s : starts_with p (p ++ s) = true.
Proof.
  induction p as [|a p IH]; simpl; [reflexivity|].
  now rewrite Z.eqb_refl, IH.
Qed.

Lemma no_ws_app a b : no_ws (a ++ b) = no_ws a && no_ws b.
Proof. unfold no_ws. apply forallb_app. Qed.

Lemma no_ws_rev a : no_ws (rev a) = no_ws a.
Proof.
  induction a as [|x a IH]; simpl; [reflexivity|].
  rewrite no_ws_app, IH. simpl. rewrite andb_true_r. apply andb_comm.
Qed.

Lemma no_ws_skipn n a : no_ws a = true -> no_ws (skipn n a) = true.
Proof.
  revert a. induction n as [|n IH]; intros [|x a] H; simpl in *;
    try assumption; try reflexivity.
  apply andb_true_iff in H. destruct H as [_ H]. now apply IH.
Qed.

(* a string without whitespace does not end in a newline: `$` = the end *)
Lemma dollar_no_ws {A} (fm : str -> option A) x :
  no_ws x = true -> dollar fm x = fm x.
Proof.
  intro H. unfold dollar. destruct (fm x); [reflexivity|].
  destruct (rev x) as [|c r] eqn:E; [reflexivity|].
  rewrite <- no_ws_rev, E in H. simpl in H.
  destruct (Z.eqb_spec c 10) as [->|Hn].
  - simpl in H. discriminate.
  - destruct c as [|p|p]; try reflexivity.
    do 4 (destruct p as [p|p|]; try reflexivity). exfalso. now apply Hn.
Qed.

Lemma span_digits_app s d rest :
  span_digits s = (d, rest) -> s = d ++ rest.
Proof.
  revert d rest. induction s as [|c s IH]; simpl; intros d rest H.
  - inversion H. reflexivity.
  - destruct (is_digit c).
    + destruct (span_digits s) as [d' r'] eqn:E. inversion H; subst.
      simpl. f_equal. now apply IH.
    + inversion H. reflexivity.
Qed.

Lemma no_ws_app_r a b : no_ws (a ++ b) = true -> no_ws b = true.
Proof. rewrite no_ws_app. intro H. now apply andb_true_iff in H. Qed.

(* ------------------------------------------------------ classification *)
Definition r_gz (r : str) : str :=
  if starts_with [122; 103; 46] r then skipn 3 r else r.

Definition num_cond (drev rest : str) : bool :=
  nonempty drev && starts_with (rev dotlogdot) rest && nonempty (skipn 5 rest).

Lemma rotated_unfold x :
  rotated x =
  let '(drev, rest) := span_digits (r_gz (rev x)) in
  if num_cond drev rest
  then Some (rev (skipn 5 rest), digits_val (rev drev)) else None.
Proof. reflexivity. Qed.

Lemma endlog_not_rotated x :
  ends_with x dotlog = true -> rotated x = None.
Proof.
  unfold ends_with. intro H. rewrite rotated_unfold. unfold r_gz.
  apply starts_with_app in H. simpl in H. rewrite H. reflexivity.
Qed.

Lemma rotated_not_endlog x p :
  rotated x = Some p -> ends_with x dotlog = false.
Proof.
  intro H. destruct (ends_with x dotlog) eqn:E; [|reflexivity].
  rewrite (endlog_not_rotated x E) in H. discriminate.
Qed.

(* the group matcher on a whitespace-free path that does not end in .log *)
Lemma grp_fixed_full_unfold x :
  no_ws x = true -> ends_with x dotlog = false ->
  grp_fixed_full x =
  let '(drev, rest) := span_digits (r_gz (rev x)) in
  if num_cond drev rest then Some (rev (skipn 5 rest)) else None.
Proof.
  intros Hx He. unfold grp_fixed_full. unfold ends_with in He. rewrite He.
  assert (Hr : no_ws (rev x) = true) by now rewrite no_ws_rev.
  assert (Hg : no_ws (r_gz (rev x)) = true).
  { unfold r_gz. destruct (starts_with [122; 103; 46] (rev x));
      [now apply no_ws_skipn|assumption]. }
  replace (if starts_with [122; 103; 46] (rev x)
           then strip_num (skipn 3 (rev x)) else strip_num (rev x))
    with (strip_num (r_gz (rev x)))
    by (unfold r_gz; now destruct (starts_with [122; 103; 46] (rev x))).
  unfold strip_num, num_cond.
  destruct (span_digits (r_gz (rev x))) as [drev rest] eqn:Es.
  apply span_digits_app in Es. rewrite Es in Hg. apply no_ws_app_r in Hg.
  pose proof (no_ws_skipn 5 rest Hg) as H5.
  remember (skipn 5 rest) as a5.
  destruct (nonempty drev && starts_with (rev dotlogdot) rest); simpl;
    [|reflexivity].
  unfold stem_ok. rewrite H5, andb_true_r.
  reflexivity.
Qed.

(* (S1) a rotated copy is grouped under its stem *)
Lemma rotated_grp x stem n :
  no_ws x = true -> rotated x = Some (stem, n) ->
  grp_fixed x = Some stem /\ ends_with x dotlog = false.
Proof.
  intros Hx Hrot. pose proof (rotated_not_endlog x _ Hrot) as He.
  split; [|assumption].
  unfold grp_fixed. rewrite dollar_no_ws by assumption.
  rewrite (grp_fixed_full_unfold x Hx He). rewrite rotated_unfold in Hrot.
  destruct (span_digits (r_gz (rev x))) as [drev rest].
  destruct (num_cond drev rest); [|discriminate].
  inversion Hrot. reflexivity.
Qed.

(* (S2) an ordinary name is not grouped, or is a live log and the path put
   into the result (prefix + ".log") is the path itself *)
Lemma ordinary_grp x :
  no_ws x = true -> rotated x = None ->
  (ends_with x dotlog = false /\ grp_fixed x = None) \/
  (ends_with x dotlog = true /\
   (grp_fixed x = None \/
    exists pfx, grp_fixed x = Some pfx /\ pfx ++ dotlog = x)).
Proof.
  intros Hx Hrot. unfold grp_fixed. rewrite dollar_no_ws by assumption.
  destruct (ends_with x dotlog) eqn:He.
  - right. split; [reflexivity|].
    unfold grp_fixed_full. unfold ends_with in He. rewrite He.
    destruct (stem_ok (skipn 4 (rev x))); [right|now left].
    eexists. split; [reflexivity|].
    apply starts_with_app in He. simpl length in He.
    rewrite <- (rev_involutive x) at 2. rewrite He at 2.
    rewrite rev_app_distr. reflexivity.
  - left. split; [reflexivity|].
    rewrite (grp_fixed_full_unfold x Hx He). rewrite rotated_unfold in Hrot.
    destruct (span_digits (r_gz (rev x))) as [drev rest].
    destruct (num_cond drev rest); [discriminate|reflexivity].
Qed.

(* (S5) the sort key of a rotated copy is its number: the `no match' default
   of logrotate_log_sort is never used for a grouped name *)
Lemma rotated_sort_key nm x stem n :
  no_ws x = true -> rotated x = Some (stem, n) -> sort_key nm x = n.
Proof.
  intros Hx Hrot. pose proof (rotated_not_endlog x _ Hrot) as He.
  unfold sort_key. rewrite !dollar_no_ws by assumption.
  assert (Hr : no_ws (rev x) = true) by now rewrite no_ws_rev.
  assert (E0 : fm0 x = None).
  { unfold fm0. unfold ends_with in He. now rewrite He. }
  rewrite E0. rewrite rotated_unfold in Hrot.
  unfold fm1, fm2, r_gz in *.
  destruct (starts_with [122; 103; 46] (rev x)) eqn:Eg.
  - (* .gz *)
    assert (E1 : fm1_rev (rev x) = None).
    { apply starts_with_app in Eg. simpl length in Eg. rewrite Eg.
      reflexivity. }
    rewrite E1. unfold fm1_rev, strip_num.
    destruct (span_digits (skipn 3 (rev x))) as [drev rest] eqn:Es.
    unfold num_cond in Hrot.
    destruct (nonempty drev && starts_with (rev dotlogdot) rest) eqn:Ec;
      [|discriminate].
    rewrite andb_true_l in Hrot.
    destruct (nonempty (skipn 5 rest)) eqn:En; [|discriminate].
    apply span_digits_app in Es.
    assert (Hs : no_ws (skipn 3 (rev x)) = true) by now apply no_ws_skipn.
    rewrite Es in Hs. apply no_ws_app_r in Hs.
    unfold stem_ok. rewrite En, (no_ws_skipn 5 rest Hs). cbn [andb].
    inversion Hrot. reflexivity.
  - unfold fm1_rev, strip_num.
    destruct (span_digits (rev x)) as [drev rest] eqn:Es.
    unfold num_cond in Hrot.
    destruct (nonempty drev && starts_with (rev dotlogdot) rest) eqn:Ec;
      [|discriminate].
    rewrite andb_true_l in Hrot.
    destruct (nonempty (skipn 5 rest)) eqn:En; [|discriminate].
    apply span_digits_app in Es. rewrite Es in Hr. apply no_ws_app_r in Hr.
    unfold stem_ok. rewrite En, (no_ws_skipn 5 rest Hr). cbn [andb].
    inversion Hrot. reflexivity.
Qed.
