(* CAPSTONE, part 3: sequence searches end to end.

   (B4) Model/Sequence.v's [seq_step] (= ctl_step + the results object) and
   [seq_eof] instantiate the [step] / [post] of Model/Task.v's generic
   per-line loop: the handler run of a definition over numbered lines IS
   [seq_loop], the end-of-file pass exports [seq_eof] of every definition,
   so the collection's results for an (unconstrained) definition are
   [seq_run] of the classified searched lines - and C03 says what their
   report is.

   A composition of
     C12 / C04 / C11 / Lines    (Proofs/RunStream.v [execute_dispatch],
                                 [stream_searched])
     C01  execute_exact (collection = emitted stream, any handler)
     C07  results_of_def, final_state_of_def (one definition on its own)
     C03  sequence_exact_report
     C17  task_counts_its_collection, stats_exact. *)
From Coq Require Import ZArith List Bool Lia Arith.
From SK Require Import Model.Base Model.Seek Model.SinceSeek Model.Lines
     Model.Task Model.Stats Model.Gzip Model.Sequence Model.Run
     Spec.Lines Spec.C04 Spec.Task Spec.Stats Spec.Sequence Spec.Run
     Proofs.Lines Proofs.TaskFlush Proofs.TaskLoop Proofs.Stats
     Proofs.Compose Proofs.Gzip Proofs.Sequence Proofs.SeqShift
     Proofs.TaskGating
     Proofs.RunBridge Proofs.RunStream Proofs.Run.
Import ListNotations.
Open Scope Z_scope.

Section Seq.
  Variables H A L W : Z.
  Variable tsw : list Z -> option Z.
  Variable line : Type.
  Variable classify : list Z -> line.
  Variable ocon : Z -> line -> outcome.
  Variables MAX NBUF : Z.
  Variable qclass : Z -> line -> cline.
  Hypothesis HH : 0 < H.
  Hypothesis HA : 0 < A.
  Hypothesis HL : 0 < L.
  Hypothesis HMAX : 1 <= MAX.

  Notation hstep := (seq_hstep line qclass).
  Notation exec := (seq_execute line ocon MAX NBUF qclass).
  Notation init := (fun _ : qdef => init_state).
  Notation hrunQ := (hrun line qdef sstate qresult hstep).

  (* ---- (B4) the handler run of one definition is seq_loop ---- *)
  Lemma hrun_is_seq_loop d : forall lines i st,
    hrunQ d st (enum (i + 1) lines) =
    (fst (seq_loop (q_shape d) st i (map (qclass (q_key d)) lines)), []).
  Proof.
    induction lines as [|l r IH]; intros i st; [reflexivity|].
    cbn [enum hrun map]. unfold seq_hstep at 1.
    rewrite (IH (i + 1)). reflexivity.
  Qed.

  Lemma seq_loop_ln sh : forall cl st i,
    snd (seq_loop sh st i cl) = i + Z.of_nat (length cl).
  Proof.
    unfold seq_loop.
    induction cl as [|c r IH]; intros st i; cbn [seq_loop_with length].
    - cbn. lia.
    - rewrite IH. lia.
  Qed.

  Lemma hstep_keyed : step_keyed line qdef sstate qresult q_key hstep fst.
  Proof. intros d st ln l. constructor. Qed.

  (* ---- the end-of-file pass, seen by one definition ---- *)
  Lemma hpost_filter (g : qdef * sstate -> list part) :
    forall (sl : list (qdef * sstate)) d st,
      NoDup (map (fun x => q_key (fst x)) sl) -> In (d, st) sl ->
      filter (keyb qresult fst (q_key d))
             (flat_map (fun x => map (pair (q_key (fst x))) (g x)) sl) =
      map (pair (q_key d)) (g (d, st)).
  Proof.
    assert (Hall : forall k (ps : list part),
               filter (keyb qresult fst k) (map (pair k) ps) = map (pair k) ps).
    { intros k ps. induction ps as [|p ps IH]; [reflexivity|].
      cbn [map filter]. unfold keyb at 1. cbn [fst]. rewrite Z.eqb_refl, IH.
      reflexivity. }
    assert (Hnone : forall k k' (ps : list part), k' <> k ->
               filter (keyb qresult fst k) (map (pair k') ps) = []).
    { intros k k' ps Hne. induction ps as [|p ps IH]; [reflexivity|].
      cbn [map filter]. unfold keyb at 1. cbn [fst].
      destruct (k' =? k) eqn:E; [apply Z.eqb_eq in E; contradiction|].
      exact IH. }
    induction sl as [|x sl IH]; intros d st Hnd Hin; [destruct Hin|].
    inversion Hnd as [|? ? Hx Hnd']; subst.
    cbn [flat_map]. rewrite filter_app. destruct Hin as [->|Hin].
    - cbn [fst]. rewrite Hall.
      assert (Hrest : forall sl', ~ In (q_key d) (map (fun x : qdef * sstate
                                                  => q_key (fst x)) sl') ->
                filter (keyb qresult fst (q_key d))
                  (flat_map (fun x => map (pair (q_key (fst x))) (g x)) sl')
                = []).
      { induction sl' as [|y sl' IH']; intros Hn; [reflexivity|].
        cbn [flat_map]. rewrite filter_app.
        rewrite Hnone by (intros Hc; apply Hn; left; exact Hc).
        cbn [app]. apply IH'.
        intros Hc. apply Hn. right. exact Hc. }
      etransitivity; [|apply app_nil_r]. apply f_equal. exact (Hrest sl Hx).
    - rewrite Hnone.
      + cbn [app]. exact (IH d st Hnd' Hin).
      + intros Hc. apply Hx. rewrite Hc.
        apply (in_map (fun x : qdef * sstate => q_key (fst x)) sl (d, st) Hin).
  Qed.

  Lemma final_keys_nodup ds lines :
    NoDup (map (fun x : qdef * sstate => q_key (fst x))
               (slot_states qdef sstate
                  (final_slots line qdef sstate qresult q_key q_cons ocon init
                               hstep ds lines))).
  Proof.
    unfold final_slots, slot_states. rewrite lines_pure_slots, !map_map.
    cbn [fst].
    pose proof (search_defs_nodup qdef sstate q_key q_cons init ds) as Hn.
    unfold skey in Hn.
    erewrite map_ext; [exact Hn|]. intros s. cbn beta.
    destruct (slot_traj_visible line qdef sstate qresult q_cons ocon hstep
                lines 0 s) as (_ & _ & Ed).
    rewrite Ed. reflexivity.
  Qed.

  (* ---- C01 + C07 + (B4): the collection's results for an unconstrained
     sequence definition are seq_run of the classified lines ---- *)
  Lemma seq_results_of_def ds lines d bs :
    keys_ok q_key ds -> In d ds -> q_cons d = [] ->
    exec ds lines = TaskOk bs ->
    map snd (filter (fun r : qresult => fst r =? q_key d) (concat bs)) =
    seq_run (q_shape d) (map (qclass (q_key d)) lines).
  Proof.
    intros Hk Hd Hc E.
    destruct (execute_exact line qdef sstate qresult q_key q_cons ocon init
                hstep seq_hpost MAX NBUF ds lines HMAX) as (bs' & E' & Hem & _).
    unfold seq_execute in E. rewrite E in E'. inversion E'; subst bs'.
    rewrite Hem. unfold emitted.
    change (fun r : qresult => fst r =? q_key d)
      with (keyb qresult fst (q_key d)).
    rewrite filter_app.
    assert (Hcons : has_constraints qdef q_cons d = false)
      by (unfold has_constraints; rewrite Hc; reflexivity).
    (* nothing is emitted while the lines are read *)
    rewrite (results_of_def line qdef sstate qresult q_key q_cons ocon init
               hstep fst ds lines d hstep_keyed Hk Hd).
    rewrite Hcons. cbn [negb]. rewrite visible_true.
    change 1 with (0 + 1). rewrite hrun_is_seq_loop. cbn [snd app].
    (* the end-of-file pass *)
    pose proof (final_state_of_def line qdef sstate qresult q_key q_cons ocon
                  init hstep ds lines d Hk Hd) as Hf.
    rewrite Hcons in Hf. cbn [negb] in Hf. rewrite visible_true in Hf.
    change 1 with (0 + 1) in Hf. rewrite hrun_is_seq_loop in Hf.
    cbn [fst] in Hf.
    unfold seq_hpost.
    rewrite (hpost_filter
               (fun x => seq_eof (q_shape (fst x)) (snd x)
                                 (Z.of_nat (length lines)))
               _ d _ (final_keys_nodup ds lines) Hf).
    rewrite map_map. cbn [snd fst]. rewrite map_id.
    unfold seq_run, seq_run_with. fold seq_loop.
    pose proof (seq_loop_ln (q_shape d) (map (qclass (q_key d)) lines)
                            init_state 0) as Hln.
    destruct (seq_loop (q_shape d) init_state 0
                       (map (qclass (q_key d)) lines)) as [st n].
    cbn [fst snd] in *. rewrite Hln, map_length. reflexivity.
  Qed.

  (* ---- searching nothing exports nothing ---- *)
  Lemma seq_exec_nil ds : exec ds [] = TaskOk [].
  Proof.
    unfold seq_execute, Task.execute, run_search. cbn [lines_loop].
    assert (Hp : forall l n,
               seq_hpost (slot_states qdef sstate
                            (map (init_slot qdef sstate q_cons init) l)) n
               = []).
    { induction l as [|a l IH]; intros n; [reflexivity|].
      unfold seq_hpost in *. cbn [map slot_states flat_map]. rewrite IH.
      reflexivity. }
    unfold search_defs. rewrite Hp. reflexivity.
  Qed.

  Lemma seq_ids_keys ds k : In k (seq_ids ds) <-> In k (map q_key ds).
  Proof.
    unfold seq_ids, search_defs. rewrite map_map. cbn [sl_def init_slot].
    split; intros Hk; apply in_map_iff in Hk; destruct Hk as [d [Ek Hd]];
      subst k.
    - apply dedupe_in in Hd. apply in_map. tauto.
    - destruct (dedupe_complete qdef q_key ds [] d Hd) as [d' [Hd' Ek]];
        [intros []|].
      rewrite <- Ek. apply in_map. exact Hd'.
  Qed.

  (* ================================================== THE COMPOSITION *)
  Theorem sequence_run_exact prev f since restrictions ds :
    wf f -> keys_ok q_key ds ->
    (seeks since restrictions (map q_key ds) = true ->
     seek_hyps H A L W tsw (stream f)) ->
    let lines := searched W tsw line classify since restrictions
                          (map q_key ds) (stream f) in
    exists coll,
      run_sequence H A L W tsw line classify ocon MAX NBUF qclass prev f
                   since restrictions ds =
      RunOk coll (mkStats (Stats.lenZ ds) [Stats.lenZ ds] (Stats.lenZ lines)
                          1 1 (Stats.lenZ coll)) /\
      forall d, In d ds -> q_cons d = [] ->
        seq_report (q_key d) coll =
        spec_report (q_shape d) (map (qclass (q_key d)) lines).
  Proof.
    intros Hwf Hk Hs lines. unfold run_sequence, run_one.
    rewrite (execute_dispatch H A L W tsw line classify HH HA qresult
               (seq_ids ds) (exec ds) (seq_exec_nil ds) since restrictions f
               Hwf).
    assert (Hids : restricted restrictions (seq_ids ds) =
                   restricted restrictions (map q_key ds))
      by (apply restricted_ext, seq_ids_keys).
    assert (Hs' : seeks since restrictions (seq_ids ds) = true ->
                  seek_hyps H A L W tsw (stream f))
      by (unfold seeks in *; rewrite Hids; exact Hs).
    rewrite (stream_searched H A L W tsw line classify HH HA qresult
               (seq_ids ds) (exec ds) since restrictions (stream f) HL Hs').
    cbv zeta.
    assert (El : searched W tsw line classify since restrictions (seq_ids ds)
                          (stream f) = lines)
      by (unfold lines, searched, start_byte; rewrite Hids; reflexivity).
    rewrite El.
    destruct (task_counts_its_collection line qdef sstate qresult q_key
                q_cons ocon init hstep seq_hpost MAX NBUF HMAX ds lines)
      as (bs & E & _ & _).
    change (exec ds lines = TaskOk bs) in E. rewrite E. cbn [lift collected].
    exists (concat bs). split.
    - rewrite single_file_stats. reflexivity.
    - intros d Hd Hc. unfold seq_report.
      etransitivity;
        [apply f_equal; exact (seq_results_of_def ds lines d bs Hk Hd Hc E)|].
      apply sequence_exact_report.
  Qed.

  (* ============ constrained sequence definitions (C07 x C03, full) ======
     The handler of a definition with constraints of its own sees the lines
     from its activation line on, ORIGINAL numbers kept: its results are the
     machine started at line number k on the lines from k on. *)
  Lemma active_from_le cs : forall lines : list line,
    (active_from line ocon cs lines <= length lines)%nat.
  Proof.
    induction lines as [|l r IH]; cbn [active_from length]; [lia|].
    destruct (all_pass line ocon cs l); lia.
  Qed.

  Lemma seq_results_of_def_from ds lines d bs :
    keys_ok q_key ds -> In d ds ->
    uniform line ocon (q_cons d) lines ->
    exec ds lines = TaskOk bs ->
    let k := active_from line ocon (q_cons d) lines in
    map snd (filter (fun r : qresult => fst r =? q_key d) (concat bs)) =
    seq_run_from (q_shape d) (Z.of_nat k)
                 (map (qclass (q_key d)) (skipn k lines)).
  Proof.
    intros Hk Hd Hu E k.
    destruct (execute_exact line qdef sstate qresult q_key q_cons ocon init
                hstep seq_hpost MAX NBUF ds lines HMAX) as (bs' & E' & Hem & _).
    unfold seq_execute in E. rewrite E in E'. inversion E'; subst bs'.
    rewrite Hem. unfold emitted.
    change (fun r : qresult => fst r =? q_key d)
      with (keyb qresult fst (q_key d)).
    rewrite filter_app.
    destruct (own_constraint_generic line qdef sstate qresult q_key q_cons
                ocon init hstep fst ds lines d hstep_keyed Hk Hd Hu)
      as [Hres Hfin].
    unfold visible_spec in Hres, Hfin. fold k in Hres, Hfin.
    rewrite enum_skipn in Hres, Hfin.
    replace (1 + Z.of_nat k) with (Z.of_nat k + 1) in Hres, Hfin by lia.
    rewrite hrun_is_seq_loop in Hres, Hfin. cbn [fst snd] in Hres, Hfin.
    rewrite Hres. cbn [app].
    unfold seq_hpost.
    rewrite (hpost_filter
               (fun x => seq_eof (q_shape (fst x)) (snd x)
                                 (Z.of_nat (length lines)))
               _ d _ (final_keys_nodup ds lines) Hfin).
    rewrite map_map. cbn [snd fst]. rewrite map_id.
    unfold seq_run_from.
    pose proof (seq_loop_ln (q_shape d)
                  (map (qclass (q_key d)) (skipn k lines))
                  init_state (Z.of_nat k)) as Hln.
    destruct (seq_loop (q_shape d) init_state (Z.of_nat k)
                       (map (qclass (q_key d)) (skipn k lines))) as [st n].
    cbn [fst snd] in *. rewrite Hln, map_length, skipn_length.
    pose proof (active_from_le (q_cons d) lines) as Hle. fold k in Hle.
    replace (Z.of_nat k + Z.of_nat (length lines - k))
      with (Z.of_nat (length lines)) by lia.
    reflexivity.
  Qed.

  (* THE COMPOSITION, every definition: a definition (with or without
     constraints of its own, C07's uniformity hypothesis) reports the
     sections of the specification on the lines from its activation line
     on, line numbers moved back to the file's numbering *)
  Theorem sequence_run_exact_constrained prev f since restrictions ds :
    wf f -> keys_ok q_key ds ->
    (seeks since restrictions (map q_key ds) = true ->
     seek_hyps H A L W tsw (stream f)) ->
    let lines := searched W tsw line classify since restrictions
                          (map q_key ds) (stream f) in
    exists coll,
      run_sequence H A L W tsw line classify ocon MAX NBUF qclass prev f
                   since restrictions ds =
      RunOk coll (mkStats (Stats.lenZ ds) [Stats.lenZ ds] (Stats.lenZ lines)
                          1 1 (Stats.lenZ coll)) /\
      forall d, In d ds -> uniform line ocon (q_cons d) lines ->
        let k := active_from line ocon (q_cons d) lines in
        seq_report (q_key d) coll =
        map (map (shift_item (Z.of_nat k)))
            (spec_report (q_shape d)
                         (map (qclass (q_key d)) (skipn k lines))).
  Proof.
    intros Hwf Hk Hs lines. unfold run_sequence, run_one.
    rewrite (execute_dispatch H A L W tsw line classify HH HA qresult
               (seq_ids ds) (exec ds) (seq_exec_nil ds) since restrictions f
               Hwf).
    assert (Hids : restricted restrictions (seq_ids ds) =
                   restricted restrictions (map q_key ds))
      by (apply restricted_ext, seq_ids_keys).
    assert (Hs' : seeks since restrictions (seq_ids ds) = true ->
                  seek_hyps H A L W tsw (stream f))
      by (unfold seeks in *; rewrite Hids; exact Hs).
    rewrite (stream_searched H A L W tsw line classify HH HA qresult
               (seq_ids ds) (exec ds) since restrictions (stream f) HL Hs').
    cbv zeta.
    assert (El : searched W tsw line classify since restrictions (seq_ids ds)
                          (stream f) = lines)
      by (unfold lines, searched, start_byte; rewrite Hids; reflexivity).
    rewrite El.
    destruct (task_counts_its_collection line qdef sstate qresult q_key
                q_cons ocon init hstep seq_hpost MAX NBUF HMAX ds lines)
      as (bs & E & _ & _).
    change (exec ds lines = TaskOk bs) in E. rewrite E. cbn [lift collected].
    exists (concat bs). split.
    - rewrite single_file_stats. reflexivity.
    - intros d Hd Hu. unfold seq_report.
      etransitivity;
        [apply f_equal; exact (seq_results_of_def_from ds lines d bs Hk Hd Hu E)|].
      apply sequence_exact_report_from.
  Qed.
End Seq.
