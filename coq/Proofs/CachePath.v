(* C19 - facts about symbolic paths: what a path depends on, when it is
   injective in a variable, when two paths can never coincide. *)
From Coq Require Import String List Bool Arith Lia.
From SK Require Import Model.CachePath.
Import ListNotations.
Open Scope string_scope.

Lemma append_nil_r s : s ++ "" = s.
Proof. induction s as [|c s IH]; simpl; [reflexivity|rewrite IH; reflexivity]. Qed.

Lemma length_append a b :
  String.length (a ++ b) = String.length a + String.length b.
Proof. induction a as [|c a IH]; simpl; [reflexivity|rewrite IH; reflexivity]. Qed.

Lemma append_inv_head a : forall b c, a ++ b = a ++ c -> b = c.
Proof.
  induction a as [|x a IH]; simpl; intros b c H; [exact H|].
  inversion H. apply IH. assumption.
Qed.

Lemma append_inv_tail a : forall b c, a ++ c = b ++ c -> a = b.
Proof.
  induction a as [|x a IH]; intros b c H.
  - destruct b as [|y b]; [reflexivity|]. exfalso.
    apply (f_equal String.length) in H. simpl in H.
    rewrite length_append in H. lia.
  - destruct b as [|y b].
    + exfalso. apply (f_equal String.length) in H. simpl in H.
      rewrite length_append in H. lia.
    + simpl in H. inversion H. f_equal. eapply IH. eassumption.
Qed.

(* the path depends only on the variables it mentions *)
Lemma vars_in_inst vs p e e' :
  vars_in vs p = true ->
  (forall v, In v vs -> e v = e' v) ->
  inst e p = inst e' p.
Proof.
  intros Hv He. unfold inst. apply map_ext_in. intros c Hc.
  unfold vars_in in Hv. rewrite forallb_forall in Hv. specialize (Hv c Hc).
  clear Hc. induction c as [|a r IH]; simpl; [reflexivity|].
  simpl in Hv. apply andb_true_iff in Hv. destruct Hv as [Ha Hr].
  rewrite IH by exact Hr. f_equal.
  destruct a as [s|v]; simpl; [reflexivity|].
  simpl in Ha. apply existsb_exists in Ha. destruct Ha as [w [Hw Hvw]].
  apply String.eqb_eq in Hvw. subst w. apply He. exact Hw.
Qed.

(* a component that is exactly the variable v makes the path injective in v *)
Lemma whole_var_injective v p e x y :
  has_whole_var v p = true ->
  inst (set_var e v x) p = inst (set_var e v y) p -> x = y.
Proof.
  unfold has_whole_var, inst. induction p as [|c r IH]; simpl; intros H E;
    [discriminate|].
  inversion E as [[Hc Hr]].
  apply orb_true_iff in H. destruct H as [H|H].
  - destruct c as [|[s|w] [|b t]]; simpl in H; try discriminate.
    apply String.eqb_eq in H. subst w. simpl in Hc.
    unfold set_var in Hc. rewrite String.eqb_refl in Hc.
    rewrite !append_nil_r in Hc. exact Hc.
  - apply IH; assumption.
Qed.

(* two paths with different literal text at the same position never meet *)
Lemma lit_differs_inst i s t p q e :
  nth_is_lit i s p = true -> nth_is_lit i t q = true -> s <> t ->
  inst e p <> inst e q.
Proof.
  unfold nth_is_lit, inst. revert p q.
  induction i as [|i IH]; intros p q Hp Hq Hn E.
  - destruct p as [|c p]; [discriminate|]. destruct q as [|d q]; [discriminate|].
    simpl in *. inversion E as [[Hc _]].
    destruct c as [|[x|x] [|? ?]]; simpl in Hp; try discriminate.
    destruct d as [|[y|y] [|? ?]]; simpl in Hq; try discriminate.
    apply String.eqb_eq in Hp. apply String.eqb_eq in Hq. subst.
    simpl in Hc. inversion Hc as [[H0 H1]]. rewrite !append_nil_r in H0. congruence.
  - destruct p as [|c p]; [discriminate|]. destruct q as [|d q]; [discriminate|].
    simpl in *. inversion E. eapply IH; eauto.
Qed.

Lemma ppath_eqb_eq a : forall b, ppath_eqb a b = true -> a = b.
Proof.
  assert (Hc : forall x y, pcomp_eqb x y = true -> x = y).
  { induction x as [|u x IH]; destruct y as [|w y]; simpl; intros H;
      try discriminate; [reflexivity|].
    apply andb_true_iff in H. destruct H as [H1 H2]. apply IH in H2. subst.
    destruct u, w; simpl in H1; try discriminate;
      apply String.eqb_eq in H1; subst; reflexivity. }
  induction a as [|x a IH]; destruct b as [|y b]; simpl; intros H;
    try discriminate; [reflexivity|].
  apply andb_true_iff in H. destruct H as [H1 H2].
  apply Hc in H1. apply IH in H2. subst. reflexivity.
Qed.
