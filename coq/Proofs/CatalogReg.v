(* C09 - register(): one entry per path carrying every registration; source
   ids are injective; task-level de-duplication of definitions *)
From Coq Require Import ZArith List Bool Lia Permutation.
From SK Require Import Model.Collection Model.Catalog Spec.Catalog
     Proofs.CollectionDict Proofs.Collection Proofs.CatalogStr.
Import ListNotations.
Open Scope Z_scope.

Definition searches_of (c : catalog) (path : str) : list Z :=
  match dget str_eqb (entries c) path with
  | Some e => e_searches e
  | None => []
  end.

Definition hits (q p : str) (d : Z) : list Z :=
  if str_eqb q p then [d] else [].

Lemma str_eqb_refl a : str_eqb a a = true.
Proof. now apply str_eqb_spec. Qed.

Lemma str_eqb_neq a b : a <> b -> str_eqb a b = false.
Proof.
  intro H. destruct (str_eqb a b) eqn:E; [|reflexivity].
  apply str_eqb_spec in E. contradiction.
Qed.

(* ---------------------------------------------------------- invariant *)
Record cat_inv (c : catalog) : Prop := {
  ci_entries : NoDup (map fst (entries c));
  ci_ids : NoDup (map fst (source_ids c));
  ci_entry_src : forall p e, In (p, e) (entries c) ->
                             In (e_source e, p) (source_ids c);
  ci_src_entry : forall i p, In (i, p) (source_ids c) ->
                             In p (map fst (entries c));
  ci_nonempty : forall p e, In (p, e) (entries c) -> e_searches e <> [] }.

Lemma max_id_from (t : list (Z * str)) m0 i p :
  In (i, p) t -> i <= fold_left (fun m e => Z.max m (fst e)) t m0.
Proof.
  revert m0. induction t as [|[j q] t IH]; simpl; intros m0 H; [contradiction|].
  destruct H as [H|H].
  - inversion H; subst.
    assert (G : forall (l : list (Z * str)) m,
               m <= fold_left (fun m e => Z.max m (fst e)) l m).
    { induction l as [|[a b] l IHl]; simpl; intro m; [lia|].
      specialize (IHl (Z.max m a)). lia. }
    specialize (G t (Z.max m0 i)). lia.
  - now apply IH.
Qed.

Lemma max_id_ge t i p : In (i, p) t -> i <= max_id t.
Proof. unfold max_id. apply max_id_from. Qed.

Lemma find_source_none t path :
  find_source t path = None -> forall i, ~ In (i, path) t.
Proof.
  induction t as [|[j q] t IH]; simpl; intros H i Hin; [contradiction|].
  destruct (str_eqb q path) eqn:E; [discriminate|].
  destruct Hin as [Hin|Hin].
  - inversion Hin; subst. rewrite str_eqb_refl in E. discriminate.
  - now apply (IH H i).
Qed.

Lemma find_source_some t path i :
  find_source t path = Some i -> In (i, path) t.
Proof.
  induction t as [|[j q] t IH]; simpl; intro H; [discriminate|].
  destruct (str_eqb q path) eqn:E.
  - apply str_eqb_spec in E. inversion H; subst. now left.
  - right. now apply IH.
Qed.

(* get_source_id for a path that has no entry yet *)
Lemma get_source_id_fresh t path i t' :
  NoDup (map fst t) -> (forall j, ~ In (j, path) t) ->
  get_source_id t path = (i, t') ->
  t' = t ++ [(i, path)] /\ ~ In i (map fst t).
Proof.
  intros Hnd Hfresh H. unfold get_source_id in H.
  destruct t as [|e t0] eqn:Et.
  - inversion H; subst. split; [reflexivity|intros []].
  - rewrite <- Et in *.
    destruct (find_source t path) as [j|] eqn:Ef.
    + apply find_source_some in Ef. exfalso. now apply (Hfresh j).
    + assert (Hn : ~ In (max_id t + 1) (map fst t)).
      { intro Hin. apply in_map_iff in Hin. destruct Hin as [[j q] [Ej Hin]].
        simpl in Ej. subst j. apply max_id_ge in Hin. lia. }
      assert (E : (max_id t + 1, dset Z.eqb t (max_id t + 1) path) = (i, t')).
      { rewrite Et in *. exact H. }
      inversion E; subst i t'. split; [|assumption].
      now apply (dset_notin Z.eqb zeqb_spec).
Qed.

Lemma empty_inv : cat_inv empty_catalog.
Proof.
  constructor; simpl; try constructor; intros; contradiction.
Qed.

Lemma register_path_spec d c p :
  cat_inv c ->
  cat_inv (register_path d c p) /\
  search_tags (register_path d c p) = search_tags c /\
  forall q, searches_of (register_path d c p) q =
            searches_of c q ++ hits q p d.
Proof.
  intros [He Hi Hes Hse Hne]. unfold register_path.
  destruct (dget str_eqb (entries c) p) as [e|] eqn:Eg.
  - (* existing entry: append the search *)
    pose proof (dget_some_in str_eqb str_eqb_spec _ _ _ Eg) as Hin.
    assert (Hk : In p (map fst (entries c))).
    { apply in_map_iff. now exists (p, e). }
    split; [|split; [reflexivity|]].
    + constructor; simpl.
      * now apply (dset_nodup str_eqb str_eqb_spec).
      * assumption.
      * intros p' e' H'.
        destruct (dset_in str_eqb str_eqb_spec _ _ _ _ _ He H')
          as [[-> ->]|[_ H'']]; [simpl; now apply Hes|now apply Hes].
      * intros i q Hq. apply (dset_key_iff str_eqb str_eqb_spec). right.
        now apply (Hse i).
      * intros p' e' H'.
        destruct (dset_in str_eqb str_eqb_spec _ _ _ _ _ He H')
          as [[-> ->]|[_ H'']]; [simpl|now apply (Hne p')].
        intro Hc. apply app_eq_nil in Hc. destruct Hc; discriminate.
    + intro q. unfold searches_of, hits. simpl.
      destruct (str_eqb q p) eqn:E.
      * apply str_eqb_spec in E. subst q.
        rewrite (dget_dset_same str_eqb str_eqb_spec), Eg. reflexivity.
      * rewrite (dget_dset_other str_eqb str_eqb_spec)
          by (intro; subst; rewrite str_eqb_refl in E; discriminate).
        now rewrite app_nil_r.
  - (* new entry with a fresh source id *)
    pose proof (proj1 (dget_none str_eqb str_eqb_spec _ _) Eg) as Hk.
    destruct (get_source_id (source_ids c) p) as [i t'] eqn:Es.
    assert (Hfresh : forall j, ~ In (j, p) (source_ids c)).
    { intros j Hj. apply Hk. now apply (Hse j). }
    destruct (get_source_id_fresh _ _ _ _ Hi Hfresh Es) as [Et Hni].
    split; [|split; [reflexivity|]].
    + constructor; simpl.
      * now apply (dset_nodup str_eqb str_eqb_spec).
      * subst t'. rewrite map_app. simpl. now apply NoDup_app_snoc.
      * intros p' e' H'.
        destruct (dset_in str_eqb str_eqb_spec _ _ _ _ _ He H')
          as [[-> ->]|[_ H'']]; subst t'; simpl; apply in_or_app.
        -- right. now left.
        -- left. now apply Hes.
      * intros j q Hq. apply (dset_key_iff str_eqb str_eqb_spec).
        subst t'. apply in_app_or in Hq. destruct Hq as [Hq|[Hq|[]]].
        -- right. now apply (Hse j).
        -- left. now inversion Hq.
      * intros p' e' H'.
        destruct (dset_in str_eqb str_eqb_spec _ _ _ _ _ He H')
          as [[-> ->]|[_ H'']]; [simpl; discriminate|now apply (Hne p')].
    + intro q. unfold searches_of, hits. simpl.
      destruct (str_eqb q p) eqn:E.
      * apply str_eqb_spec in E. subst q.
        rewrite (dget_dset_same str_eqb str_eqb_spec), Eg. reflexivity.
      * rewrite (dget_dset_other str_eqb str_eqb_spec)
          by (intro; subst; rewrite str_eqb_refl in E; discriminate).
        now rewrite app_nil_r.
Qed.

Lemma register_paths_spec d paths c :
  cat_inv c ->
  let c' := fold_left (register_path d) paths c in
  cat_inv c' /\
  forall q, searches_of c' q =
            searches_of c q ++ map (fun _ => d) (filter (str_eqb q) paths).
Proof.
  revert c. induction paths as [|p ps IH]; simpl; intros c Hc.
  - split; [assumption|]. intro q. now rewrite app_nil_r.
  - destruct (register_path_spec d c p Hc) as [Hc' [_ Hs]].
    destruct (IH _ Hc') as [Hc'' Hs'']. split; [assumption|].
    intro q. rewrite Hs'', Hs, <- app_assoc. f_equal.
    unfold hits. now destruct (str_eqb q p).
Qed.

Lemma register_spec c d tag paths :
  cat_inv c ->
  cat_inv (register c d tag paths) /\
  forall q, searches_of (register c d tag paths) q =
            searches_of c q ++ map (fun _ => d) (filter (str_eqb q) paths).
Proof.
  intro Hc. unfold register.
  set (c0 := mkCatalog (source_ids c) (register_tag (search_tags c) tag d)
                       (entries c)).
  assert (H0 : cat_inv c0) by (destruct Hc; constructor; assumption).
  destruct (register_paths_spec d paths c0 H0) as [H1 H2].
  split; [assumption|]. intro q. now rewrite H2.
Qed.

(* a run of registrations, each with its already expanded path list *)
Definition register_all (regs : list (Z * option Z * list str)) : catalog :=
  fold_left (fun c r => let '(d, tag, paths) := r in register c d tag paths)
            regs empty_catalog.

Definition plain (regs : list (Z * option Z * list str))
  : list (Z * list str) :=
  map (fun r => (fst (fst r), snd r)) regs.

Lemma register_all_from regs c :
  cat_inv c ->
  let c' := fold_left (fun c r => let '(d, tag, paths) := r in
                                  register c d tag paths) regs c in
  cat_inv c' /\
  forall q, searches_of c' q = searches_of c q ++ occurrences q (plain regs).
Proof.
  revert c. induction regs as [|[[d tag] paths] regs IH]; simpl; intros c Hc.
  - split; [assumption|]. intro q. now rewrite app_nil_r.
  - destruct (register_spec c d tag paths Hc) as [Hc' Hs].
    destruct (IH _ Hc') as [Hc'' Hs'']. split; [assumption|].
    intro q. now rewrite Hs'', Hs, <- app_assoc.
Qed.

(* merge_once *)
Lemma merge_once_lemma regs :
  let c := register_all regs in
  (* one catalog entry per path *)
  NoDup (cat_files c) /\
  (* carrying exactly the registrations that reach the path, in order *)
  (forall q, searches_of c q = occurrences q (plain regs)) /\
  (forall q, In q (cat_files c) <-> occurrences q (plain regs) <> []) /\
  (* distinct paths have distinct source ids, and the id resolves to the
     path *)
  (forall p1 e1 p2 e2, In (p1, e1) (entries c) -> In (p2, e2) (entries c) ->
     e_source e1 = e_source e2 -> p1 = p2) /\
  (forall p e, In (p, e) (entries c) ->
     dget Z.eqb (source_ids c) (e_source e) = Some p).
Proof.
  simpl. destruct (register_all_from regs empty_catalog empty_inv)
    as [Hinv Hs].
  fold (register_all regs) in Hinv, Hs.
  assert (Hs' : forall q, searches_of (register_all regs) q =
                          occurrences q (plain regs)).
  { intro q. rewrite Hs. reflexivity. }
  destruct Hinv as [He Hi Hes Hse Hne].
  split; [exact He|]. split; [exact Hs'|]. split; [|split].
  - intro q. rewrite <- Hs'. unfold searches_of, cat_files. split.
    + intro Hin. destruct (dget str_eqb (entries (register_all regs)) q)
        as [e|] eqn:Eg.
      * (* every entry holds at least one search *)
        apply (dget_some_in str_eqb str_eqb_spec) in Eg. now apply (Hne q).
      * apply (dget_none str_eqb str_eqb_spec) in Eg. contradiction.
    + intro Hq. destruct (dget str_eqb (entries (register_all regs)) q)
        as [e|] eqn:Eg; [|congruence].
      apply (dget_some_in str_eqb str_eqb_spec) in Eg.
      apply in_map_iff. now exists (q, e).
  - intros p1 e1 p2 e2 H1 H2 E. apply Hes in H1. apply Hes in H2.
    rewrite E in H1.
    pose proof (in_dget Z.eqb zeqb_spec _ _ _ Hi H1) as G1.
    pose proof (in_dget Z.eqb zeqb_spec _ _ _ Hi H2) as G2. congruence.
  - intros p e H. apply Hes in H. now apply (in_dget Z.eqb zeqb_spec).
Qed.

(* ------------------------------------------ task-level de-duplication *)
Lemma task_defs_from (l : list Z) (acc : list (Z * bool)) :
  NoDup (map fst acc) ->
  let d := fold_left (fun d s => dset Z.eqb d s true) l acc in
  NoDup (map fst d) /\
  forall s, In s (map fst d) <-> In s (map fst acc) \/ In s l.
Proof.
  revert acc. induction l as [|x l IH]; simpl; intros acc Hacc.
  - split; [assumption|]. intro s. tauto.
  - destruct (IH (dset Z.eqb acc x true)
                 (dset_nodup Z.eqb zeqb_spec acc x true Hacc)) as [H1 H2].
    split; [assumption|]. intro s. rewrite H2.
    rewrite (dset_key_iff Z.eqb zeqb_spec). intuition congruence.
Qed.

Lemma task_defs_spec l :
  NoDup (task_defs l) /\ forall s, In s (task_defs l) <-> In s l.
Proof.
  unfold task_defs. destruct (task_defs_from l [] (NoDup_nil _)) as [H1 H2].
  split; [assumption|]. intro s. rewrite H2. simpl. tauto.
Qed.

Definition line_results (hit : Z -> Z -> bool) (defs : list Z) (ln : Z)
  : list (Z * Z) :=
  flat_map (fun s => if hit s ln then [(ln, s)] else []) defs.

Lemma line_results_in hit defs ln x :
  In x (line_results hit defs ln) <->
  fst x = ln /\ In (snd x) defs /\ hit (snd x) ln = true.
Proof.
  unfold line_results. rewrite in_flat_map. split.
  - intros [s [Hs Hx]]. destruct (hit s ln) eqn:E; [|contradiction].
    destruct Hx as [<-|[]]. simpl. auto.
  - intros [H1 [H2 H3]]. exists (snd x). split; [assumption|].
    rewrite H3. left. destruct x; simpl in *. now subst.
Qed.

Lemma line_results_nodup hit defs ln :
  NoDup defs -> NoDup (line_results hit defs ln).
Proof.
  unfold line_results. induction defs as [|s defs IH]; simpl; intro H;
    [constructor|].
  inversion H as [|? ? Hs Hd]; subst.
  destruct (hit s ln); simpl; [|now apply IH].
  constructor; [|now apply IH].
  intro Hin. apply (line_results_in hit defs ln (ln, s)) in Hin.
  simpl in Hin. tauto.
Qed.

Lemma task_results_in hit l lines ln s :
  In (ln, s) (task_results hit l lines) <->
  In ln lines /\ In s l /\ hit s ln = true.
Proof.
  unfold task_results. rewrite in_flat_map. split.
  - intros [x [Hx Hin]]. apply (line_results_in hit _ x (ln, s)) in Hin.
    simpl in Hin. destruct Hin as [<- [H2 H3]].
    apply (proj2 (task_defs_spec l)) in H2. auto.
  - intros [H1 [H2 H3]]. exists ln. split; [assumption|].
    apply (line_results_in hit _ ln (ln, s)). simpl.
    split; [reflexivity|]. split; [|assumption].
    now apply (proj2 (task_defs_spec l)).
Qed.

Lemma task_results_nodup hit l lines :
  NoDup lines -> NoDup (task_results hit l lines).
Proof.
  unfold task_results. fold (line_results hit (task_defs l)).
  induction lines as [|ln lines IH]; simpl; intro H; [constructor|].
  inversion H as [|? ? Hl Hr]; subst.
  apply NoDup_app_intro.
  - apply line_results_nodup. apply task_defs_spec.
  - now apply IH.
  - intros x Hx Hx'. apply line_results_in in Hx. destruct Hx as [Hf _].
    apply in_flat_map in Hx'. destruct Hx' as [ln' [Hln' Hx']].
    apply line_results_in in Hx'. destruct Hx' as [Hf' _].
    apply Hl. congruence.
Qed.

(* each search reports each of its matches once, however often it was
   registered for the file *)
Lemma each_match_once_lemma hit l lines :
  NoDup lines ->
  NoDup (task_defs l) /\ (forall s, In s (task_defs l) <-> In s l) /\
  NoDup (task_results hit l lines) /\
  (forall ln s, In (ln, s) (task_results hit l lines) <->
                In ln lines /\ In s l /\ hit s ln = true).
Proof.
  intro H. destruct (task_defs_spec l) as [H1 H2].
  split; [assumption|]. split; [assumption|].
  split; [now apply task_results_nodup|]. intros ln s.
  apply task_results_in.
Qed.
