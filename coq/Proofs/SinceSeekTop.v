(* Layer C of C04: assembling the walks, monotonicity and bisect_left into the
   statement about apply_to_file. *)
From Coq Require Import ZArith List Bool Lia.
From SK Require Import Model.Base Model.Seek Model.SinceSeek Spec.Lines
     Spec.C04 Proofs.Seek Proofs.SeekSpec Proofs.SinceSeek
     Proofs.SinceSeekWalk Proofs.SinceSeekChain Proofs.Bisect.
Import ListNotations.
Open Scope Z_scope.

Section Top.
  Variables (H A L W : Z) (tsw : list Z -> option Z) (c : list Z).
  Hypothesis HH : 0 < H.
  Hypothesis HA : 0 < A.
  Hypothesis HL : 0 < L.
  Notation ts := (ts W tsw c).
  Hypothesis h0 : empty_undated ts c.
  Hypothesis h1 : all_within_budget H A c.
  Hypothesis h2 : time_ordered_lines ts c.
  Hypothesis h3 : no_long_undated_run L ts c.

  Notation sel := (sel_start L W tsw c).
  Notation selects := (selects W tsw c).

  (* date and LogLine of a successful lookup, as functions of the offset *)
  Definition gdate (o : Z) : Z :=
    match sel o with
    | Some s => match ts s with Some d => d | None => 0 end
    | None => 0
    end.
  Definition lineof (o : Z) : logline :=
    match getitem H A L W tsw c (gdate o) st0 o with
    | GiDate _ (_, Some l) => l
    | _ => (ErrMaxLine, ErrMaxLine)
    end.

  Lemma getitem_ok o s : 0 <= o < lenZ c -> sel o = Some s ->
    ll_start (lineof o) = s /\ ll_truthy (lineof o) = true /\
    ts s = Some (gdate o) /\
    forall since st, getitem H A L W tsw c since st o =
      GiDate (gdate o) (true, if since <=? gdate o then Some (lineof o)
                              else snd st).
  Proof.
    intros Ho Es.
    pose proof (getitem_walk H A L W tsw c HH HA h0 h1 0 st0 o Ho) as G.
    rewrite Es in G. destruct G as (l & d & Hd & Hs & Ht & Hg).
    assert (Eg : gdate o = d) by (unfold gdate; rewrite Es, Hd; reflexivity).
    assert (El : lineof o = l).
    { unfold lineof. rewrite Hg, Eg. replace (d <=? d) with true by lia.
      reflexivity. }
    rewrite El, Eg. repeat split; try assumption.
  Qed.

  (* the selected line start is monotone in the offset *)
  Lemma selects_mono o1 o2 s1 s2 :
    o1 <= o2 -> selects o1 s1 -> selects o2 s2 -> s1 <= s2.
  Proof.
    intros Hle (Hr1 & Hd1 & C1) (Hr2 & Hd2 & C2).
    destruct (Z_le_gt_dec s1 s2) as [|Hgt]; [assumption|exfalso].
    destruct C1 as [[Hs1 U1]|[Hs1 U1]].
    - destruct C2 as [[Hs2 U2]|[Hs2 U2]].
      + apply Hd1. apply U2; [exact Hr1|lia|lia].
      + lia.
    - apply Hd2. apply U1; [exact Hr2|lia].
  Qed.

  (* whether the file has a dated line at all *)
  Lemma dated_or_not :
    (exists s, real_line_start c s /\ ts s <> None) \/
    (forall s, real_line_start c s -> ts s = None).
  Proof.
    destruct (Z_lt_le_dec 0 (lenZ c)) as [Hn|Hn].
    - pose proof (sel_start_sem L W tsw c HL h0 h3 0 ltac:(lia)) as S.
      destruct (sel 0) as [s|].
      + left. exists s. destruct S as (Hr & Hd & _). split; assumption.
      + right. exact S.
    - right. intros s Hr. apply h0. right.
      pose proof (real_bounds c s Hr). destruct Hr as [->|[_ Hlt]]; lia.
  Qed.

  Lemma sel_some o : 0 <= o < lenZ c ->
    (exists s, real_line_start c s /\ ts s <> None) ->
    exists s, sel o = Some s /\ selects o s.
  Proof.
    intros Ho (s0 & Hr0 & Hd0).
    pose proof (sel_start_sem L W tsw c HL h0 h3 o Ho) as S.
    destruct (sel o) as [s|].
    - exists s. split; [reflexivity|exact S].
    - exfalso. apply Hd0. apply S. exact Hr0.
  Qed.

  Lemma gdate_mono :
    (exists s, real_line_start c s /\ ts s <> None) ->
    forall i j, 0 <= i -> i <= j -> j < lenZ c -> gdate i <= gdate j.
  Proof.
    intros Hex i j Hi Hij Hj.
    destruct (sel_some i ltac:(lia) Hex) as (s1 & E1 & S1).
    destruct (sel_some j ltac:(lia) Hex) as (s2 & E2 & S2).
    destruct (getitem_ok i s1 ltac:(lia) E1) as (_ & _ & T1 & _).
    destruct (getitem_ok j s2 ltac:(lia) E2) as (_ & _ & T2 & _).
    pose proof (selects_mono i j s1 s2 Hij S1 S2) as Hle.
    destruct S1 as (Hr1 & _). destruct S2 as (Hr2 & _).
    exact (h2 s1 s2 _ _ Hr1 Hr2 Hle T1 T2).
  Qed.

  (* a dated line is selected for its own first byte *)
  Lemma sel_self s : real_line_start c s -> s < lenZ c -> ts s <> None ->
    selects s s.
  Proof.
    intros Hr Hlt Hd. split; [exact Hr|]. split; [exact Hd|]. left.
    split; [lia|]. intros; lia.
  Qed.

  Lemma selects_fun o s s' : selects o s -> selects o s' -> s = s'.
  Proof.
    intros S1 S2. pose proof (selects_mono o o s s' ltac:(lia) S1 S2).
    pose proof (selects_mono o o s' s ltac:(lia) S2 S1). lia.
  Qed.

  Lemma real_lt_len s : real_line_start c s -> ts s <> None -> s < lenZ c.
  Proof.
    intros Hr Hd. destruct (Z_lt_le_dec s (lenZ c)) as [|Hge]; [assumption|].
    exfalso. apply Hd. apply h0. right. exact Hge.
  Qed.

  (* the "checking last line" probe never interferes *)
  Lemma last_line_probe :
    match try_find_line_with_date H A L W tsw c (lenZ c) None false with
    | WdLine l => ll_truthy l &&
                  match ll_date W tsw c l with Some _ => false | None => true end
                  = false
    | WdNone => True
    | _ => False
    end.
  Proof.
    unfold try_find_line_with_date.
    pose proof (lenZ_nonneg c) as Hn.
    pose proof (tfld_bwd H A W tsw c HH HA h0 h1 (Z.to_nat L) (lenZ c) None
                         ltac:(lia) (or_introl eq_refl)) as M.
    destruct (bwd W tsw c (Z.to_nat L) (lenZ c)) as [s|].
    - destruct (wd_matches_usable W tsw c _ _ M) as (l & d & -> & _ & _ & Hd & _ & Ht).
      rewrite Hd. apply andb_false_r.
    - cbn in M. rewrite M. exact I.
  Qed.

  Lemma first_line_date : logline_date tsw W c (Found (-1)) = ts 0.
  Proof. reflexivity. Qed.

  Lemma gdate_self s d : real_line_start c s -> ts s = Some d ->
    s < lenZ c /\ gdate s = d.
  Proof.
    intros Hr Hd. assert (Hne : ts s <> None) by congruence.
    pose proof (real_lt_len s Hr Hne) as Hlt. split; [exact Hlt|].
    pose proof (real_bounds c s Hr) as Hb.
    destruct (sel_some s ltac:(lia) (ex_intro _ s (conj Hr Hne)))
      as (s' & Es & Ss).
    pose proof (selects_fun s s' s Ss (sel_self s Hr Hlt Hne)) as ->.
    unfold gdate. rewrite Es, Hd. reflexivity.
  Qed.

  (* the binary search proper *)
  Lemma bisect_case since :
    (exists s, real_line_start c s /\ ts s <> None) ->
    exists p,
      position_of c
        (match bisect H A L W tsw c (S (Z.to_nat (lenZ c))) since st0 0 (lenZ c) with
         | BsTooMany st => if fst st then TooManyLinesWithoutDate
                           else NoTimestampsFoundInFile
         | BsErr => MaxSearchableLineLengthReached
         | BsAssert => AssertionFailed
         | BsFuel => FuelExhausted
         | BsDone _ st =>
             match snd st with
             | Some l => if ll_truthy l then OkPos (ll_start l)
                         else NoValidLinesFoundInFile
             | None => NoValidLinesFoundInFile
             end
         end) = Some p /\
      is_first_in_window ts since c p.
  Proof.
    intros Hex. pose proof (lenZ_nonneg c) as Hn.
    assert (Gok : forall st o, 0 <= o < lenZ c ->
              getitem H A L W tsw c since st o =
              GiDate (gdate o) (true, if since <=? gdate o then Some (lineof o)
                                      else snd st)).
    { intros st o Ho. destruct (sel_some o Ho Hex) as (s & Es & _).
      destruct (getitem_ok o s Ho Es) as (_ & _ & _ & G). apply G. }
    destruct (bisect_model_correct H A L W tsw c since gdate lineof 0 (lenZ c)
                Gok (gdate_mono Hex) (S (Z.to_nat (lenZ c))) st0 0 (lenZ c)
                ltac:(lia) ltac:(lia) ltac:(lia) ltac:(lia))
      as (r & st' & Eb & Hr & Hlt & Hge & Hli & _).
    rewrite Eb, Hli.
    destruct (r <? lenZ c) eqn:Er.
    - destruct (sel_some r ltac:(lia) Hex) as (s & Es & Ss).
      destruct (getitem_ok r s ltac:(lia) Es) as (Hst & Htr & Hts & _).
      rewrite Htr, Hst. exists s. split; [reflexivity|]. left.
      destruct Ss as (Hrs & Hds & Cs).
      split; [exact Hrs|]. split.
      + unfold in_window. rewrite Hts. apply Z.leb_le. apply Hge. lia.
      + intros s' Hr' Hlt'. unfold in_window.
        destruct (ts s') as [d'|] eqn:Ed'; [|reflexivity].
        destruct (since <=? d') eqn:Ew; [exfalso|reflexivity].
        destruct (gdate_self s' d' Hr' Ed') as (Hs'n & Eg').
        pose proof (real_bounds c s' Hr') as Hb'.
        destruct (Z_lt_le_dec s' r) as [Hx|Hx].
        * pose proof (Hlt s' ltac:(lia)). lia.
        * assert (Hne' : ts s' <> None) by congruence.
          pose proof (selects_mono r s' s s' Hx (conj Hrs (conj Hds Cs))
                                   (sel_self s' Hr' Hs'n Hne')). lia.
    - cbn [st0 snd position_of]. exists (lenZ c). split; [reflexivity|].
      right. left. split; [reflexivity|]. split.
      + destruct Hex as (s & Hrs & Hds). exists s. split; [exact Hrs|].
        unfold dated. destruct (ts s); [reflexivity|congruence].
      + intros s' Hr'. unfold in_window.
        destruct (ts s') as [d'|] eqn:Ed'; [|reflexivity].
        destruct (since <=? d') eqn:Ew; [exfalso|reflexivity].
        destruct (gdate_self s' d' Hr' Ed') as (Hs'n & Eg').
        pose proof (real_bounds c s' Hr') as Hb'.
        pose proof (Hlt s' ltac:(lia)). lia.
  Qed.

  (* THE THEOREM (declarative form of the specification) *)
  Theorem since_seek_declarative since :
    exists p, apply_to_file H A L W tsw c since 0 = Some p /\
              is_first_in_window ts since c p.
  Proof.
    pose proof (lenZ_nonneg c) as Hn.
    unfold apply_to_file, run. cbv zeta.
    pose proof last_line_probe as P.
    rewrite first_line_date.
    (* get rid of the probe *)
    assert (Hrun : forall X : outcome,
      match try_find_line_with_date H A L W tsw c (lenZ c) None false with
      | WdErr => MaxSearchableLineLengthReached
      | WdAssert => AssertionFailed
      | r => if match r with
                | WdLine l => ll_truthy l &&
                    match ll_date W tsw c l with Some _ => false | None => true end
                | _ => false
                end then NoValidLinesFoundInFile else X
      end = X).
    { intro X.
      destruct (try_find_line_with_date H A L W tsw c (lenZ c) None false)
        as [l| | |]; try contradiction; [rewrite P|]; reflexivity. }
    rewrite Hrun. clear Hrun P.
    destruct dated_or_not as [Hex|Hnone].
    - (* some line is dated: every lookup succeeds *)
      destruct (ts 0) as [d0|] eqn:E0.
      + destruct (since <=? d0) eqn:Ew.
        * (* first-line shortcut *)
          exists 0. split; [reflexivity|]. left.
          split; [left; reflexivity|]. split.
          -- unfold in_window. rewrite E0. exact Ew.
          -- intros s Hr Hlt. pose proof (real_bounds c s Hr). lia.
        * apply (bisect_case since Hex).
      + apply (bisect_case since Hex).
    - (* no dated line at all *)
      rewrite (Hnone 0 (or_introl eq_refl)).
      destruct (Z_lt_le_dec 0 (lenZ c)) as [Hpos|Hzero].
      + (* the first probe raises TooManyLinesWithoutDate *)
        exists 0.
        assert (Eb : bisect H A L W tsw c (S (Z.to_nat (lenZ c))) since st0 0
                            (lenZ c) = BsTooMany st0).
        { cbn [bisect]. replace (0 <? lenZ c) with true by lia.
          assert (Hm : 0 <= (0 + lenZ c) / 2 < lenZ c) by (apply mid_bounds; lia).
          pose proof (getitem_walk H A L W tsw c HH HA h0 h1 since st0 _ Hm) as G.
          pose proof (sel_start_sem L W tsw c HL h0 h3 _ Hm) as S.
          destruct (sel ((0 + lenZ c) / 2)) as [s|].
          - exfalso. destruct S as (Hr & Hd & _). apply Hd. apply Hnone. exact Hr.
          - rewrite G. reflexivity. }
        rewrite Eb. cbn. split; [reflexivity|]. right. right.
        split; [reflexivity|]. intros s Hr. unfold dated.
        rewrite (Hnone s Hr). reflexivity.
      + exists 0. assert (En : lenZ c = 0) by lia. rewrite En. cbn.
        rewrite ?En. split; [reflexivity|]. right. right. split; [reflexivity|].
        intros s Hr. unfold dated. rewrite (Hnone s Hr). reflexivity.
  Qed.
End Top.
