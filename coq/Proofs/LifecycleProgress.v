(* C10 - progress: a state that is not final and has no lock owned by a dead
   process always has an actor that can move (so the only hangs are the ones
   caused by an orphaned lock). *)
From Coq Require Import String List Bool Arith Lia.
From SK Require Import Model.Skel Model.Lifecycle Spec.Lifecycle
     Proofs.Lifecycle Proofs.LifecycleInv.
Import ListNotations.

Ltac en a := exists a; unfold enabledb, step.

Lemma opt_cases {A} (o : option A) : o = None \/ exists x, o = Some x.
Proof. destruct o; eauto. Qed.

Section Progress.
Variable f : facts.
Variable c : cfg.
Variable s : state.
Hypothesis HI : Inv f c s.
Hypothesis Hst : dead_ownerb s (s_store s) = false.
Hypothesis Hco : dead_ownerb s (s_coll s) = false.

Lemma worker_in_range w t i j : s_ws s w = WRun t i j -> w < c_workers c.
Proof.
  intros Hw. destruct (Nat.lt_ge_cases w (c_workers c)) as [L|G]; [assumption|].
  rewrite (i_range_w _ _ _ HI w G) in Hw. discriminate.
Qed.

Lemma holding_worker_moves w t i r :
  s_ws s w = WRun t i (Some r) -> enabledb f c s (AWorker w) = true.
Proof.
  intros Hw. pose proof (worker_in_range _ _ _ _ Hw) as L.
  unfold enabledb, step, step_worker.
  apply Nat.ltb_lt in L. rewrite L. cbn [negb]. rewrite Hw.
  destruct (fault_here c s t i (Some r)) as [[e|]|]; try reflexivity.
  destruct r; reflexivity.
Qed.

Lemma store_holder_moves o : s_store s = Some o -> can_move f c s.
Proof.
  intros Ho. destruct o as [| | |w|].
  - apply (i_store_main _ _ _ HI) in Ho. en AMain. unfold step_main. rewrite Ho. reflexivity.
  - apply (i_store_info _ _ _ HI) in Ho. en AInfo. unfold step_info. rewrite Ho. reflexivity.
  - destruct (i_store_res _ _ _ HI Ho).
  - rewrite Ho in Hst. cbn in Hst.
    apply (i_store_w _ _ _ HI) in Ho.
    destruct (s_ws s w) as [|t i [r|]|h] eqn:E; try discriminate.
    exists (AWorker w). eapply holding_worker_moves; eassumption.
  - rewrite Ho in Hst. discriminate.
Qed.

Lemma coll_holder_moves o : s_coll s = Some o -> can_move f c s.
Proof.
  intros Ho. destruct o as [| | |w|].
  - apply (i_coll_main _ _ _ HI) in Ho. en AMain. unfold step_main. rewrite Ho. reflexivity.
  - apply (i_coll_info _ _ _ HI) in Ho. en AInfo. unfold step_info. rewrite Ho. reflexivity.
  - apply (i_coll_res _ _ _ HI) in Ho. en ARes. unfold step_res.
    destruct Ho as [-> | ->]; reflexivity.
  - destruct (i_coll_w _ _ _ HI w Ho).
  - rewrite Ho in Hco. discriminate.
Qed.

Lemma running_worker_progress w t i j :
  s_ws s w = WRun t i j -> can_move f c s.
Proof.
  intros Hw. destruct j as [r|].
  { exists (AWorker w). eapply holding_worker_moves; eassumption. }
  pose proof (worker_in_range _ _ _ _ Hw) as L. apply Nat.ltb_lt in L.
  destruct (fault_here c s t i None) as [k|] eqn:Fh.
  { en (AWorker w). unfold step_worker. rewrite L. cbn [negb]. rewrite Hw, Fh.
    destruct k; reflexivity. }
  destruct (nth_error (prog_of c t) i) as [[l|k|]|] eqn:Ne.
  - en (AWorker w). unfold step_worker. rewrite L. cbn [negb]. rewrite Hw, Fh, Ne. reflexivity.
  - destruct (opt_cases (s_store s)) as [So|[o So]].
    2: { eapply store_holder_moves; eassumption. }
    + en (AWorker w). unfold step_worker. rewrite L. cbn [negb].
      rewrite Hw, Fh, Ne, So. reflexivity.
  - en (AWorker w). unfold step_worker. rewrite L. cbn [negb]. rewrite Hw, Fh, Ne. reflexivity.
  - en (AWorker w). unfold step_worker. rewrite L. cbn [negb]. rewrite Hw, Fh, Ne. reflexivity.
Qed.

(* the results thread, once told to stop, always gets to RDone *)
Lemma res_progress : s_rstop s = true -> s_res s <> RNotStarted ->
  s_res s <> RDone -> can_move f c s.
Proof.
  intros Hs Hn Hd. destruct (s_res s) eqn:R; try congruence.
  - en ARes. unfold step_res. rewrite R, Hs. destruct (s_rbud s); reflexivity.
  - destruct (opt_cases (s_coll s)) as [Co|[o Co]]; [|eapply coll_holder_moves; eassumption].
    en ARes. unfold step_res. rewrite R, Co. reflexivity.
  - en ARes. unfold step_res. rewrite R. reflexivity.
  - destruct (opt_cases (s_coll s)) as [Co|[o Co]]; [|eapply coll_holder_moves; eassumption].
    en ARes. unfold step_res. rewrite R, Co. reflexivity.
  - en ARes. unfold step_res. rewrite R. reflexivity.
Qed.

Lemma info_progress : s_istop s = true -> s_info s <> INotStarted ->
  s_info s <> IDone -> can_move f c s.
Proof.
  intros Hs Hn Hd. destruct (s_info s) eqn:R; try congruence.
  - en AInfo. unfold step_info. rewrite R, Hs. reflexivity.
  - destruct (opt_cases (s_store s)) as [Co|[o Co]]; [|eapply store_holder_moves; eassumption].
    en AInfo. unfold step_info. rewrite R, Co. reflexivity.
  - en AInfo. unfold step_info. rewrite R. reflexivity.
  - destruct (opt_cases (s_coll s)) as [Co|[o Co]]; [|eapply coll_holder_moves; eassumption].
    en AInfo. unfold step_info. rewrite R, Co. reflexivity.
  - en AInfo. unfold step_info. rewrite R. reflexivity.
Qed.

(* a broken pool always has something left to do while work is pending or a
   worker is alive *)
Lemma pool_broken_moves_pending t :
  s_pool s <> PoolOk -> t < ntasks c -> is_pending (s_futs s t) = true ->
  can_move f c s.
Proof.
  intros Hp Ht Hq. en APool. unfold step_pool.
  destruct (s_pool s); try congruence; try reflexivity.
  destruct (first_lt_ex (ntasks c) (fun t => is_pending (s_futs s t)) t Ht Hq) as [k ->].
  reflexivity.
Qed.

Lemma pool_broken_moves_live w :
  s_pool s <> PoolOk -> w < c_workers c -> is_live (s_ws s w) = true ->
  can_move f c s.
Proof.
  intros Hp Hw Hq. en APool. unfold step_pool.
  destruct (s_pool s); try congruence; try reflexivity.
  destruct (first_lt (ntasks c) _); [reflexivity|].
  destruct (first_lt_ex (c_workers c) (fun w => is_live (s_ws s w)) w Hw Hq) as [k ->].
  reflexivity.
Qed.

Lemma queued_progress t : 1 <= c_workers c ->
  t < ntasks c -> s_futs s t = FQueued ->
  (forall w, w < c_workers c -> is_dead (s_ws s w) = false) -> can_move f c s.
Proof.
  intros HW Ht Hq Hlive.
  destruct (s_ws s 0) as [|t0 i0 j0|h] eqn:E.
  - en (AWorker 0). unfold step_worker.
    assert (L : Nat.ltb 0 (c_workers c) = true) by (apply Nat.ltb_lt; lia).
    rewrite L. cbn [negb]. rewrite E.
    destruct (first_lt_ex (ntasks c) (fun t => is_queued (s_futs s t)) t Ht) as [k ->];
      [rewrite Hq; reflexivity | reflexivity].
  - eapply running_worker_progress; eassumption.
  - specialize (Hlive 0 ltac:(lia)). rewrite E in Hlive. discriminate.
Qed.

Theorem progress : 1 <= c_workers c -> final s = false -> can_move f c s.
Proof.
  intros HW Hnf.
  destruct (s_pc s) eqn:PC; try (unfold final in Hnf; rewrite PC in Hnf; discriminate).
  - (* MEnterMgr *) en AMain. unfold step_main. rewrite PC. reflexivity.
  - (* MSubmit *) en AMain. unfold step_main. rewrite PC.
    destruct (Nat.ltb k (ntasks c)); [destruct (s_pool s)|]; reflexivity.
  - en AMain. unfold step_main. rewrite PC. reflexivity.
  - en AMain. unfold step_main. rewrite PC. reflexivity.
  - (* MWait *)
    destruct (step_main f c s) eqn:SM; [exists AMain; unfold enabledb, step; rewrite SM; reflexivity|].
    unfold step_main in SM. rewrite PC in SM.
    destruct (first_exc (ntasks c) (s_futs s)) eqn:FE; [discriminate|].
    destruct (negb (all_lt (ntasks c) (fun t => negb (is_broken (s_futs s t))))) eqn:AB; [discriminate|].
    destruct (all_lt (ntasks c) (fun t => is_ok (s_futs s t))) eqn:AO; [discriminate|].
    apply all_lt_false in AO. destruct AO as (t & Ht & Hnok).
    pose proof (first_exc_none _ _ FE t Ht) as Hne.
    rewrite negb_false_iff, all_lt_true in AB. specialize (AB t Ht). rewrite negb_true_iff in AB.
    assert (Hnn : s_futs s t <> FNone).
    { apply (i_nonone _ _ _ HI); [rewrite PC; reflexivity | assumption]. }
    destruct (s_futs s t) eqn:Ft; try discriminate; try congruence.
    + (* queued *)
      destruct (s_pool s) eqn:P.
      * eapply queued_progress; try eassumption.
        intros w Hw. apply (i_dead_pre _ _ _ HI); [rewrite PC; reflexivity | assumption].
      * eapply (pool_broken_moves_pending t); [congruence | assumption | rewrite Ft; reflexivity].
      * eapply (pool_broken_moves_pending t); [congruence | assumption | rewrite Ft; reflexivity].
    + (* running *)
      destruct (i_fut_run _ _ _ HI t Ft) as (w & i & j & Hw & Hr).
      eapply running_worker_progress; eassumption.
  - (* MStopRes *) en AMain. unfold step_main. rewrite PC. destruct (s_res s); reflexivity.
  - (* MJoinRes *)
    destruct (i_join_res _ _ _ HI _ _ PC) as [A B].
    destruct (s_res s) eqn:R; try congruence;
      try (apply res_progress; congruence).
    en AMain. unfold step_main. rewrite PC, R. reflexivity.
  - en AMain. unfold step_main. rewrite PC. destruct (s_info s); reflexivity.
  - destruct (i_join_info _ _ _ HI _ _ PC) as [A B].
    destruct (s_info s) eqn:R; try congruence;
      try (apply info_progress; congruence).
    en AMain. unfold step_main. rewrite PC, R. reflexivity.
  - (* MPurgeAcq *)
    destruct (opt_cases (s_coll s)) as [Co|[o Co]]; [|eapply coll_holder_moves; eassumption].
    en AMain. unfold step_main. rewrite PC, Co. reflexivity.
  - en AMain. unfold step_main. rewrite PC. reflexivity.
  - en AMain. unfold step_main. rewrite PC. reflexivity.
  - (* MExitPool *)
    destruct (all_lt (c_workers c) (fun w => is_dead (s_ws s w))) eqn:AD.
    { en AMain. unfold step_main. rewrite PC, AD. destruct (f_fin_free f); reflexivity. }
    apply all_lt_false in AD. destruct AD as (w & Hw & Hl).
    destruct (s_pool s) eqn:P.
    + destruct (s_ws s w) as [|t i j|h] eqn:E; try discriminate.
      * (* idle worker *)
        destruct (first_lt (ntasks c) (fun t => is_queued (s_futs s t))) as [t|] eqn:FQ.
        -- en (AWorker w). unfold step_worker. apply Nat.ltb_lt in Hw. rewrite Hw.
           cbn [negb]. rewrite E, FQ. reflexivity.
        -- en APool. unfold step_pool. rewrite P, PC. cbn [shutting_down]. rewrite FQ.
           destruct (first_lt_ex (c_workers c) (fun w => is_idle (s_ws s w)) w Hw) as [k ->];
             [rewrite E; reflexivity | reflexivity].
      * eapply running_worker_progress; eassumption.
    + en APool. unfold step_pool. rewrite P. reflexivity.
    + eapply (pool_broken_moves_live w); [congruence | assumption |].
      unfold is_live. rewrite Hl. reflexivity.
  - (* MFreeStore: only a live holder of the store lock makes main wait *)
    destruct (opt_cases (s_store s)) as [Co|[o Co]].
    + en AMain. unfold step_main. rewrite PC, Co. reflexivity.
    + destruct o as [| | |w|];
        try (eapply store_holder_moves; eassumption);
        en AMain; unfold step_main; rewrite PC, Co; reflexivity.
  - (* MUnproxyAcq *)
    destruct (opt_cases (s_store s)) as [Co|[o Co]]; [|eapply store_holder_moves; eassumption].
    en AMain. unfold step_main. rewrite PC, Co. reflexivity.
  - en AMain. unfold step_main. rewrite PC. reflexivity.
  - en AMain. unfold step_main. rewrite PC. reflexivity.
Qed.
End Progress.

(* With the forced release in the finally, a store lock whose owner died
   does not stop the run either: the broken pool finishes its tear-down, main
   reaches the release. *)
Section ProgressDead.
Variable f : facts.
Variable c : cfg.
Variable s : state.
Hypothesis HI : Inv f c s.
Hypothesis Hfree : f_fin_free f = true.
Hypothesis Hnd : s_store s <> Some ODead.
Hypothesis Hst : dead_ownerb s (s_store s) = true.

Lemma dead_owner_means_exit_fired :
  s_pool s <> PoolOk /\
  exists t, t < ntasks c /\ s_futs s t = FBroken.
Proof.
  assert (Hp : s_pool s <> PoolOk).
  { intros P. destruct (s_store s) as [[| | |w|]|] eqn:E; try discriminate.
    - cbn in Hst. apply (i_store_w _ _ _ HI) in E.
      destruct (s_ws s w) as [| |h] eqn:W; try discriminate. cbn in E. subst h.
      exact (i_dead_hold _ _ _ HI P w W).
    - congruence. }
  split; [exact Hp|].
  destruct (i_pool_fired _ _ _ HI Hp) as (Fd & p & P1 & P2).
  destruct (i_fired _ _ _ HI Fd) as (p' & Q1 & Q2 & Q3).
  rewrite P1 in Q1. inversion Q1; subst p'. rewrite P2 in Q3. eauto.
Qed.

Theorem progress_dead_owner : final s = false -> can_move f c s.
Proof.
  intros Hnf. destruct dead_owner_means_exit_fired as (Hp & t & Ht & Hb).
  assert (Hns : succ_pc (s_pc s) = false).
  { destruct (succ_pc (s_pc s)) eqn:Sc; [|reflexivity].
    rewrite (i_succ _ _ _ HI Sc t Ht) in Hb. discriminate. }
  assert (Hnfr : freed_pc (s_pc s) = false).
  { destruct (freed_pc (s_pc s)) eqn:Fr; [|reflexivity].
    rewrite (i_freed _ _ _ HI Hfree Fr) in Hst. discriminate. }
  destruct (s_pc s) eqn:PC; try discriminate;
    try (unfold final in Hnf; rewrite PC in Hnf; discriminate).
  - en AMain. unfold step_main. rewrite PC. reflexivity.
  - en AMain. unfold step_main. rewrite PC.
    destruct (Nat.ltb k (ntasks c)); [destruct (s_pool s)|]; reflexivity.
  - en AMain. unfold step_main. rewrite PC. reflexivity.
  - en AMain. unfold step_main. rewrite PC. reflexivity.
  - (* MWait: a broken future is there *)
    en AMain. unfold step_main. rewrite PC.
    destruct (first_exc (ntasks c) (s_futs s)); [reflexivity|].
    assert (A : all_lt (ntasks c) (fun t => negb (is_broken (s_futs s t))) = false).
    { destruct (all_lt _ _) eqn:E; [|reflexivity]. rewrite all_lt_true in E.
      specialize (E t Ht). cbv beta in E. rewrite Hb in E. discriminate. }
    rewrite A. reflexivity.
  - destruct ph; discriminate.
  - destruct ph; discriminate.
  - destruct ph; discriminate.
  - destruct ph; discriminate.
  - (* MExitPool *)
    destruct oe; [|discriminate].
    destruct (all_lt (c_workers c) (fun w => is_dead (s_ws s w))) eqn:AD.
    { en AMain. unfold step_main. rewrite PC, AD. rewrite Hfree. reflexivity. }
    apply all_lt_false in AD. destruct AD as (w & Hw & Hl).
    apply (pool_broken_moves_live f c s w Hp Hw). unfold is_live. rewrite Hl. reflexivity.
  - (* MFreeStore *)
    en AMain. unfold step_main. rewrite PC.
    destruct (s_store s) as [[| | |w|]|]; try discriminate; reflexivity.
Qed.
End ProgressDead.
