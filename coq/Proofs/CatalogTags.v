(* C09/C14 - the tag table (_search_tags) after any registration history *)
From Coq Require Import ZArith List Bool Lia.
From SK Require Import Model.Collection Model.Catalog Proofs.CollectionDict.
Import ListNotations.
Open Scope Z_scope.

(* _search_tags after a history of registrations (tag, definition id) *)
Definition tag_table (regs : list (Z * Z)) : list (Z * list Z) :=
  fold_left (fun t r => register_tag t (Some (fst r)) (snd r)) regs [].

Definition tag_defs (t : list (Z * list Z)) (tg : Z) : list Z :=
  match dget Z.eqb t tg with Some ds => ds | None => [] end.

Lemma register_tag_defs t tg d tg' :
  tag_defs (register_tag t (Some tg) d) tg' =
  if tg' =? tg
  then (if existsb (Z.eqb d) (tag_defs t tg) then tag_defs t tg
        else tag_defs t tg ++ [d])
  else tag_defs t tg'.
Proof.
  unfold register_tag, tag_defs.
  destruct (Z.eqb_spec tg' tg) as [->|Hn].
  - destruct (dget Z.eqb t tg) as [ds|] eqn:E.
    + destruct (existsb (Z.eqb d) ds); [now rewrite E|].
      now rewrite (dget_dset_same Z.eqb zeqb_spec).
    + simpl. now rewrite (dget_dset_same Z.eqb zeqb_spec).
  - destruct (dget Z.eqb t tg) as [ds|] eqn:E.
    + destruct (existsb (Z.eqb d) ds); [reflexivity|].
      now rewrite (dget_dset_other Z.eqb zeqb_spec).
    + now rewrite (dget_dset_other Z.eqb zeqb_spec).
Qed.

(* every tag resolves to exactly the definitions ever registered with it,
   each once, whatever the order and however often they are re-registered *)
Lemma tag_table_spec regs tg :
  NoDup (tag_defs (tag_table regs) tg) /\
  forall d, In d (tag_defs (tag_table regs) tg) <-> In (tg, d) regs.
Proof.
  unfold tag_table. induction regs as [|[tg0 d0] regs IH] using rev_ind.
  - simpl. split; [constructor|]. intro d. unfold tag_defs. simpl. tauto.
  - rewrite fold_left_app. cbn [fold_left fst snd]. rewrite register_tag_defs.
    destruct IH as [Hnd Hin].
    set (t := fold_left _ regs []) in *.
    destruct (Z.eqb_spec tg tg0) as [->|Hn].
    + destruct (existsb (Z.eqb d0) (tag_defs t tg0)) eqn:Ex.
      * split; [assumption|]. intro d. rewrite Hin, in_app_iff. simpl.
        split; [tauto|]. intros [H|[H|[]]]; [assumption|].
        inversion H; subst. apply Hin. apply existsb_exists in Ex.
        destruct Ex as [x [Hx E]]. apply Z.eqb_eq in E. now subst.
      * split.
        -- apply NoDup_app_snoc; [assumption|]. intro Hc.
           assert (existsb (Z.eqb d0) (tag_defs t tg0) = true).
           { apply existsb_exists. exists d0. split; [assumption|].
             apply Z.eqb_refl. }
           congruence.
        -- intro d. rewrite !in_app_iff, Hin. simpl.
           split; intros [H|[H|[]]]; auto.
           ++ right. left. now subst.
           ++ right. left. now inversion H.
    + split; [assumption|]. intro d. rewrite Hin, in_app_iff. simpl.
      split; [tauto|]. intros [H|[H|[]]]; [assumption|].
      inversion H. congruence.
Qed.

(* the restriction set after any history of FileSearcher.add calls: exactly
   the definitions ever added with allow_global_constraints=False *)
Lemma fs_restrict_in r allow d x :
  In x (fs_restrict r allow d) <-> In x r \/ (allow = false /\ x = d).
Proof.
  unfold fs_restrict. destruct allow; simpl.
  - split; [tauto|]. intros [H|[H _]]; [assumption|discriminate].
  - destruct (existsb (Z.eqb d) r) eqn:E.
    + split; [tauto|]. intros [H|[_ ->]]; [assumption|].
      apply existsb_exists in E. destruct E as [y [Hy Ey]].
      apply Z.eqb_eq in Ey. now subst.
    + rewrite in_app_iff. simpl. split.
      * intros [H|[H|[]]]; [now left|right; now split].
      * intros [H|[_ ->]]; [now left|right; now left].
Qed.

Lemma fs_restrict_nodup r allow d : NoDup r -> NoDup (fs_restrict r allow d).
Proof.
  intro H. unfold fs_restrict. destruct allow; simpl; [assumption|].
  destruct (existsb (Z.eqb d) r) eqn:E; [assumption|].
  apply NoDup_app_snoc; [assumption|]. intro Hin.
  assert (existsb (Z.eqb d) r = true).
  { apply existsb_exists. exists d. split; [assumption|apply Z.eqb_refl]. }
  congruence.
Qed.

Lemma fs_restrictions_spec ops :
  NoDup (fs_restrictions ops) /\
  forall d, In d (fs_restrictions ops) <-> In (d, false) ops.
Proof.
  unfold fs_restrictions. induction ops as [|[d0 a0] ops IH] using rev_ind.
  - simpl. split; [constructor|]. intro d. tauto.
  - rewrite fold_left_app. cbn [fold_left fst snd]. destruct IH as [Hnd Hin].
    split; [now apply fs_restrict_nodup|]. intro d.
    rewrite fs_restrict_in, Hin, in_app_iff. simpl. split.
    + intros [H|[-> ->]]; [now left|right; now left].
    + intros [H|[H|[]]]; [now left|]. inversion H. right. now split.
Qed.
