(* C09/C14 - the tag table (_search_tags) after any registration history *)
From Coq Require Import ZArith List Bool Lia.
From SK Require Import Model.Collection Model.Catalog Proofs.CollectionDict.
Import ListNotations.
Open Scope Z_scope.

(* _search_tags after a history of registrations (tag, definition id) *)
Definition tag_table (regs : list (Z * Z)) : list (Z * list Z) :=
  fold_left (fun t r => register_tag t (Some (fst r)) (snd r)) regs [].

Definition tag_defs (t : list (Z * list Z)) (tg : Z) : list Z :=
  match dget Z.eqb t tg with Some ds => ds | None => [] end.

Lemma register_tag_defs t tg d tg' :
  tag_defs (register_tag t (Some tg) d) tg' =
  if tg' =? tg
  then (if existsb (Z.eqb d) (tag_defs t tg) then tag_defs t tg
        else tag_defs t tg ++ [d])
  else tag_defs t tg'.
Proof.
  unfold register_tag, tag_defs.
  destruct (Z.eqb_spec tg' tg) as [->|Hn].
  - destruct (dget Z.eqb t tg) as [ds|] eqn:E.
    + destruct (existsb (Z.eqb d) ds); [now rewrite E|].
      now rewrite (dget_dset_same Z.eqb zeqb_spec).
    + simpl. now rewrite (dget_dset_same Z.eqb zeqb_spec).
  - destruct (dget Z.eqb t tg) as [ds|] eqn:E.
    + destruct (existsb (Z.eqb d) ds); [reflexivity|].
      now rewrite (dget_dset_other Z.eqb zeqb_spec).
    + now rewrite (dget_dset_other Z.eqb zeqb_spec).
Qed.

(* every tag resolves to exactly the definitions ever registered with it,
   each once, whatever the order and however often they are re-registered *)
Lemma tag_table_spec regs tg :
  NoDup (tag_defs (tag_table regs) tg) /\
  forall d, In d (tag_defs (tag_table regs) tg) <-> In (tg, d) regs.
Proof.
  unfold tag_table. induction regs as [|[tg0 d0] regs IH] using rev_ind.
  - simpl. split; [constructor|]. intro d. unfold tag_defs. simpl. tauto.
  - rewrite fold_left_app. cbn [fold_left fst snd]. rewrite register_tag_defs.
    destruct IH as [Hnd Hin].
    set (t := fold_left _ regs []) in *.
    destruct (Z.eqb_spec tg tg0) as [->|Hn].
    + destruct (existsb (Z.eqb d0) (tag_defs t tg0)) eqn:Ex.
      * split; [assumption|]. intro d. rewrite Hin, in_app_iff. simpl.
        split; [tauto|]. intros [H|[H|[]]]; [assumption|].
        inversion H; subst. apply Hin. apply existsb_exists in Ex.
        destruct Ex as [x [Hx E]]. apply Z.eqb_eq in E. now subst.
      * split.
        -- apply NoDup_app_snoc; [assumption|]. intro Hc.
           assert (existsb (Z.eqb d0) (tag_defs t tg0) = true).
           { apply existsb_exists. exists d0. split; [assumption|].
             apply Z.eqb_refl. }
           congruence.
        -- intro d. rewrite !in_app_iff, Hin. simpl.
           split; intros [H|[H|[]]]; auto.
           ++ right. left. now subst.
           ++ right. left. now inversion H.
    + split; [assumption|]. intro d. rewrite Hin, in_app_iff. simpl.
      split; [tauto|]. intros [H|[H|[]]]; [assumption|].
      inversion H. congruence.
Qed.
