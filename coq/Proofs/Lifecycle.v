(* C10 - invariants of the life-cycle model and their preservation. *)
From Coq Require Import String List Bool Arith Lia.
From SK Require Import Model.Skel Model.Lifecycle Spec.Lifecycle.
Import ListNotations.

(* ------------------------------------------------------------- basics *)
Lemma first_lt_some n p i : first_lt n p = Some i -> i < n /\ p i = true.
Proof.
  induction n as [|m IH]; simpl; [discriminate|].
  destruct (first_lt m p) as [k|] eqn:E.
  - intros H; inversion H; subst. destruct (IH eq_refl). split; [lia|auto].
  - destruct (p m) eqn:Pm; [|discriminate].
    intros H; inversion H; subst. split; [lia|auto].
Qed.

Lemma first_lt_none n p : first_lt n p = None -> forall i, i < n -> p i = false.
Proof.
  induction n as [|m IH]; simpl; intros H i Hi; [lia|].
  destruct (first_lt m p) eqn:E; [discriminate|].
  destruct (p m) eqn:Pm; [discriminate|].
  destruct (Nat.eq_dec i m); [subst; auto| apply IH; auto; lia].
Qed.

Lemma first_lt_ex n p i : i < n -> p i = true -> exists k, first_lt n p = Some k.
Proof.
  intros Hi Hp. destruct (first_lt n p) eqn:E; [eauto|].
  rewrite (first_lt_none _ _ E i Hi) in Hp. discriminate.
Qed.

Lemma all_lt_true n p : all_lt n p = true <-> forall i, i < n -> p i = true.
Proof.
  induction n as [|m IH]; simpl.
  - split; [intros _ i Hi; lia | auto].
  - rewrite andb_true_iff, IH. split.
    + intros [H1 H2] i Hi. destruct (Nat.eq_dec i m); [subst; auto|].
      apply H1. lia.
    + intros H. split; [intros i Hi; apply H; lia | apply H; lia].
Qed.

Lemma all_lt_false n p : all_lt n p = false -> exists i, i < n /\ p i = false.
Proof.
  induction n as [|m IH]; simpl; [discriminate|].
  rewrite andb_false_iff. intros [H|H].
  - destruct (IH H) as [i [Hi Hp]]. exists i. split; [lia|auto].
  - exists m. split; [lia|auto].
Qed.

Lemma upd_same {A} (g : nat -> A) i x : upd g i x i = x.
Proof. unfold upd. rewrite Nat.eqb_refl. reflexivity. Qed.

Lemma upd_other {A} (g : nat -> A) i x k : k <> i -> upd g i x k = g k.
Proof. unfold upd. intros H. destruct (Nat.eqb_spec k i); [contradiction|auto]. Qed.

Lemma first_exc_some n futs e :
  first_exc n futs = Some e -> exists t, t < n /\ futs t = FExc e.
Proof.
  unfold first_exc. destruct (first_lt n _) as [t|] eqn:E; [|discriminate].
  apply first_lt_some in E. destruct E as [Ht Hp].
  destruct (futs t) eqn:Ft; simpl in *; try discriminate.
  intros H; inversion H; subst. eauto.
Qed.

Lemma first_exc_none n futs :
  first_exc n futs = None -> forall t, t < n -> is_excd (futs t) = false.
Proof.
  unfold first_exc. destruct (first_lt n _) as [t|] eqn:E.
  - apply first_lt_some in E. destruct E as [Ht Hp].
    destruct (futs t); simpl in *; discriminate.
  - intros _. apply (first_lt_none _ _ E).
Qed.

(* ---------------------------------------------------- pc classification *)
Definition pc_exc (p : mpc) : option exc :=
  match p with
  | MStopRes _ oe | MJoinRes _ oe | MStopInfo _ oe | MJoinInfo _ oe
  | MExitPool oe | MFreeStore oe | MExitMgr oe => oe
  | MRaised e => Some e
  | _ => None
  end.

(* the normal path after the future loop *)
Definition succ_pc (p : mpc) : bool :=
  match p with
  | MStopRes PBody _ | MJoinRes PBody _ | MStopInfo PBody _
  | MJoinInfo PBody _ | MPurgeAcq | MPurgeIn | MKill | MExitPool None
  | MFreeStore None
  | MStopRes PFin None | MJoinRes PFin None | MStopInfo PFin None
  | MJoinInfo PFin None | MUnproxyAcq | MUnproxyIn | MExitMgr None
  | MReturn => true
  | _ => false
  end.

(* every task has been submitted *)
Definition submitted_pc (p : mpc) : bool :=
  match p with
  | MStartInfo | MStartRes | MWait => true
  | _ => false
  end.

(* before any shutdown / kill of the pool by the main thread *)
Definition pre_shutdown (p : mpc) : bool :=
  match p with
  | MEnterMgr | MSubmit _ | MStartInfo | MStartRes | MWait
  | MStopRes PBody _ | MJoinRes PBody _ | MStopInfo PBody _
  | MJoinInfo PBody _ | MPurgeAcq | MPurgeIn | MKill => true
  | _ => false
  end.

(* the pool block has been left: every worker has been joined *)
Definition post_pool (p : mpc) : bool :=
  match p with
  | MFreeStore _
  | MStopRes PFin _ | MJoinRes PFin _ | MStopInfo PFin _ | MJoinInfo PFin _
  | MUnproxyAcq | MUnproxyIn | MExitMgr _ | MReturn | MRaised _ => true
  | _ => false
  end.

(* the finally's forced release of the store lock has been executed *)
Definition freed_pc (p : mpc) : bool :=
  match p with
  | MStopRes PFin _ | MJoinRes PFin _ | MStopInfo PFin _ | MJoinInfo PFin _
  | MUnproxyAcq | MUnproxyIn | MExitMgr _ | MReturn | MRaised _ => true
  | _ => false
  end.

Definition res_done_pc (p : mpc) : bool :=
  match p with
  | MStopInfo PFin _ | MJoinInfo PFin _
  | MUnproxyAcq | MUnproxyIn | MExitMgr _ | MReturn | MRaised _ => true
  | _ => false
  end.

Definition info_unstarted_pc (p : mpc) : bool :=
  match p with MEnterMgr | MSubmit _ | MStartInfo => true | _ => false end.
Definition res_unstarted_pc (p : mpc) : bool :=
  match p with
  | MEnterMgr | MSubmit _ | MStartInfo | MStartRes => true
  | _ => false
  end.

Definition info_done_pc (p : mpc) : bool :=
  match p with
  | MUnproxyAcq | MUnproxyIn | MExitMgr _ | MReturn | MRaised _ => true
  | _ => false
  end.

(* ------------------------------------------------------------ invariant *)
Record Inv (f : facts) (c : cfg) (s : state) : Prop := mkInv {
  i_store_w : forall w, s_store s = Some (OWorker w) <-> wholds (s_ws s w) = true;
  i_store_info : s_store s = Some OInfo <-> s_info s = IInStore;
  i_store_main : s_store s = Some OMain <-> s_pc s = MUnproxyIn;
  i_store_res : s_store s <> Some ORes;
  i_coll_info : s_coll s = Some OInfo <-> s_info s = IInColl;
  i_coll_res : s_coll s = Some ORes <-> (s_res s = RInColl \/ s_res s = RFinalIn);
  i_coll_main : s_coll s = Some OMain <-> s_pc s = MPurgeIn;
  i_coll_w : forall w, s_coll s <> Some (OWorker w);
  i_range_w : forall w, c_workers c <= w -> s_ws s w = WIdle;
  i_range_t : forall t, ntasks c <= t -> s_futs s t = FNone;
  i_run_fut : forall w t i j, s_ws s w = WRun t i j ->
      t < ntasks c /\ (s_futs s t = FRunning \/ s_futs s t = FBroken);
  i_uniq : forall w1 w2 t i1 j1 i2 j2,
      s_ws s w1 = WRun t i1 j1 -> s_ws s w2 = WRun t i2 j2 -> w1 = w2;
  i_fut_run : forall t, s_futs s t = FRunning ->
      exists w i j, w < c_workers c /\ s_ws s w = WRun t i j;
  i_submit : forall k, s_pc s = MSubmit k ->
      k <= ntasks c /\ (forall t, k <= t -> s_futs s t = FNone) /\
      (forall t, t < k -> s_futs s t <> FNone);
  i_enter : s_pc s = MEnterMgr -> forall t, s_futs s t = FNone;
  i_nonone : submitted_pc (s_pc s) = true ->
      forall t, t < ntasks c -> s_futs s t <> FNone;
  i_succ : succ_pc (s_pc s) = true ->
      forall t, t < ntasks c -> s_futs s t = FOk;
  i_pool_fired : s_pool s <> PoolOk ->
      s_fired s = true /\ exists p, c_plan c = Some p /\ p_kind p = KExit;
  i_dead_pre : pre_shutdown (s_pc s) = true -> s_pool s = PoolOk ->
      forall w, is_dead (s_ws s w) = false;
  i_dead_hold : s_pool s = PoolOk -> forall w, s_ws s w <> WDead true;
  i_broken_pool : forall t, s_futs s t = FBroken -> s_pool s <> PoolOk;
  i_fired : s_fired s = true ->
      exists p, c_plan c = Some p /\ p_task p < ntasks c /\
        match p_kind p with
        | KRaise e => s_futs s (p_task p)
                      = FExc (raise_class f c (p_task p) (p_i p) e)
        | KExit => s_futs s (p_task p) = FBroken
        end;
  i_exc : forall t e, s_futs s t = FExc e ->
      exists p e0, c_plan c = Some p /\ p_task p = t /\
        p_kind p = KRaise e0 /\ e = raise_class f c t (p_i p) e0;
  i_exc_fired : forall t e, s_futs s t = FExc e -> s_fired s = true;
  i_pc_exc : forall e, pc_exc (s_pc s) = Some e ->
      (exists t e0, s_futs s t = FExc e0 /\ e = main_class f e0) \/
      (e = main_class f E_BPP /\ exists t, s_futs s t = FBroken) \/
      (e = submit_class f /\ s_pool s = PoolBroken);
  i_info_ns : info_unstarted_pc (s_pc s) = true -> s_info s = INotStarted;
  i_res_ns : res_unstarted_pc (s_pc s) = true -> s_res s = RNotStarted;
  i_join_res : forall ph oe, s_pc s = MJoinRes ph oe ->
      s_rstop s = true /\ s_res s <> RNotStarted;
  i_join_info : forall ph oe, s_pc s = MJoinInfo ph oe ->
      s_istop s = true /\ s_info s <> INotStarted;
  i_res_quiet : res_done_pc (s_pc s) = true ->
      s_res s = RNotStarted \/ s_res s = RDone;
  i_info_quiet : info_done_pc (s_pc s) = true ->
      s_info s = INotStarted \/ s_info s = IDone;
  i_all_dead : post_pool (s_pc s) = true ->
      forall w, w < c_workers c -> is_dead (s_ws s w) = true;
  i_mgr : final s = true -> s_mgr s = false;
  i_orphan : f_fin_free f = false ->
      s_fired s = true -> forall p r, c_plan c = Some p ->
      p_kind p = KExit -> p_j p = Some r -> exists w, s_ws s w = WDead true;
  i_freed : f_fin_free f = true -> freed_pc (s_pc s) = true ->
      dead_ownerb s (s_store s) = false;
  i_free_pc : forall oe, s_pc s = MFreeStore oe -> f_fin_free f = true
}.

Lemma inv_init f c st co : lock_init st -> lock_init co -> Inv f c (init c st co).
Proof.
  intros Hst Hco. unfold init.
  constructor; cbn [s_pc s_futs s_ws s_info s_istop s_ibud s_res s_rstop s_rbud
                    s_store s_coll s_pool s_mgr s_fired final final_pc
                    pc_exc succ_pc submitted_pc pre_shutdown post_pool
                    res_done_pc info_done_pc wholds is_dead
                    info_unstarted_pc res_unstarted_pc freed_pc]; intros;
    try discriminate; try congruence; auto;
    try (destruct Hst as [-> | ->]; split; intros; discriminate);
    try (destruct Hco as [-> | ->]; split; intros; try discriminate;
         intuition discriminate);
    try (destruct Hst as [-> | ->]; discriminate);
    try (destruct Hco as [-> | ->]; discriminate).
Qed.

(* ------------------------------------------------------------- tactics *)
Ltac projs := cbn [s_pc s_futs s_ws s_info s_istop s_ibud s_res s_rstop s_rbud
                    s_store s_coll s_pool s_mgr s_fired] in *.

Ltac unf_step H :=
  unfold step, step_main, step_worker, step_pool, step_info, step_res,
    release_if, set_pc, set_futs, set_ws, set_info, set_istop, set_ibud,
    set_res, set_rstop, set_rbud, set_store, set_coll, set_pool, set_mgr,
    set_fired in H; projs.

Ltac split_step H :=
  repeat match type of H with
  | context [match ?x with _ => _ end] =>
      match x with
      | context [match _ with _ => _ end] => fail 1
      | _ => destruct x eqn:?; try discriminate H
      end
  | context [if ?x then _ else _] =>
      match x with
      | context [if _ then _ else _] => fail 1
      | context [match _ with _ => _ end] => fail 1
      | _ => destruct x eqn:?; try discriminate H
      end
  end.

Lemma facts_ok_inv f : facts_ok f = true ->
  main_class f E_BPP = E_FSE /\ submit_class f = E_FSE /\
  f_fin_res f = true /\ f_fin_info f = true.
Proof.
  unfold facts_ok. rewrite !andb_true_iff, !String.eqb_eq. tauto.
Qed.

Lemma fin_entry_ok f oe : facts_ok f = true -> fin_entry f oe = MStopRes PFin oe.
Proof. intros H. apply facts_ok_inv in H. unfold fin_entry. destruct H as (_&_&->&_). reflexivity. Qed.

Lemma next_after_res_ok f ph oe : facts_ok f = true ->
  next_after_res f ph oe = MStopInfo ph oe.
Proof.
  intros H. apply facts_ok_inv in H. destruct H as (_&_&_&H).
  unfold next_after_res, fin_info_entry. rewrite H. destruct ph; reflexivity.
Qed.

Lemma fault_here_some c s t i j k : fault_here c s t i j = Some k ->
  exists p, c_plan c = Some p /\ s_fired s = false /\ p_task p = t /\
            p_i p = i /\ p_j p = j /\ p_kind p = k.
Proof.
  unfold fault_here. destruct (c_plan c) as [p|]; [|discriminate].
  destruct (negb (s_fired s)) eqn:F; simpl; [|discriminate].
  destruct (Nat.eqb_spec (p_task p) t); simpl; [|discriminate].
  destruct (Nat.eqb_spec (p_i p) i); simpl; [|discriminate].
  destruct (p_j p) as [a|] eqn:Pj; destruct j as [b|]; try discriminate.
  - destruct (Nat.eqb_spec a b); [|discriminate]. intros H; inversion H; subst.
    exists p. rewrite negb_true_iff in F. auto 10.
  - intros H; inversion H; subst. exists p. rewrite negb_true_iff in F. auto 10.
Qed.

(* case analysis of one step: the old state as variables, the new one as an
   explicit record *)
Ltac step_cases f Hok H :=
  match type of H with
  | step _ _ ?s ?a = Some _ =>
      destruct s as [pc futs ws info istop ibud res rstop rbud store coll
                        pool mgr fired];
      try (is_var a; destruct a); unf_step H;
      split_step H; inversion H; subst; clear H; projs;
      rewrite ?(fin_entry_ok f _ Hok), ?(next_after_res_ok f _ _ Hok) in *;
      unfold next_after_info, after_fin in *
  end.

Ltac upd_cases :=
  repeat match goal with
  | H : context [upd _ ?i _ ?k] |- _ =>
      unfold upd in H; destruct (Nat.eqb_spec k i); subst
  | |- context [upd _ ?i _ ?k] =>
      unfold upd; destruct (Nat.eqb_spec k i); subst
  end.

Ltac fl_facts :=
  repeat match goal with
  | H : first_lt _ _ = Some _ |- _ => apply first_lt_some in H; destruct H
  | H : fault_here _ _ _ _ ?j = Some _ |- _ =>
      apply fault_here_some in H;
      destruct H as (?p & ?Hplan & ?Hnf & ?Hpt & ?Hpi & ?Hpj & ?Hpk); projs;
      try (is_var j; destruct j; cbn [isSome] in *; try discriminate)
  | H : first_exc _ _ = Some _ |- _ =>
      apply first_exc_some in H; destruct H as (?t & ?Ht & ?Hf)
  | H : first_lt _ _ = None |- _ =>
      let Hn := fresh "Hnone" in
      pose proof (first_lt_none _ _ H) as Hn; clear H; cbv beta in Hn
  | H : first_exc _ _ = None |- _ =>
      let Hn := fresh "Hnoexc" in
      pose proof (first_exc_none _ _ H) as Hn; clear H
  | H : negb (Nat.ltb _ _) = false |- _ =>
      rewrite negb_false_iff, Nat.ltb_lt in H
  | H : Nat.ltb _ _ = true |- _ => rewrite Nat.ltb_lt in H
  | H : Nat.ltb _ _ = false |- _ => rewrite Nat.ltb_ge in H
  | H : all_lt _ _ = true |- _ => rewrite all_lt_true in H
  | H : negb _ = true |- _ => rewrite negb_true_iff in H
  | H : negb _ = false |- _ => rewrite negb_false_iff in H
  end.

Ltac inst_all H :=
  repeat match goal with
  | x : nat |- _ =>
      let T := type of (H x) in
      lazymatch goal with
      | _ : T |- _ => fail
      | _ => pose proof (H x)
      end
  end.

Ltac rew_ws :=
  repeat match goal with
  | H : ?ws ?w = WRun _ _ _ |- _ => rewrite H in *
  | H : ?ws ?w = WIdle |- _ => rewrite H in *
  | H : ?ws ?w = WDead _ |- _ => rewrite H in *
  end.

Ltac dws :=
  repeat match goal with
  | H : is_queued (?g ?t) = true |- _ =>
      destruct (g t) eqn:?; try discriminate H; clear H
  | H : is_pending (?g ?t) = true |- _ =>
      destruct (g t) eqn:?; try discriminate H; clear H
  | H : is_idle (?ws ?n) = true |- _ =>
      destruct (ws n) eqn:?; try discriminate H; clear H
  | H : is_live (?ws ?n) = true |- _ =>
      destruct (ws n) eqn:?; try discriminate H; clear H
  end.

Ltac lcbn := cbn [wholds kill is_dead is_live is_idle isSome negb is_queued
                  is_pending is_ok is_broken is_excd exc_of pc_exc succ_pc
                  submitted_pc pre_shutdown post_pool res_done_pc info_done_pc
                  info_unstarted_pc res_unstarted_pc freed_pc unhold
                  final final_pc s_pc] in *.

Ltac grab HI :=
  pose proof (i_store_w _ _ _ HI) as Hsw; pose proof (i_store_info _ _ _ HI) as Hsi;
  pose proof (i_store_main _ _ _ HI) as Hsm; pose proof (i_store_res _ _ _ HI) as Hsr;
  pose proof (i_coll_info _ _ _ HI) as Hci; pose proof (i_coll_res _ _ _ HI) as Hcr;
  pose proof (i_coll_main _ _ _ HI) as Hcm; pose proof (i_coll_w _ _ _ HI) as Hcw;
  pose proof (i_range_w _ _ _ HI) as Hrw; pose proof (i_range_t _ _ _ HI) as Hrt;
  pose proof (i_run_fut _ _ _ HI) as Hrf; pose proof (i_uniq _ _ _ HI) as Huq;
  pose proof (i_fut_run _ _ _ HI) as Hfr; pose proof (i_submit _ _ _ HI) as Hsub;
  pose proof (i_enter _ _ _ HI) as Hent; pose proof (i_nonone _ _ _ HI) as Hnn;
  pose proof (i_succ _ _ _ HI) as Hsucc; pose proof (i_pool_fired _ _ _ HI) as Hpf;
  pose proof (i_dead_pre _ _ _ HI) as Hdp; pose proof (i_dead_hold _ _ _ HI) as Hdh;
  pose proof (i_broken_pool _ _ _ HI) as Hbp; pose proof (i_fired _ _ _ HI) as Hfi;
  pose proof (i_exc _ _ _ HI) as Hex; pose proof (i_pc_exc _ _ _ HI) as Hpe;
  pose proof (i_join_res _ _ _ HI) as Hjr; pose proof (i_join_info _ _ _ HI) as Hji;
  pose proof (i_res_quiet _ _ _ HI) as Hrq; pose proof (i_info_quiet _ _ _ HI) as Hiq;
  pose proof (i_all_dead _ _ _ HI) as Had; pose proof (i_mgr _ _ _ HI) as Hmg;
  pose proof (i_orphan _ _ _ HI) as Hor; pose proof (i_info_ns _ _ _ HI) as Hins;
  pose proof (i_res_ns _ _ _ HI) as Hrns;
  pose proof (i_exc_fired _ _ _ HI) as Hef;
  pose proof (i_freed _ _ _ HI) as Hfd;
  pose proof (i_free_pc _ _ _ HI) as Hfp; clear HI.

Lemma wholds_kill x : wholds (kill x) = wholds x.
Proof. destruct x as [| t i [r|] | h]; reflexivity. Qed.

Lemma is_dead_kill x : is_dead (kill x) = true.
Proof. destruct x; reflexivity. Qed.

Lemma wholds_unhold_dead x : is_dead x = true -> wholds (unhold x) = false.
Proof. destruct x; try discriminate; reflexivity. Qed.
Lemma is_dead_unhold x : is_dead (unhold x) = is_dead x.
Proof. destruct x; reflexivity. Qed.
Lemma unhold_run x t i j : unhold x = WRun t i j -> x = WRun t i j.
Proof. destruct x; try discriminate; auto. Qed.
Lemma unhold_not_deadtrue x : unhold x <> WDead true.
Proof. destruct x; discriminate. Qed.

Lemma kill_not_run x t i j : kill x = WRun t i j -> False.
Proof. destruct x; discriminate. Qed.
Lemma kill_not_idle x : kill x = WIdle -> False.
Proof. destruct x; discriminate. Qed.

Ltac dvars :=
  repeat match goal with
  | H : kill _ = WRun _ _ _ |- _ => destruct (kill_not_run _ _ _ _ H)
  | H : kill _ = WIdle |- _ => destruct (kill_not_idle _ H)
  | H : unhold _ = WRun _ _ _ |- _ => apply unhold_run in H
  | H : context [if Nat.ltb ?a ?b then _ else _] |- _ =>
      destruct (Nat.ltb_spec a b)
  | |- context [if Nat.ltb ?a ?b then _ else _] =>
      destruct (Nat.ltb_spec a b)
  | |- context [match ?x with _ => _ end] => is_var x; destruct x
  | H : context [match ?x with _ => _ end] |- _ => is_var x; destruct x
  end.
Ltac norm := fl_facts; dws; upd_cases; rew_ws; cbv beta in *; dvars;
  rewrite ?wholds_kill, ?is_dead_kill, ?is_dead_unhold in *; lcbn.
Ltac fin := try (intuition (try congruence; try discriminate; eauto); fail).

(* forward chaining with invariants whose premise is a worker / future fact *)
Ltac fwd_run H :=
  repeat match goal with
  | Hr : _ = WRun _ _ _ |- _ =>
      let T := type of (H _ _ _ _ Hr) in
      lazymatch goal with
      | _ : T |- _ => fail
      | _ => pose proof (H _ _ _ _ Hr)
      end
  end.
Ltac inv_eqs :=
  repeat match goal with
  | H : WRun _ _ _ = WRun _ _ _ |- _ => inversion H; subst; clear H
  | H : WIdle = WRun _ _ _ |- _ => discriminate H
  | H : WDead _ = WRun _ _ _ |- _ => discriminate H
  | H : WRun _ _ _ = WIdle |- _ => discriminate H
  | H : WRun _ _ _ = WDead _ |- _ => discriminate H
  | H : WDead _ = WIdle |- _ => discriminate H
  | H : WIdle = WDead _ |- _ => discriminate H
  | H : WDead _ = WDead _ |- _ => inversion H; subst; clear H
  | H : Some _ = Some _ |- _ => inversion H; subst; clear H
  | H : FExc _ = FExc _ |- _ => inversion H; subst; clear H
  | H : MSubmit _ = MSubmit _ |- _ => inversion H; subst; clear H
  | H : MJoinRes _ _ = MJoinRes _ _ |- _ => inversion H; subst; clear H
  | H : MJoinInfo _ _ = MJoinInfo _ _ |- _ => inversion H; subst; clear H
  end.

Ltac fwd_uq Huq :=
  repeat match goal with
  | H1 : ?ws ?w1 = WRun ?t _ _, H2 : ?ws ?w2 = WRun ?t _ _ |- _ =>
      lazymatch w1 with
      | w2 => fail
      | _ => assert (w1 = w2) by (exact (Huq _ _ _ _ _ _ _ H1 H2));
             first [contradiction | subst w1 | subst w2]
      end
  end.
Ltac use_none :=
  repeat match goal with
  | Hn : forall i, i < ?n -> _ = false, Hlt : ?t < ?n |- _ =>
      let T := type of (Hn t Hlt) in
      lazymatch goal with
      | _ : T |- _ => fail
      | _ => pose proof (Hn t Hlt)
      end
  end.
Ltac conjs := repeat match goal with H : _ /\ _ |- _ => destruct H end.
Ltac rew_futs :=
  repeat match goal with
  | H : ?futs ?t = FRunning |- _ => rewrite H in *
  | H : ?futs ?t = FQueued |- _ => rewrite H in *
  | H : ?futs ?t = FNone |- _ => rewrite H in *
  | H : ?futs ?t = FOk |- _ => rewrite H in *
  | H : ?futs ?t = FBroken |- _ => rewrite H in *
  | H : ?futs ?t = FExc _ |- _ => rewrite H in *
  end.
Ltac tidy := try congruence; conjs; use_none; rew_futs; lcbn; try discriminate;
  try congruence.
Ltac lia' := try (intuition (try congruence; try lia); fail).

Section Pres.
Variable f : facts.
Variable c : cfg.
Hypothesis Hok : facts_ok f = true.
Variables (s : state) (a : actor) (s' : state).
Hypothesis INV0 : Inv f c s.
Hypothesis STEP0 : step f c s a = Some s'.

Lemma pres_store_w :
  forall w, s_store s' = Some (OWorker w) <-> wholds (s_ws s' w) = true.
Proof.
  grab INV0. clear - Hok STEP0 Hsw Hsi Hsm Hsr Hins Hrns Had Hrw.
  step_cases f Hok STEP0; try assumption; intros w'; fl_facts; dws;
    inst_all Hsw; norm; fin.
  all: split; [discriminate|]; intros Q; exfalso;
    (destruct (Nat.lt_ge_cases w' (c_workers c)) as [L|G];
     [ rewrite (wholds_unhold_dead _ (Had eq_refl _ L)) in Q
     | rewrite (Hrw _ G) in Q ]); discriminate.
Qed.
Lemma pres_store_info : s_store s' = Some OInfo <-> s_info s' = IInStore.
Proof.
  grab INV0. clear - Hok STEP0 Hsw Hsi Hsm Hsr Hins Hrns.
  step_cases f Hok STEP0; try assumption; fl_facts; dws; inst_all Hsw; norm; fin.
Qed.
Lemma pres_store_main : s_store s' = Some OMain <-> s_pc s' = MUnproxyIn.
Proof.
  grab INV0. clear - Hok STEP0 Hsw Hsi Hsm Hsr Hins Hrns.
  step_cases f Hok STEP0; try assumption; fl_facts; dws; inst_all Hsw; norm; fin.
Qed.
Lemma pres_store_res : s_store s' <> Some ORes.
Proof.
  grab INV0. clear - Hok STEP0 Hsw Hsi Hsm Hsr Hins Hrns.
  step_cases f Hok STEP0; try assumption; norm; fin.
Qed.
Lemma pres_coll_info : s_coll s' = Some OInfo <-> s_info s' = IInColl.
Proof.
  grab INV0. clear - Hok STEP0 Hci Hcr Hcm Hcw Hins Hrns.
  step_cases f Hok STEP0; try assumption; norm; fin.
Qed.
Lemma pres_coll_res :
  s_coll s' = Some ORes <-> (s_res s' = RInColl \/ s_res s' = RFinalIn).
Proof.
  grab INV0. clear - Hok STEP0 Hci Hcr Hcm Hcw Hins Hrns.
  step_cases f Hok STEP0; try assumption; norm; fin.
Qed.
Lemma pres_coll_main : s_coll s' = Some OMain <-> s_pc s' = MPurgeIn.
Proof.
  grab INV0. clear - Hok STEP0 Hci Hcr Hcm Hcw Hins Hrns.
  step_cases f Hok STEP0; try assumption; norm; fin.
Qed.
Lemma pres_coll_w : forall w, s_coll s' <> Some (OWorker w).
Proof.
  grab INV0. clear - Hok STEP0 Hci Hcr Hcm Hcw Hins Hrns.
  step_cases f Hok STEP0; try assumption; norm; fin.
Qed.
Lemma pres_range_w : forall w, c_workers c <= w -> s_ws s' w = WIdle.
Proof.
  grab INV0. clear - Hok STEP0 Hrw.
  step_cases f Hok STEP0; try assumption; intros w' Hw'; norm; inst_all Hrw;
    fin; try lia; auto.
  all: try (rewrite (Hrw _ Hw'); reflexivity).
Qed.
Lemma pres_range_t : forall t, ntasks c <= t -> s_futs s' t = FNone.
Proof.
  grab INV0. clear - Hok STEP0 Hrt Hrf.
  step_cases f Hok STEP0; try assumption; intros t' Ht'; norm; fwd_run Hrf;
    inst_all Hrt; fin; try lia; auto.
Qed.
Lemma pres_run_fut : forall w t i j, s_ws s' w = WRun t i j ->
  t < ntasks c /\ (s_futs s' t = FRunning \/ s_futs s' t = FBroken).
Proof.
  grab INV0. clear - Hok STEP0 Hrf Huq Hsucc Hsub Hrt.
  step_cases f Hok STEP0; try assumption; intros w' t' i' j' Hr; norm; inv_eqs;
    try (specialize (Hsub _ eq_refl); destruct Hsub as (? & Hsub' & ?);
         pose proof (Hsub' _ (le_n _)));
    fwd_run Hrf; fwd_uq Huq; fin; lia'.
Qed.
Lemma pres_uniq : forall w1 w2 t i1 j1 i2 j2,
  s_ws s' w1 = WRun t i1 j1 -> s_ws s' w2 = WRun t i2 j2 -> w1 = w2.
Proof.
  grab INV0. clear - Hok STEP0 Hrf Huq.
  step_cases f Hok STEP0; try assumption; intros w1 w2 t' i1 j1 i2 j2 H1 H2;
    norm; inv_eqs; fwd_run Hrf; fin; lia'; try (eapply Huq; eassumption).
Qed.
End Pres.
