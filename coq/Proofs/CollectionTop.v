(* C14 - the statements of Props/C14.v, for every reachable collection *)
From Coq Require Import ZArith List Bool Lia Permutation.
From SK Require Import Model.Collection Spec.Collection Proofs.CollectionDict
     Proofs.Collection.
Import ListNotations.
Open Scope Z_scope.

Lemma len_is_sum_top cat c :
  reachable cat c ->
  len c = sumZ (map (fun p => Z.of_nat (length (find_by_path c p))) (files c))
  /\ len c = Z.of_nat (length (all c)).
Proof.
  intro H. split; [apply len_sum|apply len_all; now apply (reachable_wf cat)].
Qed.

Lemma all_eq_items_top cat c :
  reachable cat c ->
  all c = concat (map snd (items c)) /\
  map fst (items c) = files c /\ keys c = files c /\
  (forall p l, In (p, l) (items c) -> l = find_by_path c p) /\
  (forall p, In p (files c) -> getitem c p = Some (find_by_path c p)).
Proof.
  intro H. apply (reachable_wf cat) in H.
  split; [now apply all_eq_items|]. rewrite (items_id c H).
  split; [reflexivity|]. split; [now apply keys_files|]. split.
  - intros p l Hin. unfold find_by_path.
    now rewrite (in_dget Z.eqb zeqb_spec c p l H Hin).
  - intros p Hp. unfold getitem. rewrite (data_id c H). unfold find_by_path.
    destruct (dget Z.eqb c p) eqn:E; [reflexivity|].
    apply (dget_none Z.eqb zeqb_spec) in E. contradiction.
Qed.

Lemma by_tag_exact_top cat c t p :
  reachable cat c ->
  find_by_tag c t p = filter (tag_is t) (base c p) /\
  all_sequence_results c p = filter is_seq (base c p).
Proof.
  intro H. apply (reachable_wf cat) in H.
  split; [now apply find_by_tag_exact|now apply all_sequence_results_exact].
Qed.

Lemma path_filter_commutes_top cat c p t d ds :
  reachable cat c -> truthy p = true ->
  find_by_tag c t p = find_by_tag (restrict c p) t 0 /\
  all_sequence_results c p = all_sequence_results (restrict c p) 0 /\
  find_sequence_sections c d p = find_sequence_sections (restrict c p) d 0 /\
  merge_sections c p ds = merge_sections (restrict c p) 0 ds.
Proof.
  intros H Ht. apply path_filter_commutes_lemma; [|assumption].
  now apply (reachable_wf cat).
Qed.

Lemma group_perm d rs :
  Permutation (flat_map snd (group_sections d rs)) (filter (seq_is d) rs).
Proof.
  unfold group_sections. induction rs as [|r rs IH] using rev_ind; simpl;
    [reflexivity|].
  rewrite fold_left_app, filter_app. simpl.
  destruct (seq_is d r).
  - rewrite (dappend_values_perm oz_eqb). now apply Permutation_app_tail.
  - now rewrite app_nil_r.
Qed.

Lemma sections_of_one_definition_top cat c d p :
  reachable cat c ->
  NoDup (map fst (find_sequence_sections c d p)) /\
  (forall k v, In (k, v) (find_sequence_sections c d p) ->
     v <> [] /\ v = filter (sec_is d k) (base c p)) /\
  Permutation (concat (map snd (find_sequence_sections c d p)))
              (filter (seq_is d) (base c p)).
Proof.
  intro H. apply (reachable_wf cat) in H.
  unfold find_sequence_sections.
  rewrite (all_sequence_results_exact c p H).
  destruct (group_spec d (filter is_seq (base c p))) as [Hnd [Hval Hkey]].
  split; [assumption|]. split.
  - intros k v Hin. destruct (Hval k v Hin) as [Hne Hv].
    split; [assumption|]. now rewrite sec_is_filter_seq in Hv.
  - rewrite <- flat_map_concat_map, group_perm.
    rewrite filter_filter_implies; [reflexivity|].
    intros x Hx. now apply (seq_is_is_seq d).
Qed.

Lemma sections_partition_top cat c t p ds :
  reachable cat c -> dget Z.eqb (tagtab cat) t = Some ds ->
  exists secs,
    find_sequence_by_tag cat c t p = Ok secs /\
    NoDup (map fst secs) /\
    (forall k v, In (k, v) secs ->
       v <> [] /\ exists d, In d ds /\ v = filter (sec_is d k) (base c p)) /\
    (NoDup (map uid (base c p)) ->
     NoDup (map uid (concat (map snd secs)))) /\
    (defs_sections_unique ds (base c p) ->
     Permutation (concat (map snd secs)) (filter (in_defs ds) (base c p))) /\
    (fresh_sections c ->
     Permutation (concat (map snd secs)) (filter (in_defs ds) (base c p)) /\
     (truthy p = false ->
      forall k v, In (k, v) secs ->
        exists q, forall r, In r v -> In r (find_by_path c q))).
Proof.
  intros H Ht. apply (reachable_wf cat) in H.
  destruct (sections_partition_lemma cat c t p ds H Ht)
    as [secs [E [Hnd [Hval [Hu Hp]]]]].
  exists secs. repeat (split; [assumption|]).
  intro Hf. split; [apply Hp; now apply fresh_defs_unique|].
  intros Hfalse k v Hin. destruct (Hval k v Hin) as [Hne [d [_ Hv]]].
  unfold base in Hv. rewrite Hfalse in Hv.
  now apply (section_single_path c d k v).
Qed.

Lemma unknown_tag_top cat c t p :
  dget Z.eqb (tagtab cat) t = None ->
  find_sequence_by_tag cat c t p = KeyError.
Proof. intro H. unfold find_sequence_by_tag. now rewrite H. Qed.

Lemma views_of_population_top cat bs :
  let c := build cat bs in
  let pop := arrivals cat bs in
  reachable cat c /\
  (forall p, find_by_path c p = on_path pop p) /\
  Permutation (all c) (map snd pop) /\
  len c = Z.of_nat (length pop).
Proof.
  simpl. split; [apply build_reachable|]. split; [apply find_by_path_build|].
  split; [apply all_build_perm|].
  rewrite len_all by (apply (reachable_wf cat), build_reachable).
  rewrite (Permutation_length (all_build_perm cat bs)).
  now rewrite map_length.
Qed.

Lemma add_preserves_population_top cat c b :
  reachable cat c ->
  reachable cat (add cat c b) /\
  Permutation (all (add cat c b)) (all c ++ b) /\
  (forall p, find_by_path (add cat c b) p =
             find_by_path c p ++ filter (lands_on cat p) b).
Proof.
  intro H. split; [now constructor|]. split; [apply all_add_perm|].
  intro p. apply find_by_path_add.
Qed.
