(* The per-line loop of _run_search, for an arbitrary per-definition handler:
   - what reaches the collection is exactly the stream of handler outputs;
   - the outputs of one definition depend on that definition and the lines
     only (not on the other definitions registered on the file);
   - which lines a definition's handler sees: all of them when it has no
     constraints, otherwise per apply_single's rule, in closed form. *)
From Coq Require Import ZArith List Bool Lia Arith.
From SK Require Import Model.Task Spec.Task Proofs.TaskFlush.
Import ListNotations.
Open Scope Z_scope.

(* ------------------------------------------------------------ dedupe_by *)
Section Dedupe.
  Variable A : Type.
  Variable key : A -> Z.

  Lemma memZ_In x l : memZ x l = true <-> In x l.
  Proof.
    unfold memZ. rewrite existsb_exists. split.
    - intros [y [Hy E]]. apply Z.eqb_eq in E. subst. exact Hy.
    - intros H. exists x. split; [exact H|apply Z.eqb_refl].
  Qed.

  Lemma memZ_false x l : memZ x l = false <-> ~ In x l.
  Proof.
    split; intros H.
    - intros Hi. apply memZ_In in Hi. congruence.
    - destruct (memZ x l) eqn:E; [|reflexivity].
      apply memZ_In in E. contradiction.
  Qed.

  Lemma dedupe_in : forall l seen a,
    In a (dedupe_by key seen l) -> In a l /\ ~ In (key a) seen.
  Proof.
    induction l as [|b l IH]; intros seen a H; simpl in H.
    - contradiction.
    - destruct (memZ (key b) seen) eqn:E.
      + destruct (IH _ _ H) as [H1 H2]. split; [right; exact H1|exact H2].
      + destruct H as [H|H].
        * subst. split; [left; reflexivity|]. apply memZ_false. exact E.
        * destruct (IH _ _ H) as [H1 H2]. split; [right; exact H1|].
          intros Hn. apply H2. right. exact Hn.
  Qed.

  Lemma dedupe_complete : forall l seen a,
    In a l -> ~ In (key a) seen ->
    exists a', In a' (dedupe_by key seen l) /\ key a' = key a.
  Proof.
    induction l as [|b l IH]; intros seen a H Hs; simpl in *.
    - contradiction.
    - destruct (memZ (key b) seen) eqn:E.
      + destruct H as [H|H].
        * subst. apply memZ_In in E. contradiction.
        * apply IH; assumption.
      + destruct H as [H|H].
        * subst. exists a. split; [left; reflexivity|reflexivity].
        * destruct (Z.eq_dec (key a) (key b)) as [Ek|Ek].
          -- exists b. split; [left; reflexivity|symmetry; exact Ek].
          -- destruct (IH (key b :: seen) a H) as [a' [H1 H2]].
             { intros [Hc|Hc]; [symmetry in Hc; contradiction|contradiction]. }
             exists a'. split; [right; exact H1|exact H2].
  Qed.

  Lemma dedupe_nodup : forall l seen,
    NoDup (map key (dedupe_by key seen l)).
  Proof.
    induction l as [|b l IH]; intros seen; simpl.
    - constructor.
    - destruct (memZ (key b) seen) eqn:E.
      + apply IH.
      + simpl. constructor; [|apply IH].
        intros Hin. apply in_map_iff in Hin. destruct Hin as [a [Ha Hi]].
        apply dedupe_in in Hi. destruct Hi as [_ Hi]. apply Hi.
        left. symmetry. exact Ha.
  Qed.

  (* distinct list elements are distinct objects *)
  Definition keys_ok (l : list A) : Prop :=
    forall a b, In a l -> In b l -> key a = key b -> a = b.

  Lemma dedupe_keeps : forall l a,
    keys_ok l -> In a l -> In a (dedupe_by key [] l).
  Proof.
    intros l a Hk Ha.
    destruct (dedupe_complete l [] a Ha) as [a' [H1 H2]]; [intros []|].
    assert (a' = a).
    { apply Hk; [apply (dedupe_in _ _ _ H1)|exact Ha|exact H2]. }
    subst. exact H1.
  Qed.
End Dedupe.

Arguments keys_ok {A}.

Lemma constraints_of_In c cs : In c (constraints_of cs) <-> In c cs.
Proof.
  unfold constraints_of. split.
  - intros H. apply (dedupe_in Z (fun c => c)) in H. tauto.
  - intros H.
    destruct (dedupe_complete Z (fun c => c) cs [] c H) as [c' [H1 H2]].
    + intros [].
    + simpl in H2. subst. exact H1.
Qed.

Lemma forallb_In_ext {A} (f : A -> bool) l1 l2 :
  (forall x, In x l1 <-> In x l2) -> forallb f l1 = forallb f l2.
Proof.
  intros H. destruct (forallb f l1) eqn:E1; destruct (forallb f l2) eqn:E2;
    try reflexivity.
  - rewrite forallb_forall in E1.
    assert (forallb f l2 = true).
    { apply forallb_forall. intros x Hx. apply E1, H, Hx. }
    congruence.
  - rewrite forallb_forall in E2.
    assert (forallb f l1 = true).
    { apply forallb_forall. intros x Hx. apply E2, H, Hx. }
    congruence.
Qed.

Lemma existsb_In_ext {A} (f : A -> bool) l1 l2 :
  (forall x, In x l1 <-> In x l2) -> existsb f l1 = existsb f l2.
Proof.
  intros H. destruct (existsb f l1) eqn:E1; destruct (existsb f l2) eqn:E2;
    try reflexivity.
  - rewrite existsb_exists in E1. destruct E1 as [x [Hx Hf]].
    assert (existsb f l2 = true).
    { apply existsb_exists. exists x. split; [apply H, Hx|exact Hf]. }
    congruence.
  - rewrite existsb_exists in E2. destruct E2 as [x [Hx Hf]].
    assert (existsb f l1 = true).
    { apply existsb_exists. exists x. split; [apply H, Hx|exact Hf]. }
    congruence.
Qed.

Lemma forallb_map' {A B} (f : A -> B) (p : B -> bool) l :
  forallb p (map f l) = forallb (fun x => p (f x)) l.
Proof. induction l as [|a l IH]; simpl; [reflexivity|rewrite IH; reflexivity]. Qed.

Lemma existsb_map' {A B} (f : A -> B) (p : B -> bool) l :
  existsb p (map f l) = existsb (fun x => p (f x)) l.
Proof. induction l as [|a l IH]; simpl; [reflexivity|rewrite IH; reflexivity]. Qed.

Lemma firstn_In' {A} : forall n (l : list A) x, In x (firstn n l) -> In x l.
Proof.
  induction n as [|n IH]; intros l x H; [contradiction|].
  destruct l as [|a l]; [contradiction|]. simpl in H.
  destruct H as [H|H]; [left; exact H|right; apply IH; exact H].
Qed.

(* --------------------------------------------------------- apply_single *)
Lemma apply_single_loop_spec : forall outs a p,
  apply_single_loop outs a p =
  if existsb is_fail outs then (false, false)
  else (a || existsb is_pass outs, p && negb (existsb is_und outs)).
Proof.
  induction outs as [|o outs IH]; intros a p; simpl.
  - rewrite orb_false_r, andb_true_r. reflexivity.
  - destruct o; simpl.
    + rewrite IH. destruct (existsb is_fail outs); [reflexivity|].
      rewrite orb_true_r. reflexivity.
    + reflexivity.
    + rewrite IH. destruct (existsb is_fail outs); [reflexivity|].
      rewrite andb_false_r. reflexivity.
Qed.

(* (line_is_valid, all_constraints_passed) in closed form *)
Lemma apply_single_spec outs :
  apply_single outs =
  match outs with
  | [] => (true, true)
  | _ => if existsb is_fail outs then (false, false)
         else (existsb is_pass outs, negb (existsb is_und outs))
  end.
Proof.
  destruct outs as [|o r]; [reflexivity|].
  unfold apply_single. rewrite apply_single_loop_spec. reflexivity.
Qed.

Lemma three_way o : is_pass o = negb (is_fail o) && negb (is_und o).
Proof. destruct o; reflexivity. Qed.

Lemma forallb_pass outs :
  forallb is_pass outs =
  negb (existsb is_fail outs) && negb (existsb is_und outs).
Proof.
  induction outs as [|o r IH]; simpl; [reflexivity|].
  rewrite IH. destruct o; simpl; try reflexivity.
  rewrite andb_false_r. reflexivity.
Qed.

(* the line is searched AND the definition becomes runnable iff every
   constraint passes *)
Lemma nonempty_some_pass outs :
  outs <> [] -> existsb is_fail outs = false -> existsb is_und outs = false ->
  existsb is_pass outs = true.
Proof.
  destruct outs as [|o r]; [congruence|]. intros _ Hf Hu.
  destruct o; simpl in *; try discriminate. reflexivity.
Qed.

Lemma apply_single_activates outs :
  outs <> [] ->
  (let '(v, a) := apply_single outs in v && a) = forallb is_pass outs.
Proof.
  intros Hne. rewrite apply_single_spec, forallb_pass.
  pose proof (nonempty_some_pass outs Hne) as Hp.
  destruct outs as [|o r]; [congruence|].
  destruct (existsb is_fail (o :: r)); [reflexivity|].
  destruct (existsb is_und (o :: r)).
  - simpl. apply andb_false_r.
  - rewrite Hp by reflexivity. reflexivity.
Qed.

(* never (False, True) with constraints: all_passed implies valid *)
Lemma apply_single_allp_valid outs :
  outs <> [] -> snd (apply_single outs) = true -> fst (apply_single outs) = true.
Proof.
  intros Hne. rewrite apply_single_spec.
  pose proof (nonempty_some_pass outs Hne) as Hp.
  destruct outs as [|o r]; [congruence|].
  destruct (existsb is_fail (o :: r)); [intros H; exact H|].
  cbn [fst snd]. intros Hu. apply Hp; [reflexivity|].
  destruct (existsb is_und (o :: r)); [discriminate|reflexivity].
Qed.

(* ================================================================ loop *)
Section LoopProofs.
  Variable line : Type.
  Variable D : Type.
  Variable St : Type.
  Variable R : Type.
  Variable key : D -> Z.
  Variable cons : D -> list Z.
  Variable ocon : Z -> line -> outcome.
  Variable init : D -> St.
  Variable step : D -> St -> Z -> line -> St * list R.
  Variable post : list (D * St) -> Z -> list R.
  Variable MAX : Z.
  Variable NBUF : Z.
  Variable rkey : R -> Z.      (* which definition a result belongs to *)

  Notation sstep := (slot_step line D St R cons ocon step).
  Notation pushR := (push R MAX NBUF).
  Notation slotT := (slot D St).

  Definition skey (s : slotT) : Z := key (sl_def s).

  (* the handler labels its results with its definition *)
  Definition step_keyed : Prop :=
    forall d st ln l, Forall (fun r => rkey r = key d) (snd (step d st ln l)).

  (* --- pure description of the loop: new slots + outputs in order --- *)
  Definition slots_pure (ln : Z) (l : line) (sls : list slotT)
    : list slotT * list R :=
    (map (fun s => fst (sstep ln l s)) sls,
     flat_map (fun s => snd (sstep ln l s)) sls).

  Fixpoint lines_pure (ln : Z) (lines : list line) (sls : list slotT)
    : list slotT * list R * Z :=
    match lines with
    | [] => (sls, [], ln)
    | l :: r =>
        let '(sls', o) := slots_pure (ln + 1) l sls in
        let '(sls'', o', n) := lines_pure (ln + 1) r sls' in
        (sls'', o ++ o', n)
    end.

  (* everything the task emits for a file, in order *)
  Definition emitted_lines (ds : list D) (lines : list line) : list R :=
    snd (fst (lines_pure 0 lines (search_defs D St key cons init ds))).
  Definition final_slots (ds : list D) (lines : list line) : list slotT :=
    fst (fst (lines_pure 0 lines (search_defs D St key cons init ds))).
  Definition emitted (ds : list D) (lines : list line) : list R :=
    emitted_lines ds lines ++
    post (slot_states D St (final_slots ds lines)) (Z.of_nat (length lines)).

  Lemma slots_step_pure : forall ln l sls st,
    1 <= MAX -> Inv MAX st ->
    let '(sls', st') :=
      slots_step line D St R cons ocon step MAX NBUF ln l sls st in
    sls' = fst (slots_pure ln l sls) /\ Inv MAX st' /\
    out st' = out st ++ snd (slots_pure ln l sls).
  Proof.
    intros ln l sls. induction sls as [|s r IH]; intros st HM Hi.
    - simpl. rewrite app_nil_r. auto.
    - simpl. destruct (sstep ln l s) as [s' o] eqn:Es.
      destruct (pushes_inv R MAX NBUF o st HM Hi) as [H1 H2].
      specialize (IH (fold_left pushR o st) HM H1).
      destruct (slots_step line D St R cons ocon step MAX NBUF ln l r
                           (fold_left pushR o st)) as [r' st''].
      destruct IH as [I1 [I2 I3]]. simpl in *. split; [|split].
      + rewrite I1. reflexivity.
      + exact I2.
      + rewrite I3, H2, <- app_assoc. reflexivity.
  Qed.

  Lemma lines_loop_pure : forall lines ln sls st,
    1 <= MAX -> Inv MAX st ->
    let '(sls', st', n) :=
      lines_loop line D St R cons ocon step MAX NBUF ln lines sls st in
    sls' = fst (fst (lines_pure ln lines sls)) /\ Inv MAX st' /\
    out st' = out st ++ snd (fst (lines_pure ln lines sls)) /\
    n = snd (lines_pure ln lines sls).
  Proof.
    induction lines as [|l r IH]; intros ln sls st HM Hi.
    - simpl. rewrite app_nil_r. auto.
    - simpl.
      pose proof (slots_step_pure (ln + 1) l sls st HM Hi) as Hs.
      destruct (slots_step line D St R cons ocon step MAX NBUF (ln + 1) l
                           sls st) as [sls1 st1].
      destruct Hs as [S1 [S2 S3]].
      specialize (IH (ln + 1) sls1 st1 HM S2).
      destruct (lines_loop line D St R cons ocon step MAX NBUF (ln + 1) r
                           sls1 st1) as [[sls2 st2] n2].
      destruct IH as [I1 [I2 [I3 I4]]].
      unfold slots_pure in *. simpl in S1, S3. subst sls1.
      destruct (lines_pure (ln + 1) r
                  (map (fun s => fst (sstep (ln + 1) l s)) sls))
        as [[a b] c] eqn:El.
      simpl in *. split; [exact I1|split; [exact I2|split; [|exact I4]]].
      rewrite I3, S3, <- app_assoc. reflexivity.
  Qed.

  Lemma lines_pure_last : forall lines ln sls,
    snd (lines_pure ln lines sls) = ln + Z.of_nat (length lines).
  Proof.
    induction lines as [|l r IH]; intros ln sls.
    - simpl. lia.
    - cbn [lines_pure]. unfold slots_pure.
      specialize (IH (ln + 1) (map (fun s => fst (sstep (ln + 1) l s)) sls)).
      destruct (lines_pure (ln + 1) r _) as [[a b] c]. simpl in *.
      rewrite IH. lia.
  Qed.

  (* the collection receives exactly the emitted stream, in batches of
     1..MAX, and the task terminates *)
  Theorem execute_exact : forall ds lines,
    1 <= MAX ->
    exists bs,
      execute line D St R key cons ocon init step post MAX NBUF ds lines
      = TaskOk bs /\
      concat bs = emitted ds lines /\ Forall (batch_ok MAX) bs.
  Proof.
    intros ds lines HM. unfold execute, run_search.
    assert (H0 : Inv MAX (@mkT R [] [] false)).
    { split; [reflexivity|constructor]. }
    pose proof (lines_loop_pure lines 0 (search_defs D St key cons init ds)
                                (mkT [] [] false) HM H0) as Hl.
    destruct (lines_loop line D St R cons ocon step MAX NBUF 0 lines
                (search_defs D St key cons init ds) (mkT [] [] false))
      as [[sls st] n].
    destruct Hl as [L1 [L2 [L3 L4]]].
    destruct (pushes_inv R MAX NBUF (post (slot_states D St sls) n) st HM L2)
      as [P1 P2].
    destruct (flush_inv R MAX _ HM P1) as [[F1 F2] [F3 F4]].
    rewrite F1. eexists. split; [reflexivity|]. split; [|exact F2].
    match goal with |- concat (t_coll ?f) = _ =>
      assert (Hc : concat (t_coll f) = out f)
        by (unfold out; rewrite F4, app_nil_r; reflexivity) end.
    rewrite Hc, F3, P2, L3.
    unfold out. simpl. unfold emitted, emitted_lines, final_slots.
    rewrite L1, L4, lines_pure_last. reflexivity.
  Qed.

  (* --- one definition on its own --- *)
  Fixpoint slot_traj (ln : Z) (lines : list line) (s : slotT)
    : slotT * list R :=
    match lines with
    | [] => (s, [])
    | l :: r =>
        let '(s', o) := sstep (ln + 1) l s in
        let '(s'', o') := slot_traj (ln + 1) r s' in
        (s'', o ++ o')
    end.

  Lemma sstep_def ln l s : sl_def (fst (sstep ln l s)) = sl_def s.
  Proof.
    unfold slot_step. destruct (sl_run s).
    - destruct (step (sl_def s) (sl_st s) ln l). reflexivity.
    - destruct (apply_single _) as [v a]. destruct v.
      + destruct (step (sl_def s) (sl_st s) ln l). reflexivity.
      + reflexivity.
  Qed.

  Lemma sstep_keyed ln l s :
    step_keyed -> Forall (fun r => rkey r = skey s) (snd (sstep ln l s)).
  Proof.
    intros Hk. unfold slot_step, skey. destruct (sl_run s).
    - pose proof (Hk (sl_def s) (sl_st s) ln l) as H.
      destruct (step (sl_def s) (sl_st s) ln l). exact H.
    - destruct (apply_single _) as [v a]. destruct v.
      + pose proof (Hk (sl_def s) (sl_st s) ln l) as H.
        destruct (step (sl_def s) (sl_st s) ln l). exact H.
      + constructor.
  Qed.

  Definition keyb (k : Z) (r : R) : bool := rkey r =? k.

  Lemma filter_all_key k rs :
    Forall (fun r => rkey r = k) rs -> filter (keyb k) rs = rs.
  Proof.
    induction 1 as [|r rs Hr _ IH]; simpl; [reflexivity|].
    unfold keyb at 1. rewrite Hr, Z.eqb_refl, IH. reflexivity.
  Qed.

  Lemma filter_other_key k k' rs :
    k <> k' -> Forall (fun r => rkey r = k') rs -> filter (keyb k) rs = [].
  Proof.
    intros Hne. induction 1 as [|r rs Hr _ IH]; simpl; [reflexivity|].
    unfold keyb at 1. rewrite Hr.
    destruct (k' =? k) eqn:E; [apply Z.eqb_eq in E; congruence|exact IH].
  Qed.

  Lemma filter_flat_map_none (f : slotT -> list R) : forall sls k,
    ~ In k (map skey sls) ->
    (forall x, In x sls -> Forall (fun r => rkey r = skey x) (f x)) ->
    filter (keyb k) (flat_map f sls) = [].
  Proof.
    induction sls as [|x sls IH]; intros k Hn Hf; [reflexivity|].
    simpl. rewrite filter_app, (filter_other_key k (skey x)).
    - simpl. apply IH.
      + intros Hc. apply Hn. right. exact Hc.
      + intros z Hz. apply Hf. right. exact Hz.
    - intros Hc. apply Hn. left. symmetry. exact Hc.
    - apply Hf. left. reflexivity.
  Qed.

  Lemma filter_flat_map_single (f : slotT -> list R) : forall sls s,
    NoDup (map skey sls) -> In s sls ->
    (forall x, In x sls -> Forall (fun r => rkey r = skey x) (f x)) ->
    filter (keyb (skey s)) (flat_map f sls) = f s.
  Proof.
    induction sls as [|x sls IH]; intros s Hnd Hin Hf; [contradiction|].
    simpl. rewrite filter_app. inversion Hnd as [|? ? Hx Hnd']; subst.
    destruct Hin as [Hin|Hin].
    - subst x. rewrite filter_all_key by (apply Hf; left; reflexivity).
      rewrite (filter_flat_map_none f sls (skey s) Hx).
      + apply app_nil_r.
      + intros z Hz. apply Hf. right. exact Hz.
    - rewrite (filter_other_key (skey s) (skey x)).
      + simpl. apply IH; [exact Hnd'|exact Hin|].
        intros z Hz. apply Hf. right. exact Hz.
      + intros Hc. apply Hx. rewrite <- Hc. apply in_map. exact Hin.
      + apply Hf. left. reflexivity.
  Qed.

  Lemma map_skey_step ln l sls :
    map skey (map (fun s => fst (sstep ln l s)) sls) = map skey sls.
  Proof.
    rewrite map_map. apply map_ext. intros s. unfold skey.
    rewrite sstep_def. reflexivity.
  Qed.

  (* the slots evolve independently *)
  Lemma lines_pure_slots : forall lines ln sls,
    fst (fst (lines_pure ln lines sls)) =
    map (fun s => fst (slot_traj ln lines s)) sls.
  Proof.
    induction lines as [|l r IH]; intros ln sls.
    - simpl. rewrite map_id. reflexivity.
    - cbn [lines_pure]. unfold slots_pure.
      specialize (IH (ln + 1) (map (fun s => fst (sstep (ln + 1) l s)) sls)).
      destruct (lines_pure (ln + 1) r _) as [[a b] c]. simpl in *.
      rewrite IH, map_map. apply map_ext. intros s.
      destruct (sstep (ln + 1) l s) as [s' o]. simpl.
      destruct (slot_traj (ln + 1) r s'). reflexivity.
  Qed.

  (* the results of one definition = its own trajectory, whatever the other
     definitions are *)
  Lemma lines_pure_filter : forall lines ln sls s,
    step_keyed -> NoDup (map skey sls) -> In s sls ->
    filter (keyb (skey s)) (snd (fst (lines_pure ln lines sls))) =
    snd (slot_traj ln lines s).
  Proof.
    induction lines as [|l r IH]; intros ln sls s Hk Hnd Hin.
    - reflexivity.
    - cbn [lines_pure slot_traj]. unfold slots_pure.
      set (sls' := map (fun s => fst (sstep (ln + 1) l s)) sls).
      assert (Hin' : In (fst (sstep (ln + 1) l s)) sls').
      { unfold sls'. apply in_map_iff. exists s. auto. }
      assert (Hnd' : NoDup (map skey sls')).
      { unfold sls'. rewrite map_skey_step. exact Hnd. }
      specialize (IH (ln + 1) sls' (fst (sstep (ln + 1) l s)) Hk Hnd' Hin').
      destruct (lines_pure (ln + 1) r sls') as [[a b] c]. simpl in *.
      rewrite filter_app.
      rewrite (filter_flat_map_single
                 (fun s => snd (sstep (ln + 1) l s)) sls s Hnd Hin).
      + unfold skey in IH at 1. rewrite sstep_def in IH. fold (skey s) in IH.
        rewrite IH.
        destruct (sstep (ln + 1) l s) as [s' o]. simpl.
        destruct (slot_traj (ln + 1) r s'). reflexivity.
      + intros x _. apply sstep_keyed. exact Hk.
  Qed.

  Lemma lines_pure_filter_none : forall lines ln sls k,
    step_keyed -> ~ In k (map skey sls) ->
    filter (keyb k) (snd (fst (lines_pure ln lines sls))) = [].
  Proof.
    induction lines as [|l r IH]; intros ln sls k Hk Hn.
    - reflexivity.
    - cbn [lines_pure]. unfold slots_pure.
      set (sls' := map (fun s => fst (sstep (ln + 1) l s)) sls).
      assert (Hn' : ~ In k (map skey sls')).
      { unfold sls'. rewrite map_skey_step. exact Hn. }
      specialize (IH (ln + 1) sls' k Hk Hn').
      destruct (lines_pure (ln + 1) r sls') as [[a b] c]. simpl in *.
      rewrite filter_app, IH, app_nil_r.
      apply filter_flat_map_none; [exact Hn|].
      intros x _. apply sstep_keyed. exact Hk.
  Qed.

  (* --- which lines does the handler of a definition see? --- *)
  (* literally as the code decides *)
  Fixpoint visible (run : bool) (d : D) (nl : list (Z * line))
    : list (Z * line) :=
    match nl with
    | [] => []
    | (i, l) :: r =>
        if run then (i, l) :: visible true d r
        else
          let '(valid, allp) := apply_single (outcomes line D cons ocon d l) in
          if valid then (i, l) :: visible allp d r else visible false d r
    end.

  (* the handler run over a list of numbered lines *)
  Fixpoint hrun (d : D) (st : St) (nl : list (Z * line)) : St * list R :=
    match nl with
    | [] => (st, [])
    | (i, l) :: r =>
        let '(st', o) := step d st i l in
        let '(st'', o') := hrun d st' r in
        (st'', o ++ o')
    end.

  Lemma slot_traj_visible : forall lines ln s,
    let t := slot_traj ln lines s in
    let h := hrun (sl_def s) (sl_st s)
                  (visible (sl_run s) (sl_def s) (enum (ln + 1) lines)) in
    snd t = snd h /\ sl_st (fst t) = fst h /\ sl_def (fst t) = sl_def s.
  Proof.
    induction lines as [|l r IH]; intros ln s.
    - simpl. auto.
    - cbn [slot_traj enum visible]. unfold slot_step.
      destruct (sl_run s) eqn:Er.
      + destruct (step (sl_def s) (sl_st s) (ln + 1) l) as [st' o] eqn:Es.
        specialize (IH (ln + 1) (mkSlot (sl_def s) true st')).
        cbn [sl_def sl_st sl_run] in IH.
        destruct (slot_traj (ln + 1) r (mkSlot (sl_def s) true st')).
        cbn [hrun]. rewrite Es.
        destruct (hrun (sl_def s) st' _). simpl in *.
        destruct IH as [I1 [I2 I3]]. subst. auto.
      + destruct (apply_single (outcomes line D cons ocon (sl_def s) l))
          as [v a].
        destruct v.
        * destruct (step (sl_def s) (sl_st s) (ln + 1) l) as [st' o] eqn:Es.
          specialize (IH (ln + 1) (mkSlot (sl_def s) a st')).
          cbn [sl_def sl_st sl_run] in IH.
          destruct (slot_traj (ln + 1) r (mkSlot (sl_def s) a st')).
          cbn [hrun]. rewrite Es.
          destruct (hrun (sl_def s) st' _). simpl in *.
          destruct IH as [I1 [I2 I3]]. subst. auto.
        * specialize (IH (ln + 1) s). rewrite Er in IH.
          destruct (slot_traj (ln + 1) r s). simpl in *. exact IH.
  Qed.

  Lemma visible_true d nl : visible true d nl = nl.
  Proof.
    induction nl as [|[i l] r IH]; simpl; [reflexivity|].
    rewrite IH. reflexivity.
  Qed.

  (* closed form of the code's rule.  For a line met while not yet runnable:
       activates  = line_is_valid and all_constraints_passed
       pre_search = line_is_valid and not all_constraints_passed
                    (searched although the definition stays inactive) *)
  Definition activates (d : D) (l : line) : bool :=
    let '(v, a) := apply_single (outcomes line D cons ocon d l) in v && a.
  Definition pre_search (d : D) (l : line) : bool :=
    let '(v, a) := apply_single (outcomes line D cons ocon d l) in
    v && negb a.

  Fixpoint code_active_from (d : D) (lines : list line) : nat :=
    match lines with
    | [] => O
    | l :: r => if activates d l then O else S (code_active_from d r)
    end.

  Lemma visible_false_closed : forall lines i d,
    has_constraints D cons d = true ->
    visible false d (enum i lines) =
    filter (fun il => pre_search d (snd il))
           (firstn (code_active_from d lines) (enum i lines)) ++
    skipn (code_active_from d lines) (enum i lines).
  Proof.
    intros lines i d Hc. revert i.
    induction lines as [|l r IH]; intros i; [reflexivity|].
    cbn [enum visible code_active_from].
    assert (Hne : outcomes line D cons ocon d l <> []).
    { unfold outcomes, has_constraints in *.
      destruct (constraints_of (cons d)); [discriminate|discriminate]. }
    pose proof (apply_single_allp_valid _ Hne) as Hav.
    destruct (apply_single (outcomes line D cons ocon d l)) as [v a] eqn:Ea.
    assert (Hact : activates d l = v && a)
      by (unfold activates; rewrite Ea; reflexivity).
    assert (Hpre : pre_search d l = v && negb a)
      by (unfold pre_search; rewrite Ea; reflexivity).
    rewrite Hact. simpl in Hav.
    destruct v; destruct a; cbn [andb negb] in *.
    - cbn [firstn skipn filter app]. rewrite visible_true. reflexivity.
    - cbn [firstn skipn filter snd]. rewrite Hpre, IH. reflexivity.
    - specialize (Hav eq_refl). discriminate.
    - cbn [firstn skipn filter snd]. rewrite Hpre, IH. reflexivity.
  Qed.

  (* the same in the property's words *)
  Lemma activates_all_pass d l :
    has_constraints D cons d = true ->
    activates d l = all_pass line ocon (cons d) l.
  Proof.
    intros Hc. unfold activates.
    assert (Hne : outcomes line D cons ocon d l <> []).
    { unfold outcomes, has_constraints in *.
      destruct (constraints_of (cons d)); [discriminate|discriminate]. }
    rewrite (apply_single_activates _ Hne). unfold outcomes, all_pass.
    rewrite forallb_map'.
    apply forallb_In_ext. intros c. apply constraints_of_In.
  Qed.

  Lemma code_active_from_spec d lines :
    has_constraints D cons d = true ->
    code_active_from d lines = active_from line ocon (cons d) lines.
  Proof.
    intros Hc. induction lines as [|l r IH]; simpl; [reflexivity|].
    rewrite (activates_all_pass d l Hc), IH. reflexivity.
  Qed.

  Lemma pre_search_uniform d l :
    uniform_line line ocon (cons d) l = true -> pre_search d l = false.
  Proof.
    unfold uniform_line, pre_search, outcomes. intros Hu.
    rewrite apply_single_spec.
    destruct (map (fun c => ocon c l) (constraints_of (cons d)))
      as [|o r] eqn:Eo; [reflexivity|].
    rewrite <- Eo. clear o r Eo.
    destruct (existsb is_fail _) eqn:Ef; [reflexivity|].
    rewrite negb_involutive.
    rewrite !existsb_map'.
    rewrite (existsb_In_ext (fun c => is_und (ocon c l))
                            (constraints_of (cons d)) (cons d))
      by (intros c; apply constraints_of_In).
    rewrite (existsb_In_ext (fun c => is_pass (ocon c l))
                            (constraints_of (cons d)) (cons d))
      by (intros c; apply constraints_of_In).
    destruct (existsb (fun c => is_und (ocon c l)) (cons d)) eqn:Eu;
      [|apply andb_false_r].
    rewrite andb_true_r. simpl in Hu. rewrite orb_false_r in Hu.
    destruct (existsb (fun c => is_pass (ocon c l)) (cons d)) eqn:Ep;
      [|reflexivity].
    apply existsb_exists in Ep. destruct Ep as [c [Hc Hp]].
    rewrite forallb_forall in Hu. specialize (Hu c Hc).
    destruct (ocon c l); discriminate.
  Qed.

  Lemma no_constraints_all_pass d l :
    has_constraints D cons d = false -> all_pass line ocon (cons d) l = true.
  Proof.
    unfold has_constraints, all_pass. intros H.
    apply forallb_forall. intros c Hc. apply constraints_of_In in Hc.
    destruct (constraints_of (cons d)); [contradiction|discriminate].
  Qed.

  (* the lines the handler of a freshly initialised definition sees:
     under uniform undecidedness, exactly those from the first line on which
     all its constraints pass *)
  Lemma visible_init_uniform d lines i :
    uniform line ocon (cons d) lines ->
    visible (negb (has_constraints D cons d)) d (enum i lines) =
    visible_spec line ocon (cons d) lines (enum i lines).
  Proof.
    intros Hu. unfold visible_spec.
    destruct (has_constraints D cons d) eqn:Hc; simpl.
    - rewrite (visible_false_closed lines i d Hc).
      rewrite <- (code_active_from_spec d lines Hc).
      assert (Hf : forall nl : list (Z * line),
                 (forall il, In il nl -> In (snd il) lines) ->
                 filter (fun il => pre_search d (snd il)) nl = []).
      { induction nl as [|x nl IHn]; intros Hin; [reflexivity|].
        simpl. rewrite (pre_search_uniform d (snd x)).
        - apply IHn. intros il H. apply Hin. right. exact H.
        - apply Hu. apply Hin. left. reflexivity. }
      rewrite Hf; [reflexivity|].
      intros il Hil. apply firstn_In' in Hil.
      clear - Hil. revert i Hil.
      induction lines as [|l r IH]; intros i Hil; simpl in *; [contradiction|].
      destruct Hil as [H|H]; [subst; left; reflexivity|right; eapply IH; eauto].
    - rewrite visible_true.
      destruct lines as [|l r]; [reflexivity|].
      simpl. rewrite (no_constraints_all_pass d l Hc). reflexivity.
  Qed.

  (* once runnable, runnable for the rest of the file *)
  Lemma sstep_sticky ln l s :
    sl_run s = true -> sl_run (fst (sstep ln l s)) = true.
  Proof.
    intros H. unfold slot_step. rewrite H.
    destruct (step (sl_def s) (sl_st s) ln l). reflexivity.
  Qed.

  Lemma slot_traj_sticky : forall lines ln s,
    sl_run s = true -> sl_run (fst (slot_traj ln lines s)) = true.
  Proof.
    induction lines as [|l r IH]; intros ln s H; [exact H|].
    cbn [slot_traj].
    pose proof (sstep_sticky (ln + 1) l s H) as H1.
    destruct (sstep (ln + 1) l s) as [s' o]. simpl in H1.
    specialize (IH (ln + 1) s' H1).
    destruct (slot_traj (ln + 1) r s'). exact IH.
  Qed.

  (* ... and then every later line reaches the handler *)
  Lemma slot_traj_runnable_sees_all lines ln s :
    sl_run s = true ->
    snd (slot_traj ln lines s) =
    snd (hrun (sl_def s) (sl_st s) (enum (ln + 1) lines)).
  Proof.
    intros H. destruct (slot_traj_visible lines ln s) as [H1 _].
    rewrite H1, H, visible_true. reflexivity.
  Qed.

  (* --- assembling: results of d in what the task emits --- *)
  Lemma init_slot_in ds d :
    keys_ok key ds -> In d ds ->
    In (init_slot D St cons init d) (search_defs D St key cons init ds).
  Proof.
    intros Hk Hd. unfold search_defs. apply in_map.
    apply dedupe_keeps; assumption.
  Qed.

  Lemma search_defs_nodup ds :
    NoDup (map skey (search_defs D St key cons init ds)).
  Proof.
    unfold search_defs. rewrite map_map. unfold skey, init_slot. simpl.
    apply dedupe_nodup.
  Qed.

  (* results of definition d among the line-loop outputs: the handler of d
     run over the lines visible to d - no other definition occurs *)
  Theorem results_of_def : forall ds lines d,
    step_keyed -> keys_ok key ds -> In d ds ->
    filter (keyb (key d)) (emitted_lines ds lines) =
    snd (hrun d (init d)
              (visible (negb (has_constraints D cons d)) d (enum 1 lines))).
  Proof.
    intros ds lines d Hk Hko Hd. unfold emitted_lines.
    pose proof (lines_pure_filter lines 0
                  (search_defs D St key cons init ds)
                  (init_slot D St cons init d) Hk (search_defs_nodup ds)
                  (init_slot_in ds d Hko Hd)) as H.
    unfold skey in H at 1. simpl in H. rewrite H.
    destruct (slot_traj_visible lines 0 (init_slot D St cons init d))
      as [H1 _].
    rewrite H1. reflexivity.
  Qed.

  (* the final handler state of d (input of the end-of-file pass) *)
  Theorem final_state_of_def : forall ds lines d,
    keys_ok key ds -> In d ds ->
    In (d, fst (hrun d (init d)
                     (visible (negb (has_constraints D cons d)) d
                              (enum 1 lines))))
       (slot_states D St (final_slots ds lines)).
  Proof.
    intros ds lines d Hko Hd. unfold final_slots, slot_states.
    rewrite lines_pure_slots, map_map.
    apply in_map_iff. exists (init_slot D St cons init d).
    split; [|apply init_slot_in; assumption].
    destruct (slot_traj_visible lines 0 (init_slot D St cons init d))
      as [_ [H2 H3]].
    simpl in *. rewrite H2, H3. reflexivity.
  Qed.

  Theorem results_of_unregistered : forall ds lines k,
    step_keyed -> ~ In k (map key ds) ->
    filter (keyb k) (emitted_lines ds lines) = [].
  Proof.
    intros ds lines k Hk Hn. unfold emitted_lines.
    apply lines_pure_filter_none; [exact Hk|].
    intros Hc. apply Hn. unfold search_defs in Hc. rewrite map_map in Hc.
    apply in_map_iff in Hc. destruct Hc as [d [H1 H2]].
    apply dedupe_in in H2. destruct H2 as [H2 _].
    apply in_map_iff. exists d. split; [exact H1|exact H2].
  Qed.
End LoopProofs.

(* ------------------------------------------------------- apply_global *)
Lemma intersects_true a b :
  (exists x, In x a /\ In x b) -> intersects a b = true.
Proof.
  intros [x [Ha Hb]]. unfold intersects. apply existsb_exists.
  exists x. split; [exact Ha|]. apply memZ_In. exact Hb.
Qed.

Lemma apply_global_restricted {G} (atf : G -> nat -> option Z * nat)
      globals restrictions ids :
  (exists x, In x restrictions /\ In x ids) ->
  apply_global atf globals restrictions ids = (0, 0%nat, []).
Proof.
  intros H. unfold apply_global. destruct globals; [reflexivity|].
  rewrite (intersects_true _ _ H). reflexivity.
Qed.

Lemma enum_skipn {A} : forall k (ls : list A) i,
  skipn k (enum i ls) = enum (i + Z.of_nat k) (skipn k ls).
Proof.
  induction k as [|k IH]; intros ls i.
  - simpl. rewrite Z.add_0_r. reflexivity.
  - destruct ls as [|l r]; [reflexivity|].
    cbn [enum skipn]. rewrite IH. f_equal. lia.
Qed.
