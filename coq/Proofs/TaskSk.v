(* C01 / C07 - T1: running the source's control skeletons of SearchDef.run,
   apply_single and _flush_results_buffer with the interpreter of
   Model/TaskSk.v gives exactly the model functions of Model/Task.v, for all
   inputs. *)
From Coq Require Import String ZArith List Bool Lia Arith.
From SK Require Import Model.Skel Model.Stm Model.SequenceSk Model.Task
     Model.TaskSk.
Import ListNotations.
Open Scope Z_scope.

(* ------------------------------------------------------ SearchDef.run *)
Section SearchDefRun.
  Variable line : Type.
  Variable omatch : Z -> line -> option (list Z).
  Variable ohint : Z -> line -> bool.
  Variable l : line.

  Lemma for_iter_patterns (run : rst -> xres rst) :
    (forall s, run s =
       if is_some (omatch (rs_cur s) l)
       then XOk (mkRst (rs_hint s) (omatch (rs_cur s) l) (rs_cur s)
                       (rs_out s)) CBrk
       else XOk (mkRst (rs_hint s) (omatch (rs_cur s) l) (rs_cur s)
                       (rs_out s)) CNorm) ->
    forall pats s, rs_ret s = None ->
    exists c,
      for_iter rst run
        (map (fun (p : Z) (s : rst) =>
                mkRst (rs_hint s) (rs_ret s) p (rs_out s)) pats) s =
      XOk (mkRst (rs_hint s) (first_match line omatch pats l) c (rs_out s))
          CNorm.
  Proof.
    intros Hrun pats. induction pats as [|p r IH]; intros s Hs.
    - exists (rs_cur s). destruct s; simpl in *; subst; reflexivity.
    - cbn [map for_iter first_match]. rewrite Hrun. cbn [rs_cur rs_hint rs_out].
      destruct (omatch p l) as [g|] eqn:Eg; cbn [is_some].
      + exists p. reflexivity.
      + destruct (IH (mkRst (rs_hint s) None p (rs_out s)) eq_refl)
          as [c Hc].
        exists c. exact Hc.
  Qed.

  Theorem searchdef_tree_is_sd_run d gate leaves :
    (forall h n, gate h n = h) -> (forall m, leaves m = m) ->
    run_searchdef_tree line omatch ohint d l gate leaves x_searchdef_run =
    Some (sd_run line omatch ohint d l).
  Proof.
    intros Hgate Hleaves.
    unfold run_searchdef_tree, x_searchdef_run, sd_run.
    cbn -[for_iter]. rewrite Hgate.
    assert (Hloop : forall s, rs_ret s = None -> rs_out s = None ->
      match
        for_iter rst
          (fun s0 : rst =>
             match
               (if leaves (is_some (omatch (rs_cur s0) l))
                then XOk (mkRst (rs_hint s0) (omatch (rs_cur s0) l)
                                (rs_cur s0) (rs_out s0)) CBrk
                else XOk (mkRst (rs_hint s0) (omatch (rs_cur s0) l)
                                (rs_cur s0) (rs_out s0)) CNorm)
             with
             | XOk s1 CNorm => XOk s1 CNorm
             | other => other
             end)
          (map (fun (p : Z) (s0 : rst) =>
                  mkRst (rs_hint s0) (rs_ret s0) p (rs_out s0)) (s_pats d)) s
      with
      | XOk s1 CNorm => rs_ret s1 = first_match line omatch (s_pats d) l
      | _ => False
      end).
    { intros s Hr Ho.
      match goal with
      | |- context [for_iter rst ?run ?steps s] =>
          assert (Hrun : forall s0, run s0 =
                    if is_some (omatch (rs_cur s0) l)
                    then XOk (mkRst (rs_hint s0) (omatch (rs_cur s0) l)
                                    (rs_cur s0) (rs_out s0)) CBrk
                    else XOk (mkRst (rs_hint s0) (omatch (rs_cur s0) l)
                                    (rs_cur s0) (rs_out s0)) CNorm)
            by (intros s0; rewrite Hleaves;
                destruct (omatch (rs_cur s0) l); reflexivity);
          destruct (for_iter_patterns run Hrun (s_pats d) s Hr) as [c Hc];
          rewrite Hc
      end.
      reflexivity. }
    destruct (s_hint d) as [h|]; cbn -[for_iter].
    - destruct (ohint h l); cbn -[for_iter]; [|reflexivity].
      match goal with
      | |- context [for_iter rst ?run ?steps ?s] =>
          specialize (Hloop s eq_refl eq_refl);
          destruct (for_iter rst run steps s) as [s1 c| |]
      end; try contradiction.
      destruct c; try contradiction. cbn. rewrite Hloop. reflexivity.
    - match goal with
      | |- context [for_iter rst ?run ?steps ?s] =>
          specialize (Hloop s eq_refl eq_refl);
          destruct (for_iter rst run steps s) as [s1 c| |]
      end; try contradiction.
      destruct c; try contradiction. cbn. rewrite Hloop. reflexivity.
  Qed.
End SearchDefRun.

(* ------------------------------------------------------- apply_single *)
(* None = a constraint failed (early return) *)
Fixpoint loop_res (outs : list outcome) (fl : bool * bool)
  : option (bool * bool) :=
  match outs with
  | [] => Some fl
  | Pass :: r => loop_res r (true, snd fl)
  | Undecided :: r => loop_res r (fst fl, false)
  | Fail :: _ => None
  end.

Lemma apply_single_loop_res : forall outs a p,
  apply_single_loop outs a p =
  match loop_res outs (a, p) with Some fl => fl | None => (false, false) end.
Proof.
  induction outs as [|o r IH]; intros a p; simpl; [reflexivity|].
  destruct o; simpl; [apply IH|reflexivity|apply IH].
Qed.

Section ApplySingle.
  Notation src := as_src_model.

  Definition as_run_spec (s : ast_) : xres ast_ :=
    match as_cur s with
    | Pass => XOk (mkAst (true, snd (as_flags s)) Pass true (as_out s)) CCont
    | Fail => XOk (mkAst (as_flags s) Fail false (Some (false, false))) CRet
    | Undecided =>
        XOk (mkAst (fst (as_flags s), false) Undecided (as_truth s)
                   (as_out s)) CCont
    end.

  Lemma for_iter_constraints (run : ast_ -> xres ast_) :
    (forall s, run s = as_run_spec s) ->
    forall outs s,
    exists s',
      match loop_res outs (as_flags s) with
      | Some fl =>
          for_iter ast_ run
            (map (fun (o : outcome) (s : ast_) =>
                    mkAst (as_flags s) o (as_truth s) (as_out s)) outs) s
          = XOk s' CNorm /\ as_flags s' = fl /\ as_out s' = as_out s
      | None =>
          for_iter ast_ run
            (map (fun (o : outcome) (s : ast_) =>
                    mkAst (as_flags s) o (as_truth s) (as_out s)) outs) s
          = XOk s' CRet /\ as_out s' = Some (false, false)
      end.
  Proof.
    intros Hrun outs. induction outs as [|o r IH]; intros s.
    - exists s. simpl. auto.
    - cbn [map for_iter loop_res]. rewrite Hrun. unfold as_run_spec.
      cbn [as_cur as_flags as_truth as_out].
      destruct o.
      + specialize (IH (mkAst (true, snd (as_flags s)) Pass true (as_out s))).
        cbn [as_flags as_out] in IH. exact IH.
      + eexists. split; reflexivity.
      + specialize (IH (mkAst (fst (as_flags s), false) Undecided
                              (as_truth s) (as_out s))).
        cbn [as_flags as_out] in IH. exact IH.
  Qed.

  Theorem apply_single_tree_is_apply_single outs :
    run_apply_single_tree src outs x_apply_single = Some (apply_single outs).
  Proof.
    unfold run_apply_single_tree, x_apply_single.
    destruct outs as [|o r]; [reflexivity|].
    assert (Hm : apply_single (o :: r) =
                 match loop_res (o :: r) (false, true) with
                 | Some fl => fl | None => (false, false) end).
    { unfold apply_single. apply apply_single_loop_res. }
    rewrite Hm. clear Hm.
    remember (loop_res (o :: r) (false, true)) as lr eqn:Elr.
    cbn -[for_iter map].
    match goal with
    | |- context [for_iter ast_ ?run (map ?b ?os) ?s] =>
        assert (Hrun : forall s0, run s0 = as_run_spec s0)
          by (intros [[a p] c t ou]; unfold as_run_spec; destruct c;
              reflexivity);
        destruct (for_iter_constraints run Hrun os s) as [s' Hs']
    end.
    cbn [as_flags] in Hs'. rewrite <- Elr in Hs'.
    destruct lr as [fl|].
    - destruct Hs' as [H1 [H2 H3]]. rewrite H1. cbn.
      rewrite H2. destruct fl; reflexivity.
    - destruct Hs' as [H1 H2]. rewrite H1. cbn. exact H2.
  Qed.
End ApplySingle.

(* ---------------------------------------------- _flush_results_buffer *)
Section Flush.
  Variable R : Type.
  Notation src := fl_src_model.
  Notation fstR := (fst_ R).

  Definition pop_run_spec (s : fstR) : xres fstR :=
    match fs_buf R s with
    | [] => XOk s (CRaise "IndexError")
    | _ :: t => XOk (mkFst R (fs_limit R s) t (fs_coll R s) (fs_batch R s))
                    CNorm
    end.

  Lemma for_iter_pops (run : fstR -> xres fstR) :
    (forall s, run s = pop_run_spec s) ->
    forall n s,
      for_iter fstR run (repeat (fun s => s) n) s =
      XOk (mkFst R (fs_limit R s) (fst (pop_n R n (fs_buf R s)))
                 (fs_coll R s) (fs_batch R s))
          (if snd (pop_n R n (fs_buf R s)) then CRaise "IndexError"
           else CNorm).
  Proof.
    intros Hrun n. induction n as [|n IH]; intros s.
    - simpl. destruct s; reflexivity.
    - cbn [repeat for_iter pop_n]. rewrite Hrun. unfold pop_run_spec.
      destruct (fs_buf R s) as [|x t] eqn:Eb.
      + simpl. destruct s; simpl in *; subst; reflexivity.
      + rewrite IH. reflexivity.
  Qed.

  Definition body_run_spec (s : fstR) : xres fstR :=
    let batch := py_slice_to R (fs_buf R s) (fs_limit R s) in
    let pr := pop_n R (Z.to_nat (fs_limit R s)) (fs_buf R s) in
    XOk (mkFst R (if snd pr then fs_limit R s - 1 else fs_limit R s)
               (fst pr) (fs_coll R s ++ [batch]) batch) CNorm.

  Definition fl_proj (r : xres fstR) : option (list R * list (list R) * bool) :=
    match r with
    | XOk s CNorm => Some (fs_buf R s, fs_coll R s, false)
    | XSpin s => Some (fs_buf R s, fs_coll R s, true)
    | _ => None
    end.

  Lemma while_iter_flush (run : fstR -> xres fstR) :
    (forall s, run s = body_run_spec s) ->
    forall n s,
      fl_proj (while_iter fstR run
                 (fun s => match fs_buf R s with [] => false | _ => true end)
                 n s) =
      Some (flush_loop R n (fs_limit R s) (fs_buf R s) (fs_coll R s)).
  Proof.
    intros Hrun n. induction n as [|n IH]; intros s.
    - cbn [while_iter flush_loop].
      destruct (fs_buf R s) as [|x t] eqn:Eb; cbn [fl_proj]; rewrite Eb;
        reflexivity.
    - cbn [while_iter flush_loop].
      destruct (fs_buf R s) as [|x t] eqn:Eb;
        [cbn [fl_proj]; rewrite Eb; reflexivity|].
      rewrite Hrun. unfold body_run_spec. rewrite Eb.
      destruct (pop_n R (Z.to_nat (fs_limit R s)) (x :: t)) as [b raised].
      cbn [fst snd]. rewrite IH. reflexivity.
  Qed.

  Theorem flush_tree_is_flush_loop MAX buf coll :
    run_flush_tree R src x_flush_results_buffer MAX buf coll =
    Some (flush_loop R (S (length buf)) MAX buf coll).
  Proof.
    unfold run_flush_tree, x_flush_results_buffer.
    cbn -[while_iter for_iter Z.to_nat].
    match goal with
    | |- context [while_iter fstR ?run ?cond ?n ?s] =>
        assert (Hrun : forall s0, run s0 = body_run_spec s0);
        [| pose proof (while_iter_flush run Hrun n s) as Hw ]
    end.
    - intros s0. cbn -[for_iter Z.to_nat].
      match goal with
      | |- context [for_iter fstR ?prun (repeat ?f ?k) ?s1] =>
          assert (Hp : forall s2, prun s2 = pop_run_spec s2)
            by (intros s2; unfold pop_run_spec; cbn;
                destruct (fs_buf R s2); reflexivity);
          rewrite (for_iter_pops prun Hp k s1)
      end.
      unfold body_run_spec. cbn [fs_limit fs_buf fs_coll fs_batch].
      destruct (pop_n R (Z.to_nat (fs_limit R s0)) (fs_buf R s0))
        as [b raised].
      destruct raised; reflexivity.
    - cbn [fs_limit fs_buf fs_coll] in Hw.
      unfold fl_proj in Hw.
      match goal with
      | |- context [while_iter fstR ?run ?cond ?n ?s] =>
          destruct (while_iter fstR run cond n s) as [s' c|s'|]
      end; [destruct c|..]; try discriminate; cbn; exact Hw.
  Qed.
End Flush.

(* --------------------------------------------- gluing shape and reading *)
Lemma searchdef_on_shape shape gate leaves :
  shape = Some x_searchdef_run ->
  (forall h n, gate h n = h) -> (forall m, leaves m = m) ->
  forall (line : Type) omatch ohint d (l : line),
    on_shape shape (run_searchdef_tree line omatch ohint d l gate leaves) =
    Some (sd_run line omatch ohint d l).
Proof.
  intros -> Hg Hl line omatch ohint d l.
  apply searchdef_tree_is_sd_run; assumption.
Qed.

Lemma apply_single_on_shape shape src :
  shape = Some x_apply_single -> src = as_src_model ->
  forall outs,
    on_shape shape (run_apply_single_tree src outs) =
    Some (apply_single outs).
Proof.
  intros -> -> outs. apply apply_single_tree_is_apply_single.
Qed.

Lemma flush_on_shape shape src :
  shape = Some x_flush_results_buffer -> src = fl_src_model ->
  forall (R : Type) MAX (buf : list R) coll,
    on_shape shape (fun t => run_flush_tree R src t MAX buf coll) =
    Some (flush_loop R (S (length buf)) MAX buf coll).
Proof.
  intros -> -> R MAX buf coll. apply flush_tree_is_flush_loop.
Qed.

(* -------------------------------------- store_result's part indices *)
(* range(first, stop) *)
Definition range_z (first stop : Z) : list Z :=
  map (fun k => first + Z.of_nat k) (seq 0 (Z.to_nat (stop - first))).

Lemma save_groups_indices {line : Type} : forall gs i,
  map fst (save_groups i gs) = range_z i (i + Z.of_nat (length gs)).
Proof.
  unfold range_z. induction gs as [|g r IH]; intros i.
  - simpl. replace (i + 0 - i) with 0 by lia. reflexivity.
  - cbn [save_groups map fst length].
    replace (Z.to_nat (i + Z.of_nat (S (length r)) - i))
      with (S (length r)) by lia.
    cbn [seq map]. f_equal; [lia|].
    rewrite IH.
    replace (Z.to_nat (i + 1 + Z.of_nat (length r) - (i + 1)))
      with (length r) by lia.
    rewrite <- seq_shift, map_map. apply map_ext. intros k. lia.
Qed.

(* parts saved by store_result for a match with groups gs (g0 = whole
   match), in terms of three source expressions: the first index and the
   exclusive bound of the range, and the index used for the whole match *)
Lemma store_result_indices (first stop whole : Z -> Z) :
  (forall n, first n = 1) -> (forall n, stop n = n + 1) ->
  (forall n, whole n = 0) ->
  forall g0 gs,
    let n := Z.of_nat (length gs) in
    map fst (store_result (g0 :: gs)) =
    if n =? 0 then [whole n] else range_z (first n) (stop n).
Proof.
  intros Hf Hs Hw g0 gs n. unfold n.
  destruct gs as [|g1 r].
  - simpl. rewrite Hw. reflexivity.
  - replace (Z.of_nat (length (g1 :: r)) =? 0) with false
      by (symmetry; apply Z.eqb_neq; simpl; lia).
    rewrite Hf, Hs. unfold store_result.
    rewrite (@save_groups_indices unit). f_equal. lia.
Qed.

(* ------------------------------------- SearchDefBase.constraints (dict) *)
Lemma dedupe_by_map {A B} (f : A -> B) (kb : B -> Z) : forall l seen,
  dedupe_by kb seen (map f l) = map f (dedupe_by (fun a => kb (f a)) seen l).
Proof.
  induction l as [|a l IH]; intros seen; simpl; [reflexivity|].
  destruct (memZ (kb (f a)) seen); simpl; rewrite IH; reflexivity.
Qed.

(* the keys of {c.id: c for c in given} = the model's constraints_of *)
Lemma constraints_dict_keys (items : (Z -> Z) -> list Z -> list (Z * Z)) :
  (forall cid given, items cid given = map (fun c => (cid c, c)) given) ->
  forall cs, dict_keys (items (fun c => c) cs) = constraints_of cs.
Proof.
  intros H cs. unfold dict_keys, constraints_of. rewrite H.
  rewrite (dedupe_by_map (fun c : Z => (c, c)) fst). rewrite map_map.
  simpl. apply map_id.
Qed.

Lemma patterns_as_model {P C} (pats : (P -> C) -> bool -> P -> list P -> list C) :
  (forall compile is_list single many,
     pats compile is_list single many =
     if negb is_list then [compile single] else map compile many) ->
  forall compile is_list single many,
    pats compile is_list single many =
    map compile (pattern_arg_list is_list single many).
Proof.
  intros H compile is_list single many. rewrite H.
  destruct is_list; reflexivity.
Qed.
