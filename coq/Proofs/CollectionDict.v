(* Lemmas about the ordered-dictionary operations of Model/Collection.v *)
From Coq Require Import ZArith List Bool Lia Permutation.
From SK Require Import Model.Collection.
Import ListNotations.
Open Scope Z_scope.

Lemma oz_eqb_spec a b : oz_eqb a b = true <-> a = b.
Proof.
  destruct a as [x|], b as [y|]; simpl; split; intro H;
    try discriminate; try reflexivity.
  - apply Z.eqb_eq in H. now subst.
  - inversion H. apply Z.eqb_refl.
Qed.

Lemma zeqb_spec a b : Z.eqb a b = true <-> a = b.
Proof. apply Z.eqb_eq. Qed.

Lemma NoDup_app_snoc {A} (l : list A) (a : A) :
  NoDup l -> ~ In a l -> NoDup (l ++ [a]).
Proof.
  intros Hnd Hni. induction l as [|b l IH]; simpl.
  - constructor; [intros []|constructor].
  - inversion Hnd as [|? ? Hb Hl]; subst. constructor.
    + rewrite in_app_iff. intros [H|[H|[]]]; [contradiction|].
      subst. apply Hni. now left.
    + apply IH; [assumption|]. intro H. apply Hni. now right.
Qed.

Section DictLemmas.
  Context {K : Type} (keqb : K -> K -> bool).
  Context (keqb_spec : forall a b, keqb a b = true <-> a = b).

  Lemma keqb_refl k : keqb k k = true.
  Proof. now apply keqb_spec. Qed.

  Lemma keqb_neq a b : a <> b -> keqb a b = false.
  Proof.
    intro H. destruct (keqb a b) eqn:E; [|reflexivity].
    apply keqb_spec in E. contradiction.
  Qed.

  Lemma k_dec (a b : K) : a = b \/ a <> b.
  Proof.
    destruct (keqb a b) eqn:E.
    - left. now apply keqb_spec.
    - right. intro H. apply keqb_spec in H. congruence.
  Qed.

  Lemma k_in_dec (a : K) (l : list K) : In a l \/ ~ In a l.
  Proof.
    induction l as [|b l IH]; [right; intros []|].
    destruct (k_dec b a) as [->|Hn]; [left; now left|].
    destruct IH as [Hi|Hni]; [left; now right|].
    right. intros [H|H]; contradiction.
  Qed.

  Section V.
    Context {V : Type}.
    Implicit Types d e : list (K * V).

    Lemma dget_none d k : dget keqb d k = None <-> ~ In k (map fst d).
    Proof.
      induction d as [|[k' v] t IH]; simpl.
      - split; [intros _ []|reflexivity].
      - destruct (keqb k' k) eqn:E.
        + apply keqb_spec in E. subst. split; [discriminate|].
          intro H. exfalso. apply H. now left.
        + rewrite IH. split.
          * intros Hn [Hh|Hh]; [|contradiction].
            subst. rewrite keqb_refl in E. discriminate.
          * intros Hn Hi. apply Hn. now right.
    Qed.

    Lemma dget_some_in d k v : dget keqb d k = Some v -> In (k, v) d.
    Proof.
      induction d as [|[k' v'] t IH]; simpl; [discriminate|].
      destruct (keqb k' k) eqn:E.
      - apply keqb_spec in E. subst. intro H. inversion H. now left.
      - intro H. right. now apply IH.
    Qed.

    Lemma in_dget d k v :
      NoDup (map fst d) -> In (k, v) d -> dget keqb d k = Some v.
    Proof.
      induction d as [|[k' v'] t IH]; simpl; intros Hnd Hin; [contradiction|].
      inversion Hnd as [|? ? Hni Hnd']; subst.
      destruct Hin as [Hh|Hh].
      - inversion Hh; subst. now rewrite keqb_refl.
      - destruct (keqb k' k) eqn:E.
        + apply keqb_spec in E. subst. exfalso. apply Hni.
          apply in_map_iff. exists (k, v). split; [reflexivity|assumption].
        + now apply IH.
    Qed.

    (* ---- dset *)
    Lemma dset_keys_in d k v :
      In k (map fst d) -> map fst (dset keqb d k v) = map fst d.
    Proof.
      induction d as [|[k' v'] t IH]; simpl; intro Hin; [contradiction|].
      destruct (keqb k' k) eqn:E; simpl; [reflexivity|].
      f_equal. apply IH. destruct Hin as [Hh|Hh]; [|assumption].
      subst. rewrite keqb_refl in E. discriminate.
    Qed.

    Lemma dset_notin d k v :
      ~ In k (map fst d) -> dset keqb d k v = d ++ [(k, v)].
    Proof.
      induction d as [|[k' v'] t IH]; simpl; intro Hni; [reflexivity|].
      rewrite keqb_neq by (intro; subst; apply Hni; now left).
      f_equal. apply IH. intro H. apply Hni. now right.
    Qed.

    Lemma dset_keys d k v :
      map fst (dset keqb d k v) = map fst d \/
      (~ In k (map fst d) /\ map fst (dset keqb d k v) = map fst d ++ [k]).
    Proof.
      destruct (k_in_dec k (map fst d)) as [Hi|Hni].
      - left. now apply dset_keys_in.
      - right. split; [assumption|]. rewrite dset_notin by assumption.
        now rewrite map_app.
    Qed.

    Lemma dset_key_iff d k v k' :
      In k' (map fst (dset keqb d k v)) <-> k' = k \/ In k' (map fst d).
    Proof.
      destruct (dset_keys d k v) as [E|[Hni E]]; rewrite E.
      - split; [now right|]. intros [->|H]; [|assumption].
        destruct (k_in_dec k (map fst d)) as [Hi|Hni]; [assumption|].
        rewrite dset_notin in E by assumption. rewrite map_app in E.
        simpl in E. exfalso.
        assert (L : length (map fst d ++ [k]) = length (map fst d))
          by now rewrite E.
        rewrite app_length in L. simpl in L. lia.
      - rewrite in_app_iff. simpl. intuition congruence.
    Qed.

    Lemma dset_nodup d k v :
      NoDup (map fst d) -> NoDup (map fst (dset keqb d k v)).
    Proof.
      intro Hnd. destruct (dset_keys d k v) as [E|[Hni E]]; rewrite E.
      - assumption.
      - apply NoDup_app_snoc; assumption.
    Qed.

    Lemma dset_in d k v k' v' :
      NoDup (map fst d) -> In (k', v') (dset keqb d k v) ->
      (k' = k /\ v' = v) \/ (k' <> k /\ In (k', v') d).
    Proof.
      induction d as [|[k0 v0] t IH]; simpl; intros Hnd Hin.
      - destruct Hin as [H|[]]. inversion H. now left.
      - inversion Hnd as [|? ? Hni Hnd']; subst.
        destruct (keqb k0 k) eqn:E.
        + apply keqb_spec in E. subst.
          destruct Hin as [H|H]; [inversion H; now left|].
          right. split; [|now right].
          intro; subst. apply Hni. apply in_map_iff.
          exists (k, v'). split; [reflexivity|assumption].
        + destruct Hin as [H|H].
          * inversion H; subst. right. split; [|now left].
            intro; subst. rewrite keqb_refl in E. discriminate.
          * destruct (IH Hnd' H) as [L|[L1 L2]]; [now left|].
            right. split; [assumption|now right].
    Qed.

    Lemma dget_dset_same d k v : dget keqb (dset keqb d k v) k = Some v.
    Proof.
      induction d as [|[k' v'] t IH]; simpl.
      - now rewrite keqb_refl.
      - destruct (keqb k' k) eqn:E; simpl; rewrite E; [reflexivity|apply IH].
    Qed.

    Lemma dget_dset_other d k v k' :
      k' <> k -> dget keqb (dset keqb d k v) k' = dget keqb d k'.
    Proof.
      intro Hn. induction d as [|[k0 v0] t IH]; simpl.
      - rewrite keqb_neq; [reflexivity|]. intro; subst. now apply Hn.
      - destruct (keqb k0 k) eqn:E; simpl.
        + apply keqb_spec in E. subst.
          rewrite (keqb_neq k k') by (intro; subst; now apply Hn).
          reflexivity.
        + now rewrite IH.
    Qed.

    (* ---- dupdate *)
    Lemma dupdate_nodup d e :
      NoDup (map fst d) -> NoDup (map fst (dupdate keqb d e)).
    Proof.
      unfold dupdate. revert d.
      induction e as [|[k v] e IH]; simpl; intros d Hnd; [assumption|].
      apply IH. now apply dset_nodup.
    Qed.

    Lemma dupdate_in d e k v :
      NoDup (map fst d) -> In (k, v) (dupdate keqb d e) ->
      In (k, v) e \/ In (k, v) d.
    Proof.
      unfold dupdate. revert d.
      induction e as [|[k0 v0] e IH]; simpl; intros d Hnd Hin; [now right|].
      destruct (IH _ (dset_nodup d k0 v0 Hnd) Hin) as [H|H].
      - left. now right.
      - destruct (dset_in d k0 v0 k v Hnd H) as [[-> ->]|[_ H']].
        + left. now left.
        + now right.
    Qed.

    Lemma dupdate_keys d e k :
      In k (map fst d) \/ In k (map fst e) ->
      In k (map fst (dupdate keqb d e)).
    Proof.
      unfold dupdate. revert d.
      induction e as [|[k0 v0] e IH]; simpl; intros d H.
      - destruct H as [H|[]]. assumption.
      - apply IH. destruct H as [H|[H|H]].
        + left. apply dset_key_iff. now right.
        + left. apply dset_key_iff. left. now subst.
        + now right.
    Qed.

    Lemma dupdate_nil_r d : dupdate keqb d [] = d.
    Proof. reflexivity. Qed.
  End V.

  (* ---- dappend *)
  Section A.
    Context {X : Type}.
    Implicit Types d : list (K * list X).

    Lemma dget_dappend_same d k x :
      dget keqb (dappend keqb d k x) k =
      Some (match dget keqb d k with Some l => l ++ [x] | None => [x] end).
    Proof.
      induction d as [|[k' l] t IH]; simpl.
      - now rewrite keqb_refl.
      - destruct (keqb k' k) eqn:E; simpl; rewrite E; [reflexivity|].
        apply IH.
    Qed.

    Lemma dget_dappend_other d k x k' :
      k' <> k -> dget keqb (dappend keqb d k x) k' = dget keqb d k'.
    Proof.
      intro Hn. induction d as [|[k0 l] t IH]; simpl.
      - rewrite keqb_neq; [reflexivity|]. intro; subst. now apply Hn.
      - destruct (keqb k0 k) eqn:E; simpl.
        + apply keqb_spec in E. subst.
          rewrite (keqb_neq k k') by (intro; subst; now apply Hn).
          reflexivity.
        + now rewrite IH.
    Qed.

    Lemma dappend_keys d k x :
      (In k (map fst d) /\ map fst (dappend keqb d k x) = map fst d) \/
      (~ In k (map fst d) /\
       map fst (dappend keqb d k x) = map fst d ++ [k]).
    Proof.
      induction d as [|[k' l] t IH]; simpl.
      - right. split; [intros []|reflexivity].
      - destruct (keqb k' k) eqn:E; simpl.
        + apply keqb_spec in E. subst. left. split; [now left|reflexivity].
        + destruct IH as [[Hi Hk]|[Hni Hk]]; rewrite Hk.
          * left. split; [now right|reflexivity].
          * right. split; [|reflexivity].
            intros [H|H]; [|contradiction]. subst.
            rewrite keqb_refl in E. discriminate.
    Qed.

    Lemma dappend_key_iff d k x k' :
      In k' (map fst (dappend keqb d k x)) <-> k' = k \/ In k' (map fst d).
    Proof.
      destruct (dappend_keys d k x) as [[Hi E]|[Hni E]]; rewrite E.
      - split; [now right|]. intros [->|H]; assumption.
      - rewrite in_app_iff. simpl. intuition congruence.
    Qed.

    Lemma dappend_nodup d k x :
      NoDup (map fst d) -> NoDup (map fst (dappend keqb d k x)).
    Proof.
      intro Hnd. destruct (dappend_keys d k x) as [[Hi E]|[Hni E]];
        rewrite E; [assumption|].
      apply NoDup_app_snoc; assumption.
    Qed.

    Lemma dappend_values_perm d k x :
      Permutation (flat_map snd (dappend keqb d k x)) (flat_map snd d ++ [x]).
    Proof.
      induction d as [|[k' l] t IH]; simpl; [reflexivity|].
      destruct (keqb k' k); simpl.
      - rewrite <- !app_assoc. apply Permutation_app_head.
        apply Permutation_app_comm.
      - rewrite <- app_assoc. now apply Permutation_app_head.
    Qed.

    (* entries of the result, by key (needs distinct keys) *)
    Lemma dappend_in d k x k' v :
      NoDup (map fst d) -> In (k', v) (dappend keqb d k x) ->
      (k' <> k /\ In (k', v) d) \/
      (k' = k /\ v = match dget keqb d k with
                     | Some l => l ++ [x] | None => [x] end).
    Proof.
      intros Hnd Hin.
      pose proof (dappend_nodup d k x Hnd) as Hnd'.
      apply (in_dget _ _ _ Hnd') in Hin.
      destruct (k_dec k' k) as [->|Hn].
      - rewrite dget_dappend_same in Hin. inversion Hin. now right.
      - rewrite dget_dappend_other in Hin by assumption.
        left. split; [assumption|]. now apply dget_some_in.
    Qed.
  End A.
End DictLemmas.
