(* C19 - schedule-quantified theorems for ANY compiler of operations into
   actions that is [disciplined]:
     - every program is  Acq cache ; <middle> ; Rel cache  where the middle
       never touches the cache lock, takes the global lock only inside
       (order cache -> global), opens/closes files properly and accesses
       records only while a file is open  ([prog_ok]);
     - run alone, the middle implements the register operation ([seq_ok]).
   Proofs/CacheSkel.v shows that the compiler obtained from well-locked
   skeletons is disciplined. *)
From Coq Require Import String ZArith List Bool Arith Lia.
From SK Require Import Model.Skel Spec.Cache Model.Cache.
Import ListNotations.
Open Scope Z_scope.

Definition isSome {A} (o : option A) : bool :=
  match o with Some _ => true | None => false end.

(* g: global lock held by this process, o: a file is open *)
Fixpoint mid_ok (g o : bool) (l : list act) : bool :=
  match l with
  | [] => false
  | a :: r =>
      match a with
      | ARel LC => negb g && negb o && match r with [] => true | _ => false end
      | AAcq LC => false
      | AAcq LG => negb g && mid_ok true o r
      | ARel LG => g && mid_ok false o r
      | AOpen _ => negb o && mid_ok g true r
      | AClose => o && mid_ok g false r
      | AFail | ADelKey _ => false
      | ARead | AWrite _ | ADel | ACommit1 | ACommit2 => o && mid_ok g o r
      | AMk => mid_ok g o r
      end
  end.

Definition prog_ok (l : list act) : bool :=
  match l with
  | AAcq LC :: r => mid_ok false false r
  | _ => false
  end.

Definition seq_ok (C : compiler) : Prop :=
  forall b o d,
    (forall k, fst (run_acts (tl (C b o)) d init_local) k = reg_apply o d k) /\
    rs (snd (run_acts (tl (C b o)) d init_local)) = reg_res o d.

Definition disciplined (C : compiler) : Prop :=
  (forall b o, prog_ok (C b o) = true) /\ seq_ok C.

(* ------------------------------------------------------------------ *)
(* congruence of the register w.r.t. pointwise equality of stores *)
Lemma bulk_apply_ext kvs : forall d1 d2,
  (forall k, d1 k = d2 k) -> forall k, bulk_apply kvs d1 k = bulk_apply kvs d2 k.
Proof.
  induction kvs as [|[k0 v0] r IH]; intros d1 d2 H k; simpl; [apply H|].
  apply IH. intros k'. unfold upd. destruct (k' =? k0); [reflexivity|apply H].
Qed.

Lemma reg_apply_ext o d1 d2 :
  (forall k, d1 k = d2 k) -> forall k, reg_apply o d1 k = reg_apply o d2 k.
Proof.
  intros H k. destruct o; simpl; unfold upd.
  - destruct (k =? k0); [reflexivity|apply H].
  - apply bulk_apply_ext; exact H.
  - apply H.
  - destruct (k =? k0); [reflexivity|apply H].
Qed.

Lemma reg_res_ext o d1 d2 :
  (forall k, d1 k = d2 k) -> reg_res o d1 = reg_res o d2.
Proof. intros H. destruct o; simpl; try reflexivity. rewrite H. reflexivity. Qed.

(* ------------------------------------------------------------------ *)
(* no response / point carries a failure *)
Fixpoint no_fail (h : list hev) : Prop :=
  match h with
  | [] => True
  | HInv _ _ _ :: t => no_fail t
  | HLin _ _ _ r :: t => r <> RFail /\ no_fail t
  | HRes _ _ _ r :: t => r <> RFail /\ no_fail t
  end.

Section Generic.
Variable C : compiler.
Hypothesis HC : disciplined C.

(* what a process may look like *)
Inductive pstate_ok (s : state) (p : nat) : Prop :=
| PS_idle :
    cur (procs s p) = None ->
    owner_is (lockC s) p = false -> owner_is (lockG s) p = false ->
    fo (loc (procs s p)) = None ->
    phase_of p (hist s) (PIdle (idx (procs s p))) ->
    pstate_ok s p
| PS_wait o b :
    cur (procs s p) = Some (o, C b o) ->
    loc (procs s p) = init_local ->
    owner_is (lockC s) p = false -> owner_is (lockG s) p = false ->
    phase_of p (hist s) (PInv (idx (procs s p)) o) ->
    pstate_ok s p
| PS_in o rest :
    cur (procs s p) = Some (o, rest) ->
    owner_is (lockC s) p = true ->
    mid_ok (owner_is (lockG s) p) (isSome (fo (loc (procs s p)))) rest = true ->
    failed (loc (procs s p)) = false ->
    (forall k, fst (run_acts rest (disk s) (loc (procs s p))) k
               = reg_apply o (sigma (hist s)) k) ->
    rs (snd (run_acts rest (disk s) (loc (procs s p))))
      = reg_res o (sigma (hist s)) ->
    phase_of p (hist s) (PInv (idx (procs s p)) o) ->
    pstate_ok s p
| PS_done o :
    cur (procs s p) = Some (o, []) ->
    owner_is (lockC s) p = false -> owner_is (lockG s) p = false ->
    fo (loc (procs s p)) = None ->
    rs (loc (procs s p)) <> RFail ->
    phase_of p (hist s) (PLin (idx (procs s p)) o (rs (loc (procs s p)))) ->
    pstate_ok s p.

Record Inv (s : state) : Prop := mkInv {
  inv_p : forall p, pstate_ok s p;
  inv_free : lockC s = None -> forall k, disk s k = sigma (hist s) k;
  inv_g : forall q, lockG s = Some q -> lockC s = Some q;
  inv_legal : lin_legal (hist s);
  inv_nofail : no_fail (hist s) }.

Lemma owner_is_true o p : owner_is o p = true <-> o = Some p.
Proof.
  destruct o as [q|]; simpl; split; intros H; try discriminate.
  - apply Nat.eqb_eq in H. subst. reflexivity.
  - inversion H. apply Nat.eqb_refl.
Qed.

Lemma owner_is_other o p q :
  owner_is o p = true -> q <> p -> owner_is o q = false.
Proof.
  intros H Hn. apply owner_is_true in H. subst. simpl.
  apply Nat.eqb_neq. auto.
Qed.

Lemma setp_same f p x : setp f p x p = x.
Proof. unfold setp. rewrite Nat.eqb_refl. reflexivity. Qed.

Lemma setp_other f p x q : q <> p -> setp f p x q = f q.
Proof. intros H. unfold setp. apply Nat.eqb_neq in H. rewrite H. reflexivity. Qed.

(* frame: a step of p leaves every other process q in an admissible state *)
Lemma frame s s' p q :
  q <> p ->
  procs s' q = procs s q ->
  owner_is (lockC s') q = owner_is (lockC s) q ->
  owner_is (lockG s') q = owner_is (lockG s) q ->
  (forall ph, phase_of q (hist s) ph -> phase_of q (hist s') ph) ->
  ((disk s' = disk s /\ sigma (hist s') = sigma (hist s)) \/
   owner_is (lockC s) q = false) ->
  pstate_ok s q -> pstate_ok s' q.
Proof.
  intros Hn Hp HlC HlG Hph Hd Hq.
  destruct Hq as [Hc H1 H2 H3 H4 | o b Hc Hl H1 H2 H3
                 | o rest Hc H1 H2 H3 H4 H5 H6 | o Hc H1 H2 H3 H4 H5].
  - apply PS_idle; rewrite ?Hp, ?HlC, ?HlG; auto.
  - apply PS_wait with (o := o) (b := b); rewrite ?Hp, ?HlC, ?HlG; auto.
  - destruct Hd as [[Hd Hs] | Hd]; [|congruence].
    apply PS_in with (o := o) (rest := rest); rewrite ?Hp, ?HlC, ?HlG, ?Hd, ?Hs; auto.
  - apply PS_done with (o := o); rewrite ?Hp, ?HlC, ?HlG; auto.
Qed.

Lemma phase_other p q e h ph :
  hev_pid e = p -> q <> p -> phase_of q h ph -> phase_of q (e :: h) ph.
Proof. intros He Hn H. apply ph_other; [congruence|exact H]. Qed.

(* a non-lock action of a checked middle part does not fail and keeps the
   open-flag in step with the checker *)
Lemma mid_act a r g o d l :
  mid_ok g o (a :: r) = true ->
  (forall x, a <> AAcq x) -> (forall x, a <> ARel x) ->
  failed l = false -> isSome (fo l) = o ->
  failed (snd (act_local a d l)) = false /\
  mid_ok g (isSome (fo (snd (act_local a d l)))) r = true.
Proof.
  intros Hm Hna Hnr Hf Ho.
  destruct l as [f sn di r0]. unfold failed in *. simpl in *. subst o.
  destruct a; simpl in Hm; try discriminate;
    try (exfalso; eapply Hna; reflexivity);
    try (exfalso; eapply Hnr; reflexivity);
    destruct f; simpl in Hm; try discriminate;
    unfold act_local, failed; simpl; rewrite ?Hf; simpl;
    try (destruct sn; simpl); auto.
Qed.

Lemma run_acts_cons a r d l :
  run_acts (a :: r) d l =
  run_acts r (fst (act_local a d l)) (snd (act_local a d l)).
Proof. simpl. destruct (act_local a d l). reflexivity. Qed.

Lemma failed_false_rs l : failed l = false -> rs l <> RFail.
Proof. unfold failed. destruct (rs l); congruence. Qed.

(* ------------------------------------------------------------------ *)
(* a process inside its critical section executes a non-lock action *)
Ltac local_case a :=
  match goal with
  | Hstep : _ = Some ?s', H2 : mid_ok _ _ (_ :: ?rest) = true,
    H3 : failed (loc (procs ?s ?p)) = false,
    H4 : forall k, fst (run_acts _ _ _) k = _,
    H5 : rs (snd (run_acts _ _ _)) = _,
    HlC : lockC ?s = Some ?p |- _ =>
      let Hf' := fresh "Hf'" in let Hm' := fresh "Hm'" in
      let d' := fresh "d'" in let l' := fresh "l'" in let Ea := fresh "Ea" in
      pose proof (mid_act a rest _ _ (disk s) (loc (procs s p)) H2
                          ltac:(congruence) ltac:(congruence) H3 eq_refl)
        as [Hf' Hm'];
      rewrite run_acts_cons in H4, H5;
      cbn -[act_local] in Hstep;
      destruct (act_local a (disk s) (loc (procs s p))) as [d' l'] eqn:Ea;
      cbn [fst snd] in *;
      inversion Hstep; subst s'; clear Hstep;
      constructor; simpl; auto; try (rewrite HlC; intros; discriminate);
      let q := fresh "q" in let Hn := fresh "Hn" in
      intros q; destruct (Nat.eq_dec q p) as [->|Hn];
      [ eapply PS_in; simpl; rewrite ?setp_same; simpl; eauto
      | apply frame with (s := s) (p := p); simpl; auto;
        apply setp_other; auto ]
  end.

Lemma step_inv s p s' : Inv s -> step C s p = Some s' -> Inv s'.
Proof.
  intros HI Hstep. destruct HC as [Hprog Hseq].
  destruct HI as [Hp Hfree Hg Hlegal Hnf].
  unfold step in Hstep.
  destruct (Hp p) as [Hc H1 H2 H3 H4 | o b Hc Hl H1 H2 H3
                     | o rest Hc H1 H2 H3 H4 H5 H6 | o Hc H1 H2 H3 H4 H5].
  - (* idle: invocation *)
    rewrite Hc in Hstep. destruct (todo (procs s p)) as [|o t] eqn:Ht;
      [discriminate|]. inversion Hstep; subst s'; clear Hstep.
    constructor; simpl; auto.
    intros q. destruct (Nat.eq_dec q p) as [->|Hn].
    + apply PS_wait with (o := o) (b := negb (inited (procs s p)));
        simpl; rewrite ?setp_same; simpl; auto.
      apply ph_inv. exact H4.
    + apply frame with (s := s) (p := p); simpl; auto.
      * apply setp_other; auto.
      * intros ph Hph. apply ph_other; [simpl; congruence|exact Hph].
  - (* waiting for the cache lock *)
    rewrite Hc in Hstep.
    pose proof (Hprog b o) as Hpo. unfold prog_ok in Hpo.
    destruct (C b o) as [|a rest] eqn:HCb; [discriminate|].
    destruct a; try discriminate. destruct l; try discriminate.
    rewrite Hl in Hstep. simpl in Hstep.
    destruct (lockC s) as [h|] eqn:HlC; [discriminate|].
    inversion Hstep; subst s'; clear Hstep.
    assert (HGn : lockG s = None).
    { destruct (lockG s) as [q|] eqn:E; [|reflexivity].
      specialize (Hg q eq_refl). discriminate. }
    constructor; simpl; auto.
    + intros q. destruct (Nat.eq_dec q p) as [->|Hn].
      * apply PS_in with (o := o) (rest := rest);
          simpl; rewrite ?setp_same; simpl; auto.
        -- apply Nat.eqb_refl.
        -- rewrite H2. exact Hpo.
        -- intros k. destruct (Hseq b o (disk s)) as [Ha _].
           rewrite HCb in Ha. simpl in Ha. rewrite Ha.
           apply reg_apply_ext. apply Hfree. reflexivity.
        -- destruct (Hseq b o (disk s)) as [_ Hb].
           rewrite HCb in Hb. simpl in Hb. rewrite Hb.
           apply reg_res_ext. apply Hfree. reflexivity.
      * apply frame with (s := s) (p := p); simpl; auto.
        -- apply setp_other; auto.
        -- rewrite HlC. simpl. apply Nat.eqb_neq. auto.
    + intros q Hq. rewrite HGn in Hq. discriminate.
  - (* inside the critical section *)
    rewrite Hc in Hstep.
    destruct rest as [|a rest]; [simpl in H2; discriminate|].
    assert (HlC : lockC s = Some p) by (apply owner_is_true; exact H1).
    assert (Hothers : forall q, q <> p -> owner_is (lockC s) q = false).
    { intros q Hn. eapply owner_is_other; eauto. }
    destruct a as [l|l| | | | | | | | | |].
    + (* AAcq *)
      destruct l; [simpl in H2; discriminate|].
      simpl in H2. apply andb_true_iff in H2. destruct H2 as [Hgf H2].
      apply negb_true_iff in Hgf.
      rewrite H3 in Hstep. simpl in Hstep.
      destruct (lockG s) as [h|] eqn:HlG.
      { discriminate. }
      inversion Hstep; subst s'; clear Hstep.
      constructor; simpl; auto; try (rewrite HlC; intros; discriminate).
      * intros q. destruct (Nat.eq_dec q p) as [->|Hn].
        -- apply PS_in with (o := o) (rest := rest);
             simpl; rewrite ?setp_same; simpl; auto.
           rewrite Nat.eqb_refl. exact H2.
        -- apply frame with (s := s) (p := p); simpl; auto.
           ++ apply setp_other; auto.
           ++ rewrite HlG. simpl. apply Nat.eqb_neq. auto.
      * intros q Hq. inversion Hq; subst. exact HlC.
    + (* ARel *)
      destruct l.
      * (* cache lock: linearization point *)
        simpl in H2. apply andb_true_iff in H2. destruct H2 as [H2 Hr].
        apply andb_true_iff in H2. destruct H2 as [Hgf Hof].
        apply negb_true_iff in Hgf. apply negb_true_iff in Hof.
        destruct rest; [|discriminate].
        simpl in Hstep. rewrite H1 in Hstep.
        inversion Hstep; subst s'; clear Hstep.
        simpl in H4, H5.
        constructor; simpl; auto; try (rewrite HlC; intros; discriminate).
        -- intros q. destruct (Nat.eq_dec q p) as [->|Hn].
           ++ apply PS_done with (o := o);
                simpl; rewrite ?setp_same; simpl; auto.
              ** destruct (fo (loc (procs s p))); [discriminate|reflexivity].
              ** apply failed_false_rs; exact H3.
              ** apply ph_lin. exact H6.
           ++ apply frame with (s := s) (p := p); simpl; auto.
              ** apply setp_other; auto.
              ** rewrite HlC. simpl.
                 assert (Nat.eqb p q = false) by (apply Nat.eqb_neq; auto).
                 rewrite H. reflexivity.
              ** intros ph Hph. apply ph_other; [simpl; congruence|exact Hph].
        -- intros q Hq. specialize (Hg q Hq). rewrite HlC in Hg.
           inversion Hg; subst. rewrite Hq in Hgf. simpl in Hgf.
           rewrite Nat.eqb_refl in Hgf. discriminate.
        -- split; [apply failed_false_rs; exact H3|exact Hnf].
      * (* global lock *)
        simpl in H2. apply andb_true_iff in H2. destruct H2 as [Hgt H2].
        simpl in Hstep. rewrite Hgt in Hstep.
        inversion Hstep; subst s'; clear Hstep.
        constructor; simpl; auto; try (rewrite HlC; intros; discriminate).
        -- intros q. destruct (Nat.eq_dec q p) as [->|Hn].
           ++ apply PS_in with (o := o) (rest := rest);
                simpl; rewrite ?setp_same; simpl; auto.
           ++ apply frame with (s := s) (p := p); simpl; auto.
              ** apply setp_other; auto.
              ** symmetry. eapply owner_is_other; eauto.
    + (* AMk *) local_case AMk.
    + (* AOpen *) local_case (AOpen k).
    + (* ARead *) local_case ARead.
    + (* AWrite *) local_case (AWrite v).
    + (* ADel *) local_case ADel.
    + (* ADelKey *) simpl in H2. discriminate.
    + (* ACommit1 *) local_case ACommit1.
    + (* ACommit2 *) local_case ACommit2.
    + (* AClose *) local_case AClose.
    + (* AFail *) simpl in H2. discriminate.
  - (* done: response *)
    rewrite Hc in Hstep. inversion Hstep; subst s'; clear Hstep.
    constructor; simpl; auto.
    intros q. destruct (Nat.eq_dec q p) as [->|Hn].
    + apply PS_idle; simpl; rewrite ?setp_same; simpl; auto.
      apply ph_res. exact H5.
    + apply frame with (s := s) (p := p); simpl; auto.
      * apply setp_other; auto.
      * intros ph Hph. apply ph_other; [simpl; congruence|exact Hph].
Qed.

Lemma init_inv progs : Inv (init progs).
Proof.
  constructor; simpl; auto; try discriminate.
  intros p. apply PS_idle; simpl; auto.
  - destruct (nth_error progs p); reflexivity.
  - destruct (nth_error progs p); reflexivity.
  - destruct (nth_error progs p); simpl; constructor.
Qed.

Lemma run_inv sched : forall s, Inv s -> Inv (run C s sched).
Proof.
  induction sched as [|p r IH]; intros s HI; simpl; [exact HI|].
  apply IH. unfold step_or_stay.
  destruct (step C s p) eqn:E; [eapply step_inv; eauto|exact HI].
Qed.

Definition reachable (progs : list (list op)) (s : state) : Prop :=
  exists sched, s = run C (init progs) sched.

Lemma reachable_inv progs s : reachable progs s -> Inv s.
Proof. intros [sched ->]. apply run_inv. apply init_inv. Qed.

(* ---------------- (a) mutual exclusion ---------------- *)
Lemma open_holds_lock s p : Inv s -> file_open s p -> lockC s = Some p.
Proof.
  intros HI Hop. unfold file_open in Hop.
  destruct (inv_p s HI p) as [Hc H1 H2 H3 H4 | o b Hc Hl H1 H2 H3
                     | o rest Hc H1 H2 H3 H4 H5 H6 | o Hc H1 H2 H3 H4 H5].
  - congruence.
  - rewrite Hl in Hop. simpl in Hop. congruence.
  - apply owner_is_true. exact H1.
  - congruence.
Qed.

Lemma mutex s p q : Inv s -> file_open s p -> file_open s q -> p = q.
Proof.
  intros HI Hp Hq. pose proof (open_holds_lock s p HI Hp) as A.
  pose proof (open_holds_lock s q HI Hq) as B. congruence.
Qed.

(* ---------------- (b) linearization points ---------------- *)
Lemma inv_ann_ok s : Inv s -> ann_ok (hist s).
Proof.
  intros HI. split; [apply (inv_legal s HI)|].
  intros p.
  destruct (inv_p s HI p) as [Hc H1 H2 H3 H4 | o b Hc Hl H1 H2 H3
                     | o rest Hc H1 H2 H3 H4 H5 H6 | o Hc H1 H2 H3 H4 H5];
    eexists; eassumption.
Qed.

Lemma inv_linearizable s : Inv s -> linearizable (erase (hist s)).
Proof. intros HI. exists (hist s). split; [reflexivity|apply inv_ann_ok; exact HI]. Qed.

(* ---------------- (c) no deadlock ---------------- *)
Lemma no_deadlock s :
  Inv s -> (exists p, ~ finished (procs s p)) -> exists q, step C s q <> None.
Proof.
  intros HI [p Hnf]. destruct HC as [Hprog _].
  destruct (lockC s) as [h|] eqn:HlC.
  - (* the holder of the cache lock can move *)
    exists h. unfold step.
    destruct (inv_p s HI h) as [Hc H1 H2 H3 H4 | o b Hc Hl H1 H2 H3
                     | o rest Hc H1 H2 H3 H4 H5 H6 | o Hc H1 H2 H3 H4 H5];
      try (rewrite HlC in H1; simpl in H1; rewrite Nat.eqb_refl in H1;
           discriminate).
    rewrite Hc. destruct rest as [|a rest]; [simpl in H2; discriminate|].
    destruct a; try (destruct (act_local _ _ _); discriminate).
    + destruct l; [simpl in H2; discriminate|].
      simpl in H2. apply andb_true_iff in H2. destruct H2 as [Hgf _].
      apply negb_true_iff in Hgf. rewrite H3. simpl.
      destruct (lockG s) as [g|] eqn:HlG; [|discriminate].
      pose proof (inv_g s HI g HlG) as E. rewrite HlC in E.
      inversion E; subst. simpl in Hgf.
      rewrite Nat.eqb_refl in Hgf. discriminate.
    + destruct (owner_is (lock_get s l) h); destruct l; discriminate.
  - (* the cache lock is free: the unfinished process can move *)
    exists p. unfold step.
    destruct (inv_p s HI p) as [Hc H1 H2 H3 H4 | o b Hc Hl H1 H2 H3
                     | o rest Hc H1 H2 H3 H4 H5 H6 | o Hc H1 H2 H3 H4 H5].
    + rewrite Hc. destruct (todo (procs s p)) eqn:Ht; [|discriminate].
      exfalso. apply Hnf. split; assumption.
    + rewrite Hc. pose proof (Hprog b o) as Hpo. unfold prog_ok in Hpo.
      destruct (C b o) as [|a rest]; [discriminate|].
      destruct a; try discriminate. destruct l; try discriminate.
      rewrite Hl. simpl. rewrite HlC. discriminate.
    + rewrite HlC in H1. discriminate.
    + rewrite Hc. discriminate.
Qed.

End Generic.
