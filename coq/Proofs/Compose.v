(* Corollaries that connect the whole-run properties (C12, C17) to the task
   model of C01/C07 (Model/Task.v). *)
From Coq Require Import ZArith List Bool Lia.
From SK Require Import Model.Task Proofs.TaskLoop Model.Stats Proofs.Stats.
Import ListNotations.
Open Scope Z_scope.

Section T.
  Variables line D St R : Type.
  Variable key : D -> Z.
  Variable cons : D -> list Z.
  Variable ocon : Z -> line -> outcome.
  Variable init : D -> St.
  Variable step : D -> St -> Z -> line -> St * list R.
  Variable post : list (D * St) -> Z -> list R.
  Variables MAX NBUF : Z.
  Hypothesis HMAX : 1 <= MAX.

  Notation exec := (execute line D St R key cons ocon init step post MAX NBUF).

  (* the statistics a task reports: results = size of what it delivered,
     lines = lines it was given *)
  Lemma task_counts_its_collection ds lines :
    exists bs, exec ds lines = TaskOk bs /\
      st_results (task_stats lines bs) = Stats.lenZ (collected (exec ds lines)) /\
      st_lines (task_stats lines bs) = Stats.lenZ lines.
  Proof.
    destruct (execute_exact line D St R key cons ocon init step post MAX NBUF
                            ds lines HMAX) as [bs [He [Hc _]]].
    exists bs. split; [exact He|]. rewrite He. cbn [collected].
    unfold task_stats. cbn. rewrite put_counts_concat. split; reflexivity.
  Qed.

  (* searching a descriptor that yields no line delivers exactly what the
     end-of-file pass produces from the initial handler states *)
  Lemma search_of_nothing ds :
    exists bs, exec ds [] = TaskOk bs /\
      concat bs = post (slot_states D St (search_defs D St key cons init ds)) 0.
  Proof.
    destruct (execute_exact line D St R key cons ocon init step post MAX NBUF
                            ds [] HMAX) as [bs [He [Hc _]]].
    exists bs. split; [exact He|]. rewrite Hc. reflexivity.
  Qed.
End T.
