(* C03 - T1: the shape of _run_search that the model's whole-file run
   ([seq_loop] then [seq_eof], definitions reset first) relies on, as a
   decidable check on the skeleton extracted from the source. *)
From Coq Require Import String List Bool Arith.
From SK Require Import Model.Skel.
Import ListNotations.
Open Scope string_scope.

(* every call with the number of loops that enclose it *)
Fixpoint call_depths (depth : nat) (sk : list ev) : list (string * nat) :=
  match sk with
  | [] => []
  | Call f :: r => (f, depth) :: call_depths depth r
  | LoopB :: r => call_depths (S depth) r
  | LoopE :: r => call_depths (pred depth) r
  | _ :: r => call_depths depth r
  end.

Definition seq_relevant (f : string) : bool :=
  String.eqb f "seq_reset" || String.eqb f "enumerate_lines"
  || String.eqb f "sequence_search" || String.eqb f "process_sequences".

Definition seq_calls (sk : list ev) : list (string * nat) :=
  filter (fun x => seq_relevant (fst x)) (call_depths 0 sk).

Fixpoint calls_eqb (a b : list (string * nat)) : bool :=
  match a, b with
  | [], [] => true
  | (f, d) :: a', (g, e) :: b' => String.eqb f g && Nat.eqb d e && calls_eqb a' b'
  | _, _ => false
  end.

(* sequence definitions are reset in a loop over the definitions before the
   file is read; _sequence_search is called once, inside the loop over the
   definitions inside the loop over the lines; _process_sequence_results is
   called once, after the loops *)
Definition run_search_shape (sk : list ev) : bool :=
  calls_eqb (seq_calls sk)
            [("seq_reset", 1); ("enumerate_lines", 0);
             ("sequence_search", 2); ("process_sequences", 0)]%nat.

(* ---- end of file: the model's [seq_eof] is "apply the definition's
   end-of-file action", the action being what the interpreter of the
   extracted tree of _process_sequence_results must produce *)
From Coq Require Import ZArith.
From SK Require Import Model.Sequence Model.SequenceSk.

Lemma filter_none {A} (l : list A) : filter (fun _ => true) l = l.
Proof.
  induction l as [|x l IH]; simpl; [reflexivity | rewrite IH; reflexivity].
Qed.

Lemma seq_eof_is_action sh k acc ln :
  seq_eof sh (k, acc) ln = apply_eof (eof_action sh k) acc ln.
Proof.
  unfold seq_eof, apply_eof, eof_action. simpl.
  destruct (started k && has_end sh).
  - destruct (end_empty sh) as [v|]; simpl.
    + unfold apply_ops. simpl. symmetry. apply filter_none.
    + unfold apply_ops. simpl. apply filter_ext. intros p.
      unfold keep_other. rewrite orb_false_r. reflexivity.
  - simpl. unfold apply_ops. simpl. symmetry. apply filter_none.
Qed.

(* ---- SequenceSearchResults.add / remove: what the model's dictionary
   operations do to the list stored under the key, in the form the
   translator extracts from the source (Gen/XSequence.v) *)
From SK Require Import Proofs.Sequence Proofs.SequenceMulti.

Lemma alist_get_absent {A} k (d : list (nat * list A)) :
  existsb (Nat.eqb k) (keys d) = false -> alist_get k d = [].
Proof.
  induction d as [|[k' l] d IH]; simpl; intros H; [reflexivity|].
  apply orb_false_iff in H. destruct H as [H1 H2].
  rewrite Nat.eqb_sym in H1. rewrite H1. apply IH. exact H2.
Qed.

Lemma dict_add_is {A} k (x : A) d :
  alist_get k (alist_add k x d)
  = if existsb (Nat.eqb k) (keys d) then alist_get k d ++ [x] else [x].
Proof.
  rewrite alist_get_add_same.
  destruct (existsb (Nat.eqb k) (keys d)) eqn:E; [reflexivity|].
  rewrite (alist_get_absent _ _ E). reflexivity.
Qed.

Lemma dict_remove_is k s (d : dict) :
  alist_get k (alist_update k (filter (keep_other s)) d)
  = if existsb (Nat.eqb k) (keys d)
    then filter (fun r => negb (Nat.eqb (fst r) s)) (alist_get k d)
    else alist_get k d.
Proof.
  rewrite alist_get_update_same by reflexivity.
  destruct (existsb (Nat.eqb k) (keys d)) eqn:E; [reflexivity|].
  rewrite (alist_get_absent _ _ E). reflexivity.
Qed.

(* calls of _process_sequence_results with the number of enclosing loops *)
Local Open Scope string_scope.
Definition eof_relevant (f : string) : bool :=
  String.eqb f "end_run_empty" || String.eqb f "end_run_other"
  || String.eqb f "results_add" || String.eqb f "buffer_append"
  || String.eqb f "flush".
Definition eof_calls (sk : list ev) : bool :=
  calls_eqb (filter (fun x => eof_relevant (fst x)) (call_depths 0 sk))
            [("end_run_empty", 1); ("results_add", 1);
             ("buffer_append", 2); ("flush", 2)]%nat.
