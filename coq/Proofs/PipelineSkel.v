(* C02 - boolean checkers for the extracted lock/queue skeletons
   (Gen/Skeleton.v: sk_get_results, sk_purge_results, sk_run_mp,
   sk_put_result) and the lemmas saying what a `true` means.  The checkers
   are evaluated on the skeletons regenerated from the source on every run
   (Props/C02.v); nothing here mentions a concrete skeleton. *)
From Coq Require Import String List Bool Arith Lia.
From SK Require Import Model.Skel.
Import ListNotations.
Open Scope string_scope.
Open Scope list_scope.

(* ------------------------------------------------------------ ev equality *)
Definition ev_eqb (x y : ev) : bool :=
  match x, y with
  | Acq a, Acq b | Rel a, Rel b | Rd a, Rd b | Wr a, Wr b
  | Call a, Call b | Handler a, Handler b | RaiseE a, RaiseE b =>
      String.eqb a b
  | LoopB, LoopB | LoopE, LoopE | IfB, IfB | Else, Else | IfE, IfE
  | TryB, TryB | TryElse, TryElse | FinallyB, FinallyB | TryE, TryE
  | Ret, Ret | Break, Break | Continue, Continue => true
  | _, _ => false
  end.

Lemma ev_eqb_eq x y : ev_eqb x y = true -> x = y.
Proof.
  destruct x, y; cbn; intros H; try discriminate; try reflexivity;
    apply String.eqb_eq in H; subst; reflexivity.
Qed.

Lemma ev_eqb_refl x : ev_eqb x x = true.
Proof. destruct x; cbn; auto; apply String.eqb_refl. Qed.

Fixpoint list_eqb {A} (eqb : A -> A -> bool) (a b : list A) : bool :=
  match a, b with
  | [], [] => true
  | x :: a', y :: b' => eqb x y && list_eqb eqb a' b'
  | _, _ => false
  end.

Lemma list_eqb_eq {A} (eqb : A -> A -> bool) :
  (forall x y, eqb x y = true -> x = y) ->
  forall a b, list_eqb eqb a b = true -> a = b.
Proof.
  intros He. induction a as [|x a IH]; intros [|y b] H; cbn in H;
    try discriminate; auto.
  apply andb_true_iff in H. destruct H as [H1 H2].
  f_equal; auto.
Qed.

(* ------------------------------------------ 1. get is followed by add ---- *)
Definition is_get (e : ev) : bool := ev_eqb e (Call "q_get").
Definition is_add (e : ev) : bool := ev_eqb e (Call "coll_add").
Definition is_get_or_add (e : ev) : bool := is_get e || is_add e.

(* every q_get is immediately followed by coll_add, and coll_add occurs
   nowhere else *)
Fixpoint get_then_add (sk : list ev) : bool :=
  match sk with
  | [] => true
  | e :: r =>
      if is_get e then
        match r with
        | e' :: r' => is_add e' && get_then_add r'
        | [] => false
        end
      else negb (is_add e) && get_then_add r
  end.

Lemma get_then_add_sound_len n : forall sk,
  (length sk <= n)%nat -> get_then_add sk = true ->
  forall pre post, sk = pre ++ Call "q_get" :: post ->
  exists post', post = Call "coll_add" :: post'.
Proof.
  induction n as [|n IH]; intros sk Hl H pre post E.
  - destruct sk; [|cbn in Hl; lia]. destruct pre; discriminate.
  - destruct sk as [|e r]; [destruct pre; discriminate|].
    cbn [get_then_add] in H. cbn [length] in Hl.
    destruct pre as [|x pre'].
    + cbn in E. inversion E; subst. cbn in H.
      destruct post as [|e' r']; [discriminate|].
      apply andb_true_iff in H. destruct H as [Ha _].
      apply ev_eqb_eq in Ha. subst. eauto.
    + cbn in E. inversion E; subst x r. clear E.
      destruct (is_get e) eqn:Eg.
      * destruct pre' as [|y pre''].
        -- cbn in H. discriminate H.
        -- cbn [app] in H. apply andb_true_iff in H. destruct H as [_ Hr].
           eapply (IH (pre'' ++ Call "q_get" :: post)); eauto.
           cbn [app length] in Hl. lia.
      * apply andb_true_iff in H. destruct H as [_ Hr].
        eapply (IH (pre' ++ Call "q_get" :: post)); eauto. lia.
Qed.

Lemma get_then_add_sound sk :
  get_then_add sk = true ->
  forall pre post, sk = pre ++ Call "q_get" :: post ->
  exists post', post = Call "coll_add" :: post'.
Proof. intros H. eapply get_then_add_sound_len; eauto. Qed.

(* ------------------------- 2. all_under (Model/Skel.v) means "lock held" *)
Lemma existsb_eqb_In l held :
  existsb (String.eqb l) held = true -> In l held.
Proof.
  intros H. apply existsb_exists in H. destruct H as [x [Hx E]].
  apply String.eqb_eq in E. subst. exact Hx.
Qed.

Lemma all_under_sound l p : forall pre held sk f post,
  all_under l p held sk = true ->
  sk = pre ++ Call f :: post -> p (Call f) = true ->
  In l (held_after held pre).
Proof.
  induction pre as [|x pre IH]; intros held sk f post H E Hp; subst sk.
  - cbn in H. rewrite Hp in H. apply andb_true_iff in H.
    destruct H as [H _]. cbn. apply existsb_eqb_In. exact H.
  - destruct x; cbn [app all_under held_after] in *;
      try (apply andb_true_iff in H; destruct H as [_ H]);
      eapply IH; eauto.
Qed.

(* ------------------------------------- 3. control context of every Break *)
Inductive frame :=
| FIf (guard : list ev) (in_else : bool)
| FLoop
| FTry.

Definition frame_eqb (a b : frame) : bool :=
  match a, b with
  | FIf g1 e1, FIf g2 e2 => list_eqb ev_eqb g1 g2 && Bool.eqb e1 e2
  | FLoop, FLoop | FTry, FTry => true
  | _, _ => false
  end.

Lemma frame_eqb_eq a b : frame_eqb a b = true -> a = b.
Proof.
  destruct a, b; cbn; intros H; try discriminate; auto.
  apply andb_true_iff in H. destruct H as [H1 H2].
  apply (list_eqb_eq ev_eqb ev_eqb_eq) in H1. apply Bool.eqb_prop in H2.
  subst. reflexivity.
Qed.

(* walker state: stack of open control frames (innermost first) and the
   maximal run of plain events (Rd/Wr/Call) immediately before the current
   position, most recent first.  The guard recorded for an `if` is that run:
   the shared reads/calls its test evaluates. *)
Definition wstate := (list frame * list ev)%type.

Definition wstep (st : wstate) (e : ev) : wstate :=
  let '(stack, recent) := st in
  match e with
  | IfB => (FIf (rev recent) false :: stack, [])
  | Else => (match stack with FIf g _ :: r => FIf g true :: r | _ => stack end,
             [])
  | IfE => (match stack with FIf _ _ :: r => r | _ => stack end, [])
  | LoopB => (FLoop :: stack, [])
  | LoopE => (match stack with FLoop :: r => r | _ => stack end, [])
  | TryB => (FTry :: stack, [])
  | TryE => (match stack with FTry :: r => r | _ => stack end, [])
  | Rd _ | Wr _ | Call _ => (stack, e :: recent)
  | _ => (stack, [])
  end.

(* control context at the end of a prefix *)
Definition ctx_after (pre : list ev) : list frame :=
  fst (fold_left wstep pre ([], [])).

Fixpoint break_ctxs (st : wstate) (sk : list ev) : list (list frame) :=
  match sk with
  | [] => []
  | e :: r =>
      (match e with Break => [fst st] | _ => [] end)
      ++ break_ctxs (wstep st e) r
  end.

Lemma break_ctxs_app st pre post :
  break_ctxs st (pre ++ Break :: post) =
  break_ctxs st pre ++ fst (fold_left wstep pre st)
                 :: break_ctxs (wstep (fold_left wstep pre st) Break) post.
Proof.
  revert st. induction pre as [|x pre IH]; intros st; cbn [app break_ctxs].
  - reflexivity.
  - rewrite IH, <- app_assoc. reflexivity.
Qed.

(* the skeleton has exactly one Break and its context is [c] *)
Definition only_break_in (c : list frame) (sk : list ev) : bool :=
  list_eqb (list_eqb frame_eqb) (break_ctxs ([], []) sk) [c].

Lemma only_break_in_sound c sk :
  only_break_in c sk = true ->
  forall pre post, sk = pre ++ Break :: post ->
  ctx_after pre = c /\ ~ In Break pre /\ ~ In Break post.
Proof.
  intros H pre post E. unfold only_break_in in H.
  apply (list_eqb_eq _ (list_eqb_eq _ frame_eqb_eq)) in H.
  subst sk. rewrite break_ctxs_app in H.
  assert (Hnil : forall st l, break_ctxs st l = [] -> ~ In Break l).
  { intros st l. revert st. induction l as [|x l IH]; intros st Hn Hin;
      [exact Hin|]. cbn [break_ctxs] in Hn.
    apply app_eq_nil in Hn. destruct Hn as [Hx Hl].
    destruct Hin as [->|Hin]; [discriminate|]. eapply IH; eauto. }
  destruct (break_ctxs ([], []) pre) as [|c1 l1] eqn:Epre.
  - cbn [app] in H. inversion H as [[Hc Hpost]].
    unfold ctx_after. repeat split; eauto.
  - cbn [app] in H. inversion H as [[Hc Hrest]].
    destruct l1; discriminate.
Qed.

(* _purge_results: the loop is left only in the else-branch of the test that
   read `expected` and the collection size, itself in the else-branch of the
   q_empty test *)
Definition purge_break_ctx : list frame :=
  [FIf [Rd "expected"; Rd "collection"] true; FIf [Call "q_empty"] true;
   FLoop].

(* --------------------------------------- 4. order of events in a skeleton *)
Fixpoint split_at (x : ev) (sk : list ev) : option (list ev * list ev) :=
  match sk with
  | [] => None
  | e :: r =>
      if ev_eqb e x then Some ([], r)
      else match split_at x r with
           | Some (a, b) => Some (e :: a, b)
           | None => None
           end
  end.

Lemma split_at_sound x sk a b :
  split_at x sk = Some (a, b) -> sk = a ++ x :: b /\ ~ In x a.
Proof.
  revert a b. induction sk as [|e r IH]; intros a b H; cbn in H;
    [discriminate|].
  destruct (ev_eqb e x) eqn:E.
  - inversion H; subst. apply ev_eqb_eq in E. subst. split; auto.
  - destruct (split_at x r) as [[a' b']|]; [|discriminate].
    inversion H; subst. destruct (IH a' b eq_refl) as [E1 E2]. subst r.
    split; [reflexivity|].
    intros [Hx|Hx]; [subst; rewrite ev_eqb_refl in E; discriminate|auto].
Qed.

Definition has (x : ev) (l : list ev) : bool := existsb (ev_eqb x) l.

Lemma has_In x l : has x l = true -> In x l.
Proof.
  intros H. apply existsb_exists in H. destruct H as [y [Hy E]].
  apply ev_eqb_eq in E. subst. exact Hy.
Qed.

Lemma not_has_In x l : has x l = false -> ~ In x l.
Proof.
  intros H Hin. unfold has in H.
  assert (existsb (ev_eqb x) l = true).
  { apply existsb_exists. exists x. split; auto. apply ev_eqb_refl. }
  congruence.
Qed.

(* _run_mp: every task is submitted and the collector is started before any
   future is waited for; future results are merged after as_completed and
   before the collector is stopped; the single purge comes after that stop,
   and nothing is submitted or merged after it *)
Definition run_mp_ordered (sk : list ev) : bool :=
  match split_at (Call "purge") sk with
  | Some (pre, post) =>
      negb (has (Call "purge") post)
      && negb (has (Call "future_result") post)
      && negb (has (Call "submit") post)
      && match split_at (Call "results_stop") pre with
         | Some (pre2, _) =>
             match split_at (Call "as_completed") pre2 with
             | Some (a, b) =>
                 has (Call "results_start") a && has (Call "submit") a
                 && has (Call "future_result") b
             | None => false
             end
         | None => false
         end
  | None => false
  end.

Lemma run_mp_ordered_sound sk :
  run_mp_ordered sk = true ->
  exists a b c d,
    sk = ((a ++ Call "as_completed" :: b) ++ Call "results_stop" :: c)
           ++ Call "purge" :: d
    /\ In (Call "submit") a /\ In (Call "results_start") a
    /\ In (Call "future_result") b
    /\ ~ In (Call "as_completed") a
    /\ ~ In (Call "results_stop") (a ++ Call "as_completed" :: b)
    /\ ~ In (Call "purge") ((a ++ Call "as_completed" :: b)
                              ++ Call "results_stop" :: c)
    /\ ~ In (Call "purge") d /\ ~ In (Call "future_result") d
    /\ ~ In (Call "submit") d.
Proof.
  unfold run_mp_ordered. intros H.
  destruct (split_at (Call "purge") sk) as [[pre post]|] eqn:E1;
    [|discriminate].
  apply andb_true_iff in H. destruct H as [H H4].
  apply andb_true_iff in H. destruct H as [H H3].
  apply andb_true_iff in H. destruct H as [H1 H2].
  destruct (split_at (Call "results_stop") pre) as [[pre2 c]|] eqn:E2;
    [|discriminate].
  destruct (split_at (Call "as_completed") pre2) as [[a b]|] eqn:E3;
    [|discriminate].
  apply andb_true_iff in H4. destruct H4 as [H4 K3].
  apply andb_true_iff in H4. destruct H4 as [K1 K2].
  destruct (split_at_sound _ _ _ _ E1) as [S1 N1].
  destruct (split_at_sound _ _ _ _ E2) as [S2 N2].
  destruct (split_at_sound _ _ _ _ E3) as [S3 N3].
  subst sk pre pre2.
  exists a, b, c, post.
  apply negb_true_iff in H1, H2, H3.
  apply not_has_In in H1, H2, H3.
  apply has_In in K1, K2, K3.
  repeat split; auto.
Qed.

(* put_result: the task's result counter is written exactly once per call,
   before the retry loop (a retry must not count the batch again) *)
Definition counted_once (sk : list ev) : bool :=
  match split_at LoopB sk with
  | Some (pre, post) =>
      negb (has (Wr "stats_results") post)
      && match split_at (Wr "stats_results") pre with
         | Some (_, rest) => negb (has (Wr "stats_results") rest)
                             && negb (has (Call "q_put") pre)
                             && negb (has (Call "q_put_block") pre)
         | None => false
         end
  | None => false
  end.

Lemma counted_once_sound sk :
  counted_once sk = true ->
  exists a b c,
    sk = (a ++ Wr "stats_results" :: b) ++ LoopB :: c
    /\ ~ In (Wr "stats_results") a /\ ~ In (Wr "stats_results") b
    /\ ~ In (Wr "stats_results") c
    /\ ~ In (Call "q_put") (a ++ Wr "stats_results" :: b)
    /\ ~ In (Call "q_put_block") (a ++ Wr "stats_results" :: b).
Proof.
  unfold counted_once. intros H.
  destruct (split_at LoopB sk) as [[pre post]|] eqn:E1; [|discriminate].
  apply andb_true_iff in H. destruct H as [H1 H].
  destruct (split_at (Wr "stats_results") pre) as [[a b]|] eqn:E2;
    [|discriminate].
  apply andb_true_iff in H. destruct H as [H H4].
  apply andb_true_iff in H. destruct H as [H2 H3].
  destruct (split_at_sound _ _ _ _ E1) as [S1 N1].
  destruct (split_at_sound _ _ _ _ E2) as [S2 N2].
  subst sk pre. exists a, b, post.
  apply negb_true_iff in H1, H2, H3, H4.
  apply not_has_In in H1, H2, H3, H4.
  repeat split; auto.
Qed.

(* _run_search: the sequence definitions are reset by the task itself, before
   the first line of the file is read and before any sequence matching: what
   a worker's search of file t produces does not depend on the state the
   definition objects had when the task was pickled for the worker *)
Definition search_resets_defs_first (sk : list ev) : bool :=
  match split_at (Call "enumerate_lines") sk with
  | Some (pre, _) =>
      has (Call "seq_reset") pre && negb (has (Call "sequence_search") pre)
      && negb (has (Call "simple_search") pre)
  | None => false
  end.

Lemma search_resets_defs_first_sound sk :
  search_resets_defs_first sk = true ->
  exists pre post,
    sk = pre ++ Call "enumerate_lines" :: post /\
    In (Call "seq_reset") pre /\ ~ In (Call "sequence_search") pre /\
    ~ In (Call "simple_search") pre /\ ~ In (Call "enumerate_lines") pre.
Proof.
  unfold search_resets_defs_first. intros H.
  destruct (split_at (Call "enumerate_lines") sk) as [[pre post]|] eqn:E;
    [|discriminate].
  apply andb_true_iff in H. destruct H as [H H3].
  apply andb_true_iff in H. destruct H as [H1 H2].
  destruct (split_at_sound _ _ _ _ E) as [S1 N1].
  apply negb_true_iff in H2, H3. apply not_has_In in H2, H3.
  apply has_In in H1. exists pre, post. auto.
Qed.
