(* Layer A of C04: inside the search budget (h1) the chunked scans disappear.
   try_find_line_with_date is a walk over LINES - backwards (merging an empty
   line into the line before it) or forwards - that stops at the first line
   whose start carries a timestamp, and __getitem__ is "backwards, else
   forwards".  H and A do not occur in the walks. *)
From Coq Require Import ZArith List Bool Lia.
From SK Require Import Model.Base Model.Seek Model.SinceSeek Spec.Lines
     Spec.C04 Proofs.Seek Proofs.SeekSpec Proofs.SinceSeek.
Import ListNotations.
Open Scope Z_scope.

(* ------------------------------------------------ facts about the lines *)
Lemma line_start_prev c o q : prev_lf c o = Some q -> line_start c o = q + 1.
Proof. unfold line_start. intros ->. reflexivity. Qed.

Lemma line_start_noprev c o : prev_lf c o = None -> line_start c o = 0.
Proof. unfold line_start. intros ->. reflexivity. Qed.

(* no line feed inside [line_start, o) *)
Lemma no_lf_in_line c o j :
  line_start c o <= j < o -> ~ lf_at c j.
Proof.
  unfold line_start. destruct (prev_lf c o) as [q|] eqn:E; intros Hj.
  - destruct (prev_lf_some c o q E) as (_ & _ & Hm). apply Hm. lia.
  - apply (prev_lf_none c o E). lia.
Qed.

Lemma next_lf_line_start c o :
  0 <= o <= lenZ c -> next_lf c (line_start c o) = next_lf c o.
Proof.
  intros Ho. pose proof (line_bounds c o Ho) as (Hs & _).
  destruct (next_lf c o) as [p|] eqn:E.
  - destruct (next_lf_some c o p ltac:(lia) E) as (H1 & H2 & H3).
    apply is_next_lf_fun; [lia|]. split; [lia|]. split; [exact H2|].
    intros j Hj. destruct (Z_lt_le_dec j o) as [Hlt|Hge].
    + apply (no_lf_in_line c o). lia.
    + apply H3. lia.
  - pose proof (next_lf_none c o ltac:(lia) E) as Hn.
    destruct (next_lf c (line_start c o)) as [p|] eqn:E2; [|reflexivity].
    exfalso. destruct (next_lf_some c (line_start c o) p ltac:(lia) E2) as (H1 & H2 & _).
    destruct (Z_lt_le_dec p o) as [Hlt|Hge].
    + apply (no_lf_in_line c o p); [lia|exact H2].
    + apply (Hn p Hge H2).
Qed.

Lemma next_lf_at_lf c s : lf_at c s -> next_lf c s = Some s.
Proof.
  intros Hl. destruct Hl as [H0 Hn]. apply is_next_lf_fun; [exact H0|].
  split; [lia|]. split; [split; assumption|]. intros j Hj. lia.
Qed.

(* the offset just after a line feed starts a line *)
Lemma line_start_after_lf c q :
  lf_at c q -> line_start c (q + 1) = q + 1.
Proof.
  intros Hl. apply line_start_prev. apply is_prev_lf_fun.
  split; [lia|]. split; [exact Hl|]. intros j Hj. lia.
Qed.

Lemma line_start_idem c o :
  0 <= o <= lenZ c -> line_start c (line_start c o) = line_start c o.
Proof.
  intros Ho. destruct (prev_lf c o) as [q|] eqn:E.
  - rewrite (line_start_prev c o q E).
    destruct (prev_lf_some c o q E) as (_ & Hl & _).
    apply line_start_after_lf. exact Hl.
  - rewrite (line_start_noprev c o E).
    apply line_start_noprev. destruct (prev_lf c 0) as [q|] eqn:E0;
      [|reflexivity].
    destruct (prev_lf_some c 0 q E0) as (Hq & (Hq0 & _) & _). lia.
Qed.

Section Walk.
  Variables (H A L W : Z) (tsw : list Z -> option Z) (c : list Z).
  Hypothesis HH : 0 < H.
  Hypothesis HA : 0 < A.

  (* the oracle as a function of the start offset of a line *)
  Definition ts (s : Z) : option Z := tsw (read c s W).

  Hypothesis h0 : empty_undated ts c.
  Hypothesis h1 : all_within_budget H A c.

  Lemma ll_date_ts s e : ll_date W tsw c (s, e) = ts (start_offset s).
  Proof. reflexivity. Qed.

  (* ---- try_find_line with one known line feed, inside the budget ------- *)
  Lemma tfl_plain o : 0 <= o <= lenZ c ->
    try_find_line H A c o None None = Line (exact_slf c o) (exact_elf c o).
  Proof.
    intros Ho. rewrite try_find_line_spec by assumption.
    rewrite (h1 o Ho). reflexivity.
  Qed.

  Lemma exact_slf_off_bounds o : 0 <= o <= lenZ c ->
    0 <= tok_off (exact_slf c o) <= o.
  Proof.
    intros Ho. unfold exact_slf. destruct (prev_lf c o) as [q|] eqn:E; cbn.
    - destruct (prev_lf_some c o q E) as (Hq & Hl & _).
      apply lf_at_lt in Hl. lia.
    - lia.
  Qed.

  Lemma exact_elf_off_bounds o : 0 <= o <= lenZ c ->
    o <= tok_off (exact_elf c o) <= lenZ c.
  Proof.
    intros Ho. unfold exact_elf. destruct (next_lf c o) as [p|] eqn:E; cbn.
    - destruct (next_lf_some c o p ltac:(lia) E) as (Hp & Hl & _).
      apply lf_at_lt in Hl. lia.
    - lia.
  Qed.

  Lemma exact_slf_ne o : exact_slf c o <> ErrMaxLine.
  Proof. unfold exact_slf. destruct (prev_lf c o); discriminate. Qed.
  Lemma exact_elf_ne o : exact_elf c o <> ErrMaxLine.
  Proof. unfold exact_elf. destruct (next_lf c o); discriminate. Qed.

  (* backwards step: the end line feed q is known *)
  Lemma tfl_known_elf o q : 0 <= o <= lenZ c -> o < q -> lf_at c q ->
    try_find_line H A c o None (Some q) = Line (exact_slf c o) (Found q).
  Proof.
    intros Ho Hq Hl. unfold try_find_line.
    rewrite find_token_reverse_spec by assumption.
    pose proof (h1 o Ho) as Hb. unfold within_budget in Hb.
    apply andb_true_iff in Hb. destruct Hb as [_ Hb].
    assert (E : scan_bwd H A c o = exact_slf c o).
    { unfold scan_bwd, exact_slf, bwd_in_budget in *.
      destruct (prev_lf c o); rewrite Hb; reflexivity. }
    rewrite E. pose proof (exact_slf_off_bounds o Ho) as Hs.
    pose proof (exact_slf_ne o) as Hne. apply lf_at_lt in Hl.
    destruct (exact_slf c o) as [x|x|] eqn:Es; [| |congruence]; cbn [tok_off] in *.
    - replace ((x <=? lenZ c) && (0 <=? x) && (q <=? lenZ c) && (0 <=? q) &&
               (x <=? q)) with true; [reflexivity|].
      symmetry. repeat (apply andb_true_intro; split); lia.
    - replace ((x <=? lenZ c) && (0 <=? x) && (q <=? lenZ c) && (0 <=? q) &&
               (x <=? q)) with true; [reflexivity|].
      symmetry. repeat (apply andb_true_intro; split); lia.
  Qed.

  (* forwards step: the start line feed q is known *)
  Lemma tfl_known_slf o q : 0 <= o <= lenZ c -> q < o -> lf_at c q ->
    try_find_line H A c o (Some q) None = Line (Found q) (exact_elf c o).
  Proof.
    intros Ho Hq Hl. unfold try_find_line.
    rewrite find_token_spec by assumption.
    pose proof (h1 o Ho) as Hb. unfold within_budget in Hb.
    apply andb_true_iff in Hb. destruct Hb as [Hb _].
    assert (E : scan_fwd H A c o = exact_elf c o).
    { unfold scan_fwd, exact_elf, fwd_in_budget in *.
      destruct (next_lf c o); rewrite Hb; reflexivity. }
    rewrite E. pose proof (exact_elf_off_bounds o Ho) as He.
    pose proof (exact_elf_ne o) as Hne. apply lf_at_lt in Hl.
    destruct (exact_elf c o) as [x|x|] eqn:Es; [| |congruence]; cbn [tok_off] in *.
    - replace ((q <=? lenZ c) && (0 <=? q) && (x <=? lenZ c) && (0 <=? x) &&
               (q <=? x)) with true; [reflexivity|].
      symmetry. repeat (apply andb_true_intro; split); lia.
    - replace ((q <=? lenZ c) && (0 <=? q) && (x <=? lenZ c) && (0 <=? x) &&
               (q <=? x)) with true; [reflexivity|].
      symmetry. repeat (apply andb_true_intro; split); lia.
  Qed.

  (* ---- the walks -------------------------------------------------------- *)
  (* backwards from the line containing [off]: examine the start s of the
     line; if undated continue from offset s - 2 (the byte before the line
     feed that precedes the line; if that byte is itself a line feed the
     empty line [s-1] is merged into the line before it and never examined) *)
  Fixpoint bwd (fuel : nat) (off : Z) : option Z :=
    match fuel with
    | O => None
    | S f =>
        let s := line_start c off in
        match ts s with
        | Some _ => Some s
        | None => if s <? 2 then None else bwd f (s - 2)
        end
    end.

  (* forwards from the line starting at [s] *)
  Fixpoint fwd (fuel : nat) (s : Z) : option Z :=
    match fuel with
    | O => None
    | S f =>
        match ts s with
        | Some _ => Some s
        | None => match next_lf c s with
                  | Some p => fwd f (p + 1)
                  | None => None
                  end
        end
    end.

  (* what the code returns for a walk result *)
  Definition wd_matches (r : wd_res) (w : option Z) : Prop :=
    match w with
    | Some s => exists l, r = WdLine l /\ ll_start l = s /\ 1 <= ll_len l /\
                          ll_date W tsw c l = ts s /\ ts s <> None
    | None => r = WdNone
    end.

  Lemma tfld_bwd : forall fuel off lfo,
    0 <= off <= lenZ c ->
    (lfo = None \/ (lfo = Some (off + 1) /\ lf_at c (off + 1))) ->
    wd_matches (tfld H A W tsw c fuel off lfo false) (bwd fuel off).
  Proof.
    induction fuel as [|f IH]; intros off lfo Ho Hlfo; [reflexivity|].
    cbn [tfld bwd]. cbv zeta.
    pose proof (line_bounds c off Ho) as (Hs & He & _).
    assert (Et : exists e,
               try_find_line H A c off None lfo = Line (exact_slf c off) e /\
               (forall d, ts (line_start c off) = Some d ->
                          1 <= ll_len (exact_slf c off, e))).
    { destruct Hlfo as [->|[-> Hl]].
      - exists (exact_elf c off). split; [apply tfl_plain; exact Ho|].
        intros d Hd. unfold ll_len. cbn [fst snd].
        rewrite exact_slf_start, exact_elf_end.
        destruct (next_lf c off) as [p|] eqn:En; [|lia].
        destruct (next_lf_some c off p ltac:(lia) En) as (Hp & Hlp & _).
        destruct (Z.eq_dec p (line_start c off)) as [Epq|]; [|lia].
        exfalso. rewrite h0 in Hd; [discriminate|]. left. rewrite <- Epq.
        exact Hlp.
      - exists (Found (off + 1)). split.
        + apply tfl_known_elf; [exact Ho|lia|exact Hl].
        + intros d Hd. unfold ll_len. cbn [fst snd end_offset tok_found tok_off].
          rewrite exact_slf_start. lia. }
    destruct Et as (e & Et & Hlen). rewrite Et.
    rewrite ll_date_ts, exact_slf_start.
    destruct (ts (line_start c off)) as [d|] eqn:Ed.
    - cbn. exists (exact_slf c off, e). split; [reflexivity|].
      split; [apply exact_slf_start|]. split; [eapply Hlen; reflexivity|].
      split; [rewrite ll_date_ts, exact_slf_start; first [exact Ed|reflexivity]|].
      rewrite Ed. discriminate.
    - (* undated: step back *)
      unfold exact_slf. destruct (prev_lf c off) as [q|] eqn:Ep; cbn [tok_off].
      + pose proof (line_start_prev c off q Ep) as Els.
        destruct (prev_lf_some c off q Ep) as (Hq & Hlq & _).
        pose proof (lf_at_lt _ _ Hlq) as Hqb.
        rewrite Els in *.
        destruct (q + 1 <? 2) eqn:E2.
        * replace ((q + -1 <? 0) || (lenZ c <? q + -1)) with true by lia.
          reflexivity.
        * replace ((q + -1 <? 0) || (lenZ c <? q + -1)) with false by lia.
          replace (q + 1 - 2) with (q + -1) by lia.
          apply IH; [lia|]. right.
          replace (q + -1 + 1) with q by lia. split; [reflexivity|exact Hlq].
      + rewrite (line_start_noprev c off Ep). cbn. reflexivity.
  Qed.

  (* forwards, continuing after a known line feed at [s - 1] *)
  Lemma tfld_fwd_known : forall fuel s,
    1 <= s <= lenZ c -> lf_at c (s - 1) ->
    wd_matches (tfld H A W tsw c fuel s (Some (s - 1)) true) (fwd fuel s).
  Proof.
    induction fuel as [|f IH]; intros s Hs Hl; [reflexivity|].
    cbn [tfld fwd].
    rewrite tfl_known_slf by (try lia; exact Hl).
    rewrite ll_date_ts. cbn [start_offset tok_found tok_off].
    replace (s - 1 + 1) with s by lia.
    destruct (ts s) as [d|] eqn:Ed.
    - cbn. exists (Found (s - 1), exact_elf c s). split; [reflexivity|].
      split; [unfold ll_start; cbn; lia|]. split.
      + unfold ll_len. cbn [fst snd start_offset tok_found tok_off].
        rewrite exact_elf_end.
        destruct (next_lf c s) as [p|] eqn:En; [|lia].
        destruct (next_lf_some c s p ltac:(lia) En) as (Hp & Hlp & _).
        destruct (Z.eq_dec p s) as [Eps|]; [|lia].
        exfalso. rewrite h0 in Ed; [discriminate|]. left. rewrite <- Eps.
        exact Hlp.
      + split; [rewrite ll_date_ts; cbn; replace (s - 1 + 1) with s by lia;
                first [exact Ed|reflexivity]|]. rewrite Ed. discriminate.
    - unfold exact_elf. destruct (next_lf c s) as [p|] eqn:En; cbn [tok_off].
      + destruct (next_lf_some c s p ltac:(lia) En) as (Hp & Hlp & _).
        pose proof (lf_at_lt _ _ Hlp) as Hpb.
        replace ((p + 1 <? 0) || (lenZ c <? p + 1)) with false by lia.
        replace (Some p) with (Some (p + 1 - 1)) by (f_equal; lia).
        apply IH; [lia|]. replace (p + 1 - 1) with p by lia. exact Hlp.
      + replace ((lenZ c + 1 <? 0) || (lenZ c <? lenZ c + 1)) with true by lia.
        reflexivity.
  Qed.

  (* forwards, first call: no line feed known *)
  Lemma tfld_fwd : forall fuel off,
    0 <= off <= lenZ c ->
    wd_matches (tfld H A W tsw c fuel off None true)
               (fwd fuel (line_start c off)).
  Proof.
    intros [|f] off Ho; [reflexivity|].
    cbn [tfld fwd]. rewrite tfl_plain by exact Ho.
    rewrite ll_date_ts, exact_slf_start.
    pose proof (line_bounds c off Ho) as (Hs & He & _).
    rewrite next_lf_line_start by exact Ho.
    destruct (ts (line_start c off)) as [d|] eqn:Ed.
    - cbn. exists (exact_slf c off, exact_elf c off). split; [reflexivity|].
      split; [apply exact_slf_start|]. split.
      + unfold ll_len. cbn [fst snd]. rewrite exact_slf_start, exact_elf_end.
        destruct (next_lf c off) as [p|] eqn:En; [|lia].
        destruct (next_lf_some c off p ltac:(lia) En) as (Hp & Hlp & _).
        destruct (Z.eq_dec p (line_start c off)) as [Epq|]; [|lia].
        exfalso. rewrite h0 in Ed; [discriminate|]. left. rewrite <- Epq.
        exact Hlp.
      + split; [rewrite ll_date_ts, exact_slf_start; first [exact Ed|reflexivity]|].
        rewrite Ed. discriminate.
    - unfold exact_elf. destruct (next_lf c off) as [p|] eqn:En; cbn [tok_off].
      + destruct (next_lf_some c off p ltac:(lia) En) as (Hp & Hlp & _).
        pose proof (lf_at_lt _ _ Hlp) as Hpb.
        replace ((p + 1 <? 0) || (lenZ c <? p + 1)) with false by lia.
        replace (Some p) with (Some (p + 1 - 1)) by (f_equal; lia).
        apply tfld_fwd_known; [lia|]. replace (p + 1 - 1) with p by lia.
        exact Hlp.
      + replace ((lenZ c + 1 <? 0) || (lenZ c <? lenZ c + 1)) with true by lia.
        reflexivity.
  Qed.

  (* ---- __getitem__ as a walk -------------------------------------------- *)
  (* start of the dated line selected for offset o: backwards, else forwards *)
  Definition sel_start (o : Z) : option Z :=
    match bwd (Z.to_nat L) o with
    | Some s => Some s
    | None => fwd (Z.to_nat L) (line_start c (o + 1))
    end.

  Lemma wd_matches_usable r s :
    wd_matches r (Some s) ->
    exists l d, r = WdLine l /\ wd_unusable W tsw c r = false /\
                ll_start l = s /\ ll_date W tsw c l = Some d /\ ts s = Some d /\
                ll_truthy l = true.
  Proof.
    intros (l & -> & Hs & Hlen & Hd & Hne).
    destruct (ts s) as [d|] eqn:Ed; [|congruence].
    exists l, d. split; [reflexivity|].
    assert (Ht : ll_truthy l = true).
    { unfold ll_truthy. apply negb_true_iff. lia. }
    split; [cbn; rewrite Ht, Hd; reflexivity|].
    repeat split; assumption.
  Qed.

  Theorem getitem_walk since st o : 0 <= o < lenZ c ->
    match sel_start o with
    | Some s => exists l d,
        ts s = Some d /\ ll_start l = s /\ ll_truthy l = true /\
        forall since' st',
          getitem H A L W tsw c since' st' o =
          GiDate d (true, if since' <=? d then Some l else snd st')
    | None => getitem H A L W tsw c since st o = GiTooMany
    end.
  Proof.
    intros Ho. unfold sel_start.
    pose proof (tfld_bwd (Z.to_nat L) o None ltac:(lia) (or_introl eq_refl))
      as Hb.
    pose proof (tfld_fwd (Z.to_nat L) (o + 1) ltac:(lia)) as Hf.
    destruct (bwd (Z.to_nat L) o) as [s|] eqn:Eb.
    - destruct (wd_matches_usable _ _ Hb) as (l & d & Er & Hu & Hs & Hd & Hts & Ht).
      exists l, d. repeat split; try assumption.
      intros since' st'. unfold getitem, try_find_line_with_date.
      rewrite Er in *. rewrite Hu. rewrite Hu. rewrite Hd. reflexivity.
    - cbn in Hb.
      destruct (fwd (Z.to_nat L) (line_start c (o + 1))) as [s|] eqn:Ef.
      + destruct (wd_matches_usable _ _ Hf) as (l & d & Er & Hu & Hs & Hd & Hts & Ht).
        exists l, d. repeat split; try assumption.
        intros since' st'. unfold getitem, try_find_line_with_date.
        rewrite Hb. cbn [wd_unusable]. rewrite Er in *. rewrite Hu, Hd.
        reflexivity.
      + cbn in Hf. unfold getitem, try_find_line_with_date.
        rewrite Hb. cbn [wd_unusable]. rewrite Hf. reflexivity.
  Qed.
End Walk.
