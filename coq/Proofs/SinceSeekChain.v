(* Layers B and C of C04:
   B  what the walks of Proofs/SinceSeekWalk.v find when there are no L
      consecutive undated lines: the nearest dated line at or before the
      probed line, else the first dated line of the file;
   C  the looked-up date is monotone in the offset when the dated lines are
      time-ordered, so bisect_left (Proofs/Bisect.v) ends on the first
      in-window line, and apply_to_file positions the file there. *)
From Coq Require Import ZArith List Bool Lia.
From SK Require Import Model.Base Model.Seek Model.SinceSeek Spec.Lines
     Spec.C04 Proofs.Seek Proofs.SeekSpec Proofs.SinceSeek
     Proofs.SinceSeekWalk Proofs.Bisect.
Import ListNotations.
Open Scope Z_scope.

(* -------------------------------------------------- more facts on lines *)
Lemma line_start_0 c : line_start c 0 = 0.
Proof.
  apply line_start_noprev. destruct (prev_lf c 0) as [q|] eqn:E; [|reflexivity].
  destruct (prev_lf_some c 0 q E) as (Hq & (Hq0 & _) & _). lia.
Qed.

Lemma line_start_real c s : real_line_start c s -> line_start c s = s.
Proof.
  intros [->|[Hl _]]; [apply line_start_0|].
  assert (line_start c (s - 1 + 1) = s - 1 + 1)
    by (apply line_start_after_lf; exact Hl).
  replace (s - 1 + 1) with s in * by lia. assumption.
Qed.

Lemma real_bounds c s : real_line_start c s -> 0 <= s <= lenZ c.
Proof.
  intros [->|[Hl Hn]]; [pose proof (lenZ_nonneg c); lia|].
  apply lf_at_lt in Hl. lia.
Qed.

Lemma line_start_is_real c o : 0 <= o < lenZ c ->
  real_line_start c (line_start c o).
Proof.
  intros Ho. unfold line_start. destruct (prev_lf c o) as [q|] eqn:E.
  - destruct (prev_lf_some c o q E) as (Hq & Hl & _). right.
    replace (q + 1 - 1) with q by lia. split; [exact Hl|lia].
  - left. reflexivity.
Qed.

(* no line start strictly inside a line *)
Lemma no_real_inside c o s' :
  real_line_start c s' -> line_start c o < s' -> s' <= o -> False.
Proof.
  intros [->|[Hl _]] H1 H2.
  - unfold line_start in H1. destruct (prev_lf c o) as [q|] eqn:E; [|lia].
    destruct (prev_lf_some c o q E) as (_ & (Hq0 & _) & _). lia.
  - apply (no_lf_in_line c o (s' - 1)); [lia|exact Hl].
Qed.

(* stepping over a byte that is not a line feed stays in the line *)
Lemma line_start_step c o :
  0 <= o -> ~ lf_at c o -> line_start c (o + 1) = line_start c o.
Proof.
  intros Ho Hn. unfold line_start at 2.
  destruct (prev_lf c o) as [q|] eqn:E.
  - destruct (prev_lf_some c o q E) as (Hq & Hl & Hm).
    apply line_start_prev. apply is_prev_lf_fun.
    split; [lia|]. split; [exact Hl|]. intros j Hj.
    destruct (Z.eq_dec j o) as [->|Hne]; [exact Hn|]. apply Hm. lia.
  - apply line_start_noprev. destruct (prev_lf c (o + 1)) as [q|] eqn:E2;
      [|reflexivity].
    exfalso. destruct (prev_lf_some c (o + 1) q E2) as (Hq & Hl & _).
    destruct (Z.eq_dec q o) as [->|Hne]; [exact (Hn Hl)|].
    apply (prev_lf_none c o E q); [lia|exact Hl].
Qed.

(* the line that ends with the line feed at [p = next_lf s] starts at [s] *)
Lemma line_start_of_next c s p :
  real_line_start c s -> next_lf c s = Some p -> line_start c p = s.
Proof.
  intros Hr En. pose proof (real_bounds c s Hr) as Hb.
  destruct (next_lf_some c s p ltac:(lia) En) as (Hp & Hlp & Hm).
  destruct Hr as [->|[Hl _]].
  - apply line_start_noprev. destruct (prev_lf c p) as [q|] eqn:E;
      [|reflexivity].
    exfalso. destruct (prev_lf_some c p q E) as (Hq & Hlq & _).
    apply (Hm q); [destruct Hlq; lia|exact Hlq].
  - assert (line_start c p = s - 1 + 1); [|lia]. apply line_start_prev.
    apply is_prev_lf_fun. split; [lia|]. split; [exact Hl|].
    intros j Hj. apply Hm. lia.
Qed.

Lemma prev_start_real c s :
  real_line_start c s -> 0 < s ->
  real_line_start c (prev_start c s) /\ prev_start c s < s /\
  forall s', real_line_start c s' -> prev_start c s < s' -> s' < s -> False.
Proof.
  intros Hr Hs. pose proof (real_bounds c s Hr) as Hb.
  destruct Hr as [->|[Hl Hn]]; [lia|]. unfold prev_start.
  pose proof (line_bounds c (s - 1) ltac:(lia)) as (Hls & _).
  split; [|split; [lia|]].
  - apply line_start_is_real. lia.
  - intros s' Hr' H1 H2. apply (no_real_inside c (s - 1) s' Hr' H1). lia.
Qed.

Lemma next_lf_past_end c o : lenZ c <= o -> next_lf c o = None.
Proof.
  intros Ho. pose proof (lenZ_nonneg c).
  destruct (next_lf c o) as [p|] eqn:E; [|reflexivity].
  destruct (next_lf_some c o p ltac:(lia) E) as (Hp & Hl & _).
  apply lf_at_lt in Hl. lia.
Qed.

(* ------------------------------------------------------------- Layer B *)
Inductive w3 : Type := Hit (s : Z) | Edge | Out.

Section Chain.
  Variables (H A L W : Z) (tsw : list Z -> option Z) (c : list Z).
  Hypothesis HH : 0 < H.
  Hypothesis HA : 0 < A.
  Hypothesis HL : 0 < L.
  Notation ts := (ts W tsw c).
  Notation bwd := (bwd W tsw c).
  Notation fwd := (fwd W tsw c).
  Hypothesis h0 : empty_undated ts c.
  Hypothesis h1 : all_within_budget H A c.

  (* the walks over TRUE lines (no merging), with three outcomes: a dated
     line, the edge of the file, or [fuel] undated lines in a row *)
  Fixpoint bwdT (fuel : nat) (s : Z) : w3 :=
    match fuel with
    | O => Out
    | S f =>
        match ts s with
        | Some _ => Hit s
        | None => match f with
                  | O => Out
                  | S _ => if s =? 0 then Edge else bwdT f (prev_start c s)
                  end
        end
    end.

  Fixpoint fwdT (fuel : nat) (s : Z) : w3 :=
    match fuel with
    | O => Out
    | S f =>
        match ts s with
        | Some _ => Hit s
        | None => match next_lf c s with
                  | Some p => if p + 1 <? lenZ c then fwdT f (p + 1) else Edge
                  | None => Edge
                  end
        end
    end.

  Lemma bwdT_out_iff : forall k s, (1 <= k)%nat ->
    (bwdT k s = Out <-> undated_run_back ts c k s = true).
  Proof.
    induction k as [|k IH]; intros s Hk; [lia|].
    cbn [bwdT undated_run_back]. unfold dated.
    destruct (ts s) as [d|]; cbn [negb andb]; [split; discriminate|].
    destruct k as [|k']; [split; reflexivity|].
    destruct (s =? 0); cbn [negb andb]; [split; discriminate|].
    apply IH. lia.
  Qed.

  Lemma bwdT_mono : forall f x r,
    bwdT f x = r -> r <> Out -> bwdT (S f) x = r.
  Proof.
    induction f as [|f IH]; intros x r E Hr; [cbn in E; congruence|].
    cbn [bwdT] in E. cbn [bwdT]. destruct (ts x) as [d|]; [exact E|].
    destruct f as [|f']; [congruence|].
    destruct (x =? 0); [exact E|]. apply IH; assumption.
  Qed.

  Lemma bwd_line_start f o : 0 <= o <= lenZ c ->
    bwd f o = bwd f (line_start c o).
  Proof.
    intros Ho. destruct f as [|f]; [reflexivity|]. cbn [SinceSeekWalk.bwd].
    rewrite line_start_idem by exact Ho. reflexivity.
  Qed.

  (* the code's backward walk finds what the walk over true lines finds *)
  Lemma bwd_follows : forall f s, real_line_start c s ->
    (forall d, bwdT f s = Hit d -> bwd f s = Some d) /\
    (bwdT f s = Edge -> bwd f s = None).
  Proof.
    induction f as [|f IH]; intros s Hr; [split; [intros d|]; discriminate|].
    pose proof (real_bounds c s Hr) as Hb.
    cbn [bwdT SinceSeekWalk.bwd]. rewrite (line_start_real c s Hr).
    destruct (ts s) as [d0|] eqn:Ed.
    { split; [intros d E; inversion E; reflexivity|discriminate]. }
    destruct f as [|f1]; [split; [intros d|]; discriminate|].
    destruct (s =? 0) eqn:Es0.
    { replace (s <? 2) with true by lia.
      split; [intros d; discriminate|reflexivity]. }
    destruct (s <? 2) eqn:Es2.
    { (* s = 1: the line before is the empty line at 0 *)
      assert (s = 1) by lia. subst s.
      assert (Hl0 : lf_at c 0) by (destruct Hr as [|[Hl _]]; [lia|exact Hl]).
      unfold prev_start. replace (1 - 1) with 0 by lia. rewrite line_start_0.
      cbn [bwdT]. rewrite (h0 0 (or_introl Hl0)).
      destruct f1; split; try (intros d); try discriminate; reflexivity. }
    assert (Hl1 : lf_at c (s - 1)) by (destruct Hr as [|[Hl _]]; [lia|exact Hl]).
    rewrite bwd_line_start by lia.
    destruct (prev_start_real c s Hr ltac:(lia)) as (Hpr & Hplt & _).
    destruct (Z.eq_dec (nth (Z.to_nat (s - 2)) c 0) 10) as [E10|N10].
    - (* the line before is the empty line at s - 1: merged *)
      assert (Hl2 : lf_at c (s - 2)) by (split; [lia|exact E10]).
      assert (Eps : prev_start c s = s - 1).
      { unfold prev_start. replace (s - 1) with (s - 2 + 1) by lia.
        apply line_start_after_lf. exact Hl2. }
      rewrite Eps in *.
      assert (Ept : prev_start c (s - 1) = line_start c (s - 2))
        by (unfold prev_start; f_equal; lia).
      destruct (prev_start_real c (s - 1) Hpr ltac:(lia)) as (Hpr2 & _).
      rewrite Ept in Hpr2.
      cbn [bwdT]. rewrite (h0 (s - 1) (or_introl Hl1)).
      destruct f1 as [|f2]; [split; [intros d|]; discriminate|].
      replace (s - 1 =? 0) with false by lia. rewrite Ept.
      destruct (IH (line_start c (s - 2)) Hpr2) as [IH1 IH2].
      split.
      + intros d E. apply IH1. apply bwdT_mono; [exact E|discriminate].
      + intros E. apply IH2. apply bwdT_mono; [exact E|discriminate].
    - (* the byte before the line feed belongs to the previous line *)
      assert (Eps : line_start c (s - 2) = prev_start c s).
      { unfold prev_start. replace (s - 1) with (s - 2 + 1) by lia.
        symmetry. apply line_start_step; [lia|]. intros [_ Hx]. exact (N10 Hx). }
      rewrite Eps. apply IH. exact Hpr.
  Qed.

  (* what the walk over true lines finds *)
  Lemma bwdT_sem : forall f s, real_line_start c s ->
    (forall d, bwdT f s = Hit d ->
       real_line_start c d /\ d <= s /\ ts d <> None /\
       forall s', real_line_start c s' -> d < s' -> s' <= s -> ts s' = None) /\
    (bwdT f s = Edge ->
       forall s', real_line_start c s' -> s' <= s -> ts s' = None).
  Proof.
    induction f as [|f IH]; intros s Hr; [split; [intros d|]; discriminate|].
    pose proof (real_bounds c s Hr) as Hb. cbn [bwdT].
    destruct (ts s) as [d0|] eqn:Ed.
    { split; [|discriminate]. intros d E. inversion E; subst d.
      split; [exact Hr|]. split; [lia|]. split; [congruence|]. intros; lia. }
    destruct f as [|f1]; [split; [intros d|]; discriminate|].
    destruct (s =? 0) eqn:Es0.
    { split; [intros d; discriminate|]. intros _ s' Hr' Hle.
      pose proof (real_bounds c s' Hr'). replace s' with s by lia. exact Ed. }
    destruct (prev_start_real c s Hr ltac:(lia)) as (Hpr & Hplt & Hbetween).
    destruct (IH (prev_start c s) Hpr) as [IH1 IH2]. split.
    - intros d E. destruct (IH1 d E) as (Hrd & Hdle & Hdd & Hund).
      split; [exact Hrd|]. split; [lia|]. split; [exact Hdd|].
      intros s' Hr' H1 H2. destruct (Z.eq_dec s' s) as [->|Hne]; [exact Ed|].
      destruct (Z_le_gt_dec s' (prev_start c s)) as [Hle|Hgt].
      + apply Hund; assumption.
      + exfalso. apply (Hbetween s' Hr'); lia.
    - intros E s' Hr' Hle. destruct (Z.eq_dec s' s) as [->|Hne]; [exact Ed|].
      destruct (Z_le_gt_dec s' (prev_start c s)) as [Hle'|Hgt].
      + apply (IH2 E); assumption.
      + exfalso. apply (Hbetween s' Hr'); lia.
  Qed.

  Lemma fwd_follows : forall f s, 0 <= s <= lenZ c ->
    (forall d, fwdT f s = Hit d -> fwd f s = Some d) /\
    (fwdT f s = Edge -> fwd f s = None).
  Proof.
    induction f as [|f IH]; intros s Hs; [split; [intros d|]; discriminate|].
    cbn [fwdT SinceSeekWalk.fwd].
    destruct (ts s) as [d0|] eqn:Ed.
    { split; [intros d E; inversion E; reflexivity|discriminate]. }
    destruct (next_lf c s) as [p|] eqn:En; [|split; [intros d; discriminate|reflexivity]].
    destruct (next_lf_some c s p ltac:(lia) En) as (Hp & Hlp & _).
    pose proof (lf_at_lt _ _ Hlp) as Hpb.
    destruct (p + 1 <? lenZ c) eqn:Elt; [apply IH; lia|].
    split; [intros d; discriminate|]. intros _.
    assert (p + 1 = lenZ c) by lia.
    destruct f as [|f']; [reflexivity|]. cbn [SinceSeekWalk.fwd].
    rewrite (h0 (p + 1)) by (right; lia).
    rewrite next_lf_past_end by lia. reflexivity.
  Qed.

  Lemma fwdT_sem : forall f s, real_line_start c s ->
    (forall d, fwdT f s = Hit d ->
       real_line_start c d /\ s <= d /\ ts d <> None /\
       forall s', real_line_start c s' -> s <= s' -> s' < d -> ts s' = None) /\
    (fwdT f s = Edge ->
       forall s', real_line_start c s' -> s <= s' -> ts s' = None).
  Proof.
    induction f as [|f IH]; intros s Hr; [split; [intros d|]; discriminate|].
    pose proof (real_bounds c s Hr) as Hb. cbn [fwdT].
    destruct (ts s) as [d0|] eqn:Ed.
    { split; [|discriminate]. intros d E. inversion E; subst d.
      split; [exact Hr|]. split; [lia|]. split; [congruence|]. intros; lia. }
    (* real line starts after s lie after the next line feed *)
    assert (Hafter : forall s', real_line_start c s' -> s < s' ->
                     exists p, next_lf c s = Some p /\ p + 1 <= s').
    { intros s' [->|[Hl Hn]] Hlt; [lia|].
      destruct (next_lf c s) as [p|] eqn:En.
      - exists p. split; [reflexivity|].
        destruct (next_lf_some c s p ltac:(lia) En) as (_ & _ & Hm).
        destruct (Z_lt_le_dec (s' - 1) p) as [Hx|Hx]; [|lia].
        exfalso. apply (Hm (s' - 1)); [lia|exact Hl].
      - exfalso. apply (next_lf_none c s ltac:(lia) En (s' - 1)); [lia|exact Hl]. }
    destruct (next_lf c s) as [p|] eqn:En.
    - destruct (next_lf_some c s p ltac:(lia) En) as (Hp & Hlp & _).
      pose proof (lf_at_lt _ _ Hlp) as Hpb.
      destruct (p + 1 <? lenZ c) eqn:Elt.
      + assert (Hr1 : real_line_start c (p + 1)).
        { right. replace (p + 1 - 1) with p by lia. split; [exact Hlp|lia]. }
        destruct (IH (p + 1) Hr1) as [IH1 IH2]. split.
        * intros d E. destruct (IH1 d E) as (Hrd & Hdle & Hdd & Hund).
          split; [exact Hrd|]. split; [lia|]. split; [exact Hdd|].
          intros s' Hr' H1 H2. destruct (Z.eq_dec s' s) as [->|Hne]; [exact Ed|].
          destruct (Hafter s' Hr' ltac:(lia)) as (p' & Ep' & Hp').
          inversion Ep'; subst p'. apply Hund; try assumption; lia.
        * intros E s' Hr' Hle. destruct (Z.eq_dec s' s) as [->|Hne]; [exact Ed|].
          destruct (Hafter s' Hr' ltac:(lia)) as (p' & Ep' & Hp').
          inversion Ep'; subst p'. apply (IH2 E); try assumption; lia.
      + split; [intros d; discriminate|]. intros _ s' Hr' Hle.
        destruct (Z.eq_dec s' s) as [->|Hne]; [exact Ed|].
        destruct (Hafter s' Hr' ltac:(lia)) as (p' & Ep' & Hp').
        inversion Ep'; subst p'. pose proof (real_bounds c s' Hr').
        destruct Hr' as [->|[_ Hn]]; lia.
    - split; [intros d; discriminate|]. intros _ s' Hr' Hle.
      destruct (Z.eq_dec s' s) as [->|Hne]; [exact Ed|].
      destruct (Hafter s' Hr' ltac:(lia)) as (p' & Ep' & _). discriminate.
  Qed.

  (* fuel exhausted forwards = that many undated lines in a row, seen from
     the last of them backwards *)
  Lemma fwdT_out : forall f s k,
    real_line_start c s ->
    (k = O \/ (0 < s /\ undated_run_back ts c k (prev_start c s) = true)) ->
    fwdT f s = Out -> (1 <= k + f)%nat ->
    exists u, real_line_start c u /\ undated_run_back ts c (k + f) u = true.
  Proof.
    induction f as [|f IH]; intros s k Hr Hk E Hkf.
    - destruct Hk as [->|[Hs Hk]]; [lia|].
      exists (prev_start c s). split.
      + apply prev_start_real; assumption.
      + rewrite Nat.add_0_r. exact Hk.
    - pose proof (real_bounds c s Hr) as Hb. cbn [fwdT] in E.
      destruct (ts s) as [d0|] eqn:Ed; [discriminate|].
      destruct (next_lf c s) as [p|] eqn:En; [|discriminate].
      destruct (next_lf_some c s p ltac:(lia) En) as (Hp & Hlp & _).
      pose proof (lf_at_lt _ _ Hlp) as Hpb.
      destruct (p + 1 <? lenZ c) eqn:Elt; [|discriminate].
      assert (Hr1 : real_line_start c (p + 1)).
      { right. replace (p + 1 - 1) with p by lia. split; [exact Hlp|lia]. }
      assert (Eprev : prev_start c (p + 1) = s).
      { unfold prev_start. replace (p + 1 - 1) with p by lia.
        apply line_start_of_next; assumption. }
      replace (k + S f)%nat with (S k + f)%nat by lia.
      apply (IH (p + 1) (S k) Hr1); [|exact E|lia].
      right. split; [lia|]. rewrite Eprev. cbn [undated_run_back].
      unfold dated. rewrite Ed. cbn [negb andb].
      destruct k as [|k']; [reflexivity|].
      destruct Hk as [Hk|[Hs Hk]]; [discriminate|].
      replace (s =? 0) with false by lia. cbn [negb andb]. exact Hk.
  Qed.

  Hypothesis h3 : no_long_undated_run L ts c.

  Lemma bwdT_not_out s : real_line_start c s -> bwdT (Z.to_nat L) s <> Out.
  Proof.
    intros Hr E. apply bwdT_out_iff in E; [|lia].
    rewrite (h3 s Hr) in E. discriminate.
  Qed.

  Lemma fwdT_not_out s : real_line_start c s -> fwdT (Z.to_nat L) s <> Out.
  Proof.
    intros Hr E.
    destruct (fwdT_out (Z.to_nat L) s O Hr (or_introl eq_refl) E ltac:(lia))
      as (u & Hu & Hrun).
    cbn [plus] in Hrun. rewrite (h3 u Hu) in Hrun. discriminate.
  Qed.

  (* the dated line selected for an offset: the last dated line at or before
     it, else (no dated line before) the first dated line of the file *)
  Definition selects (o s : Z) : Prop :=
    real_line_start c s /\ ts s <> None /\
    ((s <= o /\ forall s', real_line_start c s' -> s < s' -> s' <= o ->
                           ts s' = None) \/
     (o < s /\ forall s', real_line_start c s' -> s' < s -> ts s' = None)).

  Lemma real_line_start_of o : 0 <= o < lenZ c ->
    real_line_start c (line_start c o).
  Proof. intros Ho. apply line_start_is_real. lia. Qed.

  Theorem sel_start_sem o : 0 <= o < lenZ c ->
    match sel_start L W tsw c o with
    | Some s => selects o s
    | None => forall s', real_line_start c s' -> ts s' = None
    end.
  Proof.
    intros Ho. unfold sel_start.
    pose proof (real_line_start_of o Ho) as Hr.
    pose proof (line_bounds c o ltac:(lia)) as (Hls & _).
    rewrite bwd_line_start by lia.
    destruct (bwd_follows (Z.to_nat L) _ Hr) as [Bh Be].
    destruct (bwdT_sem (Z.to_nat L) _ Hr) as [Sh Se].
    pose proof (bwdT_not_out _ Hr) as Bo.
    destruct (bwdT (Z.to_nat L) (line_start c o)) as [d| |] eqn:Eb; [| |congruence].
    - rewrite (Bh d eq_refl). destruct (Sh d eq_refl) as (Hrd & Hdle & Hdd & Hund).
      split; [exact Hrd|]. split; [exact Hdd|]. left. split; [lia|].
      intros s' Hr' H1 H2.
      destruct (Z_le_gt_dec s' (line_start c o)) as [Hle|Hgt].
      + apply Hund; assumption.
      + exfalso. apply (no_real_inside c o s' Hr'); lia.
    - rewrite (Be eq_refl).
      assert (Hbefore : forall s', real_line_start c s' -> s' <= o -> ts s' = None).
      { intros s' Hr' Hle.
        destruct (Z_le_gt_dec s' (line_start c o)) as [Hle'|Hgt].
        - apply (Se eq_refl); assumption.
        - exfalso. apply (no_real_inside c o s' Hr'); lia. }
      (* forwards from the line containing o + 1 *)
      destruct (Z.eq_dec (o + 1) (lenZ c)) as [Eend|Nend].
      + (* o is the last byte: nothing further *)
        assert (Hall : forall s', real_line_start c s' -> ts s' = None).
        { intros s' Hr'. apply Hbefore; [exact Hr'|].
          pose proof (real_bounds c s' Hr'). destruct Hr' as [->|[_ Hn]]; lia. }
        assert (Ef : fwd (Z.to_nat L) (line_start c (o + 1)) = None).
        { destruct (Z.to_nat L) as [|f]; [reflexivity|].
          cbn [SinceSeekWalk.fwd].
          rewrite next_lf_line_start by lia. rewrite next_lf_past_end by lia.
          assert (Ets : ts (line_start c (o + 1)) = None).
          { destruct (Z.eq_dec (nth (Z.to_nat o) c 0) 10) as [E10|N10].
            - rewrite line_start_after_lf by (split; [lia|exact E10]).
              apply h0. right. lia.
            - rewrite line_start_step;
                [|lia|intros [_ Hx]; exact (N10 Hx)].
              apply Hbefore; [exact Hr|lia]. }
          rewrite Ets. reflexivity. }
        rewrite Ef. exact Hall.
      + assert (Ho1 : 0 <= o + 1 < lenZ c) by lia.
        pose proof (real_line_start_of (o + 1) Ho1) as Hr1.
        pose proof (line_bounds c (o + 1) ltac:(lia)) as (Hls1 & _).
        destruct (fwd_follows (Z.to_nat L) (line_start c (o + 1)) ltac:(lia))
          as [Fh Fe].
        destruct (fwdT_sem (Z.to_nat L) _ Hr1) as [Th Te].
        pose proof (fwdT_not_out _ Hr1) as Fo.
        (* every line start <= o + 1 other than line_start (o + 1) is <= o *)
        assert (Hbefore1 : forall s', real_line_start c s' ->
                             s' < line_start c (o + 1) -> ts s' = None).
        { intros s' Hr' Hlt. apply Hbefore; [exact Hr'|lia]. }
        destruct (fwdT (Z.to_nat L) (line_start c (o + 1))) as [d| |] eqn:Ef;
          [| |congruence].
        * rewrite (Fh d eq_refl).
          destruct (Th d eq_refl) as (Hrd & Hdle & Hdd & Hund).
          split; [exact Hrd|]. split; [exact Hdd|].
          destruct (Z_le_gt_dec d o) as [Hdo|Hdo].
          -- exfalso. apply Hdd. apply Hbefore; assumption.
          -- right. split; [lia|]. intros s' Hr' Hlt.
             destruct (Z_lt_le_dec s' (line_start c (o + 1))) as [Hx|Hx].
             ++ apply Hbefore1; assumption.
             ++ apply Hund; assumption.
        * rewrite (Fe eq_refl). intros s' Hr'.
          destruct (Z_lt_le_dec s' (line_start c (o + 1))) as [Hx|Hx].
          -- apply Hbefore1; assumption.
          -- apply (Te eq_refl); assumption.
  Qed.
End Chain.
