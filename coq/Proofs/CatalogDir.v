(* C09 - _filtered_dir keeps exactly what the specification prescribes *)
From Coq Require Import ZArith List Bool Lia Permutation Sorting.Sorted.
From SK Require Import Model.Collection Model.Catalog Spec.Catalog
     Proofs.CollectionDict Proofs.Collection Proofs.CatalogStr.
Import ListNotations.
Open Scope Z_scope.

Lemma NoDup_app_l {A} (a b : list A) : NoDup (a ++ b) -> NoDup a.
Proof.
  induction a as [|x a IH]; simpl; intro H; [constructor|].
  inversion H as [|? ? Hx Ha]; subst. constructor; [|now apply IH].
  intro Hin. apply Hx. apply in_or_app. now left.
Qed.

Lemma forallb_filter_id {A} (f : A -> bool) l :
  forallb f l = true -> filter f l = l.
Proof.
  induction l as [|x l IH]; simpl; intro H; [reflexivity|].
  apply andb_true_iff in H. destruct H as [Hx Hl]. rewrite Hx.
  now rewrite IH.
Qed.

(* --------------------------------------------------------- stable sort *)
Section Sort.
  Context {A : Type} (key : A -> Z).
  Definition le_key (a b : A) : Prop := key a <= key b.

  Lemma insert_perm x l : Permutation (insert_by key x l) (x :: l).
  Proof.
    induction l as [|y t IH]; simpl; [reflexivity|].
    destruct (key x <=? key y); [reflexivity|].
    rewrite IH. apply perm_swap.
  Qed.

  Lemma sort_perm l : Permutation (sort_by key l) l.
  Proof.
    induction l as [|x l IH]; simpl; [reflexivity|].
    unfold sort_by in *. simpl. rewrite insert_perm. now constructor.
  Qed.

  Lemma insert_sorted x l :
    StronglySorted le_key l -> StronglySorted le_key (insert_by key x l).
  Proof.
    induction l as [|y t IH]; simpl; intro H.
    - constructor; constructor.
    - inversion H as [|? ? Ht Hy]; subst.
      destruct (key x <=? key y) eqn:E.
      + apply Z.leb_le in E. constructor; [assumption|].
        constructor; [exact E|].
        rewrite Forall_forall in *. intros z Hz. unfold le_key in *.
        specialize (Hy z Hz). lia.
      + apply Z.leb_gt in E. constructor; [now apply IH|].
        rewrite Forall_forall in *. intros z Hz.
        apply (Permutation_in _ (insert_perm x t)) in Hz.
        destruct Hz as [<-|Hz]; [unfold le_key; lia|now apply Hy].
  Qed.

  Lemma sort_sorted l : StronglySorted le_key (sort_by key l).
  Proof.
    induction l as [|x l IH]; [constructor|].
    unfold sort_by in *. simpl. now apply insert_sorted.
  Qed.

  Lemma sorted_split l :
    StronglySorted le_key l ->
    forall n a b, In a (firstn n l) -> In b (skipn n l) -> le_key a b.
  Proof.
    induction 1 as [|y t Ht IH Hy]; intros n a b Ha Hb.
    - destruct n; contradiction.
    - destruct n as [|m]; simpl in *; [contradiction|].
      destruct Ha as [<-|Ha].
      + rewrite Forall_forall in Hy. apply Hy.
        rewrite <- (firstn_skipn m t). apply in_or_app. now right.
      + now apply (IH m).
  Qed.
End Sort.

(* ------------------------------------------- the shape of the result *)
Definition stem_of (x : str) : option str :=
  match rotated x with Some (s, _) => Some s | None => None end.

Definition is_ordinary (x : str) : bool :=
  match rotated x with Some _ => false | None => true end.

Definition gstep (g : list (str * list str)) (x : str) :=
  match stem_of x with Some k => dappend str_eqb g k x | None => g end.

Definition stem_groups (l : list str) := fold_left gstep l [].

Lemma fd_step_file a g x :
  no_ws x = true ->
  fd_step grp_fixed (a, g) (x, true) =
  (a ++ (if is_ordinary x then [x] else []), gstep g x).
Proof.
  intro Hx. unfold fd_step, gstep, stem_of, is_ordinary. cbn [negb].
  destruct (rotated x) as [[stem n]|] eqn:Er.
  - destruct (rotated_grp x stem n Hx Er) as [Eg Ee]. rewrite Eg, Ee.
    now rewrite app_nil_r.
  - destruct (ordinary_grp x Hx Er) as [[Ee Eg]|[Ee [Eg|[pfx [Eg Ep]]]]];
      rewrite Eg; try rewrite Ee; try reflexivity.
    now rewrite Ep.
Qed.

Lemma fd_fold l a g :
  forallb no_ws l = true ->
  fold_left (fd_step grp_fixed) (map (fun x => (x, true)) l) (a, g) =
  (a ++ filter is_ordinary l, fold_left gstep l g).
Proof.
  revert a g. induction l as [|x l IH]; intros a g H.
  - simpl. now rewrite app_nil_r.
  - cbn [map fold_left filter forallb] in *.
    apply andb_true_iff in H. destruct H as [Hx Hl].
    rewrite (fd_step_file a g x Hx), (IH _ _ Hl).
    destruct (is_ordinary x); simpl; [now rewrite <- app_assoc|].
    now rewrite app_nil_r.
Qed.

Lemma fd_fold_regular G contents acc :
  fold_left (fd_step G) contents acc =
  fold_left (fd_step G) (map (fun x => (x, true)) (regular contents)) acc.
Proof.
  revert acc. unfold regular.
  induction contents as [|[p b] c IH]; simpl; intro acc; [reflexivity|].
  destruct b; simpl; [apply IH|].
  rewrite <- IH. f_equal. now destruct acc.
Qed.

Lemma filtered_dir_shape nm contents depth :
  forallb no_ws (regular contents) = true ->
  filtered_dir grp_fixed nm contents depth =
  filter is_ordinary (regular contents) ++
  flat_map (fun g => py_take depth (sort_by (sort_key nm) (snd g)))
           (stem_groups (regular contents)).
Proof.
  intro H. unfold filtered_dir. rewrite fd_fold_regular.
  now rewrite (fd_fold _ [] [] H).
Qed.

(* ------------------------------------------------- grouping by stem *)
Lemma rotated_of_iff k x :
  rotated_of k x = true <-> exists n, rotated x = Some (k, n).
Proof.
  unfold rotated_of. destruct (rotated x) as [[s n]|]; split.
  - intro H. apply str_eqb_spec in H. subst. now exists n.
  - intros [n' H]. inversion H. now apply str_eqb_spec.
  - discriminate.
  - intros [n' H]. discriminate.
Qed.

Lemma rotated_of_other k k' x n :
  rotated x = Some (k', n) -> k <> k' -> rotated_of k x = false.
Proof.
  intros H Hn. destruct (rotated_of k x) eqn:E; [|reflexivity].
  apply rotated_of_iff in E. destruct E as [n' E]. congruence.
Qed.

Lemma stem_groups_spec l :
  let g := stem_groups l in
  NoDup (map fst g) /\
  (forall k v, In (k, v) g -> v <> [] /\ v = filter (rotated_of k) l) /\
  (forall x k n, In x l -> rotated x = Some (k, n) -> In k (map fst g)).
Proof.
  unfold stem_groups.
  induction l as [|r l IH] using rev_ind; simpl.
  - repeat split; try constructor; intros; contradiction.
  - rewrite fold_left_app. simpl. set (g := fold_left gstep l []) in *.
    destruct IH as [Hnd [Hval Hkey]].
    assert (Eg : gstep g r = match rotated r with
                             | Some (k, _) => dappend str_eqb g k r
                             | None => g end).
    { unfold gstep, stem_of. now destruct (rotated r) as [[? ?]|]. }
    rewrite Eg. clear Eg.
    destruct (rotated r) as [[k0 n0]|] eqn:Er.
    + split; [now apply (dappend_nodup str_eqb str_eqb_spec)|]. split.
      * intros k v Hin.
        destruct (dappend_in str_eqb str_eqb_spec g k0 r k v Hnd Hin)
          as [[Hn Hg]|[Hk Hv]].
        -- destruct (Hval k v Hg) as [Hne Hv]. split; [assumption|].
           rewrite filter_app. simpl.
           rewrite (rotated_of_other k k0 r n0 Er Hn), app_nil_r. assumption.
        -- subst k. rewrite filter_app. simpl.
           assert (E : rotated_of k0 r = true)
             by (apply rotated_of_iff; now exists n0).
           rewrite E.
           destruct (dget str_eqb g k0) as [l0|] eqn:Eg.
           ++ apply (dget_some_in str_eqb str_eqb_spec) in Eg.
              destruct (Hval _ _ Eg) as [_ El]. subst v.
              split; [intro Hc; apply app_eq_nil in Hc;
                      destruct Hc; discriminate|].
              now rewrite <- El.
           ++ apply (dget_none str_eqb str_eqb_spec) in Eg. subst v.
              split; [discriminate|].
              rewrite filter_none; [reflexivity|].
              intros x Hx. destruct (rotated_of k0 x) eqn:Ex; [|reflexivity].
              exfalso. apply Eg. apply rotated_of_iff in Ex.
              destruct Ex as [n Ex]. now apply (Hkey x k0 n).
      * intros x k n Hx Hs. apply (dappend_key_iff str_eqb str_eqb_spec).
        apply in_app_or in Hx. destruct Hx as [Hx|[Hx|[]]].
        -- right. now apply (Hkey x k n).
        -- left. subst. congruence.
    + split; [assumption|]. split.
      * intros k v Hin. destruct (Hval k v Hin) as [Hne Hv].
        split; [assumption|]. rewrite filter_app. simpl.
        assert (E : rotated_of k r = false)
          by (unfold rotated_of; now rewrite Er).
        now rewrite E, app_nil_r.
      * intros x k n Hx Hs. apply in_app_or in Hx. destruct Hx as [Hx|[Hx|[]]].
        -- now apply (Hkey x k n).
        -- subst. congruence.
Qed.

(* ------------------------------------------------------------- pieces *)
Definition piece (nm depth : Z) (v : list str) : list str :=
  py_take depth (sort_by (sort_key nm) v).

Lemma py_take_nonneg {A} depth (l : list A) :
  0 <= depth -> py_take depth l = firstn (Z.to_nat depth) l.
Proof.
  intro H. unfold py_take. destruct (0 <=? depth) eqn:E; [reflexivity|].
  apply Z.leb_gt in E. lia.
Qed.

Lemma piece_incl nm depth v x :
  0 <= depth -> In x (piece nm depth v) -> In x v.
Proof.
  intros Hd H. unfold piece in H. rewrite py_take_nonneg in H by assumption.
  apply (Permutation_in _ (sort_perm (sort_key nm) v)).
  rewrite <- (firstn_skipn (Z.to_nat depth)). apply in_or_app. now left.
Qed.

Lemma piece_nodup nm depth v :
  0 <= depth -> NoDup v -> NoDup (piece nm depth v).
Proof.
  intros Hd H. unfold piece. rewrite py_take_nonneg by assumption.
  assert (Hs : NoDup (sort_by (sort_key nm) v)).
  { apply (Permutation_NoDup (l := v)); [|assumption].
    symmetry. apply sort_perm. }
  rewrite <- (firstn_skipn (Z.to_nat depth)) in Hs.
  now apply NoDup_app_l in Hs.
Qed.

Lemma piece_length nm depth v :
  0 <= depth ->
  Z.of_nat (length (piece nm depth v)) = Z.min depth (Z.of_nat (length v)).
Proof.
  intro Hd. unfold piece. rewrite py_take_nonneg by assumption.
  rewrite firstn_length, (Permutation_length (sort_perm (sort_key nm) v)).
  lia.
Qed.

(* elements of the pieces of the groups *)
Lemma in_pieces nm depth (gs : list (str * list str)) x :
  In x (flat_map (fun g => piece nm depth (snd g)) gs) <->
  exists k v, In (k, v) gs /\ In x (piece nm depth v).
Proof.
  rewrite in_flat_map. split.
  - intros [[k v] [Hg Hx]]. now exists k, v.
  - intros [k [v [Hg Hx]]]. now exists (k, v).
Qed.

Lemma group_unique {V} (gs : list (str * V)) k v1 v2 :
  NoDup (map fst gs) -> In (k, v1) gs -> In (k, v2) gs -> v1 = v2.
Proof.
  intros Hnd H1 H2.
  pose proof (in_dget str_eqb str_eqb_spec gs k v1 Hnd H1) as E1.
  pose proof (in_dget str_eqb str_eqb_spec gs k v2 Hnd H2) as E2.
  congruence.
Qed.

(* ---------------------------------------------------- the main theorem *)
Section Exact.
  Variables (nm depth : Z) (contents : list (str * bool)).
  Let files := regular contents.
  Hypothesis Hdepth : 0 <= depth.
  Hypothesis Hws : forallb no_ws files = true.
  Hypothesis Hnd : NoDup files.

  Let gs := stem_groups files.
  Let K := filtered_dir grp_fixed nm contents depth.

  Lemma K_shape :
    K = filter is_ordinary files ++
        flat_map (fun g => piece nm depth (snd g)) gs.
  Proof. unfold K. now rewrite filtered_dir_shape. Qed.

  Lemma file_no_ws x : In x files -> no_ws x = true.
  Proof. intro H. rewrite forallb_forall in Hws. now apply Hws. Qed.

  Lemma in_K x :
    In x K <->
    (In x files /\ rotated x = None) \/
    (exists k v, In (k, v) gs /\ In x (piece nm depth v)).
  Proof.
    rewrite K_shape, in_app_iff, filter_In, in_pieces.
    unfold is_ordinary. destruct (rotated x); intuition discriminate.
  Qed.

  Lemma group_members k v x :
    In (k, v) gs -> In x v -> In x files /\ rotated_of k x = true.
  Proof.
    intros Hg Hx. destruct (stem_groups_spec files) as [_ [Hval _]].
    destruct (Hval k v Hg) as [_ Hv]. rewrite Hv in Hx.
    now apply filter_In in Hx.
  Qed.

  Lemma K_sub x : In x K -> In x files.
  Proof.
    intro H. apply in_K in H. destruct H as [[H _]|[k [v [Hg Hx]]]];
      [assumption|].
    apply (piece_incl nm depth v x Hdepth) in Hx.
    now destruct (group_members k v x Hg Hx).
  Qed.

  Lemma K_ordinary x : In x files -> rotated x = None -> In x K.
  Proof. intros H1 H2. apply in_K. now left. Qed.

  Lemma group_nodup k v : In (k, v) gs -> NoDup v.
  Proof.
    intro Hg. destruct (stem_groups_spec files) as [_ [Hval _]].
    destruct (Hval k v Hg) as [_ Hv]. rewrite Hv. now apply NoDup_filter.
  Qed.

  Lemma pieces_nodup (l : list (str * list str)) :
    NoDup (map fst l) -> incl l gs ->
    NoDup (flat_map (fun g => piece nm depth (snd g)) l).
  Proof.
    induction l as [|[k v] l IH]; simpl; intros Hk Hi; [constructor|].
    inversion Hk as [|? ? Hkn Hkl]; subst.
    apply NoDup_app_intro.
    - apply piece_nodup; [assumption|].
      apply (group_nodup k). apply Hi. now left.
    - apply IH; [assumption|]. intros e He. apply Hi. now right.
    - intros x Hx Hx'. apply in_pieces in Hx'.
      destruct Hx' as [k' [v' [Hg' Hx']]].
      apply (piece_incl _ _ _ _ Hdepth) in Hx.
      apply (piece_incl _ _ _ _ Hdepth) in Hx'.
      destruct (group_members k v x (Hi _ (or_introl eq_refl)) Hx) as [_ R1].
      destruct (group_members k' v' x (Hi _ (or_intror Hg')) Hx') as [_ R2].
      apply rotated_of_iff in R1. apply rotated_of_iff in R2.
      destruct R1 as [n1 R1], R2 as [n2 R2].
      assert (k = k') by congruence. subst k'.
      apply Hkn. apply in_map_iff. now exists (k, v').
  Qed.

  Lemma K_nodup : NoDup K.
  Proof.
    rewrite K_shape. destruct (stem_groups_spec files) as [Hk _].
    apply NoDup_app_intro.
    - now apply NoDup_filter.
    - apply pieces_nodup; [assumption|apply incl_refl].
    - intros x Hx Hx'. apply filter_In in Hx. destruct Hx as [_ Ho].
      apply in_pieces in Hx'. destruct Hx' as [k [v [Hg Hx']]].
      apply (piece_incl _ _ _ _ Hdepth) in Hx'.
      destruct (group_members k v x Hg Hx') as [_ R].
      apply rotated_of_iff in R. destruct R as [n R].
      unfold is_ordinary in Ho. rewrite R in Ho. discriminate.
  Qed.

  (* rotated copies of [stem] inside the pieces of a list of groups *)
  Lemma count_pieces stem (l : list (str * list str)) :
    NoDup (map fst l) -> incl l gs ->
    filter (rotated_of stem) (flat_map (fun g => piece nm depth (snd g)) l) =
    match dget str_eqb l stem with
    | Some v => piece nm depth v
    | None => []
    end.
  Proof.
    induction l as [|[k v] l IH]; simpl; intros Hk Hi; [reflexivity|].
    inversion Hk as [|? ? Hkn Hkl]; subst.
    rewrite filter_app, IH by (try assumption; intros e He; apply Hi; now right).
    assert (Hm : forall x, In x (piece nm depth v) -> rotated_of k x = true).
    { intros x Hx. apply (piece_incl _ _ _ _ Hdepth) in Hx.
      now destruct (group_members k v x (Hi _ (or_introl eq_refl)) Hx). }
    destruct (str_eqb k stem) eqn:E.
    - apply str_eqb_spec in E. subst k.
      assert (En : dget str_eqb l stem = None)
        by now apply (dget_none str_eqb str_eqb_spec).
      rewrite En, app_nil_r.
      apply forallb_filter_id. apply forallb_forall. exact Hm.
    - rewrite filter_none; [reflexivity|].
      intros x Hx. specialize (Hm x Hx). apply rotated_of_iff in Hm.
      destruct Hm as [n Hm]. apply (rotated_of_other stem k x n Hm).
      intro; subst. rewrite (proj2 (str_eqb_spec k k) eq_refl) in E.
      discriminate.
  Qed.

  Lemma K_count stem : count_of stem K = Z.min depth (count_of stem files).
  Proof.
    unfold count_of. rewrite K_shape, filter_app, app_length.
    destruct (stem_groups_spec files) as [Hk [Hval Hkey]]. fold gs in Hk, Hval, Hkey.
    assert (E0 : filter (rotated_of stem) (filter is_ordinary files) = []).
    { apply filter_none. intros x Hx. apply filter_In in Hx.
      destruct Hx as [_ Ho]. unfold is_ordinary in Ho. unfold rotated_of.
      destruct (rotated x); [discriminate|reflexivity]. }
    rewrite E0, (count_pieces stem gs Hk (incl_refl _)). simpl.
    destruct (dget str_eqb gs stem) as [v|] eqn:Eg.
    - apply (dget_some_in str_eqb str_eqb_spec) in Eg.
      destruct (Hval stem v Eg) as [_ Hv]. rewrite <- Hv.
      now apply piece_length.
    - apply (dget_none str_eqb str_eqb_spec) in Eg.
      rewrite filter_none; [simpl; lia|].
      intros x Hx. destruct (rotated_of stem x) eqn:Ex; [|reflexivity].
      exfalso. apply Eg. apply rotated_of_iff in Ex. destruct Ex as [n Ex].
      now apply (Hkey x stem n).
  Qed.

  Lemma K_lowest x y stem nx ny :
    In x K -> In y files -> ~ In y K ->
    rotated x = Some (stem, nx) -> rotated y = Some (stem, ny) -> nx <= ny.
  Proof.
    intros Hx Hy Hny Rx Ry.
    destruct (stem_groups_spec files) as [Hk [Hval Hkey]]. fold gs in Hk, Hval, Hkey.
    apply in_K in Hx. destruct Hx as [[_ Hc]|[k [v [Hg Hx]]]]; [congruence|].
    pose proof (piece_incl _ _ _ _ Hdepth Hx) as Hxv.
    destruct (group_members k v x Hg Hxv) as [Hxf Rk].
    apply rotated_of_iff in Rk. destruct Rk as [n' Rk].
    assert (k = stem) by congruence. subst k.
    destruct (Hval stem v Hg) as [_ Hv].
    assert (Hyv : In y v).
    { rewrite Hv. apply filter_In. split; [assumption|].
      apply rotated_of_iff. now exists ny. }
    unfold piece in Hx. rewrite py_take_nonneg in Hx by assumption.
    assert (Hys : In y (skipn (Z.to_nat depth) (sort_by (sort_key nm) v))).
    { apply (Permutation_in _ (Permutation_sym (sort_perm (sort_key nm) v)))
        in Hyv.
      rewrite <- (firstn_skipn (Z.to_nat depth)) in Hyv.
      apply in_app_or in Hyv. destruct Hyv as [Hyv|Hyv]; [|assumption].
      exfalso. apply Hny. apply in_K. right. exists stem, v.
      split; [assumption|]. unfold piece.
      now rewrite py_take_nonneg by assumption. }
    pose proof (sorted_split (sort_key nm) _ (sort_sorted (sort_key nm) v)
                             _ _ _ Hx Hys) as Hle.
    unfold le_key in Hle.
    rewrite (rotated_sort_key nm x stem nx (file_no_ws x Hxf) Rx) in Hle.
    rewrite (rotated_sort_key nm y stem ny (file_no_ws y Hy) Ry) in Hle.
    exact Hle.
  Qed.

  Lemma filtered_dir_kept : kept files depth K.
  Proof.
    constructor.
    - exact K_sub.
    - exact K_nodup.
    - exact K_ordinary.
    - exact K_count.
    - exact K_lowest.
  Qed.
End Exact.
