(* C10 - every move strictly decreases a natural-number measure: a run makes
   at most [measure c s0] moves, whatever the schedule ("bounded time" in the
   only sense a model can give it). *)
From Coq Require Import String List Bool Arith Lia.
From SK Require Import Model.Skel Model.Lifecycle Spec.Lifecycle
     Proofs.Lifecycle.
Import ListNotations.
Local Open Scope list_scope.

Definition cost (it : item) : nat :=
  match it with ICrit k => k + 2 | _ => 1 end.
Definition cost_from (p : prog) (i : nat) : nat :=
  list_sum (map cost (skipn i p)).

Lemma cost_from_nth p : forall i it, nth_error p i = Some it ->
  cost_from p i = cost it + cost_from p (S i).
Proof.
  unfold cost_from. induction p as [|x p IH]; intros [|i] it H; simpl in *;
    try discriminate.
  - inversion H; subst. reflexivity.
  - apply IH. exact H.
Qed.

Fixpoint sum_lt (n : nat) (g : nat -> nat) : nat :=
  match n with O => 0 | S m => sum_lt m g + g m end.

Lemma sum_lt_ext n a b : (forall k, k < n -> a k = b k) -> sum_lt n a = sum_lt n b.
Proof.
  induction n as [|m IH]; intros H; simpl; [reflexivity|].
  rewrite IH by (intros; apply H; lia). rewrite H by lia. reflexivity.
Qed.

Lemma sum_lt_le n a b : (forall k, k < n -> a k <= b k) -> sum_lt n a <= sum_lt n b.
Proof.
  induction n as [|m IH]; intros H; simpl; [lia|].
  pose proof (IH ltac:(intros; apply H; lia)). pose proof (H m ltac:(lia)). lia.
Qed.

Lemma sum_lt_upd {A} n (h : nat -> A -> nat) (g : nat -> A) i x : i < n ->
  sum_lt n (fun k => h k (upd g i x k)) + h i (g i)
  = sum_lt n (fun k => h k (g k)) + h i x.
Proof.
  induction n as [|m IH]; intros Hi; [lia|]. simpl.
  destruct (Nat.eq_dec i m) as [->|Hne].
  - rewrite upd_same.
    rewrite (sum_lt_ext m (fun k => h k (upd g m x k)) (fun k => h k (g k))).
    + lia.
    + intros k Hk. rewrite upd_other by lia. reflexivity.
  - rewrite (upd_other g i x m) by lia. specialize (IH ltac:(lia)). lia.
Qed.

Lemma sum_lt_upd_out {A} n (h : nat -> A -> nat) (g : nat -> A) i x : n <= i ->
  sum_lt n (fun k => h k (upd g i x k)) = sum_lt n (fun k => h k (g k)).
Proof.
  intros Hi. apply sum_lt_ext. intros k Hk. rewrite upd_other by lia. reflexivity.
Qed.

Definition frank (c : cfg) (t : nat) (x : fut) : nat :=
  match x with
  | FNone => cost_from (prog_of c t) 0 + 5
  | FQueued => cost_from (prog_of c t) 0 + 4
  | FRunning => 1
  | _ => 0
  end.

Definition wrank (c : cfg) (x : wst) : nat :=
  match x with
  | WIdle => 1
  | WDead _ => 0
  | WRun t i None => 2 + cost_from (prog_of c t) i
  | WRun t i (Some r) => 3 + r + cost_from (prog_of c t) (S i)
  end.

Definition fsum c (futs : nat -> fut) := sum_lt (ntasks c) (fun t => frank c t (futs t)).
Definition wsum c (ws : nat -> wst) := sum_lt (c_workers c) (fun w => wrank c (ws w)).

Lemma fsum_upd c futs t x : t < ntasks c ->
  fsum c (upd futs t x) + frank c t (futs t) = fsum c futs + frank c t x.
Proof. intros H. unfold fsum. apply (sum_lt_upd _ (frank c)). exact H. Qed.
Lemma fsum_upd_out c futs t x : ntasks c <= t -> fsum c (upd futs t x) = fsum c futs.
Proof. intros H. unfold fsum. apply (sum_lt_upd_out _ (frank c)). exact H. Qed.
Lemma wsum_upd c ws w x : w < c_workers c ->
  wsum c (upd ws w x) + wrank c (ws w) = wsum c ws + wrank c x.
Proof. intros H. unfold wsum. apply (sum_lt_upd _ (fun _ => wrank c)). exact H. Qed.

Lemma wrank_kill c x : wrank c (kill x) <= wrank c x.
Proof. destruct x as [|t i [r|]|h]; simpl; lia. Qed.
Lemma wsum_kill c ws :
  wsum c (fun w => if Nat.ltb w (c_workers c) then kill (ws w) else ws w) <= wsum c ws.
Proof.
  unfold wsum. apply sum_lt_le. intros k Hk. apply Nat.ltb_lt in Hk. rewrite Hk.
  apply wrank_kill.
Qed.

Lemma wsum_unhold c ws : wsum c (fun w => unhold (ws w)) = wsum c ws.
Proof.
  unfold wsum. apply sum_lt_ext. intros k _. destruct (ws k) as [|t i [r|]|h]; reflexivity.
Qed.

Definition irank (st : ist) (b : nat) : nat :=
  match st with
  | INotStarted | ILoop => 5 * b + 1
  | IWantStore => 5 * b + 5 | IInStore => 5 * b + 4
  | IWantColl => 5 * b + 3 | IInColl => 5 * b + 2
  | IDone => 0
  end.
Definition rrank (st : rst) (b : nat) : nat :=
  match st with
  | RNotStarted | RLoop => 3 * b + 3
  | RWantColl => 3 * b + 5 | RInColl => 3 * b + 4
  | RFinalWant => 2 | RFinalIn => 1 | RDone => 0
  end.
Definition prank (p : pst) : nat :=
  match p with PoolOk => 2 | PoolDying => 1 | PoolBroken => 0 end.
Definition mrank (p : mpc) : nat :=
  match p with
  | MEnterMgr => 40 | MSubmit _ => 39 | MStartInfo => 38 | MStartRes => 37
  | MWait => 36
  | MStopRes PBody _ => 35 | MJoinRes PBody _ => 34
  | MStopInfo PBody _ => 33 | MJoinInfo PBody _ => 32
  | MPurgeAcq => 31 | MPurgeIn => 30 | MKill => 29
  | MExitPool _ => 21 | MFreeStore _ => 20
  | MStopRes PFin _ => 19 | MJoinRes PFin _ => 18
  | MStopInfo PFin _ => 17 | MJoinInfo PFin _ => 16
  | MUnproxyAcq => 15 | MUnproxyIn => 14 | MExitMgr _ => 13
  | MReturn | MRaised _ => 0
  end.

Definition measure (c : cfg) (s : state) : nat :=
  mrank (s_pc s) + fsum c (s_futs s) + wsum c (s_ws s)
  + irank (s_info s) (s_ibud s) + rrank (s_res s) (s_rbud s) + prank (s_pool s).

Lemma mrank_fin_entry f oe : mrank (fin_entry f oe) < 20.
Proof.
  unfold fin_entry, fin_info_entry, after_fin.
  destruct (f_fin_res f), (f_fin_info f), oe; simpl; lia.
Qed.
Lemma mrank_next_after_res f ph oe :
  mrank (next_after_res f ph oe) < mrank (MJoinRes ph oe).
Proof.
  unfold next_after_res, fin_info_entry, after_fin.
  destruct ph, (f_fin_info f), oe; simpl; lia.
Qed.
Lemma mrank_next_after_info ph oe :
  mrank (next_after_info ph oe) < mrank (MJoinInfo ph oe).
Proof. unfold next_after_info, after_fin. destruct ph, oe; simpl; lia. Qed.

Theorem step_decreases f c s a s' : Inv f c s -> step f c s a = Some s' ->
  measure c s' < measure c s.
Proof.
  intros HI H.
  pose proof (i_submit _ _ _ HI) as Hsub. pose proof (i_info_ns _ _ _ HI) as Hins.
  pose proof (i_res_ns _ _ _ HI) as Hrns. clear HI.
  destruct s as [pc futs ws info istop ibud res rstop rbud store coll pool mgr fired].
  destruct a; unf_step H; split_step H; inversion H; subst; clear H;
    unfold measure; projs; fl_facts.
  all: try (pose proof (mrank_fin_entry f oe));
       try (pose proof (mrank_next_after_res f ph oe));
       try (pose proof (mrank_next_after_info ph oe));
       try (pose proof (wsum_kill c ws));
       try (destruct (Hsub _ eq_refl) as (_ & Hsub' & _); pose proof (Hsub' _ (le_n _)));
       try (pose proof (Hins eq_refl); subst info);
       try (pose proof (Hrns eq_refl); subst res).
  all: repeat match goal with
       | |- context [fsum ?cc (upd ?g ?t ?x)] =>
           let L := fresh "L" in
           destruct (Nat.lt_ge_cases t (ntasks cc)) as [L|L];
           [ pose proof (fsum_upd cc g t x L); generalize dependent (fsum cc (upd g t x)); intros
           | rewrite (fsum_upd_out cc g t x L) ]
       | |- context [wsum ?cc (upd ?g ?w ?x)] =>
           match goal with Hw : w < c_workers _ |- _ =>
             pose proof (wsum_upd cc g w x Hw); generalize dependent (wsum cc (upd g w x)); intros end
       end.
  all: repeat match goal with
       | Hn : nth_error (prog_of _ ?t) ?i = Some ?it |- _ =>
           pose proof (cost_from_nth _ _ _ Hn); clear Hn
       end.
  all: dws; rew_ws; rew_futs;
       try match goal with ph : phase |- _ => destruct ph end;
       cbn [frank wrank irank rrank prank mrank cost kill isSome] in *;
       rewrite ?wsum_unhold; try lia.
  match goal with j : option nat |- _ => destruct j end; lia.
Qed.

