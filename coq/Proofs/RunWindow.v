(* CAPSTONE, part 4: the since window, read on the LINES of the file.

   C04 speaks about byte offsets and the window-level timestamp oracle; a
   user sees lines and the line-level timestamp.  Under the ONE-MATCHER
   hypothesis (Spec/Run.v [one_matcher]: on every line both oracles agree)
   C04_no_skip_no_old becomes a statement about the searched lines: every
   timestamped line that is searched is at or after the since date, every
   timestamped line that is skipped is older.

   Bridges proved here: line index -> byte offset of its first byte
   ([line_offset]) is a line start in the sense of Spec/C04.v
   ([real_line_start]); [lines_before] counts exactly the lines whose offset
   is before the position. *)
From Coq Require Import ZArith List Bool Lia Arith.
From SK Require Import Model.Base Model.Seek Model.SinceSeek Model.Lines
     Model.Run Spec.Lines Spec.C04 Spec.Run
     Proofs.Lines Proofs.SinceSeek Proofs.SinceSeekTop Proofs.SinceSeekList
     Proofs.SinceSeekExact Proofs.RunBridge Proofs.RunStream.
Import ListNotations.
Open Scope Z_scope.

(* ---- every line but the last ends with a line feed ---- *)
Fixpoint all_but_last_lf (ls : list (list Z)) : Prop :=
  match ls with
  | [] => True
  | x :: r => match r with [] => True | _ => last x 0 = LF end /\
              all_but_last_lf r
  end.

Lemma split_aux_abl : forall c cur, all_but_last_lf (split_lines_aux cur c).
Proof.
  induction c as [|b r IH]; intros cur; cbn [split_lines_aux].
  - destruct cur; cbn; auto.
  - destruct (b =? LF) eqn:E.
    + cbn [all_but_last_lf]. split; [|apply IH].
      destruct (split_lines_aux [] r); [exact I|].
      cbn [rev]. rewrite last_last. apply Z.eqb_eq. exact E.
    + apply IH.
Qed.

Lemma abl_nth : forall ls j x y,
  all_but_last_lf ls -> nth_error ls j = Some x ->
  nth_error ls (S j) = Some y -> last x 0 = LF.
Proof.
  induction ls as [|a ls IH]; intros j x y Ha Hx Hy; [destruct j; discriminate|].
  destruct Ha as [Ha1 Ha2]. destruct j as [|j].
  - cbn in Hx, Hy. inversion Hx; subst. destruct ls; [discriminate|exact Ha1].
  - cbn in Hx. exact (IH j x y Ha2 Hx Hy).
Qed.

(* ---- a line's offset is a line start (Spec/C04.v real_line_start) ---- *)
Lemma line_offset_real c i l :
  nth_error (split_lines c) i = Some l -> real_line_start c (line_offset c i).
Proof.
  intros Hl. unfold line_offset. destruct i as [|j]; [left; reflexivity|].
  right.
  destruct (nth_error_split _ _ Hl) as (l1 & l2 & Els & El1).
  destruct (exists_last (l := l1)) as (l1' & x & El1');
    [intro E; rewrite E in El1; discriminate|].
  subst l1.
  assert (Ef : firstn (S j) (split_lines c) = l1' ++ [x]).
  { rewrite Els, <- El1. rewrite firstn_app, Nat.sub_diag, firstn_all.
    cbn [firstn]. apply app_nil_r. }
  rewrite Ef.
  assert (Hj : length l1' = j)
    by (rewrite app_length in El1; cbn [length] in El1; lia).
  assert (Hx : nth_error (split_lines c) j = Some x).
  { rewrite Els, <- app_assoc, <- Hj. cbn [app].
    rewrite nth_error_app2 by lia. rewrite Nat.sub_diag. reflexivity. }
  pose proof (abl_nth _ j x l (split_aux_abl c []) Hx Hl) as Hlast.
  pose proof (split_lines_nonempty c) as Hne. rewrite Forall_forall in Hne.
  assert (Hxne : x <> []) by (apply Hne; eapply nth_error_In; exact Hx).
  assert (Hlne : l <> []) by (apply Hne; eapply nth_error_In; exact Hl).
  pose proof (app_removelast_last 0 Hxne) as Ex. rewrite Hlast in Ex.
  (* c = (concat l1' ++ x') ++ LF :: l ++ concat l2 *)
  pose proof (split_lines_concat c) as Ec.
  rewrite Els, concat_app, concat_app in Ec. cbn [concat] in Ec.
  rewrite app_nil_r in Ec. rewrite Ex in Ec.
  set (x' := removelast x) in *.
  rewrite concat_app. cbn [concat]. rewrite app_nil_r, app_length.
  rewrite Ex at 1. rewrite app_length. cbn [length].
  set (n := (length (concat l1') + length x')%nat).
  assert (Ec' : c = (concat l1' ++ x') ++ LF :: l ++ concat l2).
  { rewrite <- Ec. rewrite <- !app_assoc. reflexivity. }
  assert (En : length (concat l1' ++ x') = n) by (apply app_length).
  split.
  - split; [lia|].
    replace (Z.to_nat (Z.of_nat (length (concat l1') + (length x' + 1)) - 1))
      with n by lia.
    rewrite Ec', <- En. apply nth_middle.
  - assert (Hlx : length x = (length x' + 1)%nat)
      by (rewrite Ex at 1; rewrite app_length; reflexivity).
    unfold lenZ. rewrite Ec'. rewrite app_length, En. cbn [length].
    rewrite app_length. destruct l; [congruence|]. cbn [length]. lia.
Qed.

(* ---- lines_before counts the lines whose offset is before p ---- *)
Lemma lines_before_lt : forall ls i p,
  (i < length ls)%nat ->
  ((i < lines_before ls p)%nat <->
   (length (concat (firstn i ls)) < p)%nat).
Proof.
  induction ls as [|l r IH]; intros i p Hi; [cbn in Hi; lia|].
  cbn [lines_before]. destruct i as [|j].
  - cbn [firstn concat length]. destruct p; lia.
  - cbn [firstn concat]. rewrite app_length. cbn [length] in Hi.
    destruct p as [|p'].
    + lia.
    + specialize (IH j (S p' - length l)%nat ltac:(lia)). lia.
Qed.

Lemma nth_error_skipn {A} : forall k (l : list A) j,
  nth_error (skipn k l) j = nth_error l (k + j).
Proof.
  induction k as [|k IH]; intros l j; [reflexivity|].
  destruct l as [|a l]; [destruct j; reflexivity|]. cbn [skipn]. apply IH.
Qed.

Lemma nth_error_firstn_some {A} : forall k (l : list A) j x,
  nth_error (firstn k l) j = Some x -> nth_error l j = Some x.
Proof.
  induction k as [|k IH]; intros l j x Hx; [destruct j; discriminate|].
  destruct l as [|a l]; [destruct j; discriminate|].
  destruct j as [|j]; [exact Hx|]. cbn in *. apply IH. exact Hx.
Qed.

Section Window.
  Variables H A L W : Z.
  Variable tsw : list Z -> option Z.
  Variable line : Type.
  Variable classify : list Z -> line.
  Variable tsl : line -> option Z.
  Hypothesis HH : 0 < H.
  Hypothesis HA : 0 < A.
  Hypothesis HL : 0 < L.

  (* the since window on the lines of the file, by index *)
  Theorem window_exact_on_lines c s restrictions ids :
    restricted restrictions ids = false ->
    seek_hyps H A L W tsw c ->
    one_matcher W tsw line classify tsl c ->
    let k := lines_before (split_lines c)
               (Z.to_nat (start_byte W tsw (Some s) restrictions ids c)) in
    forall i l d,
      nth_error (split_lines c) i = Some l -> tsl (classify l) = Some d ->
      ((i < k)%nat -> d < s) /\ ((k <= i)%nat -> s <= d).
  Proof.
    intros Hr (h0 & h1 & h2 & h3) Hom. unfold start_byte. rewrite Hr.
    set (ts := ts_at W tsw c) in *.
    destruct (since_seek_declarative H A L W tsw c HH HA HL h0 h1
                (time_ordered_offsets _ _ h2)
                (undated_runs_offsets _ _ L HL h3) s) as (p & Ep & Hp).
    assert (Epf : p = first_in_window ts s c)
      by exact (first_in_window_unique _ _ _ _ Hp).
    assert (Hp' : is_first_in_window ts s c p) by exact Hp.
    pose proof (position_is_line_boundary H A L W tsw c HH HA s p Ep) as Hb.
    assert (Hp0 : 0 <= p).
    { destruct Hb as [->|[->|[H0 _]]]; [lia|apply Zle_0_nat|lia]. }
    rewrite <- Epf. intros i l d Hl Hd.
    set (k := lines_before (split_lines c) (Z.to_nat p)).
    pose proof (line_offset_real c i l Hl) as Hreal.
    rewrite (Hom i l Hl) in Hd. fold ts in Hd.
    assert (Hend : forall s0, lenZ c <= s0 -> ts s0 = None)
      by (intros s0 Hs0; apply h0; right; exact Hs0).
    destruct (no_skip_no_old ts s c p (time_ordered_offsets _ _ h2) Hend Hp'
                (line_offset c i) d Hreal Hd) as [Hge Hlt].
    assert (Hi : (i < length (split_lines c))%nat)
      by (apply nth_error_Some; congruence).
    pose proof (lines_before_lt (split_lines c) i (Z.to_nat p) Hi) as Hk.
    fold k in Hk. unfold line_offset in *.
    set (o := length (concat (firstn i (split_lines c)))) in *.
    split; intros Hik.
    - destruct (Z_lt_le_dec d s) as [|Hc]; [assumption|].
      specialize (Hge Hc). apply Hk in Hik. lia.
    - destruct (Z_le_gt_dec s d) as [|Hc]; [assumption|].
      specialize (Hlt ltac:(lia)).
      assert ((i < k)%nat) by (apply Hk; lia). lia.
  Qed.

  (* ... and on the lists: no searched timestamped line is older than the
     since date, no skipped timestamped line is in the window *)
  Theorem searched_in_window_skipped_old c s restrictions ids :
    restricted restrictions ids = false ->
    seek_hyps H A L W tsw c ->
    one_matcher W tsw line classify tsl c ->
    let k := lines_before (split_lines c)
               (Z.to_nat (start_byte W tsw (Some s) restrictions ids c)) in
    Forall (fun x => forall d, tsl x = Some d -> s <= d)
           (searched W tsw line classify (Some s) restrictions ids c) /\
    Forall (fun x => forall d, tsl x = Some d -> d < s)
           (firstn k (file_lines line classify c)).
  Proof.
    intros Hr Hs Hom k.
    pose proof (window_exact_on_lines c s restrictions ids Hr Hs Hom) as Hw.
    fold k in Hw.
    assert (Hseeks : seeks (Some s) restrictions ids = true ->
                     seek_hyps H A L W tsw c) by (intros _; exact Hs).
    destruct (searched_are_file_lines H A L W tsw line classify HH HA c
                (Some s) restrictions ids HL Hseeks) as [Es _].
    fold k in Es. rewrite Es. unfold file_lines.
    split; apply Forall_forall; intros x Hx d Hd.
    - rewrite skipn_map in Hx. apply in_map_iff in Hx.
      destruct Hx as (l & <- & Hin). apply In_nth_error in Hin.
      destruct Hin as [j Hj]. rewrite nth_error_skipn in Hj.
      apply (Hw (k + j)%nat l d Hj Hd). lia.
    - rewrite firstn_map in Hx. apply in_map_iff in Hx.
      destruct Hx as (l & <- & Hin). apply In_nth_error in Hin.
      destruct Hin as [j Hj].
      assert (Hjk : (j < k)%nat).
      { assert (Hlen : (j < length (firstn k (split_lines c)))%nat)
          by (apply nth_error_Some; congruence).
        rewrite firstn_length in Hlen. lia. }
      apply nth_error_firstn_some in Hj.
      apply (Hw j l d Hj Hd). exact Hjk.
  Qed.
End Window.
