From Coq Require Import ZArith List Bool Lia.
From SK Require Import Model.Gzip.
Import ListNotations.
Open Scope Z_scope.

Section T.
  Variable Res : Type.
  Variable search : list Z -> Res.
  Variable empty : Res.
  (* searching a descriptor that yields no bytes reports nothing and all-zero
     statistics - the same as the zero-size shortcut *)
  Hypothesis search_nil : search [] = empty.

  Lemma execute_is_search f : wf f -> execute Res search empty f = search (stream f).
  Proof.
    unfold wf, execute. intros H. destruct (raw_size f =? 0) eqn:E.
    - apply Z.eqb_eq in E. destruct (kind f).
      + assert (stream f = []).
        { destruct (stream f); [reflexivity|]. unfold lenZ in H. cbn in H. lia. }
        rewrite H0. symmetry. exact search_nil.
      + lia.
    - destruct (kind f); reflexivity.
  Qed.

  Theorem gzip_transparent f g :
    wf f -> wf g -> stream f = stream g ->
    execute Res search empty f = execute Res search empty g.
  Proof.
    intros Hf Hg He. rewrite !execute_is_search by assumption.
    rewrite He. reflexivity.
  Qed.
End T.
