From Coq Require Import String List Bool Arith Lia.
From SK Require Import Model.Skel Model.Stm Model.CallCount.
Import ListNotations.
Open Scope list_scope.

Scheme tr_mut := Induction for tr Sort Prop
  with trl_mut := Induction for trl Sort Prop
  with trh_mut := Induction for trh Sort Prop.

Section Sound.
  Variable p : ev -> bool.

  Lemma count_app t1 t2 : count p (t1 ++ t2) = count p t1 + count p t2.
  Proof. induction t1 as [|e t1 IH]; cbn [count app]; [reflexivity|lia]. Qed.

  Lemma maxc_if a b : maxc p (SIf a b) = omax (maxl p a) (maxl p b).
  Proof.
    reflexivity.
  Qed.

  Lemma maxl_go l :
    (fix go (l : list stm) : option nat :=
       match l with [] => Some 0 | s' :: r => oadd (maxc p s') (go r) end) l
    = maxl p l.
  Proof. induction l as [|s r IH]; cbn [maxl]; [reflexivity|now rewrite IH]. Qed.

  Lemma maxc_loop b :
    maxc p (SLoop b) = match maxl p b with Some 0 => Some 0 | _ => None end.
  Proof. cbn [maxc]. now rewrite maxl_go. Qed.

  Lemma maxh_go hs :
    (fix goh (hs' : list (string * list stm)) : option nat :=
       match hs' with
       | [] => Some 0
       | (_, b) :: r =>
           omax ((fix go (l : list stm) : option nat :=
                    match l with
                    | [] => Some 0
                    | s' :: r' => oadd (maxc p s') (go r')
                    end) b) (goh r)
       end) hs = maxh p hs.
  Proof.
    induction hs as [|[h b] r IH]; cbn [maxh]; [reflexivity|].
    now rewrite IH, maxl_go.
  Qed.

  Lemma maxc_try body hs orelse fin :
    maxc p (STry body hs orelse fin)
    = oadd (maxl p body)
           (oadd (maxh p hs) (oadd (maxl p orelse) (maxl p fin))).
  Proof. cbn [maxc]. now rewrite !maxl_go, maxh_go. Qed.

  Lemma oadd_some a b n :
    oadd a b = Some n -> exists x y, a = Some x /\ b = Some y /\ n = x + y.
  Proof.
    destruct a as [x|], b as [y|]; cbn; intros H; try discriminate.
    injection H as <-. eauto.
  Qed.

  Lemma omax_some a b n :
    omax a b = Some n ->
    exists x y, a = Some x /\ b = Some y /\ n = Nat.max x y.
  Proof.
    destruct a as [x|], b as [y|]; cbn; intros H; try discriminate.
    injection H as <-. eauto.
  Qed.

  Theorem count_bounded :
    (forall s t, tr s t -> forall n, maxc p s = Some n -> count p t <= n).
  Proof.
    apply (tr_mut
      (fun s t _ => forall n, maxc p s = Some n -> count p t <= n)
      (fun l t _ => forall n, maxl p l = Some n -> count p t <= n)
      (fun hs t _ => forall n, maxh p hs = Some n -> count p t <= n)).
    - intros s n _. cbn. lia.
    - intros e n H. cbn [maxc] in H. injection H as <-. cbn [count]. lia.
    - intros a b t _ IH n H. rewrite maxc_if in H.
      apply omax_some in H as (x & y & Ha & _ & ->).
      specialize (IH x Ha). lia.
    - intros a b t _ IH n H. rewrite maxc_if in H.
      apply omax_some in H as (x & y & _ & Hb & ->).
      specialize (IH y Hb). lia.
    - intros b t1 t2 _ IH1 _ IH2 n H.
      pose proof H as H'. rewrite maxc_loop in H'.
      destruct (maxl p b) as [[|k]|] eqn:E; try discriminate.
      injection H' as <-. rewrite count_app.
      specialize (IH1 0 eq_refl). specialize (IH2 0 H). lia.
    - intros body hs orelse fin tb th to tf _ IHb _ IHh _ IHo _ IHf n H.
      rewrite maxc_try in H.
      apply oadd_some in H as (x & r1 & Hb & H & ->).
      apply oadd_some in H as (y & r2 & Hh & H & ->).
      apply oadd_some in H as (z & w & Ho & Hf & ->).
      rewrite !count_app.
      specialize (IHb _ Hb). specialize (IHh _ Hh).
      specialize (IHo _ Ho). specialize (IHf _ Hf). lia.
    - intros n H. cbn in H. injection H as <-. cbn. lia.
    - intros s r t1 t2 _ IH1 _ IH2 n H. cbn [maxl] in H.
      apply oadd_some in H as (x & y & Hs & Hr & ->).
      rewrite count_app. specialize (IH1 _ Hs). specialize (IH2 _ Hr). lia.
    - intros hs n _. cbn. lia.
    - intros h b r t _ IH n H. cbn [maxh] in H.
      apply omax_some in H as (x & y & Hb & _ & ->).
      specialize (IH _ Hb). lia.
    - intros [h b] r t _ IH n H. cbn [maxh] in H.
      apply omax_some in H as (x & y & _ & Hr & ->).
      specialize (IH _ Hr). lia.
  Qed.

  Corollary count_bounded_list l t n :
    trl l t -> maxl p l = Some n -> count p t <= n.
  Proof.
    intros H Hn.
    assert (Hs : tr (SIf l l) t) by now apply tr_if_a.
    apply (count_bounded _ _ Hs). rewrite maxc_if, Hn. cbn.
    now rewrite Nat.max_id.
  Qed.
End Sound.
