(* Top-level statements about find_token, find_token_reverse, try_find_line
   (Model/Seek.v) against Spec/Lines.v. *)
From Coq Require Import ZArith List Bool Lia.
From SK Require Import Model.Base Model.Seek Spec.Lines Proofs.Seek.
Import ListNotations.
Open Scope Z_scope.

(* ------------------------------ next_lf / prev_lf compute the relations *)
Lemma next_lf_from_spec : forall c i o, 0 <= i ->
  match next_lf_from c i o with
  | Some p => Z.max o i <= p /\ nth (Z.to_nat (p - i)) c 0 = 10 /\
              forall j, Z.max o i <= j < p -> nth (Z.to_nat (j - i)) c 0 <> 10
  | None => forall j, Z.max o i <= j -> nth (Z.to_nat (j - i)) c 0 <> 10
  end.
Proof.
  induction c as [|x r IH]; intros i o Hi; simpl.
  - intros j Hj. destruct (Z.to_nat (j - i)); simpl; lia.
  - destruct ((o <=? i) && (x =? 10)) eqn:E.
    + apply andb_true_iff in E. destruct E as [E1 E2].
      split; [lia|]. split.
      * replace (i - i) with 0 by lia. simpl. lia.
      * intros j Hj. lia.
    + specialize (IH (i + 1) o ltac:(lia)).
      destruct (next_lf_from r (i + 1) o) as [p|].
      * destruct IH as (Hp & Hn & Hm). split; [lia|]. split.
        -- replace (Z.to_nat (p - i)) with (S (Z.to_nat (p - (i + 1)))) by lia.
           exact Hn.
        -- intros j Hj. destruct (Z.eq_dec j i) as [->|Hne].
           ++ replace (i - i) with 0 by lia. simpl.
              apply andb_false_iff in E. destruct E as [E|E]; lia.
           ++ replace (Z.to_nat (j - i)) with (S (Z.to_nat (j - (i + 1)))) by lia.
              simpl. apply Hm. lia.
      * intros j Hj. destruct (Z.eq_dec j i) as [->|Hne].
        -- replace (i - i) with 0 by lia. simpl.
           apply andb_false_iff in E. destruct E as [E|E]; lia.
        -- replace (Z.to_nat (j - i)) with (S (Z.to_nat (j - (i + 1)))) by lia.
           simpl. apply IH. lia.
Qed.

Lemma next_lf_some c o p : 0 <= o -> next_lf c o = Some p -> is_next_lf c o p.
Proof.
  intros Ho E. unfold next_lf in E.
  pose proof (next_lf_from_spec c 0 o ltac:(lia)) as S. rewrite E in S.
  destruct S as (Hp & Hn & Hm). rewrite Z.sub_0_r in Hn.
  split; [lia|]. split; [split; [lia|exact Hn]|].
  intros j Hj [_ Hl]. apply (Hm j); [lia|]. rewrite Z.sub_0_r. exact Hl.
Qed.

Lemma next_lf_none c o : 0 <= o -> next_lf c o = None -> no_lf_from c o.
Proof.
  intros Ho E. unfold next_lf in E.
  pose proof (next_lf_from_spec c 0 o ltac:(lia)) as S. rewrite E in S.
  intros j Hj [_ Hl]. apply (S j); [lia|]. rewrite Z.sub_0_r. exact Hl.
Qed.

Lemma prev_lf_from_spec : forall c i o, 0 <= i ->
  match prev_lf_from c i o with
  | Some q => i <= q < o /\ nth (Z.to_nat (q - i)) c 0 = 10 /\
              forall j, q < j < o -> nth (Z.to_nat (j - i)) c 0 <> 10
  | None => forall j, i <= j < o -> nth (Z.to_nat (j - i)) c 0 <> 10
  end.
Proof.
  induction c as [|x r IH]; intros i o Hi; simpl.
  - intros j Hj. destruct (Z.to_nat (j - i)); simpl; lia.
  - specialize (IH (i + 1) o ltac:(lia)).
    destruct (prev_lf_from r (i + 1) o) as [q|].
    + destruct IH as (Hq & Hn & Hm). split; [lia|]. split.
      * replace (Z.to_nat (q - i)) with (S (Z.to_nat (q - (i + 1)))) by lia.
        exact Hn.
      * intros j Hj.
        replace (Z.to_nat (j - i)) with (S (Z.to_nat (j - (i + 1)))) by lia.
        simpl. apply Hm. lia.
    + destruct ((i <? o) && (x =? 10)) eqn:E.
      * apply andb_true_iff in E. destruct E as [E1 E2].
        split; [lia|]. split.
        -- replace (i - i) with 0 by lia. simpl. lia.
        -- intros j Hj.
           replace (Z.to_nat (j - i)) with (S (Z.to_nat (j - (i + 1)))) by lia.
           simpl. apply IH. lia.
      * intros j Hj. destruct (Z.eq_dec j i) as [->|Hne].
        -- replace (i - i) with 0 by lia. simpl.
           apply andb_false_iff in E. destruct E as [E|E]; lia.
        -- replace (Z.to_nat (j - i)) with (S (Z.to_nat (j - (i + 1)))) by lia.
           simpl. apply IH. lia.
Qed.

Lemma prev_lf_some c o q : prev_lf c o = Some q -> is_prev_lf c o q.
Proof.
  intros E. unfold prev_lf in E.
  pose proof (prev_lf_from_spec c 0 o ltac:(lia)) as S. rewrite E in S.
  destruct S as (Hq & Hn & Hm). rewrite Z.sub_0_r in Hn.
  split; [lia|]. split; [split; [lia|exact Hn]|].
  intros j Hj [_ Hl]. apply (Hm j); [lia|]. rewrite Z.sub_0_r. exact Hl.
Qed.

Lemma prev_lf_none c o : prev_lf c o = None -> no_lf_before c o.
Proof.
  intros E. unfold prev_lf in E.
  pose proof (prev_lf_from_spec c 0 o ltac:(lia)) as S. rewrite E in S.
  intros j Hj [Hj0 Hl]. apply (S j); [lia|]. rewrite Z.sub_0_r. exact Hl.
Qed.

(* the relations determine their witness: the functions are THE least /
   greatest line feed *)
Lemma is_next_lf_unique c o p p' :
  is_next_lf c o p -> is_next_lf c o p' -> p = p'.
Proof.
  intros (H1 & H2 & H3) (H1' & H2' & H3').
  destruct (Z.lt_trichotomy p p') as [Hlt|[Heq|Hgt]]; [|exact Heq|].
  - exfalso. apply (H3' p); [lia|exact H2].
  - exfalso. apply (H3 p'); [lia|exact H2'].
Qed.

Lemma is_prev_lf_unique c o q q' :
  is_prev_lf c o q -> is_prev_lf c o q' -> q = q'.
Proof.
  intros (H1 & H2 & H3) (H1' & H2' & H3').
  destruct (Z.lt_trichotomy q q') as [Hlt|[Heq|Hgt]]; [|exact Heq|].
  - exfalso. apply (H3 q'); [lia|exact H2'].
  - exfalso. apply (H3' q); [lia|exact H2].
Qed.

Lemma is_next_lf_fun c o p : 0 <= o -> is_next_lf c o p -> next_lf c o = Some p.
Proof.
  intros Ho Hp. destruct (next_lf c o) as [p'|] eqn:E.
  - f_equal. eapply is_next_lf_unique; [apply next_lf_some; eassumption|exact Hp].
  - exfalso. destruct Hp as (H1 & H2 & _).
    apply (next_lf_none c o Ho E p H1 H2).
Qed.

Lemma is_prev_lf_fun c o q : is_prev_lf c o q -> prev_lf c o = Some q.
Proof.
  intros Hq. destruct (prev_lf c o) as [q'|] eqn:E.
  - f_equal. eapply is_prev_lf_unique; [apply prev_lf_some; eassumption|exact Hq].
  - exfalso. destruct Hq as (H1 & H2 & _).
    apply (prev_lf_none c o E q H1 H2).
Qed.

Lemma next_lf_iff c o p : 0 <= o -> (next_lf c o = Some p <-> is_next_lf c o p).
Proof.
  intros Ho. split; [apply next_lf_some; exact Ho|apply is_next_lf_fun; exact Ho].
Qed.

Lemma prev_lf_iff c o q : prev_lf c o = Some q <-> is_prev_lf c o q.
Proof. split; [apply prev_lf_some|apply is_prev_lf_fun]. Qed.

(* ------------------------------------------------------- find_token_spec *)
(* the result the scans must produce *)
Definition scan_fwd (H A : Z) (c : list Z) (o : Z) : tok :=
  match next_lf c o with
  | Some p => if p - o <? A * H then Found p else ErrMaxLine
  | None => if lenZ c - o <? A * H then ReachedEof (lenZ c)
            else ErrMaxLine
  end.
Definition scan_bwd (H A : Z) (c : list Z) (o : Z) : tok :=
  match prev_lf c o with
  | Some q => if o - q <=? A * H then Found q else ErrMaxLine
  | None => if o <? A * H then ReachedEof 0 else ErrMaxLine
  end.

Theorem find_token_spec H A c o :
  0 < H -> 0 < A -> 0 <= o <= lenZ c ->
  find_token H A c o = scan_fwd H A c o.
Proof.
  intros HH HA Ho. unfold find_token, scan_fwd.
  destruct (next_lf c o) as [p|] eqn:E.
  - pose proof (next_lf_some c o p ltac:(lia) E) as Hn.
    destruct (p - o <? A * H) eqn:Eb.
    + apply (ftl_found H c HH); [lia|rewrite Z.add_0_r; exact Hn|].
      rewrite Z2Nat.id by lia. lia.
    + apply (ftl_found_far H c HH _ _ _ p); [lia|rewrite Z.add_0_r; exact Hn|].
      rewrite Z2Nat.id by lia. lia.
  - pose proof (next_lf_none c o ltac:(lia) E) as Hn.
    rewrite (ftl_none H c HH); [|lia|rewrite Z.add_0_r; exact Hn].
    rewrite Z2Nat.id by lia. rewrite Z.add_0_r.
    replace (1 <=? A) with true by lia. reflexivity.
Qed.

Theorem find_token_reverse_spec H A c o :
  0 < H -> 0 < A -> 0 <= o <= lenZ c ->
  find_token_reverse H A c o = scan_bwd H A c o.
Proof.
  intros HH HA Ho. unfold find_token_reverse, scan_bwd.
  assert (He : o + - H + H = o) by lia.
  destruct (prev_lf c o) as [q|] eqn:E.
  - pose proof (prev_lf_some c o q E) as Hn.
    destruct (o - q <=? A * H) eqn:Eb.
    + apply (ftr_found H c HH); rewrite ?He; [lia|exact Hn|].
      rewrite Z2Nat.id by lia. lia.
    + apply (ftr_found_far H c HH _ _ _ q); rewrite ?He; [lia|exact Hn|].
      rewrite Z2Nat.id by lia. lia.
  - pose proof (prev_lf_none c o E) as Hn.
    rewrite (ftr_none H c HH); rewrite ?He; [|lia|exact Hn].
    rewrite Z2Nat.id by lia.
    replace (1 <=? A) with true by lia. reflexivity.
Qed.

(* soundness corollaries, independent of the budget *)
Lemma find_token_found H A c o p :
  0 < H -> 0 < A -> 0 <= o <= lenZ c ->
  find_token H A c o = Found p -> is_next_lf c o p.
Proof.
  intros HH HA Ho E. rewrite find_token_spec in E by assumption.
  unfold scan_fwd in E. destruct (next_lf c o) as [p'|] eqn:En.
  - destruct (p' - o <? A * H); [|discriminate]. inversion E; subst p'.
    apply next_lf_some; [lia|exact En].
  - destruct (lenZ c - o <? A * H); discriminate.
Qed.

Lemma find_token_eof H A c o x :
  0 < H -> 0 < A -> 0 <= o <= lenZ c ->
  find_token H A c o = ReachedEof x -> x = lenZ c /\ no_lf_from c o.
Proof.
  intros HH HA Ho E. rewrite find_token_spec in E by assumption.
  unfold scan_fwd in E. destruct (next_lf c o) as [p'|] eqn:En.
  - destruct (p' - o <? A * H); discriminate.
  - destruct (lenZ c - o <? A * H); [|discriminate].
    inversion E. split; [reflexivity|]. apply next_lf_none; [lia|exact En].
Qed.

Lemma find_token_reverse_found H A c o q :
  0 < H -> 0 < A -> 0 <= o <= lenZ c ->
  find_token_reverse H A c o = Found q -> is_prev_lf c o q.
Proof.
  intros HH HA Ho E. rewrite find_token_reverse_spec in E by assumption.
  unfold scan_bwd in E. destruct (prev_lf c o) as [q'|] eqn:En.
  - destruct (o - q' <=? A * H); [|discriminate]. inversion E; subst q'.
    apply prev_lf_some; exact En.
  - destruct (o <? A * H); discriminate.
Qed.

Lemma find_token_reverse_eof H A c o x :
  0 < H -> 0 < A -> 0 <= o <= lenZ c ->
  find_token_reverse H A c o = ReachedEof x -> x = 0 /\ no_lf_before c o.
Proof.
  intros HH HA Ho E. rewrite find_token_reverse_spec in E by assumption.
  unfold scan_bwd in E. destruct (prev_lf c o) as [q'|] eqn:En.
  - destruct (o - q' <=? A * H); discriminate.
  - destruct (o <? A * H); [|discriminate].
    inversion E. split; [reflexivity|]. apply prev_lf_none; exact En.
Qed.

(* ------------------------------------------------------- try_find_line *)
(* the LogLine that describes the line containing [o] *)
Definition exact_slf (c : list Z) (o : Z) : tok :=
  match prev_lf c o with Some q => Found q | None => ReachedEof 0 end.
Definition exact_elf (c : list Z) (o : Z) : tok :=
  match next_lf c o with Some p => Found p | None => ReachedEof (lenZ c) end.

Lemma exact_slf_start c o : start_offset (exact_slf c o) = line_start c o.
Proof. unfold exact_slf, line_start. destruct (prev_lf c o); reflexivity. Qed.

Lemma exact_elf_off c o : tok_off (exact_elf c o) = line_end c o.
Proof. unfold exact_elf, line_end. destruct (next_lf c o); reflexivity. Qed.

Lemma exact_elf_end c o :
  end_offset (exact_elf c o) =
  match next_lf c o with Some p => p - 1 | None => lenZ c end.
Proof. unfold exact_elf. destruct (next_lf c o); reflexivity. Qed.

(* exact characterisation, both directions: inside the budget the LogLine is
   exactly the line containing [o]; outside it the call raises. *)
Theorem try_find_line_spec H A c o :
  0 < H -> 0 < A -> 0 <= o <= lenZ c ->
  try_find_line H A c o None None =
  if within_budget H A c o then Line (exact_slf c o) (exact_elf c o)
  else LineErr.
Proof.
  intros HH HA Ho. unfold try_find_line.
  rewrite find_token_spec, find_token_reverse_spec by assumption.
  unfold within_budget, fwd_in_budget, bwd_in_budget, scan_fwd, scan_bwd,
    exact_slf, exact_elf.
  destruct (next_lf c o) as [p|] eqn:En.
  - pose proof (next_lf_some c o p ltac:(lia) En) as (Hp1 & Hp2 & _).
    apply lf_at_lt in Hp2.
    destruct (p - o <? A * H); [|reflexivity]. cbn [andb].
    destruct (prev_lf c o) as [q|] eqn:Ep.
    + pose proof (prev_lf_some c o q Ep) as (Hq1 & Hq2 & _).
      apply lf_at_lt in Hq2.
      destruct (o - q <=? A * H); [|reflexivity]. cbn [tok_off].
      replace ((q <=? lenZ c) && (0 <=? q) && (p <=? lenZ c) && (0 <=? p) &&
               (q <=? p)) with true; [reflexivity|].
      symmetry. repeat (apply andb_true_intro; split); lia.
    + destruct (o <? A * H); [|reflexivity]. cbn [tok_off].
      replace ((0 <=? lenZ c) && (0 <=? 0) && (p <=? lenZ c) && (0 <=? p) &&
               (0 <=? p)) with true; [reflexivity|].
      symmetry. repeat (apply andb_true_intro; split); lia.
  - destruct (lenZ c - o <? A * H); [|reflexivity]. cbn [andb].
    destruct (prev_lf c o) as [q|] eqn:Ep.
    + pose proof (prev_lf_some c o q Ep) as (Hq1 & Hq2 & _).
      apply lf_at_lt in Hq2.
      destruct (o - q <=? A * H); [|reflexivity]. cbn [tok_off].
      replace ((q <=? lenZ c) && (0 <=? q) && (lenZ c <=? lenZ c) &&
               (0 <=? lenZ c) && (q <=? lenZ c)) with true; [reflexivity|].
      symmetry. repeat (apply andb_true_intro; split); lia.
    + destruct (o <? A * H); [|reflexivity]. cbn [tok_off].
      replace ((0 <=? lenZ c) && (0 <=? 0) && (lenZ c <=? lenZ c) &&
               (0 <=? lenZ c) && (0 <=? lenZ c)) with true; [reflexivity|].
      symmetry. repeat (apply andb_true_intro; split); lia.
Qed.

(* the user-level reading: start / end offsets and the date window *)
Theorem try_find_line_exact H A c o :
  0 < H -> 0 < A -> 0 <= o <= lenZ c ->
  within_budget H A c o = true ->
  exists slf elf,
    try_find_line H A c o None None = Line slf elf /\
    start_offset slf = line_start c o /\
    tok_off elf = line_end c o /\
    (tok_found elf = true <-> line_end c o < lenZ c) /\
    end_offset elf = (if tok_found elf then line_end c o - 1 else lenZ c) /\
    forall W, logline_window W c slf = read c (line_start c o) W.
Proof.
  intros HH HA Ho Hb. exists (exact_slf c o), (exact_elf c o).
  rewrite try_find_line_spec by assumption. rewrite Hb.
  split; [reflexivity|]. split; [apply exact_slf_start|].
  split; [apply exact_elf_off|].
  unfold exact_elf, line_end. destruct (next_lf c o) as [p|] eqn:En.
  - pose proof (next_lf_some c o p ltac:(lia) En) as (_ & Hp2 & _).
    apply lf_at_lt in Hp2. cbn. split; [split; [lia|reflexivity]|].
    split; [reflexivity|]. intro W. unfold logline_window.
    rewrite exact_slf_start. reflexivity.
  - cbn. split; [split; [discriminate|lia]|].
    split; [reflexivity|]. intro W. unfold logline_window.
    rewrite exact_slf_start. reflexivity.
Qed.

Theorem try_find_line_error_iff H A c o :
  0 < H -> 0 < A -> 0 <= o <= lenZ c ->
  (try_find_line H A c o None None = LineErr <-> within_budget H A c o = false).
Proof.
  intros HH HA Ho. rewrite try_find_line_spec by assumption.
  destruct (within_budget H A c o); split; intro E; try discriminate;
    reflexivity.
Qed.

(* ------------------------------------ sufficient conditions on the line *)
(* 0 <= line_start <= o <= line_end <= |c| *)
Lemma line_bounds c o : 0 <= o <= lenZ c ->
  0 <= line_start c o <= o /\ o <= line_end c o <= lenZ c /\
  line_end c o <= line_stop c o <= line_end c o + 1.
Proof.
  intros Ho. unfold line_start, line_end, line_stop.
  destruct (prev_lf c o) as [q|] eqn:Ep.
  - pose proof (prev_lf_some c o q Ep) as (Hq1 & Hq2 & _). apply lf_at_lt in Hq2.
    destruct (next_lf c o) as [p|] eqn:En.
    + pose proof (next_lf_some c o p ltac:(lia) En) as (Hp1 & Hp2 & _).
      apply lf_at_lt in Hp2. lia.
    + lia.
  - destruct (next_lf c o) as [p|] eqn:En.
    + pose proof (next_lf_some c o p ltac:(lia) En) as (Hp1 & Hp2 & _).
      apply lf_at_lt in Hp2. lia.
    + lia.
Qed.

(* every line of at most A*H - 1 bytes (terminator included, if any) is
   inside the budget, wherever it lies *)
Lemma short_line_within_budget H A c o :
  0 < H -> 0 < A -> 0 <= o <= lenZ c ->
  line_len c o <= A * H - 1 -> within_budget H A c o = true.
Proof.
  intros HH HA Ho Hl. pose proof (line_bounds c o Ho) as Hb.
  unfold line_len, line_stop, line_start, line_end, within_budget,
    fwd_in_budget, bwd_in_budget in *.
  destruct (prev_lf c o) as [q|]; destruct (next_lf c o) as [p|];
    apply andb_true_intro; split; lia.
Qed.

(* a line that ends with a line feed may use the full A*H, terminator
   included *)
Lemma terminated_line_within_budget H A c o p :
  0 < H -> 0 < A -> 0 <= o <= lenZ c ->
  next_lf c o = Some p ->
  line_len c o <= A * H -> within_budget H A c o = true.
Proof.
  intros HH HA Ho En Hl. pose proof (line_bounds c o Ho) as Hb.
  unfold line_len, line_stop, line_start, line_end, within_budget,
    fwd_in_budget, bwd_in_budget in *. rewrite En in *.
  destruct (prev_lf c o) as [q|]; apply andb_true_intro; split; lia.
Qed.

(* and these bounds are exact: from one end of a longer line the lookup
   raises.  Terminated line of more than A*H bytes, looked up at its first
   byte: *)
Lemma long_terminated_line_raises H A c o p :
  0 < H -> 0 < A -> 0 <= o <= lenZ c ->
  next_lf c o = Some p -> A * H < line_len c o ->
  try_find_line H A c (line_start c o) None None = LineErr \/
  try_find_line H A c p None None = LineErr.
Proof.
  intros HH HA Ho En Hl. pose proof (line_bounds c o Ho) as (Hs & He & _).
  destruct (next_lf_some c o p ltac:(lia) En) as (Hop & Hlp & Hmin).
  pose proof (lf_at_lt _ _ Hlp) as Hpb.
  unfold line_len, line_stop in Hl. rewrite En in Hl.
  unfold line_start in *. destruct (prev_lf c o) as [q|] eqn:Ep.
  - (* interior line: backwards from p the line feed q is too far *)
    right. apply try_find_line_error_iff; try assumption; [lia|].
    destruct (prev_lf_some c o q Ep) as (Hq & Hlq & Hmax).
    assert (Epp : prev_lf c p = Some q).
    { apply is_prev_lf_fun. split; [lia|]. split; [exact Hlq|].
      intros j Hj. destruct (Z_lt_le_dec j o) as [Hjo|Hjo].
      - apply Hmax. lia.
      - apply Hmin. lia. }
    unfold within_budget, bwd_in_budget. rewrite Epp.
    replace (p - q <=? A * H) with false by lia. apply andb_false_r.
  - (* first line: backwards from p there is no line feed and p >= A*H *)
    right. apply try_find_line_error_iff; try assumption; [lia|].
    pose proof (prev_lf_none c o Ep) as Hnb.
    assert (Epp : prev_lf c p = None).
    { destruct (prev_lf c p) as [q|] eqn:E; [|reflexivity]. exfalso.
      destruct (prev_lf_some c p q E) as (Hq & Hlq & _).
      destruct (Z_lt_le_dec q o) as [Hjo|Hjo].
      - apply (Hnb q Hjo Hlq).
      - apply (Hmin q); [lia|exact Hlq]. }
    unfold within_budget, bwd_in_budget. rewrite Epp.
    replace (p <? A * H) with false by lia. apply andb_false_r.
Qed.

(* unterminated last line of A*H bytes or more, looked up at its first byte:
   the end of the file is not reached *)
Lemma long_unterminated_line_raises H A c o :
  0 < H -> 0 < A -> 0 <= o <= lenZ c ->
  next_lf c o = None -> A * H <= line_len c o ->
  try_find_line H A c (line_start c o) None None = LineErr.
Proof.
  intros HH HA Ho En Hl. pose proof (line_bounds c o Ho) as (Hs & He & _).
  unfold line_len, line_stop in Hl. rewrite En in Hl.
  apply try_find_line_error_iff; try assumption; [lia|].
  assert (Ens : next_lf c (line_start c o) = None).
  { pose proof (next_lf_none c o ltac:(lia) En) as Hn.
    destruct (next_lf c (line_start c o)) as [p|] eqn:E; [|reflexivity].
    exfalso. destruct (next_lf_some c (line_start c o) p ltac:(lia) E) as (H1 & H2 & _).
    destruct (Z_lt_le_dec p o) as [Hlt|Hge]; [|apply (Hn p Hge H2)].
    unfold line_start in *. destruct (prev_lf c o) as [q|] eqn:Ep.
    - destruct (prev_lf_some c o q Ep) as (_ & _ & Hm). apply (Hm p); [lia|exact H2].
    - apply (prev_lf_none c o Ep p Hlt H2). }
  unfold within_budget, fwd_in_budget. rewrite Ens.
  replace (lenZ c - line_start c o <? A * H) with false by lia. reflexivity.
Qed.
