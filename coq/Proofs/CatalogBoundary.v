(* C09 - boundary lemmas: paths with whitespace are never lost; the executable
   classification [rotated] agrees with its declarative reading; ungrouped
   files are always in the result *)
From Coq Require Import ZArith List Bool Lia.
From SK Require Import Model.Collection Model.Catalog Spec.Catalog
     Proofs.CollectionDict Proofs.Collection Proofs.CatalogStr.
Import ListNotations.
Open Scope Z_scope.

Lemma digit_not_space c : is_digit c = true -> is_space c = false.
Proof.
  unfold is_digit, is_space. intro H. apply andb_true_iff in H.
  destruct H as [H1 H2]. apply Z.leb_le in H1. apply Z.leb_le in H2.
  replace (c <=? 13) with false by (symmetry; apply Z.leb_gt; lia).
  replace (28 <=? c) with true by (symmetry; apply Z.leb_le; lia).
  replace (c <=? 32) with false by (symmetry; apply Z.leb_gt; lia).
  replace (c =? 133) with false by (symmetry; apply Z.eqb_neq; lia).
  replace (c =? 160) with false by (symmetry; apply Z.eqb_neq; lia).
  replace (c =? 5760) with false by (symmetry; apply Z.eqb_neq; lia).
  replace (8192 <=? c) with false by (symmetry; apply Z.leb_gt; lia).
  replace (c =? 8232) with false by (symmetry; apply Z.eqb_neq; lia).
  replace (c =? 8233) with false by (symmetry; apply Z.eqb_neq; lia).
  replace (c =? 8239) with false by (symmetry; apply Z.eqb_neq; lia).
  replace (c =? 8287) with false by (symmetry; apply Z.eqb_neq; lia).
  replace (c =? 12288) with false by (symmetry; apply Z.eqb_neq; lia).
  rewrite ?andb_false_r. reflexivity.
Qed.

Lemma span_digits_digits s d rest :
  span_digits s = (d, rest) -> forallb is_digit d = true.
Proof.
  revert d rest. induction s as [|c s IH]; simpl; intros d rest H.
  - inversion H. reflexivity.
  - destruct (is_digit c) eqn:E.
    + destruct (span_digits s) as [d' r'] eqn:Es. inversion H; subst.
      simpl. rewrite E. now apply (IH d' rest).
    + inversion H. reflexivity.
Qed.

Lemma digits_no_ws d : forallb is_digit d = true -> no_ws d = true.
Proof.
  induction d as [|c d IH]; simpl; intro H; [reflexivity|].
  apply andb_true_iff in H. destruct H as [Hc Hd].
  rewrite (digit_not_space c Hc). simpl. now apply IH.
Qed.

Lemma strip_num_no_ws r d a :
  strip_num r = Some (d, a) -> no_ws a = true -> no_ws r = true.
Proof.
  unfold strip_num. destruct (span_digits r) as [drev rest] eqn:Es.
  destruct (nonempty drev && starts_with (rev dotlogdot) rest) eqn:Ec;
    [|discriminate].
  apply andb_true_iff in Ec. destruct Ec as [_ Ec].
  apply starts_with_app in Ec. simpl length in Ec.
  remember (skipn 5 rest) as a5.
  intros H Ha. inversion H; subst a.
  pose proof (span_digits_digits _ _ _ Es) as Hd.
  apply span_digits_app in Es. rewrite Es, no_ws_app, (digits_no_ws _ Hd).
  rewrite Ec, no_ws_app, Ha. reflexivity.
Qed.

(* the repaired group regex only ever matches whitespace-free text *)
Lemma grp_fixed_full_no_ws x p :
  grp_fixed_full x = Some p -> no_ws x = true.
Proof.
  unfold grp_fixed_full. rewrite <- (no_ws_rev x).
  destruct (starts_with (rev dotlog) (rev x)) eqn:El.
  - unfold stem_ok. destruct (nonempty (skipn 4 (rev x)) &&
                               no_ws (skipn 4 (rev x))) eqn:E; [|discriminate].
    intros _. apply andb_true_iff in E. destruct E as [_ E].
    apply starts_with_app in El. simpl length in El.
    rewrite El, no_ws_app, E. reflexivity.
  - destruct (starts_with [122; 103; 46] (rev x)) eqn:Eg.
    + destruct (strip_num (skipn 3 (rev x))) as [[d a]|] eqn:Es;
        [|discriminate].
      unfold stem_ok. destruct (nonempty a && no_ws a) eqn:E; [|discriminate].
      intros _. apply andb_true_iff in E. destruct E as [_ E].
      apply starts_with_app in Eg. simpl length in Eg.
      rewrite Eg, no_ws_app, (strip_num_no_ws _ _ _ Es E). reflexivity.
    + destruct (strip_num (rev x)) as [[d a]|] eqn:Es; [|discriminate].
      unfold stem_ok. destruct (nonempty a && no_ws a) eqn:E; [|discriminate].
      intros _. apply andb_true_iff in E. destruct E as [_ E].
      now apply (strip_num_no_ws _ _ _ Es).
Qed.

(* whitespace anywhere (other than one final newline, which `$` skips):
   the path is not grouped *)
Lemma whitespace_not_grouped x :
  no_ws x = false -> (forall t, x = t ++ [10] -> no_ws t = false) ->
  grp_fixed x = None.
Proof.
  intros Hx Hnl. unfold grp_fixed, dollar.
  destruct (grp_fixed_full x) as [p|] eqn:E.
  - apply grp_fixed_full_no_ws in E. congruence.
  - destruct (rev x) as [|c r] eqn:Er; [reflexivity|].
    assert (Hc : c = 10 -> grp_fixed_full (rev r) = None).
    { intros ->. destruct (grp_fixed_full (rev r)) as [p|] eqn:E';
        [|reflexivity].
      apply grp_fixed_full_no_ws in E'.
      assert (Ex : x = rev r ++ [10]).
      { rewrite <- (rev_involutive x), Er. reflexivity. }
      rewrite (Hnl _ Ex) in E'. discriminate. }
    destruct (Z.eqb_spec c 10) as [->|Hn]; [now apply Hc|].
    destruct c as [|q|q]; try reflexivity.
    do 4 (destruct q as [q|q|]; try reflexivity). exfalso. now apply Hn.
Qed.

(* an ungrouped regular file is always in the result, whatever the depth *)
Lemma fd_newc_mono G l acc y :
  In y (fst acc) -> In y (fst (fold_left (fd_step G) l acc)).
Proof.
  revert acc. induction l as [|[p b] l IH]; intros [newc groups] H;
    [assumption|].
  cbn [fold_left]. apply IH. unfold fd_step. destruct b; simpl; [|assumption].
  destruct (G p); [destruct (ends_with p dotlog)|]; simpl;
    try assumption; apply in_or_app; now left.
Qed.

Lemma ungrouped_kept G nm contents depth x :
  In (x, true) contents -> G x = None ->
  In x (filtered_dir G nm contents depth).
Proof.
  intros Hin Hg. unfold filtered_dir.
  assert (H : In x (fst (fold_left (fd_step G) contents ([], [])))).
  { generalize (@nil str, @nil (str * list str)) as acc.
    induction contents as [|[p b] l IH]; intros acc; [contradiction|].
    cbn [fold_left]. destruct Hin as [Hin|Hin].
    - inversion Hin; subst. apply fd_newc_mono.
      destruct acc as [newc groups]. unfold fd_step. simpl. rewrite Hg.
      simpl. apply in_or_app. right. now left.
    - now apply IH. }
  destruct (fold_left (fd_step G) contents ([], [])) as [newc groups].
  apply in_or_app. now left.
Qed.

(* ---- the executable classification means what its declarative reading says *)
Lemma nonempty_ne {A} (l : list A) : nonempty l = true -> l <> [].
Proof. destruct l; [discriminate|discriminate]. Qed.

Lemma forallb_rev {A} (f : A -> bool) l : forallb f (rev l) = forallb f l.
Proof.
  induction l as [|x l IH]; simpl; [reflexivity|].
  rewrite forallb_app, IH. simpl. rewrite andb_true_r. apply andb_comm.
Qed.

Lemma num_shape r' drev rest :
  span_digits r' = (drev, rest) -> num_cond drev rest = true ->
  drev <> [] /\ forallb is_digit drev = true /\ skipn 5 rest <> [] /\
  r' = drev ++ rev dotlogdot ++ skipn 5 rest.
Proof.
  intros Es Ec. unfold num_cond in Ec.
  apply andb_true_iff in Ec. destruct Ec as [Ec E3].
  apply andb_true_iff in Ec. destruct Ec as [E1 E2].
  pose proof (span_digits_digits _ _ _ Es) as Hd.
  apply span_digits_app in Es.
  apply starts_with_app in E2. simpl length in E2.
  split; [now apply nonempty_ne|]. split; [assumption|].
  split; [now apply nonempty_ne|]. now rewrite Es, E2 at 1.
Qed.

Lemma rev_nonnil {A} (l : list A) : l <> [] -> rev l <> [].
Proof.
  intros H Hc. apply H. rewrite <- (rev_involutive l), Hc. reflexivity.
Qed.

Lemma rotated_sound x stem n :
  rotated x = Some (stem, n) -> is_rotated x stem n.
Proof.
  rewrite rotated_unfold. unfold r_gz.
  destruct (starts_with [122; 103; 46] (rev x)) eqn:Eg.
  - destruct (span_digits (skipn 3 (rev x))) as [drev rest] eqn:Es.
    destruct (num_cond drev rest) eqn:Ec; [|discriminate].
    destruct (num_shape _ _ _ Es Ec) as [H1 [H2 [H3 H4]]].
    remember (skipn 5 rest) as a5.
    intro H. inversion H; subst stem n. clear H.
    exists (rev drev). split; [now apply rev_nonnil|].
    split; [now rewrite forallb_rev|]. split; [now apply rev_nonnil|].
    split; [reflexivity|]. right.
    apply starts_with_app in Eg. simpl length in Eg.
    rewrite <- (rev_involutive x), Eg, H4.
    rewrite !rev_app_distr, <- !app_assoc. reflexivity.
  - destruct (span_digits (rev x)) as [drev rest] eqn:Es.
    destruct (num_cond drev rest) eqn:Ec; [|discriminate].
    destruct (num_shape _ _ _ Es Ec) as [H1 [H2 [H3 H4]]].
    remember (skipn 5 rest) as a5.
    intro H. inversion H; subst stem n. clear H.
    exists (rev drev). split; [now apply rev_nonnil|].
    split; [now rewrite forallb_rev|]. split; [now apply rev_nonnil|].
    split; [reflexivity|]. left.
    rewrite <- (rev_involutive x), H4.
    rewrite !rev_app_distr, <- !app_assoc. reflexivity.
Qed.

Lemma span_digits_app_stop d b :
  forallb is_digit d = true ->
  match b with [] => True | c :: _ => is_digit c = false end ->
  span_digits (d ++ b) = (d, b).
Proof.
  induction d as [|a d IH]; simpl; intros Hd Hb.
  - destruct b as [|c t]; [reflexivity|]. simpl. now rewrite Hb.
  - apply andb_true_iff in Hd. destruct Hd as [Ha Hd].
    now rewrite Ha, (IH Hd Hb).
Qed.

Lemma rotated_core d stem :
  d <> [] -> forallb is_digit d = true -> stem <> [] ->
  let r' := rev d ++ rev dotlogdot ++ rev stem in
  starts_with [122; 103; 46] r' = false /\
  span_digits r' = (rev d, rev dotlogdot ++ rev stem) /\
  num_cond (rev d) (rev dotlogdot ++ rev stem) = true.
Proof.
  intros Hd Hdig Hs. cbv zeta.
  assert (Hrd : forallb is_digit (rev d) = true) by now rewrite forallb_rev.
  split; [|split].
  - destruct (rev d) as [|c t] eqn:E; [exfalso; now apply (rev_nonnil d)|].
    simpl in Hrd. apply andb_true_iff in Hrd. destruct Hrd as [Hc _].
    unfold is_digit in Hc. apply andb_true_iff in Hc. destruct Hc as [_ Hc].
    apply Z.leb_le in Hc. cbn [app starts_with].
    replace (122 =? c) with false by (symmetry; apply Z.eqb_neq; lia).
    reflexivity.
  - apply span_digits_app_stop; [assumption|]. reflexivity.
  - unfold num_cond. rewrite starts_with_refl_app.
    destruct (rev d) eqn:E; [exfalso; now apply (rev_nonnil d)|].
    simpl. destruct (rev stem) eqn:E'; [exfalso; now apply (rev_nonnil stem)|].
    reflexivity.
Qed.

Lemma rotated_complete x stem n :
  is_rotated x stem n -> rotated x = Some (stem, n).
Proof.
  intros [d [Hd [Hdig [Hs [Hn Hx]]]]].
  destruct (rotated_core d stem Hd Hdig Hs) as [C1 [C2 C3]].
  rewrite rotated_unfold. unfold r_gz. destruct Hx as [Hx|Hx]; subst x.
  - rewrite !rev_app_distr, <- !app_assoc. rewrite C1, C2, C3.
    change (rev dotlogdot) with [46; 103; 111; 108; 46]. cbn [app skipn].
    now rewrite !rev_involutive, Hn.
  - rewrite !rev_app_distr, <- !app_assoc.
    change (rev dotgz) with [122; 103; 46].
    change ([122; 103; 46] ++ rev d ++ rev dotlogdot ++ rev stem)
      with (122 :: 103 :: 46 :: rev d ++ rev dotlogdot ++ rev stem).
    cbn [starts_with Z.eqb Pos.eqb andb skipn]. rewrite C2, C3.
    change (rev dotlogdot) with [46; 103; 111; 108; 46]. cbn [app skipn].
    now rewrite !rev_involutive, Hn.
Qed.

Lemma rotated_iff x stem n :
  rotated x = Some (stem, n) <-> is_rotated x stem n.
Proof. split; [apply rotated_sound|apply rotated_complete]. Qed.
