(* CAPSTONE, part 1: _run_search on an open descriptor ([search_stream]),
   for any kind of search.  Where apply_global leaves the descriptor, seen
   as a byte position (bridges B1/B2) and as a line position (B3), and the
   gzip / plain / zero-size dispatch.
   Imports: C11 [position_is_line_boundary] (through Proofs/RunBridge.v),
   C04 [since_seek_exact], C11 [try_find_line_spec] (empty stream),
   C12 [execute_is_search]. *)
From Coq Require Import ZArith List Bool Lia Arith.
From SK Require Import Model.Base Model.Seek Model.SinceSeek Model.Lines
     Model.Task Model.Stats Model.Gzip Model.Run
     Spec.Lines Spec.C04 Spec.Task Spec.Run
     Proofs.Lines Proofs.TaskLoop Proofs.Gzip Proofs.Seek Proofs.SeekSpec
     Proofs.SinceSeek Proofs.SinceSeekExact Proofs.RunBridge.
Import ListNotations.
Open Scope Z_scope.

(* global_restrictions.intersection(search_ids), either way round *)
Lemma intersects_restricted r ids : intersects r ids = restricted r ids.
Proof.
  unfold intersects, restricted.
  destruct (existsb (fun x => memZ x ids) r) eqn:E1;
    destruct (existsb (fun k => memZ k r) ids) eqn:E2; try reflexivity.
  - apply existsb_exists in E1. destruct E1 as [x [Hx Hm]].
    apply memZ_In in Hm.
    assert (existsb (fun k => memZ k r) ids = true).
    { apply existsb_exists. exists x. split; [exact Hm|].
      apply memZ_In. exact Hx. }
    congruence.
  - apply existsb_exists in E2. destruct E2 as [x [Hx Hm]].
    apply memZ_In in Hm.
    assert (existsb (fun x => memZ x ids) r = true).
    { apply existsb_exists. exists x. split; [exact Hm|].
      apply memZ_In. exact Hx. }
    congruence.
Qed.

Lemma restricted_ext r ids1 ids2 :
  (forall k, In k ids1 <-> In k ids2) ->
  restricted r ids1 = restricted r ids2.
Proof. intros Hk. unfold restricted. apply existsb_In_ext. exact Hk. Qed.

Lemma read_nil off n : read [] off n = [].
Proof. unfold read. rewrite skipn_nil, firstn_nil. reflexivity. Qed.

Section Stream.
  Variables H A L W : Z.
  Variable tsw : list Z -> option Z.
  Variable line : Type.
  Variable classify : list Z -> line.
  Hypothesis HH : 0 < H.
  Hypothesis HA : 0 < A.

  Notation atfB := (atf_bytes H A L W tsw).
  Notation atfL := (atf_lines H A L W tsw).
  Notation raises := (seek_raises H A L W tsw).

  (* ---- apply_to_file: position and return value go together ---- *)
  Lemma atf_bytes_some c since p :
    apply_to_file H A L W tsw c since 0 = Some p ->
    exists rv, atfB c since 0%nat = (rv, Z.to_nat p).
  Proof.
    unfold atf_bytes, apply_to_file, apply_to_file_retval. cbn [Z.of_nat].
    destruct (run H A L W tsw c since 0); cbn [position_of retval_of];
      intros E; inversion E; subst; eexists; reflexivity.
  Qed.

  (* ---- apply_global: the byte view and the line view (B3) ---- *)
  Lemma apply_global_views c since restrictions ids :
    let '(o1, p1, a1) :=
      apply_global (atfB c) (globals_of since) restrictions ids in
    apply_global (atfL c) (globals_of since) restrictions ids =
    (o1, lines_before (split_lines c) p1, a1).
  Proof.
    destruct since as [s|]; cbn [globals_of apply_global].
    - destruct (intersects restrictions ids).
      + rewrite lines_before_0. reflexivity.
      + cbn [apply_global_loop]. unfold atf_lines.
        destruct (atfB c s 0%nat) as [[o|] p]; cbn [app];
          reflexivity.
    - rewrite lines_before_0. reflexivity.
  Qed.

  (* every position apply_global can leave the file at is a line boundary
     (C11), unless an exception escaped *)
  Lemma apply_global_boundary c since restrictions ids :
    let '(o1, p1, a1) :=
      apply_global (atfB c) (globals_of since) restrictions ids in
    existsb (raises c) a1 = false -> is_line_boundary c (Z.of_nat p1).
  Proof.
    destruct since as [s|]; cbn [globals_of apply_global].
    - destruct (intersects restrictions ids); [intros _; left; reflexivity|].
      cbn [apply_global_loop app].
      destruct (apply_to_file H A L W tsw c s 0) as [p|] eqn:Ep.
      + destruct (atf_bytes_some c s p Ep) as [rv Erv]. rewrite Erv.
        pose proof (position_is_line_boundary H A L W tsw c HH HA s p Ep)
          as Hb.
        assert (Hp : 0 <= p).
        { destruct Hb as [->|[->|[H0 _]]]; [lia|apply Zle_0_nat|lia]. }
        destruct rv; cbn [apply_global_loop]; intros _;
          rewrite Z2Nat.id by exact Hp; exact Hb.
      + assert (Er : raises c s = true) by (unfold seek_raises; rewrite Ep;
                                           reflexivity).
        destruct (atfB c s 0%nat) as [[o|] p]; cbn [apply_global_loop existsb];
          rewrite Er; discriminate.
    - intros _. left. reflexivity.
  Qed.

  (* (B2)+(B3): the lines read from the byte position are the file's lines
     from the line position on *)
  Lemma read_lines_skipn c p1 :
    is_line_boundary c (Z.of_nat p1) ->
    read_lines line classify c p1 =
    skipn (lines_before (split_lines c) p1) (file_lines line classify c).
  Proof.
    intros Hb. unfold read_lines, file_lines. rewrite skipn_map. f_equal.
    pose proof (boundary_cuts_lines c (Z.of_nat p1) Hb) as E.
    rewrite Nat2Z.id in E. exact E.
  Qed.

  (* ---- where C04 puts the file ---- *)
  Lemma apply_global_position c since restrictions ids :
    0 < L ->
    (seeks since restrictions ids = true -> seek_hyps H A L W tsw c) ->
    exists off applied,
      apply_global (atfB c) (globals_of since) restrictions ids =
      (off, Z.to_nat (start_byte W tsw since restrictions ids c), applied) /\
      existsb (raises c) applied = false.
  Proof.
    intros HL Hs. unfold start_byte, seeks in *.
    destruct since as [s|]; cbn [globals_of apply_global].
    - rewrite intersects_restricted.
      destruct (restricted restrictions ids).
      + exists 0, []. split; reflexivity.
      + destruct (Hs eq_refl) as (h0 & h1 & h2 & h3).
        pose proof (since_seek_exact H A L W tsw c s HH HA HL h0 h1 h2 h3)
          as Ep.
        change (ts_of tsw W c) with (ts_at W tsw c) in Ep.
        destruct (atf_bytes_some c s _ Ep) as [rv Erv].
        cbn [apply_global_loop app]. rewrite Erv.
        assert (Er : raises c s = false)
          by (unfold seek_raises; rewrite Ep; reflexivity).
        destruct rv as [o|]; cbn [apply_global_loop];
          eexists; eexists; (split; [reflexivity|]); cbn [existsb];
          rewrite Er; reflexivity.
    - exists 0, []. split; reflexivity.
  Qed.

  (* searching starts at a line boundary ... *)
  Lemma start_byte_boundary c since restrictions ids :
    0 < L ->
    (seeks since restrictions ids = true -> seek_hyps H A L W tsw c) ->
    is_line_boundary c (start_byte W tsw since restrictions ids c).
  Proof.
    intros HL Hs. unfold start_byte, seeks in *.
    destruct since as [s|]; [|left; reflexivity].
    destruct (restricted restrictions ids); [left; reflexivity|].
    destruct (Hs eq_refl) as (h0 & h1 & h2 & h3).
    pose proof (since_seek_exact H A L W tsw c s HH HA HL h0 h1 h2 h3) as Ep.
    change (ts_of tsw W c) with (ts_at W tsw c) in Ep.
    exact (position_is_line_boundary H A L W tsw c HH HA s _ Ep).
  Qed.

  (* ... so the lines searched are whole lines of the file: the file's lines
     from index k on, where the k lines before are exactly the bytes before
     the start byte.  (Result line number n = line n + k of the file.) *)
  Theorem searched_are_file_lines c since restrictions ids :
    0 < L ->
    (seeks since restrictions ids = true -> seek_hyps H A L W tsw c) ->
    let p := Z.to_nat (start_byte W tsw since restrictions ids c) in
    let k := lines_before (split_lines c) p in
    searched W tsw line classify since restrictions ids c =
      skipn k (file_lines line classify c) /\
    concat (firstn k (split_lines c)) = firstn p c.
  Proof.
    intros HL Hs p k.
    pose proof (start_byte_boundary c since restrictions ids HL Hs) as Hb.
    split.
    - unfold searched, file_lines. rewrite skipn_map. f_equal.
      exact (boundary_cuts_lines c _ Hb).
    - exact (proj2 (boundary_cuts_lines_exact c _ Hb)).
  Qed.

  (* ---- an empty stream (gzip of nothing): the seek returns normally, for
     every oracle and every since date (C11's exact lookup on []) ---- *)
  Lemma seek_of_empty_stream since :
    exists p, apply_to_file H A L W tsw [] since 0 = Some p.
  Proof.
    assert (HAH : 0 < A * H) by lia.
    assert (Etfl : try_find_line H A [] 0 None None =
                   Line (ReachedEof 0) (ReachedEof 0)).
    { assert (Wb : within_budget H A [] 0 = true).
      { unfold within_budget, fwd_in_budget, bwd_in_budget, next_lf, prev_lf.
        cbn [next_lf_from prev_lf_from]. change (Base.lenZ (@nil Z)) with 0.
        apply andb_true_intro. split; apply Z.ltb_lt; lia. }
      rewrite (try_find_line_spec H A [] 0 HH HA) by (cbn; lia).
      rewrite Wb. reflexivity. }
    assert (Ewd : forall n,
               tfld H A W tsw [] n 0 None false = WdNone \/
               exists l, tfld H A W tsw [] n 0 None false = WdLine l /\
                         ll_date W tsw [] l <> None).
    { intros [|n]; [left; reflexivity|]. cbn [tfld]. rewrite Etfl.
      destruct (ll_date W tsw [] (ReachedEof 0, ReachedEof 0)) as [d|] eqn:Ed.
      - right. eexists. split; [reflexivity|]. rewrite Ed. discriminate.
      - left. reflexivity. }
    unfold apply_to_file, run, try_find_line_with_date.
    change (Base.lenZ (@nil Z)) with 0.
    destruct (Ewd (Z.to_nat L)) as [->|(l & -> & Hd)].
    - destruct (match logline_date tsw W [] (Found (-1)) with
                | Some d => since <=? d | None => false end);
        eexists; reflexivity.
    - destruct (ll_date W tsw [] l) as [d|]; [|congruence].
      rewrite andb_false_r.
      destruct (match logline_date tsw W [] (Found (-1)) with
                | Some d => since <=? d | None => false end);
        eexists; reflexivity.
  Qed.

  (* ======================================================== any search *)
  Section Any.
    Variable R : Type.
    Variable ids : list Z.
    Variable exec : list line -> task_result R.

    Notation stream := (search_stream H A L W tsw line classify R ids exec).

    Definition lift (lines : list line) (t : task_result R) : task_out R :=
      match t with
      | TaskOk bs => TkDone bs (task_stats lines bs)
      | TaskHangs => TkHangs
      end.

    (* (B3) the byte view is the line view: [search_stream] reads the same
       lines as Task.run_file with apply_to_file as its [atf] *)
    Lemma stream_is_line_view since restrictions c :
      let '(_, p2, applied) :=
        apply_global (atfL c) (globals_of since) restrictions ids in
      stream since restrictions c =
      if existsb (raises c) applied then TkRaises
      else let lines := skipn p2 (file_lines line classify c) in
           lift lines (exec lines).
    Proof.
      pose proof (apply_global_views c since restrictions ids) as Hv.
      pose proof (apply_global_boundary c since restrictions ids) as Hb.
      unfold search_stream.
      destruct (apply_global (atfB c) (globals_of since) restrictions ids)
        as [[o1 p1] a1].
      rewrite Hv. destruct (existsb (raises c) a1) eqn:Ea; [reflexivity|].
      rewrite (read_lines_skipn c p1 (Hb eq_refl)). unfold lift.
      destruct (exec _); reflexivity.
    Qed.

    (* under C04's hypotheses: the lines searched are the specification's *)
    Lemma stream_searched since restrictions c :
      0 < L ->
      (seeks since restrictions ids = true -> seek_hyps H A L W tsw c) ->
      stream since restrictions c =
      let lines := searched W tsw line classify since restrictions ids c in
      lift lines (exec lines).
    Proof.
      intros HL Hs.
      destruct (apply_global_position c since restrictions ids HL Hs)
        as (off & applied & Eg & Ea).
      unfold search_stream. rewrite Eg, Ea. unfold lift, searched, read_lines.
      destruct (exec _); reflexivity.
    Qed.
    Hypothesis exec_nil : exec [] = TaskOk [].

    (* searching a descriptor that yields no bytes = the zero-size shortcut
       (the premise of C12) *)
    Lemma stream_nil since restrictions :
      stream since restrictions [] = TkDone [] empty_task_stats.
    Proof.
      unfold search_stream.
      pose proof (apply_global_boundary [] since restrictions ids) as Hb.
      destruct (apply_global (atfB []) (globals_of since) restrictions ids)
        as [[o p] a] eqn:Eg.
      assert (Ea : existsb (raises []) a = false).
      { destruct since as [s|]; cbn [globals_of apply_global] in Eg.
        - destruct (intersects restrictions ids).
          + inversion Eg; reflexivity.
          + cbn [apply_global_loop app] in Eg.
            destruct (seek_of_empty_stream s) as [q Eq].
            assert (Er : raises [] s = false)
              by (unfold seek_raises; rewrite Eq; reflexivity).
            destruct (atfB [] s 0%nat) as [[o'|] p'];
              cbn [apply_global_loop] in Eg; inversion Eg; subst;
              cbn [existsb]; rewrite Er; reflexivity.
        - inversion Eg; reflexivity. }
      rewrite Ea. unfold read_lines, lines_from. rewrite skipn_nil.
      cbn [split_lines split_lines_aux map]. rewrite exec_nil. reflexivity.
    Qed.

    (* C12: whatever the kind of file, the task searches its stream *)
    Lemma execute_dispatch since restrictions f :
      wf f ->
      Gzip.execute (task_out R) (stream since restrictions)
                   (TkDone [] empty_task_stats) f =
      stream since restrictions (Gzip.stream f).
    Proof.
      intros Hwf. apply execute_is_search; [|exact Hwf]. apply stream_nil.
    Qed.
  End Any.
End Stream.
