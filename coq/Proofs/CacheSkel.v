(* C19 - from lock skeletons to disciplined programs.

   [well_locked sk] is the boolean discipline check evaluated on the
   skeletons extracted from the source.  It implies that the compiler
   [compile sk false] produces exactly the canonical programs [canon], which
   are [disciplined] (Proofs/CacheInv.v); hence all schedule-quantified
   theorems hold for the extracted skeletons. *)
From Coq Require Import String ZArith List Bool Arith Lia.
From SK Require Import Model.Skel Spec.Cache Model.Cache Proofs.CacheInv.
Import ListNotations.
Open Scope Z_scope.

(* ---------------- decidable equality on events / actions ------------- *)
Definition ev_eqb (a b : ev) : bool :=
  match a, b with
  | Acq x, Acq y | Rel x, Rel y | Rd x, Rd y | Wr x, Wr y | Call x, Call y
  | Handler x, Handler y | RaiseE x, RaiseE y => String.eqb x y
  | LoopB, LoopB | LoopE, LoopE | IfB, IfB | Else, Else | IfE, IfE
  | TryB, TryB | TryElse, TryElse | FinallyB, FinallyB | TryE, TryE
  | Ret, Ret | Break, Break | Continue, Continue => true
  | _, _ => false
  end.

Lemma ev_eqb_eq a b : ev_eqb a b = true -> a = b.
Proof.
  destruct a, b; simpl; intros H; try discriminate; try reflexivity;
    apply String.eqb_eq in H; subst; reflexivity.
Qed.

Fixpoint evs_eqb (a b : list ev) : bool :=
  match a, b with
  | [], [] => true
  | x :: a', y :: b' => ev_eqb x y && evs_eqb a' b'
  | _, _ => false
  end.

Lemma evs_eqb_eq a : forall b, evs_eqb a b = true -> a = b.
Proof.
  induction a as [|x a IH]; destruct b as [|y b]; simpl; intros H;
    try discriminate; [reflexivity|].
  apply andb_true_iff in H. destruct H as [H1 H2].
  apply ev_eqb_eq in H1. apply IH in H2. subst. reflexivity.
Qed.

Definition lock_eqb (a b : lockid) : bool :=
  match a, b with LC, LC | LG, LG => true | _, _ => false end.

Definition act_eqb (a b : act) : bool :=
  match a, b with
  | AAcq x, AAcq y | ARel x, ARel y => lock_eqb x y
  | AMk, AMk | ARead, ARead | ADel, ADel | ACommit1, ACommit1
  | ACommit2, ACommit2 | AClose, AClose | AFail, AFail => true
  | AOpen x, AOpen y | AWrite x, AWrite y | ADelKey x, ADelKey y => x =? y
  | _, _ => false
  end.

Lemma act_eqb_eq a b : act_eqb a b = true -> a = b.
Proof.
  destruct a, b; simpl; intros H; try discriminate; try reflexivity;
    try (destruct l, l0; simpl in H; try discriminate; reflexivity);
    apply Z.eqb_eq in H; subst; reflexivity.
Qed.

Fixpoint acts_eqb (a b : list act) : bool :=
  match a, b with
  | [], [] => true
  | x :: a', y :: b' => act_eqb x y && acts_eqb a' b'
  | _, _ => false
  end.

Lemma acts_eqb_eq a : forall b, acts_eqb a b = true -> a = b.
Proof.
  induction a as [|x a IH]; destruct b as [|y b]; simpl; intros H;
    try discriminate; [reflexivity|].
  apply andb_true_iff in H. destruct H as [H1 H2].
  apply act_eqb_eq in H1. apply IH in H2. subst. reflexivity.
Qed.

(* ---------------- the discipline check ------------------------------- *)
(* events that touch the per-key file *)
Definition is_file_ev (e : ev) : bool :=
  is_access e || ev_is (Call "open") e || ev_is (Call "close") e.

(* an event that touches a lock, a record or a file at all *)
Definition touches_shared (e : ev) : bool :=
  match e with
  | Acq _ | Rel _ | Rd _ | Wr _ | Call _ => true
  | _ => false
  end.

Definition is_loop_ev (e : ev) : bool :=
  match e with LoopB | LoopE => true | _ => false end.

Definition is_dir_call (e : ev) : bool :=
  ev_is (Call "isdir") e || ev_is (Call "makedirs") e.

Definition shape_get : list ev :=
  [Acq "cache"; Call "open"; Rd "record"; Call "close"; Rel "cache"].
Definition shape_wr : list ev :=
  [Acq "cache"; Call "open"; Wr "record"; Call "close"; Rel "cache"].
Definition shape_bulk : list ev :=
  [Acq "cache"; LoopB; Call "open"; Wr "record"; Call "close"; LoopE;
   Rel "cache"].
Definition shape_bp : list act := [AAcq LG; AMk; ARel LG].

(* 1. every open / record access / close - on EVERY path of the raw
      skeleton, handlers included - lies in ONE section of the cache lock;
   2. bulk_set's loop lies inside that section;
   3. lock order cache -> global only: the operations never take the global
      lock themselves, cache_base_path never takes the cache lock and does
      its directory work in one section of the global lock;
   4. on the exception-free path each operation is
      acquire, open, <one access of the right kind>, close, release. *)
Definition well_locked (sk : skels) : bool :=
  one_section "cache" is_file_ev (s_get sk) &&
  one_section "cache" is_file_ev (s_set sk) &&
  one_section "cache" is_file_ev (s_bulk sk) &&
  one_section "cache" is_file_ev (s_unset sk) &&
  all_under "cache" is_loop_ev [] (s_bulk sk) &&
  Nat.eqb (count_acq "global" (s_get sk) + count_acq "global" (s_set sk) +
           count_acq "global" (s_bulk sk) + count_acq "global" (s_unset sk)) 0 &&
  Nat.eqb (count_acq "cache" (s_bp sk)) 0 &&
  one_section "global" is_dir_call (s_bp sk) &&
  evs_eqb (drop_loopb (normal_path (s_get sk))) shape_get &&
  evs_eqb (drop_loopb (normal_path (s_set sk))) shape_wr &&
  evs_eqb (drop_loopb (normal_path (s_unset sk))) shape_wr &&
  evs_eqb (normal_path (s_bulk sk)) shape_bulk &&
  acts_eqb (bp_acts sk) shape_bp.

(* ---------------- canonical programs --------------------------------- *)
Definition bpa (first : bool) : list act :=
  if first then shape_bp else [].

Fixpoint canon_items (first : bool) (kvs : list (Z * Z)) : list act :=
  match kvs with
  | [] => []
  | (k, v) :: r =>
      bpa first ++ [AOpen k; AWrite v; ACommit1; ACommit2; AClose] ++
      canon_items false r
  end.

Definition canon (first : bool) (o : op) : list act :=
  match o with
  | OSet k v =>
      AAcq LC :: bpa first ++
      [AOpen k; AWrite v; ACommit1; ACommit2; AClose; ARel LC]
  | OGet k =>
      AAcq LC :: bpa first ++
      [AOpen k; ARead; ACommit1; ACommit2; AClose; ARel LC]
  | OUnset k =>
      AAcq LC :: bpa first ++
      [AOpen k; ADel; ACommit1; ACommit2; AClose; ARel LC]
  | OBulk kvs => AAcq LC :: canon_items first kvs ++ [ARel LC]
  end.

Lemma inst_items_canon kvs : forall first,
  inst_items false shape_bp first
             [Call "open"; Wr "record"; Call "close"] kvs
  = canon_items first kvs.
Proof.
  induction kvs as [|[k v] r IH]; intros first; [reflexivity|].
  cbn [inst_items canon_items]. rewrite Bool.andb_false_r || idtac.
  replace (first && negb (has_open [Call "open"; Wr "record"; Call "close"]))
    with false by (destruct first; reflexivity).
  rewrite IH. destruct first; reflexivity.
Qed.

Ltac rw_shapes :=
  repeat match goal with X : _ = _ |- _ => rewrite X end.

Lemma compile_canon sk :
  well_locked sk = true -> forall b o, compile sk false b o = canon b o.
Proof.
  unfold well_locked. intros H.
  repeat (apply andb_true_iff in H; destruct H as [H ?]).
  repeat match goal with
         | X : evs_eqb _ _ = true |- _ => apply evs_eqb_eq in X
         | X : acts_eqb _ _ = true |- _ => apply acts_eqb_eq in X
         end.
  intros b o. unfold compile.
  destruct o as [k v|kvs|k|k].
  - rw_shapes. destruct b; reflexivity.
  - rw_shapes. cbn [split_loop shape_bulk split_at_loope].
    rewrite inst_items_canon. reflexivity.
  - rw_shapes. destruct b; reflexivity.
  - rw_shapes. destruct b; reflexivity.
Qed.

(* ---------------- canonical programs are disciplined ----------------- *)
Lemma mid_ok_items kvs : forall first,
  mid_ok false false (canon_items first kvs ++ [ARel LC]) = true.
Proof.
  induction kvs as [|[k v] r IH]; intros first; [reflexivity|].
  destruct first; simpl; apply IH.
Qed.

Lemma canon_prog_ok b o : prog_ok (canon b o) = true.
Proof.
  destruct o; simpl; try (destruct b; reflexivity).
  apply mid_ok_items.
Qed.

Lemma run_acts_app a : forall b d l,
  run_acts (a ++ b) d l =
  run_acts b (fst (run_acts a d l)) (snd (run_acts a d l)).
Proof.
  induction a as [|x a IH]; intros b d l; [reflexivity|].
  simpl. destruct (act_local x d l) as [d' l']. apply IH.
Qed.

Lemma upd_twice d k o1 o2 k' : upd (upd d k o1) k o2 k' = upd d k o2 k'.
Proof. unfold upd. destruct (k' =? k); reflexivity. Qed.

Lemma run_items kvs : forall first d r0,
  r0 <> RFail ->
  (forall k, fst (run_acts (canon_items first kvs ++ [ARel LC]) d
                           (mkLocal None None false r0)) k
             = bulk_apply kvs d k) /\
  rs (snd (run_acts (canon_items first kvs ++ [ARel LC]) d
                    (mkLocal None None false r0))) = r0.
Proof.
  induction kvs as [|[k v] r IH]; intros first d r0 Hr.
  - simpl. auto.
  - assert (Hf : failed (mkLocal None None false r0) = false).
    { unfold failed. simpl. destruct r0; congruence. }
    assert (E : run_acts (canon_items first ((k, v) :: r) ++ [ARel LC]) d
                         (mkLocal None None false r0)
                = run_acts (canon_items false r ++ [ARel LC])
                           (upd (upd d k None) k (Some v))
                           (mkLocal None None false r0)).
    { cbn [canon_items]. rewrite <- !app_assoc.
      destruct r0; try congruence; destruct first; reflexivity. }
    rewrite E. destruct (IH false (upd (upd d k None) k (Some v)) r0 Hr)
      as [Ha Hb].
    split; [|exact Hb].
    intros k'. rewrite Ha. simpl. apply bulk_apply_ext.
    intros x. apply upd_twice.
Qed.

Lemma canon_seq_ok : seq_ok canon.
Proof.
  intros b o d. destruct o as [k v|kvs|k|k].
  - destruct b; cbn; (split; [intros k'; apply upd_twice|reflexivity]).
  - cbn [canon tl]. apply (run_items kvs b d RAck). discriminate.
  - destruct b; cbn; (split; [reflexivity|reflexivity]).
  - destruct b; cbn; destruct (d k) eqn:E; cbn;
      (split; [intros k'|reflexivity]);
      try apply upd_twice;
      unfold upd; destruct (k' =? k) eqn:Ek; try reflexivity;
      apply Z.eqb_eq in Ek; subst; auto.
Qed.

Lemma canon_disciplined : disciplined canon.
Proof. split; [apply canon_prog_ok|apply canon_seq_ok]. Qed.

Lemma compile_disciplined sk :
  well_locked sk = true -> disciplined (compile sk false).
Proof.
  intros H. pose proof (compile_canon sk H) as E. split.
  - intros b o. rewrite E. apply canon_prog_ok.
  - intros b o d. rewrite E. apply canon_seq_ok.
Qed.

(* ---------------- the theorems for well-locked skeletons ------------- *)
Section Main.
Variable sk : skels.
Hypothesis WL : well_locked sk = true.
Let C := compile sk false.

Lemma wl_inv progs sched : Inv C (run C (init progs) sched).
Proof.
  apply run_inv; [apply compile_disciplined; exact WL|apply init_inv].
Qed.

(* (a) at most one process is between open and close, and it holds the
   cache lock *)
Lemma wl_mutex progs sched p q :
  let s := run C (init progs) sched in
  file_open s p -> file_open s q -> p = q /\ lockC s = Some p.
Proof.
  intros s Hp Hq. split.
  - eapply mutex; eauto. apply wl_inv.
  - eapply open_holds_lock; eauto. apply wl_inv.
Qed.

(* (b) linearization points *)
Lemma wl_ann_ok progs sched : ann_ok (hist (run C (init progs) sched)).
Proof. eapply inv_ann_ok. apply wl_inv. Qed.

Lemma wl_linearizable progs sched :
  linearizable (erase (hist (run C (init progs) sched))).
Proof. eapply inv_linearizable. apply wl_inv. Qed.

(* (c) *)
Lemma wl_no_deadlock progs sched :
  let s := run C (init progs) sched in
  (exists p, ~ finished (procs s p)) -> exists q, step C s q <> None.
Proof.
  intros s H. eapply no_deadlock; eauto.
  - apply compile_disciplined; exact WL.
  - apply wl_inv.
Qed.

(* (d) *)
Lemma wl_no_op_fails progs sched :
  no_fail (hist (run C (init progs) sched)).
Proof. eapply inv_nofail. apply wl_inv. Qed.

End Main.
