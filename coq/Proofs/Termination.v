(* A counter-controlled loop runs a bounded number of iterations: if, each
   time another iteration starts with counter value v, [continues v] holds
   and the counter becomes [next v], and [continues v] implies
   0 <= next v < v, then at most [v0] iterations start from counter v0. *)
From Coq Require Import ZArith Lia.
Open Scope Z_scope.

Section Loop.
  Variable continues : Z -> bool.
  Variable next : Z -> Z.
  Hypothesis variant : forall v, continues v = true -> 0 <= next v < v.

  (* the n-th counter value, as long as the loop keeps going *)
  Fixpoint counter (n : nat) (v : Z) : option Z :=
    match n with
    | O => Some v
    | S n' => if continues v then counter n' (next v) else None
    end.

  Lemma counter_bound n : forall v w, counter n v = Some w -> w <= v - Z.of_nat n /\ (n <> O -> 0 <= w).
  Proof.
    induction n as [|n IH]; intros v w H.
    - cbn in H. inversion H; subst. split; [lia|congruence].
    - cbn [counter] in H. destruct (continues v) eqn:E; [|discriminate].
      pose proof (variant v E) as Hv.
      destruct (IH _ _ H) as [H1 H2]. split; [lia|].
      intros _. destruct n; [cbn in H; inversion H; subst; lia|].
      apply H2. discriminate.
  Qed.

  (* no execution performs more than v0 iterations (for v0 >= 0) *)
  Theorem iterations_bounded v0 n :
    0 <= v0 -> Z.of_nat n > v0 -> counter n v0 = None.
  Proof.
    intros H0 Hn. destruct (counter n v0) as [w|] eqn:E; [|reflexivity].
    destruct (counter_bound n v0 w E) as [H1 H2].
    assert (n <> O) by (intro; subst; cbn in Hn; lia).
    specialize (H2 H). lia.
  Qed.
End Loop.
