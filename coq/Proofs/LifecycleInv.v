(* C10 - preservation of the remaining invariants (continues Proofs/Lifecycle.v) *)
From Coq Require Import String List Bool Arith Lia.
From SK Require Import Model.Skel Model.Lifecycle Spec.Lifecycle Proofs.Lifecycle.
Import ListNotations.

Lemma pres_fut_run f c (Hok : facts_ok f = true) s a s'
  (INV0 : Inv f c s) (STEP0 : step f c s a = Some s') :
  forall t, s_futs s' t = FRunning ->
      exists w i j, w < c_workers c /\ s_ws s' w = WRun t i j.
Proof.
  grab INV0. clear - Hok STEP0 Hrf Huq Hfr Hsucc.
  step_cases f Hok STEP0; try assumption; intros t' Hr'; norm; inv_eqs; try discriminate;
    try (destruct (Hfr _ Hr') as (w0 & i0 & j0 & Hw0 & Hws0));
    try solve [eauto 8];
    try (match goal with |- context [upd _ ?w _ _] =>
      destruct (Nat.eq_dec w0 w) as [->|Hne];
      [ rew_ws; inv_eqs; try discriminate;
        try (exists w; eexists _, _; split; [eassumption| rewrite upd_same; reflexivity])
      | exists w0, i0, j0; split; [assumption | rewrite upd_other by assumption; assumption] ] end);
    try (match goal with |- context [upd _ ?w _ _] =>
        exists w; eexists _, _; split; [eassumption| rewrite upd_same; reflexivity] end).
  all: try (exists w0, i0, j0; split; [assumption|]; rewrite Hws0; reflexivity).
  all: fwd_run Hrf; tidy.
  all: try (match goal with Hlt : ?t < ntasks _ |- _ => pose proof (Hsucc eq_refl t Hlt) end; congruence).
Qed.

Lemma nonmain_futs f c (Hok : facts_ok f = true) s a s'
  (INV0 : Inv f c s) (STEP0 : step f c s a = Some s') : a <> AMain ->
  s_pc s' = s_pc s /\
  forall t, s_futs s' t = s_futs s t \/
    (t < ntasks c /\ (is_pending (s_futs s t) || is_broken (s_futs s t)) = true
     /\ s_futs s' t <> FNone).
Proof.
  intros Hna. grab INV0. clear - Hok STEP0 Hrf Hna.
  step_cases f Hok STEP0; try congruence; (split; [reflexivity|]); intros t'; auto;
    norm; auto; right; fwd_run Hrf; tidy; try (repeat split; (assumption || discriminate || lia)).
  all: match goal with H0 : _ \/ _ |- _ => destruct H0 as [E|E]; rewrite E end; repeat split; (assumption || discriminate).
Qed.

Lemma pres_submit f c (Hok : facts_ok f = true) s a s'
  (INV0 : Inv f c s) (STEP0 : step f c s a = Some s') :
   forall k, s_pc s' = MSubmit k ->
      k <= ntasks c /\ (forall t, k <= t -> s_futs s' t = FNone) /\
      (forall t, t < k -> s_futs s' t <> FNone).
Proof.
  destruct a.
  1: { grab INV0. clear - Hok STEP0 Hsub Hent.
    step_cases f Hok STEP0; intros k' Hk'; norm; inv_eqs; try discriminate.
    + split; [lia|]. split; [intros; auto|intros; lia].
    + destruct (Hsub _ eq_refl) as (A & B & C). split; [lia|]. split; intros t' Ht'; upd_cases; try lia; auto; try discriminate; try (apply B; lia); try (apply C; lia).
    + destruct (Hsub _ eq_refl) as (A & B & C). split; [lia|]. split; intros t' Ht'; upd_cases; try lia; auto; try discriminate; try (apply B; lia); try (apply C; lia). }
  all: destruct (nonmain_futs f c Hok _ _ _ INV0 STEP0 ltac:(discriminate)) as [Hpc Hf]; intros k Hk; rewrite Hpc in Hk;
    destruct (i_submit _ _ _ INV0 _ Hk) as (A & B & C); (split; [auto|]); split; intros t Ht;
    [ destruct (Hf t) as [E|(E1 & E2 & E3)]; [rewrite E; auto|]; rewrite (B t Ht) in E2; discriminate
    | destruct (Hf t) as [E|(E1 & E2 & E3)]; [rewrite E; auto|auto] ].
Qed.

Ltac nm Hok INV0 STEP0 := destruct (nonmain_futs _ _ Hok _ _ _ INV0 STEP0 ltac:(discriminate)) as [Hpc Hf].

Lemma pres_enter f c (Hok : facts_ok f = true) s a s'
  (INV0 : Inv f c s) (STEP0 : step f c s a = Some s') :
  s_pc s' = MEnterMgr -> forall t, s_futs s' t = FNone.
Proof.
  destruct a.
  1: { grab INV0. clear - Hok STEP0 Hent.
       step_cases f Hok STEP0; intros Hk'; norm; try discriminate. }
  all: nm Hok INV0 STEP0; intros Hk t; rewrite Hpc in Hk;
    pose proof (i_enter _ _ _ INV0 Hk) as A;
    destruct (Hf t) as [E|(E1 & E2 & E3)]; [rewrite E; auto|]; rewrite A in E2; discriminate.
Qed.

Lemma pres_nonone f c (Hok : facts_ok f = true) s a s'
  (INV0 : Inv f c s) (STEP0 : step f c s a = Some s') :
  submitted_pc (s_pc s') = true -> forall t, t < ntasks c -> s_futs s' t <> FNone.
Proof.
  destruct a.
  1: { grab INV0. clear - Hok STEP0 Hnn Hsub.
       step_cases f Hok STEP0; intros Hk' t' Ht'; norm; try discriminate; auto.
       destruct (Hsub _ eq_refl) as (A & B & C). apply C. lia. }
  all: nm Hok INV0 STEP0; intros Hk t Ht; rewrite Hpc in Hk;
    pose proof (i_nonone _ _ _ INV0 Hk t Ht) as A;
    destruct (Hf t) as [E|(E1 & E2 & E3)]; [rewrite E; auto|auto].
Qed.

Lemma pres_succ f c (Hok : facts_ok f = true) s a s'
  (INV0 : Inv f c s) (STEP0 : step f c s a = Some s') :
  succ_pc (s_pc s') = true -> forall t, t < ntasks c -> s_futs s' t = FOk.
Proof.
  destruct a.
  1: { grab INV0. clear - Hok STEP0 Hsucc.
       step_cases f Hok STEP0; intros Hk' t' Ht'; norm; try discriminate; auto.
       specialize (Heqb0 _ Ht'). destruct (futs t'); try discriminate; reflexivity. }
  all: nm Hok INV0 STEP0; intros Hk t Ht; rewrite Hpc in Hk;
    pose proof (i_succ _ _ _ INV0 Hk t Ht) as A;
    destruct (Hf t) as [E|(E1 & E2 & E3)]; [rewrite E; auto|]; rewrite A in E2; discriminate.
Qed.
Lemma pres_pool_fired f c (Hok : facts_ok f = true) s a s'
  (INV0 : Inv f c s) (STEP0 : step f c s a = Some s') :
  s_pool s' <> PoolOk ->
      s_fired s' = true /\ exists p, c_plan c = Some p /\ p_kind p = KExit.
Proof.
  grab INV0. clear - Hok STEP0 Hpf.
  step_cases f Hok STEP0; try assumption; intros Hp; norm; try congruence; eauto;
    try (destruct (Hpf Hp); congruence); try (apply Hpf; congruence).
Qed.

Lemma pres_dead_pre f c (Hok : facts_ok f = true) s a s'
  (INV0 : Inv f c s) (STEP0 : step f c s a = Some s') :
  pre_shutdown (s_pc s') = true -> s_pool s' = PoolOk ->
      forall w, is_dead (s_ws s' w) = false.
Proof.
  grab INV0. clear - Hok STEP0 Hdp.
  step_cases f Hok STEP0; try assumption; intros Hp Hq w'; norm; try discriminate; auto.
  destruct pc; discriminate.
Qed.

Lemma pres_dead_hold f c (Hok : facts_ok f = true) s a s'
  (INV0 : Inv f c s) (STEP0 : step f c s a = Some s') :
  s_pool s' = PoolOk -> forall w, s_ws s' w <> WDead true.
Proof.
  grab INV0. clear - Hok STEP0 Hdh Hsucc Hrf.
  step_cases f Hok STEP0; try assumption; intros Hp w'; norm; try discriminate; auto;
    try apply unhold_not_deadtrue.
  destruct (ws w') as [|t i [r|]|h] eqn:E; cbn; try discriminate.
  - destruct (Hrf _ _ _ _ E) as [A [B|B]]; rewrite (Hsucc eq_refl _ A) in B; discriminate.
  - specialize (Hdh Hp w'). rewrite E in Hdh. destruct h; congruence.
Qed.

Lemma pres_broken_pool f c (Hok : facts_ok f = true) s a s'
  (INV0 : Inv f c s) (STEP0 : step f c s a = Some s') :
  forall t, s_futs s' t = FBroken -> s_pool s' <> PoolOk.
Proof.
  grab INV0. clear - Hok STEP0 Hbp.
  step_cases f Hok STEP0; try assumption; intros t' Hp; norm; try discriminate; eauto.
Qed.
Lemma pres_fired f c (Hok : facts_ok f = true) s a s'
  (INV0 : Inv f c s) (STEP0 : step f c s a = Some s') :
  s_fired s' = true ->
      exists p, c_plan c = Some p /\ p_task p < ntasks c /\
        match p_kind p with
        | KRaise e => s_futs s' (p_task p)
                      = FExc (raise_class f c (p_task p) (p_i p) e)
        | KExit => s_futs s' (p_task p) = FBroken
        end.
Proof.
  grab INV0. clear - Hok STEP0 Hfi Hrf Hsub.
  step_cases f Hok STEP0; try assumption; intros Hp; norm; try discriminate;
  try (destruct (Hfi Hp) as (p0 & P1 & P2 & P3); exists p0; split; [assumption|]; split; [assumption|];
       destruct (p_kind p0) eqn:K; upd_cases; try assumption; try congruence).
  all: try (destruct (Hsub _ eq_refl) as (A & B & C); rewrite (B _ (le_n _)) in P3; discriminate).
  all: match goal with Hplan : c_plan _ = Some ?p |- _ => exists p; split; [assumption|] end;
       fwd_run Hrf; conjs; subst; (split; [assumption|]);
       match goal with Hk : p_kind _ = _ |- _ => rewrite Hk end; rewrite upd_same; reflexivity.
Qed.
Lemma pres_exc f c (Hok : facts_ok f = true) s a s'
  (INV0 : Inv f c s) (STEP0 : step f c s a = Some s') :
  forall t e, s_futs s' t = FExc e ->
      exists p e0, c_plan c = Some p /\ p_task p = t /\
        p_kind p = KRaise e0 /\ e = raise_class f c t (p_i p) e0.
Proof.
  grab INV0. clear - Hok STEP0 Hex.
  step_cases f Hok STEP0; try assumption; intros t' e' Hp; norm; try discriminate; eauto.
  all: inv_eqs; eauto 8.
  all: try reflexivity; try congruence; fwd_run Hrf; conjs; try (intuition congruence).
  all: exfalso; pose proof (Hbp _ B) as Q; destruct (Hpf Q); discriminate.
Qed.

Lemma pres_exc_fired f c (Hok : facts_ok f = true) s a s'
  (INV0 : Inv f c s) (STEP0 : step f c s a = Some s') :
  forall t e, s_futs s' t = FExc e -> s_fired s' = true.
Proof.
  grab INV0. clear - Hok STEP0 Hef.
  step_cases f Hok STEP0; try assumption; intros t' e' Hp; norm; try discriminate;
    try reflexivity; eauto.
Qed.

Lemma pres_pc_exc f c (Hok : facts_ok f = true) s a s'
  (INV0 : Inv f c s) (STEP0 : step f c s a = Some s') :
  forall e, pc_exc (s_pc s') = Some e ->
      (exists t e0, s_futs s' t = FExc e0 /\ e = main_class f e0) \/
      (e = main_class f E_BPP /\ exists t, s_futs s' t = FBroken) \/
      (e = submit_class f /\ s_pool s' = PoolBroken).
Proof.
  grab INV0. clear - Hok STEP0 Hpe Hpf Hbp Hrf.
  step_cases f Hok STEP0; try assumption; intros e' Hp; norm; try discriminate; inv_eqs; eauto 8.
  all: try (apply all_lt_false in Heqb; destruct Heqb as (t0 & ? & Hb); rewrite negb_false_iff in Hb;
            right; left; split; [reflexivity|]; exists t0; destruct (futs t0); try discriminate; reflexivity).
  all: try (destruct (Hpe _ Hp) as [(t0 & e0 & A & B)|[(A & t0 & B)|(A & B)]];
       [ left; exists t0, e0; split; [|assumption]; upd_cases; try assumption
       | right; left; split; [assumption|]; exists t0; upd_cases; try assumption
       | right; right; split; [assumption|]; try assumption; try congruence ]).
  all: try reflexivity; try congruence; fwd_run Hrf; conjs; try (intuition congruence).
  all: exfalso; pose proof (Hbp _ B) as Q; destruct (Hpf Q); discriminate.
Qed.
Lemma pres_info_ns f c (Hok : facts_ok f = true) s a s'
  (INV0 : Inv f c s) (STEP0 : step f c s a = Some s') :
  info_unstarted_pc (s_pc s') = true -> s_info s' = INotStarted.
Proof.
  grab INV0. clear - Hok STEP0 Hins.
  step_cases f Hok STEP0; try assumption; intros Hp; norm; try discriminate; auto;
   try (specialize (Hins Hp); discriminate).
Qed.
Lemma pres_res_ns f c (Hok : facts_ok f = true) s a s'
  (INV0 : Inv f c s) (STEP0 : step f c s a = Some s') :
  res_unstarted_pc (s_pc s') = true -> s_res s' = RNotStarted.
Proof.
  grab INV0. clear - Hok STEP0 Hrns.
  step_cases f Hok STEP0; try assumption; intros Hp; norm; try discriminate; auto;
   try (specialize (Hrns Hp); discriminate).
Qed.
Lemma pres_join_res f c (Hok : facts_ok f = true) s a s'
  (INV0 : Inv f c s) (STEP0 : step f c s a = Some s') :
  forall ph oe, s_pc s' = MJoinRes ph oe ->
      s_rstop s' = true /\ s_res s' <> RNotStarted.
Proof.
  grab INV0. clear - Hok STEP0 Hjr.
  step_cases f Hok STEP0; try assumption; intros ph' oe' Hp; norm; try discriminate; auto;
   try (split; [reflexivity|discriminate]);
   try (destruct (Hjr _ _ Hp) as [A B]; split; [assumption|]; congruence).
Qed.
Lemma pres_join_info f c (Hok : facts_ok f = true) s a s'
  (INV0 : Inv f c s) (STEP0 : step f c s a = Some s') :
  forall ph oe, s_pc s' = MJoinInfo ph oe ->
      s_istop s' = true /\ s_info s' <> INotStarted.
Proof.
  grab INV0. clear - Hok STEP0 Hji.
  step_cases f Hok STEP0; try assumption; intros ph' oe' Hp; norm; try discriminate; auto;
   try (split; [reflexivity|discriminate]);
   try (destruct (Hji _ _ Hp) as [A B]; split; [assumption|]; congruence).
Qed.
Lemma pres_res_quiet f c (Hok : facts_ok f = true) s a s'
  (INV0 : Inv f c s) (STEP0 : step f c s a = Some s') :
  res_done_pc (s_pc s') = true -> s_res s' = RNotStarted \/ s_res s' = RDone.
Proof.
  grab INV0. clear - Hok STEP0 Hrq.
  step_cases f Hok STEP0; try assumption; intros Hp; norm; try discriminate; auto;
   try (destruct (Hrq Hp); discriminate).
Qed.
Lemma pres_info_quiet f c (Hok : facts_ok f = true) s a s'
  (INV0 : Inv f c s) (STEP0 : step f c s a = Some s') :
  info_done_pc (s_pc s') = true -> s_info s' = INotStarted \/ s_info s' = IDone.
Proof.
  grab INV0. clear - Hok STEP0 Hiq.
  step_cases f Hok STEP0; try assumption; intros Hp; norm; try discriminate; auto;
   try (destruct (Hiq Hp); discriminate).
Qed.
Lemma pres_all_dead f c (Hok : facts_ok f = true) s a s'
  (INV0 : Inv f c s) (STEP0 : step f c s a = Some s') :
  post_pool (s_pc s') = true ->
      forall w, w < c_workers c -> is_dead (s_ws s' w) = true.
Proof.
  grab INV0. clear - Hok STEP0 Had.
  step_cases f Hok STEP0; try assumption; intros Hp w' Hw'; norm; try discriminate; auto;
   try (pose proof (Had Hp _ Hw') as Q; rew_ws; discriminate).
Qed.
Lemma pres_mgr f c (Hok : facts_ok f = true) s a s'
  (INV0 : Inv f c s) (STEP0 : step f c s a = Some s') :
  final s' = true -> s_mgr s' = false.
Proof.
  grab INV0. clear - Hok STEP0 Hmg.
  step_cases f Hok STEP0; try assumption; intros Hp; norm; try discriminate; auto.
Qed.
Lemma pres_free_pc f c (Hok : facts_ok f = true) s a s'
  (INV0 : Inv f c s) (STEP0 : step f c s a = Some s') :
  forall oe, s_pc s' = MFreeStore oe -> f_fin_free f = true.
Proof.
  grab INV0. clear - Hok STEP0 Hfp.
  step_cases f Hok STEP0; try assumption; intros oe' Hp; norm; try discriminate;
    try reflexivity; eauto.
Qed.
Lemma pres_orphan f c (Hok : facts_ok f = true) s a s'
  (INV0 : Inv f c s) (STEP0 : step f c s a = Some s') :
  f_fin_free f = false ->
  s_fired s' = true -> forall p r, c_plan c = Some p ->
      p_kind p = KExit -> p_j p = Some r -> exists w, s_ws s' w = WDead true.
Proof.
  grab INV0. clear - Hok STEP0 Hor Hfp.
  step_cases f Hok STEP0; try assumption; intros Hff Hp p' r' P1 P2 P3; norm;
    try discriminate; try congruence;
    try (rewrite (Hfp _ eq_refl) in Hff; discriminate);
    try (destruct (Hor Hff Hp _ _ P1 P2 P3) as [w0 Hw0]; exists w0; upd_cases; rew_ws; try discriminate; try assumption).
  all: try reflexivity; try (destruct (Nat.ltb_spec w0 (c_workers c)); reflexivity).
  all: eexists; rewrite upd_same; reflexivity.
Qed.
Lemma pres_freed f c (Hok : facts_ok f = true) s a s'
  (INV0 : Inv f c s) (STEP0 : step f c s a = Some s') :
  f_fin_free f = true -> freed_pc (s_pc s') = true ->
      dead_ownerb s' (s_store s') = false.
Proof.
  grab INV0. clear - Hok STEP0 Hfd Had.
  assert (FP : forall p, freed_pc p = true -> post_pool p = true)
    by (intros p; destruct p; try destruct ph; intros; try discriminate; reflexivity).
  step_cases f Hok STEP0; try assumption; intros Hff Hp; norm; try discriminate;
    try reflexivity; auto.
  all: try (match goal with
            | Hw : ?w < c_workers _, He : ?ws ?w = _ |- _ =>
                pose proof (Had (FP _ Hp) _ Hw) as Q; rewrite He in Q; discriminate
            end).
  all: try (specialize (Hfd Hff Hp); unfold dead_ownerb in *; projs; exact Hfd).
Qed.

(* ------------------------------------------------------- the invariant *)
Theorem step_inv f c (Hok : facts_ok f = true) s a s' :
  Inv f c s -> step f c s a = Some s' -> Inv f c s'.
Proof.
  intros HI HS. constructor.
  - eapply pres_store_w; eassumption.
  - eapply pres_store_info; eassumption.
  - eapply pres_store_main; eassumption.
  - eapply pres_store_res; eassumption.
  - eapply pres_coll_info; eassumption.
  - eapply pres_coll_res; eassumption.
  - eapply pres_coll_main; eassumption.
  - eapply pres_coll_w; eassumption.
  - eapply pres_range_w; eassumption.
  - eapply pres_range_t; eassumption.
  - eapply pres_run_fut; eassumption.
  - eapply pres_uniq; eassumption.
  - eapply pres_fut_run; eassumption.
  - eapply pres_submit; eassumption.
  - eapply pres_enter; eassumption.
  - eapply pres_nonone; eassumption.
  - eapply pres_succ; eassumption.
  - eapply pres_pool_fired; eassumption.
  - eapply pres_dead_pre; eassumption.
  - eapply pres_dead_hold; eassumption.
  - eapply pres_broken_pool; eassumption.
  - eapply pres_fired; eassumption.
  - eapply pres_exc; eassumption.
  - eapply pres_exc_fired; eassumption.
  - eapply pres_pc_exc; eassumption.
  - eapply pres_info_ns; eassumption.
  - eapply pres_res_ns; eassumption.
  - eapply pres_join_res; eassumption.
  - eapply pres_join_info; eassumption.
  - eapply pres_res_quiet; eassumption.
  - eapply pres_info_quiet; eassumption.
  - eapply pres_all_dead; eassumption.
  - eapply pres_mgr; eassumption.
  - eapply pres_orphan; eassumption.
  - eapply pres_freed; eassumption.
  - eapply pres_free_pc; eassumption.
Qed.

Lemma step'_inv f c (Hok : facts_ok f = true) s a :
  Inv f c s -> Inv f c (step' f c s a).
Proof.
  intros HI. unfold step'. destruct (step f c s a) eqn:E; [|assumption].
  eapply step_inv; eassumption.
Qed.

Lemma run_inv f c (Hok : facts_ok f = true) sched : forall s,
  Inv f c s -> Inv f c (run f c sched s).
Proof.
  induction sched as [|a r IH]; intros s HI; simpl; [assumption|].
  apply IH. apply step'_inv; assumption.
Qed.

Theorem reach_inv f c st co s : facts_ok f = true ->
  lock_init st -> lock_init co -> reachable f c st co s -> Inv f c s.
Proof.
  intros Hok Hst Hco [sched ->]. apply run_inv; [assumption|].
  apply inv_init; assumption.
Qed.
