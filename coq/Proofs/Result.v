(* C05 - values read back from results equal what was captured. *)
From Coq Require Import ZArith List Bool Arith Lia.
From SK Require Import Model.Base Model.Store Spec.Store Proofs.Store
     Model.Result.
Import ListNotations.
Open Scope Z_scope.

(* [x] was stored under index [i] and [lk] resolves it *)
Definition resolves (lk : Z -> option Z) (x i : option Z) : Prop :=
  match x, i with
  | None, None => True
  | Some a, Some k => lk k = Some a
  | _, _ => False
  end.

Definition lk_le (lk lk' : Z -> option Z) : Prop :=
  forall k y, lk k = Some y -> lk' k = Some y.

Lemma resolves_le lk lk' x i : lk_le lk lk' -> resolves lk x i -> resolves lk' x i.
Proof. intros H. destruct x, i; simpl; auto. Qed.

Lemma lk_le_refl lk : lk_le lk lk.
Proof. intros k y H. exact H. Qed.

Lemma lk_le_trans a b c : lk_le a b -> lk_le b c -> lk_le a c.
Proof. intros H1 H2 k y H. apply H2, H1, H. Qed.

Lemma dget_some_key k v d : dget k d = Some v -> In k (map fst d).
Proof.
  induction d as [|[k' v'] r IH]; simpl; intros H; [discriminate|].
  destruct (k =? k') eqn:E.
  - apply Z.eqb_eq in E. left. congruence.
  - right. apply IH. exact H.
Qed.

Section Generic.
  Variable slot : nat -> Z.
  Hypothesis slot_inj : forall k k', slot k = slot k' -> k = k'.
  Variable A : list Z -> store -> Prop.
  Hypothesis add_ok : forall t s o,
    Sim slot t s -> A t s ->
    exists s', add s o = Ok (s', map_ret slot (snd (tadd3 t o))) /\
               Sim slot (fst (tadd3 t o)) s' /\ A (fst (tadd3 t o)) s'.

  Lemma lookup_mono t e s s' :
    Sim slot t s -> Sim slot (t ++ e) s' -> lk_le (lookup s) (lookup s').
  Proof.
    intros S1 S2 k y H. unfold lookup in *.
    rewrite (sim_data _ _ _ S1) in H. rewrite (sim_data _ _ _ S2).
    pose proof (dget_some_key _ _ _ H) as Hin. rewrite image_keys in Hin.
    apply in_map_iff in Hin. destruct Hin as [j [Hj _]]. subst k.
    rewrite (dget_image slot slot_inj) in *.
    rewrite nth_error_app1; [exact H|]. apply nth_error_Some. congruence.
  Qed.

  (* a reachable-style store state *)
  Definition Good (t : list Z) (s : store) : Prop :=
    Sim slot t s /\ A t s /\ NoDup t.

  Lemma add_resolves t s tag sq v :
    Good t s ->
    exists s' t' ti si vi,
      add s (tag, sq, v) = Ok (s', (ti, si, vi)) /\ Good t' s' /\
      (exists e, t' = t ++ e) /\
      resolves (lookup s') v vi /\ resolves (lookup s') tag ti /\
      resolves (lookup s') sq si.
  Proof.
    intros [HS [HA HN]].
    destruct (add_ok t s (tag, sq, v) HS HA) as [s' [E [S1 A1]]].
    destruct (tadd3_props t (tag, sq, v) HN) as [N1 [X1 K1]].
    destruct (tadd3 t (tag, sq, v)) as [t' [[ti si] vi]] eqn:Et. simpl in *.
    exists s', t', (option_map slot ti), (option_map slot si), (option_map slot vi).
    split; [exact E|]. split; [split; [exact S1|split; [exact A1|exact N1]]|].
    split; [exact X1|].
    unfold tevents in K1. simpl in K1.
    inversion K1 as [|? ? Kv K2]; subst. inversion K2 as [|? ? Kt K3]; subst.
    inversion K3 as [|? ? Ks _]; subst.
    assert (R : forall x k, ev_ok t' (x, k) ->
                resolves (lookup s') x (option_map slot k)).
    { intros x k Hk. destruct x as [a|], k as [k|]; simpl in *; try tauto.
      unfold lookup. rewrite (sim_data _ _ _ S1), (dget_image slot slot_inj).
      exact Hk. }
    auto.
  Qed.

  Lemma good_mono t s t' s' :
    Good t s -> Good t' s' -> (exists e, t' = t ++ e) ->
    lk_le (lookup s) (lookup s').
  Proof.
    intros [S1 _] [S2 _] [e ->]. apply (lookup_mono t e s s' S1 S2).
  Qed.

  (* ---------------------------------------------------------- one part *)
  Definition part_ok (lk : Z -> option Z) (cast : Z -> Z -> Z)
             (fi : option finfo) (pidx : Z) (raw : option Z) (p : part) : Prop :=
    let '(pi, sid, name) := p in
    pi = pidx /\ resolves lk (expected_value cast fi pidx raw) sid /\
    name = match raw with
           | Some _ => expected_name fi pidx
           | None => None
           end.

  Lemma part_ok_le lk lk' cast fi pidx raw p :
    lk_le lk lk' -> part_ok lk cast fi pidx raw p -> part_ok lk' cast fi pidx raw p.
  Proof.
    intros H. destruct p as [[pi sid] name]. simpl. intros [H1 [H2 H3]].
    split; [exact H1|]. split; [|exact H3]. apply (resolves_le lk lk'); assumption.
  Qed.

  Lemma find_nth_nodup (f : finfo) j nm ty :
    NoDup (map fst f) -> nth_error f j = Some (nm, ty) ->
    find (fun p => fst p =? nm) f = Some (nm, ty).
  Proof.
    revert j. induction f as [|[n0 t0] r IH]; intros j Hn Hj;
      [destruct j; discriminate|].
    simpl in *. inversion Hn as [|? ? Hnot Hr]; subst. destruct j as [|j].
    - inversion Hj. subst. rewrite Z.eqb_refl. reflexivity.
    - simpl in Hj. destruct (n0 =? nm) eqn:E.
      + apply Z.eqb_eq in E. subst n0. exfalso. apply Hnot.
        apply in_map_iff. exists (nm, ty). split; [reflexivity|].
        eapply nth_error_In. exact Hj.
      + apply (IH j Hr Hj).
  Qed.

  Lemma save_part_ok cast t s tag sq fi pidx raw :
    Good t s -> NoDup (map fst (fields_of fi)) -> covered fi pidx raw ->
    exists s' t' p,
      save_part cast s tag sq fi pidx raw = ROk (s', p) /\ Good t' s' /\
      (exists e, t' = t ++ e) /\ part_ok (lookup s') cast fi pidx raw p.
  Proof.
    intros HG Hnd Hcov. unfold save_part.
    assert (Hcase :
      exists name value,
        (match raw, fi with
         | Some r, Some (f0 :: f) =>
             match index_to_name (f0 :: f) (pidx - 1) with
             | None => None
             | Some nm => Some (Some nm, Some (ensure_type cast (f0 :: f) nm r))
             end
         | other, _ => Some (None, other)
         end) = Some (name, value) /\
        value = expected_value cast fi pidx raw /\
        name = match raw with Some _ => expected_name fi pidx | None => None end).
    { destruct raw as [r|].
      2:{ exists None, None. destruct fi as [[|f0 f]|]; simpl; tauto. }
      destruct fi as [[|f0 f]|].
      - exists None, (Some r). simpl. unfold expected_value, expected_name. simpl.
        destruct (pidx <? 1); [tauto|].
        destruct (Z.to_nat (pidx - 1)); simpl; tauto.
      - unfold covered in Hcov. simpl fields_of in Hcov.
        unfold expected_name in Hcov. simpl fields_of in Hcov.
        unfold expected_value, expected_name. simpl fields_of.
        destruct (pidx <? 1) eqn:E1; [contradiction Hcov; reflexivity|].
        apply Z.ltb_ge in E1.
        destruct (nth_error (f0 :: f) (Z.to_nat (pidx - 1))) as [[nm ty]|] eqn:En;
          [|contradiction Hcov; reflexivity].
        unfold index_to_name.
        assert (E2 : (pidx - 1 <? 0) = false) by (apply Z.ltb_ge; lia).
        rewrite E2, En. simpl option_map.
        exists (Some nm). eexists. split; [reflexivity|]. split; [|reflexivity].
        unfold ensure_type. simpl fields_of in Hnd.
        rewrite (find_nth_nodup (f0 :: f) _ nm ty Hnd En).
        destruct ty; reflexivity.
      - exists None, (Some r). simpl. unfold expected_value, expected_name. simpl.
        destruct (pidx <? 1); [tauto|].
        destruct (Z.to_nat (pidx - 1)); simpl; tauto. }
    destruct Hcase as [name [value [E [Hv Hn]]]]. rewrite E.
    destruct (add_resolves t s tag sq value HG)
      as [s' [t' [ti [si [vi [Ea [G1 [X1 [Rv _]]]]]]]]].
    rewrite Ea. exists s', t', (pidx, vi, name).
    split; [reflexivity|]. split; [exact G1|]. split; [exact X1|].
    simpl. split; [reflexivity|]. split; [rewrite <- Hv; exact Rv|exact Hn].
  Qed.

  Fixpoint parts_ok (lk : Z -> option Z) (cast : Z -> Z -> Z) (fi : option finfo)
           (pidx : Z) (groups : list (option Z)) (ps : list part) : Prop :=
    match groups, ps with
    | [], [] => True
    | g :: gr, p :: pr =>
        part_ok lk cast fi pidx g p /\ parts_ok lk cast fi (pidx + 1) gr pr
    | _, _ => False
    end.

  Lemma parts_ok_le lk lk' cast fi groups : forall pidx ps,
    lk_le lk lk' -> parts_ok lk cast fi pidx groups ps ->
    parts_ok lk' cast fi pidx groups ps.
  Proof.
    induction groups as [|g gr IH]; intros pidx [|p pr] Hle H; simpl in *; try tauto.
    destruct H as [H1 H2]. split; [apply (part_ok_le lk lk'); assumption|].
    apply IH; assumption.
  Qed.

  Lemma save_parts_ok cast tag sq fi groups : forall pidx t s,
    Good t s -> NoDup (map fst (fields_of fi)) ->
    (forall j g, nth_error groups j = Some g -> covered fi (pidx + Z.of_nat j) g) ->
    exists s' t' ps,
      save_parts cast s tag sq fi pidx groups = ROk (s', ps) /\ Good t' s' /\
      (exists e, t' = t ++ e) /\ parts_ok (lookup s') cast fi pidx groups ps.
  Proof.
    induction groups as [|g gr IH]; intros pidx t s HG Hnd Hcov.
    - exists s, t, []. simpl. split; [reflexivity|]. split; [exact HG|].
      split; [exists []; rewrite app_nil_r; reflexivity|exact I].
    - simpl.
      assert (Hc0 : covered fi pidx g).
      { specialize (Hcov O g eq_refl). rewrite Z.add_0_r in Hcov. exact Hcov. }
      destruct (save_part_ok cast t s tag sq fi pidx g HG Hnd Hc0)
        as [s1 [t1 [p [E1 [G1 [[e1 X1] P1]]]]]].
      rewrite E1.
      destruct (IH (pidx + 1) t1 s1 G1 Hnd) as [s2 [t2 [ps [E2 [G2 [[e2 X2] P2]]]]]].
      { intros j g' Hj. specialize (Hcov (S j) g' Hj).
        replace (pidx + 1 + Z.of_nat j) with (pidx + Z.of_nat (S j)) by lia.
        exact Hcov. }
      rewrite E2. exists s2, t2, (p :: ps). split; [reflexivity|].
      split; [exact G2|]. split.
      + exists (e1 ++ e2). subst. rewrite app_assoc. reflexivity.
      + simpl. split; [|exact P2].
        apply (part_ok_le (lookup s1)); [|exact P1].
        apply (good_mono t1 s1 t2 s2 G1 G2). exists e2. exact X2.
  Qed.
End Generic.

(* ------------------------------------------------------------ reading back *)
Definition rd_of (lk : Z -> option Z) (ps : list part) (f : field) : rd :=
  match get_store_id ps f with
  | Some k => match lk k with Some v => Val (Some v) | None => KeyErr end
  | None => Val None
  end.

Lemma get_is_rd_of lk m f : get lk m f = rd_of lk (m_data m) f.
Proof. reflexivity. Qed.

Definition gidx (o : nat) : Z := 1 + Z.of_nat o.

Lemma expected_name_gidx fi o :
  expected_name fi (gidx o) = option_map fst (nth_error (fields_of fi) o).
Proof.
  unfold expected_name, gidx.
  assert (E : (1 + Z.of_nat o <? 1) = false) by (apply Z.ltb_ge; lia).
  rewrite E. replace (Z.to_nat (1 + Z.of_nat o - 1)) with o by lia. reflexivity.
Qed.

Lemma gidx_succ o : gidx o + 1 = gidx (S o).
Proof. unfold gidx. lia. Qed.

Section Read.
  Variable lk : Z -> option Z.
  Variable cast : Z -> Z -> Z.
  Variable fi : option finfo.

  (* parts_ok does not depend on the slot function: restate it plainly *)
  Fixpoint pok (pidx : Z) (groups : list (option Z)) (ps : list part) : Prop :=
    match groups, ps with
    | [], [] => True
    | g :: gr, (pi, sid, name) :: pr =>
        (pi = pidx /\ resolves lk (expected_value cast fi pidx g) sid /\
         name = match g with Some _ => expected_name fi pidx | None => None end)
        /\ pok (pidx + 1) gr pr
    | _, _ => False
    end.

  Lemma pok_idx_below groups : forall pidx ps i,
    pok pidx groups ps -> i < pidx -> get_store_id ps (FIdx i) = None.
  Proof.
    induction groups as [|g gr IH]; intros pidx [|[[pi sid] name] pr] i H Hi;
      simpl in *; try tauto.
    destruct H as [[H1 _] H2]. subst pi.
    assert (E : (pidx =? i) = false) by (apply Z.eqb_neq; lia).
    destruct name; rewrite E; apply (IH (pidx + 1)); try assumption; lia.
  Qed.

  Lemma resolves_rd x sid :
    resolves lk x sid ->
    match sid with
    | Some k => match lk k with Some v => Val (Some v) | None => KeyErr end
    | None => Val None
    end = Val x.
  Proof.
    destruct x as [a|], sid as [k|]; simpl; try tauto.
    intros ->. reflexivity.
  Qed.

  (* by group index *)
  Lemma read_by_index groups : forall pidx ps j g,
    pok pidx groups ps -> nth_error groups j = Some g ->
    rd_of lk ps (FIdx (pidx + Z.of_nat j)) =
    Val (expected_value cast fi (pidx + Z.of_nat j) g).
  Proof.
    induction groups as [|g0 gr IH]; intros pidx [|[[pi sid] name] pr] j g H Hj;
      simpl in H; try tauto; try (destruct j; discriminate).
    destruct H as [[H1 [H2 H3]] H4]. subst pi. destruct j as [|j].
    - simpl in Hj. inversion Hj. subst g0. rewrite Z.add_0_r.
      unfold rd_of. simpl.
      assert (E : (pidx =? pidx) = true) by (apply Z.eqb_refl).
      assert (Hrest : get_store_id pr (FIdx pidx) = None)
        by (apply (pok_idx_below gr (pidx + 1)); [exact H4|lia]).
      destruct name; rewrite E; destruct sid as [k|];
        try (rewrite Hrest); apply (resolves_rd _ _ H2).
    - simpl in Hj.
      replace (pidx + Z.of_nat (S j)) with (pidx + 1 + Z.of_nat j) by lia.
      assert (E : (pidx =? pidx + 1 + Z.of_nat j) = false)
        by (apply Z.eqb_neq; lia).
      rewrite <- (IH (pidx + 1) pr j g H4 Hj).
      unfold rd_of. cbn [get_store_id].
      destruct name; rewrite E; reflexivity.
  Qed.

  (* by iteration *)
  Fixpoint expected_all (pidx : Z) (groups : list (option Z)) : list (option Z) :=
    match groups with
    | [] => []
    | g :: r => expected_value cast fi pidx g :: expected_all (pidx + 1) r
    end.

  Lemma read_by_iter groups : forall pidx ps,
    pok pidx groups ps ->
    map (fun p : part => match snd (fst p) with Some k => lk k | None => None end) ps
    = expected_all pidx groups.
  Proof.
    induction groups as [|g gr IH]; intros pidx [|[[pi sid] name] pr] H;
      simpl in H; try tauto.
    destruct H as [[H1 [H2 H3]] H4]. simpl. f_equal; [|apply IH; exact H4].
    destruct (expected_value cast fi pidx g) as [a|], sid as [k|]; simpl in *;
      try tauto.
  Qed.

  (* by field name *)
  Hypothesis names_nodup : NoDup (map fst (fields_of fi)).

  Lemma name_at_unique a b nm ty ty' :
    nth_error (fields_of fi) a = Some (nm, ty) ->
    nth_error (fields_of fi) b = Some (nm, ty') -> a = b.
  Proof.
    intros Ha Hb.
    assert (H1 : nth_error (map fst (fields_of fi)) a = Some nm)
      by (rewrite nth_error_map, Ha; reflexivity).
    assert (H2 : nth_error (map fst (fields_of fi)) b = Some nm)
      by (rewrite nth_error_map, Hb; reflexivity).
    rewrite NoDup_nth_error in names_nodup. apply names_nodup.
    - apply nth_error_Some. congruence.
    - congruence.
  Qed.

  Lemma pok_name_beyond groups : forall o ps j nm ty,
    pok (gidx o) groups ps -> nth_error (fields_of fi) j = Some (nm, ty) ->
    (j < o)%nat -> get_store_id ps (FName nm) = None.
  Proof.
    induction groups as [|g gr IH]; intros o [|[[pi sid] name] pr] j nm ty H Hj Hlt;
      simpl in H; try tauto.
    destruct H as [[H1 [H2 H3]] H4]. rewrite gidx_succ in H4. simpl.
    assert (Hrest : get_store_id pr (FName nm) = None)
      by (apply (IH (S o) pr j nm ty H4 Hj); lia).
    destruct name as [n0|]; [|exact Hrest].
    destruct (n0 =? nm) eqn:E; [|exact Hrest].
    apply Z.eqb_eq in E. subst n0. exfalso.
    destruct g; [|discriminate]. rewrite expected_name_gidx in H3.
    destruct (nth_error (fields_of fi) o) as [[n1 t1]|] eqn:Eo; [|discriminate].
    simpl in H3. inversion H3. subst n1.
    pose proof (name_at_unique _ _ _ _ _ Eo Hj). lia.
  Qed.

  Lemma read_by_name groups : forall o ps j nm ty,
    pok (gidx o) groups ps -> nth_error (fields_of fi) j = Some (nm, ty) ->
    (o <= j)%nat ->
    rd_of lk ps (FName nm) =
    Val (match nth_error groups (j - o) with
         | Some g => expected_value cast fi (gidx j) g
         | None => None
         end).
  Proof.
    induction groups as [|g gr IH]; intros o [|[[pi sid] name] pr] j nm ty H Hj Hle;
      simpl in H; try tauto.
    - unfold rd_of. simpl. destruct (j - o)%nat; reflexivity.
    - destruct H as [[H1 [H2 H3]] H4]. rewrite gidx_succ in H4.
      destruct (Nat.eq_dec j o) as [->|Hne].
      + rewrite Nat.sub_diag. simpl nth_error.
        assert (Hrest : get_store_id pr (FName nm) = None)
          by (apply (pok_name_beyond gr (S o) pr o nm ty H4 Hj); lia).
        unfold rd_of. simpl. destruct g as [r|].
        * rewrite expected_name_gidx, Hj in H3. simpl in H3. subst name.
          rewrite Z.eqb_refl. destruct sid as [k|];
            try rewrite Hrest; apply (resolves_rd _ _ H2).
        * subst name. rewrite Hrest. reflexivity.
      + replace (j - o)%nat with (S (j - S o)) by lia. simpl nth_error.
        rewrite <- (IH (S o) pr j nm ty H4 Hj) by lia.
        unfold rd_of. simpl.
        destruct name as [n0|]; [|reflexivity].
        destruct (n0 =? nm) eqn:E; [|reflexivity].
        apply Z.eqb_eq in E. subst n0. exfalso.
        destruct g; [|discriminate]. rewrite expected_name_gidx in H3.
        destruct (nth_error (fields_of fi) o) as [[n1 t1]|] eqn:Eo; [|discriminate].
        simpl in H3. inversion H3. subst n1.
        pose proof (name_at_unique _ _ _ _ _ Eo Hj). lia.
  Qed.
End Read.

Lemma pok_parts_ok lk cast fi groups : forall pidx ps,
  parts_ok lk cast fi pidx groups ps -> pok lk cast fi pidx groups ps.
Proof.
  induction groups as [|g gr IH]; intros pidx [|[[pi sid] name] pr] H;
    simpl in *; try tauto.
  destruct H as [H1 H2]. split; [exact H1|apply IH; exact H2].
Qed.

(* everything one can read from an exported result *)
Definition readback_spec (lk : Z -> option Z) (cast : Z -> Z -> Z)
           (fi : option finfo) (tag sq : option Z) (groups : list (option Z))
           (whole : Z) (m : minimal) : Prop :=
  (* by group index *)
  (forall j g, nth_error groups j = Some g ->
     get lk m (FIdx (gidx j)) = Val (expected_value cast fi (gidx j) g)) /\
  (groups = [] -> get lk m (FIdx 0) = Val (Some whole)) /\
  (* by iteration *)
  iter lk m = match groups with
              | [] => [Some whole]
              | _ => expected_all cast fi 1 groups
              end /\
  (* by field name and by attribute *)
  (forall j nm ty, nth_error (fields_of fi) j = Some (nm, ty) ->
     get lk m (FName nm) =
       Val (match nth_error groups j with
            | Some g => expected_value cast fi (gidx j) g
            | None => None
            end) /\
     getattr lk m nm = get lk m (FName nm)) /\
  (forall nm, ~ In nm (map fst (fields_of fi)) -> getattr lk m nm = AttrErr) /\
  (* identity of the producing search *)
  tag_of lk m = tag /\ seq_of lk m = sq.

Section Main.
  Variable slot : nat -> Z.
  Hypothesis slot_inj : forall k k', slot k = slot k' -> k = k'.
  Variable A : list Z -> store -> Prop.
  Hypothesis add_ok : forall t s o,
    Sim slot t s -> A t s ->
    exists s', add s o = Ok (s', map_ret slot (snd (tadd3 t o))) /\
               Sim slot (fst (tadd3 t o)) s' /\ A (fst (tadd3 t o)) s'.

  Notation Good := (Good slot A).

  Lemma existsb_in nm l : existsb (Z.eqb nm) l = true <-> In nm l.
  Proof.
    rewrite existsb_exists. split.
    - intros [x [H1 H2]]. apply Z.eqb_eq in H2. subst. exact H1.
    - intros H. exists nm. split; [exact H|apply Z.eqb_refl].
  Qed.

  Theorem readback_exact_gen cast t s tag sq fi groups whole :
    Good t s -> NoDup (map fst (fields_of fi)) ->
    (forall j g, nth_error groups j = Some g -> covered fi (gidx j) g) ->
    (groups = [] -> fields_of fi = []) ->
    exists s' t' m,
      make_result cast s tag sq fi true groups whole = ROk (s', m) /\
      Good t' s' /\ (exists e, t' = t ++ e) /\
      forall lk, lk_le (lookup s') lk ->
                 readback_spec lk cast fi tag sq groups whole m.
  Proof.
    intros HG Hnd Hcov Hwhole. unfold make_result. simpl negb. cbv iota.
    (* the parts *)
    assert (Hparts : exists s1 t1 ps,
      (match groups with
       | [] => match save_part cast s tag sq fi 0 (Some whole) with
               | ROk (s1, p) => ROk (s1, [p])
               | RErrAlloc => RErrAlloc
               | RErrField => RErrField
               end
       | _ => save_parts cast s tag sq fi 1 groups
       end) = ROk (s1, ps) /\ Good t1 s1 /\ (exists e, t1 = t ++ e) /\
      match groups with
      | [] => exists p, ps = [p] /\ part_ok (lookup s1) cast fi 0 (Some whole) p
      | _ => parts_ok (lookup s1) cast fi 1 groups ps
      end).
    { destruct groups as [|g0 gr].
      - assert (Hc : covered fi 0 (Some whole))
          by (unfold covered; rewrite (Hwhole eq_refl); exact I).
        destruct (save_part_ok slot slot_inj A add_ok cast t s tag sq fi 0
                    (Some whole) HG Hnd Hc) as [s1 [t1 [p [E [G1 [X1 P1]]]]]].
        rewrite E. exists s1, t1, [p]. split; [reflexivity|]. split; [exact G1|].
        split; [exact X1|]. exists p. split; [reflexivity|exact P1].
      - destruct (save_parts_ok slot slot_inj A add_ok cast tag sq fi (g0 :: gr)
                    1 t s HG Hnd) as [s1 [t1 [ps [E [G1 [X1 P1]]]]]].
        { intros j g Hj. apply (Hcov j g Hj). }
        exists s1, t1, ps. split; [exact E|]. split; [exact G1|]. split; [exact X1|exact P1]. }
    destruct Hparts as [s1 [t1 [ps [E1 [G1 [[e1 X1] P1]]]]]]. rewrite E1.
    destruct (add_resolves slot slot_inj A add_ok t1 s1 tag sq None G1)
      as [s2 [t2 [ti [si [vi [E2 [G2 [[e2 X2] [_ [Rt Rs]]]]]]]]]].
    rewrite E2. eexists s2, t2, _. split; [reflexivity|]. split; [exact G2|].
    split; [exists (e1 ++ e2); subst; rewrite app_assoc; reflexivity|].
    intros lk Hle.
    assert (Hle1 : lk_le (lookup s1) lk).
    { apply (lk_le_trans _ (lookup s2)); [|exact Hle].
      apply (good_mono slot slot_inj A t1 s1 t2 s2 G1 G2). exists e2. exact X2. }
    assert (Htag : resolves lk tag ti) by (apply (resolves_le (lookup s2)); assumption).
    assert (Hseq : resolves lk sq si) by (apply (resolves_le (lookup s2)); assumption).
    unfold readback_spec. rewrite !get_is_rd_of. unfold iter, getattr, tag_of, seq_of.
    cbn [m_data m_meta m_names fst snd].
    assert (Hnames : forall nm,
      match (match fi with Some (f0 :: f) => Some (map fst (f0 :: f)) | _ => None end)
      with
      | Some (n0 :: ns) => if existsb (Z.eqb nm) (n0 :: ns)
                           then get lk (mkMin ps (ti, si)
                                  (match fi with Some (f0 :: f) => Some (map fst (f0 :: f)) | _ => None end))
                                  (FName nm)
                           else AttrErr
      | _ => AttrErr
      end = if existsb (Z.eqb nm) (map fst (fields_of fi))
            then rd_of lk ps (FName nm) else AttrErr).
    { intros nm. destruct fi as [[|f0 f]|]; reflexivity. }
    destruct groups as [|g0 gr].
    - (* whole line *)
      destruct P1 as [p [-> P1]]. apply (part_ok_le _ lk) in P1; [|exact Hle1].
      destruct p as [[pi sid] name]. destruct P1 as [Hpi [Hres Hname]].
      unfold expected_value in Hres. simpl in Hres. unfold expected_name in Hname.
      simpl in Hname. subst pi name.
      destruct sid as [k|]; simpl in Hres; [|contradiction].
      rewrite (Hwhole eq_refl) in *.
      split; [intros j g Hj; destruct j; discriminate|].
      split; [intros _; unfold rd_of; simpl; rewrite Hres; reflexivity|].
      split; [simpl; rewrite Hres; reflexivity|].
      split; [intros j nm ty Hj; destruct j; discriminate|].
      split.
      { intros nm _. rewrite Hnames. reflexivity. }
      split.
      + destruct tag, ti; simpl in *; tauto.
      + destruct sq, si; simpl in *; tauto.
    - (* groups *)
      apply (parts_ok_le _ lk) in P1; [|exact Hle1]. apply pok_parts_ok in P1.
      split.
      { intros j g Hj. unfold gidx.
        apply (read_by_index lk cast fi (g0 :: gr) 1 ps j g P1 Hj). }
      split; [discriminate|].
      split; [apply (read_by_iter lk cast fi (g0 :: gr) 1 ps P1)|].
      split.
      { intros j nm ty Hj. split.
        - pose proof (read_by_name lk cast fi Hnd (g0 :: gr) O ps j nm ty) as R.
          rewrite Nat.sub_0_r in R. apply R; [exact P1|exact Hj|lia].
        - rewrite Hnames.
          assert (Hin : existsb (Z.eqb nm) (map fst (fields_of fi)) = true).
          { apply existsb_in. apply in_map_iff. exists (nm, ty). split; [reflexivity|].
            eapply nth_error_In. exact Hj. }
          rewrite Hin. reflexivity. }
      split.
      { intros nm Hnot. rewrite Hnames.
        destruct (existsb (Z.eqb nm) (map fst (fields_of fi))) eqn:Eb; [|reflexivity].
        apply existsb_in in Eb. contradiction. }
      split.
      + destruct tag, ti; simpl in *; tauto.
      + destruct sq, si; simpl in *; tauto.
  Qed.
End Main.

(* ------------------------------------------------------------ lookups that extend a store *)
Lemma merge_data_other l : forall sh i,
  dget i l = None -> dget i (merge_data l sh) = dget i sh.
Proof.
  unfold merge_data. induction l as [|[k v] r IH]; intros sh i H; [reflexivity|].
  simpl in *. destruct (i =? k) eqn:E; [discriminate|].
  rewrite IH by exact H. apply dget_dset_other. apply Z.eqb_neq. exact E.
Qed.

Definition sync_all (ls : list store) (sh : shared) : shared :=
  fold_left (fun acc l => sync l acc) ls sh.

Lemma sync_all_keeps after : forall sh i v,
  sh_lookup sh i = Some v ->
  (forall l2, In l2 after -> dget i (data l2) = None) ->
  sh_lookup (sync_all after sh) i = Some v.
Proof.
  induction after as [|l2 r IH]; intros sh i v H Hd; [exact H|].
  simpl. apply IH.
  - unfold sh_lookup, sync. simpl. rewrite merge_data_other; [exact H|].
    apply Hd. left. reflexivity.
  - intros l3 H3. apply Hd. right. exact H3.
Qed.

Lemma lookup_after_syncs l before after sh0 :
  dict_wf (data l) ->
  (forall l2 i, In l2 after -> dmem i (data l) = true -> dget i (data l2) = None) ->
  lk_le (lookup l) (sh_lookup (unproxy (sync_all (before ++ l :: after) sh0))).
Proof.
  intros Hw Hd i v H. unfold unproxy, sync_all. rewrite fold_left_app. simpl.
  apply sync_all_keeps.
  - unfold sh_lookup, sync. simpl. rewrite merge_data_get by exact Hw.
    unfold lookup in H. rewrite H. reflexivity.
  - intros l2 H2. apply (Hd l2 i H2). unfold dmem. unfold lookup in H.
    rewrite H. reflexivity.
Qed.

Section Inst.
  Variable slot : nat -> Z.
  Hypothesis slot_inj : forall k k', slot k = slot k' -> k = k'.
  Variable A : list Z -> store -> Prop.
  Hypothesis A_set_ns : forall t s n d, A t s -> A t (set_ns s n d).
  Hypothesis alloc_ok : forall t s v,
    Sim slot t s -> A t s -> pos v t = None ->
    exists s', allocate_next s v = Ok (s', slot (length t)) /\
               Sim slot (t ++ [v]) s' /\ A (t ++ [v]) s'.

  Let add_ok := add_sim slot A A_set_ns alloc_ok.
  Let run_ok := run_sim slot A A_set_ns alloc_ok.

  Lemma good_after_run t s ops s2 r2 :
    Good slot A t s -> run s ops = Ok (s2, r2) ->
    Good slot A (fst (trun t ops)) s2 /\ (exists e, fst (trun t ops) = t ++ e).
  Proof.
    intros [HS [HA HN]] R. destruct (run_ok ops t s HS HA) as [s' [E [S1 A1]]].
    rewrite R in E. inversion E. subst s'.
    destruct (trun_props ops t HN) as [N1 [X1 _]].
    split; [split; [exact S1|split; [exact A1|exact N1]]|exact X1].
  Qed.

  Theorem readback_exact_inst cast t s tag sq fi groups whole :
    Good slot A t s -> NoDup (map fst (fields_of fi)) ->
    (forall j g, nth_error groups j = Some g -> covered fi (gidx j) g) ->
    (groups = [] -> fields_of fi = []) ->
    exists s' m,
      make_result cast s tag sq fi true groups whole = ROk (s', m) /\
      (* any further additions to that store *)
      forall ops2 s2 r2, run s' ops2 = Ok (s2, r2) ->
        readback_spec (lookup s2) cast fi tag sq groups whole m /\
        (* ... and any merge into the shared store in which later syncs
           only touch other indices *)
        forall before after sh0,
          (forall l2 i, In l2 after -> dmem i (data s2) = true ->
                        dget i (data l2) = None) ->
          readback_spec (sh_lookup (unproxy (sync_all (before ++ s2 :: after) sh0)))
                        cast fi tag sq groups whole m.
  Proof.
    intros HG Hnd Hcov Hwhole.
    destruct (readback_exact_gen slot slot_inj A add_ok cast t s tag sq fi groups
                whole HG Hnd Hcov Hwhole) as [s' [t' [m [E [G1 [_ Hrb]]]]]].
    exists s', m. split; [exact E|]. intros ops2 s2 r2 R2.
    destruct (good_after_run t' s' ops2 s2 r2 G1 R2) as [G2 X2].
    assert (Hle : lk_le (lookup s') (lookup s2))
      by (apply (good_mono slot slot_inj A t' s' _ s2 G1 G2 X2)).
    split; [apply Hrb; exact Hle|].
    intros before after sh0 Hd. apply Hrb.
    apply (lk_le_trans _ (lookup s2)); [exact Hle|].
    apply lookup_after_syncs; [|exact Hd].
    destruct G2 as [S2 _]. rewrite (sim_data _ _ _ S2). apply image_wf. exact slot_inj.
  Qed.
End Inst.

Theorem readback_exact_plain cast ops s rets tag sq fi groups whole :
  run init_plain ops = Ok (s, rets) -> NoDup (map fst (fields_of fi)) ->
  (forall j g, nth_error groups j = Some g -> covered fi (gidx j) g) ->
  (groups = [] -> fields_of fi = []) ->
  exists s' m,
    make_result cast s tag sq fi true groups whole = ROk (s', m) /\
    forall ops2 s2 r2, run s' ops2 = Ok (s2, r2) ->
      readback_spec (lookup s2) cast fi tag sq groups whole m.
Proof.
  intros R Hnd Hcov Hw.
  assert (G0 : Good slot_plain A_plain [] init_plain)
    by (split; [exact sim_init_plain|split; [reflexivity|constructor]]).
  destruct (good_after_run slot_plain A_plain A_plain_set_ns alloc_ok_plain
              [] init_plain ops s rets G0 R) as [G1 _].
  destruct (readback_exact_inst slot_plain slot_plain_inj A_plain A_plain_set_ns
              alloc_ok_plain cast _ s tag sq fi groups whole G1 Hnd Hcov Hw)
    as [s' [m [E H]]].
  exists s', m. split; [exact E|]. intros ops2 s2 r2 R2.
  destruct (H ops2 s2 r2 R2) as [H1 _]. exact H1.
Qed.

Theorem readback_exact_pre cast bsize start ops s rets tag sq fi groups whole :
  1 <= bsize -> increasing_blocks bsize start ->
  run (init_pre bsize start) ops = Ok (s, rets) ->
  NoDup (map fst (fields_of fi)) ->
  (forall j g, nth_error groups j = Some g -> covered fi (gidx j) g) ->
  (groups = [] -> fields_of fi = []) ->
  exists s' m,
    make_result cast s tag sq fi true groups whole = ROk (s', m) /\
    forall ops2 s2 r2, run s' ops2 = Ok (s2, r2) ->
      readback_spec (lookup s2) cast fi tag sq groups whole m /\
      forall before after sh0,
        (forall l2 i, In l2 after -> dmem i (data s2) = true ->
                      dget i (data l2) = None) ->
        readback_spec (sh_lookup (unproxy (sync_all (before ++ s2 :: after) sh0)))
                      cast fi tag sq groups whole m.
Proof.
  intros Hbs Hinc R Hnd Hcov Hw.
  set (b := Z.to_nat bsize).
  assert (Hb : (1 <= b)%nat) by (unfold b; lia).
  assert (Ez : bsize = Z.of_nat b) by (unfold b; lia).
  rewrite Ez in Hinc.
  pose proof (slot_pre_inj b start Hb Hinc) as Hinj.
  assert (G0 : Good (slot_pre b start) (A_pre b start) [] (init_pre bsize start)).
  { split; [apply sim_init_pre|]. split; [|constructor].
    rewrite Ez. apply A_init_pre. exact Hb. }
  destruct (good_after_run (slot_pre b start) (A_pre b start)
              (A_pre_set_ns b start) (alloc_ok_pre b start Hb Hinc)
              [] _ ops s rets G0 R) as [G1 _].
  apply (readback_exact_inst (slot_pre b start) Hinj (A_pre b start)
           (A_pre_set_ns b start) (alloc_ok_pre b start Hb Hinc)
           cast _ s tag sq fi groups whole G1 Hnd Hcov Hw).
Qed.

(* the configuration error: a matched group without a field *)
Lemma save_part_field_error cast s tag sq f0 f pidx r :
  index_to_name (f0 :: f) (pidx - 1) = None ->
  save_part cast s tag sq (Some (f0 :: f)) pidx (Some r) = RErrField.
Proof. intros H. unfold save_part. rewrite H. reflexivity. Qed.
