(* C01 / C07 for single-line searches: the task model refines Spec/Task.v. *)
From Coq Require Import ZArith List Bool Lia Arith.
From SK Require Import Model.Task Spec.Task Proofs.TaskFlush Proofs.TaskLoop.
Import ListNotations.
Open Scope Z_scope.

Section SimpleProofs.
  Variable line : Type.
  Variable omatch : Z -> line -> option (list Z).
  Variable ohint : Z -> line -> bool.
  Variable ocon : Z -> line -> outcome.

  Notation sstepS := (simple_step line omatch ohint).
  Notation hrunS := (hrun line sdef unit result sstepS).
  Notation visibleS := (visible line sdef s_cons ocon).
  Notation emittedS :=
    (emitted_lines line sdef unit result s_key s_cons ocon (fun _ => tt)
                   sstepS).
  Notation hasc := (has_constraints sdef s_cons).

  Lemma first_match_spec pats l :
    first_match line omatch pats l =
    hd_error (flat_map (fun p => match omatch p l with
                                 | Some g => [g] | None => [] end) pats).
  Proof.
    induction pats as [|p r IH]; simpl; [reflexivity|].
    destruct (omatch p l); simpl; [reflexivity|exact IH].
  Qed.

  Lemma sd_run_spec d l :
    sd_run line omatch ohint d l = spec_hit line omatch ohint d l.
  Proof.
    unfold sd_run, spec_hit. rewrite <- first_match_spec.
    destruct (s_hint d) as [h|]; [|reflexivity].
    destruct (ohint h l); reflexivity.
  Qed.

  Lemma save_groups_spec : forall gs n,
    save_groups (Z.of_nat n) gs =
    combine (map Z.of_nat (seq n (length gs))) gs.
  Proof.
    induction gs as [|g r IH]; intros n; simpl; [reflexivity|].
    f_equal. rewrite <- IH. f_equal. lia.
  Qed.

  Lemma parts_spec d g :
    (if s_store d then store_result g else []) = spec_parts d g.
  Proof.
    unfold spec_parts, store_result. destruct (s_store d); [|reflexivity].
    destruct g as [|g0 gs]; [reflexivity|].
    destruct gs as [|g1 gs]; [reflexivity|].
    cbn [tl]. exact (save_groups_spec (g1 :: gs) 1).
  Qed.

  Lemma simple_step_keyed :
    step_keyed line sdef unit result s_key sstepS r_key.
  Proof.
    intros d st ln l. unfold simple_step.
    destruct (sd_run line omatch ohint d l); simpl.
    - constructor; [reflexivity|constructor].
    - constructor.
  Qed.

  (* the handler over any list of numbered lines = the filter-map of the
     specification over that list *)
  Definition spec_over (d : sdef) (nl : list (Z * line))
    : list (Z * list (Z * Z)) :=
    flat_map (fun il => match spec_hit line omatch ohint d (snd il) with
                        | Some g => [(fst il, spec_parts d g)]
                        | None => []
                        end) nl.

  Lemma hrun_simple d : forall nl,
    map obs (snd (hrunS d tt nl)) = spec_over d nl.
  Proof.
    induction nl as [|[i l] r IH]; [reflexivity|].
    cbn [hrun]. unfold simple_step at 1. rewrite sd_run_spec.
    unfold spec_over. cbn [flat_map fst snd].
    fold (spec_over d r). rewrite <- IH.
    destruct (spec_hit line omatch ohint d l) as [g|].
    - destruct (hrunS d tt r) as [u o]. simpl.
      unfold obs at 1. simpl. rewrite parts_spec. reflexivity.
    - destruct (hrunS d tt r) as [u o]. reflexivity.
  Qed.

  Lemma spec_over_enum d i lines :
    spec_over d (enum i lines) = spec_simple_from line omatch ohint d i lines.
  Proof. reflexivity. Qed.

  Lemma results_for_keyb k rs :
    results_for k rs = filter (keyb result r_key k) rs.
  Proof. reflexivity. Qed.

  (* ---------------------------------------------------------- execute *)
  Lemma simple_execute_emits MAX NBUF ds lines :
    1 <= MAX ->
    exists bs,
      simple_execute line omatch ohint ocon MAX NBUF ds lines = TaskOk bs /\
      concat bs = emittedS ds lines /\ Forall (batch_ok MAX) bs.
  Proof.
    intros HM. unfold simple_execute.
    destruct (execute_exact line sdef unit result s_key s_cons ocon
                            (fun _ => tt) sstepS (fun _ _ => []) MAX NBUF
                            ds lines HM) as [bs [H1 [H2 H3]]].
    exists bs. split; [exact H1|]. split; [|exact H3].
    rewrite H2. unfold emitted. apply app_nil_r.
  Qed.

  (* results of d, exactly as the code gates it (no hypothesis on the
     constraints' outcomes) *)
  Lemma simple_results_code_rule ds lines d :
    keys_ok s_key ds -> In d ds ->
    map obs (results_for (s_key d) (emittedS ds lines)) =
    spec_over d (visibleS (negb (hasc d)) d (enum 1 lines)).
  Proof.
    intros Hk Hd. rewrite results_for_keyb.
    rewrite (results_of_def line sdef unit result s_key s_cons ocon
                            (fun _ => tt) sstepS r_key ds lines d
                            simple_step_keyed Hk Hd).
    apply hrun_simple.
  Qed.

  Lemma spec_over_visible_spec d lines :
    spec_over d (visible_spec line ocon (s_cons d) lines (enum 1 lines)) =
    spec_constrained line omatch ohint ocon d lines.
  Proof.
    unfold visible_spec, spec_constrained. rewrite enum_skipn.
    apply spec_over_enum.
  Qed.

  (* C07 (and C01 as the case without constraints) *)
  Theorem simple_constrained_exact MAX NBUF ds lines d :
    1 <= MAX -> keys_ok s_key ds -> In d ds ->
    uniform line ocon (s_cons d) lines ->
    exists bs,
      simple_execute line omatch ohint ocon MAX NBUF ds lines = TaskOk bs /\
      Forall (batch_ok MAX) bs /\
      map obs (results_for (s_key d) (concat bs)) =
      spec_constrained line omatch ohint ocon d lines.
  Proof.
    intros HM Hk Hd Hu.
    destruct (simple_execute_emits MAX NBUF ds lines HM) as [bs [H1 [H2 H3]]].
    exists bs. split; [exact H1|]. split; [exact H3|].
    rewrite H2, (simple_results_code_rule ds lines d Hk Hd).
    rewrite (visible_init_uniform line sdef s_cons ocon d lines 1 Hu).
    apply spec_over_visible_spec.
  Qed.

  Lemma uniform_nil lines : uniform line ocon [] lines.
  Proof. intros l _. reflexivity. Qed.

  Lemma spec_constrained_nil d lines :
    s_cons d = [] ->
    spec_constrained line omatch ohint ocon d lines =
    spec_simple line omatch ohint d lines.
  Proof.
    intros Hc. unfold spec_constrained, spec_simple. rewrite Hc.
    destruct lines; reflexivity.
  Qed.

  Theorem simple_search_exact MAX NBUF ds lines d :
    1 <= MAX -> keys_ok s_key ds -> In d ds -> s_cons d = [] ->
    exists bs,
      simple_execute line omatch ohint ocon MAX NBUF ds lines = TaskOk bs /\
      Forall (batch_ok MAX) bs /\
      map obs (results_for (s_key d) (concat bs)) =
      spec_simple line omatch ohint d lines.
  Proof.
    intros HM Hk Hd Hc.
    assert (Hu : uniform line ocon (s_cons d) lines)
      by (rewrite Hc; apply uniform_nil).
    destruct (simple_constrained_exact MAX NBUF ds lines d HM Hk Hd Hu)
      as [bs [H1 [H2 H3]]].
    exists bs. split; [exact H1|]. split; [exact H2|].
    rewrite H3. apply spec_constrained_nil. exact Hc.
  Qed.

  (* no result for a definition that was not registered on the file *)
  Theorem simple_no_spurious MAX NBUF ds lines k :
    1 <= MAX -> ~ In k (map s_key ds) ->
    exists bs,
      simple_execute line omatch ohint ocon MAX NBUF ds lines = TaskOk bs /\
      results_for k (concat bs) = [].
  Proof.
    intros HM Hn.
    destruct (simple_execute_emits MAX NBUF ds lines HM) as [bs [H1 [H2 H3]]].
    exists bs. split; [exact H1|]. rewrite H2, results_for_keyb.
    apply results_of_unregistered; [apply simple_step_keyed|exact Hn].
  Qed.

  (* the code's rule in closed form, without the uniformity hypothesis:
     k = index of the first line on which all constraints pass; before it the
     lines that pass at least one constraint, fail none and cannot be decided
     for another ARE searched; from k on every line is *)
  Theorem simple_constrained_code_rule MAX NBUF ds lines d :
    1 <= MAX -> keys_ok s_key ds -> In d ds -> hasc d = true ->
    let k := active_from line ocon (s_cons d) lines in
    exists bs,
      simple_execute line omatch ohint ocon MAX NBUF ds lines = TaskOk bs /\
      map obs (results_for (s_key d) (concat bs)) =
      spec_over d (filter (fun il => pre_search line sdef s_cons ocon d
                                                (snd il))
                          (firstn k (enum 1 lines))) ++
      spec_constrained line omatch ohint ocon d lines.
  Proof.
    intros HM Hk Hd Hc k.
    destruct (simple_execute_emits MAX NBUF ds lines HM) as [bs [H1 [H2 H3]]].
    exists bs. split; [exact H1|].
    rewrite H2, (simple_results_code_rule ds lines d Hk Hd), Hc.
    cbn [negb]. rewrite (visible_false_closed line sdef s_cons ocon lines 1 d Hc).
    rewrite (code_active_from_spec line sdef s_cons ocon d lines Hc).
    fold k. unfold spec_over at 1. rewrite flat_map_app.
    f_equal. fold (spec_over d (skipn k (enum 1 lines))).
    apply spec_over_visible_spec.
  Qed.

  (* results of d' are the same whatever else is registered on the file *)
  Theorem simple_neighbours_unaffected ds1 ds2 lines d' :
    keys_ok s_key ds1 -> keys_ok s_key ds2 -> In d' ds1 -> In d' ds2 ->
    results_for (s_key d') (emittedS ds1 lines) =
    results_for (s_key d') (emittedS ds2 lines).
  Proof.
    intros K1 K2 I1 I2. rewrite !results_for_keyb.
    rewrite (results_of_def line sdef unit result s_key s_cons ocon
                            (fun _ => tt) sstepS r_key ds1 lines d'
                            simple_step_keyed K1 I1).
    rewrite (results_of_def line sdef unit result s_key s_cons ocon
                            (fun _ => tt) sstepS r_key ds2 lines d'
                            simple_step_keyed K2 I2).
    reflexivity.
  Qed.
End SimpleProofs.

(* --------------------------------------------------- heterogeneous case *)
(* a line that passes one constraint, fails none and is undecidable for
   another is searched without activating the definition *)
Lemma pre_search_heterogeneous {line D} (cons : D -> list Z)
      (ocon : Z -> line -> outcome) d l :
  (forall c, In c (cons d) -> ocon c l <> Fail) ->
  (exists c, In c (cons d) /\ ocon c l = Pass) ->
  (exists c, In c (cons d) /\ ocon c l = Undecided) ->
  pre_search line D cons ocon d l = true /\
  activates line D cons ocon d l = false.
Proof.
  intros Hnf [cp [Hcp Hp]] [cu [Hcu Hu]].
  unfold pre_search, activates, outcomes. rewrite apply_single_spec.
  destruct (map (fun c => ocon c l) (constraints_of (cons d)))
    as [|o r] eqn:Eo.
  { apply (proj2 (constraints_of_In _ _)) in Hcp.
    destruct (constraints_of (cons d)); [contradiction|discriminate]. }
  rewrite <- Eo. clear o r Eo.
  assert (Ef : existsb is_fail
                 (map (fun c => ocon c l) (constraints_of (cons d))) = false).
  { rewrite existsb_map'.
    destruct (existsb _ _) eqn:E; [|reflexivity].
    apply existsb_exists in E. destruct E as [c [Hc Hf]].
    apply (proj1 (constraints_of_In _ _)) in Hc. specialize (Hnf c Hc).
    destruct (ocon c l); try discriminate. congruence. }
  rewrite Ef.
  assert (Ep : existsb is_pass
                 (map (fun c => ocon c l) (constraints_of (cons d))) = true).
  { rewrite existsb_map'. apply existsb_exists. exists cp.
    split; [apply constraints_of_In; exact Hcp|rewrite Hp; reflexivity]. }
  assert (Eu : existsb is_und
                 (map (fun c => ocon c l) (constraints_of (cons d))) = true).
  { rewrite existsb_map'. apply existsb_exists. exists cu.
    split; [apply constraints_of_In; exact Hcu|rewrite Hu; reflexivity]. }
  rewrite Ep, Eu. split; reflexivity.
Qed.

(* one constraint: undecidedness is trivially uniform *)
Lemma uniform_single {line} (ocon : Z -> line -> outcome) c lines :
  uniform line ocon [c] lines.
Proof.
  intros l _. unfold uniform_line. simpl.
  destruct (ocon c l); reflexivity.
Qed.

(* -------------------------------------------------- restricted files *)
Section Restricted.
  Variable line : Type.
  Variable D : Type.
  Variable St : Type.
  Variable R : Type.
  Variable key : D -> Z.
  Variable cons : D -> list Z.
  Variable ocon : Z -> line -> outcome.
  Variable init : D -> St.
  Variable step : D -> St -> Z -> line -> St * list R.
  Variable post : list (D * St) -> Z -> list R.
  Variable MAX : Z.
  Variable NBUF : Z.
  Variable G : Type.
  Variable atf : G -> nat -> option Z * nat.

  Lemma registered_id_in ds d :
    In d ds ->
    In (key d) (map (fun s => key (sl_def s))
                    (search_defs D St key cons init ds)).
  Proof.
    intros Hd. unfold search_defs. rewrite map_map. simpl.
    destruct (dedupe_complete D key ds [] d Hd) as [d' [H1 H2]]; [intros []|].
    apply in_map_iff. exists d'. split; [exact H2|exact H1].
  Qed.

  (* a definition registered with allow_global_constraints=False on the
     file: no file-level constraint is applied, the whole file is searched *)
  Theorem restricted_file_whole globals restrictions ds d file_lines :
    In d ds -> In (key d) restrictions ->
    apply_global atf globals restrictions
                 (map (fun s => key (sl_def s))
                      (search_defs D St key cons init ds)) = (0, 0%nat, []) /\
    run_file line D St R key cons ocon init step post MAX NBUF atf globals
             restrictions ds file_lines =
    execute line D St R key cons ocon init step post MAX NBUF ds file_lines.
  Proof.
    intros Hd Hr.
    assert (H : apply_global atf globals restrictions
                  (map (fun s => key (sl_def s))
                       (search_defs D St key cons init ds)) = (0, 0%nat, [])).
    { apply apply_global_restricted. exists (key d).
      split; [exact Hr|apply registered_id_in; exact Hd]. }
    split; [exact H|]. unfold run_file. rewrite H. reflexivity.
  Qed.

  (* no file-level constraint at all: same *)
  Lemma no_global_whole restrictions ds file_lines :
    run_file line D St R key cons ocon init step post MAX NBUF atf []
             restrictions ds file_lines =
    execute line D St R key cons ocon init step post MAX NBUF ds file_lines.
  Proof. reflexivity. Qed.
End Restricted.

Lemma add_restriction_in restrictions id :
  In id (add_restriction restrictions id false).
Proof. left. reflexivity. Qed.

Lemma add_restriction_allow restrictions id :
  add_restriction restrictions id true = restrictions.
Proof. reflexivity. Qed.
