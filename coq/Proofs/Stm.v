(* Soundness of the static escape analysis [esc] w.r.t. the exception-flow
   semantics [exec] of structured skeletons. *)
From Coq Require Import String List Bool.
From SK Require Import Model.Skel Model.Stm.
Import ListNotations.
Open Scope string_scope.
Open Scope list_scope.

Section Sound.
  Variable orig : ev -> list string.

  Lemma esc_if cur a b :
    esc orig cur (SIf a b) = esc_list orig cur a ++ esc_list orig cur b.
  Proof.
    cbn [esc]. f_equal.
    - induction a as [|s r IH]; cbn [esc_list]; [reflexivity|].
      rewrite <- IH. reflexivity.
    - induction b as [|s r IH]; cbn [esc_list]; [reflexivity|].
      rewrite <- IH. reflexivity.
  Qed.

  Lemma esc_loop cur b : esc orig cur (SLoop b) = esc_list orig cur b.
  Proof.
    cbn [esc]. induction b as [|s r IH]; cbn [esc_list]; [reflexivity|].
    rewrite <- IH. reflexivity.
  Qed.

  Lemma esc_try cur body hs orelse fin :
    esc orig cur (STry body hs orelse fin) =
    filter (fun x => negb (handled x hs)) (esc_list orig cur body)
    ++ esc_handlers orig (esc_list orig cur body) hs
    ++ esc_list orig cur orelse ++ esc_list orig cur fin.
  Proof.
    cbn [esc].
    assert (Hl : forall c l,
      (fix go (l : list stm) : list string :=
         match l with [] => [] | s' :: r => esc orig c s' ++ go r end) l
      = esc_list orig c l).
    { intros c l. induction l as [|s r IH]; cbn [esc_list]; [reflexivity|].
      rewrite <- IH. reflexivity. }
    rewrite !Hl. f_equal. f_equal.
    generalize (esc_list orig cur body) as eb.
    induction hs as [|[h b] r IH]; intros eb; cbn [esc_handlers];
      [reflexivity|].
    rewrite IH. destruct (filter (catches h) eb); [reflexivity|].
    rewrite Hl. reflexivity.
  Qed.

  Lemma first_handler_esc x hs hb eb :
    first_handler x hs = Some hb -> In x eb ->
    exists cur', In x cur' /\
                 incl (esc_list orig cur' hb) (esc_handlers orig eb hs).
  Proof.
    revert eb. induction hs as [|[h b] r IH]; intros eb;
      cbn [first_handler esc_handlers]; [discriminate|].
    destruct (catches h x) eqn:E.
    - intros H Hin. inversion H; subst.
      exists (filter (catches h) eb).
      assert (Hx : In x (filter (catches h) eb))
        by (apply filter_In; split; assumption).
      split; [exact Hx|].
      intros y Hy. apply in_or_app. left.
      destruct (filter (catches h) eb) eqn:Ef; [inversion Hx|]. exact Hy.
    - intros H Hin.
      destruct (IH (filter (fun x0 => negb (catches h x0)) eb) H)
        as [cur' [Hc Hi]].
      + apply filter_In. split; [exact Hin|]. rewrite E. reflexivity.
      + exists cur'. split; [exact Hc|]. intros y Hy. apply in_or_app.
        right. apply Hi. exact Hy.
  Qed.

  Scheme exec_min := Minimality for exec Sort Prop
    with exec_list_min := Minimality for exec_list Sort Prop.

  Definition covers (c : option string) (cur : list string) : Prop :=
    forall y, c = Some y -> In y cur.

  Theorem esc_sound :
    forall c s r, exec orig c s r ->
    forall cur, covers c cur -> forall x, r = RRaise x -> In x (esc orig cur s).
  Proof.
    apply (exec_min orig
      (fun c s r => forall cur, covers c cur -> forall x, r = RRaise x ->
                                In x (esc orig cur s))
      (fun c l r => forall cur, covers c cur -> forall x, r = RRaise x ->
                                In x (esc_list orig cur l))).
    - (* ev ok *) intros; discriminate.
    - (* ev raise *) intros c e x Hin cur _ y Hy. inversion Hy; subst. exact Hin.
    - (* raise *) intros c x Hne cur _ y Hy. inversion Hy; subst. cbn [esc].
      destruct (String.eqb y "reraise") eqn:E.
      + apply String.eqb_eq in E. contradiction.
      + left; reflexivity.
    - (* reraise *) intros x cur Hc y Hy. inversion Hy; subst. cbn [esc].
      cbn. apply Hc. reflexivity.
    - intros; discriminate.
    - intros; discriminate.
    - (* if a *) intros c a b r _ IH cur Hc x Hx. rewrite esc_if.
      apply in_or_app. left. eapply IH; eauto.
    - intros c a b r _ IH cur Hc x Hx. rewrite esc_if.
      apply in_or_app. right. eapply IH; eauto.
    - intros; discriminate.
    - (* loop raise *) intros c b x _ IH cur Hc y Hy. rewrite esc_loop.
      inversion Hy; subst. eapply IH; eauto.
    - intros; discriminate.
    - (* try ok *)
      intros c body hs orelse fin r1 r2 r _ IH1 Hr1 _ IH2 _ IH3 cur Hc x Hx.
      rewrite esc_try. apply in_or_app. right. apply in_or_app. right.
      destruct r as [| |z].
      + destruct r2 as [| |z2].
        * destruct Hr1; subst; discriminate.
        * discriminate.
        * apply in_or_app. left. eapply IH2; eauto.
      + discriminate.
      + apply in_or_app. right. eapply IH3; eauto.
    - (* try uncaught *)
      intros c body hs orelse fin x r _ IH1 Hnh _ IH3 cur Hc y Hy.
      rewrite esc_try.
      destruct r as [| |z].
      + inversion Hy; subst. apply in_or_app. left. apply filter_In. split.
        * eapply IH1; eauto.
        * rewrite Hnh. reflexivity.
      + discriminate.
      + apply in_or_app. right. apply in_or_app. right. apply in_or_app.
        right. eapply IH3; eauto.
    - (* try caught *)
      intros c body hs orelse fin x hb r1 r _ IH1 Hfh _ IHh _ IH3 cur Hc y Hy.
      rewrite esc_try.
      destruct r as [| |z].
      + subst r1. apply in_or_app. right. apply in_or_app. left.
        destruct (first_handler_esc x hs hb (esc_list orig cur body) Hfh)
          as [cur' [Hx Hincl]].
        * eapply IH1; eauto.
        * apply Hincl. eapply IHh; [|reflexivity].
          intros y' Hy'. inversion Hy'; subst. exact Hx.
      + discriminate.
      + apply in_or_app. right. apply in_or_app. right. apply in_or_app.
        right. eapply IH3; eauto.
    - (* nil *) intros; discriminate.
    - (* cons ok *) intros c s l r _ _ _ IH cur Hc x Hx. cbn [esc_list].
      apply in_or_app. right. eapply IH; eauto.
    - (* cons stop *) intros c s l r _ IH _ cur Hc x Hx. cbn [esc_list].
      apply in_or_app. left. eapply IH; eauto.
  Qed.

  Theorem esc_list_sound :
    forall c l r, exec_list orig c l r ->
    forall cur, covers c cur -> forall x, r = RRaise x ->
    In x (esc_list orig cur l).
  Proof.
    intros c l r H. induction H as [c|c s l r Hs Hl IH|c s l r Hs Hr];
      intros cur Hc x Hx.
    - discriminate.
    - cbn [esc_list]. apply in_or_app. right. eapply IH; eauto.
    - cbn [esc_list]. apply in_or_app. left. eapply esc_sound; eauto.
  Qed.

  (* the usable corollary: outside any handler, every exception leaving the
     function body is in the computed escape set *)
  Corollary escapes_sound (body : list stm) (x : string) :
    exec_list orig None body (RRaise x) -> In x (esc_list orig [] body).
  Proof.
    intros H. eapply esc_list_sound; [exact H| |reflexivity].
    intros y Hy. discriminate.
  Qed.
End Sound.
