(* Proofs about Model/Seek.v: the chunked line-feed scans find exactly the
   nearest line feeds, and the exact boundary at which they give up. *)
From Coq Require Import ZArith List Bool Lia.
From SK Require Import Model.Base Model.Seek Spec.Lines.
Import ListNotations.
Open Scope Z_scope.

(* ------------------------------------------------------------ list facts *)
Lemma nth_skipn_ {T} (l : list T) k i d :
  nth i (skipn k l) d = nth (k + i) l d.
Proof.
  revert l; induction k as [|k IH]; intros [|x l]; simpl; auto.
  destruct i; reflexivity.
Qed.

Lemma nth_firstn_ {T} (l : list T) k i d :
  (i < k)%nat -> nth i (firstn k l) d = nth i l d.
Proof.
  revert l i; induction k as [|k IH]; intros l i Hi; [lia|].
  destruct l as [|x l]; simpl; auto.
  destruct i; auto. apply IH; lia.
Qed.

Lemma lenZ_nonneg {T} (l : list T) : 0 <= lenZ l.
Proof. unfold lenZ; lia. Qed.

Lemma lenZ_nil_iff {T} (l : list T) : lenZ l = 0 <-> l = [].
Proof.
  unfold lenZ; destruct l; simpl; split; intro E; try reflexivity;
    try discriminate; lia.
Qed.

Lemma length_read c off n :
  0 <= off -> lenZ (read c off n) = Z.max 0 (Z.min n (lenZ c - off)).
Proof.
  intros Hoff. unfold read, lenZ. rewrite firstn_length, skipn_length. lia.
Qed.

Lemma nth_read c off n j :
  0 <= off -> 0 <= j < n ->
  nth (Z.to_nat j) (read c off n) 0 = nth (Z.to_nat (off + j)) c 0.
Proof.
  intros Hoff Hj. unfold read. rewrite nth_firstn_ by lia.
  rewrite nth_skipn_. f_equal. lia.
Qed.

Lemma lf_at_lt c p : lf_at c p -> 0 <= p < lenZ c.
Proof.
  intros [Hp Hn]. split; [exact Hp|]. unfold lenZ.
  destruct (Nat.lt_ge_cases (Z.to_nat p) (length c)) as [Hlt|Hge]; [lia|].
  rewrite nth_overflow in Hn by exact Hge. discriminate.
Qed.

(* --------------------------------------------------- find / rfind in a chunk *)
Lemma find_lf_some l i :
  find_lf l = Some i ->
  0 <= i < lenZ l /\ nth (Z.to_nat i) l 0 = 10 /\
  forall j, 0 <= j < i -> nth (Z.to_nat j) l 0 <> 10.
Proof.
  revert i; induction l as [|x r IH]; simpl; intros i Hf; [discriminate|].
  destruct (x =? 10) eqn:E.
  - inversion Hf; subst i. unfold lenZ; simpl length.
    split; [lia|]. split; [simpl; lia|]. intros j Hj; lia.
  - destruct (find_lf r) as [k|] eqn:Fr; [|discriminate].
    inversion Hf; subst i. destruct (IH k eq_refl) as (Hr & Hn & Hm).
    unfold lenZ in *. simpl length. split; [lia|]. split.
    + replace (Z.to_nat (k + 1)) with (S (Z.to_nat k)) by lia. exact Hn.
    + intros j Hj. destruct (Z.eq_dec j 0) as [->|Hj0].
      * simpl. lia.
      * replace (Z.to_nat j) with (S (Z.to_nat (j - 1))) by lia.
        simpl. apply Hm; lia.
Qed.

Lemma find_lf_none l :
  find_lf l = None -> forall j, 0 <= j -> nth (Z.to_nat j) l 0 <> 10.
Proof.
  induction l as [|x r IH]; simpl; intros Hf j Hj.
  - destruct (Z.to_nat j); simpl; lia.
  - destruct (x =? 10) eqn:E; [discriminate|].
    destruct (find_lf r) as [k|] eqn:Fr; [discriminate|].
    destruct (Z.eq_dec j 0) as [->|Hj0].
    + simpl. lia.
    + replace (Z.to_nat j) with (S (Z.to_nat (j - 1))) by lia.
      simpl. apply IH; [reflexivity|lia].
Qed.

Lemma rfind_lf_some l i :
  rfind_lf l = Some i ->
  0 <= i < lenZ l /\ nth (Z.to_nat i) l 0 = 10 /\
  forall j, i < j -> nth (Z.to_nat j) l 0 <> 10.
Proof.
  revert i; induction l as [|x r IH]; simpl; intros i Hf; [discriminate|].
  destruct (rfind_lf r) as [k|] eqn:Fr.
  - inversion Hf; subst i. destruct (IH k eq_refl) as (Hr & Hn & Hm).
    unfold lenZ in *. simpl length. split; [lia|]. split.
    + replace (Z.to_nat (k + 1)) with (S (Z.to_nat k)) by lia. exact Hn.
    + intros j Hj.
      replace (Z.to_nat j) with (S (Z.to_nat (j - 1))) by lia.
      simpl. apply Hm; lia.
  - destruct (x =? 10) eqn:E; [|discriminate].
    inversion Hf; subst i. unfold lenZ; simpl length.
    split; [lia|]. split; [simpl; lia|].
    intros j Hj. replace (Z.to_nat j) with (S (Z.to_nat (j - 1))) by lia.
    simpl. clear -Fr Hj. revert j Hj.
    induction r as [|y r IHr]; intros j Hj.
    + destruct (Z.to_nat (j - 1)); simpl; lia.
    + simpl in Fr. destruct (rfind_lf r) as [k|] eqn:Fr'; [discriminate|].
      destruct (y =? 10) eqn:Ey; [discriminate|].
      destruct (Z.eq_dec j 1) as [->|Hj1].
      * simpl. lia.
      * replace (Z.to_nat (j - 1)) with (S (Z.to_nat (j - 1 - 1))) by lia.
        simpl. apply (IHr eq_refl (j - 1)). lia.
Qed.

Lemma rfind_lf_none l :
  rfind_lf l = None -> forall j, 0 <= j -> nth (Z.to_nat j) l 0 <> 10.
Proof.
  induction l as [|x r IH]; simpl; intros Hf j Hj.
  - destruct (Z.to_nat j); simpl; lia.
  - destruct (rfind_lf r) as [k|] eqn:Fr; [discriminate|].
    destruct (x =? 10) eqn:E; [discriminate|].
    destruct (Z.eq_dec j 0) as [->|Hj0].
    + simpl. lia.
    + replace (Z.to_nat j) with (S (Z.to_nat (j - 1))) by lia.
      simpl. apply IH; [reflexivity|lia].
Qed.

(* arithmetic helper: make [Z.of_nat (S a)] linear in [Z.of_nat a] *)
Ltac norm_a a :=
  pose proof (Nat2Z.is_nonneg a);
  rewrite ?Nat2Z.inj_succ in *;
  unfold Z.succ in *.

(* case analysis on the [<=?] tests of the goal *)
Ltac leb_cases :=
  repeat match goal with
         | |- context [?x <=? ?y] => destruct (x <=? y) eqn:?
         | |- context [?x <? ?y] => destruct (x <? y) eqn:?
         end; cbn [andb].

(* ------------------------------------------------------------ find_token *)
Lemma ftl_unfold H c a start cur :
  find_token_loop H c (S a) start cur =
  let chunk := read c (start + cur) H in
  if lenZ chunk =? 0 then ReachedEof (lenZ c)
  else match find_lf chunk with
       | Some i => Found (start + cur + i)
       | None => if lenZ chunk <? H then ReachedEof (lenZ c)
                 else find_token_loop H c a start (cur + lenZ chunk)
       end.
Proof. simpl. destruct (read c (start + cur) H); reflexivity. Qed.

(* a line feed at distance < attempts*H is found *)
Lemma ftl_found H c (HH : 0 < H) : forall a start cur p,
  0 <= start + cur -> is_next_lf c (start + cur) p ->
  p < start + cur + Z.of_nat a * H ->
  find_token_loop H c a start cur = Found p.
Proof.
  induction a as [|a IH]; intros start cur p Hpos (Hle & Hlf & Hmin) Hnear.
  - lia.
  - rewrite ftl_unfold. cbv zeta. norm_a a.
    pose proof (lf_at_lt _ _ Hlf) as Hp.
    pose proof (length_read c (start + cur) H Hpos) as Hlen.
    destruct (lenZ (read c (start + cur) H) =? 0) eqn:E0; [lia|].
    destruct (find_lf (read c (start + cur) H)) as [i|] eqn:Ff.
    + destruct (find_lf_some _ _ Ff) as (Hi & Hn & Hm).
      rewrite nth_read in Hn by lia.
      assert (Hlfi : lf_at c (start + cur + i)) by (split; [lia|exact Hn]).
      assert (~ start + cur + i < p) by (intro; apply (Hmin (start + cur + i)); [lia|exact Hlfi]).
      assert (~ p < start + cur + i).
      { intro Hlt. apply (Hm (p - (start + cur))); [lia|].
        rewrite nth_read by lia.
        replace (start + cur + (p - (start + cur))) with p by lia.
        apply Hlf. }
      f_equal. lia.
    + (* no LF in this chunk: p is beyond it, the chunk is full *)
      assert (Hfar : start + cur + H <= p).
      { destruct (Z_lt_le_dec p (start + cur + H)) as [Hlt|]; [|lia].
        exfalso. apply (find_lf_none _ Ff (p - (start + cur))); [lia|].
        rewrite nth_read by lia.
        replace (start + cur + (p - (start + cur))) with p by lia.
        apply Hlf. }
      replace (lenZ (read c (start + cur) H)) with H by lia.
      rewrite Z.ltb_irrefl. apply IH.
      * lia.
      * split; [lia|]. split; [exact Hlf|]. intros j Hj. apply Hmin. lia.
      * lia.
Qed.

(* a line feed at distance >= attempts*H is not reached *)
Lemma ftl_found_far H c (HH : 0 < H) : forall a start cur p,
  0 <= start + cur -> is_next_lf c (start + cur) p ->
  start + cur + Z.of_nat a * H <= p ->
  find_token_loop H c a start cur = ErrMaxLine.
Proof.
  induction a as [|a IH]; intros start cur p Hpos (Hle & Hlf & Hmin) Hfar.
  - reflexivity.
  - rewrite ftl_unfold. cbv zeta. norm_a a.
    pose proof (lf_at_lt _ _ Hlf) as Hp.
    pose proof (length_read c (start + cur) H Hpos) as Hlen.
    destruct (lenZ (read c (start + cur) H) =? 0) eqn:E0; [lia|].
    destruct (find_lf (read c (start + cur) H)) as [i|] eqn:Ff.
    + exfalso. destruct (find_lf_some _ _ Ff) as (Hi & Hn & Hm).
      rewrite nth_read in Hn by lia.
      apply (Hmin (start + cur + i)); [lia|]. split; [lia|exact Hn].
    + replace (lenZ (read c (start + cur) H)) with H by lia.
      rewrite Z.ltb_irrefl. apply (IH start (cur + H) p).
      * lia.
      * split; [lia|]. split; [exact Hlf|]. intros j Hj. apply Hmin. lia.
      * lia.
Qed.

(* no line feed ahead: the end of the file is reported by the first short or
   empty read, i.e. iff fewer than attempts*H bytes are left *)
Lemma ftl_none H c (HH : 0 < H) : forall a start cur,
  0 <= start + cur <= lenZ c -> no_lf_from c (start + cur) ->
  find_token_loop H c a start cur =
  if (1 <=? Z.of_nat a) && (lenZ c - (start + cur) <? Z.of_nat a * H)
  then ReachedEof (lenZ c) else ErrMaxLine.
Proof.
  induction a as [|a IH]; intros start cur Hpos Hno.
  - reflexivity.
  - rewrite ftl_unfold. cbv zeta. norm_a a.
    pose proof (length_read c (start + cur) H (proj1 Hpos)) as Hlen.
    destruct (lenZ (read c (start + cur) H) =? 0) eqn:E0.
    + leb_cases; try reflexivity; exfalso; nia.
    + destruct (find_lf (read c (start + cur) H)) as [i|] eqn:Ff.
      * exfalso. destruct (find_lf_some _ _ Ff) as (Hi & Hn & Hm).
        rewrite nth_read in Hn by lia.
        apply (Hno (start + cur + i)); [lia|]. split; [lia|exact Hn].
      * set (k := lenZ (read c (start + cur) H)) in *.
        destruct (k <? H) eqn:Ek.
        -- leb_cases; try reflexivity; exfalso; nia.
        -- rewrite IH; [|lia|intros j Hj; apply Hno; lia].
           leb_cases; try reflexivity; exfalso; nia.
Qed.

(* ---------------------------------------------------- find_token_reverse *)
(* e = start + cur + H is the (exclusive) upper end of the window read *)
Lemma ftr_unfold H c a start cur :
  find_token_reverse_loop H c (S a) start cur =
  let ro := if start + cur >? 0 then start + cur else 0 in
  let rs := if start + cur <=? 0 then H + (start + cur) else H in
  let chunk := read c ro rs in
  if lenZ chunk =? 0 then ReachedEof 0
  else match rfind_lf chunk with
       | Some i => Found (ro + i)
       | None =>
           if rs <? H then ReachedEof 0
           else if Z.of_nat a =? 0 then ErrMaxLine
                else if ro =? 0 then ReachedEof 0
                     else find_token_reverse_loop H c a start (cur - lenZ chunk)
       end.
Proof.
  simpl.
  destruct (read c (if start + cur >? 0 then start + cur else 0)
              (if start + cur <=? 0 then H + (start + cur) else H));
    [reflexivity|].
  change (lenZ (z :: l) =? 0) with false. cbv iota.
  destruct (rfind_lf (z :: l)); [reflexivity|].
  destruct (_ <? H); [reflexivity|].
  destruct a; reflexivity.
Qed.

(* the window read in one iteration is exactly [max 0 (e-H), e) *)
Lemma ftr_window H c (HH : 0 < H) start cur :
  let e := start + cur + H in
  0 <= e <= lenZ c ->
  let ro := if start + cur >? 0 then start + cur else 0 in
  let rs := if start + cur <=? 0 then H + (start + cur) else H in
  ro = Z.max 0 (e - H) /\ rs = e - ro /\ 0 <= rs /\
  lenZ (read c ro rs) = rs.
Proof.
  intros e He ro rs. subst ro rs e.
  destruct (start + cur >? 0) eqn:E1; destruct (start + cur <=? 0) eqn:E2;
    try lia; (split; [lia|]); (split; [lia|]); (split; [lia|]);
    rewrite length_read by lia; lia.
Qed.

Lemma ftr_found H c (HH : 0 < H) : forall a start cur q,
  0 <= start + cur + H <= lenZ c ->
  is_prev_lf c (start + cur + H) q ->
  start + cur + H - q <= Z.of_nat a * H ->
  find_token_reverse_loop H c a start cur = Found q.
Proof.
  induction a as [|a IH]; intros start cur q He (Hlt & Hlf & Hmax) Hnear.
  - lia.
  - rewrite ftr_unfold. norm_a a.
    destruct (ftr_window H c HH start cur He) as (Hro & Hrs & Hrs0 & Hlen).
    cbv zeta in *.
    set (ro := if start + cur >? 0 then start + cur else 0) in *.
    set (rs := if start + cur <=? 0 then H + (start + cur) else H) in *.
    pose proof (lf_at_lt _ _ Hlf) as Hq.
    destruct (lenZ (read c ro rs) =? 0) eqn:E0; [lia|].
    destruct (rfind_lf (read c ro rs)) as [i|] eqn:Ff.
    + destruct (rfind_lf_some _ _ Ff) as (Hi & Hn & Hm).
      rewrite nth_read in Hn by lia.
      assert (Hlfi : lf_at c (ro + i)) by (split; [lia|exact Hn]).
      assert (~ q < ro + i) by (intro; apply (Hmax (ro + i)); [lia|exact Hlfi]).
      assert (~ ro + i < q).
      { intro Hl. apply (Hm (q - ro)); [lia|].
        rewrite nth_read by lia. replace (ro + (q - ro)) with q by lia.
        apply Hlf. }
      f_equal. lia.
    + assert (Hfar : q < ro).
      { destruct (Z_lt_le_dec q ro) as [|Hge]; [assumption|].
        exfalso. apply (rfind_lf_none _ Ff (q - ro)); [lia|].
        rewrite nth_read by lia. replace (ro + (q - ro)) with q by lia.
        apply Hlf. }
      destruct (rs <? H) eqn:Ec; [lia|].
      destruct (Z.of_nat a =? 0) eqn:Ea; [nia|].
      destruct (ro =? 0) eqn:Er; [lia|].
      apply IH.
      * lia.
      * split; [lia|]. split; [exact Hlf|]. intros j Hj. apply Hmax. lia.
      * nia.
Qed.

Lemma ftr_found_far H c (HH : 0 < H) : forall a start cur q,
  0 <= start + cur + H <= lenZ c ->
  is_prev_lf c (start + cur + H) q ->
  Z.of_nat a * H < start + cur + H - q ->
  find_token_reverse_loop H c a start cur = ErrMaxLine.
Proof.
  induction a as [|a IH]; intros start cur q He (Hlt & Hlf & Hmax) Hfar.
  - reflexivity.
  - rewrite ftr_unfold. norm_a a.
    destruct (ftr_window H c HH start cur He) as (Hro & Hrs & Hrs0 & Hlen).
    cbv zeta in *.
    set (ro := if start + cur >? 0 then start + cur else 0) in *.
    set (rs := if start + cur <=? 0 then H + (start + cur) else H) in *.
    pose proof (lf_at_lt _ _ Hlf) as Hq.
    destruct (lenZ (read c ro rs) =? 0) eqn:E0; [lia|].
    destruct (rfind_lf (read c ro rs)) as [i|] eqn:Ff.
    + exfalso. destruct (rfind_lf_some _ _ Ff) as (Hi & Hn & Hm).
      rewrite nth_read in Hn by lia.
      assert (Hlfi : lf_at c (ro + i)) by (split; [lia|exact Hn]).
      assert (q < ro) by nia.
      apply (Hmax (ro + i)); [lia|exact Hlfi].
    + assert (Hqro : q < ro).
      { destruct (Z_lt_le_dec q ro) as [|Hge]; [assumption|].
        exfalso. apply (rfind_lf_none _ Ff (q - ro)); [lia|].
        rewrite nth_read by lia. replace (ro + (q - ro)) with q by lia.
        apply Hlf. }
      destruct (rs <? H) eqn:Ec; [lia|].
      destruct (Z.of_nat a =? 0) eqn:Ea; [reflexivity|].
      destruct (ro =? 0) eqn:Er; [lia|].
      apply (IH start (cur - lenZ (read c ro rs)) q).
      * lia.
      * split; [nia|]. split; [exact Hlf|]. intros j Hj. apply Hmax. lia.
      * nia.
Qed.

(* no line feed before: the start of the file is reported when the window is
   clipped or starts at 0 with an attempt left, i.e. iff e < attempts*H *)
Lemma ftr_none H c (HH : 0 < H) : forall a start cur,
  0 <= start + cur + H <= lenZ c ->
  no_lf_before c (start + cur + H) ->
  find_token_reverse_loop H c a start cur =
  if (1 <=? Z.of_nat a) && (start + cur + H <? Z.of_nat a * H)
  then ReachedEof 0 else ErrMaxLine.
Proof.
  induction a as [|a IH]; intros start cur He Hno.
  - reflexivity.
  - rewrite ftr_unfold. norm_a a.
    destruct (ftr_window H c HH start cur He) as (Hro & Hrs & Hrs0 & Hlen).
    cbv zeta in *.
    set (ro := if start + cur >? 0 then start + cur else 0) in *.
    set (rs := if start + cur <=? 0 then H + (start + cur) else H) in *.
    destruct (lenZ (read c ro rs) =? 0) eqn:E0.
    + leb_cases; try reflexivity; exfalso; nia.
    + destruct (rfind_lf (read c ro rs)) as [i|] eqn:Ff.
      * exfalso. destruct (rfind_lf_some _ _ Ff) as (Hi & Hn & Hm).
        rewrite nth_read in Hn by lia.
        apply (Hno (ro + i)); [lia|]. split; [lia|exact Hn].
      * destruct (rs <? H) eqn:Ec.
        -- leb_cases; try reflexivity; exfalso; nia.
        -- destruct (Z.of_nat a =? 0) eqn:Ea.
           ++ leb_cases; try reflexivity; exfalso; nia.
           ++ destruct (ro =? 0) eqn:Er.
              ** leb_cases; try reflexivity; exfalso; nia.
              ** rewrite IH.
                 --- set (k := lenZ (read c ro rs)) in *.
                     leb_cases; try reflexivity; exfalso; nia.
                 --- lia.
                 --- intros j Hj. apply Hno. lia.
Qed.
