(* C19 - termination measure: every step that is taken consumes one unit of
   "work left" (invocations, actions and responses of all processes), for
   ANY compiler.  Hence a schedule all of whose entries are enabled is no
   longer than the initial measure; a maximal one exists; and (with
   no_deadlock, for disciplined compilers) a maximal schedule ends with every
   process finished.  Fairness is only needed to say that the OS actually
   takes a maximal schedule. *)
From Coq Require Import ZArith List Bool Arith Lia.
From SK Require Import Spec.Cache Model.Cache Proofs.CacheInv.
Import ListNotations.
Open Scope nat_scope.

Section Term.
Variable C : compiler.

Fixpoint todo_cost (inited : bool) (ops : list op) : nat :=
  match ops with
  | [] => 0
  | o :: t => length (C (negb inited) o) + 2 +
              todo_cost (inited || uses_path o) t
  end.

(* work left for one process *)
Definition pwork (pr : proc) : nat :=
  todo_cost (inited pr) (todo pr) +
  match cur pr with
  | Some (_, rest) => length rest + 1
  | None => 0
  end.

Fixpoint msum (n : nat) (g : nat -> nat) : nat :=
  match n with
  | O => 0
  | S m => g m + msum m g
  end.

(* work left for processes 0..n-1 *)
Definition measure (n : nat) (s : state) : nat :=
  msum n (fun p => pwork (procs s p)).

Lemma msum_ext n g g' :
  (forall q, q < n -> g' q = g q) -> msum n g' = msum n g.
Proof.
  induction n as [|n IH]; intros H; simpl; [reflexivity|].
  rewrite H by lia. rewrite IH; [reflexivity|]. intros q Hq. apply H. lia.
Qed.

Lemma msum_upd n g g' p :
  p < n -> (forall q, q <> p -> g' q = g q) ->
  msum n g' + g p = msum n g + g' p.
Proof.
  induction n as [|n IH]; intros Hp H; [lia|]. simpl.
  destruct (Nat.eq_dec p n) as [->|Hn].
  - rewrite (msum_ext n g g'); [lia|]. intros q Hq. apply H. lia.
  - rewrite (H n) by auto. specialize (IH ltac:(lia) H). lia.
Qed.

(* processes from n on have nothing to do *)
Definition idle_beyond (n : nat) (s : state) : Prop :=
  forall p, n <= p -> cur (procs s p) = None /\ todo (procs s p) = [].

Lemma step_pwork s p s' :
  step C s p = Some s' ->
  pwork (procs s' p) + 1 = pwork (procs s p) /\
  (forall q, q <> p -> procs s' q = procs s q).
Proof.
  unfold step, pwork. intros H.
  destruct (cur (procs s p)) as [[o [|a rest]]|] eqn:Ec.
  - inversion H; subst; clear H. simpl. rewrite setp_same. simpl.
    split; [lia|]. intros q Hq. apply setp_other. exact Hq.
  - assert (Hadv : forall d lc lg hs l',
               let s1 := mkState
                           (setp (procs s) p
                                 (mkProc (todo (procs s p)) (idx (procs s p))
                                         (inited (procs s p))
                                         (Some (o, rest)) l'))
                           d lc lg hs in
               todo_cost (inited (procs s1 p)) (todo (procs s1 p)) +
               match cur (procs s1 p) with
               | Some (_, r) => length r + 1 | None => 0 end + 1
               = todo_cost (inited (procs s p)) (todo (procs s p)) +
                 (length (a :: rest) + 1) /\
               (forall q, q <> p -> procs s1 q = procs s q)).
    { intros. subst s1. simpl. rewrite setp_same. simpl.
      split; [lia|]. intros q Hq. apply setp_other. exact Hq. }
    destruct a;
      try (destruct (act_local _ (disk s) (loc (procs s p))) as [d' l'];
           inversion H; subst; clear H; apply Hadv).
    + destruct (failed (loc (procs s p))).
      * inversion H; subst; clear H. apply Hadv.
      * destruct (lock_get s l); [discriminate|].
        destruct l; inversion H; subst; clear H; apply Hadv.
    + destruct (owner_is (lock_get s l) p).
      * destruct l; inversion H; subst; clear H; apply Hadv.
      * inversion H; subst; clear H. apply Hadv.
  - destruct (todo (procs s p)) as [|o t] eqn:Et; [discriminate|].
    inversion H; subst; clear H. simpl. rewrite setp_same. simpl.
    split; [lia|]. intros q Hq. apply setp_other. exact Hq.
Qed.

Lemma step_idle_beyond n s p s' :
  idle_beyond n s -> step C s p = Some s' -> p < n /\ idle_beyond n s'.
Proof.
  intros Hi H.
  assert (Hp : p < n).
  { destruct (le_lt_dec n p) as [Hle|]; [|assumption].
    destruct (Hi p Hle) as [A B]. unfold step in H. rewrite A, B in H.
    discriminate. }
  split; [exact Hp|].
  intros q Hq. destruct (step_pwork _ _ _ H) as [_ Ho].
  rewrite Ho by lia. apply Hi. exact Hq.
Qed.

(* every step that is taken consumes exactly one unit *)
Lemma step_measure n s p s' :
  idle_beyond n s -> step C s p = Some s' ->
  measure n s' + 1 = measure n s.
Proof.
  intros Hi H. destruct (step_idle_beyond _ _ _ _ Hi H) as [Hp _].
  destruct (step_pwork _ _ _ H) as [Hw Ho].
  unfold measure.
  pose proof (msum_upd n (fun q => pwork (procs s q))
                       (fun q => pwork (procs s' q)) p Hp) as E.
  assert (Hf : forall q, q <> p ->
               (fun q => pwork (procs s' q)) q = (fun q => pwork (procs s q)) q).
  { intros q Hq. cbv beta. rewrite Ho by exact Hq. reflexivity. }
  specialize (E Hf). cbv beta in E. lia.
Qed.

(* a schedule whose every entry is enabled when its turn comes *)
Fixpoint all_enabled (s : state) (sched : list nat) : Prop :=
  match sched with
  | [] => True
  | p :: r => exists s', step C s p = Some s' /\ all_enabled s' r
  end.

Lemma enabled_run_measure n sched : forall s,
  idle_beyond n s -> all_enabled s sched ->
  length sched + measure n (run C s sched) = measure n s /\
  idle_beyond n (run C s sched).
Proof.
  induction sched as [|p r IH]; intros s Hi He; simpl; [auto|].
  destruct He as [s' [Hs He]].
  unfold step_or_stay. rewrite Hs.
  destruct (step_idle_beyond _ _ _ _ Hi Hs) as [_ Hi'].
  destruct (IH s' Hi' He) as [A B].
  pose proof (step_measure _ _ _ _ Hi Hs). split; [lia|exact B].
Qed.

Lemma init_idle_beyond progs : idle_beyond (length progs) (init progs).
Proof.
  intros p Hp. simpl.
  apply nth_error_None in Hp. rewrite Hp. auto.
Qed.

(* bound on the number of steps of any run *)
Lemma enabled_length_bound progs sched :
  all_enabled (init progs) sched ->
  length sched <= measure (length progs) (init progs).
Proof.
  intros He.
  destruct (enabled_run_measure _ _ _ (init_idle_beyond progs) He). lia.
Qed.

Definition maximal (s : state) (sched : list nat) : Prop :=
  all_enabled s sched /\ forall q, step C (run C s sched) q = None.

(* is some process below n enabled? *)
Lemma enabled_dec n s :
  (exists q s', q < n /\ step C s q = Some s') \/
  (forall q, q < n -> step C s q = None).
Proof.
  induction n as [|n IH].
  - right. intros q Hq. lia.
  - destruct (step C s n) as [s'|] eqn:E.
    + left. exists n, s'. split; [lia|exact E].
    + destruct IH as [[q [s' [Hq Hs]]]|Hn].
      * left. exists q, s'. split; [lia|exact Hs].
      * right. intros q Hq. destruct (Nat.eq_dec q n) as [->|]; [exact E|].
        apply Hn. lia.
Qed.

Lemma all_enabled_app s a : forall b,
  all_enabled s a -> all_enabled (run C s a) b -> all_enabled s (a ++ b).
Proof.
  revert s. induction a as [|p r IH]; intros s b Ha Hb; simpl in *; [exact Hb|].
  destruct Ha as [s' [Hs Ha]]. exists s'. split; [exact Hs|].
  apply IH; [exact Ha|]. unfold step_or_stay in Hb. rewrite Hs in Hb. exact Hb.
Qed.

(* a maximal schedule exists from every state with finitely many active
   processes: keep stepping, the measure runs out *)
Lemma maximal_exists n : forall m s,
  measure n s <= m -> idle_beyond n s -> exists sched, maximal s sched.
Proof.
  induction m as [|m IH]; intros s Hm Hi.
  - exists []. split; [exact I|]. intros q. simpl.
    destruct (step C s q) as [s'|] eqn:E; [|reflexivity].
    pose proof (step_measure _ _ _ _ Hi E). lia.
  - destruct (enabled_dec n s) as [[q [s' [Hq Hs]]]|Hn].
    + pose proof (step_measure _ _ _ _ Hi Hs) as Hd.
      destruct (step_idle_beyond _ _ _ _ Hi Hs) as [_ Hi'].
      destruct (IH s' ltac:(lia) Hi') as [sched [Ha Hmx]].
      exists (q :: sched). split.
      * simpl. exists s'. auto.
      * intros q'. simpl. unfold step_or_stay. rewrite Hs. apply Hmx.
    + exists []. split; [exact I|]. intros q. simpl.
      destruct (le_lt_dec n q) as [Hle|Hlt]; [|apply Hn; exact Hlt].
      destruct (step C s q) as [s'|] eqn:E; [|reflexivity].
      destruct (step_idle_beyond _ _ _ _ Hi E). lia.
Qed.

(* with no_deadlock: nobody can move => everybody has finished *)
Hypothesis HC : disciplined C.

Lemma stuck_finished s :
  Inv C s -> (forall q, step C s q = None) -> forall p, finished (procs s p).
Proof.
  intros HI Hst p. unfold finished.
  destruct (cur (procs s p)) as [x|] eqn:Ec.
  - exfalso. destruct (no_deadlock C HC s HI) as [q Hq].
    + exists p. intros [A _]. congruence.
    + apply Hq. apply Hst.
  - destruct (todo (procs s p)) as [|o t] eqn:Et; [auto|].
    exfalso. destruct (no_deadlock C HC s HI) as [q Hq].
    + exists p. intros [_ B]. congruence.
    + apply Hq. apply Hst.
Qed.

Lemma maximal_run_completes progs sched :
  maximal (init progs) sched ->
  (forall p, finished (procs (run C (init progs) sched) p)) /\
  length sched = measure (length progs) (init progs).
Proof.
  intros [Ha Hst]. split.
  - apply stuck_finished; [|exact Hst]. apply run_inv; [exact HC|apply init_inv].
  - destruct (enabled_run_measure _ _ _ (init_idle_beyond progs) Ha)
      as [E _].
    assert (Z : measure (length progs) (run C (init progs) sched) = 0).
    { pose proof (stuck_finished _ (run_inv C HC sched _ (init_inv C progs))
                                 Hst) as Hf.
      unfold measure. clear E.
      induction (length progs) as [|n IHn]; [reflexivity|]. simpl.
      rewrite IHn. destruct (Hf n) as [A B]. unfold pwork.
      rewrite A, B. reflexivity. }
    lia.
Qed.

End Term.
