(* C10 - bounded number of moves, and "can always be driven to the end". *)
From Coq Require Import String List Bool Arith Lia.
From SK Require Import Model.Skel Model.Lifecycle Spec.Lifecycle
     Proofs.Lifecycle Proofs.LifecycleInv Proofs.LifecycleProgress
     Proofs.LifecycleThm Proofs.LifecycleMeasure.
Import ListNotations.
Local Open Scope list_scope.

Lemma run_app f c a : forall b s, run f c (a ++ b) s = run f c b (run f c a s).
Proof. induction a as [|x a IH]; intros b s; simpl; [reflexivity|apply IH]. Qed.

Lemma moves_bounded f c (Hok : facts_ok f = true) sched : forall s,
  Inv f c s -> moves f c sched s <= measure c s.
Proof.
  induction sched as [|a r IH]; intros s HI; simpl; [lia|].
  destruct (step f c s a) as [s'|] eqn:E.
  - pose proof (step_decreases f c s a s' HI E).
    pose proof (IH s' (step_inv f c Hok s a s' HI E)). lia.
  - apply IH. exact HI.
Qed.

(* as long as no lock is orphaned the run can always be completed *)
Lemma terminable_aux f c (Hok : facts_ok f = true) :
  plan_raises c -> 1 <= c_workers c -> forall m s, measure c s <= m -> Inv f c s ->
  s_store s <> Some ODead -> s_coll s <> Some ODead ->
  exists sched, final (run f c sched s) = true.
Proof.
  intros Hpl HW. induction m as [|m IH]; intros s Hm HI Hs Hc.
  - destruct (final s) eqn:F; [exists []; exact F|].
    destruct (progress f c s HI (raise_no_dead_owner f c s HI Hpl Hs)
                       (coll_not_dead f c s HI Hc) HW F) as [a Ha].
    unfold enabledb in Ha. destruct (step f c s a) as [s'|] eqn:E; [|discriminate].
    pose proof (step_decreases f c s a s' HI E). lia.
  - destruct (final s) eqn:F; [exists []; exact F|].
    destruct (progress f c s HI (raise_no_dead_owner f c s HI Hpl Hs)
                       (coll_not_dead f c s HI Hc) HW F) as [a Ha].
    unfold enabledb in Ha. destruct (step f c s a) as [s'|] eqn:E; [|discriminate].
    pose proof (step_decreases f c s a s' HI E) as D.
    destruct (IH s' ltac:(lia) (step_inv f c Hok s a s' HI E)) as [sched Hf].
    + intros Q. apply Hs. eapply step_store_dead; eassumption.
    + intros Q. apply Hc. eapply step_coll_dead; eassumption.
    + exists (a :: sched). simpl. unfold step'. rewrite E. exact Hf.
Qed.

(* with the forced release every run can be completed, whatever the fault *)
Lemma terminable_freed f c (Hok : facts_ok f = true) :
  f_fin_free f = true -> 1 <= c_workers c ->
  forall m s, measure c s <= m -> Inv f c s ->
  s_store s <> Some ODead -> s_coll s <> Some ODead ->
  exists sched, final (run f c sched s) = true.
Proof.
  intros Hff HW. induction m as [|m IH]; intros s Hm HI Hs Hc.
  - destruct (final s) eqn:F; [exists []; exact F|].
    destruct (always_can_move f c s HI Hff HW Hs Hc F) as [a Ha].
    unfold enabledb in Ha. destruct (step f c s a) as [s'|] eqn:E; [|discriminate].
    pose proof (step_decreases f c s a s' HI E). lia.
  - destruct (final s) eqn:F; [exists []; exact F|].
    destruct (always_can_move f c s HI Hff HW Hs Hc F) as [a Ha].
    unfold enabledb in Ha. destruct (step f c s a) as [s'|] eqn:E; [|discriminate].
    pose proof (step_decreases f c s a s' HI E) as D.
    destruct (IH s' ltac:(lia) (step_inv f c Hok s a s' HI E)) as [sched Hf].
    + intros Q. apply Hs. eapply step_store_dead; eassumption.
    + intros Q. apply Hc. eapply step_coll_dead; eassumption.
    + exists (a :: sched). simpl. unfold step'. rewrite E. exact Hf.
Qed.
