(* C04 - interpreting the expected trees of Model/SinceSeekSk.v over the model
   state gives exactly the model functions of Model/SinceSeek.v, for all
   inputs.  Props/C04.v instantiates the trees and the extracted pieces with
   the generated ones (Gen/SkelTree.v, Gen/XSeek.v). *)
From Coq Require Import String ZArith List Bool Lia.
From SK Require Import Model.Base Model.Skel Model.Stm Model.SequenceSk
     Model.Seek Model.SinceSeek Model.SinceSeekSk.
Import ListNotations.
Open Scope Z_scope.

(* apply_to_file: every handler seeks where the model says *)
Lemma ap_interp_correct c pos0 o :
  ap_interp expected_seek_sites (lenZ c) pos0 o true [expected_apply_try]
  = position_of c o.
Proof.
  destruct o; cbn; rewrite ?Z.add_0_r; reflexivity.
Qed.

(* destructive=False: success seeks back to where the file was, the give-up
   handlers seek as before *)
Lemma ap_interp_correct_nd c pos0 o :
  ap_interp expected_seek_sites (lenZ c) pos0 o false [expected_apply_try]
  = position_of_nd c pos0 o.
Proof.
  destruct o; cbn; rewrite ?Z.add_0_r; reflexivity.
Qed.

(* run: probe, shortcut, bisect, raises *)
Lemma rn_interp_correct H A L W tsw c since pos0 probe_args slf cmp :
  probe_args (lenZ c) = (lenZ c, None, false) ->
  slf = -1 ->
  (forall d s, cmp d s = (s <=? d)) ->
  rn_interp H A L W tsw c since pos0 probe_args slf cmp expected_run
  = run H A L W tsw c since pos0.
Proof.
  intros Hargs -> Hcmp. unfold rn_interp, run. cbv zeta.
  cbn [expected_run interp_list interp is_call existsb String.eqb
       Ascii.eqb Bool.eqb rn_call count count_list cadd c0 fst snd orb].
  rewrite Hargs.
  set (B := bisect H A L W tsw c (S (Z.to_nat (lenZ c))) since st0 0 (lenZ c)).
  clearbody B.
  set (T := try_find_line_with_date H A L W tsw c (lenZ c) None false).
  clearbody T.
  unfold rn_guard, rn_date0.
  set (D := logline_date tsw W c (Found (-1))). clearbody D.
  destruct T as [l0| | |]; cbn; try reflexivity.
  - (* WdLine l0 *)
    destruct (ll_truthy l0 &&
              match ll_date W tsw c l0 with Some _ => false | None => true end);
      cbn; [reflexivity|].
    destruct D as [d|]; cbn.
    + rewrite Hcmp. destruct (since <=? d); cbn; [reflexivity|].
      destruct B as [r [fa [l|]]|[fa li]| | |]; cbn; try reflexivity.
      * destruct (ll_truthy l); reflexivity.
      * destruct fa; reflexivity.
    + destruct B as [r [fa [l|]]|[fa li]| | |]; cbn; try reflexivity.
      * destruct (ll_truthy l); reflexivity.
      * destruct fa; reflexivity.
  - (* WdNone *)
    destruct D as [d|]; cbn.
    + rewrite Hcmp. destruct (since <=? d); cbn; [reflexivity|].
      destruct B as [r [fa [l|]]|[fa li]| | |]; cbn; try reflexivity.
      * destruct (ll_truthy l); reflexivity.
      * destruct fa; reflexivity.
    + destruct B as [r [fa [l|]]|[fa li]| | |]; cbn; try reflexivity.
      * destruct (ll_truthy l); reflexivity.
      * destruct fa; reflexivity.
Qed.

(* __getitem__: backwards, else forwards, raise when both fail, line_info
   recorded only when the date is >= since *)
Lemma gi_interp_correct H A L W tsw c since st offset cmp :
  (forall d s, cmp d s = (s <=? d)) ->
  gi_interp H A L W tsw c since st offset expected_getitem_args cmp
            expected_getitem
  = getitem H A L W tsw c since st offset.
Proof.
  intros Hcmp. unfold gi_interp, getitem.
  cbn [expected_getitem expected_getitem_args interp_list interp is_call
       existsb String.eqb Ascii.eqb Bool.eqb gi_call count count_list cadd c0
       fst snd orb nth_error].
  set (T1 := try_find_line_with_date H A L W tsw c offset None false).
  clearbody T1.
  pose (T2 := try_find_line_with_date H A L W tsw c (offset + 1) None true).
  assert (E2 : try_find_line_with_date H A L W tsw c (offset + 1) None true = T2)
    by reflexivity.
  clearbody T2.
  unfold gi_guard.
  destruct T1 as [l1| | |]; cbn; try reflexivity.
  - destruct (negb (ll_truthy l1) ||
              match ll_date W tsw c l1 with Some _ => false | None => true end)
      eqn:U1; cbn; rewrite ?E2.
    + destruct T2 as [l2| | |]; cbn; try reflexivity.
      destruct (negb (ll_truthy l2) ||
                match ll_date W tsw c l2 with Some _ => false | None => true end)
        eqn:U2; cbn; [reflexivity|].
      destruct (ll_date W tsw c l2) as [d|]; [|reflexivity].
      rewrite Hcmp. reflexivity.
    + rewrite U1. cbn. destruct (ll_date W tsw c l1) as [d|]; [|reflexivity].
      rewrite Hcmp. reflexivity.
  - rewrite ?E2. destruct T2 as [l2| | |]; cbn; try reflexivity.
    destruct (negb (ll_truthy l2) ||
              match ll_date W tsw c l2 with Some _ => false | None => true end)
      eqn:U2; cbn; [reflexivity|].
    destruct (ll_date W tsw c l2) as [d|]; [|reflexivity].
    rewrite Hcmp. reflexivity.
Qed.
