(* CAPSTONE, bridge (B3): a byte position that is a line boundary - the only
   kind of position a file-level constraint can leave the file at (C11) -
   cuts the LINES of the file: iterating the descriptor from that byte
   yields exactly the lines of the file from index [lines_before] on.
   Rests on Proofs/Lines.v [split_lines_app_lf], [split_lines_concat],
   [split_lines_wf]. *)
From Coq Require Import ZArith List Bool Lia Arith.
From SK Require Import Model.Base Model.Seek Model.SinceSeek Model.Lines
     Proofs.Lines Spec.Lines Proofs.SinceSeek Model.Run.
Import ListNotations.
Open Scope Z_scope.

Lemma skipn_length_app {A} (l1 l2 : list A) :
  skipn (length l1) (l1 ++ l2) = l2.
Proof. induction l1 as [|x l1 IH]; [reflexivity|exact IH]. Qed.

Lemma skipn_past_middle {A} (l1 : list A) x l2 :
  skipn (S (length l1)) (l1 ++ x :: l2) = l2.
Proof. induction l1 as [|y l1 IH]; [reflexivity|exact IH]. Qed.

Lemma lines_before_0 ls : lines_before ls 0 = 0%nat.
Proof. destruct ls; reflexivity. Qed.

(* after a whole number of (non-empty) lines, that many lines begin before *)
Lemma lines_before_app ls1 ls2 :
  Forall (fun l : list Z => l <> []) ls1 ->
  lines_before (ls1 ++ ls2) (length (concat ls1)) = length ls1.
Proof.
  induction ls1 as [|l r IH]; intros Hne.
  - cbn [app concat length]. apply lines_before_0.
  - inversion Hne as [|? ? Hl Hr]; subst.
    cbn [app concat lines_before length]. rewrite app_length.
    destruct l as [|x l']; [congruence|].
    destruct (length (x :: l') + length (concat r))%nat as [|m] eqn:E;
      [cbn [length] in E; lia|].
    f_equal. rewrite <- (IH Hr). f_equal. lia.
Qed.

Lemma split_lines_nonempty c :
  Forall (fun l : list Z => l <> []) (split_lines c).
Proof.
  eapply Forall_impl; [|apply split_lines_wf]. intros l [Hl _]. exact Hl.
Qed.

(* the byte after a line feed *)
Lemma bridge_after_lf a b :
  skipn (lines_before (split_lines (a ++ LF :: b)) (S (length a)))
        (split_lines (a ++ LF :: b)) = split_lines b.
Proof.
  rewrite split_lines_app_lf.
  assert (E : length (concat (split_lines (a ++ [LF]))) = S (length a)).
  { rewrite split_lines_concat, app_length. cbn [length]. lia. }
  rewrite <- E, lines_before_app by apply split_lines_nonempty.
  apply skipn_length_app.
Qed.

(* the end of the file *)
Lemma bridge_at_end c :
  skipn (lines_before (split_lines c) (length c)) (split_lines c) = [].
Proof.
  pose proof (lines_before_app (split_lines c) [] (split_lines_nonempty c))
    as E.
  rewrite app_nil_r, split_lines_concat in E. rewrite E. apply skipn_all.
Qed.

(* THE BRIDGE: for a line boundary [p] (0, the end of the file, or the byte
   after a line feed), what the descriptor yields from byte [p] on is the
   suffix of the file's lines that starts with the first line beginning at
   or after [p] *)
Theorem boundary_cuts_lines c p :
  is_line_boundary c p ->
  lines_from c (Z.to_nat p) =
  skipn (lines_before (split_lines c) (Z.to_nat p)) (split_lines c).
Proof.
  intros [->|[->|[H0 Hn]]]; unfold lines_from.
  - cbn [Z.to_nat]. rewrite lines_before_0. reflexivity.
  - unfold lenZ. rewrite Nat2Z.id, skipn_all, bridge_at_end. reflexivity.
  - set (n := Z.to_nat (p - 1)) in *.
    assert (Hp : Z.to_nat p = S n) by (unfold n; lia).
    assert (Hlt : (n < length c)%nat).
    { destruct (Nat.lt_ge_cases n (length c)) as [|Hge]; [assumption|].
      rewrite nth_overflow in Hn by exact Hge. discriminate. }
    destruct (nth_split c 0 Hlt) as (l1 & l2 & Ec & El).
    rewrite Hn in Ec. rewrite Hp, Ec, <- El.
    change 10 with LF. rewrite bridge_after_lf, skipn_past_middle.
    reflexivity.
Qed.

(* composed with C11: every position apply_to_file can leave a freshly
   opened file at cuts the lines *)
Theorem seek_position_cuts_lines H A L W tsw c since p :
  0 < H -> 0 < A ->
  apply_to_file H A L W tsw c since 0 = Some p ->
  lines_from c (Z.to_nat p) =
  skipn (lines_before (split_lines c) (Z.to_nat p)) (split_lines c).
Proof.
  intros HH HA E. apply boundary_cuts_lines.
  exact (position_is_line_boundary H A L W tsw c HH HA since p E).
Qed.

(* the suffix is a suffix: the lines searched are whole lines of the file,
   and the lines skipped account for exactly the bytes before [p] *)
Theorem boundary_cuts_lines_exact c p :
  is_line_boundary c p ->
  let k := lines_before (split_lines c) (Z.to_nat p) in
  split_lines c = firstn k (split_lines c) ++ lines_from c (Z.to_nat p) /\
  concat (firstn k (split_lines c)) = firstn (Z.to_nat p) c.
Proof.
  intros Hb k. pose proof (boundary_cuts_lines c p Hb) as E.
  fold k in E. split.
  - rewrite E. symmetry. apply firstn_skipn.
  - pose proof (split_lines_concat c) as Hc.
    rewrite <- (firstn_skipn k (split_lines c)), <- E, concat_app in Hc.
    unfold lines_from in Hc. rewrite split_lines_concat in Hc.
    apply (app_inv_tail (skipn (Z.to_nat p) c)).
    rewrite Hc. symmetry. apply firstn_skipn.
Qed.
