(* C03 x C07: a sequence machine started at line number [k] instead of 0
   reports what the machine started at 0 reports, every line number moved
   by [k].  Needed to say what a CONSTRAINED sequence definition reports:
   its handler sees the lines from its activation line on with their
   ORIGINAL numbers (Proofs/TaskLoop.v [visible]). *)
From Coq Require Import ZArith List Bool Lia Arith.
From SK Require Import Model.Base Model.Sequence Spec.Sequence Proofs.Sequence.
Import ListNotations.
Open Scope Z_scope.

Definition shift_item (k : Z) (i : item) : item :=
  (fst (fst i) + k, snd (fst i), snd i).
Definition shift_part (k : Z) (p : part) : part := (fst p, shift_item k (snd p)).
Definition shift_state (k : Z) (st : sstate) : sstate :=
  (fst st, map (shift_part k) (snd st)).

Lemma filter_shift k s ps :
  filter (keep_other s) (map (shift_part k) ps) =
  map (shift_part k) (filter (keep_other s) ps).
Proof.
  induction ps as [|p r IH]; [reflexivity|].
  cbn [map filter].
  change (keep_other s (shift_part k p)) with (keep_other s p).
  destruct (keep_other s p); cbn [map]; rewrite IH; reflexivity.
Qed.

Lemma apply_op_shift k ln acc o :
  apply_op (ln + k) (map (shift_part k) acc) o =
  map (shift_part k) (apply_op ln acc o).
Proof.
  destruct o as [s| |r s v]; cbn [apply_op].
  - apply filter_shift.
  - reflexivity.
  - rewrite map_app. reflexivity.
Qed.

Lemma apply_ops_shift k ln : forall ops acc,
  apply_ops (ln + k) ops (map (shift_part k) acc) =
  map (shift_part k) (apply_ops ln ops acc).
Proof.
  unfold apply_ops.
  induction ops as [|o r IH]; intros acc; [reflexivity|].
  cbn [fold_left]. rewrite apply_op_shift. apply IH.
Qed.

Lemma seq_step_shift stepf k sh st ln c :
  seq_step_with stepf sh (shift_state k st) (ln + k) c =
  shift_state k (seq_step_with stepf sh st ln c).
Proof.
  unfold seq_step_with, shift_state. cbn [fst snd].
  destruct (stepf sh (fst st) c) as [k' ops]. cbn [fst snd].
  rewrite apply_ops_shift. reflexivity.
Qed.

Lemma seq_loop_shift stepf k sh : forall cl st ln,
  seq_loop_with stepf sh (shift_state k st) (ln + k) cl =
  (shift_state k (fst (seq_loop_with stepf sh st ln cl)),
   snd (seq_loop_with stepf sh st ln cl) + k).
Proof.
  induction cl as [|c r IH]; intros st ln; [reflexivity|].
  cbn [seq_loop_with].
  replace (ln + k + 1) with (ln + 1 + k) by lia.
  rewrite seq_step_shift. apply IH.
Qed.

Lemma seq_eof_shift k sh st ln :
  seq_eof sh (shift_state k st) (ln + k) =
  map (shift_part k) (seq_eof sh st ln).
Proof.
  unfold seq_eof, shift_state. cbn [fst snd].
  destruct (started (fst st) && has_end sh); [|reflexivity].
  destruct (end_empty sh) as [v|].
  - rewrite map_app. cbn [map shift_part shift_item fst snd].
    replace (ln + k + 1) with (ln + 1 + k) by lia. reflexivity.
  - apply filter_shift.
Qed.

(* the machine of one definition started at line number [k] *)
Definition seq_run_from (sh : shape) (k : Z) (cl : list cline) : list part :=
  let '(st, ln) := seq_loop sh init_state k cl in seq_eof sh st ln.

Lemma seq_run_from_shift sh k cl :
  seq_run_from sh k cl = map (shift_part k) (seq_run sh cl).
Proof.
  unfold seq_run_from, seq_run, seq_run_with, seq_loop.
  pose proof (seq_loop_shift ctl_step k sh cl init_state 0) as E.
  change (shift_state k init_state) with init_state in E.
  cbn [Z.add] in E. rewrite E.
  destruct (seq_loop_with ctl_step sh init_state 0 cl) as [st ln].
  cbn [fst snd]. apply seq_eof_shift.
Qed.

(* grouping by section id does not look at line numbers *)
Lemma alist_add_shift k s x : forall g : list (nat * list item),
  alist_add s (shift_item k x)
            (map (fun e => (fst e, map (shift_item k) (snd e))) g) =
  map (fun e => (fst e, map (shift_item k) (snd e))) (alist_add s x g).
Proof.
  induction g as [|[s' l] r IH]; [reflexivity|].
  cbn [map alist_add fst snd].
  destruct (Nat.eqb s' s).
  - cbn [map fst snd]. rewrite map_app. reflexivity.
  - cbn [map fst snd]. rewrite IH. reflexivity.
Qed.

Lemma group_shift k : forall ps g,
  fold_left (fun g p => alist_add (fst p) (snd p) g)
            (map (shift_part k) ps)
            (map (fun e => (fst e, map (shift_item k) (snd e))) g) =
  map (fun e => (fst e, map (shift_item k) (snd e)))
      (fold_left (fun g p => alist_add (fst p) (snd p) g) ps g).
Proof.
  induction ps as [|p r IH]; intros g; [reflexivity|].
  cbn [map fold_left]. cbn [shift_part fst snd].
  rewrite alist_add_shift. apply IH.
Qed.

Lemma report_shift k ps :
  report (map (shift_part k) ps) = map (map (shift_item k)) (report ps).
Proof.
  unfold report, group_by_section.
  pose proof (group_shift k ps []) as E. cbn [map] in E. rewrite E.
  rewrite !map_map. reflexivity.
Qed.

(* C03 for a machine started at [k]: the sections of the spec, line numbers
   moved by [k] *)
Theorem sequence_exact_report_from sh k cl :
  report (seq_run_from sh k cl) =
  map (map (shift_item k)) (spec_report sh cl).
Proof.
  rewrite seq_run_from_shift, report_shift, sequence_exact_report.
  reflexivity.
Qed.
