(* _flush_results_buffer / push: nothing lost, nothing duplicated, batches of
   1..MAX elements.  Generic in the result type. *)
From Coq Require Import ZArith List Bool Lia Arith.
From SK Require Import Model.Task.
Import ListNotations.
Open Scope Z_scope.

Section Flush.
  Variable R : Type.

  Definition batch_ok (MAX : Z) (b : list R) : Prop :=
    1 <= Z.of_nat (length b) <= MAX.

  (* everything the task has produced so far, in production order *)
  Definition out (st : tstate R) : list R := concat (t_coll st) ++ t_buf st.

  Definition Inv (MAX : Z) (st : tstate R) : Prop :=
    t_div st = false /\ Forall (batch_ok MAX) (t_coll st).

  Lemma pop_n_spec : forall n (buf : list R),
    pop_n R n buf = (skipn n buf, (length buf <? n)%nat).
  Proof.
    induction n as [|n IH]; intros buf.
    - simpl. reflexivity.
    - destruct buf as [|x t]; simpl.
      + reflexivity.
      + rewrite IH. reflexivity.
  Qed.

  Lemma flush_loop_nil : forall fuel limit coll,
    flush_loop R fuel limit [] coll = ([], coll, false).
  Proof. intros fuel; destruct fuel; reflexivity. Qed.

  Lemma flush_loop_spec : forall fuel limit (buf : list R) coll,
    1 <= limit -> (length buf < fuel)%nat ->
    exists bs,
      flush_loop R fuel limit buf coll = ([], coll ++ bs, false) /\
      concat bs = buf /\ Forall (batch_ok limit) bs.
  Proof.
    induction fuel as [|fuel IH]; intros limit buf coll Hl Hf.
    - lia.
    - destruct buf as [|x t].
      + exists []. simpl. rewrite app_nil_r. auto.
      + cbn [flush_loop]. rewrite pop_n_spec.
        remember (x :: t) as buf eqn:Eb.
        assert (Hlen : (1 <= length buf)%nat) by (subst buf; simpl; lia).
        assert (Hn : (1 <= Z.to_nat limit)%nat) by lia.
        destruct (length buf <? Z.to_nat limit)%nat eqn:E.
        * apply Nat.ltb_lt in E.
          rewrite skipn_all2 by lia. rewrite flush_loop_nil.
          exists [buf]. split; [|split].
          -- unfold py_slice_to.
             destruct (0 <=? limit) eqn:E0; [|lia].
             rewrite firstn_all2 by lia. reflexivity.
          -- simpl. apply app_nil_r.
          -- constructor; [|constructor]. unfold batch_ok. lia.
        * apply Nat.ltb_ge in E.
          destruct (IH limit (skipn (Z.to_nat limit) buf)
                       (coll ++ [py_slice_to R buf limit]) Hl)
            as [bs [H1 [H2 H3]]].
          { rewrite skipn_length. lia. }
          exists (py_slice_to R buf limit :: bs).
          unfold py_slice_to in *.
          destruct (0 <=? limit) eqn:E0; [|lia].
          split; [|split].
          -- rewrite H1. rewrite <- app_assoc. reflexivity.
          -- simpl. rewrite H2. apply firstn_skipn.
          -- constructor; [|exact H3]. unfold batch_ok.
             rewrite firstn_length. lia.
  Qed.

  Lemma flush_spec : forall MAX (st : tstate R),
    1 <= MAX -> t_div st = false ->
    exists bs,
      flush R MAX st = mkT [] (t_coll st ++ bs) false /\
      concat bs = t_buf st /\ Forall (batch_ok MAX) bs.
  Proof.
    intros MAX st HM Hd. unfold flush. rewrite Hd.
    destruct (flush_loop_spec (S (length (t_buf st))) MAX (t_buf st)
                              (t_coll st) HM) as [bs [H1 [H2 H3]]].
    { lia. }
    exists bs. rewrite H1. auto.
  Qed.

  Lemma flush_inv : forall MAX (st : tstate R),
    1 <= MAX -> Inv MAX st ->
    Inv MAX (flush R MAX st) /\ out (flush R MAX st) = out st /\
    t_buf (flush R MAX st) = [].
  Proof.
    intros MAX st HM [Hd Hc].
    destruct (flush_spec MAX st HM Hd) as [bs [H1 [H2 H3]]].
    rewrite H1. unfold Inv, out. simpl. split; [split|split].
    - reflexivity.
    - apply Forall_app. split; assumption.
    - rewrite concat_app, H2, app_nil_r. reflexivity.
    - reflexivity.
  Qed.

  Lemma push_inv : forall MAX NBUF (st : tstate R) r,
    1 <= MAX -> Inv MAX st ->
    Inv MAX (push R MAX NBUF st r) /\
    out (push R MAX NBUF st r) = out st ++ [r].
  Proof.
    intros MAX NBUF st r HM [Hd Hc]. unfold push. rewrite Hd.
    set (st' := mkT (t_buf st ++ [r]) (t_coll st) false).
    assert (Hi : Inv MAX st') by (split; [reflexivity|exact Hc]).
    assert (Ho : out st' = out st ++ [r]).
    { unfold out, st'. simpl. apply app_assoc. }
    destruct (NBUF <=? Z.of_nat (length (t_buf st ++ [r]))).
    - destruct (flush_inv MAX st' HM Hi) as [H1 [H2 _]].
      split; [exact H1|]. rewrite H2. exact Ho.
    - split; assumption.
  Qed.

  Lemma pushes_inv : forall MAX NBUF rs (st : tstate R),
    1 <= MAX -> Inv MAX st ->
    Inv MAX (fold_left (push R MAX NBUF) rs st) /\
    out (fold_left (push R MAX NBUF) rs st) = out st ++ rs.
  Proof.
    intros MAX NBUF rs. induction rs as [|r rs IH]; intros st HM Hi.
    - simpl. rewrite app_nil_r. auto.
    - simpl. destruct (push_inv MAX NBUF st r HM Hi) as [H1 H2].
      destruct (IH _ HM H1) as [H3 H4]. split; [exact H3|].
      rewrite H4, H2, <- app_assoc. reflexivity.
  Qed.

  (* with MAX <= 0 the loop spins on any non-empty buffer (hence the
     hypothesis 1 <= MAX everywhere above) *)
  Lemma flush_loop_spins : forall fuel limit (buf : list R) coll,
    limit <= 0 -> buf <> [] ->
    exists b c, flush_loop R fuel limit buf coll = (b, c, true).
  Proof.
    induction fuel as [|fuel IH]; intros limit buf coll Hl Hb.
    - destruct buf; [congruence|]. simpl. eauto.
    - destruct buf as [|x t]; [congruence|].
      cbn [flush_loop]. replace (Z.to_nat limit) with O by lia.
      cbn [pop_n]. apply IH; [lia|discriminate].
  Qed.
End Flush.

Arguments batch_ok {R}.
Arguments out {R}.
Arguments Inv {R}.
