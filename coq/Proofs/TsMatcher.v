(* Interpreters of the extracted TimestampMatcherBase programs vs the
   hand-written model: generic lemmas with semantic hypotheses that
   Props/TsMatcher.v discharges for the programs in Gen/XTsmatcher.v. *)
From Coq Require Import Ascii String ZArith List Bool Lia.
From SK Require Import Model.Dates Model.TsMatcher.
Import ListNotations.
Open Scope string_scope.
Open Scope list_scope.
Open Scope Z_scope.

(* ------------------------------------------------------------ __init__ *)
Section InitProofs.
  Variable M : Type.
  Variable body : list (iguard * iact).

  (* one pass through the loop body, entered with self.result = None:
     a pattern that matches at the start sets the result and leaves the
     loop; any other pattern leaves the result alone and does not *)
  Hypothesis H_body : forall (p : pat_out M) (r0 : option M),
    let s' := exec_body M body p (IS M (Some None) r0 CNormal) in
    match at_start p with
    | Some m => i_result M s' = Some (Some m) /\ i_ctl M s' = CBroke
    | None => i_result M s' = Some None /\ i_ctl M s' <> CBroke
    end.

  Lemma exec_loop_first : forall (pats : list (pat_out M)) (s : ist M),
    i_result M s = Some None ->
    i_result M (exec_loop M body pats s)
    = Some (first_some (map at_start pats)).
  Proof.
    induction pats as [|p r IH]; intros s Hs.
    - cbn. exact Hs.
    - cbn [exec_loop map first_some]. rewrite Hs.
      pose proof (H_body p (i_ret M s)) as Hb. cbv zeta in Hb.
      destruct (at_start p) as [m|].
      + destruct Hb as [Hr Hc]. rewrite Hc. exact Hr.
      + destruct Hb as [Hr Hc].
        destruct (i_ctl M (exec_body M body p
                    (IS M (Some None) (i_ret M s) CNormal))) eqn:E;
          try (apply IH; exact Hr).
        exfalso. apply Hc. reflexivity.
  Qed.
End InitProofs.

Lemma exec_init_first M (prog : init_prog) :
  (forall s, i_result M (exec_pre M (ip_pre prog) s) = Some None) ->
  (forall (p : pat_out M) (r0 : option M),
    let s' := exec_body M (ip_body prog) p (IS M (Some None) r0 CNormal) in
    match at_start p with
    | Some m => i_result M s' = Some (Some m) /\ i_ctl M s' = CBroke
    | None => i_result M s' = Some None /\ i_ctl M s' <> CBroke
    end) ->
  forall pats : list (pat_out M), exec_init prog pats = Some (ts_result pats).
Proof.
  intros Hpre Hbody pats. unfold exec_init, ts_result.
  apply exec_loop_first; [exact Hbody | apply Hpre].
Qed.

(* ------------------------------------------------------------ strptime *)
Lemma first_failure_ext (f g : string -> fval) (l : list string) :
  (forall k, f k = g k) -> first_failure (map f l) = first_failure (map g l).
Proof. intros H. rewrite (map_ext _ _ H). reflexivity. Qed.

Lemma eval_strptime_spec attrs groups (p : strp_prog) :
  sp_keys p = TS_KEYS ->
  sp_dest p = NRstripS ->
  (forall key, eval_key attrs groups p key = ts_field attrs groups key) ->
  eval_strptime attrs groups p = ts_fields attrs groups.
Proof.
  intros Hk Hd He. unfold eval_strptime, ts_fields, vals_of.
  rewrite Hk, Hd. rewrite (first_failure_ext _ _ TS_KEYS He).
  destruct (first_failure (map (ts_field attrs groups) TS_KEYS))
    as [[z| |]|]; try reflexivity.
  cbn. rewrite !He. reflexivity.
Qed.

(* ------------------------------------------------------------ line ops *)
Lemma decode_only_is_identity (line : list Z) :
  apply_line_ops [LDecodeIfBytes] line = line.
Proof. reflexivity. Qed.

(* a slice that cuts at [n] really loses characters of longer lines: the
   reason a program containing one cannot satisfy the theorem *)
Lemma slice_cuts (n : Z) (line : list Z) :
  0 <= n -> (Z.to_nat n < length line)%nat ->
  apply_line_ops [LSlice None (Some n)] line <> line.
Proof.
  intros Hn Hl. cbn. rewrite Z.sub_0_r. intros E.
  apply (f_equal (@length Z)) in E. rewrite firstn_length in E. lia.
Qed.
