From Coq Require Import ZArith List Bool Lia.
From SK Require Import Model.History.
Import ListNotations.
Open Scope Z_scope.

Section P.
  Variable content results : Type.
  Variable compute : content -> option Z.
  Variable fallback : content -> Z.
  Variable search : (Z -> bool) -> Z -> content -> results.
  Variable ends_open : (Z -> bool) -> Z -> content -> Z -> bool.

  Notation run1 := (run_one content results compute fallback search true true
                            ends_open).
  Notation hist := (run_history content results compute fallback search true
                                true ends_open).
  Notation cons_ := (consistent content compute).

  Lemma init_consistent files : cons_ files (init).
  Proof. intros p o H. discriminate. Qed.

  Lemma run_one_consistent files g k p :
    cons_ files k -> cons_ files (snd (run1 g k p (files p))).
  Proof.
    intros Hc. unfold run_one. destruct g.
    - unfold apply_to_file. destruct (c_cache k p) as [o|] eqn:E.
      + cbn. exact Hc.
      + destruct (compute (files p)) as [o|] eqn:Ec; cbn.
        * intros q o' H. cbn [c_cache] in H. destruct (q =? p) eqn:Eq.
          -- apply Z.eqb_eq in Eq. subst q. inversion H; subst o'. exact Ec.
          -- apply Hc. exact H.
        * exact Hc.
    - cbn. exact Hc.
  Qed.

  Lemma history_consistent files h : forall k,
    cons_ files k -> cons_ files (hist files k h).
  Proof.
    induction h as [|[g p] r IH]; intros k Hk; cbn [run_history].
    - exact Hk.
    - apply IH. apply run_one_consistent. exact Hk.
  Qed.

  (* with a consistent cache, a run's results do not depend on the state *)
  Lemma run_one_results files g k p :
    cons_ files k ->
    fst (run1 g k p (files p)) = fst (run1 g (init) p (files p)).
  Proof.
    intros Hc. unfold run_one. destruct g; [|reflexivity].
    unfold apply_to_file. cbn [init c_cache].
    destruct (c_cache k p) as [o|] eqn:E.
    - rewrite (Hc p o E). reflexivity.
    - destruct (compute (files p)); reflexivity.
  Qed.

  Theorem history_independent files h g p :
    fst (run1 g (hist files (init) h) p (files p))
    = fst (run1 g (init) p (files p)).
  Proof.
    apply run_one_results. apply history_consistent. apply init_consistent.
  Qed.
  Notation steps := (run_steps content results compute fallback search true
                               true ends_open).
  Notation sres := (step_results content results compute fallback search true
                                 true ends_open).

  Lemma steps_consistent files h : forall k,
    cons_ files k -> cons_ files (steps files k h).
  Proof.
    induction h as [|[g p|g ps] r IH]; intros k Hk; cbn [run_steps].
    - exact Hk.
    - apply IH. apply run_one_consistent. exact Hk.
    - apply IH. cbn. exact Hk.
  Qed.

  (* any mix of single-file and multi-file runs before it *)
  Theorem history_independent_steps files h s :
    sres files (steps files (init) h) s = sres files (init) s.
  Proof.
    pose proof (steps_consistent files h (init) (init_consistent files))
      as Hc.
    destruct s as [g p|g ps]; cbn [step_results run_mp fst].
    - f_equal. apply run_one_results. exact Hc.
    - apply map_ext. intros p. apply run_one_results. exact Hc.
  Qed.
End P.
