From Coq Require Import ZArith List Bool Lia.
From SK Require Import Model.History.
Import ListNotations.
Open Scope Z_scope.

Section P.
  Variable content results : Type.
  Variable compute : content -> option Z.
  Variable fallback : content -> Z.
  Variable search : (Z -> bool) -> Z -> content -> results.
  Variable ends_open : (Z -> bool) -> Z -> content -> Z -> bool.

  Notation run1 := (run_one content results compute fallback search true true
                            ends_open).
  Notation hist := (run_history content results compute fallback search true
                                true ends_open).
  Notation cons_ := (consistent content compute).

  Lemma init_consistent files : cons_ files (init).
  Proof. intros p o H. discriminate. Qed.

  Lemma run_one_consistent files g k p :
    cons_ files k -> cons_ files (snd (run1 g k p (files p))).
  Proof.
    intros Hc. unfold run_one. destruct g.
    - unfold apply_to_file. destruct (c_cache k p) as [o|] eqn:E.
      + cbn. exact Hc.
      + destruct (compute (files p)) as [o|] eqn:Ec; cbn.
        * intros q o' H. cbn [c_cache] in H. destruct (q =? p) eqn:Eq.
          -- apply Z.eqb_eq in Eq. subst q. inversion H; subst o'. exact Ec.
          -- apply Hc. exact H.
        * exact Hc.
    - cbn. exact Hc.
  Qed.

  Lemma history_consistent files h : forall k,
    cons_ files k -> cons_ files (hist files k h).
  Proof.
    induction h as [|[g p] r IH]; intros k Hk; cbn [run_history].
    - exact Hk.
    - apply IH. apply run_one_consistent. exact Hk.
  Qed.

  (* with a consistent cache, a run's results do not depend on the state *)
  Lemma run_one_results files g k p :
    cons_ files k ->
    fst (run1 g k p (files p)) = fst (run1 g (init) p (files p)).
  Proof.
    intros Hc. unfold run_one. destruct g; [|reflexivity].
    unfold apply_to_file. cbn [init c_cache].
    destruct (c_cache k p) as [o|] eqn:E.
    - rewrite (Hc p o E). reflexivity.
    - destruct (compute (files p)); reflexivity.
  Qed.

  Theorem history_independent files h g p :
    fst (run1 g (hist files (init) h) p (files p))
    = fst (run1 g (init) p (files p)).
  Proof.
    apply run_one_results. apply history_consistent. apply init_consistent.
  Qed.
  Notation steps := (run_steps content results compute fallback search true
                               true ends_open).
  Notation sres := (step_results content results compute fallback search true
                                 true ends_open).

  Lemma steps_consistent files h : forall k,
    cons_ files k -> cons_ files (steps files k h).
  Proof.
    induction h as [|[g p|g ps] r IH]; intros k Hk; cbn [run_steps].
    - exact Hk.
    - apply IH. apply run_one_consistent. exact Hk.
    - apply IH. cbn. exact Hk.
  Qed.

  (* any mix of single-file and multi-file runs before it *)
  Theorem history_independent_steps files h s :
    sres files (steps files (init) h) s = sres files (init) s.
  Proof.
    pose proof (steps_consistent files h (init) (init_consistent files))
      as Hc.
    destruct s as [g p|g ps]; cbn [step_results run_mp fst].
    - f_equal. apply run_one_results. exact Hc.
    - apply map_ext. intros p. apply run_one_results. exact Hc.
  Qed.
  (* ---- files that change between runs ----
     [ext c c'] : an allowed change (e.g. an append-only log growing by
     whole lines); allowed changes keep a FOUND position where it is *)
  Variable ext : content -> content -> Prop.
  Hypothesis found_stable : forall c c' o,
    ext c c' -> compute c = Some o -> compute c' = Some o.

  Notation events := (run_events content results compute fallback search true
                                 true ends_open).

  Lemma set_file_consistent files k p c :
    ext (files p) c -> cons_ files k -> cons_ (set_file content files p c) k.
  Proof.
    intros He Hc q o Hq. unfold set_file. destruct (q =? p) eqn:E.
    - apply Z.eqb_eq in E. subst q. eapply found_stable; [exact He|].
      apply Hc. exact Hq.
    - apply Hc. exact Hq.
  Qed.

  Lemma events_consistent h : forall files k,
    changes_ok content ext files h -> cons_ files k ->
    cons_ (fst (events files k h)) (snd (events files k h)).
  Proof.
    induction h as [|[s|p c] r IH]; intros files k Hok Hk;
      cbn [run_events changes_ok] in *.
    - exact Hk.
    - apply IH; [exact Hok|]. apply (steps_consistent files [s] k Hk).
    - destruct Hok as [He Hok]. apply IH; [exact Hok|].
      apply set_file_consistent; assumption.
  Qed.

  (* after any history of runs and allowed changes, a run gives what a
     fresh process gives ON THE FILES AS THEY ARE NOW *)
  Theorem history_independent_changing files h s :
    changes_ok content ext files h ->
    let '(files', k) := events files (init) h in
    sres files' k s = sres files' (init) s.
  Proof.
    intros Hok.
    pose proof (events_consistent h files (init) Hok (init_consistent files))
      as Hc.
    destruct (events files (init) h) as [files' k] eqn:E. cbn [fst snd] in Hc.
    destruct s as [g p|g ps]; cbn [step_results run_mp fst].
    - f_equal. apply run_one_results. exact Hc.
    - apply map_ext. intros p. apply run_one_results. exact Hc.
  Qed.
End P.

(* The allowed change used by the harness: an append-only, time-ordered log
   growing by whole lines.  At line granularity the seek's answer is the
   index of the first line whose timestamp is >= since. *)
Section Growth.
  Variable since : Z.
  Definition in_window (l : option Z) : bool :=
    match l with Some t => since <=? t | None => false end.

  Fixpoint first_in (i : Z) (ls : list (option Z)) : option Z :=
    match ls with
    | [] => None
    | l :: r => if in_window l then Some i else first_in (i + 1) r
    end.

  Definition grows (c c' : list (option Z)) : Prop := exists extra, c' = c ++ extra.

  Lemma first_in_app i c extra o :
    first_in i c = Some o -> first_in i (c ++ extra) = Some o.
  Proof.
    revert i. induction c as [|l r IH]; intros i; cbn [first_in app].
    - discriminate.
    - destruct (in_window l); [trivial|]. apply IH.
  Qed.

  Lemma growth_keeps_found c c' o :
    grows c c' -> first_in 0 c = Some o -> first_in 0 c' = Some o.
  Proof. intros [extra ->]. apply first_in_app. Qed.
End Growth.
