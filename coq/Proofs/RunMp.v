(* CAPSTONE 2: the composed multi-file run equals the multi-file
   specification, for every schedule of the hand-over pipeline that reaches
   the return of run().

   A composition of
     the single-file composition       Proofs/Run.v, Proofs/RunStream.v
        (C12, C04, C11, Lines, C01, C07, C17 task_counts_its_collection)
     C02  parallel_equals_sequential, sequential_spec, returned_complete
     C17  stats_exact (multi-file: any completion order)
     (M2) finish_order_permutation      Proofs/RunMpOrder.v
   The theorem needs NOTHING about how a task cuts its output into batches:
   C02 holds for every batch structure, only the concatenation matters (the
   batches fed to the pipeline are Task.execute's own batches, numbered). *)
From Coq Require Import ZArith List Bool Lia Arith Permutation.
From SK Require Import Model.Base Model.Seek Model.SinceSeek Model.Lines
     Model.Task Model.Stats Model.Gzip Model.Run Model.Pipeline Model.RunMp
     Spec.Lines Spec.C04 Spec.Task Spec.Stats Spec.Run Spec.Pipeline
     Spec.RunMp
     Proofs.TaskFlush Proofs.TaskLoop Proofs.TaskSimple Proofs.Stats
     Proofs.Compose Proofs.Gzip Proofs.Pipeline
     Proofs.RunBridge Proofs.RunStream Proofs.Run Proofs.RunMpOrder.
Import ListNotations.
Open Scope Z_scope.

(* ------------------------------------------------------------------ (M1) *)
Lemma concat_number_from {R} : forall (bs : list (list R)) i,
  concat (number_from i bs) =
  map Z.of_nat (seq i (length (concat bs))).
Proof.
  induction bs as [|b r IH]; intros i; [reflexivity|].
  cbn [number_from concat]. rewrite IH, app_length, seq_app, map_app.
  reflexivity.
Qed.

Lemma number_from_shape {R} : forall (bs : list (list R)) i,
  map (@length Z) (number_from i bs) = map (@length R) bs.
Proof.
  induction bs as [|b r IH]; intros i; [reflexivity|].
  cbn [number_from map]. rewrite IH, map_length, seq_length. reflexivity.
Qed.

Lemma decode_range {R} : forall (rs pre : list R),
  decode (pre ++ rs) (map Z.of_nat (seq (length pre) (length rs))) = rs.
Proof.
  induction rs as [|a rs IH]; intros pre; [reflexivity|].
  cbn [length seq map]. unfold decode in *. cbn [flat_map].
  rewrite Nat2Z.id, nth_error_app2, Nat.sub_diag by lia. cbn [nth_error app].
  f_equal. specialize (IH (pre ++ [a])).
  rewrite <- app_assoc, app_length in IH. cbn [app length] in IH.
  rewrite Nat.add_1_r in IH. exact IH.
Qed.

(* what travelled through the pipeline, read back, is the task's output *)
Lemma decode_numbered {R} (bs : list (list R)) (t : nat) :
  decode (concat bs)
         (map snd (map (pair t) (concat (number_from 0 bs)))) = concat bs.
Proof.
  rewrite map_map. cbn [snd]. rewrite map_id, concat_number_from.
  exact (decode_range (concat bs) []).
Qed.

(* ------------------------------------------------------------ list helpers *)
Lemma map_nth_seq {A} (d : A) : forall l,
  map (fun t => nth t l d) (seq 0 (length l)) = l.
Proof.
  induction l as [|a l IH]; [reflexivity|].
  cbn [length seq map nth]. f_equal. rewrite <- seq_shift, map_map.
  exact IH.
Qed.

Lemma map_indexed {A B} (f : nat * A -> B) (g : A -> B) : forall l i,
  (forall k a, nth_error l k = Some a -> f ((i + k)%nat, a) = g a) ->
  map f (combine (seq i (length l)) l) = map g l.
Proof.
  induction l as [|a l IH]; intros i Hf; [reflexivity|].
  cbn [length seq combine map]. f_equal.
  - rewrite <- (Nat.add_0_r i) at 1. apply Hf. reflexivity.
  - apply IH. intros k b Hk. rewrite Nat.add_succ_comm. apply Hf.
    exact Hk.
Qed.

Lemma is_returned_true p : is_returned p = true -> p = Returned.
Proof. destruct p; cbn; congruence. Qed.

(* find_by_path on the decoded collection *)
Lemma mp_find_map (g : nat -> list Pipeline.result -> list Task.result) :
  (forall t, g t [] = []) ->
  forall c t,
  mp_find t (map (fun pl => (fst pl, g (fst pl) (snd pl))) c) =
  g t (Pipeline.find_by_path t c).
Proof.
  intros Hg. induction c as [|[q l] c IH]; intros t; cbn; [symmetry; apply Hg|].
  destruct (Nat.eqb_spec q t) as [->|]; [reflexivity|apply IH].
Qed.

Lemma map_seq_nth_error {A B} (G : nat -> B) (g : A -> B) : forall l i,
  (forall k a, nth_error l k = Some a -> G (i + k)%nat = g a) ->
  map G (seq i (length l)) = map g l.
Proof.
  induction l as [|a l IH]; intros i Hf; [reflexivity|].
  cbn [length seq map]. f_equal.
  - rewrite <- (Nat.add_0_r i) at 1. apply Hf. reflexivity.
  - apply IH. intros k b Hk. rewrite Nat.add_succ_comm. apply Hf.
    exact Hk.
Qed.

(* gather *)
Definition done_of {R} (t : task_out R) : list (list R) * stats :=
  match t with TkDone bs s => (bs, s) | _ => ([], stats0) end.

Lemma gather_done {R A} (f : A -> task_out R) : forall l,
  (forall a, In a l -> exists bs s, f a = TkDone bs s) ->
  gather (map f l) = GDone (map (fun a => done_of (f a)) l).
Proof.
  induction l as [|a l IH]; intros Hd; [reflexivity|].
  cbn [map gather]. destruct (Hd a (or_introl eq_refl)) as (bs & s & E).
  rewrite E, IH by (intros b Hb; apply Hd; right; exact Hb). reflexivity.
Qed.

Section Mp.
  Variables H A L W : Z.
  Variable tsw : list Z -> option Z.
  Variable line : Type.
  Variable classify : list Z -> line.
  Variable omatch : Z -> line -> option (list Z).
  Variable ohint : Z -> line -> bool.
  Variable ocon : Z -> line -> outcome.
  Variables MAX NBUF : Z.
  Hypothesis HH : 0 < H.
  Hypothesis HA : 0 < A.
  Hypothesis HL : 0 < L.
  Hypothesis HMAX : 1 <= MAX.

  Notation exec := (simple_execute line omatch ohint ocon MAX NBUF).
  Notation ftask := (file_task H A L W tsw line classify omatch ohint ocon
                               MAX NBUF).
  Notation sfile := (spec_file W tsw line classify omatch ohint ocon).

  (* the hypotheses of E2E_single_file_run_exact, for one catalog entry *)
  Definition file_ok (since : option Z) (restrictions : list Z) (mf : mfile)
    : Prop :=
    wf (mf_file mf) /\ keys_ok s_key (mf_defs mf) /\
    (seeks since restrictions (map s_key (mf_defs mf)) = true ->
     seek_hyps H A L W tsw (stream (mf_file mf))) /\
    (forall d, In d (mf_defs mf) ->
       uniform line ocon (s_cons d)
               (searched W tsw line classify since restrictions
                         (map s_key (mf_defs mf)) (stream (mf_file mf)))).

  Definition lines_of since restrictions (mf : mfile) : list line :=
    searched W tsw line classify since restrictions (map s_key (mf_defs mf))
             (stream (mf_file mf)).

  (* the single-file composition, at the level of the task: what one worker
     hands over and reports *)
  Lemma file_task_exact since restrictions mf :
    file_ok since restrictions mf ->
    exists bs,
      ftask since restrictions mf =
        TkDone bs (task_stats (lines_of since restrictions mf) bs) /\
      simple_view (mf_defs mf) (concat bs) =
        fst (sfile since restrictions mf) /\
      snd (sfile since restrictions mf) =
        mkStats (Stats.lenZ (mf_defs mf)) [Stats.lenZ (mf_defs mf)]
                (Stats.lenZ (lines_of since restrictions mf)) 1 1
                (Stats.lenZ (concat bs)).
  Proof.
    intros (Hwf & Hk & Hs & Hu). unfold file_task, simple_stream.
    rewrite (execute_dispatch H A L W tsw line classify HH HA Task.result
               (simple_ids (mf_defs mf)) (exec (mf_defs mf))
               (simple_exec_nil line omatch ohint ocon MAX NBUF (mf_defs mf))
               since restrictions (mf_file mf) Hwf).
    rewrite <- (seeks_ids since restrictions (mf_defs mf)) in Hs.
    rewrite (stream_searched H A L W tsw line classify HH HA Task.result
               (simple_ids (mf_defs mf)) (exec (mf_defs mf)) since
               restrictions (stream (mf_file mf)) HL Hs).
    cbv zeta. rewrite searched_ids.
    fold (lines_of since restrictions mf).
    set (lines := lines_of since restrictions mf) in *.
    destruct (task_counts_its_collection line sdef unit Task.result s_key s_cons
                ocon (fun _ => tt) (simple_step line omatch ohint)
                (fun _ _ => []) MAX NBUF HMAX (mf_defs mf) lines)
      as (bs & E & _ & _).
    change (exec (mf_defs mf) lines = TaskOk bs) in E. rewrite E.
    cbn [lift]. exists bs. split; [reflexivity|].
    unfold spec_file, spec_run. fold (lines_of since restrictions mf).
    fold lines. cbn [fst snd]. split.
    - unfold simple_view. apply map_ext_in. intros d Hd. f_equal.
      exact (simple_results_exact line omatch ohint ocon MAX NBUF HMAX
               (mf_defs mf) lines d bs Hk Hd (Hu d Hd) E).
    - f_equal. symmetry.
      exact (simple_total line omatch ohint ocon MAX NBUF HMAX
               (mf_defs mf) lines bs Hk Hu E).
  Qed.

  (* ================================================== THE COMPOSITION *)
  Theorem multi_file_run_exact Q sched prev since restrictions files :
    (2 <= length files)%nat ->
    Forall (file_ok since restrictions) files ->
    drop_free sched = true ->
    mp_returned H A L W tsw line classify omatch ohint ocon MAX NBUF Q sched
                since restrictions files = true ->
    exists coll st,
      run_mp_files H A L W tsw line classify omatch ohint ocon MAX NBUF Q
                   sched prev since restrictions files = MpOk coll st /\
      (* under each path: that file's specified results *)
      (forall t mf, nth_error files t = Some mf ->
         simple_view (mf_defs mf) (mp_find t coll) =
         fst (sfile since restrictions mf)) /\
      (* nothing under any other path *)
      (forall p, (length files <= p)%nat -> mp_find p coll = []) /\
      (* the statistics; what lies under the files' paths is as much as
         stats['results'] says *)
      st = snd (spec_run_mp W tsw line classify omatch ohint ocon since
                            restrictions files) /\
      Stats.sumZ (map (fun t => Stats.lenZ (mp_find t coll))
                      (seq 0 (length files))) = st_results st.
  Proof.
    intros Hn Hok Hdf Hret. rewrite Forall_forall in Hok.
    set (l := map (fun mf => done_of (ftask since restrictions mf)) files).
    assert (Hg : file_tasks H A L W tsw line classify omatch ohint ocon MAX
                            NBUF since restrictions files = GDone l).
    { unfold file_tasks. apply gather_done. intros mf Hmf.
      destruct (file_task_exact since restrictions mf (Hok mf Hmf))
        as (bs & E & _). eauto. }
    unfold mp_returned, mp_final in Hret. rewrite Hg in Hret.
    apply is_returned_true in Hret.
    unfold run_mp_files. rewrite Hg. cbv zeta. rewrite Hret. cbn [is_returned].
    set (P := payloads l) in *.
    set (fin := Pipeline.run Q sched (init P)) in *.
    eexists. eexists. split; [reflexivity|].
    (* per-file facts *)
    assert (Hfile : forall t mf, nth_error files t = Some mf ->
              exists bs,
                nth_done l t = (bs, task_stats (lines_of since restrictions mf)
                                               bs) /\
                nth t P [] = number_from 0 bs /\
                simple_view (mf_defs mf) (concat bs) =
                  fst (sfile since restrictions mf) /\
                snd (sfile since restrictions mf) =
                  mkStats (Stats.lenZ (mf_defs mf)) [Stats.lenZ (mf_defs mf)]
                          (Stats.lenZ (lines_of since restrictions mf)) 1 1
                          (Stats.lenZ (concat bs))).
    { intros t mf Ht.
      destruct (file_task_exact since restrictions mf
                  (Hok mf (nth_error_In _ _ Ht))) as (bs & E & Hv & Hst).
      exists bs.
      assert (En : nth_done l t =
                   (bs, task_stats (lines_of since restrictions mf) bs)).
      { unfold nth_done, l. apply nth_error_nth.
        rewrite nth_error_map, Ht. cbn [option_map]. rewrite E. reflexivity. }
      split; [exact En|]. split; [|split; assumption].
      unfold P, payloads. unfold nth_done in En.
      apply nth_error_nth. rewrite nth_error_map.
      assert (El : nth_error l t =
                   Some (bs, task_stats (lines_of since restrictions mf) bs)).
      { unfold l. rewrite nth_error_map, Ht. cbn [option_map]. rewrite E.
        reflexivity. }
      rewrite El. reflexivity. }
    (* C02: what is collected under each path *)
    assert (Hpath : forall t,
              Pipeline.find_by_path t (Pipeline.collected fin) =
              map (pair t) (concat (nth t P []))).
    { intros t.
      transitivity (Pipeline.find_by_path t (sequential P t));
        [exact (parallel_equals_sequential P Q sched Hdf Hret t)
        |apply sequential_spec]. }
    assert (Hfind : forall t,
              mp_find t
                (map (fun pl => (fst pl,
                        decode (concat (fst (nth_done l (fst pl))))
                               (map snd (snd pl))))
                     (Pipeline.collected fin)) =
              decode (concat (fst (nth_done l t)))
                     (map snd (map (pair t) (concat (nth t P []))))).
    { intros t.
      rewrite (mp_find_map (fun p rs => decode (concat (fst (nth_done l p)))
                                               (map snd rs)))
        by reflexivity.
      rewrite Hpath. reflexivity. }
    (* C17, any completion order; the order is the schedule's *)
    assert (Hst_spec :
      run_stats prev (map (fun mf => Stats.lenZ (mf_defs mf)) files)
                (map (fun t => snd (nth_done l t))
                     (finish_order Q sched (init P))) =
      snd (spec_run_mp W tsw line classify omatch ohint ocon since
                       restrictions files)).
    {
      pose proof (finish_order_permutation P Q sched Hret) as Hperm.
      assert (HlenP : length P = length files)
        by (unfold P, payloads, l; rewrite !map_length; reflexivity).
      rewrite HlenP in Hperm.
      set (fs := map (fun mf =>
                   mkF (Stats.lenZ (mf_defs mf))
                       (lines_of since restrictions mf)
                       (concat (fst (done_of (ftask since restrictions mf)))))
                     files).
      set (bss := map (fun mf => fst (done_of (ftask since restrictions mf)))
                      files).
      assert (Htasks : map (fun p => task_of (fst p) (snd p)) (combine fs bss)
                       = map snd l).
      { unfold fs, bss, l. clear -Hok HH HA HL HMAX.
        induction files as [|mf r IH]; [reflexivity|].
        cbn [map combine fst snd]. f_equal.
        - destruct (file_task_exact since restrictions mf
                      (Hok mf (or_introl eq_refl))) as (bs & E & _).
          rewrite E. reflexivity.
        - apply IH. intros x Hx. apply Hok. right. exact Hx. }
      assert (Hst : run_stats prev
                      (map (fun mf => Stats.lenZ (mf_defs mf)) files)
                      (map (fun t => snd (nth_done l t))
                           (finish_order Q sched (init P))) = spec_stats fs).
      { replace (map (fun mf => Stats.lenZ (mf_defs mf)) files)
          with (map f_regs fs)
          by (unfold fs; rewrite map_map; reflexivity).
        apply stats_exact with (bss := bss).
        - unfold fs, bss. clear. induction files as [|mf r IH];
            constructor; [reflexivity|exact IH].
        - rewrite Htasks.
          apply Permutation_trans
            with (map (fun t => snd (nth_done l t)) (seq 0 (length files))).
          + apply Permutation_map. exact Hperm.
          + replace (length files) with (length l)
              by (unfold l; apply map_length).
            unfold nth_done. rewrite <- (map_map (fun t => nth t l ([], stats0))
                                                 snd).
            rewrite map_nth_seq. apply Permutation_refl. }
      rewrite Hst. unfold spec_stats, spec_run_mp. cbv zeta. cbn [snd].
      assert (Hlen : Stats.lenZ fs = Stats.lenZ files)
        by (unfold fs, Stats.lenZ; rewrite map_length; reflexivity).
      rewrite Hlen.
      assert (Hn2 : 2 <= Stats.lenZ files) by (unfold Stats.lenZ; lia).
      destruct (Stats.lenZ files =? 0) eqn:E0; [apply Z.eqb_eq in E0; lia|].
      destruct (Stats.lenZ files =? 1) eqn:E1; [apply Z.eqb_eq in E1; lia|].
      assert (Hper : forall mf, In mf files ->
                st_searches (snd (sfile since restrictions mf)) =
                  Stats.lenZ (mf_defs mf) /\
                st_lines (snd (sfile since restrictions mf)) =
                  Stats.lenZ (lines_of since restrictions mf) /\
                st_results (snd (sfile since restrictions mf)) =
                  Stats.lenZ (concat (fst (done_of
                                 (ftask since restrictions mf))))).
      { intros mf Hmf.
        destruct (file_task_exact since restrictions mf (Hok mf Hmf))
          as (bs & E & _ & Hs). rewrite Hs, E. cbn. auto. }
      unfold fs. rewrite !map_map. cbn [f_regs f_lines f_results].
      f_equal. f_equal. apply map_ext_in. intros mf Hmf. symmetry.
      apply (Hper mf Hmf).
    }
    split; [|split; [|split]].
    - intros t mf Ht. destruct (Hfile t mf Ht) as (bs & En & EP & Hv & _).
      rewrite Hfind, En, EP. cbn [fst]. rewrite decode_numbered. exact Hv.
    - intros p Hp. rewrite Hfind.
      assert (EP : nth p P [] = []).
      { apply nth_overflow. unfold P, payloads, l. rewrite !map_length.
        exact Hp. }
      rewrite EP. reflexivity.
    - exact Hst_spec.
    - (* C14 in spirit: len under the paths = stats['results'] *)
      rewrite Hst_spec. unfold spec_run_mp. cbv zeta. cbn [snd st_results].
      rewrite !map_map. f_equal.
      apply (map_seq_nth_error
               (fun t => Stats.lenZ (mp_find t _))
               (fun mf => st_results (snd (sfile since restrictions mf)))
               files 0%nat).
      intros t mf Ht. cbn [Nat.add].
      destruct (Hfile t mf Ht) as (bs & En & EP & _ & Hs).
      rewrite Hfind, En, EP. cbn [fst]. rewrite decode_numbered, Hs.
      reflexivity.
  Qed.

  (* the same as one equation on what is observable *)
  Corollary multi_file_observe Q sched prev since restrictions files :
    (2 <= length files)%nat ->
    Forall (file_ok since restrictions) files ->
    drop_free sched = true ->
    mp_returned H A L W tsw line classify omatch ohint ocon MAX NBUF Q sched
                since restrictions files = true ->
    observe_mp files
      (run_mp_files H A L W tsw line classify omatch ohint ocon MAX NBUF Q
                    sched prev since restrictions files) =
    Some (spec_run_mp W tsw line classify omatch ohint ocon since
                      restrictions files).
  Proof.
    intros Hn Hok Hdf Hret.
    destruct (multi_file_run_exact Q sched prev since restrictions files Hn
                Hok Hdf Hret) as (coll & st & E & Hv & _ & Hst & _).
    rewrite E. cbn [observe_mp]. rewrite Hst. unfold spec_run_mp at 2.
    cbv zeta. cbn [fst snd]. f_equal. f_equal.
    rewrite map_map.
    apply (map_indexed
               (fun tm => simple_view (mf_defs (snd tm))
                                      (mp_find (fst tm) coll))
               (fun mf => fst (sfile since restrictions mf)) files 0%nat).
      intros k mf Hk. cbn [Nat.add fst snd]. exact (Hv k mf Hk).
  Qed.

  (* ---- (M3) + C18: the dispatch of run() ---- *)
  Section Dispatch.
    Variable uses_pool : Z -> bool.

    Lemma run_files_many Q sched prev since restrictions files :
      (forall n, 1 < n -> uses_pool n = true) ->
      (2 <= length files)%nat ->
      run_files H A L W tsw line classify omatch ohint ocon MAX NBUF
                uses_pool Q sched prev since restrictions files =
      run_mp_files H A L W tsw line classify omatch ohint ocon MAX NBUF Q
                   sched prev since restrictions files.
    Proof.
      intros Hu Hn. unfold run_files. rewrite Hu; [reflexivity|].
      unfold Stats.lenZ. lia.
    Qed.

    (* one file: in-process, no queue, no schedule - E2E_single_file_run_exact
       applies to it *)
    Lemma run_files_one Q sched prev since restrictions mf :
      (forall n, 0 <= n -> n <= 1 -> uses_pool n = false) ->
      run_files H A L W tsw line classify omatch ohint ocon MAX NBUF
                uses_pool Q sched prev since restrictions [mf] =
      match run_simple H A L W tsw line classify omatch ohint ocon MAX NBUF
                       prev (mf_file mf) since restrictions (mf_defs mf) with
      | RunOk coll st =>
          MpOk (match coll with [] => [] | _ => [(0%nat, coll)] end) st
      | RunHangs => MpHangs
      | RunRaises => MpRaises
      end.
    Proof.
      intros Hu. unfold run_files. rewrite Hu; [reflexivity| |];
        unfold Stats.lenZ; cbn; lia.
    Qed.

    Theorem multi_file_run_files_exact Q sched prev since restrictions files :
      (forall n, 1 < n -> uses_pool n = true) ->
      (2 <= length files)%nat ->
      Forall (file_ok since restrictions) files ->
      drop_free sched = true ->
      mp_returned H A L W tsw line classify omatch ohint ocon MAX NBUF Q
                  sched since restrictions files = true ->
      exists coll st,
        run_files H A L W tsw line classify omatch ohint ocon MAX NBUF
                  uses_pool Q sched prev since restrictions files
        = MpOk coll st /\
        (forall t mf, nth_error files t = Some mf ->
           simple_view (mf_defs mf) (mp_find t coll) =
           fst (sfile since restrictions mf)) /\
        (forall p, (length files <= p)%nat -> mp_find p coll = []) /\
        st = snd (spec_run_mp W tsw line classify omatch ohint ocon since
                              restrictions files) /\
        Stats.sumZ (map (fun t => Stats.lenZ (mp_find t coll))
                        (seq 0 (length files))) = st_results st.
    Proof.
      intros Hu Hn Hok Hdf Hret.
      rewrite (run_files_many Q sched prev since restrictions files Hu Hn).
      exact (multi_file_run_exact Q sched prev since restrictions files Hn
               Hok Hdf Hret).
    Qed.
  End Dispatch.

  (* ---- such schedules exist: C02's progress, for the composed run ---- *)
  Theorem multi_file_progress Q sched since restrictions files s :
    1 <= Q ->
    drop_free sched = true ->
    mp_final H A L W tsw line classify omatch ohint ocon MAX NBUF Q sched
             since restrictions files = Some s ->
    ph s <> Returned ->
    exists a s', is_drop a = false /\ step Q s a = Some s'.
  Proof.
    intros HQ Hdf Hf Hnr. unfold mp_final in Hf.
    destruct (file_tasks H A L W tsw line classify omatch ohint ocon MAX NBUF
                         since restrictions files) as [l| |];
      try discriminate.
    inversion Hf; subst s.
    exact (progress (payloads l) Q sched HQ Hdf Hnr).
  Qed.
End Mp.
