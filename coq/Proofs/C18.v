From Coq Require Import String ZArith List Bool Lia Arith.
From SK Require Import Model.Skel Spec.C18 Gen.Exprs.
Import ListNotations.
Open Scope Z_scope.

Lemma num_tasks_spec m c f :
  0 <= m -> 1 <= c -> 0 <= f ->
  num_parallel_tasks m c f = spec_workers m c f.
Proof.
  intros Hm Hc Hf. unfold num_parallel_tasks, spec_workers.
  destruct (m =? 0) eqn:Em; destruct (f =? 0) eqn:Ef; lia.
Qed.

Lemma num_tasks_le_bound m c f :
  0 <= m -> 1 <= c -> 1 <= f ->
  num_parallel_tasks m c f <= worker_bound m c f.
Proof.
  intros Hm Hc Hf. rewrite num_tasks_spec by lia.
  unfold spec_workers, worker_bound, eff_max.
  destruct (m =? 0) eqn:Em; lia.
Qed.

Lemma num_tasks_eq_bound m c f :
  0 <= m -> 1 <= c -> 1 <= f ->
  num_parallel_tasks m c f = worker_bound m c f.
Proof.
  intros Hm Hc Hf. rewrite num_tasks_spec by lia.
  unfold spec_workers, worker_bound, eff_max.
  destruct (m =? 0) eqn:Em; lia.
Qed.

Lemma num_tasks_pos m c f :
  0 <= m -> 1 <= c -> 0 <= f -> 1 <= num_parallel_tasks m c f.
Proof.
  intros Hm Hc Hf. rewrite num_tasks_spec by lia.
  unfold spec_workers. destruct (m =? 0) eqn:Em; lia.
Qed.

Lemma single_file_no_pool f : 0 <= f -> f <= 1 -> run_uses_pool f = false.
Proof. unfold run_uses_pool. lia. Qed.

Lemma many_files_pool f : 1 < f -> run_uses_pool f = true.
Proof. unfold run_uses_pool. lia. Qed.

(* distinct workers used by any execution on a pool of n workers *)
Lemma nodup_bounded (n : nat) (l : list nat) :
  NoDup l -> Forall (fun w => (w < n)%nat) l -> (length l <= n)%nat.
Proof.
  intros Hnd Hall.
  assert (Hincl : incl l (seq 0 n)).
  { intros x Hx. apply in_seq. rewrite Forall_forall in Hall.
    specialize (Hall x Hx). lia. }
  pose proof (NoDup_incl_length Hnd Hincl) as H.
  rewrite seq_length in H. exact H.
Qed.

Lemma distinct_workers_le (n : nat) (assign : list nat) :
  pool_execution n assign ->
  (length (nodup Nat.eq_dec assign) <= n)%nat.
Proof.
  intros H. apply nodup_bounded.
  - apply NoDup_nodup.
  - unfold pool_execution in H. rewrite Forall_forall in *.
    intros x Hx. apply H. eapply nodup_In. exact Hx.
Qed.

Lemma distinct_workers_le_tasks (assign : list nat) :
  (length (nodup Nat.eq_dec assign) <= length assign)%nat.
Proof.
  induction assign as [|a l IH]; simpl; [lia|].
  destruct (in_dec Nat.eq_dec a l); simpl; lia.
Qed.

(* --- skeleton discipline of _run_mp: one submit per catalog entry, inside
   the pool, and the pool is created with the computed worker count. *)
Fixpoint count_ev (p : ev -> bool) (sk : list ev) : nat :=
  match sk with [] => 0 | e :: r => (if p e then 1 else 0) + count_ev p r end.

(* the single `submit` sits directly inside exactly one loop level opened
   after pool_enter *)
Fixpoint submit_depth (depth : nat) (inpool : bool) (sk : list ev)
  : option (nat * bool) :=
  match sk with
  | [] => None
  | Call f :: r =>
      if String.eqb f "pool_enter" then submit_depth depth true r
      else if String.eqb f "pool_exit" then submit_depth depth false r
      else if String.eqb f "submit" then Some (depth, inpool)
      else submit_depth depth inpool r
  | LoopB :: r => submit_depth (S depth) inpool r
  | LoopE :: r => submit_depth (pred depth) inpool r
  | _ :: r => submit_depth depth inpool r
  end.

Definition submit_once_per_entry (sk : list ev) : bool :=
  Nat.eqb (count_ev (ev_is (Call "submit")) sk) 1 &&
  match submit_depth 0 false sk with
  | Some (1%nat, true) => true
  | _ => false
  end.
