(* C06, second invariant: in-order use of each task's blocks under every
   schedule, hence `add` never raises "failed to get store allocation" in
   any interleaving (no task ever reaches CFailed). *)
From Coq Require Import String ZArith List Bool Arith Lia.
From SK Require Import Model.Base Model.Skel Model.Store Model.Par
     Proofs.Store Proofs.Par.
Import ListNotations.
Open Scope Z_scope.

Section Layout.
  Variable b : Z.
  Hypothesis Hb : 1 <= b.
  Let nb := Z.to_nat b.

  (* the current block [c, c+b) has exactly its first m indices in use and
     |data| = b * (number of earlier blocks) + m *)
  Definition layout (t : task) : Prop :=
    match allocs (t_loc t) with
    | None => data (t_loc t) = []
    | Some a => exists c (m q : nat),
        a = range c nb /\ (m <= nb)%nat /\
        (forall o, (o < nb)%nat ->
                   dmem (c + Z.of_nat o) (data (t_loc t)) = (o <? m)%nat) /\
        lenZ (data (t_loc t)) = b * Z.of_nat q + Z.of_nat m
    end.

  Definition lay_ok (t : task) : Prop :=
    layout t /\ t_ctl t <> CFailed /\
    (forall k n v r, t_ctl t = CPre k n v r -> needs (t_loc t) = true).

  Lemma layout_same t t' : t_loc t' = t_loc t -> layout t -> layout t'.
  Proof. unfold layout. intros ->. tauto. Qed.

  Lemma layout_set_ns t n d :
    layout t -> layout (set_loc t (set_ns (t_loc t) n d)).
  Proof. unfold layout. destruct n; simpl; tauto. Qed.

  Lemma nb_pos : (1 <= nb)%nat.
  Proof. unfold nb. lia. Qed.

  Lemma nb_b : Z.of_nat nb = b.
  Proof. unfold nb. lia. Qed.

  (* the slot is found, the add completes *)
  Lemma finish_lay t n v c m q :
    T_core b t -> allocs (t_loc t) = Some (range c nb) -> (m < nb)%nat ->
    (forall o, (o < nb)%nat ->
               dmem (c + Z.of_nat o) (data (t_loc t)) = (o <? m)%nat) ->
    lenZ (data (t_loc t)) = b * Z.of_nat q + Z.of_nat m ->
    layout (finish t n v) /\ t_ctl (finish t n v) = CIdle.
  Proof.
    intros HT Ha Hm Hd Hl.
    assert (Hfind : find (fun i => negb (dmem i (data (t_loc t)))) (range c nb)
                    = Some (c + Z.of_nat m)).
    { apply find_range; [exact Hm| |].
      - intros o' Ho'. rewrite Hd by lia.
        assert (E : (o' <? m)%nat = true) by (apply Nat.ltb_lt; lia).
        rewrite E. reflexivity.
      - rewrite Hd by lia. rewrite Nat.ltb_irrefl. reflexivity. }
    unfold finish.
    rewrite (alloc_pick_block _ c nb v (tc_pre _ _ HT) Ha nb_pos), Hfind.
    split; [|reflexivity].
    unfold layout. simpl.
    assert (Hal : allocs (set_ns (set_data (t_loc t)
                   (dset (c + Z.of_nat m) v (data (t_loc t)))) n
                   (dset v (c + Z.of_nat m)
                      (get_ns (set_data (t_loc t)
                         (dset (c + Z.of_nat m) v (data (t_loc t)))) n)))
                  = allocs (t_loc t)) by (destruct n; reflexivity).
    assert (Hda : data (set_ns (set_data (t_loc t)
                   (dset (c + Z.of_nat m) v (data (t_loc t)))) n
                   (dset v (c + Z.of_nat m)
                      (get_ns (set_data (t_loc t)
                         (dset (c + Z.of_nat m) v (data (t_loc t)))) n)))
                  = dset (c + Z.of_nat m) v (data (t_loc t)))
      by (destruct n; reflexivity).
    rewrite Hal, Ha, Hda. exists c, (S m), q.
    split; [reflexivity|]. split; [lia|]. split.
    - intros o Ho. rewrite dmem_dset, Hd by exact Ho.
      destruct (Nat.ltb_spec o m); destruct (Nat.ltb_spec o (S m));
        destruct (Z.eqb_spec (c + Z.of_nat o) (c + Z.of_nat m));
        try reflexivity; lia.
    - assert (Hfree : dget (c + Z.of_nat m) (data (t_loc t)) = None).
      { pose proof (Hd m Hm) as H. rewrite Nat.ltb_irrefl in H.
        unfold dmem in H. destruct (dget (c + Z.of_nat m) (data (t_loc t)));
          [discriminate|reflexivity]. }
      rewrite (dset_fresh _ _ _ Hfree). unfold lenZ in *.
      rewrite app_length. simpl. lia.
  Qed.

  (* no request needed => there is room in the current block *)
  Lemma needs_false_room t :
    T_core b t -> layout t -> needs (t_loc t) = false ->
    exists c m q,
      allocs (t_loc t) = Some (range c nb) /\ (m < nb)%nat /\
      (forall o, (o < nb)%nat ->
                 dmem (c + Z.of_nat o) (data (t_loc t)) = (o <? m)%nat) /\
      lenZ (data (t_loc t)) = b * Z.of_nat q + Z.of_nat m.
  Proof.
    intros HT HL Hn. unfold needs in Hn. rewrite (tc_pre _ _ HT) in Hn.
    simpl in Hn. unfold alloc_needed in Hn. unfold layout in HL.
    destruct (allocs (t_loc t)) as [a|] eqn:Ea; [|discriminate].
    destruct HL as [c [m [q [-> [Hm [Hd Hl]]]]]].
    exists c, m, q. split; [reflexivity|]. split; [|split; assumption].
    rewrite (tc_bsz _ _ HT) in Hn. unfold rollover in Hn.
    rewrite range_last in Hn by exact nb_pos. rewrite nb_b in Hn.
    replace (c + b - 1) with (c + Z.of_nat (nb - 1)) in Hn
      by (pose proof nb_pos; pose proof nb_b; lia).
    rewrite Hd in Hn by (pose proof nb_pos; lia). rewrite Hl in Hn.
    destruct (Nat.eq_dec m nb) as [->|Hne]; [|lia].
    exfalso.
    assert (E1 : (nb - 1 <? nb)%nat = true)
      by (apply Nat.ltb_lt; pose proof nb_pos; lia).
    rewrite E1, andb_true_r in Hn. rewrite nb_b in Hn.
    replace (b * Z.of_nat q + b) with ((Z.of_nat q + 1) * b) in Hn by lia.
    rewrite Z.mod_mul in Hn by lia. simpl in Hn.
    rewrite andb_true_r in Hn. apply negb_false_iff in Hn.
    apply Z.eqb_eq in Hn. nia.
  Qed.

  Lemma check2_lay pa t n v :
    T_core b t -> layout t -> lay_ok (check2 pa t n v).
  Proof.
    intros HT HL. unfold check2. destruct (needs (t_loc t)) eqn:En.
    - split; [apply (layout_same t); [reflexivity|exact HL]|].
      split; [simpl; discriminate|]. intros k n' v' r _. exact En.
    - destruct (needs_false_room t HT HL En) as [c [m [q [Ha [Hm [Hd Hl]]]]]].
      destruct (finish_lay t n v c m q HT Ha Hm Hd Hl) as [F1 F2].
      split; [exact F1|]. rewrite F2. split; [discriminate|].
      intros; discriminate.
  Qed.

  Lemma check1_lay pa t n v :
    T_core b t -> layout t -> lay_ok (check1 pa t n v).
  Proof.
    intros HT HL. unfold check1. destruct (needs (t_loc t)) eqn:En.
    - split; [apply (layout_same t); [reflexivity|exact HL]|].
      split; [simpl; discriminate|]. intros k n' v' r _. exact En.
    - apply check2_lay; assumption.
  Qed.

  Lemma begin_add_lay pa t n v :
    T_core b t -> layout t -> lay_ok (begin_add pa t n v).
  Proof.
    intros HT HL. unfold begin_add.
    destruct (dget v (get_ns (t_loc t) n)) as [i|].
    - split; [apply (layout_same t); [reflexivity|exact HL]|].
      split; [simpl; discriminate|]. intros; discriminate.
    - destruct (scan v (data (t_loc t))) as [i|].
      + split; [|split; [simpl; discriminate|intros; discriminate]].
        unfold hand, layout. simpl. unfold layout in HL.
        destruct n; simpl; exact HL.
      + apply check1_lay; assumption.
  Qed.

  Lemma epilogue_lay pa k t n v :
    T_core b t -> layout t -> needs (t_loc t) = true ->
    (forall c, In c (t_blocks t) -> t_cur t + b <= c \/ c + b <= t_cur t) ->
    lay_ok (epilogue pa k t n v).
  Proof.
    intros HT HL Hn Hsep.
    set (t1 := mkTask (t_prog t) (t_ctl t)
                      (set_allocs (t_loc t) (range (t_cur t) (Z.to_nat (bsz (t_loc t)))))
                      (t_cur t) (t_inc t) (t_handed t) (t_cur t :: t_blocks t)).
    assert (HT1 : T_core b t1).
    { pose proof HT as [A B C D E F G]. constructor; simpl; try assumption.
      - intros i Hi. destruct (D i Hi) as [c [Hc Hi']]. exists c. simpl. tauto.
      - intros a Ha. inversion Ha. exists (t_cur t). rewrite C. simpl. tauto. }
    (* the new block is unused *)
    assert (Hfresh : forall o, (o < nb)%nat ->
              dmem (t_cur t + Z.of_nat o) (data (t_loc t)) = false).
    { intros o Ho. destruct (dmem (t_cur t + Z.of_nat o) (data (t_loc t))) eqn:E;
        [|reflexivity].
      destruct (tc_keys _ _ HT _ E) as [c [Hc Hi]]. unfold in_block in Hi.
      destruct (Hsep c Hc); pose proof nb_b; lia. }
    (* the old block was full *)
    assert (Hlen : exists q, lenZ (data (t_loc t)) = b * Z.of_nat q).
    { unfold needs in Hn. rewrite (tc_pre _ _ HT) in Hn. simpl in Hn.
      unfold alloc_needed in Hn. unfold layout in HL.
      destruct (allocs (t_loc t)) as [a|] eqn:Ea.
      - destruct HL as [c [m [q [-> [Hm [Hd Hl]]]]]].
        rewrite (tc_bsz _ _ HT) in Hn. unfold rollover in Hn.
        rewrite range_last in Hn by exact nb_pos. rewrite nb_b in Hn.
        replace (c + b - 1) with (c + Z.of_nat (nb - 1)) in Hn
          by (pose proof nb_pos; pose proof nb_b; lia).
        rewrite Hd in Hn by (pose proof nb_pos; lia).
        apply andb_true_iff in Hn. destruct Hn as [_ Hn].
        apply Nat.ltb_lt in Hn.
        assert (m = nb) by lia. subst m. exists (S q). rewrite Hl.
        pose proof nb_b. lia.
      - exists O. rewrite HL. unfold lenZ. simpl. lia. }
    destruct Hlen as [q Hq].
    assert (HL1 : layout t1).
    { unfold layout, t1. simpl. rewrite (tc_bsz _ _ HT). fold nb.
      exists (t_cur t), O, q. split; [reflexivity|]. split; [lia|].
      split; [|lia]. intros o Ho. rewrite Hfresh by exact Ho. reflexivity. }
    unfold epilogue. fold t1.
    assert (Hfin : lay_ok (finish t1 n v)).
    { destruct (finish_lay t1 n v (t_cur t) O q HT1) as [F1 F2].
      - unfold t1. simpl. rewrite (tc_bsz _ _ HT). reflexivity.
      - exact nb_pos.
      - intros o Ho. unfold t1. simpl. rewrite Hfresh by exact Ho. reflexivity.
      - unfold t1. simpl. lia.
      - split; [exact F1|]. rewrite F2. split; [discriminate|intros; discriminate]. }
    destruct k as [|[|k]]; [exact Hfin| |exact Hfin].
    apply check2_lay; assumption.
  Qed.
End Layout.

Lemma exec_loc p a t g e : exec p a t g = Some e -> t_loc (e_task e) = t_loc t.
Proof.
  destruct a; simpl; try (intros H; inversion H; reflexivity).
  destruct (g_lock g); intros H; inversion H; reflexivity.
Qed.

Section LayoutRun.
  Variable b : Z.
  Hypothesis Hb : 1 <= b.
  Variable sa : store -> list act.
  Hypothesis Hsa : forall l, sa l = canon_sa l.

  Definition Inv2 (g : gstate) : Prop :=
    forall p t, nth_error (g_tasks g) p = Some t -> lay_ok b t.

  Lemma inv2_upd g p t t' ptr lock sh :
    Inv2 g -> nth_error (g_tasks g) p = Some t -> lay_ok b t' ->
    Inv2 (mkG (upd (g_tasks g) p t') ptr lock sh).
  Proof.
    intros H Hp Ht q u Hq. simpl in Hq.
    destruct (Nat.eq_dec q p) as [->|Hne].
    - rewrite (nth_error_upd_same _ _ _ _ Hp) in Hq. inversion Hq. subst. exact Ht.
    - rewrite nth_error_upd_other in Hq by exact Hne. apply (H q u Hq).
  Qed.

  Lemma step_lay g p g' :
    Inv b g -> Inv2 g -> step canon_pre sa g p = Some g' -> Inv2 g'.
  Proof.
    intros HI H2 Hstep. unfold step in Hstep.
    destruct (nth_error (g_tasks g) p) as [t|] eqn:Hp; [|discriminate].
    pose proof (inv_task _ _ HI p t Hp) as [Oc Ol Ot Op Os Oh].
    destruct (H2 p t Hp) as [L1 [L2 L3]].
    destruct (t_ctl t) as [|k n v r|r| |] eqn:Hc; try discriminate.
    - destruct (t_prog t) as [|[n v] r] eqn:Epr; inversion Hstep; subst g'.
      + apply (inv2_upd g p t); try assumption.
        split; [apply (layout_same b t); [reflexivity|exact L1]|].
        split; [simpl; discriminate|intros; discriminate].
      + apply (inv2_upd g p t); try assumption.
        apply begin_add_lay; try assumption.
        apply (T_core_same b t); try reflexivity. exact Oc.
    - destruct r as [|a rest].
      + inversion Hstep. subst g'. apply (inv2_upd g p t); try assumption.
        apply epilogue_lay; try assumption.
        * apply (L3 k n v [] eq_refl).
        * unfold claimed, pending in Os. rewrite Hc in Os. simpl in Os.
          destruct Os as [Os _]. exact Os.
      + destruct (exec p a t g) as [e|] eqn:Ee; [|discriminate].
        inversion Hstep. subst g'. apply (inv2_upd g p t); try assumption.
        pose proof (exec_loc p a t g e Ee) as El.
        split; [apply (layout_same b t); [simpl; exact El|exact L1]|].
        split; [simpl; discriminate|].
        intros k' n' v' r' _. simpl. rewrite El. apply (L3 k n v (a :: rest) eq_refl).
    - destruct r as [|a rest].
      + inversion Hstep. subst g'. apply (inv2_upd g p t); try assumption.
        split; [apply (layout_same b t); [reflexivity|exact L1]|].
        split; [simpl; discriminate|intros; discriminate].
      + destruct (exec p a t g) as [e|] eqn:Ee; [|discriminate].
        inversion Hstep. subst g'. apply (inv2_upd g p t); try assumption.
        pose proof (exec_loc p a t g e Ee) as El.
        split; [apply (layout_same b t); [simpl; exact El|exact L1]|].
        split; [simpl; discriminate|intros; discriminate].
  Qed.

  Lemma inv2_init progs : Inv2 (init b progs).
  Proof.
    intros p t Hp. simpl in Hp. rewrite nth_error_map in Hp.
    destruct (nth_error progs p); [|discriminate]. inversion Hp. subst t.
    split; [reflexivity|]. split; [simpl; discriminate|intros; discriminate].
  Qed.

  Lemma run_inv2 sched : forall g,
    Inv b g -> Inv2 g -> Inv2 (run canon_pre sa g sched).
  Proof.
    induction sched as [|p r IH]; intros g HI H2; [exact H2|].
    simpl. unfold step_or_stutter.
    destruct (step canon_pre sa g p) as [g'|] eqn:E.
    - apply IH.
      + apply (step_preserves b Hb sa Hsa g p g' HI E).
      + apply (step_lay g p g' HI H2 E).
    - apply IH; assumption.
  Qed.
End LayoutRun.

(* no interleaving makes an add raise ResultStoreException *)
Theorem par_never_fails skp sks :
  well_locked_pre skp = true -> well_locked_sync sks = true ->
  forall b progs sched, 1 <= b ->
  let g := run (expand_pre 0 skp) (expand_sync sks) (init b progs) sched in
  forall p t, nth_error (g_tasks g) p = Some t -> t_ctl t <> CFailed.
Proof.
  intros Hp Hs b progs sched Hb.
  rewrite (well_locked_pre_canon skp Hp).
  set (sa := expand_sync sks).
  assert (Hsa : forall l, sa l = canon_sa l)
    by (intros l; apply well_locked_sync_canon; exact Hs).
  intros g p t Hpt.
  assert (H2 : Inv2 b g).
  { apply (run_inv2 b Hb sa Hsa); [apply inv_init|apply inv2_init]. }
  destruct (H2 p t Hpt) as [_ [H _]]. exact H.
Qed.

(* hence: a state in which no task can step any more is one in which every
   task has completed its sync *)
Theorem par_quiescent_all_done skp sks :
  well_locked_pre skp = true -> well_locked_sync sks = true ->
  forall b progs sched, 1 <= b ->
  let g := run (expand_pre 0 skp) (expand_sync sks) (init b progs) sched in
  (forall p, enabled (expand_pre 0 skp) (expand_sync sks) g p = false) ->
  forall p t, nth_error (g_tasks g) p = Some t -> t_ctl t = CDone.
Proof.
  intros Hp Hs b progs sched Hb g Hq p t Hpt.
  destruct (par_safe skp sks Hp Hs b progs sched Hb) as [_ [_ Hnd]].
  fold g in Hnd.
  destruct (all_finished g) eqn:Ef.
  - unfold all_finished in Ef. rewrite forallb_forall in Ef.
    assert (Hin : In t (g_tasks g)) by (eapply nth_error_In; exact Hpt).
    specialize (Ef t Hin). unfold finished in Ef.
    pose proof (par_never_fails skp sks Hp Hs b progs sched Hb p t Hpt) as Hnf.
    destruct (t_ctl t); try discriminate; [reflexivity|contradiction].
  - destruct (Hnd eq_refl) as [q Hen]. rewrite Hq in Hen. discriminate.
Qed.
