(* CAPSTONE, part 2: the composed single-file run of simple searches equals
   the end-to-end specification.

   A composition of
     C12  execute_is_search                    (gzip / plain / zero size)
     C04  since_seek_exact, C11 position_is_line_boundary
                                               (Proofs/RunStream.v)
     Lines split_lines_app_lf                  (Proofs/RunBridge.v)
     C01  simple_run_file_numbering, simple_search_exact, simple_no_spurious
     C07  simple_constrained_exact
     C17  task_counts_its_collection, stats_exact. *)
From Coq Require Import ZArith List Bool Lia Arith Permutation.
From SK Require Import Model.Base Model.Seek Model.SinceSeek Model.Lines
     Model.Task Model.Stats Model.Gzip Model.Run
     Spec.Lines Spec.C04 Spec.Task Spec.Stats Spec.Run
     Proofs.Lines Proofs.TaskFlush Proofs.TaskLoop Proofs.TaskSimple
     Proofs.TaskGating Proofs.Stats Proofs.Compose Proofs.Gzip
     Proofs.RunBridge Proofs.RunStream.
Import ListNotations.
Open Scope Z_scope.

(* ------------------------------------------------- counting by definition *)
Section Count.
  Variable R : Type.
  Variable rkey : R -> Z.

  Lemma filter_split_length (f : R -> bool) rs :
    Stats.lenZ rs = Stats.lenZ (filter f rs) +
                    Stats.lenZ (filter (fun r => negb (f r)) rs).
  Proof.
    unfold Stats.lenZ. induction rs as [|r rs IH]; [reflexivity|].
    cbn [filter]. destruct (f r); cbn [negb length]; lia.
  Qed.

  Lemma filter_filter_imp (f g : R -> bool) rs :
    (forall r, f r = true -> g r = true) ->
    filter f (filter g rs) = filter f rs.
  Proof.
    intros Hi. induction rs as [|r rs IH]; [reflexivity|].
    cbn [filter]. destruct (g r) eqn:Eg.
    - cbn [filter]. rewrite IH. reflexivity.
    - destruct (f r) eqn:Ef; [rewrite (Hi r Ef) in Eg; discriminate|].
      exact IH.
  Qed.

  (* a list whose elements all carry one of the pairwise distinct keys [ks]
     is as long as its per-key sublists together *)
  Lemma count_by_key : forall ks rs,
    NoDup ks -> (forall r, In r rs -> In (rkey r) ks) ->
    Stats.lenZ rs =
    sumZ (map (fun k => Stats.lenZ (filter (fun r => rkey r =? k) rs)) ks).
  Proof.
    induction ks as [|k ks IH]; intros rs Hnd Hin.
    - destruct rs as [|r rs]; [reflexivity|].
      destruct (Hin r (or_introl eq_refl)).
    - inversion Hnd as [|? ? Hk Hnd']; subst.
      cbn [map]. rewrite sumZ_cons.
      rewrite (filter_split_length (fun r => rkey r =? k) rs). f_equal.
      rewrite (IH (filter (fun r => negb (rkey r =? k)) rs) Hnd').
      + f_equal. apply map_ext_in. intros k' Hk'. f_equal.
        apply filter_filter_imp. intros r Er. apply Z.eqb_eq in Er.
        apply negb_true_iff. apply Z.eqb_neq. intros Ek.
        apply Hk. rewrite <- Ek, Er. exact Hk'.
      + intros r Hr. apply filter_In in Hr. destruct Hr as [Hr Hn].
        apply negb_true_iff in Hn. apply Z.eqb_neq in Hn.
        destruct (Hin r Hr) as [Ek|Hk']; [congruence|exact Hk'].
  Qed.
End Count.

(* ----------------------------------- statistics of a one-file run (C17) *)
Lemma single_file_stats {Ln R} prev regs (lines : list Ln)
      (bs : list (list R)) :
  run_stats prev [regs] [task_stats lines bs] =
  mkStats regs [regs] (Stats.lenZ lines) 1 1 (Stats.lenZ (concat bs)).
Proof.
  pose proof (@stats_exact Ln R prev [mkF regs lines (concat bs)] [bs]
                [task_stats lines bs]) as E.
  cbn [map f_regs combine fst snd] in E. rewrite E.
  - unfold spec_stats. cbn [map f_regs f_lines f_results length].
    unfold sumZ. cbn [fold_left]. reflexivity.
  - constructor; [reflexivity|constructor].
  - apply Permutation_refl.
Qed.

(* the ids apply_global is given are the registered keys *)
Lemma simple_ids_keys ds k : In k (simple_ids ds) <-> In k (map s_key ds).
Proof.
  unfold simple_ids, search_defs. rewrite map_map. cbn [sl_def init_slot].
  split; intros Hk; apply in_map_iff in Hk; destruct Hk as [d [Ek Hd]];
    subst k.
  - apply dedupe_in in Hd. apply in_map. tauto.
  - destruct (dedupe_complete sdef s_key ds [] d Hd) as [d' [Hd' Ek]];
      [intros []|].
    rewrite <- Ek. apply in_map. exact Hd'.
Qed.

(* the specification does not depend on how often an id is listed *)
Lemma searched_ids W tsw (line : Type) (classify : list Z -> line) since
      restrictions ds c :
  searched W tsw line classify since restrictions (simple_ids ds) c =
  searched W tsw line classify since restrictions (map s_key ds) c.
Proof.
  unfold searched, start_byte.
  rewrite (restricted_ext restrictions _ _ (simple_ids_keys ds)).
  reflexivity.
Qed.

Lemma seeks_ids since restrictions ds :
  seeks since restrictions (simple_ids ds) =
  seeks since restrictions (map s_key ds).
Proof.
  unfold seeks.
  rewrite (restricted_ext restrictions _ _ (simple_ids_keys ds)).
  reflexivity.
Qed.

Section Simple.
  Variables H A L W : Z.
  Variable tsw : list Z -> option Z.
  Variable line : Type.
  Variable classify : list Z -> line.
  Variable omatch : Z -> line -> option (list Z).
  Variable ohint : Z -> line -> bool.
  Variable ocon : Z -> line -> outcome.
  Variables MAX NBUF : Z.
  Hypothesis HH : 0 < H.
  Hypothesis HA : 0 < A.
  Hypothesis HL : 0 < L.
  Hypothesis HMAX : 1 <= MAX.

  Notation exec := (simple_execute line omatch ohint ocon MAX NBUF).
  Notation specfor := (spec_for line omatch ohint ocon).

  Lemma simple_exec_nil ds : exec ds [] = TaskOk [].
  Proof. reflexivity. Qed.

  (* (B3) + C01 numbering: the byte-level stream model is C01/C07's
     whole-file model [simple_run_file] with apply_to_file as its [atf] *)
  Lemma simple_stream_is_run_file ds since restrictions c :
    let '(_, p2, applied) :=
      apply_global (atf_lines H A L W tsw c) (globals_of since) restrictions
                   (simple_ids ds) in
    simple_stream H A L W tsw line classify omatch ohint ocon MAX NBUF ds
                  since restrictions c =
    if existsb (seek_raises H A L W tsw c) applied then TkRaises
    else lift line result (skipn p2 (file_lines line classify c))
              (simple_stream_lines H A L W tsw line classify omatch ohint
                                   ocon MAX NBUF ds since restrictions c).
  Proof.
    pose proof (stream_is_line_view H A L W tsw line classify HH HA result
                  (simple_ids ds) (exec ds) since restrictions c) as Hv.
    pose proof (simple_run_file_numbering omatch ohint ocon MAX NBUF
                  (atf_lines H A L W tsw c) (globals_of since) restrictions
                  ds (file_lines line classify c)) as Hn.
    cbv zeta in Hn. fold (simple_ids ds) in Hn.
    unfold simple_stream_lines. rewrite Hn.
    destruct (apply_global (atf_lines H A L W tsw c) (globals_of since)
                           restrictions (simple_ids ds)) as [[o p2] a].
    exact Hv.
  Qed.

  (* C01 / C07: what the collection holds for a registered definition *)
  Lemma simple_results_exact ds lines d bs :
    keys_ok s_key ds -> In d ds -> uniform line ocon (s_cons d) lines ->
    exec ds lines = TaskOk bs ->
    map obs (results_for (s_key d) (concat bs)) = specfor d lines.
  Proof.
    intros Hk Hd Hu E. unfold spec_for.
    destruct (s_cons d) as [|c0 cs] eqn:Ec.
    - destruct (simple_search_exact line omatch ohint ocon MAX NBUF ds lines
                  d HMAX Hk Hd Ec) as (bs' & E' & _ & Hr).
      rewrite E in E'. inversion E'; subst. exact Hr.
    - rewrite <- Ec in Hu.
      destruct (simple_constrained_exact line omatch ohint ocon MAX NBUF ds
                  lines d HMAX Hk Hd Hu) as (bs' & E' & _ & Hr).
      rewrite E in E'. inversion E'; subst. exact Hr.
  Qed.

  (* C01 no_spurious: every collected result belongs to a registered
     definition, so the collection is as large as the per-definition
     result lists together *)
  Lemma simple_total ds lines bs :
    keys_ok s_key ds ->
    (forall d, In d ds -> uniform line ocon (s_cons d) lines) ->
    exec ds lines = TaskOk bs ->
    Stats.lenZ (concat bs) =
    sumZ (map (fun d => Stats.lenZ (specfor d lines)) (distinct ds)).
  Proof.
    intros Hk Hu E.
    rewrite (count_by_key result r_key (map s_key (distinct ds)) (concat bs)).
    - rewrite map_map. f_equal. apply map_ext_in. intros d Hd.
      apply dedupe_in in Hd. destruct Hd as [Hd _].
      rewrite <- (simple_results_exact ds lines d bs Hk Hd (Hu d Hd) E).
      unfold Stats.lenZ. rewrite map_length. reflexivity.
    - apply dedupe_nodup.
    - intros r Hr.
      destruct (in_dec Z.eq_dec (r_key r) (map s_key ds)) as [Hi|Hn].
      + apply in_map_iff in Hi. destruct Hi as [d [Ek Hd]].
        destruct (dedupe_complete sdef s_key ds [] d Hd) as [d' [Hd' Ek']];
          [intros []|].
        rewrite <- Ek, <- Ek'. apply in_map. exact Hd'.
      + destruct (simple_no_spurious line omatch ohint ocon MAX NBUF ds lines
                    (r_key r) HMAX Hn) as (bs' & E' & Hr').
        rewrite E in E'. inversion E'; subst bs'.
        assert (Hf : In r (results_for (r_key r) (concat bs))).
        { unfold results_for. apply filter_In. split; [exact Hr|].
          apply Z.eqb_refl. }
        rewrite Hr' in Hf. destruct Hf.
  Qed.

  (* ================================================== THE COMPOSITION *)
  Theorem single_file_run_exact prev f since restrictions ds :
    wf f -> keys_ok s_key ds ->
    (seeks since restrictions (map s_key ds) = true ->
     seek_hyps H A L W tsw (stream f)) ->
    (forall d, In d ds ->
       uniform line ocon (s_cons d)
               (searched W tsw line classify since restrictions
                         (map s_key ds) (stream f))) ->
    observe (simple_view ds)
            (run_simple H A L W tsw line classify omatch ohint ocon MAX NBUF
                        prev f since restrictions ds) =
    Some (spec_run W tsw line classify omatch ohint ocon since restrictions
                   ds (stream f)).
  Proof.
    intros Hwf Hk Hs Hu. unfold run_simple, run_one.
    (* C12: the task searches the file's stream *)
    rewrite (execute_dispatch H A L W tsw line classify HH HA result
               (simple_ids ds) (exec ds) (simple_exec_nil ds) since
               restrictions f Hwf).
    (* C04 + C11 + the byte -> line bridge: which lines are searched *)
    rewrite <- seeks_ids in Hs.
    rewrite (stream_searched H A L W tsw line classify HH HA result
               (simple_ids ds) (exec ds) since restrictions (stream f) HL Hs).
    cbv zeta. rewrite searched_ids.
    set (lines := searched W tsw line classify since restrictions
                           (map s_key ds) (stream f)) in *.
    (* C17: the task terminates and counts what it delivers *)
    destruct (task_counts_its_collection line sdef unit result s_key s_cons
                ocon (fun _ => tt) (simple_step line omatch ohint)
                (fun _ _ => []) MAX NBUF HMAX ds lines)
      as (bs & E & _ & _).
    change (exec ds lines = TaskOk bs) in E. rewrite E.
    cbn [lift observe collected]. unfold spec_run. fold lines.
    f_equal. f_equal.
    - (* C01 / C07 per definition *)
      unfold simple_view. apply map_ext_in. intros d Hd. f_equal.
      exact (simple_results_exact ds lines d bs Hk Hd (Hu d Hd) E).
    - (* C17 for one file, C01 for the total *)
      rewrite single_file_stats. f_equal.
      exact (simple_total ds lines bs Hk Hu E).
  Qed.

  (* C12: plain, gzip, multi-member gzip - the outcome of the run depends
     on the (decompressed) stream only; no hypothesis on the content *)
  Theorem run_simple_kind_irrelevant prev f g since restrictions ds :
    wf f -> wf g -> stream f = stream g ->
    run_simple H A L W tsw line classify omatch ohint ocon MAX NBUF prev f
               since restrictions ds =
    run_simple H A L W tsw line classify omatch ohint ocon MAX NBUF prev g
               since restrictions ds.
  Proof.
    intros Hf Hg Es. unfold run_simple, run_one.
    rewrite (gzip_transparent (task_out result)
               (search_stream H A L W tsw line classify result (simple_ids ds)
                              (exec ds) since restrictions)
               (TkDone [] empty_task_stats)
               (stream_nil H A L W tsw line classify HH HA result
                           (simple_ids ds) (exec ds) (simple_exec_nil ds)
                           since restrictions) f g Hf Hg Es).
    reflexivity.
  Qed.

  (* the same statement for the line-position view: C01/C07's whole-file
     model, instantiated with apply_to_file, searches the specification's
     lines (what C01_numbering_from_first_searched_line leaves open: WHERE
     the first searched line is) *)
  Theorem run_file_searches_spec_lines since restrictions ds c :
    (seeks since restrictions (map s_key ds) = true ->
     seek_hyps H A L W tsw c) ->
    simple_stream_lines H A L W tsw line classify omatch ohint ocon MAX NBUF
                        ds since restrictions c =
    exec ds (searched W tsw line classify since restrictions (map s_key ds) c).
  Proof.
    intros Hs. rewrite <- seeks_ids in Hs. rewrite <- searched_ids.
    pose proof (simple_stream_is_run_file ds since restrictions c) as Hv.
    pose proof (stream_searched H A L W tsw line classify HH HA result
                  (simple_ids ds) (exec ds) since restrictions c HL Hs) as Hq.
    cbv zeta in Hq. unfold simple_stream in Hv. rewrite Hq in Hv.
    pose proof (apply_global_views H A L W tsw c since restrictions
                                   (simple_ids ds)) as Hg.
    destruct (apply_global_position H A L W tsw HH HA c since restrictions
                (simple_ids ds) HL Hs) as (off & applied & Eg & Ea).
    rewrite Eg in Hg. rewrite Hg, Ea in Hv.
    set (t1 := exec ds _) in *.
    set (t2 := simple_stream_lines _ _ _ _ _ _ _ _ _ _ _ _ _ _ _ _) in *.
    destruct t1 as [b1|], t2 as [b2|]; cbn [lift] in Hv; try discriminate;
      [inversion Hv; reflexivity|reflexivity].
  Qed.
End Simple.
