(* C03 - proofs for one sequence definition: the model's exported results are
   exactly the specification's sections, each under its own id. *)
From Coq Require Import ZArith List Bool Arith Lia.
From SK Require Import Model.Sequence Spec.Sequence.
Import ListNotations.
Open Scope Z_scope.

(* ------------------------------------------------ association lists *)
Definition keys {A} (d : list (nat * list A)) : list nat := map fst d.

Lemma alist_add_fresh {A} k (x : A) g :
  ~ In k (keys g) -> alist_add k x g = g ++ [(k, [x])].
Proof.
  induction g as [|[k' l] g IH]; simpl; intros H; [reflexivity|].
  destruct (Nat.eqb_spec k' k) as [E|E].
  - exfalso. apply H. left. exact E.
  - rewrite IH; [reflexivity|]. intros Hin. apply H. right. exact Hin.
Qed.

Lemma alist_add_last {A} k (x : A) g l :
  ~ In k (keys g) -> alist_add k x (g ++ [(k, l)]) = g ++ [(k, l ++ [x])].
Proof.
  induction g as [|[k' l'] g IH]; simpl; intros H.
  - rewrite Nat.eqb_refl. reflexivity.
  - destruct (Nat.eqb_spec k' k) as [E|E].
    + exfalso. apply H. left. exact E.
    + rewrite IH; [reflexivity|]. intros Hin. apply H. right. exact Hin.
Qed.

(* a block: one section id with its items *)
Definition tag_block (b : nat * list item) : list part :=
  map (pair (fst b)) (snd b).
Definition flat (blocks : list (nat * list item)) : list part :=
  flat_map tag_block blocks.

Definition add_part (g : list (nat * list item)) (p : part) :=
  alist_add (fst p) (snd p) g.

Lemma fold_block_tail id its g l :
  ~ In id (keys g) ->
  fold_left add_part (map (pair id) its) (g ++ [(id, l)])
  = g ++ [(id, l ++ its)].
Proof.
  revert l. induction its as [|x its IH]; simpl; intros l H.
  - rewrite app_nil_r. reflexivity.
  - unfold add_part at 2. simpl. rewrite alist_add_last by exact H.
    rewrite IH by exact H. rewrite <- app_assoc. reflexivity.
Qed.

Lemma fold_block id its g :
  ~ In id (keys g) -> its <> [] ->
  fold_left add_part (map (pair id) its) g = g ++ [(id, its)].
Proof.
  intros H Hne. destruct its as [|x its]; [contradiction|]. simpl.
  unfold add_part at 2. simpl. rewrite alist_add_fresh by exact H.
  rewrite fold_block_tail by exact H. reflexivity.
Qed.

Lemma group_flat_gen blocks : forall g,
  NoDup (keys g ++ keys blocks) ->
  Forall (fun b => snd b <> []) blocks ->
  fold_left add_part (flat blocks) g = g ++ blocks.
Proof.
  induction blocks as [|[id its] blocks IH]; simpl; intros g Hnd Hne.
  - rewrite app_nil_r. reflexivity.
  - inversion Hne as [|? ? Hne1 Hne2]; subst. simpl in Hne1.
    rewrite fold_left_app. unfold tag_block at 1. simpl.
    assert (Hfresh : ~ In id (keys g)).
    { intros Hin. apply NoDup_remove_2 in Hnd. apply Hnd.
      apply in_or_app. left. exact Hin. }
    rewrite fold_block by assumption.
    rewrite IH.
    + rewrite <- app_assoc. reflexivity.
    + unfold keys in *. rewrite map_app. simpl. rewrite <- app_assoc. simpl.
      exact Hnd.
    + exact Hne2.
Qed.

(* grouping a concatenation of non-empty blocks with pairwise distinct ids
   gives back the blocks *)
Lemma group_flat blocks :
  NoDup (keys blocks) -> Forall (fun b => snd b <> []) blocks ->
  group_by_section (flat blocks) = blocks.
Proof.
  intros Hnd Hne. unfold group_by_section.
  change (fold_left add_part (flat blocks) [] = blocks).
  rewrite group_flat_gen; auto.
Qed.

(* ------------------------------------------------ tagged sections *)
Definition tagged (ids : list nat) (secs : list section) : list part :=
  flat (combine ids (map section_items secs)).

Lemma combine_app {A B} (a1 a2 : list A) (b1 b2 : list B) :
  length a1 = length b1 ->
  combine (a1 ++ a2) (b1 ++ b2) = combine a1 b1 ++ combine a2 b2.
Proof.
  revert b1. induction a1 as [|x a1 IH]; intros [|y b1] H; simpl in *;
    try discriminate; [reflexivity|]. f_equal. apply IH. lia.
Qed.

Lemma tagged_app ids1 ids2 s1 s2 :
  length ids1 = length s1 ->
  tagged (ids1 ++ ids2) (s1 ++ s2) = tagged ids1 s1 ++ tagged ids2 s2.
Proof.
  intros H. unfold tagged, flat. rewrite map_app.
  rewrite combine_app by (rewrite map_length; exact H).
  rewrite flat_map_app. reflexivity.
Qed.

Lemma tagged_one id s : tagged [id] [s] = map (pair id) (section_items s).
Proof. unfold tagged, flat. simpl. rewrite app_nil_r. reflexivity. Qed.

Lemma tagged_snoc ids secs id s :
  length ids = length secs ->
  tagged (ids ++ [id]) (secs ++ [s])
  = tagged ids secs ++ map (pair id) (section_items s).
Proof. intros H. rewrite tagged_app by exact H. rewrite tagged_one. reflexivity. Qed.

Lemma tagged_ids ids secs p : In p (tagged ids secs) -> In (fst p) ids.
Proof.
  unfold tagged, flat. rewrite in_flat_map. intros [[id its] [Hb Hp]].
  unfold tag_block in Hp. simpl in Hp. rewrite in_map_iff in Hp.
  destruct Hp as [x [Hx _]]. subst p. simpl.
  apply in_combine_l in Hb. exact Hb.
Qed.

Lemma keys_combine {B} (ids : list nat) (xs : list (list B)) :
  length ids = length xs -> keys (combine ids xs) = ids.
Proof.
  revert xs. induction ids as [|i ids IH]; intros [|x xs] H; simpl in *;
    try discriminate; [reflexivity|]. f_equal. apply IH. lia.
Qed.

Lemma section_items_nonempty s : section_items s <> [].
Proof. unfold section_items. simpl. discriminate. Qed.

Lemma group_tagged ids secs :
  NoDup ids -> length ids = length secs ->
  group_by_section (tagged ids secs) = combine ids (map section_items secs).
Proof.
  intros Hnd Hlen. unfold tagged. apply group_flat.
  - rewrite keys_combine; [exact Hnd | rewrite map_length; exact Hlen].
  - rewrite Forall_forall. intros [id its] Hin. simpl.
    apply in_combine_r in Hin. rewrite in_map_iff in Hin.
    destruct Hin as [s [Hs _]]. subst its. apply section_items_nonempty.
Qed.

Lemma report_tagged ids secs :
  NoDup ids -> length ids = length secs ->
  report (tagged ids secs) = map section_items secs.
Proof.
  intros Hnd Hlen. unfold report. rewrite group_tagged by assumption.
  revert ids Hnd Hlen. induction secs as [|s secs IH]; intros [|i ids] Hnd Hlen;
    simpl in *; try discriminate; [reflexivity|].
  f_equal. apply IH; [inversion Hnd; assumption | lia].
Qed.

(* ------------------------------------------------ filter lemmas *)
Lemma filter_keep_all s (l : list part) :
  (forall p, In p l -> fst p <> s) -> filter (keep_other s) l = l.
Proof.
  induction l as [|p l IH]; simpl; intros H; [reflexivity|].
  unfold keep_other at 1. destruct (Nat.eqb_spec (fst p) s) as [E|E]; simpl.
  - exfalso. apply (H p); [left; reflexivity | exact E].
  - f_equal. apply IH. intros q Hq. apply H. right. exact Hq.
Qed.

Lemma filter_drop_all s (its : list item) :
  filter (keep_other s) (map (pair s) its) = [].
Proof.
  induction its as [|x its IH]; simpl; [reflexivity|].
  unfold keep_other at 1. simpl. rewrite Nat.eqb_refl. simpl. exact IH.
Qed.

Lemma filter_open ids secs s its :
  ~ In s ids ->
  filter (keep_other s) (tagged ids secs ++ map (pair s) its) = tagged ids secs.
Proof.
  intros H. rewrite filter_app, filter_drop_all, app_nil_r.
  apply filter_keep_all. intros p Hp E. apply H. rewrite <- E.
  eapply tagged_ids. exact Hp.
Qed.

(* ------------------------------------------------ the invariant *)
Definition open_items (o : osec) : list item :=
  (fst (fst o), RStart, snd (fst o))
    :: map (fun h : hit => (fst h, RBody, snd h)) (snd o).

Lemma close_items_end o e :
  section_items (close o (Some e)) = open_items o ++ [(fst e, REnd, snd e)].
Proof. reflexivity. Qed.

Lemma close_items_noend o : section_items (close o None) = open_items o.
Proof. unfold section_items, open_items. simpl. rewrite app_nil_r. reflexivity. Qed.

Lemma open_items_body o ln v :
  open_items (fst o, snd o ++ [(ln, v)]) = open_items o ++ [(ln, RBody, v)].
Proof. unfold open_items. simpl. rewrite map_app. reflexivity. Qed.

Lemma open_items_new (n : nat) ln v :
  map (pair n) (open_items ((ln, v), [])) = [(n, (ln, RStart, v))].
Proof. reflexivity. Qed.

(* [ids]/[done]: the sections completed so far with their ids; [open]: the
   parser's open section, held by the model under id [cur] *)
Definition Inv (st : sstate) (ids : list nat) (done : list section)
           (open : option osec) : Prop :=
  let k := fst st in
  length ids = length done /\ NoDup ids /\
  (forall i, In i ids -> (i < next k)%nat) /\
  match open with
  | None => started k = false /\ snd st = tagged ids done
  | Some o =>
      started k = true /\ (cur k < next k)%nat /\ ~ In (cur k) ids /\
      snd st = tagged ids done ++ map (pair (cur k)) (open_items o)
  end.

(* other definitions drew uuids in between: only [next] moved *)
Definition bump (st st' : sstate) : Prop :=
  started (fst st') = started (fst st) /\ cur (fst st') = cur (fst st) /\
  (next (fst st) <= next (fst st'))%nat /\ snd st' = snd st.

Lemma bump_refl st : bump st st.
Proof. unfold bump. repeat split; lia. Qed.

Lemma bump_trans a b c : bump a b -> bump b c -> bump a c.
Proof.
  unfold bump. intros (A1 & A2 & A3 & A4) (B1 & B2 & B3 & B4).
  repeat split; try congruence; lia.
Qed.

Lemma Inv_bump st st' ids done open :
  Inv st ids done open -> bump st st' -> Inv st' ids done open.
Proof.
  unfold Inv, bump. intros (Hl & Hnd & Hlt & Ho) (B1 & B2 & B3 & B4).
  repeat split; try assumption.
  - intros i Hi. specialize (Hlt i Hi). lia.
  - destruct open as [o|].
    + destruct Ho as (O1 & O2 & O3 & O4). rewrite B1, B2, B4.
      repeat split; try assumption. lia.
    + destruct Ho as (O1 & O2). rewrite B1, B4. split; assumption.
Qed.

Lemma notin_snoc (i : nat) ids c : ~ In i ids -> i <> c -> ~ In i (ids ++ [c]).
Proof.
  intros H1 H2 Hin. apply in_app_or in Hin. destruct Hin as [Hin|[Hin|[]]];
    [apply H1; exact Hin | apply H2; symmetry; exact Hin].
Qed.

Lemma NoDup_snoc (ids : list nat) c : NoDup ids -> ~ In c ids -> NoDup (ids ++ [c]).
Proof.
  intros Hnd Hc. induction ids as [|i ids IH]; simpl.
  - constructor; [intros [] | constructor].
  - inversion Hnd as [|? ? Hi Hnd']; subst. constructor.
    + apply notin_snoc; [exact Hi|]. intros E. apply Hc. left. exact E.
    + apply IH; [exact Hnd'|]. intros Hin. apply Hc. right. exact Hin.
Qed.

Lemma lt_snoc (ids : list nat) c n :
  (forall i, In i ids -> (i < n)%nat) -> (c < n)%nat ->
  forall i, In i (ids ++ [c]) -> (i < n)%nat.
Proof.
  intros H Hc i Hin. apply in_app_or in Hin.
  destruct Hin as [Hin|[Hin|[]]]; [apply H; exact Hin | subst; exact Hc].
Qed.

Lemma lt_weaken (ids : list nat) n m :
  (forall i, In i ids -> (i < n)%nat) -> (n <= m)%nat ->
  forall i, In i ids -> (i < m)%nat.
Proof. intros H Hnm i Hi. specialize (H i Hi). lia. Qed.

Lemma lt_notin (ids : list nat) n :
  (forall i, In i ids -> (i < n)%nat) -> forall m, (n <= m)%nat -> ~ In m ids.
Proof. intros H m Hm Hin. specialize (H m Hin). lia. Qed.

Opaque open_items tagged section_items.

(* one line: the model's step follows the parser's step *)
Lemma step_inv sh st ids done open ln c out open' :
  Inv st ids done open ->
  on_line sh open ln c = (out, open') ->
  exists ids', Inv (seq_step sh st ln c) (ids ++ ids') (done ++ out) open'.
Proof.
  destruct st as [[stt cu nx] acc].
  destruct sh as [he hb ee]. destruct c as [cs ce cb].
  unfold Inv, seq_step, seq_step_with, ctl_step, ctl_step_with, on_line.
  simpl. intros (Hlen & Hnd & Hlt & Ho) Hon.
  destruct open as [o|].
  - (* a section is open *)
    destruct Ho as (Hst & Hcur & Hnin & Hacc). subst stt acc.
    destruct cs as [v|].
    + destruct he; simpl in *; inversion Hon; subst out open'; clear Hon.
      * (* restart: discard the open section only *)
        exists []. rewrite !app_nil_r. simpl.
        rewrite filter_open by exact Hnin.
        repeat split; try assumption.
        -- eapply lt_weaken; [exact Hlt | lia].
        -- lia.
        -- eapply lt_notin; [exact Hlt | lia].
      * (* no end: the start closes and opens the next one *)
        exists [cu]. simpl.
        rewrite tagged_snoc by exact Hlen. rewrite close_items_noend.
        repeat split.
        -- rewrite !app_length. simpl. lia.
        -- apply NoDup_snoc; assumption.
        -- apply lt_snoc; [eapply lt_weaken; [exact Hlt | lia] | lia].
        -- lia.
        -- apply notin_snoc; [eapply lt_notin; [exact Hlt | lia] | lia].
    + destruct he; simpl in *.
      * destruct ce as [e|]; simpl in *.
        -- (* the end closes *)
           inversion Hon; subst out open'; clear Hon.
           exists [cu]. simpl.
           rewrite tagged_snoc by exact Hlen. rewrite close_items_end.
           rewrite map_app. simpl. rewrite app_assoc.
           repeat split.
           ++ rewrite !app_length. simpl. lia.
           ++ apply NoDup_snoc; assumption.
           ++ apply lt_snoc; [eapply lt_weaken; [exact Hlt | lia] | lia].
        -- (* neither start nor end: maybe a body match *)
           inversion Hon; subst out open'; clear Hon.
           exists []. rewrite !app_nil_r. unfold with_body. simpl.
           destruct hb; simpl; [destruct cb as [b|]; simpl|];
             repeat split; try assumption.
           rewrite open_items_body, map_app, app_assoc. reflexivity.
      * inversion Hon; subst out open'; clear Hon.
        exists []. rewrite !app_nil_r. unfold with_body. simpl.
        destruct hb; simpl; [destruct cb as [b|]; simpl|];
          repeat split; try assumption.
        rewrite open_items_body, map_app, app_assoc. reflexivity.
  - (* no section is open *)
    destruct Ho as (Hst & Hacc). subst stt acc.
    rewrite andb_false_r. simpl.
    destruct cs as [v|]; simpl in *; inversion Hon; subst out open'; clear Hon;
      exists []; rewrite !app_nil_r; simpl.
    + repeat split; try assumption.
      * eapply lt_weaken; [exact Hlt | lia].
      * lia.
      * eapply lt_notin; [exact Hlt | lia].
    + repeat split; assumption.
Qed.

(* a run of one definition during which other users of the uuid source may
   draw ids between its steps *)
Inductive runs (sh : shape) : sstate -> Z -> list cline -> sstate -> Z -> Prop :=
| runs_nil st st' ln : bump st st' -> runs sh st ln [] st' ln
| runs_cons st stb ln c r st' ln' :
    bump st stb ->
    runs sh (seq_step sh stb (ln + 1) c) (ln + 1) r st' ln' ->
    runs sh st ln (c :: r) st' ln'.

Lemma runs_bump_left sh a b ln l st' ln' :
  bump a b -> runs sh b ln l st' ln' -> runs sh a ln l st' ln'.
Proof.
  intros Hab Hr. inversion Hr; subst.
  - constructor. eapply bump_trans; eassumption.
  - econstructor; [eapply bump_trans; eassumption | eassumption].
Qed.

Lemma seq_loop_runs sh l : forall st ln st' ln',
  seq_loop sh st ln l = (st', ln') -> runs sh st ln l st' ln'.
Proof.
  induction l as [|c r IH]; simpl; intros st ln st' ln' H.
  - inversion H; subst. constructor. apply bump_refl.
  - econstructor; [apply bump_refl|]. apply IH. exact H.
Qed.

Lemma runs_inv sh st ln l st' ln' :
  runs sh st ln l st' ln' ->
  forall ids done open cl fin n,
    Inv st ids done open ->
    scan sh open (ln + 1) l = (cl, fin, n) ->
    exists ids', Inv st' (ids ++ ids') (done ++ cl) fin /\ n = ln' + 1.
Proof.
  induction 1 as [st st' ln Hb | st stb ln c r st' ln' Hb Hr IH];
    intros ids done open cl fin n HI Hs.
  - simpl in Hs. inversion Hs; subst. exists []. rewrite !app_nil_r.
    split; [eapply Inv_bump; eassumption | reflexivity].
  - simpl in Hs.
    destruct (on_line sh open (ln + 1) c) as [out open1] eqn:Eon.
    destruct (scan sh open1 (ln + 1 + 1) r) as [[rest fin1] n1] eqn:Esc.
    inversion Hs; subst cl fin n; clear Hs.
    assert (HIb : Inv stb ids done open) by (eapply Inv_bump; eassumption).
    destruct (step_inv _ _ _ _ _ _ _ _ _ HIb Eon) as [ids1 HI1].
    destruct (IH _ _ _ _ _ _ HI1 Esc) as [ids2 [HI2 Hn]].
    exists (ids1 ++ ids2). rewrite !app_assoc. split; assumption.
Qed.

(* end of file *)
Lemma eof_inv sh st ids done open ln :
  Inv st ids done open ->
  exists ids',
    NoDup (ids ++ ids') /\
    length (ids ++ ids') = length (done ++ at_eof sh (ln + 1) open) /\
    seq_eof sh st ln = tagged (ids ++ ids') (done ++ at_eof sh (ln + 1) open).
Proof.
  destruct st as [[stt cu nx] acc]. destruct sh as [he hb ee].
  unfold Inv, seq_eof, at_eof. simpl. intros (Hlen & Hnd & Hlt & Ho).
  destruct open as [o|].
  - destruct Ho as (Hst & Hcur & Hnin & Hacc). subst stt acc. simpl.
    destruct he; simpl.
    + destruct ee as [v|].
      * exists [cu]. rewrite tagged_snoc by exact Hlen.
        rewrite close_items_end, map_app. simpl. rewrite app_assoc.
        repeat split.
        -- apply NoDup_snoc; assumption.
        -- rewrite !app_length. simpl. lia.
      * exists []. rewrite !app_nil_r. rewrite filter_open by exact Hnin.
        repeat split; assumption.
    + exists [cu]. rewrite tagged_snoc by exact Hlen.
      rewrite close_items_noend.
      repeat split.
      * apply NoDup_snoc; assumption.
      * rewrite !app_length. simpl. lia.
  - destruct Ho as (Hst & Hacc). subst stt acc. simpl.
    exists []. rewrite !app_nil_r. repeat split; assumption.
Qed.

Transparent open_items tagged section_items.

Lemma Inv_init : Inv init_state [] [] None.
Proof.
  unfold Inv, init_state. simpl.
  split; [reflexivity|]. split; [constructor|].
  split; [intros i []|]. split; reflexivity.
Qed.

(* any run (with or without interference on the uuid source) that starts in
   the initial state exports the sections of the specification *)
Lemma runs_exact sh l st ln :
  runs sh init_state 0 l st ln ->
  exists ids, NoDup ids /\ length ids = length (sections sh l) /\
              seq_eof sh st ln = tagged ids (sections sh l).
Proof.
  intros Hr. unfold sections.
  destruct (scan sh None 1 l) as [[cl fin] n] eqn:Esc.
  destruct (runs_inv _ _ _ _ _ _ Hr [] [] None cl fin n Inv_init Esc)
    as [ids1 [HI Hn]].
  destruct (eof_inv sh st _ _ _ ln HI) as [ids2 (Hnd & Hlen & Heq)].
  subst n. simpl in *. exists (ids1 ++ ids2). repeat split; assumption.
Qed.

Lemma seq_run_runs sh l :
  exists st ln, runs sh init_state 0 l st ln /\ seq_run sh l = seq_eof sh st ln.
Proof.
  unfold seq_run, seq_run_with.
  destruct (seq_loop_with ctl_step sh init_state 0 l) as [st ln] eqn:E.
  exists st, ln. split; [apply seq_loop_runs; exact E | reflexivity].
Qed.

(* THE exactness statement, strong form: the exported result list is the
   concatenation of the specification's sections in order, each carrying
   one id, the ids pairwise distinct *)
Lemma sequence_exact_tagged sh l :
  exists ids, NoDup ids /\ length ids = length (sections sh l) /\
              seq_run sh l = tagged ids (sections sh l).
Proof.
  destruct (seq_run_runs sh l) as (st & ln & Hr & Heq). rewrite Heq.
  eapply runs_exact. exact Hr.
Qed.

Lemma sequence_exact_report sh l : report (seq_run sh l) = spec_report sh l.
Proof.
  destruct (sequence_exact_tagged sh l) as (ids & Hnd & Hlen & Heq).
  rewrite Heq. apply report_tagged; assumption.
Qed.

Lemma sequence_exact_groups sh l :
  exists ids, NoDup ids /\
    group_by_section (seq_run sh l)
    = combine ids (map section_items (sections sh l)) /\
    length ids = length (sections sh l).
Proof.
  destruct (sequence_exact_tagged sh l) as (ids & Hnd & Hlen & Heq).
  exists ids. rewrite Heq. repeat split; try assumption.
  apply group_tagged; assumption.
Qed.

(* ------------------------------------------------ spec: line order *)
Lemma increasing_snoc (l : list Z) x :
  increasing l -> Forall (fun y => y < x) l -> increasing (l ++ [x]).
Proof.
  induction l as [|a l IH]; simpl; intros Hi Hf; [split; exact I|].
  destruct Hi as [Ha Hi]. inversion Hf as [|? ? Hax Hf']; subst. split.
  - destruct l as [|b l']; simpl; [exact Hax | exact Ha].
  - apply IH; assumption.
Qed.

Definition items_ok (its : list item) (hi : Z) : Prop :=
  increasing (map item_ln its) /\ Forall (fun y => y < hi) (map item_ln its).

Lemma items_ok_snoc its hi x :
  items_ok its hi -> item_ln x = hi -> items_ok (its ++ [x]) (hi + 1).
Proof.
  intros [Hi Hf] Hx. unfold items_ok. rewrite map_app. simpl. split.
  - apply increasing_snoc; [exact Hi | rewrite Hx; exact Hf].
  - apply Forall_app. split.
    + eapply Forall_impl; [|exact Hf]. simpl. intros; lia.
    + constructor; [lia | constructor].
Qed.

Lemma items_ok_weaken its hi : items_ok its hi -> items_ok its (hi + 1).
Proof.
  intros [Hi Hf]. split; [exact Hi|].
  eapply Forall_impl; [|exact Hf]. simpl. intros; lia.
Qed.

Definition open_ok (open : option osec) (hi : Z) : Prop :=
  match open with None => True | Some o => items_ok (open_items o) hi end.

Definition sec_ok (s : section) : Prop := increasing (map item_ln (section_items s)).

Lemma on_line_ok sh open ln c out open' :
  open_ok open ln -> on_line sh open ln c = (out, open') ->
  Forall sec_ok out /\ open_ok open' (ln + 1).
Proof.
  destruct sh as [he hb ee]. destruct c as [cs ce cb].
  unfold on_line, open_ok. simpl. intros Ho Hon.
  assert (Hnew : forall v, items_ok (open_items ((ln, v), [])) (ln + 1)).
  { intros v. unfold items_ok, open_items, item_ln. simpl. repeat split.
    constructor; [lia | constructor]. }
  assert (Hbody : forall o, items_ok (open_items o) ln ->
            items_ok (open_items
              (with_body {| has_end := he; has_body := hb; end_empty := ee |}
                         o ln {| c_start := cs; c_end := ce; c_body := cb |}))
              (ln + 1)).
  { intros o H. unfold with_body. simpl.
    destruct hb; [destruct cb as [b|]|]; try (apply items_ok_weaken; exact H).
    rewrite open_items_body. apply items_ok_snoc; [exact H | reflexivity]. }
  destruct open as [o|]; destruct cs as [v|]; simpl in *.
  - destruct he; inversion Hon; subst; split; auto.
    constructor; [|constructor]. unfold sec_ok. rewrite close_items_noend.
    exact (proj1 Ho).
  - destruct he; [destruct ce as [e|]|]; inversion Hon; subst; split; auto;
      try exact I.
    constructor; [|constructor]. unfold sec_ok. rewrite close_items_end.
    simpl. exact (proj1 (items_ok_snoc _ _ (ln, REnd, e) Ho eq_refl)).
  - inversion Hon; subst. split; auto.
  - inversion Hon; subst. split; auto.
Qed.

Lemma scan_ok sh l : forall open ln cl fin n,
  open_ok open ln -> scan sh open ln l = (cl, fin, n) ->
  Forall sec_ok cl /\ open_ok fin n.
Proof.
  induction l as [|c r IH]; simpl; intros open ln cl fin n Ho Hs.
  - inversion Hs; subst. split; [constructor | exact Ho].
  - destruct (on_line sh open ln c) as [out open1] eqn:Eon.
    destruct (scan sh open1 (ln + 1) r) as [[rest fin1] n1] eqn:Esc.
    inversion Hs; subst; clear Hs.
    destruct (on_line_ok _ _ _ _ _ _ Ho Eon) as [H1 H2].
    destruct (IH _ _ _ _ _ H2 Esc) as [H3 H4].
    split; [apply Forall_app; split; assumption | exact H4].
Qed.

Lemma sections_line_order sh l : Forall sec_ok (sections sh l).
Proof.
  unfold sections. destruct (scan sh None 1 l) as [[cl fin] n] eqn:Esc.
  destruct (scan_ok sh l None 1 cl fin n I Esc) as [H1 H2].
  apply Forall_app. split; [exact H1|].
  unfold at_eof. destruct fin as [o|]; [|constructor].
  simpl in H2. destruct (has_end sh).
  - destruct (end_empty sh) as [v|]; [|constructor].
    constructor; [|constructor]. unfold sec_ok. rewrite close_items_end.
    exact (proj1 (items_ok_snoc _ _ (n, REnd, v) H2 eq_refl)).
  - constructor; [|constructor]. unfold sec_ok. rewrite close_items_noend.
    exact (proj1 H2).
Qed.

Lemma report_line_order sh l :
  Forall (fun its => increasing (map item_ln its)) (report (seq_run sh l)).
Proof.
  rewrite sequence_exact_report. unfold spec_report.
  rewrite Forall_map. exact (sections_line_order sh l).
Qed.

(* ------------------------------------------------ earlier sections stable *)
Lemma scan_app sh l1 : forall l2 open ln c1 o1 n1 c2 o2 n2,
  scan sh open ln l1 = (c1, o1, n1) ->
  scan sh o1 n1 l2 = (c2, o2, n2) ->
  scan sh open ln (l1 ++ l2) = (c1 ++ c2, o2, n2).
Proof.
  induction l1 as [|c r IH]; simpl; intros l2 open ln c1 o1 n1 c2 o2 n2 H1 H2.
  - inversion H1; subst. exact H2.
  - destruct (on_line sh open ln c) as [out open1] eqn:Eon.
    destruct (scan sh open1 (ln + 1) r) as [[rest fin1] n1'] eqn:Esc.
    inversion H1; subst; clear H1.
    rewrite (IH _ _ _ _ _ _ _ _ _ Esc H2). rewrite app_assoc. reflexivity.
Qed.

(* spec level: the sections closed within l1 are a prefix of the sections
   of l1 alone and of l1 followed by anything *)
Lemma sections_prefix sh l1 l2 :
  (exists tail, sections sh l1 = closed_sections sh l1 ++ tail /\
                (length tail <= 1)%nat) /\
  (exists rest, sections sh (l1 ++ l2) = closed_sections sh l1 ++ rest).
Proof.
  unfold sections, closed_sections.
  destruct (scan sh None 1 l1) as [[c1 o1] n1] eqn:E1.
  destruct (scan sh o1 n1 l2) as [[c2 o2] n2] eqn:E2.
  rewrite (scan_app _ _ _ _ _ _ _ _ _ _ _ E1 E2). simpl. split.
  - eexists. split; [reflexivity|]. unfold at_eof.
    destruct o1; [destruct (has_end sh); [destruct (end_empty sh)|]|]; simpl; lia.
  - eexists. rewrite <- app_assoc. reflexivity.
Qed.

Lemma seq_loop_app sh l1 : forall l2 st ln st1 ln1,
  seq_loop sh st ln l1 = (st1, ln1) ->
  seq_loop sh st ln (l1 ++ l2) = seq_loop sh st1 ln1 l2.
Proof.
  induction l1 as [|c r IH]; simpl; intros l2 st ln st1 ln1 H.
  - inversion H; subst. reflexivity.
  - apply IH. exact H.
Qed.

(* model level: both reports start with the same sections under the same
   ids; nothing that follows l1 touches them *)
Lemma stable_tagged sh l1 l2 :
  exists ids j1 j2 more1 more2,
    length ids = length (closed_sections sh l1) /\
    NoDup (ids ++ j1) /\ NoDup (ids ++ j2) /\
    length j1 = length more1 /\ length j2 = length more2 /\
    seq_run sh l1 = tagged (ids ++ j1) (closed_sections sh l1 ++ more1) /\
    seq_run sh (l1 ++ l2) = tagged (ids ++ j2) (closed_sections sh l1 ++ more2).
Proof.
  unfold seq_run, seq_run_with, closed_sections.
  fold seq_loop.
  destruct (seq_loop sh init_state 0 l1) as [st1 ln1] eqn:EL1.
  rewrite (seq_loop_app _ _ _ _ _ _ _ EL1).
  destruct (seq_loop sh st1 ln1 l2) as [st2 ln2] eqn:EL2.
  destruct (scan sh None 1 l1) as [[c1 o1] n1] eqn:E1. simpl.
  pose proof (seq_loop_runs _ _ _ _ _ _ EL1) as R1.
  pose proof (seq_loop_runs _ _ _ _ _ _ EL2) as R2.
  destruct (runs_inv _ _ _ _ _ _ R1 [] [] None c1 o1 n1 Inv_init E1)
    as [ids [HI1 Hn1]]. simpl in HI1.
  destruct (scan sh o1 (ln1 + 1) l2) as [[c2 o2] n2] eqn:E2.
  destruct (runs_inv _ _ _ _ _ _ R2 _ _ _ c2 o2 n2 HI1 E2) as [i2 [HI2 Hn2]].
  destruct (eof_inv sh st1 _ _ _ ln1 HI1) as [e1 (Hnd1 & Hlen1 & Heq1)].
  destruct (eof_inv sh st2 _ _ _ ln2 HI2) as [e2 (Hnd2 & Hlen2 & Heq2)].
  assert (Hlen : length ids = length c1) by (destruct HI1 as [H _]; exact H).
  exists ids, e1, (i2 ++ e2), (at_eof sh (ln1 + 1) o1),
         (c2 ++ at_eof sh (ln2 + 1) o2).
  repeat rewrite app_length in Hlen1. repeat rewrite app_length in Hlen2.
  split; [exact Hlen|]. split; [exact Hnd1|].
  split; [rewrite app_assoc; exact Hnd2|].
  split; [lia|]. split; [repeat rewrite app_length; lia|].
  split; [exact Heq1|].
  rewrite Heq2. rewrite <- !app_assoc. reflexivity.
Qed.

Lemma firstn_combine_app {B} (i1 i2 : list nat) (x1 x2 : list B) :
  length i1 = length x1 ->
  firstn (length x1) (combine (i1 ++ i2) (x1 ++ x2)) = combine i1 x1.
Proof.
  intros H. rewrite combine_app by exact H.
  rewrite firstn_app.
  assert (Hc : length (combine i1 x1) = length x1).
  { rewrite combine_length. lia. }
  rewrite <- Hc at 1. rewrite firstn_all. rewrite Hc, Nat.sub_diag. simpl.
  apply app_nil_r.
Qed.

(* report level: the first n groups (ids included) are the same, and they
   are the sections closed within l1 *)
Lemma stable_groups sh l1 l2 :
  let n := length (closed_sections sh l1) in
  firstn n (group_by_section (seq_run sh (l1 ++ l2)))
  = firstn n (group_by_section (seq_run sh l1)) /\
  map snd (firstn n (group_by_section (seq_run sh l1)))
  = map section_items (closed_sections sh l1).
Proof.
  destruct (stable_tagged sh l1 l2)
    as (ids & j1 & j2 & m1 & m2 & Hl & Hn1 & Hn2 & Hj1 & Hj2 & E1 & E2).
  simpl. rewrite E1, E2.
  rewrite !group_tagged; try assumption;
    try (rewrite !app_length; lia).
  rewrite !map_app.
  assert (Hl' : length ids = length (map section_items (closed_sections sh l1)))
    by (rewrite map_length; exact Hl).
  replace (length (closed_sections sh l1))
    with (length (map section_items (closed_sections sh l1)))
    by apply map_length.
  rewrite !firstn_combine_app by exact Hl'.
  split; [reflexivity|].
  clear - Hl'. revert ids Hl'.
  induction (map section_items (closed_sections sh l1)) as [|x xs IH];
    intros [|i ids] H; simpl in *; try discriminate; [reflexivity|].
  f_equal. apply IH. lia.
Qed.

(* ------------------------------------------------ the repaired defect D3 *)
(* S,B,E,S,S,B,E with end and body defined *)
Definition d3_shape : shape :=
  {| has_end := true; has_body := true; end_empty := None |}.
Definition d3_word : list cline :=
  map mk_line [(1, 11, 12, 13); (4, 21, 22, 23); (2, 31, 32, 33);
               (1, 41, 42, 43); (1, 51, 52, 53); (4, 61, 62, 63);
               (2, 71, 72, 73)].

Lemma legacy_refuted :
  exists sh l, length (spec_report sh l) = 2%nat /\
               length (report (legacy_seq_run sh l)) = 1%nat /\
               report (seq_run sh l) = spec_report sh l.
Proof. exists d3_shape, d3_word. vm_compute. repeat split. Qed.

(* ------------------------------------------------ no end: one section per start *)
Definition is_start (c : cline) : bool :=
  match c_start c with Some _ => true | None => false end.
Definition open_count (o : option osec) : nat :=
  match o with Some _ => 1%nat | None => 0%nat end.

Lemma scan_noend_count sh l : has_end sh = false ->
  forall open ln cl fin n,
    scan sh open ln l = (cl, fin, n) ->
    (length cl + open_count fin
     = open_count open + length (filter is_start l))%nat.
Proof.
  intros Hne. induction l as [|c r IH]; simpl; intros open ln cl fin n Hs.
  - inversion Hs; subst. simpl. lia.
  - destruct (on_line sh open ln c) as [out open1] eqn:Eon.
    destruct (scan sh open1 (ln + 1) r) as [[rest fin1] n1] eqn:Esc.
    inversion Hs; subst cl fin n; clear Hs.
    specialize (IH _ _ _ _ _ Esc). rewrite app_length.
    unfold on_line in Eon. rewrite Hne in Eon.
    assert (Hst : is_start c = match c_start c with Some _ => true
                                                  | None => false end)
      by reflexivity.
    rewrite Hst. clear Hst.
    destruct open as [o|]; destruct (c_start c) as [v|];
      inversion Eon; subst out open1; simpl in *; lia.
Qed.

Lemma sections_noend_count sh l : has_end sh = false ->
  length (sections sh l) = length (filter is_start l).
Proof.
  intros Hne. unfold sections.
  destruct (scan sh None 1 l) as [[cl fin] n] eqn:Esc.
  pose proof (scan_noend_count sh l Hne _ _ _ _ _ Esc) as H. simpl in H.
  rewrite app_length. unfold at_eof. rewrite Hne.
  destruct fin; simpl in *; lia.
Qed.

(* a definition without an end reports exactly one section per line that
   matches its start pattern *)
Lemma report_noend_count sh l : has_end sh = false ->
  length (report (seq_run sh l)) = length (filter is_start l).
Proof.
  intros Hne. rewrite sequence_exact_report. unfold spec_report.
  rewrite map_length. apply sections_noend_count. exact Hne.
Qed.
