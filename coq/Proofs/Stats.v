From Coq Require Import ZArith List Bool Lia Permutation.
From SK Require Import Model.Stats Spec.Stats.
Import ListNotations.
Open Scope Z_scope.

Lemma lenZ_app {A} (a b : list A) : lenZ (a ++ b) = lenZ a + lenZ b.
Proof. unfold lenZ. rewrite app_length. lia. Qed.

Lemma put_counts_from {R} (bs : list (list R)) acc :
  fold_left (fun a b => a + lenZ b) bs acc = acc + lenZ (concat bs).
Proof.
  revert acc. induction bs as [|b r IH]; intros acc; cbn [fold_left concat].
  - unfold lenZ. cbn. lia.
  - rewrite IH. rewrite lenZ_app. lia.
Qed.

(* every result handed over is counted exactly once *)
Lemma put_counts_concat {R} (bs : list (list R)) :
  put_counts bs = lenZ (concat bs).
Proof. unfold put_counts. rewrite put_counts_from. lia. Qed.

Lemma sumZ_from l acc : fold_left Z.add l acc = acc + sumZ l.
Proof.
  unfold sumZ. revert acc. induction l as [|x r IH]; intros acc; cbn.
  - lia.
  - rewrite IH. rewrite (IH x). lia.
Qed.

Lemma sumZ_cons x l : sumZ (x :: l) = x + sumZ l.
Proof. unfold sumZ. cbn. rewrite sumZ_from. unfold sumZ. lia. Qed.

Lemma sumZ_perm l l' : Permutation l l' -> sumZ l = sumZ l'.
Proof.
  induction 1 as [|x l l' _ IH|x y l|l l' l'' _ IH1 _ IH2].
  - reflexivity.
  - rewrite !sumZ_cons. lia.
  - rewrite !sumZ_cons. lia.
  - lia.
Qed.

(* task stats carry only lines and results *)
Definition plain (t : stats) : Prop :=
  st_searches t = 0 /\ st_by_job t = [] /\ st_completed t = 0 /\
  st_total t = 0.

Lemma task_stats_plain {L R} (ls : list L) (bs : list (list R)) :
  plain (task_stats ls bs).
Proof. unfold plain, task_stats. cbn. auto. Qed.

Lemma fold_update_plain ts s :
  Forall plain ts ->
  let r := fold_left update ts s in
  st_searches r = st_searches s /\ st_by_job r = st_by_job s /\
  st_completed r = st_completed s /\ st_total r = st_total s /\
  st_lines r = st_lines s + sumZ (map st_lines ts) /\
  st_results r = st_results s + sumZ (map st_results ts).
Proof.
  revert s. induction ts as [|t r IH]; intros s Hp; cbn [fold_left map].
  - cbn. unfold sumZ. cbn. repeat split; lia.
  - inversion Hp as [|? ? Ht Hr]; subst.
    destruct Ht as (H1 & H2 & H3 & H4).
    specialize (IH (update s t) Hr). cbn zeta in IH.
    destruct IH as (I1 & I2 & I3 & I4 & I5 & I6).
    rewrite !sumZ_cons. cbn [update st_searches st_by_job st_completed
                              st_total st_lines st_results] in *.
    rewrite H1, H3, H4 in *. rewrite H2, app_nil_r in I2.
    repeat split; try lia; assumption.
Qed.

Lemma fold_mp_plain ts s :
  Forall plain ts ->
  let r := fold_left mp_step ts s in
  st_searches r = st_searches s /\ st_by_job r = st_by_job s /\
  st_completed r = st_completed s + lenZ ts /\ st_total r = st_total s /\
  st_lines r = st_lines s + sumZ (map st_lines ts) /\
  st_results r = st_results s + sumZ (map st_results ts).
Proof.
  revert s. induction ts as [|t r IH]; intros s Hp; cbn [fold_left map].
  - cbn. unfold sumZ, lenZ. cbn. repeat split; lia.
  - inversion Hp as [|? ? Ht Hr]; subst.
    destruct Ht as (H1 & H2 & H3 & H4).
    specialize (IH (mp_step s t) Hr).
    cbn zeta in IH. destruct IH as (I1 & I2 & I3 & I4 & I5 & I6).
    rewrite !sumZ_cons.
    cbn [mp_step update st_searches st_by_job st_completed st_total st_lines
                st_results] in *.
    rewrite H1, H3, H4 in *. rewrite H2, app_nil_r in I2.
    assert (lenZ (t :: r) = 1 + lenZ r) by (unfold lenZ; cbn [length]; lia).
    repeat split; try lia; assumption.
Qed.

Section Exact.
  Context {L R : Type}.

  (* what each task reports, given that the batches it handed over
     concatenate to the results delivered for its file (C01/C02/C03) *)
  Definition task_of (f : fobs L R) (batches : list (list R)) : stats :=
    task_stats (f_lines f) batches.

  Definition delivered (f : fobs L R) (batches : list (list R)) : Prop :=
    concat batches = f_results f.

  Lemma task_of_results f bs :
    delivered f bs -> st_results (task_of f bs) = lenZ (f_results f).
  Proof.
    intros H. unfold task_of, task_stats. cbn. rewrite put_counts_concat.
    rewrite H. reflexivity.
  Qed.

  Theorem stats_exact (prev : stats) (fs : list (fobs L R))
          (bss : list (list (list R))) (tasks' : list stats) :
    Forall2 delivered fs bss ->
    Permutation tasks' (map (fun p => task_of (fst p) (snd p))
                            (combine fs bss)) ->
    run_stats prev (map f_regs fs) tasks' = spec_stats fs.
  Proof.
    intros Hd Hperm.
    set (tasks := map (fun p => task_of (fst p) (snd p)) (combine fs bss))
      in *.
    assert (Hplain : Forall plain tasks').
    { apply Forall_forall. intros t Ht.
      apply (Permutation_in _ Hperm) in Ht. unfold tasks in Ht.
      apply in_map_iff in Ht. destruct Ht as [p [<- _]].
      apply task_stats_plain. }
    assert (Hlines : sumZ (map st_lines tasks')
                     = sumZ (map (fun f => lenZ (f_lines f)) fs)).
    { rewrite (sumZ_perm _ _ (Permutation_map st_lines Hperm)).
      unfold tasks. clear -Hd. induction Hd as [|f bs fs' bss' _ _ IH];
        [reflexivity|]. cbn [combine map]. rewrite !sumZ_cons, IH.
      reflexivity. }
    assert (Hres : sumZ (map st_results tasks')
                   = sumZ (map (fun f => lenZ (f_results f)) fs)).
    { rewrite (sumZ_perm _ _ (Permutation_map st_results Hperm)).
      unfold tasks. clear -Hd. induction Hd as [|f bs fs' bss' Hf _ IH];
        [reflexivity|]. cbn [combine map fst snd]. rewrite !sumZ_cons, IH.
      rewrite (task_of_results _ _ Hf). reflexivity. }
    assert (Hlen : lenZ tasks' = lenZ fs).
    { unfold lenZ. rewrite (Permutation_length Hperm). unfold tasks.
      rewrite map_length, combine_length.
      assert (Hl2 : length fs = length bss)
        by (clear -Hd; induction Hd; cbn; congruence).
      rewrite <- Hl2. rewrite Nat.min_id. reflexivity. }
    unfold run_stats, spec_stats.
    destruct fs as [|f1 [|f2 fs']].
    - reflexivity.
    - (* single file *)
      cbn [map]. unfold run_single.
      pose proof (fold_update_plain tasks'
                    (run_prologue prev [f_regs f1]) Hplain) as H.
      cbn zeta in H. destruct H as (I1 & I2 & I3 & I4 & I5 & I6).
      rewrite I1, I2, I5, I6, Hlines, Hres.
      cbn [run_prologue st_searches st_by_job st_lines st_results map].
      unfold lenZ at 1 2. cbn [length Z.of_nat Pos.of_succ_nat Z.eqb Pos.eqb].
      reflexivity.
    - (* several files *)
      remember (f1 :: f2 :: fs') as fs eqn:Efs.
      assert (Hn : 2 <= lenZ fs).
      { subst fs. unfold lenZ. cbn [length]. lia. }
      assert (Hml : lenZ (map f_regs fs) = lenZ fs)
        by (unfold lenZ; rewrite map_length; reflexivity).
      replace (match map f_regs fs with
               | [] => stats0
               | [_] => run_single prev (map f_regs fs) tasks'
               | _ :: _ :: _ => run_mp prev (map f_regs fs) tasks'
               end) with (run_mp prev (map f_regs fs) tasks')
        by (subst fs; reflexivity).
      unfold run_mp.
      pose proof (fold_mp_plain tasks'
        (mkStats (st_searches (run_prologue prev (map f_regs fs)))
                 (st_by_job (run_prologue prev (map f_regs fs)))
                 (st_lines (run_prologue prev (map f_regs fs)))
                 (st_completed (run_prologue prev (map f_regs fs)))
                 (st_total (run_prologue prev (map f_regs fs))
                  + lenZ (map f_regs fs))
                 (st_results (run_prologue prev (map f_regs fs)))) Hplain)
        as H.
      cbn zeta in H. destruct H as (I1 & I2 & I3 & I4 & I5 & I6).
      assert (Hp : run_prologue prev (map f_regs fs)
                   = mkStats (sumZ (map f_regs fs)) (map f_regs fs) 0 0 0 0)
        by (subst fs; reflexivity).
      rewrite Hp in *.
      cbn [st_searches st_by_job st_lines st_completed st_total st_results]
        in *.
      destruct (lenZ fs =? 0) eqn:E0; [lia|].
      destruct (lenZ fs =? 1) eqn:E1; [lia|].
      match goal with |- ?lhs = _ =>
        destruct lhs as [a b c d e g] eqn:El end.
      cbn [st_searches st_by_job st_lines st_completed st_total st_results]
        in *.
      f_equal; lia || congruence.
  Qed.

  (* nothing is carried over from the previous run *)
  Theorem no_carry_over (p1 p2 : stats) regs tasks :
    run_stats p1 regs tasks = run_stats p2 regs tasks.
  Proof.
    unfold run_stats, run_single, run_mp, run_prologue.
    destruct regs as [|r [|r2 rs]]; reflexivity.
  Qed.
End Exact.
