(* C02 - lemmas: invariants of the pipeline model over every schedule. *)
From Coq Require Import ZArith List Bool Arith Lia.
From SK Require Import Model.Base Model.Pipeline Spec.Pipeline.
Import ListNotations.
Open Scope Z_scope.

(* ------------------------------------------------------------ list basics *)
Lemma lenZ_app {A} (a b : list A) : lenZ (a ++ b) = lenZ a + lenZ b.
Proof. unfold lenZ. rewrite app_length. lia. Qed.

Lemma lenZ_nonneg {A} (l : list A) : 0 <= lenZ l.
Proof. unfold lenZ. lia. Qed.

Lemma lenZ_cons {A} (x : A) l : lenZ (x :: l) = 1 + lenZ l.
Proof. unfold lenZ. cbn [length]. lia. Qed.

Lemma lenZ_nil {A} : lenZ (@nil A) = 0.
Proof. reflexivity. Qed.

Lemma blen_cons b bs : blen (b :: bs) = lenZ b + blen bs.
Proof. unfold blen. cbn [concat]. apply lenZ_app. Qed.

Lemma blen_app a b : blen (a ++ b) = blen a + blen b.
Proof. unfold blen. rewrite concat_app. apply lenZ_app. Qed.

Lemma blen_nil : blen [] = 0.
Proof. reflexivity. Qed.

Lemma blen_nonneg bs : 0 <= blen bs.
Proof. apply lenZ_nonneg. Qed.

Lemma nth_error_set_nth_eq {A} n (x y : A) l :
  nth_error l n = Some y -> nth_error (set_nth n x l) n = Some x.
Proof.
  revert n. induction l as [|z l IH]; intros [|n] H; cbn in *;
    try discriminate; auto.
Qed.

Lemma nth_error_set_nth_ne {A} n m (x : A) l :
  n <> m -> nth_error (set_nth n x l) m = nth_error l m.
Proof.
  revert n m. induction l as [|z l IH]; intros [|n] [|m] H; cbn; auto.
  - congruence.
Qed.

Lemma sumZ_set_nth {A} (f : A -> Z) n x y l :
  nth_error l n = Some y -> sumZ f (set_nth n x l) = sumZ f l - f y + f x.
Proof.
  revert n. induction l as [|z l IH]; intros [|n] H; cbn in *;
    try discriminate.
  - inversion H; subst. lia.
  - rewrite (IH _ H). lia.
Qed.

Lemma sumZ_nonneg {A} (f : A -> Z) l :
  (forall x, 0 <= f x) -> 0 <= sumZ f l.
Proof.
  intros Hf. induction l as [|x l IH]; cbn; [lia|]. specialize (Hf x). lia.
Qed.

Lemma Forall_set_nth {A} (Pr : A -> Prop) n x l :
  Forall Pr l -> Pr x -> Forall Pr (set_nth n x l).
Proof.
  revert n. induction l as [|z l IH]; intros [|n] Hl Hx; cbn; auto;
    inversion Hl; subst; constructor; auto.
Qed.

Lemma Forall_nth_error {A} (Pr : A -> Prop) l n x :
  Forall Pr l -> nth_error l n = Some x -> Pr x.
Proof.
  intros Hl Hn. rewrite Forall_forall in Hl. apply Hl.
  eapply nth_error_In; eauto.
Qed.

Lemma forallb_set_nth_same {A} (f : A -> bool) n x y l :
  nth_error l n = Some y -> f x = f y ->
  forallb f (set_nth n x l) = forallb f l.
Proof.
  revert n. induction l as [|z l IH]; intros [|n] H E; cbn in *;
    try discriminate.
  - inversion H; subst. rewrite E. reflexivity.
  - rewrite (IH _ H E). reflexivity.
Qed.

Lemma forallb_set_nth_true {A} (f : A -> bool) n x l :
  forallb f l = true -> f x = true -> forallb f (set_nth n x l) = true.
Proof.
  revert n. induction l as [|z l IH]; intros [|n] H E; cbn in *; auto;
    apply andb_true_iff in H; destruct H as [H1 H2];
    apply andb_true_iff; split; auto.
Qed.

Lemma forallb_nth_error {A} (f : A -> bool) l n x :
  forallb f l = true -> nth_error l n = Some x -> f x = true.
Proof.
  intros H Hn. rewrite forallb_forall in H. apply H.
  eapply nth_error_In; eauto.
Qed.

(* -------------------------------------------------------------- collection *)
Definition filt (t : nat) (l : list result) : list result :=
  filter (fun r => Nat.eqb (src r) t) l.

Lemma filt_app t a b : filt t (a ++ b) = filt t a ++ filt t b.
Proof. apply filter_app. Qed.

Lemma filt_all t l : Forall (fun r => src r = t) l -> filt t l = l.
Proof.
  induction l as [|r l IH]; intros H; cbn; auto.
  inversion H; subst. rewrite Nat.eqb_refl. f_equal. apply IH. assumption.
Qed.

Lemma filt_none t t0 l :
  Forall (fun r => src r = t0) l -> t0 <> t -> filt t l = [].
Proof.
  induction l as [|r l IH]; intros H Hne; cbn; auto.
  inversion H as [|? ? Hr Hl]; subst.
  destruct (Nat.eqb_spec (src r) t) as [E|E]; [congruence|].
  apply IH; auto.
Qed.

Lemma find_add_result t r c :
  find_by_path t (add_result r c) =
  if Nat.eqb (src r) t then find_by_path t c ++ [r] else find_by_path t c.
Proof.
  induction c as [|[p l] c IH]; cbn.
  - destruct (Nat.eqb (src r) t); reflexivity.
  - destruct (Nat.eqb_spec p (src r)) as [E|E]; cbn.
    + subst p. destruct (Nat.eqb (src r) t); reflexivity.
    + rewrite IH. destruct (Nat.eqb_spec p t) as [E2|E2].
      * subst p. destruct (Nat.eqb_spec (src r) t) as [E3|E3];
          [congruence|reflexivity].
      * reflexivity.
Qed.

Lemma find_add_batch t b c :
  find_by_path t (add_batch b c) = find_by_path t c ++ filt t b.
Proof.
  unfold add_batch. revert c. induction b as [|r b IH]; intros c; cbn.
  - rewrite app_nil_r. reflexivity.
  - rewrite IH, find_add_result.
    destruct (Nat.eqb (src r) t); cbn.
    + rewrite <- app_assoc. reflexivity.
    + reflexivity.
Qed.

Lemma coll_len_add_result r c : coll_len (add_result r c) = coll_len c + 1.
Proof.
  induction c as [|[p l] c IH]; cbn [add_result coll_len].
  - rewrite lenZ_cons, lenZ_nil. lia.
  - destruct (Nat.eqb p (src r)); cbn [coll_len].
    + rewrite lenZ_app, lenZ_cons, lenZ_nil. lia.
    + rewrite IH. lia.
Qed.

Lemma coll_len_add_batch b c : coll_len (add_batch b c) = coll_len c + lenZ b.
Proof.
  unfold add_batch. revert c. induction b as [|r b IH]; intros c;
    cbn [fold_left].
  - rewrite lenZ_nil. lia.
  - rewrite IH, coll_len_add_result, lenZ_cons. lia.
Qed.

Lemma well_filed_add_batch b c :
  well_filed c -> well_filed (add_batch b c).
Proof.
  intros H p. rewrite find_add_batch. apply Forall_app. split; [apply H|].
  unfold filt. apply Forall_forall. intros r Hr.
  apply filter_In in Hr. destruct Hr as [_ Hr].
  apply Nat.eqb_eq in Hr. exact Hr.
Qed.

Lemma well_filed_nil : well_filed [].
Proof. intros p. constructor. Qed.

(* a single-file search files exactly its results under its path *)
Lemma results_tagged P t : Forall (fun r => src r = t) (results P t).
Proof.
  unfold results. apply Forall_forall. intros r Hr.
  apply in_map_iff in Hr. destruct Hr as [z [E _]]. subst r. reflexivity.
Qed.

Lemma sequential_spec P t :
  find_by_path t (sequential P t) = results P t.
Proof.
  unfold sequential. rewrite find_add_batch. cbn.
  apply filt_all. apply results_tagged.
Qed.

Lemma sequential_other P t p :
  p <> t -> find_by_path p (sequential P t) = [].
Proof.
  intros H. unfold sequential. rewrite find_add_batch. cbn.
  eapply filt_none; [apply results_tagged|congruence].
Qed.

(* ------------------------------------------------------------------ chunks *)
Lemma concat_chunks_fuel {A} fuel m (l : list A) :
  (1 <= m)%nat -> (length l <= fuel)%nat ->
  concat (chunks_fuel fuel m l) = l.
Proof.
  intros Hm. revert l. induction fuel as [|f IH]; intros l Hl.
  - destruct l; cbn in *; [reflexivity|lia].
  - destruct l as [|x l']; [reflexivity|].
    cbn [chunks_fuel concat]. rewrite IH.
    + apply firstn_skipn.
    + rewrite skipn_length. cbn [length] in *. lia.
Qed.

Lemma concat_chunks {A} m (l : list A) :
  (1 <= m)%nat -> concat (chunks m l) = l.
Proof. intros Hm. apply concat_chunks_fuel; auto. Qed.

Lemma chunks_fuel_bounds {A} fuel m (l : list A) :
  (1 <= m)%nat ->
  Forall (fun b => (1 <= length b <= m)%nat) (chunks_fuel fuel m l).
Proof.
  intros Hm. revert l. induction fuel as [|f IH]; intros l; [constructor|].
  destruct l as [|x l']; [constructor|].
  cbn [chunks_fuel]. constructor; [|apply IH].
  split.
  - destruct m as [|m']; [lia|]. cbn. lia.
  - apply firstn_le_length.
Qed.

Lemma concat_task_batches {A} MAX NBUF (rs : list A) :
  (1 <= MAX)%nat -> (1 <= NBUF)%nat ->
  concat (task_batches MAX NBUF rs) = rs.
Proof.
  intros HM HN. unfold task_batches.
  rewrite <- (concat_chunks NBUF rs HN) at 2.
  generalize (chunks NBUF rs) as cs.
  induction cs as [|c cs IH]; [reflexivity|].
  cbn [flat_map concat]. rewrite concat_app, IH, concat_chunks; auto.
Qed.

Lemma task_batches_bounds {A} MAX NBUF (rs : list A) :
  (1 <= MAX)%nat ->
  Forall (fun b => (1 <= length b <= MAX)%nat) (task_batches MAX NBUF rs).
Proof.
  intros HM. unfold task_batches.
  generalize (chunks NBUF rs) as cs.
  induction cs as [|c cs IH]; [constructor|].
  cbn [flat_map]. apply Forall_app. split; [|exact IH].
  apply chunks_fuel_bounds; auto.
Qed.

Lemma results_flat MAX NBUF (R : list (list Z)) t :
  (1 <= MAX)%nat -> (1 <= NBUF)%nat ->
  results (map (task_batches MAX NBUF) R) t = map (pair t) (nth t R []).
Proof.
  intros HM HN. unfold results. f_equal.
  change (@nil (list Z)) with (task_batches MAX NBUF (@nil Z)) at 1.
  rewrite map_nth. apply concat_task_batches; auto.
Qed.

(* ------------------------------------------------------------ initial state *)
Lemma nth_error_tag_tasks t0 P i :
  nth_error (tag_tasks t0 P) i =
  match nth_error P i with
  | Some bs => Some (mkTask (tag (t0 + i) bs) 0 false)
  | None => None
  end.
Proof.
  revert t0 i. induction P as [|bs P IH]; intros t0 [|i]; cbn; auto.
  - rewrite Nat.add_0_r. reflexivity.
  - rewrite IH. replace (S t0 + i)%nat with (t0 + S i)%nat by lia.
    reflexivity.
Qed.

Lemma concat_tag t bs : concat (tag t bs) = map (pair t) (concat bs).
Proof. unfold tag. symmetry. apply concat_map. Qed.

Lemma sumZ_sent_tag_tasks t0 P : sumZ sent (tag_tasks t0 P) = 0.
Proof. revert t0. induction P as [|bs P IH]; intros t0; cbn; auto. Qed.

Definition todo_len (tk : task) : Z := blen (todo tk).
Definition unf_sent (tk : task) : Z := if finished tk then 0 else sent tk.

Lemma sumZ_todo_tag_tasks t0 P :
  sumZ todo_len (tag_tasks t0 P) = total_results P.
Proof.
  revert t0. induction P as [|bs P IH]; intros t0; cbn; auto.
  rewrite IH. unfold todo_len, blen. cbn [todo].
  rewrite concat_tag. unfold lenZ. rewrite map_length. reflexivity.
Qed.

Lemma sumZ_unf_tag_tasks t0 P : sumZ unf_sent (tag_tasks t0 P) = 0.
Proof. revert t0. induction P as [|bs P IH]; intros t0; cbn; auto. Qed.

(* --------------------------------------------- counting invariant (any run) *)
Record cnt_inv (P : list (list (list Z))) (s : gstate) : Prop := {
  c_total : sumZ sent (tasks s) + sumZ todo_len (tasks s) = total_results P;
  c_flow : sumZ sent (tasks s)
           = coll_len (collected s) + blen (queue s) + lost s;
  c_exp : expected s + sumZ unf_sent (tasks s) = sumZ sent (tasks s);
  c_fin : Forall (fun tk => finished tk = true -> todo tk = []) (tasks s);
  c_ph : ph s <> Collecting -> all_finished s = true;
  c_ret : ph s = Returned -> queue s = [] /\ lost s = 0;
  c_lost : 0 <= lost s
}.

Lemma cnt_inv_init P : cnt_inv P (init P).
Proof.
  constructor; cbn.
  - rewrite sumZ_sent_tag_tasks, sumZ_todo_tag_tasks. lia.
  - rewrite sumZ_sent_tag_tasks. reflexivity.
  - rewrite sumZ_sent_tag_tasks, sumZ_unf_tag_tasks. reflexivity.
  - generalize 0%nat as t0. induction P as [|bs P IH]; intros t0; cbn;
      constructor; auto. cbn. discriminate.
  - congruence.
  - discriminate.
  - lia.
Qed.

Lemma all_todo_nil l :
  Forall (fun tk => finished tk = true -> todo tk = []) l ->
  forallb finished l = true ->
  sumZ todo_len l = 0 /\ sumZ unf_sent l = 0.
Proof.
  induction l as [|tk l IH]; intros HF Hall; cbn; [auto|].
  inversion HF as [|? ? H1 H2]; subst.
  cbn in Hall. apply andb_true_iff in Hall. destruct Hall as [Hf Hl].
  destruct (IH H2 Hl) as [E1 E2]. rewrite E1, E2.
  unfold todo_len, unf_sent. rewrite (H1 Hf), Hf. cbn. auto.
Qed.

Lemma step_Put_inv Q s t s' :
  step Q s (Put t) = Some s' ->
  exists tk b rest,
    nth_error (tasks s) t = Some tk /\ todo tk = b :: rest /\
    lenZ (queue s) < Q /\
    s' = mkState (set_nth t (mkTask rest (sent tk + lenZ b) (finished tk))
                          (tasks s))
                 (queue s ++ [b]) (collected s) (expected s) (ph s) (lost s).
Proof.
  intros H. cbn [step] in H.
  destruct (nth_error (tasks s) t) as [tk|] eqn:E; [|discriminate].
  destruct (todo tk) as [|b rest] eqn:E0; [discriminate|].
  destruct (lenZ (queue s) <? Q) eqn:E1; [|discriminate].
  inversion H; subst. exists tk, b, rest. apply Z.ltb_lt in E1. auto.
Qed.

Lemma step_Drop_inv Q s t s' :
  step Q s (Drop t) = Some s' ->
  exists tk b rest,
    nth_error (tasks s) t = Some tk /\ todo tk = b :: rest /\
    s' = mkState (set_nth t (mkTask rest (sent tk + lenZ b) (finished tk))
                          (tasks s))
                 (queue s) (collected s) (expected s) (ph s)
                 (lost s + lenZ b).
Proof.
  intros H. cbn [step] in H.
  destruct (nth_error (tasks s) t) as [tk|] eqn:E; [|discriminate].
  destruct (todo tk) as [|b rest] eqn:E0; [discriminate|].
  inversion H; subst. exists tk, b, rest. auto.
Qed.

Lemma step_Finish_inv Q s t s' :
  step Q s (Finish t) = Some s' ->
  exists tk,
    nth_error (tasks s) t = Some tk /\ todo tk = [] /\ finished tk = false /\
    s' = mkState (set_nth t (mkTask [] (sent tk) true) (tasks s))
                 (queue s) (collected s) (expected s + sent tk) (ph s)
                 (lost s).
Proof.
  intros H. cbn [step] in H.
  destruct (nth_error (tasks s) t) as [tk|] eqn:E; [|discriminate].
  destruct (todo tk) as [|b rest] eqn:E0; [|discriminate].
  destruct (finished tk) eqn:E1; [discriminate|].
  inversion H; subst. exists tk. auto.
Qed.

Lemma step_Collect_inv Q s s' :
  step Q s Collect = Some s' ->
  exists b q,
    ph s = Collecting /\ queue s = b :: q /\
    s' = mkState (tasks s) q (add_batch b (collected s)) (expected s) (ph s)
                 (lost s).
Proof.
  intros H. cbn [step] in H.
  destruct (ph s) eqn:E; cbn in H; try discriminate.
  destruct (queue s) as [|b q] eqn:E0; [discriminate|].
  inversion H; subst. exists b, q. auto.
Qed.

Lemma step_PurgeStep_inv Q s s' :
  step Q s PurgeStep = Some s' ->
  exists b q,
    ph s = Purging /\ queue s = b :: q /\
    s' = mkState (tasks s) q (add_batch b (collected s)) (expected s) (ph s)
                 (lost s).
Proof.
  intros H. cbn [step] in H.
  destruct (ph s) eqn:E; cbn in H; try discriminate.
  destruct (queue s) as [|b q] eqn:E0; [discriminate|].
  inversion H; subst. exists b, q. auto.
Qed.

Lemma step_StartPurge_inv Q s s' :
  step Q s StartPurge = Some s' ->
  ph s = Collecting /\ all_finished s = true /\
  s' = mkState (tasks s) (queue s) (collected s) (expected s) Purging
               (lost s).
Proof.
  intros H. cbn [step] in H.
  destruct (ph s) eqn:E; cbn in H; try discriminate.
  destruct (all_finished s) eqn:E0; [|discriminate].
  inversion H; subst. auto.
Qed.

Lemma step_Return_inv Q s s' :
  step Q s Return = Some s' ->
  ph s = Purging /\ queue s = [] /\ expected s <= coll_len (collected s) /\
  s' = mkState (tasks s) [] (collected s) (expected s) Returned (lost s).
Proof.
  intros H. cbn [step] in H.
  destruct (ph s) eqn:E; cbn in H; try discriminate.
  destruct (queue s) as [|b q] eqn:E0; [|discriminate].
  destruct (expected s <=? coll_len (collected s)) eqn:E1; [|discriminate].
  inversion H; subst. apply Z.leb_le in E1. auto.
Qed.

Lemma step_cnt_inv P Q s a s' :
  cnt_inv P s -> step Q s a = Some s' -> cnt_inv P s'.
Proof.
  intros I H. destruct I as [It Ifl Ie Ifin Iph Iret Il].
  destruct a as [t|t|t| | | | |].
  - (* Put *)
    destruct (step_Put_inv _ _ _ _ H) as (tk & b & rest & E & E0 & Hq & ->).
    assert (Hnf : finished tk = false).
    { destruct (finished tk) eqn:Ef; auto.
      pose proof (Forall_nth_error _ _ _ _ Ifin E Ef). congruence. }
    constructor; cbn [tasks queue collected expected ph lost].
    + rewrite !(sumZ_set_nth _ _ _ _ _ E). unfold todo_len in *. cbn [sent todo].
      rewrite E0, blen_cons. lia.
    + rewrite (sumZ_set_nth _ _ _ _ _ E). cbn [sent].
      rewrite blen_app, blen_cons, blen_nil. lia.
    + rewrite !(sumZ_set_nth _ _ _ _ _ E). unfold unf_sent in *.
      cbn [sent finished]. rewrite Hnf. lia.
    + apply Forall_set_nth; auto. cbn. congruence.
    + intros Hp. unfold all_finished in *. cbn [tasks].
      rewrite (forallb_set_nth_same _ _ _ _ _ E); auto.
    + intros Hp. exfalso. unfold all_finished in Iph.
      assert (Hc : ph s <> Collecting) by congruence.
      pose proof (forallb_nth_error _ _ _ _ (Iph Hc) E). congruence.
    + assumption.
  - (* Drop *)
    destruct (step_Drop_inv _ _ _ _ H) as (tk & b & rest & E & E0 & ->).
    assert (Hnf : finished tk = false).
    { destruct (finished tk) eqn:Ef; auto.
      pose proof (Forall_nth_error _ _ _ _ Ifin E Ef). congruence. }
    constructor; cbn [tasks queue collected expected ph lost].
    + rewrite !(sumZ_set_nth _ _ _ _ _ E). unfold todo_len in *. cbn [sent todo].
      rewrite E0, blen_cons. lia.
    + rewrite (sumZ_set_nth _ _ _ _ _ E). cbn [sent]. lia.
    + rewrite !(sumZ_set_nth _ _ _ _ _ E). unfold unf_sent in *.
      cbn [sent finished]. rewrite Hnf. lia.
    + apply Forall_set_nth; auto. cbn. congruence.
    + intros Hp. unfold all_finished in *. cbn [tasks].
      rewrite (forallb_set_nth_same _ _ _ _ _ E); auto.
    + intros Hp. exfalso. unfold all_finished in Iph.
      assert (Hc : ph s <> Collecting) by congruence.
      pose proof (forallb_nth_error _ _ _ _ (Iph Hc) E). congruence.
    + pose proof (lenZ_nonneg b). lia.
  - (* Finish *)
    destruct (step_Finish_inv _ _ _ _ H) as (tk & E & E0 & E1 & ->).
    constructor; cbn [tasks queue collected expected ph lost].
    + rewrite !(sumZ_set_nth _ _ _ _ _ E). unfold todo_len in *. cbn [sent todo].
      rewrite E0. lia.
    + rewrite (sumZ_set_nth _ _ _ _ _ E). cbn [sent]. lia.
    + rewrite !(sumZ_set_nth _ _ _ _ _ E). unfold unf_sent in *.
      cbn [sent finished]. rewrite E1. lia.
    + apply Forall_set_nth; auto.
    + intros Hp. unfold all_finished in *. cbn [tasks].
      apply forallb_set_nth_true; auto.
    + auto.
    + assumption.
  - (* Collect *)
    destruct (step_Collect_inv _ _ _ H) as (b & q & Ep & E0 & ->).
    constructor; cbn [tasks queue collected expected ph lost]; auto.
    + rewrite coll_len_add_batch. rewrite Ifl, E0, blen_cons. lia.
    + intros Hp. congruence.
  - (* StartPurge *)
    destruct (step_StartPurge_inv _ _ _ H) as (Ep & E0 & ->).
    constructor; cbn [tasks queue collected expected ph lost]; auto.
    discriminate.
  - (* PurgeStep *)
    destruct (step_PurgeStep_inv _ _ _ H) as (b & q & Ep & E0 & ->).
    constructor; cbn [tasks queue collected expected ph lost]; auto.
    + rewrite coll_len_add_batch. rewrite Ifl, E0, blen_cons. lia.
    + intros Hp. congruence.
  - (* Return *)
    destruct (step_Return_inv _ _ _ H) as (Ep & E0 & E1 & ->).
    assert (Hc : ph s <> Collecting) by congruence.
    pose proof (Iph Hc) as Hall. unfold all_finished in Hall.
    destruct (all_todo_nil _ Ifin Hall) as [Z1 Z2].
    constructor; cbn [tasks queue collected expected ph lost]; auto.
    + rewrite Ifl, E0, blen_nil. lia.
    + intros _. split; [reflexivity|].
      rewrite E0, blen_nil in Ifl. lia.
  - discriminate.
Qed.

Lemma exec_cnt_inv P Q s a : cnt_inv P s -> cnt_inv P (exec Q s a).
Proof.
  intros I. unfold exec. destruct (step Q s a) eqn:E; auto.
  eapply step_cnt_inv; eauto.
Qed.

Lemma run_cnt_inv P Q sched s : cnt_inv P s -> cnt_inv P (run Q sched s).
Proof.
  revert s. induction sched as [|a r IH]; intros s I; cbn; auto.
  apply IH. apply exec_cnt_inv. assumption.
Qed.

Lemma run_cons Q a r s : run Q (a :: r) s = run Q r (exec Q s a).
Proof. reflexivity. Qed.

Lemma run_app Q a b s : run Q (a ++ b) s = run Q b (run Q a s).
Proof. unfold run. apply fold_left_app. Qed.

(* ------------------------------------- order/view invariant (drop-free run) *)
Definition todo_of (s : gstate) (t : nat) : list batch :=
  match nth_error (tasks s) t with Some tk => todo tk | None => [] end.

(* results of task t: already delivered ++ in the queue (FIFO order) ++
   still to be put *)
Definition view (s : gstate) (t : nat) : list result :=
  find_by_path t (collected s) ++ filt t (concat (queue s))
  ++ concat (todo_of s t).

Definition well_tagged (s : gstate) : Prop :=
  forall t tk, nth_error (tasks s) t = Some tk ->
               Forall (fun r => src r = t) (concat (todo tk)).

Definition view_inv (P : list (list (list Z))) (s : gstate) : Prop :=
  well_tagged s /\ well_filed (collected s) /\
  forall t, view s t = results P t.

Lemma view_inv_init P : view_inv P (init P).
Proof.
  split; [|split].
  - intros t tk H. cbn in H. rewrite nth_error_tag_tasks in H.
    destruct (nth_error P t) as [bs|]; [|discriminate].
    inversion H; subst. cbn [todo]. rewrite concat_tag.
    apply Forall_forall. intros r Hr. apply in_map_iff in Hr.
    destruct Hr as [z [Ez _]]. subst r. reflexivity.
  - apply well_filed_nil.
  - intros t. unfold view, todo_of. cbn [init tasks queue collected].
    rewrite nth_error_tag_tasks. cbn.
    unfold results. destruct (nth_error P t) as [bs|] eqn:E.
    + cbn [todo]. rewrite concat_tag.
      rewrite (nth_error_nth _ _ _ E). reflexivity.
    + apply nth_error_None in E. rewrite nth_overflow by assumption.
      reflexivity.
Qed.

Lemma step_view_inv P Q s a s' :
  is_drop a = false -> view_inv P s -> step Q s a = Some s' ->
  view_inv P s'.
Proof.
  intros Hd [Wt [Wf V]] H.
  destruct a as [t|t|t| | | | |]; try discriminate Hd.
  - (* Put *)
    destruct (step_Put_inv _ _ _ _ H) as (tk & b & rest & E & E0 & Hq & ->).
    pose proof (Wt _ _ E) as Htag. rewrite E0 in Htag. cbn [concat] in Htag.
    apply Forall_app in Htag. destruct Htag as [Hb Hrest].
    split; [|split]; cbn [tasks queue collected].
    + intros t' tk' H'. cbn [tasks] in H'.
      destruct (Nat.eq_dec t t') as [<-|Hne].
      * rewrite (nth_error_set_nth_eq _ _ _ _ E) in H'.
        inversion H'; subst. exact Hrest.
      * rewrite nth_error_set_nth_ne in H' by assumption. eauto.
    + exact Wf.
    + intros t'. rewrite <- (V t'). unfold view, todo_of.
      cbn [tasks queue collected]. rewrite concat_app, filt_app.
      cbn [concat]. rewrite app_nil_r.
      destruct (Nat.eq_dec t t') as [<-|Hne].
      * rewrite (nth_error_set_nth_eq _ _ _ _ E), E. cbn [todo].
        rewrite E0. cbn [concat]. rewrite (filt_all _ _ Hb).
        rewrite <- !app_assoc. reflexivity.
      * rewrite nth_error_set_nth_ne by assumption.
        rewrite (filt_none _ _ _ Hb Hne), app_nil_r. reflexivity.
  - (* Finish *)
    destruct (step_Finish_inv _ _ _ _ H) as (tk & E & E0 & E1 & ->).
    split; [|split]; cbn [tasks queue collected].
    + intros t' tk' H'. cbn [tasks] in H'.
      destruct (Nat.eq_dec t t') as [<-|Hne].
      * rewrite (nth_error_set_nth_eq _ _ _ _ E) in H'.
        inversion H'; subst. constructor.
      * rewrite nth_error_set_nth_ne in H' by assumption. eauto.
    + exact Wf.
    + intros t'. rewrite <- (V t'). unfold view, todo_of.
      cbn [tasks queue collected].
      destruct (Nat.eq_dec t t') as [<-|Hne].
      * rewrite (nth_error_set_nth_eq _ _ _ _ E), E. cbn [todo].
        rewrite E0. reflexivity.
      * rewrite nth_error_set_nth_ne by assumption. reflexivity.
  - (* Collect *)
    destruct (step_Collect_inv _ _ _ H) as (b & q & Ep & E0 & ->).
    split; [|split]; cbn [tasks queue collected]; auto.
    + apply well_filed_add_batch; auto.
    + intros t'. rewrite <- (V t'). unfold view, todo_of.
      cbn [tasks queue collected]. rewrite find_add_batch, E0.
      cbn [concat]. rewrite filt_app, <- !app_assoc. reflexivity.
  - (* StartPurge *)
    destruct (step_StartPurge_inv _ _ _ H) as (Ep & E0 & ->).
    split; [|split]; auto.
  - (* PurgeStep *)
    destruct (step_PurgeStep_inv _ _ _ H) as (b & q & Ep & E0 & ->).
    split; [|split]; cbn [tasks queue collected]; auto.
    + apply well_filed_add_batch; auto.
    + intros t'. rewrite <- (V t'). unfold view, todo_of.
      cbn [tasks queue collected]. rewrite find_add_batch, E0.
      cbn [concat]. rewrite filt_app, <- !app_assoc. reflexivity.
  - (* Return *)
    destruct (step_Return_inv _ _ _ H) as (Ep & E0 & E1 & ->).
    split; [|split]; auto.
    intros t'. rewrite <- (V t'). unfold view, todo_of.
    cbn [tasks queue collected]. rewrite E0. reflexivity.
  - discriminate.
Qed.

Lemma run_view_inv P Q sched s :
  drop_free sched = true -> view_inv P s -> view_inv P (run Q sched s).
Proof.
  revert s. induction sched as [|a r IH]; intros s Hd I; cbn; auto.
  cbn in Hd. apply andb_true_iff in Hd. destruct Hd as [Ha Hr].
  apply IH; auto. unfold exec. destruct (step Q s a) eqn:E; auto.
  eapply step_view_inv; eauto. apply negb_true_iff. exact Ha.
Qed.

(* well_filed holds on every run, drops or not *)
Lemma step_well_filed Q s a s' :
  well_filed (collected s) -> step Q s a = Some s' ->
  well_filed (collected s').
Proof.
  intros W H. destruct a as [t|t|t| | | | |].
  - destruct (step_Put_inv _ _ _ _ H) as (tk & b & rest & E & E0 & Hq & ->).
    exact W.
  - destruct (step_Drop_inv _ _ _ _ H) as (tk & b & rest & E & E0 & ->).
    exact W.
  - destruct (step_Finish_inv _ _ _ _ H) as (tk & E & E0 & E1 & ->).
    exact W.
  - destruct (step_Collect_inv _ _ _ H) as (b & q & Ep & E0 & ->).
    apply well_filed_add_batch; auto.
  - destruct (step_StartPurge_inv _ _ _ H) as (Ep & E0 & ->). exact W.
  - destruct (step_PurgeStep_inv _ _ _ H) as (b & q & Ep & E0 & ->).
    apply well_filed_add_batch; auto.
  - destruct (step_Return_inv _ _ _ H) as (Ep & E0 & E1 & ->). exact W.
  - discriminate.
Qed.

Lemma run_well_filed Q sched s :
  well_filed (collected s) -> well_filed (collected (run Q sched s)).
Proof.
  revert s. induction sched as [|a r IH]; intros s W; cbn; auto.
  apply IH. unfold exec. destruct (step Q s a) eqn:E; auto.
  eapply step_well_filed; eauto.
Qed.

(* lost only changes by Drop *)
Lemma step_lost_nodrop Q s a s' :
  is_drop a = false -> step Q s a = Some s' -> lost s' = lost s.
Proof.
  intros Hd H. destruct a as [t|t|t| | | | |]; try discriminate Hd.
  - destruct (step_Put_inv _ _ _ _ H) as (tk & b & rest & E & E0 & Hq & ->).
    reflexivity.
  - destruct (step_Finish_inv _ _ _ _ H) as (tk & E & E0 & E1 & ->).
    reflexivity.
  - destruct (step_Collect_inv _ _ _ H) as (b & q & Ep & E0 & ->).
    reflexivity.
  - destruct (step_StartPurge_inv _ _ _ H) as (Ep & E0 & ->). reflexivity.
  - destruct (step_PurgeStep_inv _ _ _ H) as (b & q & Ep & E0 & ->).
    reflexivity.
  - destruct (step_Return_inv _ _ _ H) as (Ep & E0 & E1 & ->). reflexivity.
  - discriminate.
Qed.

Lemma run_lost_nodrop Q sched s :
  drop_free sched = true -> lost (run Q sched s) = lost s.
Proof.
  revert s. induction sched as [|a r IH]; intros s Hd; [reflexivity|].
  cbn in Hd. apply andb_true_iff in Hd. destruct Hd as [Ha Hr].
  rewrite run_cons, IH by assumption. unfold exec.
  destruct (step Q s a) eqn:E; auto.
  eapply step_lost_nodrop; eauto. apply negb_true_iff. exact Ha.
Qed.

Lemma step_lost_mono Q s a s' :
  step Q s a = Some s' -> lost s <= lost s'.
Proof.
  intros H. destruct (is_drop a) eqn:Hd.
  - destruct a; try discriminate Hd.
    destruct (step_Drop_inv _ _ _ _ H) as (tk & b & rest & E & E0 & ->).
    cbn [lost]. pose proof (lenZ_nonneg b). lia.
  - rewrite (step_lost_nodrop _ _ _ _ Hd H). lia.
Qed.

Lemma run_lost_mono Q sched s : lost s <= lost (run Q sched s).
Proof.
  revert s. induction sched as [|a r IH]; intros s; [cbn; lia|].
  rewrite run_cons. etransitivity; [|apply IH]. unfold exec.
  destruct (step Q s a) eqn:E; [|lia]. eapply step_lost_mono; eauto.
Qed.

(* ------------------------------------------------------------ main results *)

(* (a) the invariant, for every schedule without a give-up *)
Lemma pipeline_invariant P Q sched t :
  drop_free sched = true ->
  let s := run Q sched (init P) in
  find_by_path t (collected s) ++ filt t (concat (queue s))
    ++ concat (todo_of s t) = results P t
  /\ Forall (fun r => src r = t) (find_by_path t (collected s)).
Proof.
  intros Hd s.
  destruct (run_view_inv P Q sched (init P) Hd (view_inv_init P))
    as [_ [Wf V]].
  split; [apply V|apply Wf].
Qed.

Lemma todo_of_finished P s t :
  cnt_inv P s -> all_finished s = true -> todo_of s t = [].
Proof.
  intros I Hall. unfold todo_of.
  destruct (nth_error (tasks s) t) as [tk|] eqn:E; auto.
  pose proof (forallb_nth_error _ _ _ _ Hall E) as Hf.
  exact (Forall_nth_error _ _ _ _ (c_fin _ _ I) E Hf).
Qed.

(* (b) *)
Lemma parallel_equals_sequential P Q sched :
  drop_free sched = true ->
  ph (run Q sched (init P)) = Returned ->
  same_as_sequential P (collected (run Q sched (init P))).
Proof.
  intros Hd Hret t. rewrite sequential_spec.
  pose proof (run_cnt_inv P Q sched _ (cnt_inv_init P)) as I.
  destruct (pipeline_invariant P Q sched t Hd) as [V _]. cbn zeta in V.
  destruct (c_ret _ _ I Hret) as [Hq _].
  assert (Hall : all_finished (run Q sched (init P)) = true).
  { apply (c_ph _ _ I). congruence. }
  rewrite Hq, (todo_of_finished P _ t I Hall) in V. cbn in V.
  rewrite app_nil_r in V. exact V.
Qed.

(* (c) when Return fires everything produced has been collected *)
Lemma return_only_when_complete P Q sched s' :
  let s := run Q sched (init P) in
  step Q s Return = Some s' ->
  all_finished s = true /\ (forall t, todo_of s t = []) /\ queue s = [] /\
  lost s = 0 /\ coll_len (collected s) = expected s /\
  expected s = total_results P.
Proof.
  intros s H.
  pose proof (run_cnt_inv P Q sched _ (cnt_inv_init P)) as I. fold s in I.
  destruct (step_Return_inv _ _ _ H) as (Ep & E0 & E1 & _).
  assert (Hc : ph s <> Collecting) by congruence.
  pose proof (c_ph _ _ I Hc) as Hall.
  destruct (all_todo_nil _ (c_fin _ _ I) Hall) as [Z1 Z2].
  pose proof (c_total _ _ I) as Ht. pose proof (c_flow _ _ I) as Hf.
  pose proof (c_exp _ _ I) as He. pose proof (c_lost _ _ I) as Hl.
  rewrite E0, blen_nil in Hf.
  repeat split; auto; try lia.
  intros t. eapply todo_of_finished; eauto.
Qed.

(* ... hence a returned run has lost nothing; after a give-up that lost at
   least one result the run never returns (it hangs in the purge loop) *)
Lemma never_returns_after_loss P Q sched1 sched2 :
  0 < lost (run Q sched1 (init P)) ->
  ph (run Q (sched1 ++ sched2) (init P)) <> Returned.
Proof.
  intros Hl Hret.
  pose proof (run_cnt_inv P Q (sched1 ++ sched2) _ (cnt_inv_init P)) as I.
  destruct (c_ret _ _ I Hret) as [_ H0].
  rewrite run_app in H0.
  pose proof (run_lost_mono Q sched2 (run Q sched1 (init P))). lia.
Qed.

Lemma drop_loses Q s t s' :
  step Q s (Drop t) = Some s' ->
  lost s' = lost s + lenZ (hd [] (todo_of s t)) /\ todo_of s t <> [].
Proof.
  intros H.
  destruct (step_Drop_inv _ _ _ _ H) as (tk & b & rest & E & E0 & ->).
  unfold todo_of. rewrite E, E0. cbn.
  split; [reflexivity|discriminate].
Qed.

(* returned => all counts agree, with or without drops *)
Lemma returned_complete P Q sched :
  let s := run Q sched (init P) in
  ph s = Returned ->
  all_finished s = true /\ queue s = [] /\ lost s = 0 /\
  coll_len (collected s) = total_results P /\
  expected s = total_results P.
Proof.
  intros s Hret.
  pose proof (run_cnt_inv P Q sched _ (cnt_inv_init P)) as I. fold s in I.
  destruct (c_ret _ _ I Hret) as [Hq Hl].
  assert (Hc : ph s <> Collecting) by congruence.
  pose proof (c_ph _ _ I Hc) as Hall.
  destruct (all_todo_nil _ (c_fin _ _ I) Hall) as [Z1 Z2].
  pose proof (c_total _ _ I) as Ht. pose proof (c_flow _ _ I) as Hf.
  pose proof (c_exp _ _ I) as He.
  rewrite Hq, blen_nil in Hf. repeat split; auto; lia.
Qed.

(* (d) progress *)
Fixpoint find_idx {A} (p : A -> bool) (l : list A) : option nat :=
  match l with
  | [] => None
  | x :: r => if p x then Some O
              else match find_idx p r with Some i => Some (S i) | None => None end
  end.

Lemma find_idx_some {A} (p : A -> bool) l i :
  find_idx p l = Some i -> exists x, nth_error l i = Some x /\ p x = true.
Proof.
  revert i. induction l as [|x r IH]; intros i H; cbn in H; [discriminate|].
  destruct (p x) eqn:E.
  - inversion H; subst. exists x. auto.
  - destruct (find_idx p r) as [j|] eqn:Ej; [|discriminate].
    inversion H; subst. destruct (IH j eq_refl) as [y [Hy Hp]].
    exists y. auto.
Qed.

Lemma find_idx_none {A} (p : A -> bool) l :
  find_idx p l = None -> forallb (fun x => negb (p x)) l = true.
Proof.
  induction l as [|x r IH]; intros H; cbn in *; auto.
  destruct (p x) eqn:E; [discriminate|].
  destruct (find_idx p r); [discriminate|]. cbn. auto.
Qed.

Definition has_todo (tk : task) : bool :=
  match todo tk with [] => false | _ => true end.

Lemma progress P Q sched :
  1 <= Q -> drop_free sched = true ->
  let s := run Q sched (init P) in
  ph s <> Returned ->
  exists a s', is_drop a = false /\ step Q s a = Some s'.
Proof.
  intros HQ Hd s Hnr.
  pose proof (run_cnt_inv P Q sched _ (cnt_inv_init P)) as I. fold s in I.
  assert (Hl : lost s = 0).
  { unfold s. rewrite run_lost_nodrop by assumption. reflexivity. }
  destruct (ph s) eqn:Eph; [| |congruence].
  - (* collecting *)
    destruct (queue s) as [|b q] eqn:Eq.
    + destruct (find_idx has_todo (tasks s)) as [t|] eqn:Ef.
      * destruct (find_idx_some _ _ _ Ef) as [tk [Ht Hp]].
        unfold has_todo in Hp. destruct (todo tk) as [|b rest] eqn:Et;
          [discriminate|].
        exists (Put t). eexists. split; [reflexivity|].
        cbn [step]. rewrite Ht, Et, Eq. cbn [lenZ length Z.of_nat].
        replace (0 <? Q) with true by (symmetry; apply Z.ltb_lt; lia).
        reflexivity.
      * pose proof (find_idx_none _ _ Ef) as Hnone.
        destruct (find_idx (fun tk => negb (finished tk)) (tasks s))
          as [t|] eqn:Ef2.
        -- destruct (find_idx_some _ _ _ Ef2) as [tk [Ht Hp]].
           apply negb_true_iff in Hp.
           pose proof (forallb_nth_error _ _ _ _ Hnone Ht) as Hn.
           unfold has_todo in Hn. destruct (todo tk) eqn:Et;
             [|discriminate].
           exists (Finish t). eexists. split; [reflexivity|].
           cbn [step]. rewrite Ht, Et, Hp. reflexivity.
        -- pose proof (find_idx_none _ _ Ef2) as Hallf.
           exists StartPurge. eexists. split; [reflexivity|].
           cbn [step]. rewrite Eph. cbn [is_collecting].
           unfold all_finished.
           replace (forallb finished (tasks s)) with true; [reflexivity|].
           symmetry. rewrite forallb_forall in *. intros x Hx.
           specialize (Hallf x Hx). apply negb_true_iff in Hallf.
           apply negb_false_iff in Hallf. exact Hallf.
    + exists Collect. eexists. split; [reflexivity|].
      cbn [step]. rewrite Eph, Eq. reflexivity.
  - (* purging *)
    destruct (queue s) as [|b q] eqn:Eq.
    + exists Return. eexists. split; [reflexivity|].
      cbn [step]. rewrite Eph, Eq. cbn [is_purging].
      assert (Hc : ph s <> Collecting) by congruence.
      pose proof (c_ph _ _ I Hc) as Hall.
      destruct (all_todo_nil _ (c_fin _ _ I) Hall) as [Z1 Z2].
      pose proof (c_flow _ _ I) as Hf. pose proof (c_exp _ _ I) as He.
      rewrite Eq, blen_nil in Hf.
      replace (expected s <=? coll_len (collected s)) with true;
        [reflexivity|]. symmetry. apply Z.leb_le. lia.
    + exists PurgeStep. eexists. split; [reflexivity|].
      cbn [step]. rewrite Eph, Eq. reflexivity.
Qed.

(* (e) termination measure *)
Lemma task_weight_nonneg tk : 0 <= task_weight tk.
Proof.
  unfold task_weight. pose proof (lenZ_nonneg (todo tk)).
  destruct (finished tk); lia.
Qed.

Lemma measure_nonneg s : 0 <= measure s.
Proof.
  unfold measure. pose proof (sumZ_nonneg task_weight (tasks s)
                                           task_weight_nonneg).
  pose proof (lenZ_nonneg (queue s)). destruct (ph s); cbn; lia.
Qed.

Lemma step_decreases Q s a s' :
  step Q s a = Some s' -> measure s' + 1 <= measure s.
Proof.
  intros H. unfold measure.
  destruct a as [t|t|t| | | | |].
  - destruct (step_Put_inv _ _ _ _ H) as (tk & b & rest & E & E0 & Hq & ->).
    cbn [tasks queue ph].
    rewrite (sumZ_set_nth _ _ _ _ _ E). unfold task_weight.
    cbn [todo finished]. rewrite E0. unfold lenZ. rewrite app_length. cbn [length]. lia.
  - destruct (step_Drop_inv _ _ _ _ H) as (tk & b & rest & E & E0 & ->).
    cbn [tasks queue ph].
    rewrite (sumZ_set_nth _ _ _ _ _ E). unfold task_weight.
    cbn [todo finished]. rewrite E0. unfold lenZ. cbn [length]. lia.
  - destruct (step_Finish_inv _ _ _ _ H) as (tk & E & E0 & E1 & ->).
    cbn [tasks queue ph].
    rewrite (sumZ_set_nth _ _ _ _ _ E). unfold task_weight.
    cbn [todo finished]. rewrite E0, E1. unfold lenZ. cbn [length]. lia.
  - destruct (step_Collect_inv _ _ _ H) as (b & q & Ep & E0 & ->).
    cbn [tasks queue ph]. rewrite E0. unfold lenZ. cbn [length]. lia.
  - destruct (step_StartPurge_inv _ _ _ H) as (Ep & E0 & ->).
    cbn [tasks queue ph]. rewrite Ep. cbn. lia.
  - destruct (step_PurgeStep_inv _ _ _ H) as (b & q & Ep & E0 & ->).
    cbn [tasks queue ph]. rewrite E0. unfold lenZ. cbn [length]. lia.
  - destruct (step_Return_inv _ _ _ H) as (Ep & E0 & E1 & ->).
    cbn [tasks queue ph]. rewrite E0, Ep. cbn. lia.
  - discriminate.
Qed.

Lemma exec_measure_le Q s a : measure (exec Q s a) <= measure s.
Proof.
  unfold exec. destruct (step Q s a) eqn:E; [|lia].
  pose proof (step_decreases _ _ _ _ E). lia.
Qed.

Lemma effective_bounded Q sched s : effective Q sched s <= measure s.
Proof.
  revert s. induction sched as [|a r IH]; intros s; cbn [effective].
  - apply measure_nonneg.
  - destruct (step Q s a) eqn:E.
    + pose proof (step_decreases _ _ _ _ E). specialize (IH g). lia.
    + apply IH.
Qed.

Lemma run_n_measure_mono Q sigma s n m :
  (n <= m)%nat -> measure (run_n Q sigma m s) <= measure (run_n Q sigma n s).
Proof.
  induction 1 as [|m Hle IH]; [lia|].
  cbn [run_n]. pose proof (exec_measure_le Q (run_n Q sigma m s) (sigma m)).
  lia.
Qed.

Lemma phase_eq_dec (p q : phase) : {p = q} + {p <> q}.
Proof. decide equality. Qed.

Lemma fair_returns Q sigma s0 :
  fair Q sigma s0 -> exists n, ph (run_n Q sigma n s0) = Returned.
Proof.
  intros Hfair.
  assert (Hk : forall k n, measure (run_n Q sigma n s0) <= Z.of_nat k ->
                           exists n', ph (run_n Q sigma n' s0) = Returned).
  { induction k as [|k IH]; intros n Hm.
    - destruct (phase_eq_dec (ph (run_n Q sigma n s0)) Returned) as [E|E];
        [eauto|].
      destruct (Hfair n E) as [m [Hnm Hen]].
      destruct (step Q (run_n Q sigma m s0) (sigma m)) as [s1|] eqn:Es;
        [|congruence].
      pose proof (step_decreases _ _ _ _ Es).
      pose proof (run_n_measure_mono Q sigma s0 n m Hnm).
      pose proof (measure_nonneg s1). lia.
    - destruct (phase_eq_dec (ph (run_n Q sigma n s0)) Returned) as [E|E];
        [eauto|].
      destruct (Hfair n E) as [m [Hnm Hen]].
      destruct (step Q (run_n Q sigma m s0) (sigma m)) as [s1|] eqn:Es;
        [|congruence].
      apply (IH (S m)). cbn [run_n]. unfold exec. rewrite Es.
      pose proof (step_decreases _ _ _ _ Es).
      pose proof (run_n_measure_mono Q sigma s0 n m Hnm). lia. }
  apply (Hk (Z.to_nat (measure s0)) O). cbn [run_n].
  pose proof (measure_nonneg s0). lia.
Qed.

(* finite prefix of an infinite schedule *)
Lemma run_n_run Q sigma n s :
  run_n Q sigma n s = run Q (map sigma (seq 0 n)) s.
Proof.
  induction n as [|n IH]; [reflexivity|].
  rewrite seq_S, map_app, run_app. cbn [run_n]. rewrite IH. reflexivity.
Qed.

(* once returned, the phase never changes again *)
Lemma returned_stable Q s a : ph s = Returned -> ph (exec Q s a) = Returned.
Proof.
  intros Hr. unfold exec. destruct (step Q s a) as [s'|] eqn:H; auto.
  destruct a as [t|t|t| | | | |].
  - destruct (step_Put_inv _ _ _ _ H) as (tk & b & rest & E & E0 & Hq & ->).
    exact Hr.
  - destruct (step_Drop_inv _ _ _ _ H) as (tk & b & rest & E & E0 & ->).
    exact Hr.
  - destruct (step_Finish_inv _ _ _ _ H) as (tk & E & E0 & E1 & ->).
    exact Hr.
  - destruct (step_Collect_inv _ _ _ H) as (b & q & Ep & _). congruence.
  - destruct (step_StartPurge_inv _ _ _ H) as (Ep & _). congruence.
  - destruct (step_PurgeStep_inv _ _ _ H) as (b & q & Ep & _). congruence.
  - destruct (step_Return_inv _ _ _ H) as (Ep & _). congruence.
  - discriminate.
Qed.

Lemma run_n_returned_stable Q sigma s n m :
  (n <= m)%nat -> ph (run_n Q sigma n s) = Returned ->
  ph (run_n Q sigma m s) = Returned.
Proof.
  induction 1 as [|m Hle IH]; intros Hr; auto.
  cbn [run_n]. apply returned_stable. auto.
Qed.
