(* C10 / D8 - a run that starts with the store lock owned by a dead process
   can never finish: every task needs that lock (sync) before it can
   complete, and nobody is left to release it. *)
From Coq Require Import String List Bool Arith Lia.
From SK Require Import Model.Skel Model.Lifecycle Spec.Lifecycle
     Proofs.Lifecycle.
Import ListNotations.
Local Open Scope list_scope.

Definition early_pc (p : mpc) : bool :=
  match p with
  | MEnterMgr | MSubmit _ | MStartInfo | MStartRes | MWait => true
  | _ => false
  end.

Definition young (x : fut) : bool :=
  match x with FNone | FQueued | FRunning => true | _ => false end.

Record Doom (c : cfg) (s : state) : Prop := mkDoom {
  d_store : s_store s = Some ODead;
  d_pc : early_pc (s_pc s) = true;
  d_futs : forall t, young (s_futs s t) = true;
  d_ws : forall w t i j, s_ws s w = WRun t i j ->
      j = None /\ t < ntasks c /\ has_crit (firstn i (prog_of c t)) = false;
  d_pool : s_pool s = PoolOk;
  d_info : s_info s <> IInStore
}.

Lemma has_crit_app a b : has_crit (a ++ b) = has_crit a || has_crit b.
Proof. unfold has_crit. apply existsb_app. Qed.

Lemma firstn_S_nth {A} (l : list A) i x : nth_error l i = Some x ->
  firstn (S i) l = firstn i l ++ [x].
Proof.
  revert i. induction l as [|y l IH]; intros [|i] H; simpl in *; try discriminate.
  - inversion H; reflexivity.
  - rewrite (IH i H). reflexivity.
Qed.

Lemma prog_has_crit c t : forallb has_crit (c_progs c) = true ->
  t < ntasks c -> has_crit (prog_of c t) = true.
Proof.
  intros Hall Ht. rewrite forallb_forall in Hall. apply Hall.
  unfold prog_of. apply nth_In. exact Ht.
Qed.

Lemma doom_step f c s a s' : plain_cfg c -> Doom c s ->
  step f c s a = Some s' -> Doom c s'.
Proof.
  intros (Hpl & Hn & HW & Hcr) HD H.
  destruct HD as [Ds Dp Df Dw Dpl Di].
  destruct s as [pc futs ws info istop ibud res rstop rbud store coll pool mgr fired].
  projs. subst store pool.
  destruct a; unf_step H; unfold fault_here in H; rewrite ?Hpl in H;
    split_step H; inversion H; subst; clear H; projs;
    try discriminate; try congruence.
  all: try (constructor; projs; try assumption; try reflexivity; try discriminate; try congruence;
            intros; upd_cases; try reflexivity; auto; fail).
  (* MWait cannot be left: task 0 is not complete *)
  all: try (exfalso; fl_facts;
            match goal with
            | Hx : forall i, i < ntasks _ -> is_ok (_ i) = true |- _ =>
                specialize (Hx 0 Hn); specialize (Df 0); cbv beta in *;
                destruct (futs 0); discriminate
            end).
  all: try (exfalso; fl_facts; match goal with Hx : ?g ?t = FExc _ |- _ =>
              specialize (Df t); rewrite Hx in Df; discriminate end).
  all: fl_facts.
  all: try (exfalso; match goal with Hx : all_lt _ _ = false |- _ =>
              apply all_lt_false in Hx; destruct Hx as (t0 & ? & Hb);
              specialize (Df t0); cbv beta in *; destruct (futs t0); discriminate end).
  all: try (exfalso; match goal with Hx : _ = WRun _ _ (Some _) |- _ =>
              destruct (Dw _ _ _ _ Hx) as [Q _]; discriminate end).
  all: try (exfalso; match goal with
            | Hx : _ = WRun ?t ?i None, Hy : nth_error _ _ = None |- _ =>
                destruct (Dw _ _ _ _ Hx) as (_ & Ht & Hc);
                apply nth_error_None in Hy; rewrite firstn_all2 in Hc by assumption;
                rewrite (prog_has_crit c t Hcr Ht) in Hc; discriminate end).
  all: constructor; projs; try assumption; try reflexivity; intros; upd_cases;
       inv_eqs; try reflexivity; auto; eauto.
  all: match goal with
       | Hx : _ = WRun ?t ?i None, Hy : nth_error _ _ = Some _ |- _ =>
           destruct (Dw _ _ _ _ Hx) as (_ & Ht & Hc); repeat split; try assumption;
           rewrite (firstn_S_nth _ _ _ Hy), has_crit_app, Hc; reflexivity end.
Qed.

Lemma doom_run f c sched : plain_cfg c -> forall s, Doom c s ->
  Doom c (run f c sched s).
Proof.
  intros Hp. induction sched as [|a r IH]; intros s HD; simpl; [assumption|].
  apply IH. unfold step'. destruct (step f c s a) eqn:E; [|assumption].
  eapply doom_step; eassumption.
Qed.

Lemma doom_init c co : Doom c (init c (Some ODead) co).
Proof.
  constructor; cbn; try reflexivity; try discriminate; intros; discriminate.
Qed.

(* D8(a): whatever the schedule, a fault-free run that finds the store lock
   owned by a dead process never finishes *)
Theorem orphaned_store_lock_dooms f c co : plain_cfg c ->
  doomed f c (init c (Some ODead) co).
Proof.
  intros Hp sched.
  destruct (doom_run f c sched Hp _ (doom_init c co)) as [_ Dp _ _ _ _].
  unfold final. destruct (s_pc _); try discriminate; reflexivity.
Qed.
