(* The calendar order on valid date-times coincides with the order of [secs]. *)
From Coq Require Import ZArith List Bool Lia.
From SK Require Import Model.Base Model.Dates Spec.Since.
Import ListNotations.
Open Scope Z_scope.

(* ------------------------------------------------------------ years *)
Lemma dby_step y :
  days_before_year (y + 1) = days_before_year y + year_len (is_leap y).
Proof.
  unfold days_before_year, year_len, is_leap.
  replace (y + 1 - 1) with y by lia.
  destruct (y mod 4 =? 0) eqn:E4; destruct (y mod 100 =? 0) eqn:E100;
    destruct (y mod 400 =? 0) eqn:E400; cbn [andb orb negb];
    rewrite ?Z.eqb_eq, ?Z.eqb_neq in *;
    Z.div_mod_to_equations; lia.
Qed.

Lemma year_len_pos l : 365 <= year_len l <= 366.
Proof. destruct l; cbn; lia. Qed.

Lemma dby_mono_nat y (n : nat) :
  days_before_year y + year_len (is_leap y)
  <= days_before_year (y + 1 + Z.of_nat n).
Proof.
  induction n as [|n IH].
  - replace (y + 1 + Z.of_nat 0) with (y + 1) by lia. rewrite dby_step. lia.
  - replace (y + 1 + Z.of_nat (S n)) with ((y + 1 + Z.of_nat n) + 1) by lia.
    rewrite dby_step.
    pose proof (year_len_pos (is_leap (y + 1 + Z.of_nat n))). lia.
Qed.

Lemma dby_mono y1 y2 :
  y1 < y2 ->
  days_before_year y1 + year_len (is_leap y1) <= days_before_year y2.
Proof.
  intros H.
  replace y2 with (y1 + 1 + Z.of_nat (Z.to_nat (y2 - y1 - 1))) by lia.
  apply dby_mono_nat.
Qed.

(* ------------------------------------------------------------ months:
   a finite sweep over both kinds of year and the twelve months *)
Definition months : list Z := [1; 2; 3; 4; 5; 6; 7; 8; 9; 10; 11; 12].

Lemma month_in m : 1 <= m <= 12 -> In m months.
Proof.
  intros H. unfold months.
  assert (m = 1 \/ m = 2 \/ m = 3 \/ m = 4 \/ m = 5 \/ m = 6 \/ m = 7 \/
          m = 8 \/ m = 9 \/ m = 10 \/ m = 11 \/ m = 12) as Hm by lia.
  cbn [In]. intuition.
Qed.

Definition month_ok (l : bool) (m : Z) : bool :=
  (28 <=? month_len l m) && (0 <=? month_before l m) &&
  (month_before l m + month_len l m <=? year_len l) &&
  forallb (fun m' => if m <? m'
                     then month_before l m + month_len l m <=? month_before l m'
                     else true) months.

Lemma months_sweep :
  forallb (month_ok true) months && forallb (month_ok false) months = true.
Proof. vm_compute. reflexivity. Qed.

Lemma month_ok_all l m : 1 <= m <= 12 -> month_ok l m = true.
Proof.
  intros H. pose proof months_sweep as S.
  apply andb_true_iff in S. destruct S as [St Sf].
  destruct l.
  - rewrite forallb_forall in St. apply St. apply month_in. exact H.
  - rewrite forallb_forall in Sf. apply Sf. apply month_in. exact H.
Qed.

Lemma month_bounds l m :
  1 <= m <= 12 ->
  28 <= month_len l m /\ 0 <= month_before l m /\
  month_before l m + month_len l m <= year_len l.
Proof.
  intros H. pose proof (month_ok_all l m H) as K. unfold month_ok in K.
  rewrite !andb_true_iff in K. destruct K as [[[K1 K2] K3] _].
  rewrite Z.leb_le in *. lia.
Qed.

Lemma month_mono l m m' :
  1 <= m <= 12 -> 1 <= m' <= 12 -> m < m' ->
  month_before l m + month_len l m <= month_before l m'.
Proof.
  intros H H' Hlt. pose proof (month_ok_all l m H) as K. unfold month_ok in K.
  rewrite !andb_true_iff in K. destruct K as [_ K].
  rewrite forallb_forall in K. specialize (K m' (month_in m' H')).
  apply Z.ltb_lt in Hlt. rewrite Hlt in K. apply Z.leb_le in K. exact K.
Qed.

(* ------------------------------------------------------------ validity *)
Lemma valid_dt_iff t :
  valid_dt t = true <->
  (1 <= yr t <= 9999 /\ 1 <= mo t <= 12 /\
   1 <= dy t <= days_in_month (yr t) (mo t) /\
   0 <= hh t < 24 /\ 0 <= mi t < 60 /\ 0 <= ss t < 60).
Proof.
  unfold valid_dt, MINYEAR, MAXYEAR.
  rewrite !andb_true_iff, !Z.leb_le, !Z.ltb_lt. lia.
Qed.

(* ------------------------------------------------------------ days *)
Lemma sod_bounds h m s :
  0 <= h < 24 -> 0 <= m < 60 -> 0 <= s < 60 ->
  0 <= sec_of_day h m s < 86400.
Proof. unfold sec_of_day. lia. Qed.

(* day of the year of a valid date lies inside the year *)
Lemma doy_bounds y m d :
  1 <= m <= 12 -> 1 <= d <= days_in_month y m ->
  1 <= days_before_month y m + d <= year_len (is_leap y).
Proof.
  unfold days_in_month, days_before_month. intros Hm Hd.
  pose proof (month_bounds (is_leap y) m Hm). lia.
Qed.

(* calendar order on dates -> order on ordinals *)
Lemma ord_mono y1 m1 d1 y2 m2 d2 :
  1 <= m1 <= 12 -> 1 <= d1 <= days_in_month y1 m1 ->
  1 <= m2 <= 12 -> 1 <= d2 <= days_in_month y2 m2 ->
  (y1 < y2 \/ (y1 = y2 /\ (m1 < m2 \/ (m1 = m2 /\ d1 < d2)))) ->
  ymd2ord y1 m1 d1 < ymd2ord y2 m2 d2.
Proof.
  intros Hm1 Hd1 Hm2 Hd2 Hlt. unfold ymd2ord.
  pose proof (doy_bounds y1 m1 d1 Hm1 Hd1) as B1.
  pose proof (doy_bounds y2 m2 d2 Hm2 Hd2) as B2.
  destruct Hlt as [Hy | [Hy [Hm | [Hm Hd]]]].
  - pose proof (dby_mono y1 y2 Hy). lia.
  - subst y2. unfold days_before_month, days_in_month in *.
    pose proof (month_mono (is_leap y1) m1 m2 Hm1 Hm2 Hm). lia.
  - subst y2 m2. lia.
Qed.

(* ------------------------------------------------------------ seconds *)
Lemma secs_mono a b :
  valid_dt a = true -> valid_dt b = true -> lex_lt a b -> secs a < secs b.
Proof.
  intros Va Vb L. apply valid_dt_iff in Va. apply valid_dt_iff in Vb.
  destruct Va as (Ya & Ma & Da & Ha & Ia & Sa).
  destruct Vb as (Yb & Mb & Db & Hb & Ib & Sb).
  unfold secs.
  pose proof (sod_bounds _ _ _ Ha Ia Sa) as Ba.
  pose proof (sod_bounds _ _ _ Hb Ib Sb) as Bb.
  unfold lex_lt in L.
  assert ((yr a < yr b \/ (yr a = yr b /\ (mo a < mo b \/
             (mo a = mo b /\ dy a < dy b)))) \/
          (yr a = yr b /\ mo a = mo b /\ dy a = dy b /\
           (hh a < hh b \/ (hh a = hh b /\ (mi a < mi b \/
             (mi a = mi b /\ ss a < ss b)))))) as [Hd | Ht] by lia.
  - pose proof (ord_mono _ _ _ _ _ _ Ma Da Mb Db Hd). lia.
  - destruct Ht as (Ey & Em & Ed & Ht). rewrite Ey, Em, Ed.
    unfold sec_of_day in *. lia.
Qed.

Lemma lex_trichotomy a b : lex_lt a b \/ a = b \/ lex_lt b a.
Proof.
  assert (lex_lt a b \/
          (yr a = yr b /\ mo a = mo b /\ dy a = dy b /\
           hh a = hh b /\ mi a = mi b /\ ss a = ss b) \/
          lex_lt b a) as [H | [H | H]] by (unfold lex_lt; lia).
  - left. exact H.
  - right. left. destruct a, b. cbn in H.
    destruct H as (? & ? & ? & ? & ? & ?). subst. reflexivity.
  - right. right. exact H.
Qed.

Lemma lex_lt_iff_secs a b :
  valid_dt a = true -> valid_dt b = true ->
  (lex_lt a b <-> secs a < secs b).
Proof.
  intros Va Vb. split.
  - apply secs_mono; assumption.
  - intros Hs. destruct (lex_trichotomy a b) as [H | [H | H]].
    + exact H.
    + subst b. lia.
    + pose proof (secs_mono b a Vb Va H). lia.
Qed.

Lemma eq_iff_secs a b :
  valid_dt a = true -> valid_dt b = true ->
  (a = b <-> secs a = secs b).
Proof.
  intros Va Vb. split.
  - intros ->. reflexivity.
  - intros Hs. destruct (lex_trichotomy a b) as [H | [H | H]].
    + pose proof (secs_mono a b Va Vb H). lia.
    + exact H.
    + pose proof (secs_mono b a Vb Va H). lia.
Qed.

Lemma ord_strictly_monotone_lemma a b :
  valid_dt a = true -> valid_dt b = true ->
  (lex_lt a b <-> secs a < secs b) /\ (a = b <-> secs a = secs b).
Proof.
  intros Va Vb. split.
  - apply lex_lt_iff_secs; assumption.
  - apply eq_iff_secs; assumption.
Qed.

(* "at or after" in calendar terms *)
Lemma not_before_iff_secs a b :
  valid_dt a = true -> valid_dt b = true ->
  (~ lex_lt a b <-> secs b <= secs a).
Proof.
  intros Va Vb. rewrite (lex_lt_iff_secs a b Va Vb). lia.
Qed.

(* range of [secs] over valid date-times *)
Lemma secs_range t :
  valid_dt t = true ->
  secs (DT 1 1 1 0 0 0) <= secs t <= secs (DT 9999 12 31 23 59 59).
Proof.
  intros V.
  assert (V0 : valid_dt (DT 1 1 1 0 0 0) = true) by (vm_compute; reflexivity).
  assert (V1 : valid_dt (DT 9999 12 31 23 59 59) = true)
    by (vm_compute; reflexivity).
  split.
  - destruct (lex_trichotomy (DT 1 1 1 0 0 0) t) as [H | [H | H]].
    + pose proof (secs_mono _ _ V0 V H). lia.
    + subst t. lia.
    + exfalso. apply valid_dt_iff in V. unfold lex_lt in H. cbn in H.
      unfold days_in_month in V. lia.
  - destruct (lex_trichotomy t (DT 9999 12 31 23 59 59)) as [H | [H | H]].
    + pose proof (secs_mono _ _ V V1 H). lia.
    + subst t. lia.
    + exfalso. apply valid_dt_iff in V. unfold lex_lt in H. cbn in H.
      destruct V as (Y & M & D & Hh & Mi & S).
      assert (yr t = 9999 /\ mo t = 12) as [Ey Em] by lia.
      rewrite Ey, Em in D.
      assert (days_in_month 9999 12 = 31) as E31 by (vm_compute; reflexivity).
      rewrite E31 in D. lia.
Qed.
