(* Python's bisect.bisect_left over range(lo, hi) of a monotone function:
   generic correctness, first for a pure function, then for the stateful
   loop of Model/SinceSeek.v (which also remembers the last probe whose value
   was >= the key). *)
From Coq Require Import ZArith List Bool Lia.
From SK Require Import Model.Base Model.Seek Model.SinceSeek.
Import ListNotations.
Open Scope Z_scope.

(* lo = 0; hi = len; while lo < hi: mid = (lo+hi)//2;
   if a[mid] < x: lo = mid+1 else: hi = mid; return lo *)
Fixpoint bisect_left (g : Z -> Z) (x : Z) (fuel : nat) (lo hi : Z)
  : option Z :=
  match fuel with
  | O => None
  | S f =>
      if lo <? hi then
        let mid := (lo + hi) / 2 in
        if g mid <? x then bisect_left g x f (mid + 1) hi
        else bisect_left g x f lo mid
      else Some lo
  end.

Lemma mid_bounds lo hi : lo < hi -> lo <= (lo + hi) / 2 < hi.
Proof.
  intros Hlt. split.
  - apply Z.div_le_lower_bound; lia.
  - apply Z.div_lt_upper_bound; lia.
Qed.

(* For g monotone on [lo, hi): the result r splits the range into values
   < x and values >= x, i.e. r is the least index with g r >= x (or hi);
   fuel hi - lo + 1 is always enough. *)
Theorem bisect_left_correct (g : Z -> Z) (x : Z) :
  forall fuel lo hi,
    lo <= hi -> (Z.to_nat (hi - lo) < fuel)%nat ->
    (forall i j, lo <= i -> i <= j -> j < hi -> g i <= g j) ->
    exists r, bisect_left g x fuel lo hi = Some r /\ lo <= r <= hi /\
              (forall i, lo <= i < r -> g i < x) /\
              (forall i, r <= i < hi -> x <= g i).
Proof.
  induction fuel as [|f IH]; intros lo hi Hle Hfuel Hmono; [lia|].
  cbn [bisect_left]. destruct (lo <? hi) eqn:Elt.
  - pose proof (mid_bounds lo hi ltac:(lia)) as Hmid.
    set (mid := (lo + hi) / 2) in *. cbv zeta.
    destruct (g mid <? x) eqn:Eg.
    + destruct (IH (mid + 1) hi) as (r & Hr & Hb & Hlo & Hhi);
        [lia|lia|intros; apply Hmono; lia|].
      exists r. split; [exact Hr|]. split; [lia|]. split; [|exact Hhi].
      intros i Hi. destruct (Z_lt_le_dec i (mid + 1)) as [Hs|Hs].
      * assert (g i <= g mid) by (apply Hmono; lia). lia.
      * apply Hlo. lia.
    + destruct (IH lo mid) as (r & Hr & Hb & Hlo & Hhi);
        [lia|lia|intros; apply Hmono; lia|].
      exists r. split; [exact Hr|]. split; [lia|]. split; [exact Hlo|].
      intros i Hi. destruct (Z_lt_le_dec i mid) as [Hs|Hs].
      * apply Hhi. lia.
      * assert (g mid <= g i) by (apply Hmono; lia). lia.
  - exists lo. split; [reflexivity|]. split; [lia|]. split; intros; lia.
Qed.

(* ---------------------------------------------- the loop of the model --- *)
Section Stateful.
  Variables (H A L W : Z) (tsw : list Z -> option Z) (c : list Z).
  Variable since : Z.
  (* what a successful lookup returns: the date g o and the LogLine kept *)
  Variables (g : Z -> Z) (lineof : Z -> logline).
  Variables (lo0 hi0 : Z).
  Hypothesis getitem_ok : forall st o, lo0 <= o < hi0 ->
    getitem H A L W tsw c since st o =
    GiDate (g o) (true, if since <=? g o then Some (lineof o) else snd st).
  Hypothesis g_mono : forall i j, lo0 <= i -> i <= j -> j < hi0 -> g i <= g j.

  Theorem bisect_model_correct : forall fuel st lo hi,
    lo0 <= lo -> lo <= hi -> hi <= hi0 ->
    (Z.to_nat (hi - lo) < fuel)%nat ->
    exists r st',
      bisect H A L W tsw c fuel since st lo hi = BsDone r st' /\
      lo <= r <= hi /\
      (forall i, lo <= i < r -> g i < since) /\
      (forall i, r <= i < hi -> since <= g i) /\
      snd st' = (if r <? hi then Some (lineof r) else snd st) /\
      (fst st' = true <-> (fst st = true \/ lo < hi)).
  Proof.
    induction fuel as [|f IH]; intros st lo hi Hlo0 Hle Hhi0 Hfuel; [lia|].
    cbn [bisect]. destruct (lo <? hi) eqn:Elt.
    - pose proof (mid_bounds lo hi ltac:(lia)) as Hmid.
      set (mid := (lo + hi) / 2) in *. cbv zeta.
      rewrite getitem_ok by lia.
      destruct (g mid <? since) eqn:Eg.
      + replace (since <=? g mid) with false by lia.
        destruct (IH (true, snd st) (mid + 1) hi) as
            (r & st' & Hr & Hb & Hlt & Hge & Hli & Hfa); [lia|lia|lia|lia|].
        exists r, st'. split; [exact Hr|]. split; [lia|]. split.
        * intros i Hi. destruct (Z_lt_le_dec i (mid + 1)) as [Hs|Hs].
          -- assert (g i <= g mid) by (apply g_mono; lia). lia.
          -- apply Hlt. lia.
        * split; [exact Hge|]. split; [exact Hli|].
          cbn [fst] in Hfa. split; intro; [right; lia|tauto].
      + replace (since <=? g mid) with true by lia.
        destruct (IH (true, Some (lineof mid)) lo mid) as
            (r & st' & Hr & Hb & Hlt & Hge & Hli & Hfa); [lia|lia|lia|lia|].
        exists r, st'. split; [exact Hr|]. split; [lia|]. split; [exact Hlt|].
        split.
        * intros i Hi. destruct (Z_lt_le_dec i mid) as [Hs|Hs].
          -- apply Hge. lia.
          -- assert (g mid <= g i) by (apply g_mono; lia). lia.
        * split.
          -- rewrite Hli. cbn [snd].
             replace (r <? hi) with true by lia.
             destruct (r <? mid) eqn:Er; [reflexivity|].
             replace r with mid by lia. reflexivity.
          -- cbn [fst] in Hfa. split; intro; [right; lia|tauto].
    - exists lo, st. split; [reflexivity|]. split; [lia|].
      split; [intros; lia|]. split; [intros; lia|].
      split; [replace (lo <? hi) with false by lia; reflexivity|].
      split; [tauto|intros [E|E]; [exact E|lia]].
  Qed.
End Stateful.
