(* C03 - several sequence definitions in one fold over the file: shared
   SequenceSearchResults object, shared uuid source.  Each definition's
   exported results are those of a run of that definition alone (up to the
   choice of fresh ids), hence exactly the specification's sections. *)
From Coq Require Import ZArith List Bool Arith Lia.
From SK Require Import Model.Sequence Spec.Sequence Proofs.Sequence.
Import ListNotations.
Open Scope Z_scope.

(* ------------------------------------------------ dictionary lemmas *)
Lemma alist_get_add_same {A} k (x : A) d :
  alist_get k (alist_add k x d) = alist_get k d ++ [x].
Proof.
  induction d as [|[k' l] d IH]; simpl.
  - rewrite Nat.eqb_refl. reflexivity.
  - destruct (Nat.eqb_spec k' k) as [E|E]; simpl.
    + subst. rewrite Nat.eqb_refl. reflexivity.
    + apply Nat.eqb_neq in E. rewrite E. exact IH.
Qed.

Lemma alist_get_add_other {A} k j (x : A) d :
  k <> j -> alist_get k (alist_add j x d) = alist_get k d.
Proof.
  intros Hkj. induction d as [|[k' l] d IH]; simpl.
  - destruct (Nat.eqb_spec j k); [congruence | reflexivity].
  - destruct (Nat.eqb_spec k' j) as [E|E]; simpl.
    + subst. destruct (Nat.eqb_spec j k); [congruence | reflexivity].
    + destruct (Nat.eqb_spec k' k); [reflexivity | exact IH].
Qed.

Lemma alist_get_update_same {A} k (f : list A -> list A) d :
  f [] = [] -> alist_get k (alist_update k f d) = f (alist_get k d).
Proof.
  intros Hf. induction d as [|[k' l] d IH]; simpl; [symmetry; exact Hf|].
  destruct (Nat.eqb_spec k' k) as [E|E]; simpl.
  - subst. rewrite Nat.eqb_refl. reflexivity.
  - apply Nat.eqb_neq in E. rewrite E. exact IH.
Qed.

Lemma alist_get_update_other {A} k j (f : list A -> list A) d :
  k <> j -> alist_get k (alist_update j f d) = alist_get k d.
Proof.
  intros Hkj. induction d as [|[k' l] d IH]; simpl; [reflexivity|].
  destruct (Nat.eqb_spec k' j) as [E|E]; simpl.
  - subst. destruct (Nat.eqb_spec j k); [congruence | exact IH].
  - destruct (Nat.eqb_spec k' k); [reflexivity | exact IH].
Qed.

Lemma keys_update {A} k (f : list A -> list A) d :
  keys (alist_update k f d) = keys d.
Proof.
  unfold keys, alist_update. rewrite map_map. apply map_ext.
  intros [k' l]. simpl. destruct (Nat.eqb k' k); reflexivity.
Qed.

Lemma keys_add_in {A} k (x : A) d j :
  In j (keys (alist_add k x d)) -> j = k \/ In j (keys d).
Proof.
  induction d as [|[k' l] d IH]; simpl.
  - intros [H|[]]. left. symmetry. exact H.
  - destruct (Nat.eqb_spec k' k); simpl.
    + intros [H|H]; right; [left | right]; assumption.
    + intros [H|H]; [right; left; exact H|].
      destruct (IH H) as [H1|H1]; [left | right; right]; assumption.
Qed.

Lemma keys_add_NoDup {A} k (x : A) d :
  NoDup (keys d) -> NoDup (keys (alist_add k x d)).
Proof.
  induction d as [|[k' l] d IH]; simpl; intros H.
  - constructor; [intros [] | constructor].
  - inversion H as [|? ? Hn Hd]; subst.
    destruct (Nat.eqb_spec k' k); simpl.
    + constructor; assumption.
    + constructor; [|apply IH; exact Hd].
      intros Hin. destruct (keys_add_in _ _ _ _ Hin) as [E|E];
        [congruence | apply Hn; exact E].
Qed.

Lemma dict_apply_get_same key ln ops : forall d,
  alist_get key (dict_apply_ops key ln ops d)
  = apply_ops ln ops (alist_get key d).
Proof.
  unfold dict_apply_ops, apply_ops.
  induction ops as [|o ops IH]; simpl; intros d; [reflexivity|].
  rewrite IH. f_equal. destruct o as [s| |r s v]; simpl.
  - apply alist_get_update_same. reflexivity.
  - apply alist_get_update_same. reflexivity.
  - apply alist_get_add_same.
Qed.

Lemma dict_apply_get_other key j ln ops : forall d,
  key <> j ->
  alist_get key (dict_apply_ops j ln ops d) = alist_get key d.
Proof.
  unfold dict_apply_ops.
  induction ops as [|o ops IH]; simpl; intros d H; [reflexivity|].
  rewrite IH by exact H. destruct o as [s| |r s v]; simpl.
  - apply alist_get_update_other. exact H.
  - apply alist_get_update_other. exact H.
  - apply alist_get_add_other. exact H.
Qed.

Lemma dict_apply_NoDup key ln ops : forall d,
  NoDup (keys d) -> NoDup (keys (dict_apply_ops key ln ops d)).
Proof.
  unfold dict_apply_ops.
  induction ops as [|o ops IH]; simpl; intros d H; [exact H|].
  apply IH. destruct o as [s| |r s v]; simpl.
  - fold (keys (alist_update key (filter (keep_other s)) d)).
    rewrite keys_update. exact H.
  - fold (keys (alist_update key (fun _ : list part => []) d)).
    rewrite keys_update. exact H.
  - apply keys_add_NoDup. exact H.
Qed.

(* ------------------------------------------------ one line, all defs *)
Definition ctl_of (d : dstate) (nx : nat) : ctl :=
  {| started := d_started d; cur := d_cur d; next := nx |}.

Lemma ctl_step_next_le sh k c : (next k <= next (fst (ctl_step sh k c)))%nat.
Proof.
  destruct k as [stt cu nx]. destruct sh as [he hb ee]. destruct c as [cs ce cb].
  unfold ctl_step, ctl_step_with. simpl.
  destruct he, stt, cs, ce, hb, cb; simpl; lia.
Qed.

Lemma m_defs_step_spec ln cls : forall ds idx nx res ds' nx' res',
  m_defs_step ln cls idx ds nx res = (ds', nx', res') ->
  (nx <= nx')%nat /\
  (NoDup (keys res) -> NoDup (keys res')) /\
  (forall key, (key < idx \/ idx + length ds <= key)%nat ->
               alist_get key res' = alist_get key res) /\
  (forall j d, nth_error ds j = Some d ->
     exists stb d',
       nth_error ds' j = Some d' /\ d_shape d' = d_shape d /\
       bump (ctl_of d nx, alist_get (idx + j)%nat res) stb /\
       bump (seq_step (d_shape d) stb ln (nth (idx + j)%nat cls no_match))
            (ctl_of d' nx', alist_get (idx + j)%nat res')).
Proof.
  induction ds as [|d ds IH]; intros idx nx res ds' nx' res' H.
  - simpl in H. inversion H; subst. repeat split; auto.
    intros [|j] d Hd; discriminate.
  - simpl in H.
    destruct (ctl_step (d_shape d)
                {| started := d_started d; cur := d_cur d; next := nx |}
                (nth idx cls no_match)) as [k' ops] eqn:Ek.
    destruct (m_defs_step ln cls (S idx) ds (next k')
                (dict_apply_ops idx ln ops res)) as [[r' nx1] res1] eqn:Er.
    inversion H; subst ds' nx' res'; clear H.
    destruct (IH _ _ _ _ _ _ Er) as (Hle & Hnd & Hother & Hnth).
    assert (Hk : (nx <= next k')%nat).
    { pose proof (ctl_step_next_le (d_shape d) (ctl_of d nx)
                                   (nth idx cls no_match)) as Hm.
      unfold ctl_of in Hm. rewrite Ek in Hm. exact Hm. }
    split; [lia|]. split; [|split].
    + intros Hn. apply Hnd. apply dict_apply_NoDup. exact Hn.
    + intros key Hkey. simpl in Hkey.
      rewrite Hother by lia. apply dict_apply_get_other. lia.
    + intros [|j] d0 Hd0; simpl in Hd0.
      * inversion Hd0; subst d0; clear Hd0.
        exists (ctl_of d nx, alist_get (idx + 0)%nat res).
        eexists. split; [reflexivity|]. simpl. split; [reflexivity|].
        split; [apply bump_refl|].
        rewrite Nat.add_0_r.
        unfold seq_step, seq_step_with, ctl_of. simpl. rewrite Ek.
        unfold bump. simpl. repeat split; try lia.
        rewrite Hother by lia. apply dict_apply_get_same.
      * destruct (Hnth j d0 Hd0) as (stb & d' & Hn' & Hsh & Hb1 & Hb2).
        exists stb, d'. split; [exact Hn'|]. split; [exact Hsh|].
        replace (idx + S j)%nat with (S idx + j)%nat by lia.
        split; [|exact Hb2].
        eapply bump_trans; [|exact Hb1].
        unfold bump, ctl_of. simpl. repeat split; try lia.
        apply dict_apply_get_other. lia.
Qed.

(* ------------------------------------------------ the loop *)
Definition pstate (key : nat) (d : dstate) (ms : mstate) : sstate :=
  (ctl_of d (m_next ms), alist_get key (m_res ms)).

Lemma m_loop_runs l : forall ms ln ms' ln' key d,
  m_loop ms ln l = (ms', ln') ->
  nth_error (m_defs ms) key = Some d ->
  (NoDup (keys (m_res ms)) -> NoDup (keys (m_res ms'))) /\
  exists d',
    nth_error (m_defs ms') key = Some d' /\ d_shape d' = d_shape d /\
    runs (d_shape d) (pstate key d ms) ln (lines_of key l)
         (pstate key d' ms') ln'.
Proof.
  induction l as [|cls r IH]; simpl; intros ms ln ms' ln' key d H Hd.
  - inversion H; subst. split; [auto|]. exists d. split; [exact Hd|].
    split; [reflexivity|]. constructor. apply bump_refl.
  - unfold m_step in H.
    destruct (m_defs_step (ln + 1) cls 0 (m_defs ms) (m_next ms) (m_res ms))
      as [[ds1 nx1] res1] eqn:E1.
    destruct (m_defs_step_spec _ _ _ _ _ _ _ _ _ E1)
      as (Hle & Hnd & Hother & Hnth).
    destruct (Hnth key d Hd) as (stb & d1 & Hn1 & Hsh1 & Hb1 & Hb2).
    simpl in Hb1, Hb2.
    set (ms1 := {| m_defs := ds1; m_next := nx1; m_res := res1 |}) in *.
    destruct (IH ms1 (ln + 1) ms' ln' key d1 H Hn1)
      as (Hnd' & d' & Hn' & Hsh' & Hr).
    split; [intros Hn; apply Hnd'; apply Hnd; exact Hn|].
    exists d'. split; [exact Hn'|]. split; [congruence|].
    econstructor; [exact Hb1|].
    eapply runs_bump_left; [exact Hb2|].
    rewrite Hsh1 in Hr. exact Hr.
Qed.

(* ------------------------------------------------ end of file *)
Definition eof_add (d : dstate) (ln : Z) : list part :=
  if d_started d && has_end (d_shape d) then
    match end_empty (d_shape d) with
    | Some v => [(d_cur d, (ln + 1, REnd, v))]
    | None => []
    end
  else [].

Definition eof_flt (d : dstate) : option nat :=
  if d_started d && has_end (d_shape d) then
    match end_empty (d_shape d) with
    | Some _ => None
    | None => Some (d_cur d)
    end
  else None.

Lemma m_eof_scan_spec ln : forall ds idx res flt res' flt',
  m_eof_scan ln idx ds res flt = (res', flt') ->
  (NoDup (keys res) -> NoDup (keys res')) /\
  (forall key, (key < idx \/ idx + length ds <= key)%nat ->
     alist_get key res' = alist_get key res /\
     forall s, In (key, s) flt' <-> In (key, s) flt) /\
  (forall j d, nth_error ds j = Some d ->
     alist_get (idx + j)%nat res'
     = alist_get (idx + j)%nat res ++ eof_add d ln /\
     forall s, In ((idx + j)%nat, s) flt'
               <-> In ((idx + j)%nat, s) flt \/ eof_flt d = Some s).
Proof.
  induction ds as [|d ds IH]; intros idx res flt res' flt' H.
  - simpl in H. inversion H; subst. split; [auto|]. split.
    + intros key _. split; [reflexivity | intros s; reflexivity].
    + intros [|j] d Hd; discriminate.
  - simpl in H.
    remember (d_started d && has_end (d_shape d)) as act eqn:Eact.
    assert (Hgen : forall resm fltm addm fm,
      m_eof_scan ln (S idx) ds resm fltm = (res', flt') ->
      (NoDup (keys res) -> NoDup (keys resm)) ->
      (forall key, key <> idx -> alist_get key resm = alist_get key res) ->
      alist_get idx resm = alist_get idx res ++ addm ->
      (forall key s, key <> idx -> (In (key, s) fltm <-> In (key, s) flt)) ->
      (forall s, In (idx, s) fltm <-> In (idx, s) flt \/ fm = Some s) ->
      (NoDup (keys res) -> NoDup (keys res')) /\
      (forall key, (key < idx \/ idx + S (length ds) <= key)%nat ->
         alist_get key res' = alist_get key res /\
         forall s, In (key, s) flt' <-> In (key, s) flt) /\
      (alist_get idx res' = alist_get idx res ++ addm /\
       forall s, In (idx, s) flt' <-> In (idx, s) flt \/ fm = Some s) /\
      (forall j d0, nth_error ds j = Some d0 ->
         alist_get (S idx + j)%nat res'
         = alist_get (S idx + j)%nat res ++ eof_add d0 ln /\
         forall s, In ((S idx + j)%nat, s) flt'
                   <-> In ((S idx + j)%nat, s) flt \/ eof_flt d0 = Some s)).
    { intros resm fltm addm fm Hm Hn Hres Hidx Hflt Hfidx.
      destruct (IH _ _ _ _ _ Hm) as (Hnd & Hother & Hnth).
      split; [intros Hx; apply Hnd; apply Hn; exact Hx|]. split; [|split].
      - intros key Hkey. destruct (Hother key) as [G1 G2]; [lia|].
        split; [rewrite G1; apply Hres; lia|].
        intros s. rewrite G2. apply Hflt. lia.
      - destruct (Hother idx) as [G1 G2]; [lia|].
        split; [rewrite G1; exact Hidx|]. intros s. rewrite G2. apply Hfidx.
      - intros j d0 Hd0. destruct (Hnth j d0 Hd0) as [G1 G2].
        split; [rewrite G1; rewrite Hres by lia; reflexivity|].
        intros s. rewrite G2. rewrite Hflt by lia. reflexivity. }
    assert (Hfin :
      (NoDup (keys res) -> NoDup (keys res')) /\
      (forall key, (key < idx \/ idx + S (length ds) <= key)%nat ->
         alist_get key res' = alist_get key res /\
         forall s, In (key, s) flt' <-> In (key, s) flt) /\
      (alist_get idx res' = alist_get idx res ++ eof_add d ln /\
       forall s, In (idx, s) flt' <-> In (idx, s) flt \/ eof_flt d = Some s) /\
      (forall j d0, nth_error ds j = Some d0 ->
         alist_get (S idx + j)%nat res'
         = alist_get (S idx + j)%nat res ++ eof_add d0 ln /\
         forall s, In ((S idx + j)%nat, s) flt'
                   <-> In ((S idx + j)%nat, s) flt \/ eof_flt d0 = Some s)).
    { unfold eof_add, eof_flt. rewrite <- Eact. destruct act.
      - destruct (end_empty (d_shape d)) as [v|].
        + apply (Hgen _ _ _ _ H).
          * apply keys_add_NoDup.
          * intros key Hk. apply alist_get_add_other. exact Hk.
          * apply alist_get_add_same.
          * intros; reflexivity.
          * intros s. split; [auto | intros [G|G]; [exact G | discriminate]].
        + apply (Hgen _ _ _ _ H).
          * auto.
          * reflexivity.
          * rewrite app_nil_r. reflexivity.
          * intros key s Hk. rewrite in_app_iff. simpl.
            split; [intros [G|[G|[]]]; [exact G | inversion G; congruence]
                   | auto].
          * intros s. rewrite in_app_iff. simpl.
            split.
            -- intros [G|[G|[]]]; [left; exact G | right; inversion G; reflexivity].
            -- intros [G|G]; [left; exact G | right; left; inversion G; reflexivity].
      - apply (Hgen _ _ _ _ H).
        + auto.
        + reflexivity.
        + rewrite app_nil_r. reflexivity.
        + intros; reflexivity.
        + intros s. split; [auto | intros [G|G]; [exact G | discriminate]]. }
    destruct Hfin as (F1 & F2 & F3 & F4).
    split; [exact F1|]. split; [exact F2|].
    intros [|j] d0 Hd0; simpl in Hd0.
    + inversion Hd0; subst d0. rewrite Nat.add_0_r. exact F3.
    + replace (idx + S j)%nat with (S idx + j)%nat by lia. apply F4. exact Hd0.
Qed.

Lemma filtered_in flt key p :
  filtered flt key p = true <-> In (key, fst p) flt.
Proof.
  unfold filtered. rewrite existsb_exists. split.
  - intros [[a b] [Hin Hab]]. simpl in Hab.
    apply andb_true_iff in Hab. destruct Hab as [Ha Hb].
    apply Nat.eqb_eq in Ha. apply Nat.eqb_eq in Hb. subst. exact Hin.
  - intros Hin. exists (key, fst p). split; [exact Hin|]. simpl.
    rewrite !Nat.eqb_refl. reflexivity.
Qed.

Lemma m_view_absent key res flt :
  ~ In key (keys res) -> m_view key (m_export res flt) = [].
Proof.
  unfold m_view, m_export.
  induction res as [|[k l] res IH]; simpl; intros H; [reflexivity|].
  rewrite filter_app, map_app. rewrite IH by (intros G; apply H; right; exact G).
  rewrite app_nil_r.
  assert (Hk : k <> key) by (intros E; apply H; left; exact E).
  induction (filter (fun p => negb (filtered flt k p)) l) as [|x xs IHx];
    simpl; [reflexivity|].
  destruct (Nat.eqb_spec k key); [contradiction | exact IHx].
Qed.

(* find_sequence_sections of the exported list sees exactly the unfiltered
   entries of that definition's list *)
Lemma m_view_export key res flt :
  NoDup (keys res) ->
  m_view key (m_export res flt)
  = filter (fun p => negb (filtered flt key p)) (alist_get key res).
Proof.
  induction res as [|[k l] res IH]; simpl; intros Hnd; [reflexivity|].
  inversion Hnd as [|? ? Hn Hd]; subst.
  unfold m_view, m_export in *. simpl. rewrite filter_app, map_app.
  destruct (Nat.eqb_spec k key) as [E|E].
  - subst k.
    pose proof (m_view_absent key res flt Hn) as Habs.
    unfold m_view, m_export in Habs. rewrite Habs, app_nil_r.
    induction (filter (fun p => negb (filtered flt key p)) l) as [|x xs IHx];
      simpl; [reflexivity|]. rewrite Nat.eqb_refl. simpl. f_equal. exact IHx.
  - rewrite IH by exact Hd.
    assert (Hnil : map snd (filter (fun x : nat * part => Nat.eqb (fst x) key)
              (map (pair k) (filter (fun p => negb (filtered flt k p)) l))) = []).
    { induction (filter (fun p => negb (filtered flt k p)) l) as [|x xs IHx];
        simpl; [reflexivity|].
      destruct (Nat.eqb_spec k key); [contradiction | exact IHx]. }
    rewrite Hnil. reflexivity.
Qed.

Lemma filter_id {A} (f : A -> bool) l :
  (forall x, In x l -> f x = true) -> filter f l = l.
Proof.
  induction l as [|x l IH]; simpl; intros H; [reflexivity|].
  rewrite (H x) by (left; reflexivity). f_equal. apply IH.
  intros y Hy. apply H. right. exact Hy.
Qed.

Lemma nth_error_init shapes key sh :
  nth_error shapes key = Some sh ->
  nth_error (m_defs (m_init shapes)) key
  = Some {| d_shape := sh; d_started := false; d_cur := 0%nat |}.
Proof.
  intros H. unfold m_init. simpl.
  rewrite nth_error_map, H. reflexivity.
Qed.

(* what find_sequence_sections shows for definition [key] after the joint
   run is the export of a run of that definition with interference on the
   uuid source only *)
Lemma m_run_view shapes l key sh :
  nth_error shapes key = Some sh ->
  exists st ln,
    runs sh init_state 0 (lines_of key l) st ln /\
    m_view key (m_run shapes l) = seq_eof sh st ln.
Proof.
  intros Hsh. unfold m_run.
  destruct (m_loop (m_init shapes) 0 l) as [ms ln] eqn:EL.
  destruct (m_loop_runs l _ _ _ _ key _ EL (nth_error_init _ _ _ Hsh))
    as (Hnd & d' & Hn' & Hshape & Hr). simpl in Hshape, Hr.
  destruct (m_eof_scan ln 0 (m_defs ms) (m_res ms) []) as [res flt] eqn:EE.
  destruct (m_eof_scan_spec ln _ _ _ _ _ _ EE) as (Hnd2 & _ & Hnth).
  destruct (Hnth key d' Hn') as [Hget Hflt]. simpl in Hget, Hflt.
  exists (pstate key d' ms), ln. split; [exact Hr|].
  rewrite m_view_export by (apply Hnd2; apply Hnd; constructor).
  rewrite Hget. unfold seq_eof, pstate, ctl_of, eof_add. simpl.
  rewrite Hshape.
  assert (Hfilt : forall p, filtered flt key p = true <-> eof_flt d' = Some (fst p)).
  { intros p. rewrite filtered_in, Hflt. simpl. tauto. }
  unfold eof_flt in Hfilt. rewrite Hshape in Hfilt.
  destruct (d_started d' && has_end sh).
  - destruct (end_empty sh) as [v|].
    + apply filter_id.
      intros p _. destruct (filtered flt key p) eqn:Ef; [|reflexivity].
      apply Hfilt in Ef. discriminate.
    + rewrite app_nil_r. apply filter_ext. intros p. unfold keep_other.
      destruct (filtered flt key p) eqn:Ef.
      * apply Hfilt in Ef. inversion Ef as [E]. rewrite Nat.eqb_refl. reflexivity.
      * destruct (Nat.eqb_spec (fst p) (d_cur d')) as [E|E]; [|reflexivity].
        assert (Ht : filtered flt key p = true)
          by (apply Hfilt; rewrite E; reflexivity).
        congruence.
  - rewrite app_nil_r. apply filter_id.
    intros p _. destruct (filtered flt key p) eqn:Ef; [|reflexivity].
    apply Hfilt in Ef. discriminate.
Qed.

(* exactness for every definition of a joint run *)
Lemma multi_exact_tagged shapes l key sh :
  nth_error shapes key = Some sh ->
  exists ids, NoDup ids /\
    length ids = length (sections sh (lines_of key l)) /\
    m_view key (m_run shapes l) = tagged ids (sections sh (lines_of key l)).
Proof.
  intros Hsh. destruct (m_run_view shapes l key sh Hsh) as (st & ln & Hr & Heq).
  rewrite Heq. eapply runs_exact. exact Hr.
Qed.

Lemma multi_exact_report shapes l key sh :
  nth_error shapes key = Some sh ->
  report (m_view key (m_run shapes l)) = spec_report sh (lines_of key l).
Proof.
  intros Hsh.
  destruct (multi_exact_tagged shapes l key sh Hsh) as (ids & Hnd & Hlen & Heq).
  rewrite Heq. apply report_tagged; assumption.
Qed.

(* independence: what is reported for a definition in a joint run is what
   is reported when it runs alone on the same file *)
Lemma independence shapes l key sh :
  nth_error shapes key = Some sh ->
  report (m_view key (m_run shapes l)) = report (seq_run sh (lines_of key l)).
Proof.
  intros Hsh. rewrite (multi_exact_report _ _ _ _ Hsh).
  symmetry. apply sequence_exact_report.
Qed.
