(* Bridge between the list formulations of Spec/C04.v (what the harness
   evaluates: line_starts, first_in_window, time_ordered, max_undated_run)
   and the offset formulations used by Proofs/SinceSeekTop.v. *)
From Coq Require Import ZArith List Bool Lia Sorted.
From SK Require Import Model.Base Spec.Lines Spec.C04 Proofs.Seek
     Proofs.SeekSpec Proofs.SinceSeekWalk Proofs.SinceSeekChain.
Import ListNotations.
Open Scope Z_scope.

(* --------------------------------------------- line_starts: membership *)
Lemma starts_after_lf_in : forall c i s,
  In s (starts_after_lf c i) <->
  i < s /\ nth (Z.to_nat (s - 1 - i)) c 0 = 10.
Proof.
  induction c as [|x r IH]; intros i s; cbn [starts_after_lf].
  - split; [intros []|]. intros [_ Hn]. destruct (Z.to_nat (s - 1 - i)); discriminate.
  - destruct (x =? 10) eqn:Ex.
    + cbn [In]. rewrite IH. split.
      * intros [<-|[Hlt Hn]].
        -- split; [lia|]. replace (i + 1 - 1 - i) with 0 by lia. cbn. lia.
        -- split; [lia|].
           replace (Z.to_nat (s - 1 - i)) with (S (Z.to_nat (s - 1 - (i + 1)))) by lia.
           exact Hn.
      * intros [Hlt Hn]. destruct (Z.eq_dec s (i + 1)) as [->|Hne]; [left; reflexivity|].
        right. split; [lia|].
        replace (Z.to_nat (s - 1 - i)) with (S (Z.to_nat (s - 1 - (i + 1)))) in Hn by lia.
        exact Hn.
    + rewrite IH. split.
      * intros [Hlt Hn]. split; [lia|].
        replace (Z.to_nat (s - 1 - i)) with (S (Z.to_nat (s - 1 - (i + 1)))) by lia.
        exact Hn.
      * intros [Hlt Hn]. destruct (Z.eq_dec s (i + 1)) as [->|Hne].
        -- replace (i + 1 - 1 - i) with 0 in Hn by lia. cbn in Hn. lia.
        -- split; [lia|].
           replace (Z.to_nat (s - 1 - i)) with (S (Z.to_nat (s - 1 - (i + 1)))) in Hn by lia.
           exact Hn.
Qed.

Lemma line_starts_in c s : In s (line_starts c) <-> real_line_start c s.
Proof.
  unfold line_starts, real_line_start, lf_at. cbv zeta. cbn [In].
  rewrite filter_In, starts_after_lf_in. split.
  - intros [<-|[[Hlt Hn] Hf]]; [left; reflexivity|]. right.
    replace (s - 1 - 0) with (s - 1) in Hn by lia. split; [split; [lia|exact Hn]|lia].
  - intros [->|[[H0 Hn] Hlt]]; [left; reflexivity|]. right.
    replace (s - 1 - 0) with (s - 1) by lia. split; [split; [lia|exact Hn]|lia].
Qed.

(* ------------------------------------------------ line_starts: sorted *)
Lemma starts_after_lf_sorted : forall c i,
  StronglySorted Z.lt (starts_after_lf c i) /\
  Forall (Z.lt i) (starts_after_lf c i).
Proof.
  induction c as [|x r IH]; intros i; cbn [starts_after_lf].
  - split; constructor.
  - destruct (IH (i + 1)) as [Hs Hf]. destruct (x =? 10).
    + split.
      * constructor; [exact Hs|exact Hf].
      * constructor; [lia|]. eapply Forall_impl; [|exact Hf]. intros a Ha. lia.
    + split; [exact Hs|]. eapply Forall_impl; [|exact Hf]. intros a Ha. lia.
Qed.

Lemma filter_sorted (p : Z -> bool) l :
  StronglySorted Z.lt l -> StronglySorted Z.lt (filter p l).
Proof.
  induction 1 as [|a l Hs IH Hf]; cbn; [constructor|].
  destruct (p a); [|exact IH]. constructor; [exact IH|].
  rewrite Forall_forall in *. intros x Hx. apply Hf.
  apply filter_In in Hx. apply Hx.
Qed.

Lemma line_starts_sorted c : StronglySorted Z.lt (line_starts c).
Proof.
  unfold line_starts. cbv zeta.
  destruct (starts_after_lf_sorted c 0) as [Hs Hf]. constructor.
  - apply filter_sorted. exact Hs.
  - rewrite Forall_forall in *. intros x Hx. apply Hf.
    apply filter_In in Hx. apply Hx.
Qed.

(* sorted lists: position follows value *)
Lemma sorted_app_split (l1 : list Z) s l2 :
  StronglySorted Z.lt (l1 ++ s :: l2) ->
  (forall x, In x l1 -> x < s) /\ (forall x, In x l2 -> s < x) /\
  StronglySorted Z.lt l1.
Proof.
  induction l1 as [|a l1 IH]; cbn; intros Hs.
  - inversion Hs as [|? ? Hs' Hf]; subst. rewrite Forall_forall in Hf.
    split; [intros x []|]. split; [exact Hf|constructor].
  - inversion Hs as [|? ? Hs' Hf]; subst. destruct (IH Hs') as (I1 & I2 & I3).
    rewrite Forall_forall in Hf. split.
    + intros x [<-|Hx]; [apply Hf; apply in_or_app; right; left; reflexivity|].
      apply I1. exact Hx.
    + split; [exact I2|]. constructor; [exact I3|].
      rewrite Forall_forall. intros x Hx. apply Hf. apply in_or_app. left.
      exact Hx.
Qed.

(* -------------------------------------------- find on a sorted list *)
Lemma find_sorted (p : Z -> bool) l s :
  StronglySorted Z.lt l -> find p l = Some s ->
  In s l /\ p s = true /\ forall x, In x l -> x < s -> p x = false.
Proof.
  induction 1 as [|a l Hs IH Hf]; cbn; [discriminate|].
  destruct (p a) eqn:Ea; intros E.
  - inversion E; subst a. split; [left; reflexivity|]. split; [exact Ea|].
    intros x [<-|Hx] Hlt; [lia|]. rewrite Forall_forall in Hf.
    specialize (Hf x Hx). lia.
  - destruct (IH E) as (I1 & I2 & I3). split; [right; exact I1|].
    split; [exact I2|]. intros x [<-|Hx] Hlt; [exact Ea|]. apply I3; assumption.
Qed.

(* the function first_in_window computes the declarative specification *)
Theorem first_in_window_unique ts since c p :
  is_first_in_window ts since c p -> p = first_in_window ts since c.
Proof.
  unfold first_in_window. pose proof (line_starts_sorted c) as Hsort.
  intros [(Hr & Hw & Hmin)|[(Ep & Hex & Hnone)|(Ep & Hnone)]];
    [|destruct Hex as (s0 & Hr0 & Hd0); subst p|subst p].
  - destruct (find (in_window ts since) (line_starts c)) as [s|] eqn:Ef.
    + destruct (find_sorted _ _ _ Hsort Ef) as (Hin & Hws & Hbefore).
      apply line_starts_in in Hin.
      destruct (Z.lt_trichotomy s p) as [Hlt|[->|Hgt]]; [|reflexivity|].
      * rewrite (Hmin s Hin Hlt) in Hws. discriminate.
      * rewrite (Hbefore p) in Hw; [discriminate| |exact Hgt].
        apply line_starts_in. exact Hr.
    + pose proof (find_none _ _ Ef p) as Hn. rewrite Hn in Hw; [discriminate|].
      apply line_starts_in. exact Hr.
  - destruct (find (in_window ts since) (line_starts c)) as [s|] eqn:Ef.
    + destruct (find_sorted _ _ _ Hsort Ef) as (Hin & Hws & _).
      apply line_starts_in in Hin. rewrite (Hnone s Hin) in Hws. discriminate.
    + replace (existsb (dated ts) (line_starts c)) with true; [reflexivity|].
      symmetry. apply existsb_exists. exists s0. split; [|exact Hd0].
      apply line_starts_in. exact Hr0.
  - destruct (find (in_window ts since) (line_starts c)) as [s|] eqn:Ef.
    + destruct (find_sorted _ _ _ Hsort Ef) as (Hin & Hws & _).
      apply line_starts_in in Hin. specialize (Hnone s Hin).
      unfold in_window in Hws. unfold dated in Hnone.
      destruct (ts s); discriminate.
    + replace (existsb (dated ts) (line_starts c)) with false; [reflexivity|].
      symmetry. apply not_true_is_false. intro Hex.
      apply existsb_exists in Hex. destruct Hex as (s & Hin & Hd).
      apply line_starts_in in Hin. rewrite (Hnone s Hin) in Hd. discriminate.
Qed.

(* ------------------------------------------------ (h2) list -> offsets *)
Definition date_le (ts : Z -> option Z) (a b : Z) : Prop :=
  forall da db, ts a = Some da -> ts b = Some db -> da <= db.

Lemma dates_sorted_spec ts : forall l lo,
  dates_sorted_from ts lo l = true ->
  (forall d0 x d, lo = Some d0 -> In x l -> ts x = Some d -> d0 <= d) /\
  ForallOrdPairs (date_le ts) l.
Proof.
  induction l as [|s r IH]; intros lo E; cbn [dates_sorted_from] in E.
  - split; [intros ? ? ? _ []|constructor].
  - destruct (ts s) as [d|] eqn:Ed.
    + assert (Er : dates_sorted_from ts (Some d) r = true /\
                   (forall d0, lo = Some d0 -> d0 <= d)).
      { destruct lo as [d0|].
        - apply andb_true_iff in E. destruct E as [E1 E2]. split; [exact E2|].
          intros d1 H1. inversion H1; subst. lia.
        - split; [exact E|]. intros d1 H1. discriminate. }
      destruct Er as [Er Hlo]. destruct (IH _ Er) as [I1 I2]. split.
      * intros d0 x dx Hd0 [<-|Hx] Hdx.
        -- rewrite Ed in Hdx. inversion Hdx as [Heq]. rewrite <- Heq.
           apply Hlo. exact Hd0.
        -- pose proof (I1 d x dx eq_refl Hx Hdx). pose proof (Hlo d0 Hd0). lia.
      * constructor; [|exact I2]. rewrite Forall_forall. intros x Hx da db Ha Hb.
        rewrite Ed in Ha. inversion Ha; subst. apply (I1 da x db eq_refl Hx Hb).
    + destruct (IH _ E) as [I1 I2]. split.
      * intros d0 x dx Hd0 [<-|Hx] Hdx; [rewrite Ed in Hdx; discriminate|].
        apply (I1 d0 x dx Hd0 Hx Hdx).
      * constructor; [|exact I2]. rewrite Forall_forall. intros x Hx da db Ha.
        rewrite Ed in Ha. discriminate.
Qed.

Lemma ordpairs_sorted (R : Z -> Z -> Prop) l :
  StronglySorted Z.lt l -> ForallOrdPairs R l ->
  forall a b, In a l -> In b l -> a < b -> R a b.
Proof.
  induction 1 as [|h t Hs IH Hf]; intros Hp a b Ha Hb Hlt; [destruct Ha|].
  inversion Hp as [|? ? Hh Ht]; subst. rewrite Forall_forall in Hf, Hh.
  destruct Ha as [<-|Ha]; destruct Hb as [<-|Hb].
  - lia.
  - apply Hh. exact Hb.
  - specialize (Hf a Ha). lia.
  - apply IH; assumption.
Qed.

Theorem time_ordered_offsets ts c :
  time_ordered ts c -> time_ordered_lines ts c.
Proof.
  intros Ht s1 s2 d1 d2 Hr1 Hr2 Hle E1 E2. unfold time_ordered in Ht.
  destruct (dates_sorted_spec ts _ _ Ht) as [_ Hp].
  destruct (Z.eq_dec s1 s2) as [->|Hne].
  - rewrite E1 in E2. inversion E2. lia.
  - apply (ordpairs_sorted _ _ (line_starts_sorted c) Hp s1 s2);
      try (apply line_starts_in; assumption); try assumption. lia.
Qed.

(* ------------------------------------------------ (h3) list -> offsets *)
Lemma mur_ge ts : forall l cur best,
  cur <= max_undated_run_from ts cur best l /\
  best <= max_undated_run_from ts cur best l.
Proof.
  induction l as [|s r IH]; intros cur best; cbn [max_undated_run_from]; [lia|].
  destruct (dated ts s).
  - destruct (IH 0 (Z.max cur best)). lia.
  - destruct (IH (cur + 1) best). lia.
Qed.

(* k undated elements in a row push the result to at least cur + k *)
Lemma mur_run ts : forall U R cur best,
  (forall x, In x U -> dated ts x = false) ->
  cur + lenZ U <= max_undated_run_from ts cur best (U ++ R).
Proof.
  induction U as [|u U IH]; intros R cur best Hu; cbn [app].
  - unfold lenZ; cbn. pose proof (mur_ge ts R cur best). lia.
  - cbn [max_undated_run_from]. rewrite (Hu u (or_introl eq_refl)).
    specialize (IH R (cur + 1) best ltac:(intros x Hx; apply Hu; right; exact Hx)).
    unfold lenZ in *. cbn [length]. lia.
Qed.

(* ... wherever the run is *)
Lemma mur_anywhere ts : forall P U R cur best,
  0 <= cur -> (forall x, In x U -> dated ts x = false) ->
  lenZ U <= max_undated_run_from ts cur best (P ++ U ++ R).
Proof.
  induction P as [|a P IH]; intros U R cur best Hc Hu; cbn [app].
  - pose proof (mur_run ts U R cur best Hu). lia.
  - cbn [max_undated_run_from]. destruct (dated ts a); apply IH; try assumption; lia.
Qed.

Section Walk.
  Variables (ts : Z -> option Z) (c : list Z).

  (* the walk over previous line starts follows the list backwards *)
  Lemma run_back_list : forall k P s Q,
    line_starts c = P ++ s :: Q ->
    undated_run_back ts c k s = true ->
    exists P0 U, P ++ [s] = P0 ++ U /\ length U = k /\
                 forall x, In x U -> dated ts x = false.
  Proof.
    induction k as [|k IH]; intros P s Q Es Hrun.
    - exists (P ++ [s]), []. split; [rewrite app_nil_r; reflexivity|].
      split; [reflexivity|intros x []].
    - cbn [undated_run_back] in Hrun. apply andb_true_iff in Hrun.
      destruct Hrun as [Hd Hrest]. apply negb_true_iff in Hd.
      destruct k as [|k'].
      + exists P, [s]. split; [reflexivity|]. split; [reflexivity|].
        intros x [<-|[]]. exact Hd.
      + apply andb_true_iff in Hrest. destruct Hrest as [Hs0 Hrest].
        apply negb_true_iff in Hs0.
        pose proof (line_starts_sorted c) as Hsort. rewrite Es in Hsort.
        destruct (sorted_app_split _ _ _ Hsort) as (Hbefore & Hafter & HsP).
        assert (Hrs : real_line_start c s).
        { apply line_starts_in. rewrite Es. apply in_or_app. right. left.
          reflexivity. }
        destruct (prev_start_real c s Hrs) as (Hrp & Hplt & Hbetween).
        { pose proof (real_bounds c s Hrs). lia. }
        (* prev_start s is in P, and it is its last element *)
        assert (HinP : In (prev_start c s) P).
        { apply line_starts_in in Hrp. rewrite Es in Hrp.
          apply in_app_or in Hrp. destruct Hrp as [Hp|[Hp|Hp]]; [exact Hp|lia|].
          specialize (Hafter _ Hp). lia. }
        destruct (exists_last (l := P)) as (P' & t & EP).
        { intro EP. rewrite EP in HinP. destruct HinP. }
        assert (Et : t = prev_start c s).
        { assert (Hrt : real_line_start c t).
          { apply line_starts_in. rewrite Es, EP. apply in_or_app. left.
            apply in_or_app. right. left. reflexivity. }
          assert (Htlt : t < s).
          { apply Hbefore. rewrite EP. apply in_or_app. right. left. reflexivity. }
          rewrite EP in HsP, HinP.
          destruct (sorted_app_split _ _ _ HsP) as (HbP & _ & _).
          apply in_app_or in HinP. destruct HinP as [Hp|[Hp|[]]].
          - specialize (HbP _ Hp). exfalso.
            apply (Hbetween t Hrt); lia.
          - exact Hp. }
        subst t.
        destruct (IH P' (prev_start c s) (s :: Q)) as (P0 & U & EU & HlU & HU).
        { rewrite Es, EP. rewrite <- app_assoc. reflexivity. }
        { exact Hrest. }
        exists P0, (U ++ [s]). split.
        * rewrite EP, EU. rewrite <- !app_assoc. reflexivity.
        * split; [rewrite app_length, HlU; cbn; lia|].
          intros x Hx. apply in_app_or in Hx. destruct Hx as [Hx|[<-|[]]];
            [apply HU; exact Hx|exact Hd].
  Qed.

  Theorem undated_runs_offsets L :
    0 < L -> undated_runs_below L ts c -> no_long_undated_run L ts c.
  Proof.
    intros HL Hmax s Hr.
    destruct (undated_run_back ts c (Z.to_nat L) s) eqn:Erun; [|reflexivity].
    exfalso. apply line_starts_in in Hr. apply in_split in Hr.
    destruct Hr as (P & Q & Es).
    destruct (run_back_list _ _ _ _ Es Erun) as (P0 & U & EU & HlU & HU).
    unfold undated_runs_below, max_undated_run in Hmax.
    assert (El : line_starts c = P0 ++ U ++ Q).
    { rewrite Es. replace (P ++ s :: Q) with ((P ++ [s]) ++ Q)
        by (rewrite <- app_assoc; reflexivity).
      rewrite EU, <- app_assoc. reflexivity. }
    rewrite El in Hmax.
    pose proof (mur_anywhere ts P0 U Q 0 0 ltac:(lia) HU) as Hge.
    unfold lenZ in Hge. rewrite HlU in Hge. lia.
  Qed.
End Walk.
