From Coq Require Import ZArith List Bool Lia.
From SK Require Import Model.Lines.
Import ListNotations.
Open Scope Z_scope.

Lemma split_aux_concat cur c :
  rev cur ++ c = concat (split_lines_aux cur c).
Proof.
  revert cur. induction c as [|b r IH]; intros cur; cbn [split_lines_aux].
  - destruct cur; cbn; rewrite ?app_nil_r; reflexivity.
  - destruct (b =? LF) eqn:E.
    + cbn [concat]. rewrite <- IH. cbn. rewrite <- app_assoc. reflexivity.
    + rewrite <- IH. cbn. rewrite <- app_assoc. reflexivity.
Qed.

Lemma split_lines_concat c : concat (split_lines c) = c.
Proof. unfold split_lines. rewrite <- split_aux_concat. reflexivity. Qed.

Lemma split_aux_app_lf cur a b :
  split_lines_aux cur (a ++ LF :: b) =
  split_lines_aux cur (a ++ [LF]) ++ split_lines b.
Proof.
  revert cur. induction a as [|x a IH]; intros cur.
  - cbn. reflexivity.
  - cbn [app split_lines_aux]. destruct (x =? LF) eqn:E.
    + rewrite IH. reflexivity.
    + apply IH.
Qed.

(* iteration from the byte after a line feed yields a suffix of the lines *)
Lemma split_lines_app_lf a b :
  split_lines (a ++ LF :: b) = split_lines (a ++ [LF]) ++ split_lines b.
Proof. apply split_aux_app_lf. Qed.

Lemma split_aux_no_lf cur c :
  has_no_lf c -> (cur <> [] \/ c <> []) ->
  split_lines_aux cur c = [rev cur ++ c].
Proof.
  revert cur. induction c as [|b r IH]; intros cur Hn Hne.
  - cbn. destruct cur; [destruct Hne; congruence|]. rewrite app_nil_r.
    reflexivity.
  - inversion Hn as [|? ? Hb Hr]; subst. cbn [split_lines_aux].
    destruct (b =? LF) eqn:E; [apply Z.eqb_eq in E; congruence|].
    rewrite IH; [|assumption|left; discriminate].
    cbn. rewrite <- app_assoc. reflexivity.
Qed.

Lemma split_aux_wf cur c :
  has_no_lf cur -> Forall line_wf (split_lines_aux cur c).
Proof.
  revert cur. induction c as [|b r IH]; intros cur Hc; cbn [split_lines_aux].
  - destruct cur as [|x cur']; [constructor|]. constructor; [|constructor].
    split.
    + intro H. apply (f_equal (@length Z)) in H. rewrite rev_length in H.
      discriminate.
    + unfold has_no_lf in *. apply Forall_forall. intros y Hy.
      rewrite Forall_forall in Hc. apply Hc. apply in_rev.
      revert Hy. generalize (rev (x :: cur')). intros l Hy.
      clear -Hy. induction l as [|a l IHl]; [inversion Hy|].
      destruct l; [inversion Hy|]. cbn in Hy. destruct Hy as [->|Hy].
      * left; reflexivity.
      * right. apply IHl. exact Hy.
  - destruct (b =? LF) eqn:E.
    + constructor; [|apply IH; constructor]. split.
      * cbn. intro H. apply (f_equal (@length Z)) in H.
        rewrite app_length in H. cbn in H. lia.
      * cbn [rev]. rewrite removelast_last. unfold has_no_lf in *.
        apply Forall_forall. intros y Hy. rewrite Forall_forall in Hc.
        apply Hc. apply in_rev. exact Hy.
    + apply IH. constructor; [|exact Hc]. intro H. subst.
      rewrite Z.eqb_refl in E. discriminate.
Qed.

Lemma split_lines_wf c : Forall line_wf (split_lines c).
Proof. apply split_aux_wf. constructor. Qed.

Lemma split_lines_nil : split_lines [] = [].
Proof. reflexivity. Qed.

(* number of lines = number of LFs, plus one if the content does not end in
   an LF and is non-empty *)
Lemma split_aux_length cur c :
  length (split_lines_aux cur c) =
  (length (filter (Z.eqb LF) c) +
   match c, cur with
   | [], [] => 0
   | [], _ => 1
   | _, _ => if (last c 0%Z =? LF)%Z then 0 else 1
   end)%nat.
Proof.
  revert cur. induction c as [|b r IH]; intros cur.
  - cbn. destruct cur; reflexivity.
  - cbn [split_lines_aux filter]. rewrite (Z.eqb_sym LF b).
    destruct (b =? LF) eqn:E.
    + cbn [length]. rewrite IH. destruct r as [|b' r'].
      * cbn. apply Z.eqb_eq in E. subst. cbn. lia.
      * cbn [last]. destruct r'; cbn [last]; lia.
    + rewrite IH. destruct r as [|b' r'].
      * cbn. rewrite E. lia.
      * cbn [last]. lia.
Qed.
