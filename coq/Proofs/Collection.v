(* C14 - lemmas: every view of a collection is a filter of one population *)
From Coq Require Import ZArith List Bool Lia Permutation.
From SK Require Import Model.Collection Spec.Collection Proofs.CollectionDict.
Import ListNotations.
Open Scope Z_scope.

(* ------------------------------------------------------- list utilities *)
Lemma flat_map_map_comp {A B C} (f : B -> list C) (g : A -> B) l :
  flat_map f (map g l) = flat_map (fun x => f (g x)) l.
Proof. induction l as [|a l IH]; simpl; [reflexivity|now rewrite IH]. Qed.

Lemma filter_flat_map {A B} (P : B -> bool) (f : A -> list B) l :
  filter P (flat_map f l) = flat_map (fun x => filter P (f x)) l.
Proof.
  induction l as [|a l IH]; simpl; [reflexivity|].
  now rewrite filter_app, IH.
Qed.

Lemma filter_none {A} (f : A -> bool) l :
  (forall x, In x l -> f x = false) -> filter f l = [].
Proof.
  induction l as [|a l IH]; simpl; intro H; [reflexivity|].
  rewrite (H a) by now left. apply IH. intros x Hx. apply H. now right.
Qed.

Lemma filter_nonempty {A} (f : A -> bool) l :
  filter f l <> [] -> exists x, In x l /\ f x = true.
Proof.
  induction l as [|a l IH]; simpl; intro H; [congruence|].
  destruct (f a) eqn:E.
  - exists a. split; [now left|assumption].
  - destruct (IH H) as [x [Hx Hf]]. exists x. split; [now right|assumption].
Qed.

Lemma filter_filter_implies {A} (f g : A -> bool) l :
  (forall x, f x = true -> g x = true) ->
  filter f (filter g l) = filter f l.
Proof.
  intro H. induction l as [|a l IH]; simpl; [reflexivity|].
  destruct (g a) eqn:Eg; simpl.
  - now rewrite IH.
  - destruct (f a) eqn:Ef; [|assumption].
    apply H in Ef. congruence.
Qed.

Lemma filter_split {A} (h f g : A -> bool) l :
  (forall x, In x l -> h x = f x || g x) ->
  (forall x, In x l -> f x && g x = false) ->
  Permutation (filter h l) (filter f l ++ filter g l).
Proof.
  induction l as [|a l IH]; simpl; intros Hh Hx; [reflexivity|].
  assert (IH' : Permutation (filter h l) (filter f l ++ filter g l)).
  { apply IH; intros x Hin; [apply Hh|apply Hx]; now right. }
  specialize (Hh a (or_introl eq_refl)). specialize (Hx a (or_introl eq_refl)).
  destruct (f a) eqn:Ef, (g a) eqn:Eg; simpl in *; rewrite Hh;
    try discriminate.
  - now constructor.
  - apply Permutation_cons_app. assumption.
  - assumption.
Qed.

Lemma NoDup_app_intro {A} (l1 l2 : list A) :
  NoDup l1 -> NoDup l2 -> (forall x, In x l1 -> ~ In x l2) ->
  NoDup (l1 ++ l2).
Proof.
  induction l1 as [|a l1 IH]; simpl; intros H1 H2 Hd; [assumption|].
  inversion H1 as [|? ? Ha Hl]; subst. constructor.
  - rewrite in_app_iff. intros [H|H]; [contradiction|].
    apply (Hd a); [now left|assumption].
  - apply IH; try assumption. intros x Hx. apply Hd. now right.
Qed.

Lemma NoDup_map_filter {A B} (u : A -> B) (f : A -> bool) l :
  NoDup (map u l) -> NoDup (map u (filter f l)).
Proof.
  induction l as [|a l IH]; simpl; intro H; [constructor|].
  inversion H as [|? ? Ha Hl]; subst.
  destruct (f a); simpl; [|now apply IH].
  constructor; [|now apply IH].
  intro Hin. apply Ha. apply in_map_iff in Hin.
  destruct Hin as [x [Hx Hi]]. apply filter_In in Hi.
  apply in_map_iff. exists x. tauto.
Qed.

Lemma NoDup_map_inj {A B} (u : A -> B) l x y :
  NoDup (map u l) -> In x l -> In y l -> u x = u y -> x = y.
Proof.
  induction l as [|a l IH]; simpl; intros Hnd Hx Hy E; [contradiction|].
  inversion Hnd as [|? ? Ha Hl]; subst.
  destruct Hx as [Hx|Hx], Hy as [Hy|Hy]; subst.
  - reflexivity.
  - exfalso. apply Ha. rewrite E. now apply in_map.
  - exfalso. apply Ha. rewrite <- E. now apply in_map.
  - now apply IH.
Qed.

Lemma NoDup_map_fst_filter {A B} (f : A * B -> bool) (l : list (A * B)) :
  NoDup (map fst l) -> NoDup (map fst (filter f l)).
Proof.
  induction l as [|a l IH]; simpl; intro H; [constructor|].
  inversion H as [|? ? Ha Hl]; subst.
  destruct (f a); simpl; [|now apply IH].
  constructor; [|now apply IH].
  intro Hin. apply Ha. apply in_map_iff in Hin.
  destruct Hin as [x [Hx Hi]]. apply filter_In in Hi.
  apply in_map_iff. exists x. tauto.
Qed.

Lemma fold_sum {A} (g : A -> Z) l a :
  fold_left (fun n f => n + g f) l a = a + sumZ (map g l).
Proof.
  revert a. induction l as [|x l IH]; simpl; intro a; [lia|].
  rewrite IH. lia.
Qed.

(* ------------------------------------------------- well-formed collections *)
Definition wf (c : coll) : Prop := NoDup (files c).

Lemma add_wf cat c b : wf c -> wf (add cat c b).
Proof.
  unfold add, wf, files. revert c.
  induction b as [|r b IH]; simpl; intros c H; [assumption|].
  apply IH. now apply (dappend_nodup Z.eqb zeqb_spec).
Qed.

Lemma reachable_wf cat c : reachable cat c -> wf c.
Proof.
  induction 1 as [|c b _ IH]; [constructor|now apply add_wf].
Qed.

Lemma build_reachable_from cat bs c :
  reachable cat c -> reachable cat (fold_left (add cat) bs c).
Proof.
  revert c. induction bs as [|b bs IH]; simpl; intros c H; [assumption|].
  apply IH. now constructor.
Qed.

Lemma build_reachable cat bs : reachable cat (build cat bs).
Proof. apply build_reachable_from. constructor. Qed.

(* ------------------------------------------------------------- add *)
Definition lands_on cat p (r : result) : bool := resolve cat (src r) =? p.

Lemma find_by_path_add cat c b p :
  find_by_path (add cat c b) p = find_by_path c p ++ filter (lands_on cat p) b.
Proof.
  unfold add. revert c.
  induction b as [|r b IH]; simpl; intro c; [now rewrite app_nil_r|].
  rewrite IH. unfold find_by_path, lands_on.
  destruct (Z.eqb_spec (resolve cat (src r)) p) as [E|E].
  - subst. rewrite (dget_dappend_same Z.eqb zeqb_spec).
    destruct (dget Z.eqb c (resolve cat (src r))); simpl;
      [now rewrite <- app_assoc|reflexivity].
  - rewrite (dget_dappend_other Z.eqb zeqb_spec) by congruence.
    reflexivity.
Qed.

Lemma all_add_perm cat c b : Permutation (all (add cat c b)) (all c ++ b).
Proof.
  unfold add, all. revert c.
  induction b as [|r b IH]; simpl; intro c; [now rewrite app_nil_r|].
  rewrite IH.
  rewrite (dappend_values_perm Z.eqb c (resolve cat (src r)) r).
  now rewrite <- app_assoc.
Qed.

Lemma on_path_arrivals cat l p :
  map snd (filter (fun e => fst e =? p)
                  (map (fun r => (resolve cat (src r), r)) l))
  = filter (lands_on cat p) l.
Proof.
  induction l as [|r l IH]; simpl; [reflexivity|].
  unfold lands_on at 1. destruct (resolve cat (src r) =? p); simpl;
    now rewrite IH.
Qed.

Lemma find_by_path_build_from cat bs c p :
  find_by_path (fold_left (add cat) bs c) p =
  find_by_path c p ++ filter (lands_on cat p) (concat bs).
Proof.
  revert c. induction bs as [|b bs IH]; simpl; intro c;
    [now rewrite app_nil_r|].
  rewrite IH, find_by_path_add, filter_app. now rewrite app_assoc.
Qed.

Lemma find_by_path_build cat bs p :
  find_by_path (build cat bs) p = on_path (arrivals cat bs) p.
Proof.
  unfold build, on_path, arrivals.
  rewrite find_by_path_build_from, on_path_arrivals. reflexivity.
Qed.

Lemma all_build_from_perm cat bs c :
  Permutation (all (fold_left (add cat) bs c)) (all c ++ concat bs).
Proof.
  revert c. induction bs as [|b bs IH]; simpl; intro c;
    [now rewrite app_nil_r|].
  rewrite IH, all_add_perm. now rewrite <- app_assoc.
Qed.

Lemma all_build_perm cat bs :
  Permutation (all (build cat bs)) (map snd (arrivals cat bs)).
Proof.
  unfold build, arrivals. rewrite all_build_from_perm. simpl.
  rewrite map_map. simpl. now rewrite map_id.
Qed.

(* --------------------------------------------------------- plain views *)
Lemma find_by_path_cons_other k v t f :
  k <> f -> find_by_path ((k, v) :: t) f = find_by_path t f.
Proof.
  intro H. unfold find_by_path. simpl.
  destruct (Z.eqb_spec k f); [contradiction|reflexivity].
Qed.

Lemma map_find_files c :
  wf c -> map (find_by_path c) (files c) = map snd c.
Proof.
  unfold wf, files. induction c as [|[k v] t IH]; simpl; intro H;
    [reflexivity|].
  inversion H as [|? ? Hk Ht]; subst. f_equal.
  - unfold find_by_path. simpl. now rewrite Z.eqb_refl.
  - rewrite <- (IH Ht). apply map_ext_in. intros f Hf.
    apply find_by_path_cons_other. intro; subst. contradiction.
Qed.

Lemma len_sum c :
  len c = sumZ (map (fun p => Z.of_nat (length (find_by_path c p))) (files c)).
Proof. unfold len. rewrite fold_sum. lia. Qed.

Lemma sum_lengths (ls : list (list result)) :
  sumZ (map (fun l => Z.of_nat (length l)) ls) =
  Z.of_nat (length (concat ls)).
Proof.
  induction ls as [|l ls IH]; simpl; [reflexivity|].
  rewrite app_length, IH. lia.
Qed.

Lemma len_all c : wf c -> len c = Z.of_nat (length (all c)).
Proof.
  intro H. rewrite len_sum.
  rewrite <- (map_map (find_by_path c) (fun l => Z.of_nat (length l))).
  rewrite (map_find_files c H), sum_lengths.
  unfold all. now rewrite flat_map_concat_map.
Qed.

Lemma data_from (c acc : coll) :
  NoDup (map fst (acc ++ c)) ->
  fold_left (fun d e => dset Z.eqb d (fst e) (snd e)) c acc = acc ++ c.
Proof.
  revert acc. induction c as [|[k v] t IH]; simpl; intros acc H;
    [now rewrite app_nil_r|].
  assert (Hk : ~ In k (map fst acc)).
  { rewrite map_app in H. simpl in H. apply NoDup_remove_2 in H.
    intro Hin. apply H. apply in_or_app. now left. }
  rewrite (dset_notin Z.eqb zeqb_spec) by assumption.
  rewrite IH; rewrite <- app_assoc; simpl; [reflexivity|assumption].
Qed.

Lemma data_id c : wf c -> data c = c.
Proof. intro H. unfold data. now rewrite data_from. Qed.

Lemma items_id c : wf c -> items c = c.
Proof.
  intro H. unfold items, keys, getitem. rewrite (data_id c H).
  pose proof H as Hnd. unfold wf, files in Hnd.
  assert (G : forall l, incl l c ->
              map (fun k => (k, match dget Z.eqb c k with
                                | Some l0 => l0 | None => [] end))
                  (map fst l) = l).
  { induction l as [|[k v] t IH]; simpl; intro Hi; [reflexivity|].
    rewrite (in_dget Z.eqb zeqb_spec c k v Hnd) by (apply Hi; now left).
    f_equal. apply IH. intros x Hx. apply Hi. now right. }
  apply G. apply incl_refl.
Qed.

Lemma all_eq_items c : wf c -> all c = concat (map snd (items c)).
Proof.
  intro H. rewrite (items_id c H). unfold all. apply flat_map_concat_map.
Qed.

Lemma keys_files c : wf c -> keys c = files c.
Proof. intro H. unfold keys. now rewrite (data_id c H). Qed.

(* every filtered lookup is a filter of [base] *)
Lemma select_eq (P : result -> bool) c p :
  wf c ->
  flat_map (fun q => filter P (find_by_path c q)) (paths_of c p)
  = filter P (base c p).
Proof.
  intro H. unfold paths_of, base. destruct (truthy p); simpl.
  - now rewrite app_nil_r.
  - rewrite <- (flat_map_map_comp (filter P) (find_by_path c)).
    rewrite (map_find_files c H). unfold all.
    now rewrite filter_flat_map, flat_map_map_comp.
Qed.

Lemma find_by_tag_exact c t p :
  wf c -> find_by_tag c t p = filter (tag_is t) (base c p).
Proof. apply select_eq. Qed.

Lemma all_sequence_results_exact c p :
  wf c -> all_sequence_results c p = filter is_seq (base c p).
Proof. apply select_eq. Qed.

(* ------------------------------------------------------- unknown path *)
Lemma find_unknown c p : ~ In p (files c) -> find_by_path c p = [].
Proof.
  intro H. unfold find_by_path.
  apply (dget_none Z.eqb zeqb_spec) in H. now rewrite H.
Qed.

Lemma unknown_path_views cat c p t d tg :
  ~ In p (files c) -> truthy p = true ->
  find_by_path c p = [] /\ find_by_tag c t p = [] /\
  all_sequence_results c p = [] /\ find_sequence_sections c d p = [] /\
  (forall ds, merge_sections c p ds = []) /\
  (find_sequence_by_tag cat c tg p = KeyError \/
   find_sequence_by_tag cat c tg p = Ok []).
Proof.
  intros Hu Ht. pose proof (find_unknown c p Hu) as E.
  assert (Es : all_sequence_results c p = []).
  { unfold all_sequence_results, paths_of. rewrite Ht. simpl. now rewrite E. }
  assert (Em : forall ds, merge_sections c p ds = []).
  { intro ds. unfold merge_sections, find_sequence_sections. rewrite Es.
    simpl. induction ds as [|x ds IH]; simpl; [reflexivity|assumption]. }
  repeat split; try assumption.
  - unfold find_by_tag, paths_of. rewrite Ht. simpl. now rewrite E.
  - unfold find_sequence_sections. now rewrite Es.
  - unfold find_sequence_by_tag. destruct (dget Z.eqb (tagtab cat) tg);
      [right; now rewrite Em|now left].
Qed.

(* ---------------------------------------------------- path restriction *)
Lemma restrict_unknown c p : ~ In p (files c) -> restrict c p = [].
Proof.
  unfold restrict, files. induction c as [|[k v] t IH]; simpl; intro H;
    [reflexivity|].
  destruct (Z.eqb_spec k p) as [E|E]; [exfalso; apply H; now left|].
  apply IH. intro Hin. apply H. now right.
Qed.

Lemma all_restrict c p : wf c -> all (restrict c p) = find_by_path c p.
Proof.
  unfold wf, files. induction c as [|[k v] t IH]; simpl; intro H;
    [reflexivity|].
  inversion H as [|? ? Hk Ht]; subst.
  unfold find_by_path. simpl. destruct (Z.eqb_spec k p) as [E|E].
  - subst. unfold all. simpl. fold (restrict t p).
    rewrite (restrict_unknown t p Hk). simpl. apply app_nil_r.
  - fold (restrict t p). fold (find_by_path t p). apply IH. assumption.
Qed.

Lemma restrict_wf c p : wf c -> wf (restrict c p).
Proof. apply NoDup_map_fst_filter. Qed.

Lemma base_restrict c p :
  wf c -> truthy p = true -> base (restrict c p) 0 = base c p.
Proof.
  intros H Ht. unfold base. rewrite Ht. simpl. now apply all_restrict.
Qed.

Lemma path_filter_commutes_lemma c p t d ds :
  wf c -> truthy p = true ->
  find_by_tag c t p = find_by_tag (restrict c p) t 0 /\
  all_sequence_results c p = all_sequence_results (restrict c p) 0 /\
  find_sequence_sections c d p = find_sequence_sections (restrict c p) d 0 /\
  merge_sections c p ds = merge_sections (restrict c p) 0 ds.
Proof.
  intros H Ht. pose proof (restrict_wf c p H) as Hr.
  assert (Es : all_sequence_results c p = all_sequence_results (restrict c p) 0).
  { rewrite !all_sequence_results_exact by assumption.
    now rewrite base_restrict. }
  repeat split.
  - rewrite !find_by_tag_exact by assumption. now rewrite base_restrict.
  - assumption.
  - unfold find_sequence_sections. now rewrite Es.
  - unfold merge_sections, find_sequence_sections. now rewrite Es.
Qed.

(* ------------------------------------------------------------ sections *)
Lemma sec_is_section d k r : sec_is d k r = true -> section r = k.
Proof.
  unfold sec_is. intro H. apply andb_true_iff in H. destruct H as [_ H].
  now apply oz_eqb_spec.
Qed.

Lemma sec_is_seq d k r : sec_is d k r = true -> seq r = Some d.
Proof.
  unfold sec_is, seq_is. intro H. apply andb_true_iff in H.
  destruct H as [H _]. now apply oz_eqb_spec.
Qed.

Lemma sec_is_intro d r : seq_is d r = true -> sec_is d (section r) r = true.
Proof.
  intro H. unfold sec_is. rewrite H. simpl. now apply oz_eqb_spec.
Qed.

Lemma seq_is_is_seq d r : seq_is d r = true -> is_seq r = true.
Proof.
  unfold seq_is, is_seq. intro H. apply oz_eqb_spec in H. now rewrite H.
Qed.

Lemma group_spec d rs :
  let g := group_sections d rs in
  NoDup (map fst g) /\
  (forall k v, In (k, v) g -> v <> [] /\ v = filter (sec_is d k) rs) /\
  (forall r, In r rs -> seq_is d r = true -> In (section r) (map fst g)).
Proof.
  unfold group_sections.
  induction rs as [|r rs IH] using rev_ind; simpl.
  - repeat split; try constructor; intros; contradiction.
  - rewrite fold_left_app. simpl.
    set (g := fold_left _ rs []) in *.
    destruct IH as [Hnd [Hval Hkey]].
    destruct (seq_is d r) eqn:Er.
    + split; [now apply (dappend_nodup oz_eqb oz_eqb_spec)|]. split.
      * intros k v Hin.
        destruct (dappend_in oz_eqb oz_eqb_spec g (section r) r k v Hnd Hin)
          as [[Hn Hg]|[Hk Hv]].
        -- destruct (Hval k v Hg) as [Hne Hv]. split; [assumption|].
           rewrite filter_app. simpl.
           assert (E : sec_is d k r = false).
           { destruct (sec_is d k r) eqn:E; [|reflexivity].
             apply sec_is_section in E. congruence. }
           rewrite E, app_nil_r. assumption.
        -- subst k. rewrite filter_app. simpl.
           rewrite (sec_is_intro d r Er).
           destruct (dget oz_eqb g (section r)) as [l|] eqn:Eg.
           ++ apply (dget_some_in oz_eqb oz_eqb_spec) in Eg.
              destruct (Hval _ _ Eg) as [_ El]. subst v.
              split; [intro Hc; apply app_eq_nil in Hc;
                      destruct Hc; discriminate|].
              now rewrite <- El.
           ++ apply (dget_none oz_eqb oz_eqb_spec) in Eg. subst v.
              split; [discriminate|].
              rewrite filter_none; [reflexivity|].
              intros x Hx. destruct (sec_is d (section r) x) eqn:Ex;
                [|reflexivity].
              exfalso. apply Eg.
              rewrite <- (sec_is_section _ _ _ Ex). apply Hkey; [assumption|].
              unfold seq_is. apply oz_eqb_spec.
              now apply (sec_is_seq d (section r)).
      * intros x Hx Hs. apply (dappend_key_iff oz_eqb oz_eqb_spec).
        apply in_app_or in Hx. destruct Hx as [Hx|[Hx|[]]].
        -- right. now apply Hkey.
        -- left. now subst.
    + split; [assumption|]. split.
      * intros k v Hin. destruct (Hval k v Hin) as [Hne Hv].
        split; [assumption|]. rewrite filter_app. simpl.
        assert (E : sec_is d k r = false)
          by (unfold sec_is; now rewrite Er).
        now rewrite E, app_nil_r.
      * intros x Hx Hs. apply in_app_or in Hx. destruct Hx as [Hx|[Hx|[]]].
        -- now apply Hkey.
        -- subst. congruence.
Qed.

Definition merge_over (rs : list result) (ds : list Z) : sections :=
  fold_left (fun acc d => dupdate oz_eqb acc (group_sections d rs)) ds [].

Lemma merge_sections_over c p ds :
  merge_sections c p ds = merge_over (all_sequence_results c p) ds.
Proof. reflexivity. Qed.

Lemma merge_spec rs ds :
  let m := merge_over rs ds in
  NoDup (map fst m) /\
  (forall k v, In (k, v) m ->
     v <> [] /\ exists d, In d ds /\ v = filter (sec_is d k) rs) /\
  (forall d k, In d ds -> filter (sec_is d k) rs <> [] -> In k (map fst m)).
Proof.
  unfold merge_over.
  induction ds as [|d ds IH] using rev_ind; simpl.
  - repeat split; try constructor; intros; contradiction.
  - rewrite fold_left_app. simpl. set (m := fold_left _ ds []) in *.
    destruct IH as [Hnd [Hval Hkey]].
    destruct (group_spec d rs) as [Gnd [Gval Gkey]].
    split; [now apply (dupdate_nodup oz_eqb oz_eqb_spec)|]. split.
    + intros k v Hin.
      destruct (dupdate_in oz_eqb oz_eqb_spec m _ k v Hnd Hin) as [H|H].
      * destruct (Gval k v H) as [Hne Hv]. split; [assumption|].
        exists d. split; [apply in_or_app; right; now left|assumption].
      * destruct (Hval k v H) as [Hne [d0 [Hd Hv]]]. split; [assumption|].
        exists d0. split; [apply in_or_app; now left|assumption].
    + intros d0 k Hd Hne. apply (dupdate_keys oz_eqb oz_eqb_spec).
      apply in_app_or in Hd. destruct Hd as [Hd|[Hd|[]]].
      * left. now apply (Hkey d0 k).
      * subst d0. right. destruct (filter_nonempty _ _ Hne) as [r [Hr Hs]].
        rewrite <- (sec_is_section _ _ _ Hs). apply Gkey; [assumption|].
        unfold seq_is. apply oz_eqb_spec. now apply (sec_is_seq d k).
Qed.

Lemma sec_is_filter_seq d k b :
  filter (sec_is d k) (filter is_seq b) = filter (sec_is d k) b.
Proof.
  apply filter_filter_implies. intros x H.
  unfold sec_is in H. apply andb_true_iff in H. destruct H as [H _].
  now apply (seq_is_is_seq d).
Qed.

Lemma in_defs_intro ds d r :
  In d ds -> seq r = Some d -> in_defs ds r = true.
Proof.
  intros Hd Hs. unfold in_defs. rewrite Hs. apply existsb_exists.
  exists d. split; [assumption|apply Z.eqb_refl].
Qed.

Lemma in_defs_elim ds r :
  in_defs ds r = true -> exists d, In d ds /\ seq r = Some d.
Proof.
  unfold in_defs. destruct (seq r) as [d|]; [|discriminate].
  intro H. apply existsb_exists in H. destruct H as [x [Hx E]].
  apply Z.eqb_eq in E. subst. now exists x.
Qed.

Lemma perm_partition (Q : result -> bool) (b : list result)
      (ks : list (option Z)) :
  NoDup ks ->
  Permutation
    (flat_map (fun k => filter (fun r => Q r && oz_eqb (section r) k) b) ks)
    (filter (fun r => Q r && existsb (oz_eqb (section r)) ks) b).
Proof.
  induction ks as [|k ks IH]; simpl; intro H.
  - rewrite filter_none; [reflexivity|]. intros x _. apply andb_false_r.
  - inversion H as [|? ? Hk Hks]; subst.
    rewrite (filter_split
               (fun r => Q r && (oz_eqb (section r) k ||
                                 existsb (oz_eqb (section r)) ks))
               (fun r => Q r && oz_eqb (section r) k)
               (fun r => Q r && existsb (oz_eqb (section r)) ks)).
    + apply Permutation_app_head. now apply IH.
    + intros x _. destruct (Q x); reflexivity.
    + intros x _. destruct (Q x); simpl; [|reflexivity].
      destruct (oz_eqb (section x) k) eqn:E; simpl; [|reflexivity].
      apply oz_eqb_spec in E. subst k.
      destruct (existsb (oz_eqb (section x)) ks) eqn:Ee; [|reflexivity].
      apply existsb_exists in Ee. destruct Ee as [y [Hy Ey]].
      apply oz_eqb_spec in Ey. subst y. contradiction.
Qed.

(* the sections of the definitions [ds] over the result list [b] *)
Lemma merge_partition b ds :
  defs_sections_unique ds b ->
  Permutation (concat (map snd (merge_over (filter is_seq b) ds)))
              (filter (in_defs ds) b).
Proof.
  intro Hu. destruct (merge_spec (filter is_seq b) ds) as [Hnd [Hval Hkey]].
  set (m := merge_over (filter is_seq b) ds) in *.
  set (F := fun k => filter (fun r => in_defs ds r && oz_eqb (section r) k) b).
  assert (E1 : map snd m = map F (map fst m)).
  { rewrite map_map. apply map_ext_in. intros [k v] Hin. simpl.
    destruct (Hval k v Hin) as [Hne [d [Hd Hv]]].
    rewrite sec_is_filter_seq in Hv. subst v. unfold F.
    destruct (filter_nonempty _ _ Hne) as [r0 [Hr0 Hs0]].
    apply filter_ext_in. intros r Hr.
    destruct (sec_is d k r) eqn:Es.
    - rewrite (in_defs_intro ds d r Hd (sec_is_seq _ _ _ Es)). simpl.
      symmetry. apply oz_eqb_spec. now apply (sec_is_section d).
    - destruct (in_defs ds r) eqn:Ei; simpl; [|reflexivity].
      destruct (oz_eqb (section r) k) eqn:Ek; [|reflexivity].
      apply oz_eqb_spec in Ek.
      assert (Hseq : seq r = seq r0).
      { apply Hu; try assumption.
        - apply (in_defs_intro ds d); [assumption|].
          now apply (sec_is_seq d k).
        - rewrite Ek. symmetry. now apply (sec_is_section d). }
      rewrite (sec_is_seq _ _ _ Hs0) in Hseq.
      unfold sec_is, seq_is in Es. rewrite Hseq in Es. simpl in Es.
      rewrite Z.eqb_refl in Es. simpl in Es.
      assert (oz_eqb (section r) k = true) by now apply oz_eqb_spec.
      congruence. }
  rewrite E1, <- flat_map_concat_map. unfold F.
  rewrite (perm_partition (in_defs ds) b (map fst m) Hnd).
  rewrite (filter_ext_in _ (in_defs ds)); [reflexivity|].
  intros r Hr. destruct (in_defs ds r) eqn:Ei; simpl; [|reflexivity].
  destruct (in_defs_elim ds r Ei) as [d [Hd Hs]].
  apply existsb_exists. exists (section r). split; [|now apply oz_eqb_spec].
  apply (Hkey d (section r) Hd).
  assert (Hin : In r (filter (sec_is d (section r)) (filter is_seq b))).
  { apply filter_In. split.
    - apply filter_In. split; [assumption|]. unfold is_seq. now rewrite Hs.
    - apply sec_is_intro. unfold seq_is. rewrite Hs. apply Z.eqb_refl. }
  intro Hc. rewrite Hc in Hin. contradiction.
Qed.

(* distinct sections never share a result *)
Lemma sections_nodup_uid (b : list result) (m : sections) :
  NoDup (map uid b) -> NoDup (map fst m) ->
  (forall k v, In (k, v) m -> exists d, v = filter (sec_is d k) b) ->
  NoDup (map uid (concat (map snd m))).
Proof.
  intros Hb. induction m as [|[k v] m IH]; simpl; intros Hnd Hval;
    [constructor|].
  inversion Hnd as [|? ? Hk Hm]; subst. rewrite map_app.
  destruct (Hval k v (or_introl eq_refl)) as [d Hv].
  apply NoDup_app_intro.
  - subst v. now apply NoDup_map_filter.
  - apply IH; [assumption|]. intros k' v' H. apply Hval. now right.
  - intros x Hx1 Hx2. apply in_map_iff in Hx1. destruct Hx1 as [r1 [E1 H1]].
    apply in_map_iff in Hx2. destruct Hx2 as [r2 [E2 H2]].
    apply in_concat in H2. destruct H2 as [v' [Hv' H2]].
    apply in_map_iff in Hv'. destruct Hv' as [[k' v''] [Ek Hin']].
    simpl in Ek. subst v''.
    destruct (Hval k' v' (or_intror Hin')) as [d' Hv'].
    subst v v'. apply filter_In in H1. apply filter_In in H2.
    destruct H1 as [B1 S1], H2 as [B2 S2].
    assert (r1 = r2) by (apply (NoDup_map_inj uid b); congruence).
    subst r2. apply sec_is_section in S1. apply sec_is_section in S2.
    apply Hk. apply in_map_iff. exists (k', filter (sec_is d' k') b).
    split; [simpl; congruence|assumption].
Qed.

(* ------------------------------------------------ flat view / freshness *)
Lemma in_flat c q r :
  In (q, r) (flat c) <-> exists l, In (q, l) c /\ In r l.
Proof.
  unfold flat. rewrite in_flat_map. split.
  - intros [[k l] [Hin Hm]]. simpl in Hm. apply in_map_iff in Hm.
    destruct Hm as [x [E Hx]]. inversion E; subst. now exists l.
  - intros [l [Hin Hr]]. exists (q, l). split; [assumption|].
    simpl. apply in_map_iff. now exists r.
Qed.

Lemma in_all_flat c r : In r (all c) <-> exists q, In (q, r) (flat c).
Proof.
  unfold all. rewrite in_flat_map. split.
  - intros [[k l] [Hin Hr]]. exists k. apply in_flat. now exists l.
  - intros [q Hq]. apply in_flat in Hq. destruct Hq as [l [Hin Hr]].
    now exists (q, l).
Qed.

Lemma flat_find c q r :
  wf c -> In (q, r) (flat c) -> In r (find_by_path c q).
Proof.
  intros H Hin. apply in_flat in Hin. destruct Hin as [l [Hl Hr]].
  unfold find_by_path.
  now rewrite (in_dget Z.eqb zeqb_spec c q l H Hl).
Qed.

Lemma find_flat c q r : In r (find_by_path c q) -> In (q, r) (flat c).
Proof.
  unfold find_by_path. destruct (dget Z.eqb c q) as [l|] eqn:E;
    [|contradiction].
  intro Hr. apply in_flat. exists l. split; [|assumption].
  now apply (dget_some_in Z.eqb zeqb_spec).
Qed.

Lemma base_in_all c p r : In r (base c p) -> In r (all c).
Proof.
  unfold base. destruct (truthy p); [|trivial].
  intro H. apply in_all_flat. exists p. now apply find_flat.
Qed.

Lemma fresh_defs_unique c p ds :
  fresh_sections c -> defs_sections_unique ds (base c p).
Proof.
  intros Hf r1 r2 H1 H2 D1 D2 Es.
  apply base_in_all, in_all_flat in H1. apply base_in_all, in_all_flat in H2.
  destruct H1 as [q1 H1], H2 as [q2 H2].
  destruct (in_defs_elim _ _ D1) as [d1 [_ S1]].
  destruct (in_defs_elim _ _ D2) as [d2 [_ S2]].
  apply (Hf q1 r1 q2 r2); try assumption; unfold is_seq;
    [now rewrite S1|now rewrite S2].
Qed.

Lemma fresh_sections_b_sound c : fresh_sections_b c = true -> fresh_sections c.
Proof.
  unfold fresh_sections_b, fresh_sections.
  intros H p1 r1 p2 r2 H1 H2 S1 S2 Es.
  rewrite forallb_forall in H. specialize (H _ H1).
  rewrite forallb_forall in H. specialize (H _ H2). simpl in H.
  rewrite S1, S2 in H. simpl in H.
  assert (E : oz_eqb (section r1) (section r2) = true)
    by now apply oz_eqb_spec.
  rewrite E in H. apply andb_true_iff in H. destruct H as [Hp Hs].
  apply Z.eqb_eq in Hp. apply oz_eqb_spec in Hs. now split.
Qed.

(* a section of a fresh collection is drawn from one file *)
Lemma section_single_path c d k v :
  wf c -> fresh_sections c -> v <> [] -> v = filter (sec_is d k) (all c) ->
  exists q, forall r, In r v -> In r (find_by_path c q).
Proof.
  intros H Hf Hne Hv.
  destruct v as [|r0 v']; [congruence|].
  assert (H0 : In r0 (filter (sec_is d k) (all c)))
    by (rewrite <- Hv; now left).
  apply filter_In in H0. destruct H0 as [A0 S0].
  apply in_all_flat in A0. destruct A0 as [q0 F0].
  exists q0. intros r Hr. rewrite Hv in Hr. apply filter_In in Hr.
  destruct Hr as [A S]. apply in_all_flat in A. destruct A as [q F].
  assert (E : q = q0 /\ seq r = seq r0).
  { apply (Hf q r q0 r0); try assumption.
    - unfold is_seq. now rewrite (sec_is_seq _ _ _ S).
    - unfold is_seq. now rewrite (sec_is_seq _ _ _ S0).
    - rewrite (sec_is_section _ _ _ S). symmetry.
      now apply (sec_is_section d). }
  destruct E as [-> _]. now apply flat_find.
Qed.

(* ------------------------------------------------ the partition theorem *)
Lemma sections_partition_lemma cat c t p ds :
  wf c -> dget Z.eqb (tagtab cat) t = Some ds ->
  exists secs,
    find_sequence_by_tag cat c t p = Ok secs /\
    (* keys are distinct section ids *)
    NoDup (map fst secs) /\
    (* each section = the results of ONE definition carrying that id *)
    (forall k v, In (k, v) secs ->
       v <> [] /\ exists d, In d ds /\ v = filter (sec_is d k) (base c p)) /\
    (* distinct sections share no result object *)
    (NoDup (map uid (base c p)) ->
     NoDup (map uid (concat (map snd secs)))) /\
    (* every result of the matching definitions is in exactly one section *)
    (defs_sections_unique ds (base c p) ->
     Permutation (concat (map snd secs)) (filter (in_defs ds) (base c p))).
Proof.
  intros H Ht. unfold find_sequence_by_tag. rewrite Ht.
  exists (merge_sections c p ds). split; [reflexivity|].
  rewrite merge_sections_over, (all_sequence_results_exact c p H).
  destruct (merge_spec (filter is_seq (base c p)) ds) as [Hnd [Hval Hkey]].
  assert (Hval' : forall k v,
             In (k, v) (merge_over (filter is_seq (base c p)) ds) ->
             v <> [] /\ exists d, In d ds /\
                                  v = filter (sec_is d k) (base c p)).
  { intros k v Hin. destruct (Hval k v Hin) as [Hne [d [Hd Hv]]].
    split; [assumption|]. exists d. split; [assumption|].
    now rewrite sec_is_filter_seq in Hv. }
  split; [assumption|]. split; [exact Hval'|]. split.
  - intro Hu. apply (sections_nodup_uid (base c p)); try assumption.
    intros k v Hin. destruct (Hval' k v Hin) as [_ [d [_ Hv]]]. now exists d.
  - apply merge_partition.
Qed.
