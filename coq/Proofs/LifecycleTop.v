(* C10 - schedule-level statements (what Props/C10.v instantiates). *)
From Coq Require Import String List Bool Arith Lia.
From SK Require Import Model.Skel Model.Lifecycle Spec.Lifecycle
     Proofs.Lifecycle Proofs.LifecycleInv Proofs.LifecycleProgress
     Proofs.LifecycleThm Proofs.LifecycleMeasure Proofs.LifecycleDoom
     Proofs.LifecycleBound.
Import ListNotations.
Local Open Scope list_scope.

Section Top.
Variable f : facts.
Hypothesis Hok : facts_ok f = true.

Lemma inv_of_run c st co sched : lock_init st -> lock_init co ->
  Inv f c (run f c sched (init c st co)).
Proof.
  intros A B. apply run_inv; [exact Hok|]. apply inv_init; assumption.
Qed.

Lemma fresh_no_dead c sched :
  s_store (run f c sched (init c None None)) <> Some ODead /\
  s_coll (run f c sched (init c None None)) <> Some ODead.
Proof.
  split; intros Q.
  - apply run_store_dead in Q. discriminate.
  - apply run_coll_dead in Q. discriminate.
Qed.

Theorem top_failure_never_returns c st co sched :
  lock_init st -> lock_init co ->
  let s := run f c sched (init c st co) in
  s_fired s = true -> s_pc s <> MReturn.
Proof.
  intros A B s. apply (inv_failure_never_returns f c). apply inv_of_run; assumption.
Qed.

Theorem top_return_means_complete c st co sched :
  lock_init st -> lock_init co ->
  let s := run f c sched (init c st co) in
  s_pc s = MReturn ->
  s_fired s = false /\ forall t, t < ntasks c -> s_futs s t = FOk.
Proof.
  intros A B s. apply (inv_return_all_ok f c). apply inv_of_run; assumption.
Qed.

Theorem top_raise_is_clean c sched :
  plan_raises c -> 1 <= c_workers c ->
  let s := run f c sched (init c None None) in
  (dead_ownerb s (s_store s) = false /\ dead_ownerb s (s_coll s) = false) /\
  (final s = false -> can_move f c s) /\
  (final s = true -> clean_end c s) /\
  (forall e, s_pc s = MRaised e ->
     s_fired s = true /\
     exists p e0, c_plan c = Some p /\ p_kind p = KRaise e0 /\
                  e = expected_class f c p e0) /\
  (s_fired s = true -> s_pc s <> MReturn) /\
  (exists sched', final (run f c (sched ++ sched') (init c None None)) = true).
Proof.
  intros Hpl HW s.
  assert (HI : Inv f c s) by (apply inv_of_run; left; reflexivity).
  destruct (fresh_no_dead c sched) as [Ns Nc]. fold s in Ns, Nc.
  pose proof (raise_no_dead_owner f c s HI Hpl Ns) as Ds.
  pose proof (coll_not_dead f c s HI Nc) as Dc.
  split; [split; assumption|].
  split; [intros F; exact (progress f c s HI Ds Dc HW F)|].
  split; [intros F; exact (inv_final_clean f c s HI F Ds Dc)|].
  split.
  { intros e Hpc. destruct (inv_raised_class f c Hok s e HI Hpc) as (Fd & p & P1 & P2).
    split; [exact Fd|]. exists p.
    unfold plan_raises in Hpl. rewrite P1 in Hpl.
    destruct (p_kind p) as [e0|] eqn:K; [|destruct Hpl]. exists e0. auto. }
  split; [apply (inv_failure_never_returns f c s HI)|].
  destruct (terminable_aux f c Hok Hpl HW (measure c s) s (le_n _) HI Ns Nc)
    as [sched' Hf].
  exists sched'. rewrite run_app. exact Hf.
Qed.

Theorem top_exit_clean_if_lock_free c sched p :
  1 <= c_workers c -> c_plan c = Some p -> p_kind p = KExit ->
  let s := run f c sched (init c None None) in
  dead_ownerb s (s_store s) = false ->
  (final s = false -> can_move f c s) /\
  (final s = true -> clean_end c s) /\
  (forall e, s_pc s = MRaised e -> s_fired s = true /\ e = E_FSE) /\
  (s_fired s = true -> s_pc s <> MReturn).
Proof.
  intros HW P1 P2 s Ds.
  assert (HI : Inv f c s) by (apply inv_of_run; left; reflexivity).
  destruct (fresh_no_dead c sched) as [Ns Nc]. fold s in Ns, Nc.
  pose proof (coll_not_dead f c s HI Nc) as Dc.
  split; [intros F; exact (progress f c s HI Ds Dc HW F)|].
  split; [intros F; exact (inv_final_clean f c s HI F Ds Dc)|].
  split; [|apply (inv_failure_never_returns f c s HI)].
  intros e Hpc. destruct (inv_raised_class f c Hok s e HI Hpc) as (Fd & p' & Q1 & Q2).
  split; [exact Fd|]. rewrite P1 in Q1. inversion Q1; subst p'.
  rewrite P2 in Q2. exact Q2.
Qed.

Theorem top_stuck_only_by_dead_owner c st co sched :
  lock_init st -> lock_init co -> 1 <= c_workers c ->
  let s := run f c sched (init c st co) in
  stuck f c s ->
  dead_ownerb s (s_store s) = true \/ dead_ownerb s (s_coll s) = true.
Proof.
  intros A B HW s. apply (inv_stuck_dead_owner f c s); [|exact HW].
  apply inv_of_run; assumption.
Qed.

Theorem top_fresh_stuck_is_store c sched : 1 <= c_workers c ->
  let s := run f c sched (init c None None) in
  stuck f c s -> dead_ownerb s (s_store s) = true.
Proof.
  intros HW s Hs.
  assert (HI : Inv f c s) by (apply inv_of_run; left; reflexivity).
  destruct (inv_stuck_dead_owner f c s HI HW Hs) as [D|D]; [exact D|].
  destruct (fresh_no_dead c sched) as [_ Nc]. fold s in Nc.
  rewrite (coll_not_dead f c s HI Nc) in D. discriminate.
Qed.

Theorem top_exit_in_lock_orphans c sched p r : f_fin_free f = false ->
  c_plan c = Some p -> p_kind p = KExit -> p_j p = Some r ->
  let s := run f c sched (init c None None) in
  s_fired s = true -> dead_ownerb s (s_store s) = true.
Proof.
  intros Hff P1 P2 P3 s Fd. apply (exit_in_lock_orphans f c s p r); try assumption.
  apply inv_of_run; left; reflexivity.
Qed.

(* the repaired code: ANY fault (or none), any schedule - the run never
   hangs, can always be completed, and ends clean *)
Theorem top_run_always_clean c sched :
  f_fin_free f = true -> 1 <= c_workers c ->
  let s := run f c sched (init c None None) in
  (final s = false -> can_move f c s) /\
  ~ stuck f c s /\
  (final s = true -> clean_end c s) /\
  (forall e, s_pc s = MRaised e ->
     s_fired s = true /\
     exists p, c_plan c = Some p /\
       match p_kind p with
       | KRaise e0 => e = expected_class f c p e0
       | KExit => e = E_FSE
       end) /\
  (s_fired s = true -> s_pc s <> MReturn) /\
  (exists sched', final (run f c (sched ++ sched') (init c None None)) = true).
Proof.
  intros Hff HW s.
  assert (HI : Inv f c s) by (apply inv_of_run; left; reflexivity).
  destruct (fresh_no_dead c sched) as [Ns Nc]. fold s in Ns, Nc.
  split; [intros F; exact (always_can_move f c s HI Hff HW Ns Nc F)|].
  split; [exact (not_stuck f c s HI Hff HW Ns Nc)|].
  split; [intros F; exact (inv_final_clean_freed f c s HI Hff Nc F)|].
  split; [intros e Hpc; exact (inv_raised_class f c Hok s e HI Hpc)|].
  split; [apply (inv_failure_never_returns f c s HI)|].
  destruct (terminable_freed f c Hok Hff HW (measure c s) s (le_n _) HI Ns Nc)
    as [sched' Hf].
  exists sched'. rewrite run_app. exact Hf.
Qed.

Theorem top_observe_allowed c sched p : 1 <= c_workers c ->
  c_plan c = Some p ->
  let s := run f c sched (init c None None) in
  s_fired s = true -> final s = true \/ stuck f c s ->
  obs_mem (observe s) (allowed f c p) = true.
Proof.
  intros HW P1 s Fd Hend.
  destruct (fresh_no_dead c sched) as [Ns Nc].
  apply (inv_observe_allowed f c Hok s p); try assumption.
  apply inv_of_run; left; reflexivity.
Qed.

Theorem top_moves_bounded c st co : lock_init st -> lock_init co ->
  exists B, forall sched, moves f c sched (init c st co) <= B.
Proof.
  intros A B. exists (measure c (init c st co)). intros sched.
  apply moves_bounded; [exact Hok|]. apply inv_init; assumption.
Qed.

(* a second run after a clean first one is a first run *)
Theorem top_second_run_is_first c sched c' sched' :
  let s := run f c sched (init c None None) in
  final s = true -> dead_ownerb s (s_store s) = false ->
  run f c' sched' (restart s c') = run f c' sched' (init c' None None).
Proof.
  intros s F Ds.
  assert (HI : Inv f c s) by (apply inv_of_run; left; reflexivity).
  destruct (fresh_no_dead c sched) as [_ Nc]. fold s in Nc.
  destruct (inv_final_clean f c s HI F Ds (coll_not_dead f c s HI Nc))
    as (_ & _ & _ & Hfresh).
  rewrite (Hfresh c'). reflexivity.
Qed.

(* D8(a): after a run that left the store lock with a dead owner, no
   fault-free run ever finishes *)
Theorem top_second_run_doomed c sched c' :
  let s := run f c sched (init c None None) in
  dead_ownerb s (s_store s) = true -> plain_cfg c' ->
  doomed f c' (restart s c').
Proof.
  intros s Ds Hp. unfold restart.
  assert (E : carry (s_store s) = Some ODead).
  { destruct (s_store s) as [[| | |w|]|]; try discriminate; reflexivity. }
  rewrite E. apply orphaned_store_lock_dooms. exact Hp.
Qed.
End Top.

(* the boolean deadlock test is sound *)
Lemma stuckb_sound f c s : stuckb f c s = true -> stuck f c s.
Proof.
  unfold stuckb. rewrite andb_true_iff, negb_true_iff, forallb_forall.
  intros [Hf Hall]. split; [exact Hf|]. intros a.
  assert (Hin : forall a, In a (actors c) -> step f c s a = None).
  { intros a' Ha. specialize (Hall a' Ha). unfold enabledb in Hall.
    destruct (step f c s a'); [discriminate|reflexivity]. }
  destruct a as [|w| | |]; try (apply Hin; unfold actors; simpl; tauto).
  destruct (Nat.lt_ge_cases w (c_workers c)) as [L|G].
  - apply Hin. unfold actors. apply in_or_app. right. apply in_map. apply in_seq. lia.
  - unfold step, step_worker. apply Nat.ltb_ge in G. rewrite G. reflexivity.
Qed.

(* ------------------------------------------------- handler-table lemmas *)
Lemma exec_table_sound hs : forall b, exec_table_ok b hs = true ->
  forall e, (b = true -> e <> E_UDE) ->
  map_exc hs e = if String.eqb e E_UDE then E_UDE else E_FSE.
Proof.
  induction hs as [|[h r] rest IH]; intros b Hok e Hb; simpl in Hok; [discriminate|].
  cbn [map_exc]. unfold catches.
  destruct (String.eqb_spec h "Exception") as [->|Hne].
  - apply andb_true_iff in Hok. destruct Hok as [-> Hr]. apply String.eqb_eq in Hr. subst r.
    rewrite orb_true_r. cbn [orb].
    change (String.eqb E_FSE "reraise") with false. cbv iota.
    destruct (String.eqb_spec e E_UDE) as [->|_]; [destruct (Hb eq_refl eq_refl)|reflexivity].
  - destruct (String.eqb_spec h E_UDE) as [->|Hnu].
    + apply andb_true_iff in Hok. destruct Hok as [Hr Hrest]. apply String.eqb_eq in Hr. subst r.
      change (String.eqb E_UDE "Exception") with false.
      change (String.eqb E_UDE "BaseException") with false. rewrite !orb_false_r.
      rewrite String.eqb_refl. rewrite (String.eqb_sym E_UDE e).
      destruct (String.eqb_spec e E_UDE) as [->|Hn]; [reflexivity|].
      rewrite (IH true Hrest e (fun _ => Hn)).
      destruct (String.eqb_spec e E_UDE); [contradiction|reflexivity].
    + apply andb_true_iff in Hok. destruct Hok as [Hok Hrest].
      apply andb_true_iff in Hok. destruct Hok as [Hh Hr].
      apply String.eqb_eq in Hh. apply String.eqb_eq in Hr. subst h r.
      change (String.eqb "EOFError" "Exception") with false.
      change (String.eqb "EOFError" "BaseException") with false. rewrite !orb_false_r.
      destruct (String.eqb_spec "EOFError" e) as [<-|Hn].
      * reflexivity.
      * exact (IH b Hrest e Hb).
Qed.

Lemma pool_table_sound hs : pool_table_ok hs = true ->
  forall e, e <> E_BPP -> map_exc hs e = e.
Proof.
  destruct hs as [|[h r] [|x rest]]; try discriminate; [reflexivity|].
  cbn [pool_table_ok].
  rewrite andb_true_iff, !String.eqb_eq. intros [-> ->] e Hne.
  cbn [map_exc]. unfold catches.
  change (String.eqb E_BPP "Exception") with false.
  change (String.eqb E_BPP "BaseException") with false. rewrite !orb_false_r.
  destruct (String.eqb_spec E_BPP e) as [E|_]; [congruence|reflexivity].
Qed.

Lemma main_class_sound f : facts_ok f = true ->
  pool_table_ok (f_inner f) = true -> pool_table_ok (f_outer f) = true ->
  forall e, main_class f e = if String.eqb e E_BPP then E_FSE else e.
Proof.
  intros Hok Hi Ho e.
  destruct (String.eqb_spec e E_BPP) as [->|Hn].
  - unfold facts_ok in Hok. rewrite !andb_true_iff, !String.eqb_eq in Hok. tauto.
  - unfold main_class. rewrite (pool_table_sound _ Hi e Hn).
    apply (pool_table_sound _ Ho e Hn).
Qed.
