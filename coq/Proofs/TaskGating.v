(* C07, generic in the per-definition handler (so the statements cover
   sequence searches as well): corollaries of Proofs/TaskLoop.v phrased with
   the specification's activation index. *)
From Coq Require Import ZArith List Bool Lia Arith.
From SK Require Import Model.Task Spec.Task Proofs.TaskFlush Proofs.TaskLoop.
Import ListNotations.
Open Scope Z_scope.

Section Gating.
  Variable line : Type.
  Variable D : Type.
  Variable St : Type.
  Variable R : Type.
  Variable key : D -> Z.
  Variable cons : D -> list Z.
  Variable ocon : Z -> line -> outcome.
  Variable init : D -> St.
  Variable step : D -> St -> Z -> line -> St * list R.
  Variable rkey : R -> Z.

  Notation emittedL := (emitted_lines line D St R key cons ocon init step).
  Notation finals := (final_slots line D St R key cons ocon init step).
  Notation hrunG := (hrun line D St R step).

  (* results and final handler state of d = the handler run from the first
     line on which all of d's constraints pass, numbering unchanged *)
  Theorem own_constraint_generic ds lines d :
    step_keyed line D St R key step rkey -> keys_ok key ds -> In d ds ->
    uniform line ocon (cons d) lines ->
    let seen := visible_spec line ocon (cons d) lines (enum 1 lines) in
    filter (keyb R rkey (key d)) (emittedL ds lines) =
      snd (hrunG d (init d) seen) /\
    In (d, fst (hrunG d (init d) seen)) (slot_states D St (finals ds lines)).
  Proof.
    intros Hk Hko Hd Hu seen. unfold seen.
    rewrite <- (visible_init_uniform line D cons ocon d lines 1 Hu).
    split.
    - apply results_of_def; assumption.
    - apply final_state_of_def; assumption.
  Qed.

  (* exactly as the code gates, no hypothesis on the outcomes *)
  Theorem own_constraint_code_rule_generic ds lines d :
    step_keyed line D St R key step rkey -> keys_ok key ds -> In d ds ->
    has_constraints D cons d = true ->
    let k := active_from line ocon (cons d) lines in
    filter (keyb R rkey (key d)) (emittedL ds lines) =
    snd (hrunG d (init d)
           (filter (fun il => pre_search line D cons ocon d (snd il))
                   (firstn k (enum 1 lines)) ++ skipn k (enum 1 lines))).
  Proof.
    intros Hk Hko Hd Hc k.
    rewrite (results_of_def line D St R key cons ocon init step rkey ds lines
                            d Hk Hko Hd), Hc.
    cbn [negb]. rewrite (visible_false_closed line D cons ocon lines 1 d Hc).
    rewrite (code_active_from_spec line D cons ocon d lines Hc).
    reflexivity.
  Qed.

  (* the results of d' do not depend on which other definitions (with which
     constraints) are registered on the file *)
  Theorem neighbours_unaffected_generic ds1 ds2 lines d' :
    step_keyed line D St R key step rkey ->
    keys_ok key ds1 -> keys_ok key ds2 -> In d' ds1 -> In d' ds2 ->
    filter (keyb R rkey (key d')) (emittedL ds1 lines) =
    filter (keyb R rkey (key d')) (emittedL ds2 lines).
  Proof.
    intros Hk K1 K2 I1 I2.
    rewrite (results_of_def line D St R key cons ocon init step rkey ds1
                            lines d' Hk K1 I1).
    rewrite (results_of_def line D St R key cons ocon init step rkey ds2
                            lines d' Hk K2 I2).
    reflexivity.
  Qed.

  (* in particular an unconstrained d' sees every line *)
  Theorem unconstrained_sees_all ds lines d' :
    step_keyed line D St R key step rkey -> keys_ok key ds -> In d' ds ->
    has_constraints D cons d' = false ->
    filter (keyb R rkey (key d')) (emittedL ds lines) =
    snd (hrunG d' (init d') (enum 1 lines)).
  Proof.
    intros Hk Hko Hd Hc.
    rewrite (results_of_def line D St R key cons ocon init step rkey ds lines
                            d' Hk Hko Hd), Hc.
    cbn [negb]. rewrite visible_true. reflexivity.
  Qed.
End Gating.

(* line numbers count from the first line searched: a file-level constraint
   that leaves the file at line [pos] makes the task run on the remaining
   lines, numbered from 1 *)
Lemma simple_run_file_numbering {line G} omatch ohint ocon MAX NBUF
      (atf : G -> nat -> option Z * nat) globals restrictions ds
      (file_lines : list line) :
  let pos := snd (fst (apply_global atf globals restrictions
                 (map (fun s => s_key (sl_def s))
                      (search_defs sdef unit s_key s_cons (fun _ => tt) ds))))
  in
  simple_run_file line omatch ohint ocon MAX NBUF atf globals restrictions ds
                  file_lines =
  simple_execute line omatch ohint ocon MAX NBUF ds (skipn pos file_lines).
Proof.
  unfold simple_run_file, run_file, simple_execute.
  destruct (apply_global atf globals restrictions _) as [[o p] a].
  reflexivity.
Qed.
