(* C06 - safety of the concurrent store model for every schedule. *)
From Coq Require Import String ZArith List Bool Arith Lia.
From SK Require Import Model.Base Model.Skel Model.Store Model.Par
     Proofs.Store.
Import ListNotations.
Open Scope Z_scope.

(* ------------------------------------------------------------ lists *)
Lemma nth_error_upd_same {A} (l : list A) p x t :
  nth_error l p = Some t -> nth_error (upd l p x) p = Some x.
Proof.
  revert p. induction l as [|a r IH]; intros [|p] H; simpl in *; try discriminate.
  - reflexivity.
  - apply IH. exact H.
Qed.

Lemma nth_error_upd_other {A} (l : list A) p q x :
  q <> p -> nth_error (upd l p x) q = nth_error l q.
Proof.
  revert p q. induction l as [|a r IH]; intros [|p] [|q] H; simpl; try reflexivity.
  - contradiction.
  - apply IH. congruence.
Qed.

Lemma upd_length {A} (l : list A) p x : length (upd l p x) = length l.
Proof.
  revert p. induction l as [|a r IH]; intros [|p]; simpl; try reflexivity.
  rewrite IH. reflexivity.
Qed.

(* ------------------------------------------------------------ skeleton checks *)
Lemma act_eqb_eq a b : act_eqb a b = true -> a = b.
Proof. destruct a, b; simpl; intros H; try discriminate; reflexivity. Qed.

Lemma acts_eqb_eq x : forall y, acts_eqb x y = true -> x = y.
Proof.
  induction x as [|a r IH]; intros [|b s] H; simpl in H; try discriminate.
  - reflexivity.
  - apply andb_true_iff in H. destruct H as [H1 H2].
    apply act_eqb_eq in H1. apply IH in H2. congruence.
Qed.

Lemma well_locked_pre_canon sk :
  well_locked_pre sk = true -> expand_pre 0 sk = canon_pre.
Proof.
  unfold well_locked_pre. intros H. apply andb_true_iff in H.
  apply acts_eqb_eq. tauto.
Qed.

Lemma ev_eqb_eq a b : ev_eqb a b = true -> a = b.
Proof.
  destruct a, b; simpl; intros H; try discriminate; try reflexivity;
    apply String.eqb_eq in H; congruence.
Qed.

Lemma evs_eqb_eq x : forall y, evs_eqb x y = true -> x = y.
Proof.
  induction x as [|a r IH]; intros [|b s] H; simpl in H; try discriminate.
  - reflexivity.
  - apply andb_true_iff in H. destruct H as [H1 H2].
    apply ev_eqb_eq in H1. apply IH in H2. congruence.
Qed.

Lemma walk_sync_filter l sk : forall inloop j,
  walk_sync l sk inloop j = walk_sync l (filter sync_relevant sk) inloop j.
Proof.
  induction sk as [|e r IH]; intros inloop j; [reflexivity|].
  simpl. destruct (sync_relevant e) eqn:E; simpl.
  - rewrite E. simpl.
    destruct e; simpl in E; try discriminate; destruct inloop;
      rewrite ?IH; reflexivity.
  - apply IH.
Qed.

Definition sync_writes (l : store) : list act :=
  flat_map (fun it => [AWrData (fst it) (snd it)]) (data l).
Definition sync_merges (j : nat) (d : dict) : list act :=
  flat_map (fun it => [AMergeChk (loop_ns j) (fst it) (snd it)]) d.
Definition canon_sa (l : store) : list act :=
  AAcq :: sync_writes l ++ sync_merges 1 (vstore l) ++
  sync_merges 2 (tstore l) ++ sync_merges 3 (sstore l) ++ [ARel].

Lemma flat_map_single {A B} (f : A -> B) (g : A -> list B) l :
  (forall x, g x = [f x]) -> flat_map g l = flat_map (fun x => [f x]) l.
Proof.
  intros H. induction l as [|a r IH]; simpl; [reflexivity|].
  rewrite H, IH. reflexivity.
Qed.

Lemma well_locked_sync_canon sk l :
  well_locked_sync sk = true -> expand_sync sk l = canon_sa l.
Proof.
  unfold well_locked_sync, expand_sync. intros H. apply evs_eqb_eq in H.
  rewrite H. unfold canon_sync, canon_sa.
  cbn [walk_sync sync_relevant negb top_act is_store String.eqb Ascii.eqb
       Bool.eqb app loop_items].
  reflexivity.
Qed.

(* ------------------------------------------------------------ lock discipline *)
(* [wlb h c]: running the actions [c] starting with the lock held (h = true)
   or not; None = a shared access outside the lock, an acquire while holding
   or a release while not holding; otherwise the final "held" *)
Fixpoint wlb (h : bool) (c : list act) : option bool :=
  match c with
  | [] => Some h
  | AAcq :: r => if h then None else wlb true r
  | ARel :: r => if h then wlb false r else None
  | _ :: r => if h then wlb h r else None
  end.

Definition is_access_act (a : act) : bool :=
  match a with AAcq | ARel => false | _ => true end.

Lemma wlb_accesses acc r :
  forallb is_access_act acc = true -> wlb true (acc ++ r) = wlb true r.
Proof.
  induction acc as [|a acc IH]; simpl; intros H; [reflexivity|].
  apply andb_true_iff in H. destruct H as [Ha H].
  destruct a; simpl in Ha; try discriminate; apply IH; exact H.
Qed.

Lemma forallb_flat_map {A B} (p : B -> bool) (f : A -> list B) l :
  (forall x, forallb p (f x) = true) -> forallb p (flat_map f l) = true.
Proof.
  intros H. induction l as [|a r IH]; simpl; [reflexivity|].
  rewrite forallb_app, H, IH. reflexivity.
Qed.

Lemma wlb_canon_sa l : wlb false (canon_sa l) = Some false.
Proof.
  unfold canon_sa. simpl.
  rewrite wlb_accesses by (apply forallb_flat_map; reflexivity).
  rewrite wlb_accesses by (apply forallb_flat_map; reflexivity).
  rewrite wlb_accesses by (apply forallb_flat_map; reflexivity).
  rewrite wlb_accesses by (apply forallb_flat_map; reflexivity).
  reflexivity.
Qed.

Definition not_ptr (a : act) : bool :=
  match a with ARdCur | ARdInc | AWrPtr => false | _ => true end.

Lemma not_ptr_canon_sa l : forallb not_ptr (canon_sa l) = true.
Proof.
  unfold canon_sa. simpl. rewrite !forallb_app.
  unfold sync_writes, sync_merges.
  rewrite !forallb_flat_map by reflexivity. reflexivity.
Qed.

Lemma in_canon_sa_wr l i v :
  In (AWrData i v) (canon_sa l) <-> In (i, v) (data l).
Proof.
  unfold canon_sa. simpl. rewrite !in_app_iff. unfold sync_writes, sync_merges.
  rewrite !in_flat_map. split.
  - intros [H|[[x [Hx H]]|[[x [Hx H]]|[[x [Hx H]]|[[x [Hx H]]|H]]]]].
    + discriminate.
    + simpl in H. destruct H as [H|[]]. inversion H. subst. destruct x. exact Hx.
    + simpl in H. destruct H as [H|[]]. discriminate.
    + simpl in H. destruct H as [H|[]]. discriminate.
    + simpl in H. destruct H as [H|[]]. discriminate.
    + simpl in H. destruct H as [H|[]]. discriminate.
  - intros H. right. left. exists (i, v). split; [exact H|]. left. reflexivity.
Qed.

Definition ctl_acts (t : task) : list act :=
  match t_ctl t with
  | CPre _ _ _ r => r
  | CSync r => r
  | _ => []
  end.

Definition holds (lock : option nat) (p : nat) : bool :=
  match lock with Some q => Nat.eqb q p | None => false end.

(* ------------------------------------------------------------ more dict facts *)
Lemma dget_some_in k v d : dget k d = Some v -> In k (map fst d).
Proof.
  induction d as [|[k' v'] r IH]; simpl; intros H; [discriminate|].
  destruct (k =? k') eqn:E.
  - apply Z.eqb_eq in E. left. congruence.
  - right. apply IH. exact H.
Qed.

Lemma scan_dget v i d : dict_wf d -> scan v d = Some i -> dget i d = Some v.
Proof.
  unfold dict_wf. induction d as [|[k w] r IH]; simpl; intros Hw H; [discriminate|].
  inversion Hw as [|? ? Hk Hr]; subst.
  destruct (v =? w) eqn:E.
  - apply Z.eqb_eq in E. inversion H. subst. rewrite Z.eqb_refl. reflexivity.
  - specialize (IH Hr H). destruct (i =? k) eqn:E2; [|exact IH].
    apply Z.eqb_eq in E2. subst. apply dget_some_in in IH. contradiction.
Qed.

Lemma dmem_dset i k v d : dmem i (dset k v d) = (i =? k) || dmem i d.
Proof.
  unfold dmem. destruct (i =? k) eqn:E.
  - apply Z.eqb_eq in E. subst. rewrite dget_dset_same. reflexivity.
  - apply Z.eqb_neq in E. rewrite dget_dset_other by exact E. reflexivity.
Qed.

Lemma dmem_true_get i d : dmem i d = true -> exists v, dget i d = Some v.
Proof. unfold dmem. destruct (dget i d) as [v|]; [eauto|discriminate]. Qed.

Lemma get_set_ns_same l n d : get_ns (set_ns l n d) n = d.
Proof. destruct n; reflexivity. Qed.

Lemma get_set_ns_other l n n' d : n <> n' -> get_ns (set_ns l n d) n' = get_ns l n'.
Proof. destruct n, n'; simpl; intros H; try reflexivity; contradiction. Qed.

Lemma ns_eq_dec (n n' : ns) : {n = n'} + {n <> n'}.
Proof. decide equality. Defined.

Lemma alloc_pick_block l c nb v :
  pre l = true -> allocs l = Some (range c nb) -> (1 <= nb)%nat ->
  alloc_pick l (allocations_value l) v =
  match find (fun i => negb (dmem i (data l))) (range c nb) with
  | Some cur => Ok (set_data l (dset cur v (data l)), cur)
  | None => ErrAlloc
  end.
Proof.
  intros Hp Ha Hn. unfold allocations_value. rewrite Hp, Ha.
  rewrite (range_cons c nb Hn). reflexivity.
Qed.

(* ------------------------------------------------------------ per-task invariant *)
Section Inv.
  Variable b : Z.
  Hypothesis Hb : 1 <= b.

  Definition in_block (c i : Z) : Prop := c <= i < c + b.

  Record T_core (t : task) : Prop := mkTcore {
    tc_wf : dict_wf (data (t_loc t));
    tc_pre : pre (t_loc t) = true;
    tc_bsz : bsz (t_loc t) = b;
    tc_keys : forall i, dmem i (data (t_loc t)) = true ->
                        exists c, In c (t_blocks t) /\ in_block c i;
    tc_allocs : forall a, allocs (t_loc t) = Some a ->
                          exists c, In c (t_blocks t) /\ a = range c (Z.to_nat b);
    tc_rev : forall n v i, dget v (get_ns (t_loc t) n) = Some i ->
                           dget i (data (t_loc t)) = Some v;
    tc_handed : forall i v, In (i, v) (t_handed t) ->
                            dget i (data (t_loc t)) = Some v }.

  Lemma T_core_same t t' :
    t_loc t' = t_loc t -> t_blocks t' = t_blocks t -> t_handed t' = t_handed t ->
    T_core t -> T_core t'.
  Proof.
    intros H1 H2 H3 [A B C D E F G].
    constructor; rewrite ?H1, ?H2, ?H3; assumption.
  Qed.

  Lemma T_core_hand t i v :
    T_core t -> dget i (data (t_loc t)) = Some v -> T_core (hand t i v).
  Proof.
    intros [A B C D E F G] H. constructor; simpl; try assumption.
    intros i' v' [Hin|Hin]; [inversion Hin; subst; exact H|apply G; exact Hin].
  Qed.

  Lemma T_core_set_rev t n v i :
    T_core t -> dget i (data (t_loc t)) = Some v ->
    T_core (set_loc t (set_ns (t_loc t) n (dset v i (get_ns (t_loc t) n)))).
  Proof.
    intros [A B C D E F G] H.
    constructor; simpl; try (destruct n; simpl; assumption).
    intros n' v' i' Hg. destruct (ns_eq_dec n n') as [<-|Hne].
    - rewrite get_set_ns_same in Hg.
      assert (Hd : data (set_ns (t_loc t) n (dset v i (get_ns (t_loc t) n)))
                   = data (t_loc t)) by (destruct n; reflexivity).
      rewrite Hd. destruct (Z.eq_dec v' v) as [->|Hv].
      + rewrite dget_dset_same in Hg. inversion Hg. subst. exact H.
      + rewrite dget_dset_other in Hg by exact Hv. apply (F n). exact Hg.
    - rewrite get_set_ns_other in Hg by exact Hne.
      assert (Hd : data (set_ns (t_loc t) n (dset v i (get_ns (t_loc t) n)))
                   = data (t_loc t)) by (destruct n; reflexivity).
      rewrite Hd. apply (F n'). exact Hg.
  Qed.

  Lemma finish_core t n v a :
    T_core t -> allocs (t_loc t) = Some a ->
    T_core (finish t n v) /\ t_blocks (finish t n v) = t_blocks t /\
    (t_ctl (finish t n v) = CIdle \/ t_ctl (finish t n v) = CFailed).
  Proof.
    intros HT Ha. pose proof HT as [A B C D E F G].
    destruct (E a Ha) as [c [Hc Hr]]. subst a.
    assert (Hn : (1 <= Z.to_nat b)%nat) by lia.
    unfold finish. rewrite (alloc_pick_block _ c _ v B Ha Hn).
    destruct (find (fun i => negb (dmem i (data (t_loc t))))
                   (range c (Z.to_nat b))) as [cur|] eqn:Ef.
    2:{ simpl. split; [|split; [reflexivity|right; reflexivity]].
        apply (T_core_same t); try reflexivity. exact HT. }
    apply find_some in Ef. destruct Ef as [Hin Hfree].
    apply range_in in Hin. apply negb_true_iff in Hfree.
    split; [|split; [reflexivity|left; reflexivity]].
    set (l1 := set_data (t_loc t) (dset cur v (data (t_loc t)))).
    assert (Hd1 : data (set_ns l1 n (dset v cur (get_ns l1 n)))
                  = dset cur v (data (t_loc t))) by (destruct n; reflexivity).
    assert (Hold : forall i' v', dget i' (data (t_loc t)) = Some v' ->
                   dget i' (dset cur v (data (t_loc t))) = Some v').
    { intros i' v' Hg. rewrite dget_dset_other; [exact Hg|].
      intros ->. unfold dmem in Hfree. rewrite Hg in Hfree. discriminate. }
    constructor; simpl.
    - rewrite Hd1. apply dset_wf. exact A.
    - destruct n; exact B.
    - destruct n; exact C.
    - rewrite Hd1. intros i Hi. rewrite dmem_dset in Hi.
      apply orb_true_iff in Hi. destruct Hi as [Hi|Hi].
      + apply Z.eqb_eq in Hi. subst i. exists c. split; [exact Hc|].
        unfold in_block. lia.
      + apply D. exact Hi.
    - intros a' Ha'. apply E. destruct n; exact Ha'.
    - intros n' v' i' Hg. rewrite Hd1.
      destruct (ns_eq_dec n n') as [<-|Hne].
      + rewrite get_set_ns_same in Hg.
        destruct (Z.eq_dec v' v) as [->|Hv].
        * rewrite dget_dset_same in Hg. inversion Hg. subst.
          apply dget_dset_same.
        * rewrite dget_dset_other in Hg by exact Hv. apply Hold.
          apply (F n). destruct n; exact Hg.
      + rewrite get_set_ns_other in Hg by exact Hne. apply Hold.
        apply (F n'). destruct n'; exact Hg.
    - rewrite Hd1. intros i' v' [Hin'|Hin'].
      + inversion Hin'. subst. apply dget_dset_same.
      + apply Hold. apply G. exact Hin'.
  Qed.

  Lemma needs_false_allocs t :
    T_core t -> needs (t_loc t) = false -> exists a, allocs (t_loc t) = Some a.
  Proof.
    intros HT H. unfold needs in H. rewrite (tc_pre _ HT) in H. simpl in H.
    unfold alloc_needed in H. destruct (allocs (t_loc t)) as [a|]; [eauto|discriminate].
  Qed.

  Definition ctl_after_check (pa : list act) (n : ns) (v : Z) (c : ctl) : Prop :=
    c = CIdle \/ c = CFailed \/ c = CPre 1 n v pa \/ c = CPre 2 n v pa.

  Lemma check2_core pa t n v :
    T_core t ->
    T_core (check2 pa t n v) /\ t_blocks (check2 pa t n v) = t_blocks t /\
    ctl_after_check pa n v (t_ctl (check2 pa t n v)).
  Proof.
    intros HT. unfold check2. destruct (needs (t_loc t)) eqn:En.
    - split; [apply (T_core_same t); try reflexivity; exact HT|].
      split; [reflexivity|]. unfold ctl_after_check. simpl. tauto.
    - destruct (needs_false_allocs t HT En) as [a Ha].
      destruct (finish_core t n v a HT Ha) as [H1 [H2 H3]].
      split; [exact H1|]. split; [exact H2|]. unfold ctl_after_check. tauto.
  Qed.

  Lemma check1_core pa t n v :
    T_core t ->
    T_core (check1 pa t n v) /\ t_blocks (check1 pa t n v) = t_blocks t /\
    ctl_after_check pa n v (t_ctl (check1 pa t n v)).
  Proof.
    intros HT. unfold check1. destruct (needs (t_loc t)) eqn:En.
    - split; [apply (T_core_same t); try reflexivity; exact HT|].
      split; [reflexivity|]. unfold ctl_after_check. simpl. tauto.
    - apply check2_core. exact HT.
  Qed.

  Lemma begin_add_core pa t n v :
    T_core t ->
    T_core (begin_add pa t n v) /\ t_blocks (begin_add pa t n v) = t_blocks t /\
    ctl_after_check pa n v (t_ctl (begin_add pa t n v)).
  Proof.
    intros HT. unfold begin_add.
    destruct (dget v (get_ns (t_loc t) n)) as [i|] eqn:Eg.
    - split; [apply T_core_hand; [exact HT|apply (tc_rev _ HT n); exact Eg]|].
      split; [reflexivity|left; reflexivity].
    - destruct (scan v (data (t_loc t))) as [i|] eqn:Es.
      + pose proof (scan_dget _ _ _ (tc_wf _ HT) Es) as Hd.
        split; [|split; [reflexivity|left; reflexivity]].
        apply T_core_hand.
        * apply T_core_set_rev; assumption.
        * simpl. destruct n; exact Hd.
      + apply check1_core. exact HT.
  Qed.

  Lemma epilogue_core pa k t n v :
    T_core t ->
    T_core (epilogue pa k t n v) /\
    t_blocks (epilogue pa k t n v) = t_cur t :: t_blocks t /\
    ctl_after_check pa n v (t_ctl (epilogue pa k t n v)).
  Proof.
    intros HT. pose proof HT as [A B C D E F G].
    set (t1 := mkTask (t_prog t) (t_ctl t)
                      (set_allocs (t_loc t) (range (t_cur t) (Z.to_nat (bsz (t_loc t)))))
                      (t_cur t) (t_inc t) (t_handed t) (t_cur t :: t_blocks t)).
    assert (H1 : T_core t1).
    { constructor; simpl; try assumption.
      - intros i Hi. destruct (D i Hi) as [c [Hc Hi']]. exists c. simpl. tauto.
      - intros a Ha. inversion Ha. exists (t_cur t). rewrite C. simpl. tauto. }
    unfold epilogue. fold t1.
    destruct k as [|[|k]].
    - destruct (finish_core t1 n v _ H1 eq_refl) as [X [Y Z]].
      split; [exact X|]. split; [exact Y|]. unfold ctl_after_check. tauto.
    - apply (check2_core pa t1 n v H1).
    - destruct (finish_core t1 n v _ H1 eq_refl) as [X [Y Z]].
      split; [exact X|]. split; [exact Y|]. unfold ctl_after_check. tauto.
  Qed.
End Inv.

(* ------------------------------------------------------------ global invariant *)
Section Global.
  Variable b : Z.
  Hypothesis Hb : 1 <= b.

  Definition pending (t : task) : list Z :=
    match t_ctl t with
    | CPre _ _ _ [ARel] | CPre _ _ _ [] => [t_cur t]
    | _ => []
    end.

  (* blocks owned: returned by preallocate, or about to be (pointer already
     advanced past it) *)
  Definition claimed (t : task) : list Z := pending t ++ t_blocks t.

  Fixpoint sepl (l : list Z) : Prop :=
    match l with
    | [] => True
    | c :: r => (forall c', In c' r -> c + b <= c' \/ c' + b <= c) /\ sepl r
    end.

  Definition ctl_ok (ptr : Z) (t : task) : Prop :=
    match t_ctl t with
    | CPre _ _ _ r =>
        r = canon_pre \/ r = [ARdCur; ARdInc; AWrPtr; ARel] \/
        (r = [ARdInc; AWrPtr; ARel] /\ t_cur t = ptr) \/
        (r = [AWrPtr; ARel] /\ t_cur t = ptr /\ t_inc t = ptr) \/
        r = [ARel] \/ r = []
    | CSync r =>
        forallb not_ptr r = true /\
        forall i v, In (AWrData i v) r -> dget i (data (t_loc t)) = Some v
    | _ => True
    end.

  Definition sh_ok (sh : shared) (t : task) : Prop :=
    match t_ctl t with
    | CSync r => forall i v, dget i (data (t_loc t)) = Some v ->
                             dget i (sh_data sh) = Some v \/ In (AWrData i v) r
    | CDone => forall i v, dget i (data (t_loc t)) = Some v ->
                           dget i (sh_data sh) = Some v
    | _ => True
    end.

  Record task_ok (ptr : Z) (lock : option nat) (sh : shared) (p : nat)
         (t : task) : Prop := mkTaskOk {
    ok_core : T_core b t;
    ok_lock : wlb (holds lock p) (ctl_acts t) = Some false;
    ok_ctl : ctl_ok ptr t;
    ok_ptr : forall c, In c (claimed t) -> c + b <= ptr;
    ok_sep : sepl (claimed t);
    ok_sh : sh_ok sh t }.

  Record Inv (g : gstate) : Prop := mkInv {
    inv_task : forall p t, nth_error (g_tasks g) p = Some t ->
                           task_ok (g_ptr g) (g_lock g) (g_sh g) p t;
    inv_cross : forall p q t u c c',
        p <> q -> nth_error (g_tasks g) p = Some t ->
        nth_error (g_tasks g) q = Some u ->
        In c (claimed t) -> In c' (claimed u) -> c + b <= c' \/ c' + b <= c;
    inv_holder : forall p, g_lock g = Some p ->
                           exists t, nth_error (g_tasks g) p = Some t }.

  Lemma blocks_claimed t c : In c (t_blocks t) -> In c (claimed t).
  Proof. unfold claimed. rewrite in_app_iff. tauto. Qed.

  Lemma in_block_sep c c' i i' :
    in_block b c i -> in_block b c' i' -> (c + b <= c' \/ c' + b <= c) -> i <> i'.
  Proof. unfold in_block. lia. Qed.

  Lemma frame g p t t' ptr' lock' sh' :
    Inv g -> nth_error (g_tasks g) p = Some t ->
    g_ptr g <= ptr' ->
    (lock' = g_lock g \/ (g_lock g = None /\ lock' = Some p) \/
     (g_lock g = Some p /\ lock' = None)) ->
    (ptr' <> g_ptr g -> g_lock g = Some p) ->
    (sh_data sh' = sh_data (g_sh g) \/
     exists i v c, sh_data sh' = dset i v (sh_data (g_sh g)) /\
                   In c (t_blocks t) /\ in_block b c i) ->
    (forall c, In c (claimed t') -> In c (claimed t) \/ g_ptr g <= c) ->
    task_ok ptr' lock' sh' p t' ->
    Inv (mkG (upd (g_tasks g) p t') ptr' lock' sh').
  Proof.
    intros HI Hp Hmono Hlock Hptr Hsh Hcl Hown.
    destruct HI as [It Ic Ih].
    assert (Hholds : forall q, q <> p -> holds lock' q = holds (g_lock g) q).
    { intros q Hq. destruct Hlock as [->|[[H1 ->]|[H1 ->]]]; [reflexivity| |].
      - rewrite H1. simpl. apply Nat.eqb_neq. congruence.
      - rewrite H1. simpl. symmetry. apply Nat.eqb_neq. congruence. }
    constructor; simpl.
    - intros q u Hq. destruct (Nat.eq_dec q p) as [->|Hne].
      + rewrite (nth_error_upd_same _ _ _ _ Hp) in Hq. inversion Hq. subst u.
        exact Hown.
      + rewrite nth_error_upd_other in Hq by exact Hne.
        destruct (It q u Hq) as [Oc Ol Ot Op Os Oh].
        constructor.
        * exact Oc.
        * rewrite Hholds by exact Hne. exact Ol.
        * destruct (Z.eq_dec ptr' (g_ptr g)) as [->|Hch]; [exact Ot|].
          specialize (Hptr Hch).
          assert (Hf : holds (g_lock g) q = false).
          { rewrite Hptr. simpl. apply Nat.eqb_neq. congruence. }
          rewrite Hf in Ol. unfold ctl_ok in *. unfold ctl_acts in Ol.
          destruct (t_ctl u) as [|k n v r|r| |]; try exact Ot.
          destruct Ot as [H|[H|[[H _]|[[H _]|[H|H]]]]]; subst r;
            try discriminate; tauto.
        * intros c Hc. specialize (Op c Hc). lia.
        * exact Os.
        * destruct Hsh as [Hs|[i [v [c [Hs [Hc Hi]]]]]].
          { unfold sh_ok in *. rewrite Hs. exact Oh. }
          assert (Hother : forall i' v', dget i' (data (t_loc u)) = Some v' ->
                           dget i' (sh_data sh') = dget i' (sh_data (g_sh g))).
          { intros i' v' Hg. rewrite Hs. apply dget_dset_other.
            assert (Hm : dmem i' (data (t_loc u)) = true)
              by (unfold dmem; rewrite Hg; reflexivity).
            destruct (tc_keys _ _ Oc i' Hm) as [c' [Hc' Hi']].
            apply (in_block_sep c' c i' i Hi' Hi).
            apply (Ic q p u t c' c Hne Hq Hp);
              apply blocks_claimed; assumption. }
          unfold sh_ok in *. destruct (t_ctl u); try exact Oh.
          { intros i' v' Hg. rewrite (Hother i' v' Hg). apply Oh. exact Hg. }
          { intros i' v' Hg. rewrite (Hother i' v' Hg). apply Oh. exact Hg. }
    - intros p1 q1 t1 u1 c c' Hne H1 H2 Hc Hc'.
      destruct (Nat.eq_dec p1 p) as [->|Hp1].
      + rewrite (nth_error_upd_same _ _ _ _ Hp) in H1. inversion H1. subst t1.
        rewrite nth_error_upd_other in H2 by congruence.
        destruct (Hcl c Hc) as [Hold|Hnew].
        * apply (Ic p q1 t u1 c c'); try assumption.
        * pose proof (ok_ptr _ _ _ _ _ (It q1 u1 H2) c' Hc'). lia.
      + rewrite nth_error_upd_other in H1 by exact Hp1.
        destruct (Nat.eq_dec q1 p) as [->|Hq1].
        * rewrite (nth_error_upd_same _ _ _ _ Hp) in H2. inversion H2. subst u1.
          destruct (Hcl c' Hc') as [Hold|Hnew].
          { apply (Ic p1 p t1 t c c'); try assumption. }
          { pose proof (ok_ptr _ _ _ _ _ (It p1 t1 H1) c Hc). lia. }
        * rewrite nth_error_upd_other in H2 by exact Hq1.
          apply (Ic p1 q1 t1 u1 c c'); assumption.
    - intros x Hx.
      assert (Hex : exists t0, nth_error (g_tasks g) x = Some t0).
      { destruct Hlock as [->|[[H1 H2]|[H1 H2]]].
        - apply Ih. exact Hx.
        - rewrite H2 in Hx. inversion Hx. subst. eauto.
        - rewrite H2 in Hx. discriminate. }
      destruct Hex as [t0 Ht0]. destruct (Nat.eq_dec x p) as [->|Hne].
      + exists t'. apply (nth_error_upd_same _ _ _ _ Hp).
      + exists t0. rewrite nth_error_upd_other by exact Hne. exact Ht0.
  Qed.
End Global.

Lemma in_dget_wf i v d : dict_wf d -> In (i, v) d -> dget i d = Some v.
Proof.
  unfold dict_wf. induction d as [|[k w] r IH]; simpl; intros Hw H; [tauto|].
  inversion Hw as [|? ? Hk Hr]; subst. destruct H as [H|H].
  - inversion H. subst. rewrite Z.eqb_refl. reflexivity.
  - destruct (i =? k) eqn:E.
    + apply Z.eqb_eq in E. subst. exfalso. apply Hk.
      apply in_map_iff. exists (k, v). tauto.
    + apply IH; assumption.
Qed.

Lemma dget_in i v d : dget i d = Some v -> In (i, v) d.
Proof.
  induction d as [|[k w] r IH]; simpl; intros H; [discriminate|].
  destruct (i =? k) eqn:E.
  - apply Z.eqb_eq in E. inversion H. subst. tauto.
  - right. apply IH. exact H.
Qed.

Lemma wlb_access_inv a r h :
  is_access_act a = true -> wlb h (a :: r) = Some false ->
  h = true /\ wlb true r = Some false.
Proof.
  intros Ha H. destruct h; [split; [reflexivity|]|].
  - destruct a; simpl in *; try discriminate; exact H.
  - destruct a; simpl in *; discriminate.
Qed.

Lemma holds_true lock p : holds lock p = true -> lock = Some p.
Proof.
  unfold holds. destruct lock as [q|]; [|discriminate]. intros H.
  apply Nat.eqb_eq in H. congruence.
Qed.

Lemma holds_self p : holds (Some p) p = true.
Proof. simpl. apply Nat.eqb_refl. Qed.

Section Steps.
  Variable b : Z.
  Hypothesis Hb : 1 <= b.
  Variable sa : store -> list act.
  Hypothesis Hsa : forall l, sa l = canon_sa l.

  Lemma after_check_facts ptr sh n v t' :
    ctl_after_check canon_pre n v (t_ctl t') ->
    pending t' = [] /\ wlb false (ctl_acts t') = Some false /\
    ctl_ok ptr t' /\ sh_ok sh t'.
  Proof.
    unfold ctl_after_check, pending, ctl_acts, ctl_ok, sh_ok.
    intros [H|[H|[H|H]]]; rewrite H; simpl; tauto.
  Qed.

  (* a step of p that touches nothing shared and ends one of the checks *)
  Lemma local_step g p t t' n v :
    Inv b g -> nth_error (g_tasks g) p = Some t -> ctl_acts t = [] ->
    T_core b t' -> claimed t' = claimed t ->
    ctl_after_check canon_pre n v (t_ctl t') ->
    Inv b (set_task g p t').
  Proof.
    intros HI Hp Hacts Hcore Hcl Hctl. unfold set_task.
    pose proof (inv_task _ _ HI p t Hp) as [Oc Ol Ot Op Os Oh].
    rewrite Hacts in Ol. simpl in Ol. inversion Ol as [Hh].
    destruct (after_check_facts (g_ptr g) (g_sh g) n v t' Hctl) as [F1 [F2 [F3 F4]]].
    apply (frame b g p t t'); try assumption; try lia; try tauto.
    - intros c Hc. rewrite Hcl in Hc. tauto.
    - constructor; try assumption.
      + rewrite Hh. exact F2.
      + rewrite Hcl. exact Op.
      + rewrite Hcl. exact Os.
  Qed.
End Steps.

Section Preserve.
  Variable b : Z.
  Hypothesis Hb : 1 <= b.
  Variable sa : store -> list act.
  Hypothesis Hsa : forall l, sa l = canon_sa l.

  Lemma sh_data_sh_set sh n d : sh_data (sh_set sh n d) = sh_data sh.
  Proof. destruct n; reflexivity. Qed.

  Ltac name_new_task t' :=
    match goal with |- Inv _ (mkG (upd _ _ ?x) _ _ _) => set (t' := x) end.

  (* shared step inside preallocate *)
  Lemma pre_step g p t k n v a rest g' :
    Inv b g -> nth_error (g_tasks g) p = Some t ->
    t_ctl t = CPre k n v (a :: rest) ->
    step canon_pre sa g p = Some g' -> Inv b g'.
  Proof.
    intros HI Hp Hc Hstep.
    pose proof (inv_task _ _ HI p t Hp) as [Oc Ol Ot Op Os Oh].
    unfold step in Hstep. rewrite Hp, Hc in Hstep.
    unfold ctl_ok in Ot. rewrite Hc in Ot. unfold ctl_acts in Ol. rewrite Hc in Ol.
    assert (Hbz : bsz (t_loc t) = b) by (apply (tc_bsz _ _ Oc)).
    destruct Ot as [H|[H|[[H H1]|[[H [H1 H2]]|[H|H]]]]]; inversion H; subst a rest;
      clear H; simpl in Hstep.
    - (* AAcq *)
      destruct (g_lock g) as [q|] eqn:El; [discriminate|]. inversion Hstep. subst g'.
      clear Hstep. simpl. name_new_task t'.
      assert (Hcl : claimed t' = claimed t)
        by (unfold claimed, pending; simpl; rewrite Hc; reflexivity).
      apply (frame b g p t); try assumption; try lia; try tauto.
      + intros c Hc1. rewrite Hcl in Hc1. tauto.
      + constructor; try (rewrite Hcl; assumption).
        * apply (T_core_same b t); try reflexivity. exact Oc.
        * unfold ctl_acts. simpl. rewrite Nat.eqb_refl. reflexivity.
        * unfold ctl_ok. simpl. tauto.
        * unfold sh_ok. simpl. exact I.
    - (* ARdCur *)
      inversion Hstep. subst g'. clear Hstep. simpl. name_new_task t'.
      destruct (wlb_access_inv ARdCur _ _ eq_refl Ol) as [Hh Hw].
      assert (Hcl : claimed t' = claimed t)
        by (unfold claimed, pending; simpl; rewrite Hc; reflexivity).
      apply (frame b g p t); try assumption; try lia; try tauto.
      + intros c Hc1. rewrite Hcl in Hc1. tauto.
      + constructor; try (rewrite Hcl; assumption).
        * apply (T_core_same b t); try reflexivity. exact Oc.
        * unfold ctl_acts. simpl. rewrite Hh. reflexivity.
        * unfold ctl_ok. simpl. tauto.
        * unfold sh_ok. simpl. exact I.
    - (* ARdInc *)
      inversion Hstep. subst g'. clear Hstep. simpl. name_new_task t'.
      destruct (wlb_access_inv ARdInc _ _ eq_refl Ol) as [Hh Hw].
      assert (Hcl : claimed t' = claimed t)
        by (unfold claimed, pending; simpl; rewrite Hc; reflexivity).
      apply (frame b g p t); try assumption; try lia; try tauto.
      + intros c Hc1. rewrite Hcl in Hc1. tauto.
      + constructor; try (rewrite Hcl; assumption).
        * apply (T_core_same b t); try reflexivity. exact Oc.
        * unfold ctl_acts. simpl. rewrite Hh. reflexivity.
        * unfold ctl_ok. simpl. tauto.
        * unfold sh_ok. simpl. exact I.
    - (* AWrPtr *)
      inversion Hstep. subst g'. clear Hstep. simpl. name_new_task t'.
      destruct (wlb_access_inv AWrPtr _ _ eq_refl Ol) as [Hh Hw].
      apply holds_true in Hh.
      assert (Hcl : claimed t' = t_cur t :: claimed t)
        by (unfold claimed, pending; simpl; rewrite Hc; reflexivity).
      apply (frame b g p t); try assumption; try lia; try tauto.
      + intros c Hc1. rewrite Hcl in Hc1. destruct Hc1 as [Hc1|Hc1]; [right; lia|tauto].
      + constructor.
        * apply (T_core_same b t); try reflexivity. exact Oc.
        * unfold ctl_acts. simpl. rewrite Hh. simpl. rewrite Nat.eqb_refl. reflexivity.
        * unfold ctl_ok. simpl. tauto.
        * rewrite Hcl. intros c [Hc1|Hc1]; [lia|].
          specialize (Op c Hc1). lia.
        * rewrite Hcl. split; [|exact Os].
          intros c' Hc'. specialize (Op c' Hc'). right. lia.
        * unfold sh_ok. simpl. exact I.
    - (* ARel *)
      inversion Hstep. subst g'. clear Hstep. simpl. name_new_task t'.
      assert (Hh : holds (g_lock g) p = true).
      { destruct (holds (g_lock g) p); [reflexivity|simpl in Ol; discriminate]. }
      apply holds_true in Hh.
      assert (Hcl : claimed t' = claimed t)
        by (unfold claimed, pending; simpl; rewrite Hc; reflexivity).
      apply (frame b g p t); try assumption; try lia; try tauto.
      + intros c Hc1. rewrite Hcl in Hc1. tauto.
      + constructor; try (rewrite Hcl; assumption).
        * apply (T_core_same b t); try reflexivity. exact Oc.
        * reflexivity.
        * unfold ctl_ok. simpl. tauto.
        * unfold sh_ok. simpl. exact I.
  Qed.

  (* shared step inside sync *)
  Lemma sync_step g p t a rest g' :
    Inv b g -> nth_error (g_tasks g) p = Some t ->
    t_ctl t = CSync (a :: rest) ->
    step canon_pre sa g p = Some g' -> Inv b g'.
  Proof.
    intros HI Hp Hc Hstep.
    pose proof (inv_task _ _ HI p t Hp) as [Oc Ol Ot Op Os Oh].
    unfold step in Hstep. rewrite Hp, Hc in Hstep.
    unfold ctl_ok in Ot. rewrite Hc in Ot. unfold ctl_acts in Ol. rewrite Hc in Ol.
    unfold sh_ok in Oh. rewrite Hc in Oh.
    destruct Ot as [Hnp Hwr]. simpl in Hnp. apply andb_true_iff in Hnp.
    destruct Hnp as [Hnpa Hnp].
    assert (Hwr' : forall i v, In (AWrData i v) rest ->
                   dget i (data (t_loc t)) = Some v)
      by (intros i v Hin; apply Hwr; right; exact Hin).
    destruct a; simpl in Hnpa; try discriminate; simpl in Hstep.
    - (* AAcq *)
      destruct (g_lock g) as [q|] eqn:El; [discriminate|]. inversion Hstep. subst g'.
      clear Hstep. simpl. name_new_task t'.
      assert (Hcl : claimed t' = claimed t)
        by (unfold claimed, pending; simpl; rewrite Hc; reflexivity).
      simpl in Ol.
      apply (frame b g p t); try assumption; try lia; try tauto.
      + intros c Hc1. rewrite Hcl in Hc1. tauto.
      + constructor; try (rewrite Hcl; assumption).
        * apply (T_core_same b t); try reflexivity. exact Oc.
        * unfold ctl_acts. simpl. rewrite Nat.eqb_refl. exact Ol.
        * unfold ctl_ok. simpl. tauto.
        * unfold sh_ok. simpl. intros i v Hg.
          destruct (Oh i v Hg) as [H|[H|H]]; [tauto|discriminate|tauto].
    - (* ARel *)
      inversion Hstep. subst g'. clear Hstep. simpl. name_new_task t'.
      assert (Hh : holds (g_lock g) p = true).
      { destruct (holds (g_lock g) p); [reflexivity|simpl in Ol; discriminate]. }
      rewrite Hh in Ol. simpl in Ol. apply holds_true in Hh.
      assert (Hcl : claimed t' = claimed t)
        by (unfold claimed, pending; simpl; rewrite Hc; reflexivity).
      apply (frame b g p t); try assumption; try lia; try tauto.
      + intros c Hc1. rewrite Hcl in Hc1. tauto.
      + constructor; try (rewrite Hcl; assumption).
        * apply (T_core_same b t); try reflexivity. exact Oc.
        * unfold ctl_acts. simpl. exact Ol.
        * unfold ctl_ok. simpl. tauto.
        * unfold sh_ok. simpl. intros i v Hg.
          destruct (Oh i v Hg) as [H|[H|H]]; [tauto|discriminate|tauto].
    - (* AWrData *)
      inversion Hstep. subst g'. clear Hstep. simpl. name_new_task t'.
      destruct (wlb_access_inv (AWrData i v) _ _ eq_refl Ol) as [Hh Hw].
      assert (Hcl : claimed t' = claimed t)
        by (unfold claimed, pending; simpl; rewrite Hc; reflexivity).
      assert (Hiv : dget i (data (t_loc t)) = Some v) by (apply Hwr; left; reflexivity).
      assert (Hm : dmem i (data (t_loc t)) = true)
        by (unfold dmem; rewrite Hiv; reflexivity).
      destruct (tc_keys _ _ Oc i Hm) as [c [Hcb Hci]].
      apply (frame b g p t); try assumption; try lia; try tauto.
      + right. exists i, v, c. simpl. tauto.
      + intros c0 Hc1. rewrite Hcl in Hc1. tauto.
      + constructor; try (rewrite Hcl; assumption).
        * apply (T_core_same b t); try reflexivity. exact Oc.
        * unfold ctl_acts. simpl. rewrite Hh. exact Hw.
        * unfold ctl_ok. simpl. tauto.
        * unfold sh_ok. simpl. intros i' v' Hg.
          destruct (Z.eq_dec i' i) as [->|Hne].
          { left. rewrite dget_dset_same. congruence. }
          rewrite dget_dset_other by exact Hne.
          destruct (Oh i' v' Hg) as [H|[H|H]]; [tauto| |tauto].
          inversion H. congruence.
    - (* AMergeChk *)
      inversion Hstep. subst g'. clear Hstep. simpl. name_new_task t'.
      destruct (wlb_access_inv (AMergeChk n v i) _ _ eq_refl Ol) as [Hh Hw].
      assert (Hcl : claimed t' = claimed t)
        by (unfold claimed, pending; simpl; rewrite Hc; reflexivity).
      apply (frame b g p t); try assumption; try lia; try tauto.
      + intros c Hc1. rewrite Hcl in Hc1. tauto.
      + constructor; try (rewrite Hcl; assumption).
        * apply (T_core_same b t); try reflexivity. exact Oc.
        * unfold ctl_acts. simpl. rewrite Hh.
          destruct (dmem v (sh_get (g_sh g) n)); exact Hw.
        * unfold ctl_ok. simpl. split.
          { destruct (dmem v (sh_get (g_sh g) n)); simpl; exact Hnp. }
          intros i' v' [H|H]; [destruct (dmem v (sh_get (g_sh g) n)); discriminate|].
          apply Hwr'. exact H.
        * unfold sh_ok. simpl. intros i' v' Hg.
          destruct (Oh i' v' Hg) as [H|[H|H]]; [tauto|discriminate|tauto].
    - (* ARevGet *)
      inversion Hstep. subst g'. clear Hstep. simpl. name_new_task t'.
      destruct (wlb_access_inv (ARevGet n v) _ _ eq_refl Ol) as [Hh Hw].
      assert (Hcl : claimed t' = claimed t)
        by (unfold claimed, pending; simpl; rewrite Hc; reflexivity).
      apply (frame b g p t); try assumption; try lia; try tauto.
      + intros c Hc1. rewrite Hcl in Hc1. tauto.
      + constructor; try (rewrite Hcl; assumption).
        * apply (T_core_same b t); try reflexivity. exact Oc.
        * unfold ctl_acts. simpl. rewrite Hh. exact Hw.
        * unfold ctl_ok. simpl. tauto.
        * unfold sh_ok. simpl. intros i' v' Hg.
          destruct (Oh i' v' Hg) as [H|[H|H]]; [tauto|discriminate|tauto].
    - (* ARevSet *)
      inversion Hstep. subst g'. clear Hstep. simpl. name_new_task t'.
      destruct (wlb_access_inv (ARevSet n v i) _ _ eq_refl Ol) as [Hh Hw].
      assert (Hcl : claimed t' = claimed t)
        by (unfold claimed, pending; simpl; rewrite Hc; reflexivity).
      apply (frame b g p t); try assumption; try lia; try tauto.
      + left. apply sh_data_sh_set.
      + intros c Hc1. rewrite Hcl in Hc1. tauto.
      + constructor; try (rewrite Hcl; assumption).
        * apply (T_core_same b t); try reflexivity. exact Oc.
        * unfold ctl_acts. simpl. rewrite Hh. exact Hw.
        * unfold ctl_ok. simpl. tauto.
        * unfold sh_ok. simpl. rewrite sh_data_sh_set. intros i' v' Hg.
          destruct (Oh i' v' Hg) as [H|[H|H]]; [tauto|discriminate|tauto].
  Qed.

  Theorem step_preserves g p g' :
    Inv b g -> step canon_pre sa g p = Some g' -> Inv b g'.
  Proof.
    intros HI Hstep. pose proof Hstep as Hstep0. unfold step in Hstep.
    destruct (nth_error (g_tasks g) p) as [t|] eqn:Hp; [|discriminate].
    pose proof (inv_task _ _ HI p t Hp) as [Oc Ol Ot Op Os Oh].
    destruct (t_ctl t) as [|k n v r|r| |] eqn:Hc; try discriminate.
    - (* CIdle *)
      destruct (t_prog t) as [|[n v] r] eqn:Epr.
      + (* start sync *)
        inversion Hstep. subst g'. clear Hstep. unfold set_task. name_new_task t'.
        unfold ctl_acts in Ol. rewrite Hc in Ol. simpl in Ol. inversion Ol as [Hh].
        assert (Hcl : claimed t' = claimed t)
          by (unfold claimed, pending; simpl; rewrite Hc; reflexivity).
        apply (frame b g p t); try assumption; try lia; try tauto.
        * intros c Hc1. rewrite Hcl in Hc1. tauto.
        * constructor; try (rewrite Hcl; assumption).
          { apply (T_core_same b t); try reflexivity. exact Oc. }
          { unfold ctl_acts. simpl. rewrite Hh, Hsa. apply wlb_canon_sa. }
          { unfold ctl_ok. simpl. rewrite Hsa. split; [apply not_ptr_canon_sa|].
            intros i v Hin. apply in_canon_sa_wr in Hin.
            apply in_dget_wf; [apply (tc_wf _ _ Oc)|exact Hin]. }
          { unfold sh_ok. simpl. intros i v Hg. right. rewrite Hsa.
            apply in_canon_sa_wr. apply dget_in. exact Hg. }
      + (* next add *)
        inversion Hstep. subst g'. clear Hstep.
        assert (Hc0 : T_core b (set_prog t r))
          by (apply (T_core_same b t); try reflexivity; exact Oc).
        destruct (begin_add_core b Hb canon_pre (set_prog t r) n v Hc0)
          as [B1 [B2 B3]].
        apply (local_step b g p t _ n v); try assumption.
        * unfold ctl_acts. rewrite Hc. reflexivity.
        * destruct (after_check_facts 0 (g_sh g) n v _ B3) as [F1 _].
          unfold claimed. rewrite F1, B2. unfold pending. rewrite Hc. reflexivity.
    - (* CPre *)
      destruct r as [|a rest].
      + inversion Hstep. subst g'. clear Hstep.
        destruct (epilogue_core b Hb canon_pre k t n v Oc) as [B1 [B2 B3]].
        apply (local_step b g p t _ n v); try assumption.
        * unfold ctl_acts. rewrite Hc. reflexivity.
        * destruct (after_check_facts 0 (g_sh g) n v _ B3) as [F1 _].
          unfold claimed. rewrite F1, B2. unfold pending. rewrite Hc. reflexivity.
      + apply (pre_step g p t k n v a rest g' HI Hp Hc Hstep0).
    - (* CSync *)
      destruct r as [|a rest].
      + inversion Hstep. subst g'. clear Hstep. unfold set_task. name_new_task t'.
        unfold ctl_acts in Ol. rewrite Hc in Ol. simpl in Ol. inversion Ol as [Hh].
        assert (Hcl : claimed t' = claimed t)
          by (unfold claimed, pending; simpl; rewrite Hc; reflexivity).
        apply (frame b g p t); try assumption; try lia; try tauto.
        * intros c Hc1. rewrite Hcl in Hc1. tauto.
        * constructor; try (rewrite Hcl; assumption).
          { apply (T_core_same b t); try reflexivity. exact Oc. }
          { unfold ctl_acts. simpl. rewrite Hh. reflexivity. }
          { unfold ctl_ok. simpl. exact I. }
          { unfold sh_ok in *. simpl. rewrite Hc in Oh. intros i v Hg.
            destruct (Oh i v Hg) as [H|[]]. exact H. }
      + apply (sync_step g p t a rest g' HI Hp Hc Hstep0).
  Qed.

End Preserve.

(* ------------------------------------------------------------ every schedule *)
Section Run.
  Variable b : Z.
  Hypothesis Hb : 1 <= b.
  Variable sa : store -> list act.
  Hypothesis Hsa : forall l, sa l = canon_sa l.

  Lemma init_task_core prog : T_core b (init_task b prog).
  Proof.
    constructor; simpl; try reflexivity.
    - constructor.
    - intros i H. discriminate.
    - intros a H. discriminate.
    - intros n v i H. destruct n; discriminate.
    - intros i v [].
  Qed.

  Lemma inv_init progs : Inv b (init b progs).
  Proof.
    constructor; simpl.
    - intros p t Hp. rewrite nth_error_map in Hp.
      destruct (nth_error progs p) as [prog|]; [|discriminate].
      inversion Hp. subst t. constructor.
      + apply init_task_core.
      + reflexivity.
      + exact I.
      + intros c [].
      + exact I.
      + exact I.
    - intros p q t u c c' _ Hp _ Hc. rewrite nth_error_map in Hp.
      destruct (nth_error progs p) as [prog|]; [|discriminate].
      inversion Hp. subst t. destruct Hc.
    - intros p H. discriminate.
  Qed.

  Lemma run_inv sched : forall g, Inv b g -> Inv b (run canon_pre sa g sched).
  Proof.
    induction sched as [|p r IH]; intros g HI; [exact HI|].
    simpl. apply IH. unfold step_or_stutter.
    destruct (step canon_pre sa g p) as [g'|] eqn:E; [|exact HI].
    apply (step_preserves b Hb sa Hsa g p g' HI E).
  Qed.

  Lemma sepl_app_r l1 l2 : sepl b (l1 ++ l2) -> sepl b l2.
  Proof. induction l1 as [|a r IH]; simpl; [tauto|]. intros [_ H]. apply IH. exact H. Qed.

  (* 1: no two blocks ever overlap, neither across tasks nor inside one *)
  Lemma inv_blocks_disjoint g :
    Inv b g ->
    (forall p q t u c c', p <> q -> nth_error (g_tasks g) p = Some t ->
        nth_error (g_tasks g) q = Some u -> In c (t_blocks t) ->
        In c' (t_blocks u) -> c + b <= c' \/ c' + b <= c) /\
    (forall p t, nth_error (g_tasks g) p = Some t -> sepl b (t_blocks t)) /\
    (forall p t i v, nth_error (g_tasks g) p = Some t -> In (i, v) (t_handed t) ->
        exists c, In c (t_blocks t) /\ c <= i < c + b).
  Proof.
    intros HI. split; [|split].
    - intros p q t u c c' Hne Hp Hq Hc Hc'.
      apply (inv_cross _ _ HI p q t u c c' Hne Hp Hq); apply blocks_claimed; assumption.
    - intros p t Hp. pose proof (ok_sep _ _ _ _ _ _ (inv_task _ _ HI p t Hp)) as H.
      apply (sepl_app_r _ _ H).
    - intros p t i v Hp Hin.
      pose proof (ok_core _ _ _ _ _ _ (inv_task _ _ HI p t Hp)) as Oc.
      pose proof (tc_handed _ _ Oc i v Hin) as Hg.
      apply (tc_keys _ _ Oc). unfold dmem. rewrite Hg. reflexivity.
  Qed.

  (* 2: once a task has synchronised, every index it handed out resolves in
     the shared store to the value it stored - now and in every later state *)
  Lemma inv_synced g p t i v :
    Inv b g -> nth_error (g_tasks g) p = Some t -> t_ctl t = CDone ->
    In (i, v) (t_handed t) -> sh_lookup (g_sh g) i = Some v.
  Proof.
    intros HI Hp Hc Hin. pose proof (inv_task _ _ HI p t Hp) as [Oc _ _ _ _ Oh].
    unfold sh_ok in Oh. rewrite Hc in Oh. apply Oh. apply (tc_handed _ _ Oc). exact Hin.
  Qed.

  Lemma forallb_false_nth {A} (f : A -> bool) l :
    forallb f l = false -> exists p x, nth_error l p = Some x /\ f x = false.
  Proof.
    induction l as [|a r IH]; simpl; intros H; [discriminate|].
    destruct (f a) eqn:E.
    - destruct (IH H) as [p [x [H1 H2]]]. exists (S p), x. tauto.
    - exists O, a. tauto.
  Qed.

  Lemma exec_not_acq p a t g : a <> AAcq -> exec p a t g <> None.
  Proof. destruct a; simpl; intros H; try discriminate. contradiction. Qed.

  (* 3: no reachable state is deadlocked *)
  Lemma inv_no_deadlock g :
    Inv b g -> all_finished g = false -> exists p, enabled canon_pre sa g p = true.
  Proof.
    intros HI Hf. unfold all_finished in Hf.
    destruct (forallb_false_nth _ _ Hf) as [p [t [Hp Hnf]]].
    destruct (g_lock g) as [q|] eqn:El.
    - (* the holder can move *)
      destruct (inv_holder _ _ HI q El) as [u Hq]. exists q.
      pose proof (ok_lock _ _ _ _ _ _ (inv_task _ _ HI q u Hq)) as Ol.
      rewrite El, holds_self in Ol. unfold enabled, step. rewrite Hq.
      unfold ctl_acts in Ol.
      destruct (t_ctl u) as [|k n v r|r| |]; simpl in Ol; try discriminate.
      + destruct r as [|a r]; [reflexivity|].
        assert (Ha : a <> AAcq) by (intros ->; simpl in Ol; discriminate).
        destruct (exec q a u g) eqn:E; [reflexivity|].
        exfalso. exact (exec_not_acq q a u g Ha E).
      + destruct r as [|a r]; [reflexivity|].
        assert (Ha : a <> AAcq) by (intros ->; simpl in Ol; discriminate).
        destruct (exec q a u g) eqn:E; [reflexivity|].
        exfalso. exact (exec_not_acq q a u g Ha E).
    - (* lock free: any unfinished task can move *)
      exists p. unfold enabled, step. rewrite Hp. unfold finished in Hnf.
      destruct (t_ctl t) as [|k n v r|r| |]; try discriminate.
      + destruct (t_prog t) as [|[n v] r]; reflexivity.
      + destruct r as [|a r]; [reflexivity|].
        destruct a; simpl; rewrite ?El; reflexivity.
      + destruct r as [|a r]; [reflexivity|].
        destruct a; simpl; rewrite ?El; reflexivity.
  Qed.
End Run.

(* ------------------------------------------------------------ parametric in the skeletons *)
Theorem par_safe skp sks :
  well_locked_pre skp = true -> well_locked_sync sks = true ->
  forall b progs sched, 1 <= b ->
  let g := run (expand_pre 0 skp) (expand_sync sks) (init b progs) sched in
  (* granted blocks pairwise disjoint; handed indices lie in own blocks *)
  ((forall p q t u c c', p <> q -> nth_error (g_tasks g) p = Some t ->
       nth_error (g_tasks g) q = Some u -> In c (t_blocks t) ->
       In c' (t_blocks u) -> c + b <= c' \/ c' + b <= c) /\
   (forall p t, nth_error (g_tasks g) p = Some t -> sepl b (t_blocks t)) /\
   (forall p t i v, nth_error (g_tasks g) p = Some t -> In (i, v) (t_handed t) ->
       exists c, In c (t_blocks t) /\ c <= i < c + b)) /\
  (* after its sync, every (idx, v) a task handed out satisfies shared[idx] = v *)
  (forall p t i v, nth_error (g_tasks g) p = Some t -> t_ctl t = CDone ->
       In (i, v) (t_handed t) -> sh_lookup (g_sh g) i = Some v) /\
  (* no deadlock: some unfinished task can always step *)
  (all_finished g = false ->
   exists p, enabled (expand_pre 0 skp) (expand_sync sks) g p = true).
Proof.
  intros Hp Hs b progs sched Hb.
  rewrite (well_locked_pre_canon skp Hp).
  set (sa := expand_sync sks).
  assert (Hsa : forall l, sa l = canon_sa l)
    by (intros l; apply well_locked_sync_canon; exact Hs).
  intros g.
  assert (HI : Inv b g) by (apply (run_inv b Hb sa Hsa); apply inv_init).
  split; [apply (inv_blocks_disjoint b g HI)|]. split.
  - intros p t i v H1 H2 H3. apply (inv_synced b g p t i v HI H1 H2 H3).
  - apply (inv_no_deadlock b sa g HI).
Qed.
