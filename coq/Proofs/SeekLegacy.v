(* The loops BEFORE commit 19d446e (the legacy_ definitions of Model/Seek.v): the exact boundary
   at which they gave up, kept as a regression corpus.  A first line (no line
   feed before it) or an unterminated last line only got (A-1)*H bytes. *)
From Coq Require Import ZArith List Bool Lia.
From SK Require Import Model.Base Model.Seek Spec.Lines Proofs.Seek.
Import ListNotations.
Open Scope Z_scope.

Lemma legacy_ftl_unfold H c a start cur :
  legacy_find_token_loop H c (S a) start cur =
  let chunk := read c (start + cur) H in
  if lenZ chunk =? 0 then ReachedEof (lenZ c)
  else match find_lf chunk with
       | Some i => Found (start + cur + i)
       | None => legacy_find_token_loop H c a start (cur + lenZ chunk)
       end.
Proof. simpl. destruct (read c (start + cur) H); reflexivity. Qed.

Lemma legacy_ftl_none H c (HH : 0 < H) : forall a start cur,
  0 <= start + cur <= lenZ c -> no_lf_from c (start + cur) ->
  legacy_find_token_loop H c a start cur =
  if (1 <=? Z.of_nat a) && (lenZ c - (start + cur) <=? (Z.of_nat a - 1) * H)
  then ReachedEof (lenZ c) else ErrMaxLine.
Proof.
  induction a as [|a IH]; intros start cur Hpos Hno.
  - reflexivity.
  - rewrite legacy_ftl_unfold. cbv zeta. norm_a a.
    pose proof (length_read c (start + cur) H (proj1 Hpos)) as Hlen.
    destruct (lenZ (read c (start + cur) H) =? 0) eqn:E0.
    + (* empty read: at end of file *)
      leb_cases; try reflexivity; exfalso; nia.
    + destruct (find_lf (read c (start + cur) H)) as [i|] eqn:Ff.
      * exfalso. destruct (find_lf_some _ _ Ff) as (Hi & Hn & Hm).
        rewrite nth_read in Hn by lia.
        apply (Hno (start + cur + i)); [lia|]. split; [lia|exact Hn].
      * rewrite IH.
        -- set (k := lenZ (read c (start + cur) H)) in *.
           assert (Hk : 0 < k) by lia.
           leb_cases; try reflexivity; exfalso; nia.
        -- lia.
        -- intros j Hj. apply Hno. lia.
Qed.

Lemma legacy_ftr_unfold H c a start cur :
  legacy_find_token_reverse_loop H c (S a) start cur =
  let ro := if start + cur >? 0 then start + cur else 0 in
  let rs := if start + cur <=? 0 then H + (start + cur) else H in
  let chunk := read c ro rs in
  if lenZ chunk =? 0 then ReachedEof 0
  else match rfind_lf chunk with
       | Some i => Found (ro + i)
       | None =>
           if Z.of_nat a =? 0 then ErrMaxLine
           else if ro =? 0 then ReachedEof 0
                else legacy_find_token_reverse_loop H c a start (cur - lenZ chunk)
       end.
Proof.
  simpl.
  destruct (read c (if start + cur >? 0 then start + cur else 0)
              (if start + cur <=? 0 then H + (start + cur) else H));
    [reflexivity|].
  change (lenZ (z :: l) =? 0) with false. cbv iota.
  destruct (rfind_lf (z :: l)); [reflexivity|].
  destruct a; reflexivity.
Qed.

Lemma legacy_ftr_none H c (HH : 0 < H) : forall a start cur,
  0 <= start + cur + H <= lenZ c ->
  no_lf_before c (start + cur + H) ->
  legacy_find_token_reverse_loop H c a start cur =
  if (1 <=? Z.of_nat a) && (start + cur + H <=? (Z.of_nat a - 1) * H)
  then ReachedEof 0 else ErrMaxLine.
Proof.
  induction a as [|a IH]; intros start cur He Hno.
  - reflexivity.
  - rewrite legacy_ftr_unfold. norm_a a.
    destruct (ftr_window H c HH start cur He) as (Hro & Hrs & Hrs0 & Hlen).
    cbv zeta in *.
    set (ro := if start + cur >? 0 then start + cur else 0) in *.
    set (rs := if start + cur <=? 0 then H + (start + cur) else H) in *.
    destruct (lenZ (read c ro rs) =? 0) eqn:E0.
    + leb_cases; try reflexivity; exfalso; nia.
    + destruct (rfind_lf (read c ro rs)) as [i|] eqn:Ff.
      * exfalso. destruct (rfind_lf_some _ _ Ff) as (Hi & Hn & Hm).
        rewrite nth_read in Hn by lia.
        apply (Hno (ro + i)); [lia|]. split; [lia|exact Hn].
      * destruct (Z.of_nat a =? 0) eqn:Ea.
        -- leb_cases; try reflexivity; exfalso; nia.
        -- destruct (ro =? 0) eqn:Er.
           ++ leb_cases; try reflexivity; exfalso; nia.
           ++ rewrite IH.
              ** set (k := lenZ (read c ro rs)) in *.
                 leb_cases; try reflexivity; exfalso; nia.
              ** lia.
              ** intros j Hj. apply Hno. lia.
Qed.

(* ------------------------------------------------------------------------
   The two defects of the old loops, and what the current model does on the
   same inputs (try_find_line_spec). *)
From SK Require Import Proofs.SeekSpec.

Lemma legacy_first_line_gap H A c o :
  0 < H -> 0 < A -> 0 <= o <= lenZ c ->
  prev_lf c o = None -> (A - 1) * H < o ->
  legacy_find_token_reverse H A c o = ErrMaxLine.
Proof.
  intros HH HA Ho Ep Hgap. unfold legacy_find_token_reverse.
  assert (He : o + - H + H = o) by lia.
  rewrite (legacy_ftr_none H c HH); rewrite ?He;
    [|lia|apply prev_lf_none; exact Ep].
  rewrite Z2Nat.id by lia.
  replace (o <=? (A - 1) * H) with false by lia. rewrite andb_false_r.
  reflexivity.
Qed.

Lemma legacy_last_line_gap H A c o :
  0 < H -> 0 < A -> 0 <= o <= lenZ c ->
  next_lf c o = None -> (A - 1) * H < lenZ c - o ->
  legacy_find_token H A c o = ErrMaxLine.
Proof.
  intros HH HA Ho En Hgap. unfold legacy_find_token.
  rewrite (legacy_ftl_none H c HH);
    [|lia|rewrite Z.add_0_r; apply next_lf_none; [lia|exact En]].
  rewrite Z2Nat.id by lia. rewrite Z.add_0_r.
  replace (lenZ c - o <=? (A - 1) * H) with false by lia.
  rewrite andb_false_r. reflexivity.
Qed.

(* a first line longer than (A-1)*H but shorter than A*H, looked up near its
   end: the old code raised, the current code returns the line *)
Theorem legacy_first_line_refuted H A c o :
  0 < H -> 0 < A -> 0 <= o <= lenZ c ->
  prev_lf c o = None -> (A - 1) * H < o < A * H ->
  fwd_in_budget H A c o = true ->
  legacy_try_find_line H A c o = None /\
  try_find_line H A c o None None = Line (ReachedEof 0) (exact_elf c o).
Proof.
  intros HH HA Ho Ep Hgap Hf. split.
  - unfold legacy_try_find_line.
    rewrite (legacy_first_line_gap H A c o) by (assumption || lia).
    destruct (legacy_find_token H A c o); reflexivity.
  - rewrite try_find_line_spec by assumption.
    unfold within_budget, bwd_in_budget, exact_slf. rewrite Hf, Ep.
    replace (o <? A * H) with true by lia. reflexivity.
Qed.

(* an unterminated last line longer than (A-1)*H but shorter than A*H,
   looked up near its start: idem *)
Theorem legacy_last_line_refuted H A c o :
  0 < H -> 0 < A -> 0 <= o <= lenZ c ->
  next_lf c o = None -> (A - 1) * H < lenZ c - o < A * H ->
  bwd_in_budget H A c o = true ->
  legacy_try_find_line H A c o = None /\
  try_find_line H A c o None None = Line (exact_slf c o) (ReachedEof (lenZ c)).
Proof.
  intros HH HA Ho En Hgap Hb. split.
  - unfold legacy_try_find_line.
    rewrite (legacy_last_line_gap H A c o) by (assumption || lia). reflexivity.
  - rewrite try_find_line_spec by assumption.
    unfold within_budget, fwd_in_budget, exact_elf. rewrite Hb, En.
    replace (lenZ c - o <? A * H) with true by lia. reflexivity.
Qed.
