(* C04: the final statement - apply_to_file positions the file exactly at
   first_in_window - from Proofs/SinceSeekTop.v (offset form) and
   Proofs/SinceSeekList.v (list form of specification and hypotheses). *)
From Coq Require Import ZArith List Bool Lia.
From SK Require Import Model.Base Model.Seek Model.SinceSeek Spec.Lines
     Spec.C04 Proofs.Seek Proofs.SeekSpec Proofs.SinceSeek
     Proofs.SinceSeekWalk Proofs.SinceSeekChain Proofs.SinceSeekTop
     Proofs.SinceSeekList.
Import ListNotations.
Open Scope Z_scope.

(* the oracle seen from a line start: the matcher on the W bytes read there *)
Definition ts_of (tsw : list Z -> option Z) (W : Z) (c : list Z) (s : Z)
  : option Z := tsw (read c s W).

Theorem since_seek_exact H A L W tsw c since :
  0 < H -> 0 < A -> 0 < L ->
  empty_undated (ts_of tsw W c) c ->          (* h0 *)
  all_within_budget H A c ->                  (* h1 *)
  time_ordered (ts_of tsw W c) c ->           (* h2 *)
  undated_runs_below L (ts_of tsw W c) c ->   (* h3 *)
  apply_to_file H A L W tsw c since 0 =
  Some (first_in_window (ts_of tsw W c) since c).
Proof.
  intros HH HA HL h0 h1 h2 h3.
  destruct (since_seek_declarative H A L W tsw c HH HA HL h0 h1
              (time_ordered_offsets _ _ h2)
              (undated_runs_offsets _ _ L HL h3) since) as (p & Ep & Hp).
  rewrite Ep. f_equal. apply first_in_window_unique. exact Hp.
Qed.

(* consequences spelled out in the property *)
Theorem first_in_window_is_declarative ts since c p :
  is_first_in_window ts since c p -> p = first_in_window ts since c.
Proof. apply first_in_window_unique. Qed.

(* no line at or after the since date is skipped, no older dated line is
   searched (given time order) *)
Theorem no_skip_no_old ts since c p :
  time_ordered_lines ts c -> (forall s, lenZ c <= s -> ts s = None) ->
  is_first_in_window ts since c p ->
  forall s d, real_line_start c s -> ts s = Some d ->
    (since <= d -> p <= s) /\ (d < since -> s < p).
Proof.
  intros h2 hend Hp s d Hr Hd.
  assert (Hsn : s < lenZ c).
  { destruct (Z_lt_le_dec s (lenZ c)) as [|Hge]; [assumption|].
    rewrite (hend s Hge) in Hd. discriminate. }
  destruct Hp as [(Hrp & Hw & Hmin)|[(-> & _ & Hnone)|(-> & Hnone)]].
  - split.
    + intros Hge. destruct (Z_le_gt_dec p s) as [|Hgt]; [assumption|].
      specialize (Hmin s Hr ltac:(lia)). unfold in_window in Hmin.
      rewrite Hd in Hmin. lia.
    + intros Hlt. destruct (Z_lt_le_dec s p) as [|Hge]; [assumption|].
      unfold in_window in Hw. destruct (ts p) as [dp|] eqn:Edp; [|discriminate].
      pose proof (h2 p s dp d Hrp Hr Hge Edp Hd). lia.
  - split; [|intros _; exact Hsn].
    intros Hge. specialize (Hnone s Hr). unfold in_window in Hnone.
    rewrite Hd in Hnone. lia.
  - specialize (Hnone s Hr). unfold dated in Hnone. rewrite Hd in Hnone.
    discriminate.
Qed.

(* a sufficient condition for (h0) on the oracle alone: the matcher rejects
   the empty string and any text that starts with a line feed *)
Lemma read_at_lf c s W : lf_at c s -> 0 < W ->
  exists r, read c s W = 10 :: r.
Proof.
  intros Hl HW. pose proof (lf_at_lt _ _ Hl) as Hb. destruct Hl as [H0 Hn].
  pose proof (length_read c s W H0) as Hlen.
  pose proof (nth_read c s W 0 H0 ltac:(lia)) as Hh.
  rewrite Z.add_0_r, Hn in Hh.
  destruct (read c s W) as [|x r].
  - unfold lenZ in *. cbn [length] in Hlen. lia.
  - cbn in Hh. subst x. exists r. reflexivity.
Qed.

Lemma read_past_end c s W : lenZ c <= s -> read c s W = [].
Proof.
  intros Hs. pose proof (lenZ_nonneg c).
  pose proof (length_read c s W ltac:(lia)) as Hlen.
  apply lenZ_nil_iff. lia.
Qed.

Theorem oracle_rejects_lf_gives_h0 tsw W c :
  0 < W -> tsw [] = None -> (forall r, tsw (10 :: r) = None) ->
  empty_undated (ts_of tsw W c) c.
Proof.
  intros HW Hnil Hlf s [Hl|Hs]; unfold ts_of.
  - destruct (read_at_lf c s W Hl HW) as (r & ->). apply Hlf.
  - rewrite read_past_end by exact Hs. exact Hnil.
Qed.

(* (h1) from a finite check over the offsets, for concrete files *)
Lemma forall_offsets_check (f : Z -> bool) (n : nat) :
  forallb f (map Z.of_nat (seq 0 (S n))) = true ->
  forall o, 0 <= o <= Z.of_nat n -> f o = true.
Proof.
  intros Hall o Ho. rewrite forallb_forall in Hall. apply Hall.
  apply in_map_iff. exists (Z.to_nat o). split; [lia|].
  apply in_seq. lia.
Qed.

(* (h1) from a bound on the line lengths *)
Lemma short_lines_give_h1 H A c :
  0 < H -> 0 < A ->
  (forall o, 0 <= o <= lenZ c -> line_len c o <= A * H - 1) ->
  all_within_budget H A c.
Proof.
  intros HH HA Hl o Ho. apply short_line_within_budget; auto.
Qed.
