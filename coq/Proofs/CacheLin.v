(* C19 - consequences of linearization points for the real-time order:
   if operation a responded before operation b was invoked, a's point
   precedes b's point (so b observes a).  Histories are newest first. *)
From Coq Require Import ZArith List Bool Arith Lia.
From SK Require Import Spec.Cache.
Import ListNotations.
Open Scope nat_scope.

Definition rank (ph : phase) : nat :=
  match ph with
  | PIdle n => 3 * n
  | PInv n _ => 3 * n + 1
  | PLin n _ _ => 3 * n + 2
  end.

Lemma phase_suffix p x : forall y ph,
  phase_of p (x ++ y) ph -> exists ph', phase_of p y ph'.
Proof.
  induction x as [|e x IH]; intros y ph H; simpl in H; [eauto|].
  inversion H; subst; eauto.
Qed.

Lemma phase_fun p h : forall ph1 ph2,
  phase_of p h ph1 -> phase_of p h ph2 -> ph1 = ph2.
Proof.
  induction h as [|e h IH]; intros ph1 ph2 H1 H2.
  - inversion H1; inversion H2; reflexivity.
  - inversion H1; subst; inversion H2; subst; simpl in *;
      try congruence; try (eapply IH; eauto; fail);
      match goal with
      | A : phase_of p h ?x, B : phase_of p h ?y |- _ =>
          pose proof (IH _ _ A B) as E; inversion E; subst; reflexivity
      end.
Qed.

(* an event of p in h bounds p's rank from below *)
Lemma rank_lin p h : forall ph n o r,
  phase_of p h ph -> In (HLin p n o r) h -> 3 * n + 2 <= rank ph.
Proof.
  induction h as [|e h IH]; intros ph n o r H Hin; [destruct Hin|].
  destruct Hin as [He|Hin].
  - subst e. inversion H; subst; simpl in *; try congruence. lia.
  - inversion H; subst; simpl;
      match goal with
      | A : phase_of p h _ |- _ =>
          let R := fresh "R" in
          pose proof (IH _ _ _ _ A Hin) as R; simpl in R; lia
      end.
Qed.

(* past its point, the point is in the history *)
Lemma lin_in p h : forall n o r,
  phase_of p h (PLin n o r) -> In (HLin p n o r) h.
Proof.
  induction h as [|e h IH]; intros n o r H; inversion H; subst.
  - right. eapply IH; eauto.
  - left. reflexivity.
Qed.

Lemma rt_order h p i a ra q j b rb :
  bracketed h ->
  before (HRes p i a ra) (HInv q j b) h ->
  In (HLin q j b rb) h ->
  before (HLin p i a ra) (HLin q j b rb) h.
Proof.
  intros Hb [h1 [h2 [h3 E]]] Hin. subst h.
  (* a's point lies in h3 *)
  destruct (Hb p) as [php Hp].
  replace (h1 ++ HInv q j b :: h2 ++ HRes p i a ra :: h3)
    with ((h1 ++ HInv q j b :: h2) ++ HRes p i a ra :: h3) in Hp
    by (rewrite <- app_assoc; reflexivity).
  apply phase_suffix in Hp. destruct Hp as [php' Hp].
  assert (Ha : In (HLin p i a ra) h3).
  { inversion Hp; subst; simpl in *; try congruence.
    eapply lin_in; eauto. }
  (* b's point lies in h1 *)
  destruct (Hb q) as [phq Hq].
  pose proof (phase_suffix q h1 _ _ Hq) as [phq' Hq'].
  assert (Hb1 : In (HLin q j b rb) h1).
  { apply in_app_or in Hin. destruct Hin as [Hin|Hin]; [exact Hin|].
    exfalso. destruct Hin as [Hin|Hin]; [discriminate|].
    inversion Hq'; subst; simpl in *; try congruence.
    match goal with
    | A : phase_of q _ (PIdle j) |- _ =>
        pose proof (rank_lin q _ _ _ _ _ A Hin) as R; simpl in R; lia
    end. }
  apply in_split in Hb1. destruct Hb1 as [u [w Eu]].
  apply in_split in Ha. destruct Ha as [x [y Ey]]. subst h1 h3.
  exists u, (w ++ HInv q j b :: h2 ++ HRes p i a ra :: x), y.
  repeat (rewrite <- app_assoc; simpl). reflexivity.
Qed.

(* a response is preceded by the operation's point with the same value,
   which is preceded by the invocation *)
Lemma res_after_lin h p i a ra :
  bracketed h -> In (HRes p i a ra) h ->
  before (HLin p i a ra) (HRes p i a ra) h.
Proof.
  intros Hb Hin. apply in_split in Hin. destruct Hin as [u [w E]]. subst h.
  destruct (Hb p) as [ph Hp]. apply phase_suffix in Hp.
  destruct Hp as [ph' Hp].
  inversion Hp; subst; simpl in *; try congruence.
  match goal with
  | A : phase_of p w (PLin i a ra) |- _ =>
      apply lin_in in A; apply in_split in A; destruct A as [x [y Ey]]
  end.
  subst w. exists u, x, y. reflexivity.
Qed.
