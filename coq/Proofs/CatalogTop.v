(* C09 - the statements of Props/C09.v *)
From Coq Require Import ZArith List Bool Lia.
From SK Require Import Model.Collection Model.Catalog Spec.Catalog
     Proofs.CollectionDict Proofs.Collection Proofs.CatalogStr
     Proofs.CatalogDir Proofs.CatalogReg Proofs.CatalogBoundary.
Import ListNotations.
Open Scope Z_scope.

Lemma filtered_dir_sound_complete_top nm contents depth :
  0 <= depth -> forallb no_ws (regular contents) = true ->
  NoDup (regular contents) ->
  kept (regular contents) depth (filtered_dir grp_fixed nm contents depth).
Proof. intros H1 H2 H3. now apply filtered_dir_kept. Qed.

Definition listing (t : target) : list (str * bool) :=
  match t with
  | TFile p => [(p, true)]
  | TDir d names => map (fun e => (path_join d (fst e), snd e)) names
  | TGlob ms => ms
  end.

Lemma expand_path_exact_top nm depth t :
  0 <= depth -> forallb no_ws (regular (listing t)) = true ->
  NoDup (regular (listing t)) ->
  match t with
  | TFile p => expand_path grp_fixed nm depth t = [p]
  | _ => kept (regular (listing t)) depth (expand_path grp_fixed nm depth t)
  end.
Proof.
  intros H1 H2 H3. destruct t as [p|d names|ms]; simpl in *.
  - reflexivity.
  - now apply filtered_dir_kept.
  - now apply filtered_dir_kept.
Qed.

(* every grouped name is a rotated copy of the group's stem and is sorted by
   its own number: the `no match' key of logrotate_log_sort (and hence the
   `gz?' typo for names like x.log.1.g) is unreachable from _filtered_dir *)
Lemma grouped_key_is_number_top nm x pfx :
  no_ws x = true -> grp_fixed x = Some pfx -> ends_with x dotlog = false ->
  exists n, rotated x = Some (pfx, n) /\ sort_key nm x = n.
Proof.
  intros Hx Hg He. destruct (rotated x) as [[stem n]|] eqn:Er.
  - destruct (rotated_grp x stem n Hx Er) as [Hg' _].
    assert (stem = pfx) by congruence. subst stem.
    exists n. split; [reflexivity|]. now apply (rotated_sort_key nm x pfx).
  - destruct (ordinary_grp x Hx Er) as [[_ Hn]|[He' _]]; congruence.
Qed.

(* the endswith('.log') branch appends fnamepfix + '.log': that IS the path *)
Lemma endswith_branch_is_path_top x pfx :
  ends_with x dotlog = true -> grp_fixed x = Some pfx -> pfx ++ dotlog = x.
Proof.
  intros He Hg.
  assert (Hx : no_ws x = true).
  { unfold grp_fixed, dollar in Hg.
    destruct (grp_fixed_full x) as [p|] eqn:E;
      [now apply (grp_fixed_full_no_ws x p)|].
    unfold ends_with in He. apply starts_with_app in He. simpl in He.
    rewrite He in Hg. discriminate. }
  pose proof (endlog_not_rotated x He) as Er.
  destruct (ordinary_grp x Hx Er) as [[He' _]|[_ [Hn|[p [Hp Hpx]]]]];
    congruence.
Qed.

(* whitespace in a path: the file is kept, whatever the depth *)
Lemma whitespace_kept_top nm contents depth x :
  In (x, true) contents -> no_ws x = false ->
  (forall t, x = t ++ [10] -> no_ws t = false) ->
  In x (filtered_dir grp_fixed nm contents depth).
Proof.
  intros Hin Hx Hnl. apply ungrouped_kept; [assumption|].
  now apply whitespace_not_grouped.
Qed.

Lemma merge_once_top regs :
  let c := register_all regs in
  NoDup (cat_files c) /\
  (forall q, searches_of c q = occurrences q (plain regs)) /\
  (forall q, In q (cat_files c) <-> occurrences q (plain regs) <> []) /\
  (forall p1 e1 p2 e2, In (p1, e1) (entries c) -> In (p2, e2) (entries c) ->
     e_source e1 = e_source e2 -> p1 = p2) /\
  (forall p e, In (p, e) (entries c) ->
     dget Z.eqb (source_ids c) (e_source e) = Some p).
Proof. exact (merge_once_lemma regs). Qed.

(* add_all is register_all over the expansions *)
Lemma add_all_register_all G nm depth ops :
  add_all G nm depth ops =
  register_all (map (fun op => (fst (fst op), snd (fst op),
                                expand_path G nm depth (snd op))) ops).
Proof.
  unfold add_all, register_all. generalize empty_catalog.
  induction ops as [|[[d tag] t] ops IH]; intro c; simpl; [reflexivity|].
  apply IH.
Qed.

Lemma not_in_by_eqb x l : existsb (str_eqb x) l = false -> ~ In x l.
Proof.
  intros H Hin. assert (E : existsb (str_eqb x) l = true).
  { apply existsb_exists. exists x. split; [assumption|].
    now apply str_eqb_spec. }
  congruence.
Qed.

(* refuting [kept] through an ordinary file that is missing *)
Lemma not_kept_by_missing files depth K x :
  existsb (str_eqb x) files = true -> rotated x = None ->
  existsb (str_eqb x) K = false -> ~ kept files depth K.
Proof.
  intros Hf Hr Hk [_ _ Hord _ _]. apply (not_in_by_eqb x K Hk).
  apply Hord; [|assumption]. apply existsb_exists in Hf.
  destruct Hf as [y [Hy E]]. apply str_eqb_spec in E. now subst.
Qed.

(* refuting [kept] through the count of a stem *)
Lemma not_kept_by_count files depth K stem :
  count_of stem K <> Z.min depth (count_of stem files) -> ~ kept files depth K.
Proof. intros H [_ _ _ Hc _]. now apply H. Qed.
