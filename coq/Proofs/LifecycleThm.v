(* C10 - the user-level statements, assembled from the invariant and the
   progress theorem. *)
From Coq Require Import String List Bool Arith Lia.
From SK Require Import Model.Skel Model.Lifecycle Spec.Lifecycle
     Proofs.Lifecycle Proofs.LifecycleInv Proofs.LifecycleProgress.
Import ListNotations.

(* no step ever makes ODead the owner: it can only come from the start *)
Lemma step_store_dead f c s a s' : step f c s a = Some s' ->
  s_store s' = Some ODead -> s_store s = Some ODead.
Proof.
  intros H.
  destruct s as [pc futs ws info istop ibud res rstop rbud store coll pool mgr fired].
  destruct a; unf_step H; split_step H; inversion H; subst; clear H; projs;
    intros E; try assumption; try discriminate.
Qed.

Lemma step_coll_dead f c s a s' : step f c s a = Some s' ->
  s_coll s' = Some ODead -> s_coll s = Some ODead.
Proof.
  intros H.
  destruct s as [pc futs ws info istop ibud res rstop rbud store coll pool mgr fired].
  destruct a; unf_step H; split_step H; inversion H; subst; clear H; projs;
    intros E; try assumption; try discriminate.
Qed.

Lemma run_store_dead f c sched : forall s,
  s_store (run f c sched s) = Some ODead -> s_store s = Some ODead.
Proof.
  induction sched as [|a r IH]; intros s H; simpl in *; [assumption|].
  apply IH in H. unfold step' in H. destruct (step f c s a) eqn:E; [|assumption].
  eapply step_store_dead; eassumption.
Qed.

Lemma run_coll_dead f c sched : forall s,
  s_coll (run f c sched s) = Some ODead -> s_coll s = Some ODead.
Proof.
  induction sched as [|a r IH]; intros s H; simpl in *; [assumption|].
  apply IH in H. unfold step' in H. destruct (step f c s a) eqn:E; [|assumption].
  eapply step_coll_dead; eassumption.
Qed.

Section Thm.
Variable f : facts.
Variable c : cfg.
Hypothesis Hok : facts_ok f = true.

(* ---------------------------------------------- failure never returns *)
Lemma inv_failure_never_returns s : Inv f c s ->
  s_fired s = true -> s_pc s <> MReturn.
Proof.
  intros HI Hf Hpc.
  destruct (i_fired _ _ _ HI Hf) as (p & P1 & P2 & P3).
  assert (Hs : succ_pc (s_pc s) = true) by (rewrite Hpc; reflexivity).
  pose proof (i_succ _ _ _ HI Hs _ P2) as Q.
  destruct (p_kind p); rewrite Q in P3; discriminate.
Qed.

(* a returned run saw no fault at all, and every task completed *)
Lemma inv_return_all_ok s : Inv f c s -> s_pc s = MReturn ->
  s_fired s = false /\ forall t, t < ntasks c -> s_futs s t = FOk.
Proof.
  intros HI Hpc. split.
  - destruct (s_fired s) eqn:F; [|reflexivity].
    destruct (inv_failure_never_returns s HI F Hpc).
  - apply (i_succ _ _ _ HI). rewrite Hpc. reflexivity.
Qed.

(* ------------------------------------------------------ a clean ending *)
Lemma inv_final_clean s : Inv f c s -> final s = true ->
  dead_ownerb s (s_store s) = false -> dead_ownerb s (s_coll s) = false ->
  clean_end c s.
Proof.
  intros HI Hf Hst Hco.
  assert (Hpp : post_pool (s_pc s) = true)
    by (unfold final in Hf; destruct (s_pc s); try discriminate; reflexivity).
  assert (Hrd : res_done_pc (s_pc s) = true)
    by (unfold final in Hf; destruct (s_pc s); try discriminate; reflexivity).
  assert (Hid : info_done_pc (s_pc s) = true)
    by (unfold final in Hf; destruct (s_pc s); try discriminate; reflexivity).
  pose proof (i_res_quiet _ _ _ HI Hrd) as Rq.
  pose proof (i_info_quiet _ _ _ HI Hid) as Iq.
  pose proof (i_all_dead _ _ _ HI Hpp) as Ad.
  assert (S0 : s_store s = None).
  { destruct (s_store s) as [[| | |w|]|] eqn:E; try reflexivity; exfalso.
    - apply (i_store_main _ _ _ HI) in E. unfold final in Hf. rewrite E in Hf. discriminate.
    - apply (i_store_info _ _ _ HI) in E. destruct Iq; congruence.
    - exact (i_store_res _ _ _ HI E).
    - cbn in Hst. destruct (Nat.lt_ge_cases w (c_workers c)) as [L|G].
      + rewrite (Ad w L) in Hst. discriminate.
      + apply (i_store_w _ _ _ HI) in E. rewrite (i_range_w _ _ _ HI w G) in E. discriminate.
    - discriminate. }
  assert (C0 : s_coll s = None).
  { destruct (s_coll s) as [[| | |w|]|] eqn:E; try reflexivity; exfalso.
    - apply (i_coll_main _ _ _ HI) in E. unfold final in Hf. rewrite E in Hf. discriminate.
    - apply (i_coll_info _ _ _ HI) in E. destruct Iq; congruence.
    - apply (i_coll_res _ _ _ HI) in E. destruct Rq, E; congruence.
    - exact (i_coll_w _ _ _ HI w E).
    - discriminate. }
  repeat split; try assumption.
  - apply (i_mgr _ _ _ HI Hf).
  - intros c'. unfold restart. rewrite S0, C0. reflexivity.
Qed.

(* ------------------------------------------------- which class is raised *)
Lemma inv_raised_class s e : Inv f c s -> s_pc s = MRaised e ->
  s_fired s = true /\ exists p, c_plan c = Some p /\
    match p_kind p with
    | KRaise e0 => e = expected_class f c p e0
    | KExit => e = E_FSE
    end.
Proof.
  intros HI Hpc. destruct (facts_ok_inv _ Hok) as (M1 & M2 & _).
  assert (Hpe : pc_exc (s_pc s) = Some e) by (rewrite Hpc; reflexivity).
  destruct (i_pc_exc _ _ _ HI e Hpe) as [(t & e0 & A & B)|[(A & t & B)|(A & B)]].
  - destruct (i_exc _ _ _ HI _ _ A) as (p & e1 & P1 & P2 & P3 & P4).
    pose proof (i_exc_fired _ _ _ HI _ _ A) as F.
    split; [assumption|]. exists p. split; [assumption|]. rewrite P3.
    unfold expected_class. rewrite P2, <- P4. assumption.
  - pose proof (i_broken_pool _ _ _ HI _ B) as Q.
    destruct (i_pool_fired _ _ _ HI Q) as (F & p & P1 & P2).
    split; [assumption|]. exists p. split; [assumption|]. rewrite P2. congruence.
  - assert (Q : s_pool s <> PoolOk) by congruence.
    destruct (i_pool_fired _ _ _ HI Q) as (F & p & P1 & P2).
    split; [assumption|]. exists p. split; [assumption|]. rewrite P2. congruence.
Qed.

(* ------------------------------------------- who can orphan a lock *)
Lemma coll_not_dead s : Inv f c s -> s_coll s <> Some ODead ->
  dead_ownerb s (s_coll s) = false.
Proof.
  intros HI Hn. destruct (s_coll s) as [[| | |w|]|] eqn:E; try reflexivity.
  - destruct (i_coll_w _ _ _ HI w E).
  - congruence.
Qed.

(* a task exception never leaves a lock behind *)
Lemma raise_no_dead_owner s : Inv f c s -> plan_raises c ->
  s_store s <> Some ODead -> dead_ownerb s (s_store s) = false.
Proof.
  intros HI Hpl Hn. destruct (s_store s) as [[| | |w|]|] eqn:E; try reflexivity.
  - cbn. destruct (s_ws s w) as [| |h] eqn:W; try reflexivity. exfalso.
    apply (i_store_w _ _ _ HI) in E. rewrite W in E. cbn in E. subst h.
    assert (P : s_pool s = PoolOk).
    { destruct (s_pool s) eqn:Pl; [reflexivity| |];
        (destruct (i_pool_fired _ _ _ HI) as (_ & p & P1 & P2); [congruence|];
         unfold plan_raises in Hpl; rewrite P1, P2 in Hpl; destruct Hpl). }
    exact (i_dead_hold _ _ _ HI P w W).
  - congruence.
Qed.

(* an abrupt exit inside the locked region orphans the store lock for good *)
Lemma exit_in_lock_orphans s p r : Inv f c s -> f_fin_free f = false ->
  s_fired s = true ->
  c_plan c = Some p -> p_kind p = KExit -> p_j p = Some r ->
  dead_ownerb s (s_store s) = true.
Proof.
  intros HI Hff Hf P1 P2 P3.
  destruct (i_orphan _ _ _ HI Hff Hf _ _ P1 P2 P3) as [w Hw].
  assert (E : s_store s = Some (OWorker w)).
  { apply (i_store_w _ _ _ HI). rewrite Hw. reflexivity. }
  rewrite E. cbn. rewrite Hw. reflexivity.
Qed.

(* ------------------------------------------------------------- hangs *)
Lemma stuck_not_can_move s : stuck f c s -> ~ can_move f c s.
Proof.
  intros [_ Hs] [a Ha]. unfold enabledb in Ha. rewrite (Hs a) in Ha. discriminate.
Qed.

Lemma inv_stuck_dead_owner s : Inv f c s -> 1 <= c_workers c -> stuck f c s ->
  dead_ownerb s (s_store s) = true \/ dead_ownerb s (s_coll s) = true.
Proof.
  intros HI HW Hs.
  destruct (dead_ownerb s (s_store s)) eqn:A; [left; reflexivity|].
  destruct (dead_ownerb s (s_coll s)) eqn:B; [right; reflexivity|].
  exfalso. apply (stuck_not_can_move s Hs).
  apply (progress f c s HI A B HW). exact (proj1 Hs).
Qed.

Lemma stuck_forever s : stuck f c s -> forall sched, run f c sched s = s.
Proof.
  intros [_ Hs] sched. induction sched as [|a r IH]; simpl; [reflexivity|].
  unfold step'. rewrite (Hs a). exact IH.
Qed.

Lemma stuck_doomed s : stuck f c s -> doomed f c s.
Proof.
  intros Hs sched. rewrite (stuck_forever s Hs). exact (proj1 Hs).
Qed.

(* ------------------------- with the forced release: never stuck at all *)
Lemma always_can_move s : Inv f c s -> f_fin_free f = true ->
  1 <= c_workers c -> s_store s <> Some ODead -> s_coll s <> Some ODead ->
  final s = false -> can_move f c s.
Proof.
  intros HI Hff HW Hsd Hcd Hnf.
  destruct (dead_ownerb s (s_store s)) eqn:D.
  - exact (progress_dead_owner f c s HI Hff Hsd D Hnf).
  - exact (progress f c s HI D (coll_not_dead s HI Hcd) HW Hnf).
Qed.

Lemma not_stuck s : Inv f c s -> f_fin_free f = true ->
  1 <= c_workers c -> s_store s <> Some ODead -> s_coll s <> Some ODead ->
  ~ stuck f c s.
Proof.
  intros HI Hff HW Hsd Hcd Hs.
  apply (stuck_not_can_move s Hs).
  apply always_can_move; try assumption. exact (proj1 Hs).
Qed.

Lemma final_freed s : final s = true -> freed_pc (s_pc s) = true.
Proof. unfold final. destruct (s_pc s); try discriminate; reflexivity. Qed.

Lemma inv_final_clean_freed s : Inv f c s -> f_fin_free f = true ->
  s_coll s <> Some ODead -> final s = true -> clean_end c s.
Proof.
  intros HI Hff Hcd Hf.
  apply inv_final_clean; try assumption.
  - exact (i_freed _ _ _ HI Hff (final_freed s Hf)).
  - exact (coll_not_dead s HI Hcd).
Qed.

(* ------------------------------------- what an observer of a run may see *)
Lemma inv_observe_allowed s p : Inv f c s -> 1 <= c_workers c ->
  s_store s <> Some ODead -> s_coll s <> Some ODead ->
  c_plan c = Some p -> s_fired s = true ->
  final s = true \/ stuck f c s ->
  obs_mem (observe s) (allowed f c p) = true.
Proof.
  intros HI HW Hsd Hcd P1 Hf Hend.
  pose proof (coll_not_dead s HI Hcd) as Cn.
  unfold observe, allowed. destruct (p_kind p) as [e|] eqn:K.
  - assert (Hpl : plan_raises c) by (unfold plan_raises; rewrite P1, K; exact I).
    pose proof (raise_no_dead_owner s HI Hpl Hsd) as Sn. rewrite Sn.
    destruct Hend as [Hfin|Hs].
    + unfold final in Hfin. destruct (s_pc s) eqn:PC; try discriminate.
      * destruct (inv_failure_never_returns s HI Hf PC).
      * destruct (inv_raised_class s _ HI PC) as (_ & p' & Q1 & Q2).
        rewrite P1 in Q1. inversion Q1; subst p'. rewrite K in Q2. subst e0.
        cbn. rewrite String.eqb_refl. reflexivity.
    + destruct (inv_stuck_dead_owner s HI HW Hs); congruence.
  - destruct (f_fin_free f) eqn:Hff.
    + destruct Hend as [Hfin|Hs]; [|destruct (not_stuck s HI Hff HW Hsd Hcd Hs)].
      rewrite (i_freed _ _ _ HI Hff (final_freed s Hfin)).
      unfold final in Hfin. destruct (s_pc s) eqn:PC; try discriminate.
      * destruct (inv_failure_never_returns s HI Hf PC).
      * destruct (inv_raised_class s _ HI PC) as (_ & p' & Q1 & Q2).
        rewrite P1 in Q1. inversion Q1; subst p'. rewrite K in Q2. subst e.
        reflexivity.
    + destruct Hend as [Hfin|Hs].
      * unfold final in Hfin. destruct (s_pc s) eqn:PC; try discriminate.
        -- destruct (inv_failure_never_returns s HI Hf PC).
        -- destruct (inv_raised_class s _ HI PC) as (_ & p' & Q1 & Q2).
           rewrite P1 in Q1. inversion Q1; subst p'. rewrite K in Q2. subst e.
           destruct (p_j p) as [r|] eqn:J.
           ++ rewrite (exit_in_lock_orphans s p r HI Hff Hf P1 K J). reflexivity.
           ++ destruct (dead_ownerb s (s_store s)); reflexivity.
      * destruct (inv_stuck_dead_owner s HI HW Hs) as [D|D]; [|congruence].
        rewrite D. destruct Hs as [Hnf _]. unfold final in Hnf.
        destruct (s_pc s); try discriminate; destruct (p_j p); reflexivity.
Qed.
End Thm.
