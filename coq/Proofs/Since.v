(* The since model refines Spec/Since.v, for ANY three source expressions
   [init], [since_of], [date_ok] that satisfy the two hypotheses below;
   Props/C16.v discharges the hypotheses for the functions translated from the
   source (Gen/Exprs.v). *)
From Coq Require Import ZArith List Bool Lia.
From SK Require Import Model.Base Model.Dates Spec.Since Model.Since
     Proofs.Dates.
Import ListNotations.
Open Scope Z_scope.

Lemma countb_cons {A} (p : A -> bool) x l :
  countb p (x :: l) = (if p x then 1 else 0) + countb p l.
Proof.
  unfold countb. cbn [filter]. destruct (p x); cbn [length]; lia.
Qed.

Lemma countb_nil {A} (p : A -> bool) : countb p [] = 0.
Proof. reflexivity. Qed.

Lemma countb_nonneg {A} (p : A -> bool) l : 0 <= countb p l.
Proof. unfold countb. lia. Qed.

Lemma extracted_is_decided line : extracted_datetime line = decided line.
Proof. reflexivity. Qed.

Section SinceProofs.
  Variable init : Z -> Z -> Z * Z.
  Variable since_of : Z -> Z -> Z -> Z.
  Variable date_ok : Z -> Z -> bool.

  (* the days/hours selection followed by the subtraction is "minus window" *)
  Hypothesis H_since : forall cur days hours,
    since_of cur (fst (init days hours)) (snd (init days hours))
    = cur - spec_window days hours.
  (* the validity test is ">= since" *)
  Hypothesis H_ok : forall ts s, date_ok ts s = (s <=? ts).

  Notation mk := (mk init).
  Notation since := (since since_of).
  Notation apply_to_line := (apply_to_line since_of date_ok).
  Notation run := (run since_of date_ok).
  Notation session := (session init since_of date_ok).

  Lemma since_mk cur days hours :
    since (mk cur days hours) = cur - spec_window days hours.
  Proof.
    unfold Since.since, Since.mk. specialize (H_since cur days hours).
    destruct (init days hours) as [d h]. cbn in *. exact H_since.
  Qed.

  Lemma mk_counters cur days hours :
    c_pass (mk cur days hours) = 0 /\ c_fail (mk cur days hours) = 0.
  Proof. unfold Since.mk. destruct (init days hours). cbn. lia. Qed.

  (* outcome of one line as a function of the since instant *)
  Definition outcome_at (s : Z) (line : option dt) : outcome :=
    match decided line with
    | None => Undecided
    | Some t => if s <=? t then Pass else Fail
    end.

  Lemma apply_outcome st line :
    fst (apply_to_line st line) = outcome_at (since st) line.
  Proof.
    unfold Since.apply_to_line, outcome_at. rewrite extracted_is_decided.
    destruct (decided line) as [t|]; [|reflexivity].
    rewrite H_ok. destruct (since st <=? t); reflexivity.
  Qed.

  Lemma apply_since st line :
    since (snd (apply_to_line st line)) = since st.
  Proof.
    unfold Since.apply_to_line.
    destruct (extracted_datetime line) as [t|]; [|reflexivity].
    destruct (date_ok t (since st)); reflexivity.
  Qed.

  Lemma apply_counters st line :
    let o := fst (apply_to_line st line) in
    let st' := snd (apply_to_line st line) in
    c_pass st' = c_pass st + (if is_pass o then 1 else 0) /\
    c_fail st' = c_fail st + (if is_fail o then 1 else 0).
  Proof.
    unfold Since.apply_to_line.
    destruct (extracted_datetime line) as [t|]; cbn; [|lia].
    destruct (date_ok t (since st)); cbn; lia.
  Qed.

  Lemma undated_unchanged st line :
    decided line = None ->
    apply_to_line st line = (Undecided, st).
  Proof.
    intros H. unfold Since.apply_to_line. rewrite extracted_is_decided, H.
    reflexivity.
  Qed.

  Lemma run_spec lines : forall st,
    fst (run st lines) = map (outcome_at (since st)) lines /\
    c_pass (snd (run st lines))
      = c_pass st + countb is_pass (map (outcome_at (since st)) lines) /\
    c_fail (snd (run st lines))
      = c_fail st + countb is_fail (map (outcome_at (since st)) lines).
  Proof.
    induction lines as [|l r IH]; intros st.
    - cbn [Since.run map fst snd]. rewrite !countb_nil. repeat split; lia.
    - cbn [Since.run map].
      pose proof (apply_outcome st l) as Ho.
      pose proof (apply_since st l) as Hs.
      pose proof (apply_counters st l) as Hc. cbv zeta in Hc.
      destruct (apply_to_line st l) as [o st1]. cbn [fst snd] in *.
      specialize (IH st1). rewrite Hs in IH.
      destruct (run st1 r) as [os st2]. cbn [fst snd] in *.
      destruct IH as (I1 & I2 & I3). destruct Hc as (C1 & C2).
      rewrite !countb_cons, <- Ho.
      repeat split.
      + rewrite I1. reflexivity.
      + rewrite I2, C1. lia.
      + rewrite I3, C2. lia.
  Qed.

  Lemma outcome_at_spec cur days hours line :
    outcome_at (cur - spec_window days hours) line
    = spec_outcome cur days hours line.
  Proof. reflexivity. Qed.

  (* the whole session refines the specification *)
  Lemma session_spec cur days hours lines :
    session cur days hours lines =
    (secs cur - spec_window days hours,
     map (spec_outcome (secs cur) days hours) lines,
     spec_pass_count (secs cur) days hours lines,
     spec_fail_count (secs cur) days hours lines).
  Proof.
    unfold Since.session.
    pose proof (run_spec lines (mk (secs cur) days hours)) as R.
    pose proof (mk_counters (secs cur) days hours) as [P0 F0].
    rewrite since_mk in *.
    destruct (run (mk (secs cur) days hours) lines) as [os st].
    cbn [fst snd] in R. destruct R as (R1 & R2 & R3).
    unfold spec_pass_count, spec_fail_count.
    rewrite R1, R2, R3, P0, F0.
    rewrite (map_ext _ _ (outcome_at_spec (secs cur) days hours)).
    reflexivity.
  Qed.

  (* -- the statements of the property -- *)

  (* a decided line passes iff its timestamp >= current - window *)
  Lemma passes_iff_lemma cur days hours t :
    valid_dt t = true ->
    let o := fst (apply_to_line (mk (secs cur) days hours) (Some t)) in
    (o = Pass <-> secs cur - spec_window days hours <= secs t) /\
    (o = Fail <-> secs t < secs cur - spec_window days hours).
  Proof.
    intros V o. subst o. rewrite apply_outcome, since_mk.
    unfold outcome_at, decided. rewrite V.
    destruct (secs cur - spec_window days hours <=? secs t) eqn:E.
    - apply Z.leb_le in E. split; split; intros; try reflexivity;
        try discriminate; lia.
    - apply Z.leb_gt in E. split; split; intros; try reflexivity;
        try discriminate; lia.
  Qed.

  (* in calendar terms: when [b] is the date-time current - window, a dated
     line passes iff its timestamp is not before [b] *)
  Lemma passes_iff_calendar_lemma cur days hours b t :
    valid_dt t = true -> valid_dt b = true ->
    secs b = secs cur - spec_window days hours ->
    (fst (apply_to_line (mk (secs cur) days hours) (Some t)) = Pass
     <-> ~ lex_lt t b).
  Proof.
    intros Vt Vb Hb.
    pose proof (passes_iff_lemma cur days hours t Vt) as [P _].
    cbv zeta in P. rewrite P, <- Hb.
    symmetry. apply not_before_iff_secs; assumption.
  Qed.

  (* the boundary instant passes, one second earlier fails, one later passes *)
  Lemma boundary_lemma cur days hours t :
    valid_dt t = true ->
    let o := fst (apply_to_line (mk (secs cur) days hours) (Some t)) in
    (secs t = secs cur - spec_window days hours -> o = Pass) /\
    (secs t = secs cur - spec_window days hours - 1 -> o = Fail) /\
    (secs t = secs cur - spec_window days hours + 1 -> o = Pass).
  Proof.
    intros V o. pose proof (passes_iff_lemma cur days hours t V) as [P F].
    cbv zeta in P, F. subst o. repeat split; intros H.
    - apply P. lia.
    - apply F. lia.
    - apply P. lia.
  Qed.

  (* no recognisable timestamp: undecidable, and nothing is counted *)
  Lemma undated_lemma st line :
    decided line = None ->
    apply_to_line st line = (Undecided, st).
  Proof. exact (undated_unchanged st line). Qed.

  Lemma countb_split (outs : list outcome) :
    countb is_pass outs + countb is_fail outs = countb is_decided outs.
  Proof.
    induction outs as [|o r IH]; [reflexivity|].
    rewrite !countb_cons. destruct o; cbn [is_pass is_fail is_decided]; lia.
  Qed.

  Lemma decided_count cur days hours lines :
    countb is_decided (map (spec_outcome cur days hours) lines)
    = spec_decided_count lines.
  Proof.
    unfold spec_decided_count.
    induction lines as [|l r IH]; [reflexivity|].
    cbn [map]. rewrite !countb_cons, IH. unfold spec_outcome.
    destruct (decided l) as [t|]; [|reflexivity].
    destruct (cur - spec_window days hours <=? t); reflexivity.
  Qed.

  (* the counters after ANY list of lines *)
  Lemma counters_lemma cur days hours lines :
    let '(_, outs, p, f) := session cur days hours lines in
    p + f = spec_decided_count lines /\
    p = countb (fun l => match decided l with
                         | Some t => secs cur - spec_window days hours <=? t
                         | None => false end) lines /\
    p = countb is_pass outs /\ f = countb is_fail outs /\
    length outs = length lines.
  Proof.
    rewrite session_spec. unfold spec_pass_count, spec_fail_count.
    rewrite countb_split, decided_count, map_length.
    repeat split; try reflexivity.
    induction lines as [|l r IH]; [reflexivity|].
    cbn [map]. rewrite !countb_cons, IH. unfold spec_outcome.
    destruct (decided l) as [t|]; [|reflexivity].
    destruct (secs cur - spec_window days hours <=? t); reflexivity.
  Qed.
End SinceProofs.
