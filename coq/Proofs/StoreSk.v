(* Lemmas used by the tree-vs-model equalities of Props/C15.v. *)
From Coq Require Import String ZArith List Bool Arith Lia.
From SK Require Import Model.Base Model.Skel Model.Stm Model.Store
     Model.StoreSk Proofs.Store.
Import ListNotations.
Open Scope Z_scope.

(* the model's equality scan is "first item whose value equals v" *)
Lemma scan_find v d :
  scan v d = option_map fst (find (fun p => Z.eqb v (snd p)) d).
Proof.
  induction d as [|[i w] r IH]; simpl; [reflexivity|].
  destruct (v =? w); [reflexivity|exact IH].
Qed.

(* what [allocations] can return *)
Lemma allocations_cases s :
  (allocations s = s) \/
  (pre s = true /\ allocations s = grant s).
Proof.
  unfold allocations. destruct (pre s); [|tauto].
  destruct (alloc_needed s); tauto.
Qed.

Lemma grant_value_nonempty s :
  1 <= bsz s -> pre s = true ->
  exists i0 r, allocations_value (grant s) = Some (i0 :: r).
Proof.
  intros Hb Hp. unfold allocations_value, grant. simpl. rewrite Hp.
  rewrite (range_cons _ (Z.to_nat (bsz s))) by lia. eauto.
Qed.

(* evaluated twice in a row, a truthy `allocations` stays truthy *)
Lemma allocations_twice_truthy s i0 r :
  1 <= bsz s -> allocations_value (allocations s) = Some (i0 :: r) ->
  exists i1 r1, allocations_value (allocations (allocations s)) = Some (i1 :: r1).
Proof.
  intros Hb H. set (s1 := allocations s) in *.
  assert (Hp : pre s1 = true).
  { unfold allocations_value in H. destruct (pre s1); [reflexivity|discriminate]. }
  assert (Hb1 : bsz s1 = bsz s).
  { unfold s1, allocations. destruct (pre s); [|reflexivity].
    destruct (alloc_needed s); reflexivity. }
  destruct (allocations_cases s1) as [E|[_ E]]; rewrite E.
  - eauto.
  - apply grant_value_nonempty; [lia|exact Hp].
Qed.
