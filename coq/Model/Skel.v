(* Events of a lock skeleton (see translator/skeleton.py). *)
From Coq Require Import String List Bool.
Import ListNotations.
Open Scope string_scope.

Inductive ev : Type :=
| Acq (l : string) | Rel (l : string)
| Rd (c : string) | Wr (c : string)
| Call (f : string)
| LoopB | LoopE
| IfB | Else | IfE
| TryB | Handler (e : string) | TryElse | FinallyB | TryE
| RaiseE (e : string)
| Ret | Break | Continue.

Definition is_access (e : ev) : bool :=
  match e with Rd _ | Wr _ => true | _ => false end.

(* locks held after executing a prefix, ignoring control structure: the
   skeleton's Acq/Rel come from lexically scoped `with` blocks, so they are
   properly nested by construction of the translator. *)
Fixpoint held_after (held : list string) (sk : list ev) : list string :=
  match sk with
  | [] => held
  | Acq l :: r => held_after (l :: held) r
  | Rel l :: r =>
      held_after (match held with
                  | h :: t => if String.eqb h l then t else held
                  | [] => [] end) r
  | _ :: r => held_after held r
  end.

(* every event satisfying [p] happens while lock [l] is held *)
Fixpoint all_under (l : string) (p : ev -> bool) (held : list string)
         (sk : list ev) : bool :=
  match sk with
  | [] => true
  | Acq l' :: r => all_under l p (l' :: held) r
  | Rel l' :: r =>
      all_under l p (match held with
                     | h :: t => if String.eqb h l' then t else held
                     | [] => [] end) r
  | e :: r =>
      (if p e then existsb (String.eqb l) held else true)
      && all_under l p held r
  end.

(* lock [l] is acquired exactly once and never released in between:
   the events matching [p] all lie in ONE critical section *)
Fixpoint count_acq (l : string) (sk : list ev) : nat :=
  match sk with
  | [] => 0
  | Acq l' :: r => (if String.eqb l l' then 1 else 0) + count_acq l r
  | _ :: r => count_acq l r
  end.

Definition one_section (l : string) (p : ev -> bool) (sk : list ev) : bool :=
  all_under l p [] sk && Nat.eqb (count_acq l sk) 1.

Definition ev_is (x : ev) (y : ev) : bool :=
  match x, y with
  | Rd a, Rd b | Wr a, Wr b | Call a, Call b
  | Acq a, Acq b | Rel a, Rel b => String.eqb a b
  | _, _ => false
  end.
