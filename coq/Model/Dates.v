(* Python's proleptic Gregorian calendar arithmetic on Z, as in CPython's
   Lib/_pydatetime.py (_is_leap, _days_before_year, _days_in_month,
   _days_before_month, _ymd2ord) plus seconds of the day.  Definitions only;
   the harness diffs [secs]/[valid_dt] against datetime itself. *)
From Coq Require Import ZArith List Bool.
From SK Require Import Model.Base.
Import ListNotations.
Open Scope Z_scope.

(* the six integer fields datetime(year, month, day, hour, minute, second)
   is built from (searchkit's matcher never supplies microseconds or tz) *)
Record dt : Type := DT { yr : Z; mo : Z; dy : Z; hh : Z; mi : Z; ss : Z }.

Definition MINYEAR : Z := 1.
Definition MAXYEAR : Z := 9999.

(* year % 4 == 0 and (year % 100 != 0 or year % 400 == 0) *)
Definition is_leap (y : Z) : bool :=
  (y mod 4 =? 0) && (negb (y mod 100 =? 0) || (y mod 400 =? 0)).

(* y = year - 1; y*365 + y//4 - y//100 + y//400 *)
Definition days_before_year (y : Z) : Z :=
  let p := y - 1 in p * 365 + p / 4 - p / 100 + p / 400.

(* _DAYS_IN_MONTH = [-1, 31, 28, 31, 30, 31, 30, 31, 31, 30, 31, 30, 31] *)
Definition DAYS_IN_MONTH : list Z :=
  [-1; 31; 28; 31; 30; 31; 30; 31; 31; 30; 31; 30; 31].

(* _DAYS_BEFORE_MONTH: running sums of _DAYS_IN_MONTH[1:] behind a -1
   placeholder, as the loop in _pydatetime builds it *)
Fixpoint prefix_sums (acc : Z) (l : list Z) : list Z :=
  match l with
  | [] => []
  | x :: r => acc :: prefix_sums (acc + x) r
  end.
Definition DAYS_BEFORE_MONTH : list Z :=
  -1 :: prefix_sums 0 (tl DAYS_IN_MONTH).

(* the two month tables as functions of "is this a leap year" *)
Definition month_len (leap : bool) (m : Z) : Z :=
  if (m =? 2) && leap then 29 else nthZ DAYS_IN_MONTH m 0.
Definition month_before (leap : bool) (m : Z) : Z :=
  nthZ DAYS_BEFORE_MONTH m 0 + (if (2 <? m) && leap then 1 else 0).
Definition year_len (leap : bool) : Z := if leap then 366 else 365.

Definition days_in_month (y m : Z) : Z := month_len (is_leap y) m.
Definition days_before_month (y m : Z) : Z := month_before (is_leap y) m.

(* ordinal of a day, 0001-01-01 being day 1 *)
Definition ymd2ord (y m d : Z) : Z :=
  days_before_year y + days_before_month y m + d.

Definition sec_of_day (h m s : Z) : Z := h * 3600 + m * 60 + s.

(* seconds since 0000-12-31 00:00:00 (ordinal * 86400 + second of the day):
   the integer a naive datetime with microsecond = 0 is compared by *)
Definition secs (t : dt) : Z :=
  ymd2ord (yr t) (mo t) (dy t) * 86400 + sec_of_day (hh t) (mi t) (ss t).

(* exactly when datetime(y, m, d, h, mi, s) does not raise ValueError
   (_check_date_fields / _check_time_fields) *)
Definition valid_dt (t : dt) : bool :=
  (MINYEAR <=? yr t) && (yr t <=? MAXYEAR) &&
  (1 <=? mo t) && (mo t <=? 12) &&
  (1 <=? dy t) && (dy t <=? days_in_month (yr t) (mo t)) &&
  (0 <=? hh t) && (hh t <? 24) &&
  (0 <=? mi t) && (mi t <? 60) &&
  (0 <=? ss t) && (ss t <? 60).
