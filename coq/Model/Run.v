(* CAPSTONE - the composed model of a single-file FileSearcher.run()
   (the in-process path):

     FileSearcher.run -> _run_single -> SearchTask.execute -> _run_search
       stats.reset(); searches / searches_by_job               Model/Stats.v
       os.path.getsize == 0 shortcut, gzip / plain descriptor  Model/Gzip.v
       constraints_manager.apply_global(search_ids, fd)        Model/Task.v
         -> SearchConstraintSearchSince.apply_to_file(fd)      Model/SinceSeek.v
            (binary seek on the BYTES; leaves fd at a byte)      (on Model/Seek.v)
       for ln, line in enumerate(fd, start=1): ...             Model/Lines.v
         (the descriptor is iterated from the byte it is at)     + Model/Task.v
       _simple_search / _sequence_search per definition        Model/Task.v,
       _process_sequence_results, _flush_results_buffer          Model/Sequence.v
       put_result -> collection.add, stats['results']          Model/Task.v
       _run_single: stats.update(task stats); jobs 1 / 1       Model/Stats.v

   NOTHING is re-modelled here: every function above is the existing model,
   imported.  What this file adds is only the glue the code has between the
   pieces, and the BRIDGES between interfaces that do not fit:

   (B1) Model/SinceSeek.v works on bytes and returns a byte position;
        Model/Task.v's [apply_global] threads an abstract position [nat]
        through an abstract [atf].  Here the position IS the byte position
        and [atf] IS apply_to_file ([atf_bytes]).
   (B2) Model/Task.v's per-line loop consumes oracle records [line];
        the file is bytes.  [classify : list Z -> line] (decoding + what the
        regular expressions / constraints answer on the line: an oracle, see
        DESIGN 2.3) is applied to every line that Model/Lines.v [lines_from]
        yields from the byte position on.
   (B3) Model/Task.v's [run_file] (C01/C07's whole-file statement) counts
        positions in LINES.  [lines_before] converts a byte position into
        the number of lines that begin before it, [atf_lines] is
        apply_to_file seen through that conversion, and
        [search_stream_lines] is [run_file] instantiated with it.
        Proofs/RunBridge.v shows that for the positions apply_to_file can
        produce (C11: line boundaries) both views read the same lines.
   (B4) Model/Sequence.v's [seq_step] (= ctl_step + the results object) and
        [seq_eof] are plugged into Model/Task.v's generic loop as
        [step]/[post] ([seq_hstep], [seq_hpost]).

   Definitions only - no proofs here. *)
From Coq Require Import ZArith List Bool.
From SK Require Import Model.Base Model.Seek Model.SinceSeek Model.Lines
     Model.Task Model.Stats Model.Gzip Model.Sequence.
Import ListNotations.
Open Scope Z_scope.

(* ------------------------------------------------------------------ (B3)
   number of lines of [ls] that begin before byte [p] (the first line begins
   at byte 0, the next one [length l] bytes later, ...) *)
Fixpoint lines_before (ls : list (list Z)) (p : nat) : nat :=
  match ls with
  | [] => O
  | l :: r =>
      match p with
      | O => O
      | _ => S (lines_before r (p - length l))
      end
  end.

(* FileSearcher(constraint=c): global_constraints = [c] or [] *)
Definition globals_of (since : option Z) : list Z :=
  match since with Some s => [s] | None => [] end.

(* what a task hands back to _run_single *)
Inductive task_out (R : Type) : Type :=
| TkDone (batches : list (list R)) (s : stats)  (* collection.add calls, stats *)
| TkHangs                              (* _flush_results_buffer never ends *)
| TkRaises.                            (* an AssertionError escaped the seek *)
Arguments TkDone {R}.
Arguments TkHangs {R}.
Arguments TkRaises {R}.

(* what run() leaves behind *)
Inductive run_out (R : Type) : Type :=
| RunOk (collection : list R) (s : stats)
| RunHangs
| RunRaises.
Arguments RunOk {R}.
Arguments RunHangs {R}.
Arguments RunRaises {R}.

(* a registered SequenceSearchDef: identity, shape, own constraints *)
Record qdef : Type := mkQdef {
  q_key : Z; q_shape : shape; q_cons : list Z }.
(* an exported result: which definition, (section id, (ln, role, value)) *)
Definition qresult : Type := (Z * part)%type.

Section Run.
  (* SEEK_HORIZON, MAX_SEEK_HORIZON_EXPAND, MAX_TRY_FIND_WITH_DATE_ATTEMPTS,
     MAX_DATETIME_READ_BYTES *)
  Variables H A L W : Z.
  (* the timestamp matcher on the <= W bytes read at a line start *)
  Variable tsw : list Z -> option Z.
  (* a decoded line as the searches see it, and the decoding oracle (B2) *)
  Variable line : Type.
  Variable classify : list Z -> line.

  (* ---------------------------------------------------------------- (B1)
     SearchConstraintSearchSince.apply_to_file as the [atf] of
     Task.apply_global: G = the since date, position = byte offset.
     (When an exception escapes - never, under C04's hypotheses - the
     position is irrelevant: see [seek_raises].) *)
  Definition atf_bytes (c : list Z) (since : Z) (pos0 : nat)
    : option Z * nat :=
    match apply_to_file H A L W tsw c since (Z.of_nat pos0),
          apply_to_file_retval H A L W tsw c since (Z.of_nat pos0) with
    | Some p, Some rv => (rv, Z.to_nat p)
    | _, _ => (None, pos0)
    end.

  Definition seek_raises (c : list Z) (since : Z) : bool :=
    match apply_to_file H A L W tsw c since 0 with
    | Some _ => false
    | None => true
    end.

  (* ---------------------------------------------------------------- (B2)
     the lines _run_search reads: the descriptor is iterated from the byte
     apply_global left it at; every line is decoded / classified *)
  Definition read_lines (c : list Z) (pos : nat) : list line :=
    map classify (lines_from c pos).

  (* ---------------------------------------------------------------- (B3)
     the same seen by Task.run_file, whose positions count lines *)
  Definition atf_lines (c : list Z) (since : Z) (_ : nat) : option Z * nat :=
    let '(rv, p) := atf_bytes c since 0%nat in
    (rv, lines_before (split_lines c) p).

  Definition file_lines (c : list Z) : list line :=
    map classify (split_lines c).

  (* =============================== _run_search on an open descriptor =====
     generic in the kind of search: [ids] are the ids of the definitions
     registered on the file, [exec] is Task.execute with their handler *)
  Section Stream.
    Variable R : Type.
    Variable ids : list Z.
    Variable exec : list line -> task_result R.

    Definition search_stream (since : option Z) (restrictions : list Z)
               (c : list Z) : task_out R :=
      let '(_, pos, applied) :=
        apply_global (atf_bytes c) (globals_of since) restrictions ids in
      if existsb (seek_raises c) applied then TkRaises
      else
        let lines := read_lines c pos in
        match exec lines with
        | TaskOk bs => TkDone bs (task_stats lines bs)
        | TaskHangs => TkHangs
        end.

    (* SearchTask.execute (zero-size shortcut, gzip / plain) and
       FileSearcher.run for ONE catalog entry with [regs] registrations *)
    Definition run_one (prev : stats) (regs : Z) (f : bfile)
               (since : option Z) (restrictions : list Z) : run_out R :=
      match Gzip.execute (task_out R) (search_stream since restrictions)
                         (TkDone [] empty_task_stats) f with
      | TkDone bs ts => RunOk (collected (TaskOk bs))
                              (run_stats prev [regs] [ts])
      | TkHangs => RunHangs
      | TkRaises => RunRaises
      end.
  End Stream.

  (* ====================================================== simple searches *)
  Variable omatch : Z -> line -> option (list Z).
  Variable ohint : Z -> line -> bool.
  Variable ocon : Z -> line -> Task.outcome.
  Variables MAX NBUF : Z.

  (* search_ids = (s.id for s in self.search_defs) *)
  Definition simple_ids (ds : list sdef) : list Z :=
    map (fun s => s_key (sl_def s))
        (search_defs sdef unit s_key s_cons (fun _ => tt) ds).

  Definition simple_stream (ds : list sdef) :=
    search_stream result (simple_ids ds)
                  (simple_execute line omatch ohint ocon MAX NBUF ds).

  (* THE COMPOSED MODEL: FileSearcher.run() on one file [f], registered
     definitions [ds] (as registered: an object registered twice occurs
     twice), optional file-level since date, global_restrictions *)
  Definition run_simple (prev : stats) (f : bfile) (since : option Z)
             (restrictions : list Z) (ds : list sdef) : run_out result :=
    run_one result (simple_ids ds)
            (simple_execute line omatch ohint ocon MAX NBUF ds)
            prev (Stats.lenZ ds) f since restrictions.

  (* (B3) the line-position view: C01/C07's [simple_run_file] with
     apply_to_file as its [atf] *)
  Definition simple_stream_lines (ds : list sdef) (since : option Z)
             (restrictions : list Z) (c : list Z) : task_result result :=
    simple_run_file line omatch ohint ocon MAX NBUF (atf_lines c)
                    (globals_of since) restrictions ds (file_lines c).

  (* ==================================================== sequence searches
     (B4) Model/Sequence.v plugged into Task's generic loop. *)
  (* the three oracle answers of definition [k] on a line *)
  Variable qclass : Z -> line -> cline.

  (* _sequence_search: [seq_step] = ctl_step + its effects on the
     SequenceSearchResults object; nothing goes to the results buffer *)
  Definition seq_hstep (d : qdef) (st : sstate) (ln : Z) (l : line)
    : sstate * list qresult :=
    (seq_step (q_shape d) st ln (qclass (q_key d) l), []).

  (* _process_sequence_results: [seq_eof] per definition, everything that
     survives is pushed to the results buffer.  (The uuid source is per
     definition here and the definitions are exported in registration order;
     Model/Sequence.v [m_run] has the shared source and the dict order, and
     C03_independence shows that no definition's report depends on either.) *)
  Definition seq_hpost (slots : list (qdef * sstate)) (ln : Z)
    : list qresult :=
    flat_map (fun ds => map (pair (q_key (fst ds)))
                            (seq_eof (q_shape (fst ds)) (snd ds) ln)) slots.

  Definition seq_execute (ds : list qdef) (lines : list line)
    : task_result qresult :=
    Task.execute line qdef sstate qresult q_key q_cons ocon
                 (fun _ => init_state) seq_hstep seq_hpost MAX NBUF ds lines.

  Definition seq_ids (ds : list qdef) : list Z :=
    map (fun s => q_key (sl_def s))
        (search_defs qdef sstate q_key q_cons (fun _ => init_state) ds).

  Definition run_sequence (prev : stats) (f : bfile) (since : option Z)
             (restrictions : list Z) (ds : list qdef) : run_out qresult :=
    run_one qresult (seq_ids ds) (seq_execute ds)
            prev (Stats.lenZ ds) f since restrictions.

  (* find_sequence_sections(d) on the returned collection, ids erased *)
  Definition seq_report (k : Z) (coll : list qresult) : list (list item) :=
    report (map snd (filter (fun r => fst r =? k) coll)).
End Run.
