(* C19 - model of MPCacheSimple used by n processes (definitions only).

   An operation (Spec.Cache.op) is expanded THROUGH THE LOCK SKELETON of the
   corresponding method (list ev, regenerated from the source on every run)
   into atomic actions; the processes interleave at action granularity under
   an arbitrary schedule (list of process numbers).

   Backend abstraction (dbm.dumb as present on this machine): opening the
   per-key file loads its index (a snapshot of the stored value), reads and
   writes go to the in-memory index, and close commits a modified index in
   TWO steps (index file renamed away = value unreachable, then rewritten).
   A reader that opens the file between the two steps finds nothing. *)
From Coq Require Import String ZArith List Bool Arith.
From SK Require Import Model.Skel Spec.Cache.
Import ListNotations.
Open Scope Z_scope.

Inductive lockid : Type := LC (* cache_lock *) | LG (* global_lock *).

Inductive act : Type :=
| AAcq (l : lockid) | ARel (l : lockid)
| AMk                        (* isdir / makedirs of cache_base_path *)
| AOpen (k : Z)              (* shelve.open(<base>/<k>) *)
| ARead                      (* db.get('0') *)
| AWrite (v : Z)             (* db['0'] = v *)
| ADel                       (* db.pop('0', None) *)
| ADelKey (k : Z)            (* legacy: del db[<k>] *)
| ACommit1 | ACommit2        (* close: index renamed away / rewritten *)
| AClose
| AFail.                     (* an event the model does not understand *)

(* ------------------------------------------------------------------ *)
(* normal (exception-free) path through a skeleton *)
Inductive npmode : Type := NRun | NSkip (d : nat) | NRet.

Fixpoint remove1 (l : string) (held : list string) : list string :=
  match held with
  | [] => []
  | h :: t => if String.eqb h l then t else h :: remove1 l t
  end.

Definition unsupported : ev := RaiseE "unsupported".

Fixpoint np (m : npmode) (held : list string) (nopen : nat) (sk : list ev)
  : list ev :=
  match sk with
  | [] => []
  | e :: r =>
    match m with
    | NSkip d =>
        match e with
        | TryB => np (NSkip (S d)) held nopen r
        | TryE => match d with
                  | O => np NRun held nopen r
                  | S d' => np (NSkip d') held nopen r
                  end
        | TryElse | FinallyB =>
            match d with
            | O => np NRun held nopen r
            | S _ => np m held nopen r
            end
        | _ => np m held nopen r
        end
    | NRun =>
        match e with
        | Acq l => e :: np NRun (l :: held) nopen r
        | Rel l => e :: np NRun (remove1 l held) nopen r
        | Call f =>
            e :: np NRun held
                    (if String.eqb f "open" then S nopen
                     else if String.eqb f "close" then pred nopen
                     else nopen) r
        | Rd _ | Wr _ | LoopB | LoopE => e :: np NRun held nopen r
        | IfB | Else | IfE | TryB | TryE | TryElse | FinallyB =>
            np NRun held nopen r
        | Handler _ => np (NSkip 0) held nopen r
        | Ret => np NRet held nopen r
        | RaiseE _ | Break | Continue => unsupported :: np NRun held nopen r
        end
    | NRet =>
        (* `return` inside with-blocks: only the pending closers run *)
        match e with
        | Call f =>
            if String.eqb f "close" then
              match nopen with
              | O => np NRet held nopen r
              | S n => e :: np NRet held n r
              end
            else np NRet held nopen r
        | Rel l =>
            if existsb (String.eqb l) held
            then e :: np NRet (remove1 l held) nopen r
            else np NRet held nopen r
        | FinallyB => unsupported :: np NRet held nopen r
        | _ => np NRet held nopen r
        end
    end
  end.

Definition normal_path (sk : list ev) : list ev := np NRun [] 0%nat sk.

(* a loop left by `return` in its first pass: LoopB without LoopE *)
Definition drop_loopb (l : list ev) : list ev :=
  filter (fun e => match e with LoopB => false | _ => true end) l.

Fixpoint split_at_loope (l : list ev) : option (list ev * list ev) :=
  match l with
  | [] => None
  | LoopE :: r => Some ([], r)
  | e :: r => match split_at_loope r with
              | Some (b, p) => Some (e :: b, p)
              | None => None
              end
  end.

Fixpoint split_loop (l : list ev) : option (list ev * list ev * list ev) :=
  match l with
  | [] => None
  | LoopB :: r => match split_at_loope r with
                  | Some (b, p) => Some ([], b, p)
                  | None => None
                  end
  | e :: r => match split_loop r with
              | Some (pre, b, p) => Some (e :: pre, b, p)
              | None => None
              end
  end.

(* ------------------------------------------------------------------ *)
(* instantiation of skeleton events *)
Inductive kind : Type := KSet | KGet | KUnset | KNone.

Record skels : Type := {
  s_get : list ev; s_set : list ev; s_bulk : list ev; s_unset : list ev;
  s_bp : list ev }.

Definition lock_of (l : string) : option lockid :=
  if String.eqb l "cache" then Some LC
  else if String.eqb l "global" then Some LG else None.

Definition is_open_ev (e : ev) : bool :=
  match e with Call f => String.eqb f "open" | _ => false end.

(* bp: actions of the first evaluation of cache_base_path *)
Definition inst_ev (legacy : bool) (kd : kind) (bp : list act) (k v : Z)
           (first : bool) (e : ev) : list act :=
  match e with
  | Acq l => match lock_of l with Some x => [AAcq x] | None => [AFail] end
  | Rel l => match lock_of l with Some x => [ARel x] | None => [AFail] end
  | Call f =>
      if String.eqb f "open" then
        match kd with
        | KNone => [AFail]
        | _ => (if first then bp else []) ++ [AOpen k]
        end
      else if String.eqb f "close" then [ACommit1; ACommit2; AClose]
      else if String.eqb f "isdir" then []
      else if String.eqb f "makedirs" then [AMk]
      else [AFail]
  | Rd c => if String.eqb c "record" then [ARead] else [AFail]
  | Wr c =>
      if String.eqb c "record" then
        match kd with
        | KSet => [AWrite v]
        | KUnset => if legacy then [ADelKey k] else [ADel]
        | _ => [AFail]
        end
      else [AFail]
  | LoopB => []
  | _ => [AFail]
  end.

Fixpoint inst_list (legacy : bool) (kd : kind) (bp : list act) (k v : Z)
         (first : bool) (evs : list ev) : list act :=
  match evs with
  | [] => []
  | e :: r =>
      inst_ev legacy kd bp k v first e ++
      inst_list legacy kd bp k v (first && negb (is_open_ev e)) r
  end.

Definition has_open (evs : list ev) : bool := existsb is_open_ev evs.

Fixpoint inst_items (legacy : bool) (bp : list act) (first : bool)
         (body : list ev) (kvs : list (Z * Z)) : list act :=
  match kvs with
  | [] => []
  | (k, v) :: r =>
      inst_list legacy KSet bp k v first body ++
      inst_items legacy bp (first && negb (has_open body)) body r
  end.

Definition bp_acts (sk : skels) : list act :=
  inst_list false KNone [] 0 0 false (normal_path (s_bp sk)).

(* compile sk legacy first o : the actions of operation o; [first] = this
   process has not evaluated cache_base_path yet *)
Definition compile (sk : skels) (legacy : bool) (first : bool) (o : op)
  : list act :=
  let bp := bp_acts sk in
  match o with
  | OSet k v =>
      inst_list legacy KSet bp k v first (drop_loopb (normal_path (s_set sk)))
  | OGet k =>
      inst_list legacy KGet bp k 0 first (drop_loopb (normal_path (s_get sk)))
  | OUnset k =>
      inst_list legacy KUnset bp k 0 first
                (drop_loopb (normal_path (s_unset sk)))
  | OBulk kvs =>
      match split_loop (normal_path (s_bulk sk)) with
      | Some (pre, body, post) =>
          inst_list legacy KNone bp 0 0 false pre ++
          inst_items legacy bp first body kvs ++
          inst_list legacy KNone bp 0 0 false post
      | None => [AFail]
      end
  end.

(* does the operation evaluate cache_base_path ? *)
Definition uses_path (o : op) : bool :=
  match o with OBulk [] => false | _ => true end.

(* ------------------------------------------------------------------ *)
(* process-local state *)
Record local : Type := mkLocal {
  fo : option Z;        (* key of the open shelve, if any *)
  snap : option Z;      (* in-memory index: value of record '0' *)
  dirty : bool;         (* index modified *)
  rs : res }.           (* result so far; RFail = an exception propagates *)

Definition init_local : local := mkLocal None None false RAck.

Definition failed (l : local) : bool :=
  match rs l with RFail => true | _ => false end.

Definition fail (l : local) : local := mkLocal (fo l) (snap l) (dirty l) RFail.

(* effect of an action on the disk and the local state (locks apart) *)
Definition act_local (a : act) (d : store) (l : local) : store * local :=
  match a with
  | ACommit1 =>
      match fo l with
      | Some k => (if dirty l then upd d k None else d, l)
      | None => (d, fail l)
      end
  | ACommit2 =>
      match fo l with
      | Some k => (if dirty l then upd d k (snap l) else d, l)
      | None => (d, fail l)
      end
  | AClose =>
      match fo l with
      | Some _ => (d, mkLocal None None false (rs l))
      | None => (d, fail l)
      end
  | AAcq _ | ARel _ => (d, l)
  | _ =>
    if failed l then (d, l) else
    match a with
    | AOpen k =>
        match fo l with
        | None => (d, mkLocal (Some k) (d k) false (rs l))
        | Some _ => (d, fail l)
        end
    | ARead =>
        match fo l with
        | Some _ => (d, mkLocal (fo l) (snap l) (dirty l) (RVal (snap l)))
        | None => (d, fail l)
        end
    | AWrite v =>
        match fo l with
        | Some _ => (d, mkLocal (fo l) (Some v) true (rs l))
        | None => (d, fail l)
        end
    | ADel =>
        match fo l with
        | Some _ =>
            match snap l with
            | Some _ => (d, mkLocal (fo l) None true (rs l))
            | None => (d, l)
            end
        | None => (d, fail l)
        end
    | ADelKey k =>
        (* del db[<k>]: the file only ever holds record '0' (= key 0) *)
        match fo l with
        | Some _ =>
            if k =? 0 then
              match snap l with
              | Some _ => (d, mkLocal (fo l) None true (rs l))
              | None => (d, mkLocal (fo l) (snap l) true RFail)
              end
            else (d, mkLocal (fo l) (snap l) true RFail)
        | None => (d, fail l)
        end
    | AFail => (d, fail l)
    | _ => (d, l)
    end
  end.

(* an operation run alone, without interleaving *)
Fixpoint run_acts (acts : list act) (d : store) (l : local) : store * local :=
  match acts with
  | [] => (d, l)
  | a :: r => let '(d', l') := act_local a d l in run_acts r d' l'
  end.

(* ------------------------------------------------------------------ *)
Record proc : Type := mkProc {
  todo : list op;                    (* operations not started yet *)
  idx : nat;                         (* number of the current operation *)
  inited : bool;                     (* cache_base_path already evaluated *)
  cur : option (op * list act);      (* running operation, actions left *)
  loc : local }.

Definition idle_proc : proc := mkProc [] 0 false None init_local.

Record state : Type := mkState {
  procs : nat -> proc;
  disk : store;
  lockC : option nat;
  lockG : option nat;
  hist : list hev }.                 (* newest first *)

Definition setp (f : nat -> proc) (p : nat) (x : proc) : nat -> proc :=
  fun q => if Nat.eqb q p then x else f q.

Definition lock_get (s : state) (l : lockid) : option nat :=
  match l with LC => lockC s | LG => lockG s end.

Definition owner_is (o : option nat) (p : nat) : bool :=
  match o with Some q => Nat.eqb q p | None => false end.

Definition compiler := bool -> op -> list act.

(* one atomic step of process p; None = p cannot move (finished, or blocked
   on a lock held by some process) *)
Definition step (C : compiler) (s : state) (p : nat) : option state :=
  let pr := procs s p in
  match cur pr with
  | None =>
      match todo pr with
      | [] => None
      | o :: t =>
          Some (mkState
                  (setp (procs s) p
                        (mkProc t (idx pr) (inited pr || uses_path o)
                                (Some (o, C (negb (inited pr)) o))
                                init_local))
                  (disk s) (lockC s) (lockG s)
                  (HInv p (idx pr) o :: hist s))
      end
  | Some (o, []) =>
      Some (mkState
              (setp (procs s) p
                    (mkProc (todo pr) (S (idx pr)) (inited pr) None (loc pr)))
              (disk s) (lockC s) (lockG s)
              (HRes p (idx pr) o (rs (loc pr)) :: hist s))
  | Some (o, a :: rest) =>
      let adv := setp (procs s) p
                      (mkProc (todo pr) (idx pr) (inited pr) (Some (o, rest))
                              (loc pr)) in
      match a with
      | AAcq l =>
          if failed (loc pr) then
            Some (mkState adv (disk s) (lockC s) (lockG s) (hist s))
          else
            match lock_get s l with
            | Some _ => None
            | None =>
                match l with
                | LC => Some (mkState adv (disk s) (Some p) (lockG s) (hist s))
                | LG => Some (mkState adv (disk s) (lockC s) (Some p) (hist s))
                end
            end
      | ARel l =>
          if owner_is (lock_get s l) p then
            match l with
            | LC => Some (mkState adv (disk s) None (lockG s)
                                  (HLin p (idx pr) o (rs (loc pr)) :: hist s))
            | LG => Some (mkState adv (disk s) (lockC s) None (hist s))
            end
          else Some (mkState adv (disk s) (lockC s) (lockG s) (hist s))
      | _ =>
          let '(d', l') := act_local a (disk s) (loc pr) in
          Some (mkState
                  (setp (procs s) p
                        (mkProc (todo pr) (idx pr) (inited pr)
                                (Some (o, rest)) l'))
                  d' (lockC s) (lockG s) (hist s))
      end
  end.

Definition step_or_stay (C : compiler) (s : state) (p : nat) : state :=
  match step C s p with Some s' => s' | None => s end.

Definition run (C : compiler) (s : state) (sched : list nat) : state :=
  fold_left (step_or_stay C) sched s.

Definition init (progs : list (list op)) : state :=
  mkState (fun p => match nth_error progs p with
                    | Some ops => mkProc ops 0 false None init_local
                    | None => idle_proc
                    end)
          empty None None [].

Definition finished (pr : proc) : Prop := cur pr = None /\ todo pr = [].

Definition file_open (s : state) (p : nat) : Prop := fo (loc (procs s p)) <> None.

(* ------------------------------------------------------------------ *)
(* coarser steps for the correspondence with real processes: the real
   scheduling points are invocation, lock acquire/release, shelve.open,
   record access, close, response.  Actions without a point of their own
   are executed together with the preceding point. *)
Definition glued (a : act) : bool :=
  match a with AMk | ACommit2 | AClose => true | _ => false end.

Definition label (a : act) : Z :=
  match a with
  | AAcq LC => 1 | AAcq LG => 2 | ARel LG => 3
  | AOpen k => 100 + k
  | ARead => 5 | AWrite _ => 6 | ADel => 7 | ADelKey _ => 7
  | ACommit1 => 8 | ARel LC => 9
  | _ => 99
  end.

Definition next_label (s : state) (p : nat) : Z :=
  let pr := procs s p in
  match cur pr with
  | None => match todo pr with [] => -2 | _ => 0 end
  | Some (_, []) => 10
  | Some (_, a :: _) => label a
  end.

Definition next_glued (s : state) (p : nat) : bool :=
  match cur (procs s p) with
  | Some (_, a :: _) => glued a
  | _ => false
  end.

Fixpoint glue (C : compiler) (fuel : nat) (s : state) (p : nat) : state :=
  match fuel with
  | O => s
  | S f => if next_glued s p then glue C f (step_or_stay C s p) p else s
  end.

(* label executed (-1 blocked, -2 finished) and the new state *)
Definition mstep (C : compiler) (s : state) (p : nat) : Z * state :=
  match step C s p with
  | None => ((if next_label s p =? -2 then -2 else -1), s)
  | Some s' => (next_label s p, glue C 4 s' p)
  end.

Fixpoint mrun (C : compiler) (s : state) (sched : list nat)
  : list Z * state :=
  match sched with
  | [] => ([], s)
  | p :: r => let '(x, s') := mstep C s p in
              let '(xs, s'') := mrun C s' r in (x :: xs, s'')
  end.

(* run process p alone until it has finished (fuel = upper bound) *)
Fixpoint run_solo (C : compiler) (fuel : nat) (s : state) (p : nat) : state :=
  match fuel with
  | O => s
  | S f => match step C s p with
           | Some s' => run_solo C f s' p
           | None => s
           end
  end.

(* chronological responses *)
Definition responses (s : state) : list (nat * nat * res) :=
  fold_left (fun acc e => match e with
                          | HRes p i _ r => (p, i, r) :: acc
                          | _ => acc end) (hist s) [].
