(* Model of searchkit/results_store.py (definitions only).

   Python values are abstract ids (Z): the harness maps every Python value to
   its ==/hash class (1, 1.0 and True are one id).  `None` is [None : option
   Z] and is filtered by [add_to_store] exactly where the code filters it;
   everything below that point ([allocate_next], the dicts) only ever sees
   proper values.

   dict  = insertion-ordered association list (key, value), keys compared
           with Z.eqb (Python: hash + ==).
   data  : idx -> value          (UserDict.data of the store)
   vstore/tstore/sstore : value -> idx   (value_store, tag_store,
           sequence_id_store).

   The pre-allocator (f_preallocator) is an environment: its j-th call
   returns list(range(pstart j, pstart j + bsize)).  ResultStoreParallel's
   preallocate is the instance pstart j = value of alloc_pointer at the
   time of the j-th call (Model/Par.v models that one step by step). *)
From Coq Require Import ZArith List Bool.
From SK Require Import Model.Base.
Import ListNotations.
Open Scope Z_scope.

Definition dict := list (Z * Z).

(* d[k] / k in d *)
Fixpoint dget (k : Z) (d : dict) : option Z :=
  match d with
  | [] => None
  | (k', v) :: r => if k =? k' then Some v else dget k r
  end.

Definition dmem (k : Z) (d : dict) : bool :=
  match dget k d with Some _ => true | None => false end.

(* d[k] = v : an existing key keeps its position *)
Fixpoint dset (k v : Z) (d : dict) : dict :=
  match d with
  | [] => [(k, v)]
  | (k', v') :: r => if k =? k' then (k, v) :: r else (k', v') :: dset k v r
  end.

(* for idx, _value in self.data.items(): if value == _value: return idx *)
Fixpoint scan (v : Z) (d : dict) : option Z :=
  match d with
  | [] => None
  | (i, w) :: r => if v =? w then Some i else scan v r
  end.

(* list(range(p, p + n)) *)
Fixpoint range (p : Z) (n : nat) : list Z :=
  match n with O => [] | S m => p :: range (p + 1) m end.

(* the roll-over test of ResultStoreBase.allocations; Props/C15.v proves it
   equal to the expression generated from the source (Gen.Exprs) *)
Definition rollover (data_len bsize : Z) (last_used : bool) : bool :=
  negb (data_len =? 0) && (data_len mod bsize =? 0) && last_used.

Inductive ns := NsValue | NsTag | NsSeq.

Record store := mkStore {
  data : dict;
  vstore : dict;
  tstore : dict;
  sstore : dict;
  pre : bool;                  (* f_preallocator given *)
  bsz : Z;                     (* prealloc_block_size *)
  allocs : option (list Z);    (* self._allocations *)
  pstart : nat -> Z;           (* environment: start of the j-th block *)
  ngrants : nat                (* calls of f_preallocator so far *)
}.

Definition init_plain : store :=
  mkStore [] [] [] [] false 1000 None (fun _ => 0) 0.

Definition init_pre (bsize : Z) (starts : nat -> Z) : store :=
  mkStore [] [] [] [] true bsize None starts 0.

Definition set_data (s : store) (d : dict) : store :=
  mkStore d (vstore s) (tstore s) (sstore s) (pre s) (bsz s) (allocs s)
          (pstart s) (ngrants s).

Definition get_ns (s : store) (n : ns) : dict :=
  match n with NsValue => vstore s | NsTag => tstore s | NsSeq => sstore s end.

Definition set_ns (s : store) (n : ns) (d : dict) : store :=
  match n with
  | NsValue => mkStore (data s) d (tstore s) (sstore s) (pre s) (bsz s)
                       (allocs s) (pstart s) (ngrants s)
  | NsTag => mkStore (data s) (vstore s) d (sstore s) (pre s) (bsz s)
                     (allocs s) (pstart s) (ngrants s)
  | NsSeq => mkStore (data s) (vstore s) (tstore s) d (pre s) (bsz s)
                     (allocs s) (pstart s) (ngrants s)
  end.

(* self._allocations = block  (the value f_preallocator returned) *)
Definition set_allocs (s : store) (b : list Z) : store :=
  mkStore (data s) (vstore s) (tstore s) (sstore s) (pre s) (bsz s) (Some b)
          (pstart s) (ngrants s).

(* the condition under which the `allocations` property calls
   f_preallocator: nothing allocated yet, or the roll-over test.
   ([last a 0]: a block is never empty for bsize >= 1.) *)
Definition alloc_needed (s : store) : bool :=
  match allocs s with
  | None => true
  | Some a => rollover (lenZ (data s)) (bsz s) (dmem (last a 0) (data s))
  end.

(* one call of f_preallocator *)
Definition grant (s : store) : store :=
  mkStore (data s) (vstore s) (tstore s) (sstore s) (pre s) (bsz s)
          (Some (range (pstart s (ngrants s)) (Z.to_nat (bsz s))))
          (pstart s) (S (ngrants s)).

(* the `allocations` property: returns the state after the (possible) call
   of f_preallocator; its value is [allocs] of that state, None without a
   preallocator *)
Definition allocations (s : store) : store :=
  if pre s then (if alloc_needed s then grant s else s) else s.

Definition allocations_value (s : store) : option (list Z) :=
  if pre s then allocs s else None.

Inductive res (A : Type) : Type :=
| Ok (a : A)
| ErrAlloc.            (* ResultStoreException("failed to get store allocation") *)
Arguments Ok {A} a.
Arguments ErrAlloc {A}.

(* second half of _allocate_next, once self.allocations has been evaluated
   to [blk]: pick the slot and store the value *)
Definition alloc_pick (s : store) (blk : option (list Z)) (v : Z)
  : res (store * Z) :=
  match blk with
  | Some (i0 :: b) =>                           (* `if self.allocations:` *)
      match find (fun i => negb (dmem i (data s))) (i0 :: b) with
      | Some cur => Ok (set_data s (dset cur v (data s)), cur)
      | None => ErrAlloc
      end
  | _ =>                                         (* None or [] : falsy *)
      let cur := lenZ (data s) in
      Ok (set_data s (dset cur v (data s)), cur)
  end.

(* ResultStoreBase._allocate_next.  `self.allocations` is evaluated twice
   (once in the `if`, once by the `for`), as in the source. *)
Definition allocate_next (s : store) (v : Z) : res (store * Z) :=
  match scan v (data s) with
  | Some i => Ok (s, i)
  | None =>
      let s1 := allocations s in
      match allocations_value s1 with
      | Some (_ :: _) =>
          let s2 := allocations s1 in
          alloc_pick s2 (allocations_value s2) v
      | other => alloc_pick s1 other v
      end
  end.

(* ResultStoreBase._add_to_store(value, store) with idx=None *)
Definition add_to_store (s : store) (n : ns) (x : option Z)
  : res (store * option Z) :=
  match x with
  | None => Ok (s, None)
  | Some v =>
      match dget v (get_ns s n) with
      | Some i => Ok (s, Some i)
      | None =>
          match allocate_next s v with
          | ErrAlloc => ErrAlloc
          | Ok (s1, i) => Ok (set_ns s1 n (dset v i (get_ns s1 n)), Some i)
          end
      end
  end.

(* one add(tag, sequence_id, value); the result is (tag_idx, seq_idx,
   value_idx) and the value is stored FIRST, as in the source *)
Definition op := (option Z * option Z * option Z)%type.
Definition ret := (option Z * option Z * option Z)%type.

Definition add (s : store) (o : op) : res (store * ret) :=
  let '(tag, sq, value) := o in
  match add_to_store s NsValue value with
  | ErrAlloc => ErrAlloc
  | Ok (s1, vi) =>
      match add_to_store s1 NsTag tag with
      | ErrAlloc => ErrAlloc
      | Ok (s2, ti) =>
          match add_to_store s2 NsSeq sq with
          | ErrAlloc => ErrAlloc
          | Ok (s3, si) => Ok (s3, (ti, si, vi))
          end
      end
  end.

Fixpoint run (s : store) (ops : list op) : res (store * list ret) :=
  match ops with
  | [] => Ok (s, [])
  | o :: r =>
      match add s o with
      | ErrAlloc => ErrAlloc
      | Ok (s1, x) =>
          match run s1 r with
          | ErrAlloc => ErrAlloc
          | Ok (s2, xs) => Ok (s2, x :: xs)
          end
      end
  end.

(* store[idx] / store.get(idx) *)
Definition lookup (s : store) (i : Z) : option Z := dget i (data s).

(* ---- the shared (manager-backed) side of ResultStoreParallel ---- *)
Record shared := mkShared {
  sh_data : dict; sh_vstore : dict; sh_tstore : dict; sh_sstore : dict }.

Definition shared_empty : shared := mkShared [] [] [] [].

(* for idx, value in local.data.items(): self.data[idx] = value *)
Definition merge_data (local sh : dict) : dict :=
  fold_left (fun acc p => dset (fst p) (snd p) acc) local sh.

(* for value, idx in local.X.items(): self._add_to_store(value, self.X, idx)
   i.e. an existing entry of the shared reverse map wins *)
Definition merge_rev (local sh : dict) : dict :=
  fold_left (fun acc p => if dmem (fst p) acc then acc
                          else dset (fst p) (snd p) acc) local sh.

Definition sync (l : store) (sh : shared) : shared :=
  mkShared (merge_data (data l) (sh_data sh))
           (merge_rev (vstore l) (sh_vstore sh))
           (merge_rev (tstore l) (sh_tstore sh))
           (merge_rev (sstore l) (sh_sstore sh)).

(* unproxy_results: deep copies of the four dicts *)
Definition unproxy (sh : shared) : shared := sh.

Definition sh_lookup (sh : shared) (i : Z) : option Z := dget i (sh_data sh).

(* blocks handed to this store so far, oldest first *)
Definition granted (s : store) : list (list Z) :=
  map (fun j => range (pstart s j) (Z.to_nat (bsz s))) (seq 0 (ngrants s)).
