(* C15 / C05 - T1 tie between the hand-written models (Model/Store.v,
   Model/Result.v) and the TREE skeletons the translator regenerates from
   results_store.py / result.py (Gen/SkelTree.v).  Definitions only.

   (a) expected shapes: [calls_only_list] of a tree (Rd/Wr erased; calls,
       returns, raises and the if / loop nesting kept), or the whole tree
       where the accesses themselves are the point (sync, unproxy).
   (b) a walker of such trees over the MODEL's state.  Every event is the
       model operation it stands for; every `if` is decided by the model's
       condition, supplied in source order together with the set of cells
       the source must read for that test - EXACTLY that set (a test that
       consults another cell is a different test); a loop must have the
       form "read*, if <test>: leave" and means "first element satisfying
       the test"; a `raise` that directly follows a loop is its `else`
       clause.  Reads before calls / writes / returns, logging and local
       renamings do not matter; a dropped, re-ordered, re-nested or changed
       test, call or write makes the walk fail or differ from the model, and
       the equality theorems in Props/C15.v stop checking. *)
From Coq Require Import String ZArith List Bool Arith.
From SK Require Import Model.Base Model.Skel Model.Stm Model.SequenceSk
     Model.Store.
Import ListNotations.
Open Scope list_scope.

Definition in_strs (a : string) (l : list string) : bool :=
  existsb (String.eqb a) l.

(* the two read sets are equal as sets *)
Definition reads_eq (need have : list string) : bool :=
  forallb (fun a => in_strs a have) need && forallb (fun a => in_strs a need) have.

Definition reads_has (need have : list string) : bool :=
  forallb (fun a => in_strs a have) need.

(* `if`s outside loops, in source order *)
Fixpoint n_ifs (s : stm) : nat :=
  let go := fix go (l : list stm) : nat :=
              match l with [] => O | x :: r => (n_ifs x + go r)%nat end in
  match s with
  | SIf a b => S (go a + go b)%nat
  | _ => O
  end.
Fixpoint n_ifs_list (l : list stm) : nat :=
  match l with [] => O | x :: r => (n_ifs x + n_ifs_list r)%nat end.

Section Walk.
  Variable St : Type.
  Variable reads : St -> list string.     (* cells read since the last test / effect *)
  Variable clear : St -> St.
  Variable ev_fn : ev -> St -> option St.
  (* a whole loop: new state, and whether the FUNCTION returned from it *)
  Variable loop_fn : list stm -> St -> option (St * bool).
  (* raise X: new state, and whether the function terminated *)
  Variable raise_fn : string -> St -> option (St * bool).
  (* return *)
  Variable exit_fn : St -> option St.

  Definition guard := (list string * (St -> bool))%type.

  Inductive wres := WOk (s : St) (gs : list guard) (exited : bool) | WErr.

  Fixpoint walk (s : stm) (st : St) (gs : list guard) : wres :=
    let go := fix go (l : list stm) (st : St) (gs : list guard) : wres :=
      match l with
      | [] => WOk st gs false
      | x :: r =>
          match walk x st gs with
          | WOk st1 gs1 false => go r st1 gs1
          | other => other
          end
      end in
    match s with
    | SEv e =>
        match ev_fn e st with Some st' => WOk st' gs false | None => WErr end
    | SExit =>
        match exit_fn st with Some st' => WOk st' gs true | None => WErr end
    | SRaise x =>
        match raise_fn x st with
        | Some (st', stop) => WOk st' gs stop
        | None => WErr
        end
    | SLoop b =>
        match loop_fn b st with
        | Some (st', ret) => WOk st' gs ret
        | None => WErr
        end
    | SIf a b =>
        match gs with
        | [] => WErr
        | (need, cond) :: gs' =>
            if reads_eq need (reads st) then
              if cond st then
                match go a (clear st) gs' with
                | WOk st1 gs1 ex => WOk st1 (skipn (n_ifs_list b) gs1) ex
                | WErr => WErr
                end
              else go b (clear st) (skipn (n_ifs_list a) gs')
            else WErr
        end
    | STry _ _ _ _ => WErr
    end.

  Fixpoint walk_list (l : list stm) (st : St) (gs : list guard) : wres :=
    match l with
    | [] => WOk st gs false
    | x :: r =>
        match walk x st gs with
        | WOk st1 gs1 false => walk_list r st1 gs1
        | other => other
        end
    end.
End Walk.
Arguments WOk {St} s gs exited.
Arguments WErr {St}.

Local Open Scope string_scope.

(* ================================================== ResultStoreBase.allocations *)
Record ast := mkAst {
  a_s : store;
  a_pending : option (list Z);     (* value returned by f_preallocator, not yet assigned *)
  a_ret : option (list Z);         (* the property's value *)
  a_reads : list string }.

Definition a_note (st : ast) (c : string) : ast :=
  mkAst (a_s st) (a_pending st) (a_ret st) (c :: a_reads st).
Definition a_clear (st : ast) : ast :=
  mkAst (a_s st) (a_pending st) (a_ret st) [].

Definition a_ev (e : ev) (st : ast) : option ast :=
  let s := a_s st in
  match e with
  | Rd c => Some (a_note st c)
  | Call f =>
      (* self.f_preallocator(self.prealloc_block_size) *)
      if String.eqb f "preallocator" && reads_has ["bsize"] (a_reads st) then
        Some (mkAst (mkStore (data s) (vstore s) (tstore s) (sstore s) (pre s)
                             (bsz s) (allocs s) (pstart s) (S (ngrants s)))
                    (Some (range (pstart s (ngrants s)) (Z.to_nat (bsz s))))
                    (a_ret st) [])
      else None
  | Wr c =>
      (* self._allocations = <what the preallocator returned> *)
      if String.eqb c "current_block" then
        match a_pending st with
        | Some blk =>
            Some (mkAst (mkStore (data s) (vstore s) (tstore s) (sstore s)
                                 (pre s) (bsz s) (Some blk) (pstart s)
                                 (ngrants s))
                        None (a_ret st) [])
        | None => None
        end
      else None
  | _ => None
  end.

(* return None  |  return self._allocations *)
Definition a_exit (st : ast) : option ast :=
  if reads_eq [] (a_reads st)
  then Some (mkAst (a_s st) (a_pending st) None [])
  else if reads_eq ["current_block"] (a_reads st)
  then Some (mkAst (a_s st) (a_pending st) (allocs (a_s st)) [])
  else None.

Definition a_guards : list (guard ast) :=
  [ (* if not self.f_preallocator: *)
    ([], fun st => negb (pre (a_s st)));
    (* if self._allocations is None: *)
    (["current_block"],
     fun st => match allocs (a_s st) with None => true | Some _ => false end);
    (* elif self.data and len(self.data) % bsize == 0 and self._allocations[-1] in self.data: *)
    (["data"; "bsize"; "current_block"],
     fun st => match allocs (a_s st) with
               | Some a => rollover (lenZ (data (a_s st))) (bsz (a_s st))
                                    (dmem (last a 0%Z) (data (a_s st)))
               | None => false
               end) ].

Definition no_loop {St} (b : list stm) (st : St) : option (St * bool) := None.
Definition no_raise {St} (x : string) (st : St) : option (St * bool) := None.

Definition run_allocations (t : list stm) (s : store)
  : option (store * option (list Z)) :=
  match walk_list ast a_reads a_clear a_ev no_loop no_raise a_exit t
                  (mkAst s None None []) a_guards with
  | WOk st _ true => match a_pending st with
                     | None => Some (a_s st, a_ret st)
                     | Some _ => None
                     end
  | _ => None
  end.

(* ================================================== _allocate_next *)
Record nst := mkNst {
  n_s : store;
  n_v : Z;                          (* `value` *)
  n_items : option (list (Z * Z));  (* self.data.items() *)
  n_blk : option (list Z);          (* last value of self.allocations *)
  n_cur : option Z;                 (* `current` *)
  n_broke : bool;                   (* the last loop was left by `break` *)
  n_ret : option Z;                 (* value returned *)
  n_err : bool;                     (* ResultStoreException raised *)
  n_reads : list string }.

Definition n_note (st : nst) (c : string) : nst :=
  mkNst (n_s st) (n_v st) (n_items st) (n_blk st) (n_cur st) (n_broke st)
        (n_ret st) (n_err st) (c :: n_reads st).
Definition n_clear (st : nst) : nst :=
  mkNst (n_s st) (n_v st) (n_items st) (n_blk st) (n_cur st) (n_broke st)
        (n_ret st) (n_err st) [].

Definition n_ev (e : ev) (st : nst) : option nst :=
  match e with
  | Call f =>
      if String.eqb f "scan_data"
      then Some (mkNst (n_s st) (n_v st) (Some (data (n_s st))) (n_blk st)
                       (n_cur st) (n_broke st) (n_ret st) (n_err st) [])
      else None
  | Rd c =>
      if String.eqb c "allocations" then
        (* evaluating the property: Model.Store.allocations (tied to
           tk_allocations separately) *)
        let s1 := allocations (n_s st) in
        Some (mkNst s1 (n_v st) (n_items st) (allocations_value s1) (n_cur st)
                    (n_broke st) (n_ret st) (n_err st) (c :: n_reads st))
      else Some (n_note st c)
  | Wr c =>
      (* self.data[current] = value ; current = len(self.data) when no block *)
      if String.eqb c "data" && reads_has ["value"] (n_reads st) then
        let s := n_s st in
        let cur := match n_cur st with
                   | Some c0 => Some c0
                   | None => if in_strs "data" (n_reads st)
                             then Some (lenZ (data s)) else None
                   end in
        match cur with
        | Some c0 =>
            Some (mkNst (set_data s (dset c0 (n_v st) (data s))) (n_v st)
                        (n_items st) (n_blk st) (Some c0) (n_broke st)
                        (n_ret st) (n_err st) [])
        | None => None
        end
      else None
  | _ => None
  end.

(* loops of the form [read c; if <test>: leave] *)
Definition n_loop (b : list stm) (st : nst) : option (nst * bool) :=
  match b with
  | [SEv (Rd c); SIf [SExit] []] =>
      if String.eqb c "value" then
        (* for idx, _value in items: if value == _value: return idx *)
        match n_items st with
        | Some items =>
            match find (fun p => Z.eqb (n_v st) (snd p)) items with
            | Some p => Some (mkNst (n_s st) (n_v st) None (n_blk st) (n_cur st)
                                    false (Some (fst p)) (n_err st) [], true)
            | None => Some (mkNst (n_s st) (n_v st) None (n_blk st) (n_cur st)
                                  false (n_ret st) (n_err st) [], false)
            end
        | None => None
        end
      else if String.eqb c "data" then
        (* for idx in self.allocations: if idx not in self.data: current = idx; break *)
        match n_blk st with
        | Some blk =>
            match find (fun i => negb (dmem i (data (n_s st)))) blk with
            | Some i => Some (mkNst (n_s st) (n_v st) (n_items st) (n_blk st)
                                    (Some i) true (n_ret st) (n_err st) [], false)
            | None => Some (mkNst (n_s st) (n_v st) (n_items st) (n_blk st)
                                  (n_cur st) false (n_ret st) (n_err st) [], false)
            end
        | None => None
        end
      else None
  | _ => None
  end.

(* the raise after the block walk is its `else` clause *)
Definition n_raise (x : string) (st : nst) : option (nst * bool) :=
  if String.eqb x "ResultStoreException" then
    if n_broke st
    then Some (mkNst (n_s st) (n_v st) (n_items st) (n_blk st) (n_cur st) false
                     (n_ret st) (n_err st) (n_reads st), false)
    else Some (mkNst (n_s st) (n_v st) (n_items st) (n_blk st) (n_cur st) false
                     (n_ret st) true (n_reads st), true)
  else None.

(* return current *)
Definition n_exit (st : nst) : option nst :=
  match n_cur st with
  | Some c => Some (mkNst (n_s st) (n_v st) (n_items st) (n_blk st) (n_cur st)
                          (n_broke st) (Some c) (n_err st) [])
  | None => None
  end.

Definition n_guards : list (guard nst) :=
  [ (* if self.allocations: *)
    (["allocations"],
     fun st => match n_blk st with Some (_ :: _) => true | _ => false end) ].

Definition run_allocate_next (t : list stm) (s : store) (v : Z)
  : option (res (store * Z)) :=
  match walk_list nst n_reads n_clear n_ev n_loop n_raise n_exit t
                  (mkNst s v None None None false None false []) n_guards with
  | WOk st _ true =>
      if n_err st then Some ErrAlloc
      else match n_ret st with
           | Some i => Some (Ok (n_s st, i))
           | None => None
           end
  | _ => None
  end.

(* ================================================== _add_to_store (idx=None) *)
Record dst := mkDst {
  d_s : store;
  d_n : ns;                      (* which reverse map `store` is *)
  d_x : option Z;                (* `value` *)
  d_idx : option Z;              (* `idx` *)
  d_pending : option Z;          (* result of _allocate_next, not yet assigned *)
  d_ret : option Z;
  d_err : bool;
  d_reads : list string }.

Definition d_note (st : dst) (c : string) : dst :=
  mkDst (d_s st) (d_n st) (d_x st) (d_idx st) (d_pending st) (d_ret st)
        (d_err st) (c :: d_reads st).
Definition d_clear (st : dst) : dst :=
  mkDst (d_s st) (d_n st) (d_x st) (d_idx st) (d_pending st) (d_ret st)
        (d_err st) [].

Definition d_ev (e : ev) (st : dst) : option dst :=
  match e with
  | Rd c => Some (d_note st c)
  | Call f =>
      (* self._allocate_next(value) *)
      if String.eqb f "allocate_next" && reads_has ["value"] (d_reads st) then
        match d_x st with
        | Some v =>
            match allocate_next (d_s st) v with
            | Ok (s1, i) => Some (mkDst s1 (d_n st) (d_x st) (d_idx st) (Some i)
                                        (d_ret st) (d_err st) [])
            | ErrAlloc => Some (mkDst (d_s st) (d_n st) (d_x st) (d_idx st) None
                                      (d_ret st) true [])
            end
        | None => None
        end
      else None
  | Wr c =>
      if String.eqb c "idx" then
        (* idx = self._allocate_next(value) *)
        if d_err st then Some st else
        match d_pending st with
        | Some i => Some (mkDst (d_s st) (d_n st) (d_x st) (Some i) None
                                (d_ret st) (d_err st) [])
        | None => None
        end
      else if String.eqb c "reverse_map"
              && reads_has ["idx"; "value"] (d_reads st) then
        (* store[value] = idx *)
        if d_err st then Some st else
        match d_x st, d_idx st with
        | Some v, Some i =>
            Some (mkDst (set_ns (d_s st) (d_n st)
                                (dset v i (get_ns (d_s st) (d_n st))))
                        (d_n st) (d_x st) (d_idx st) (d_pending st) (d_ret st)
                        (d_err st) [])
        | _, _ => None
        end
      else None
  | _ => None
  end.

(* return None | return store[value] | return idx *)
Definition d_exit (st : dst) : option dst :=
  let set r := Some (mkDst (d_s st) (d_n st) (d_x st) (d_idx st) (d_pending st)
                           r (d_err st) []) in
  if d_err st then Some st
  else if reads_eq [] (d_reads st) then set None
  else if reads_eq ["value"; "reverse_map"] (d_reads st) then
    match d_x st with
    | Some v => set (dget v (get_ns (d_s st) (d_n st)))
    | None => None
    end
  else if reads_eq ["idx"] (d_reads st) then set (d_idx st)
  else None.

Definition d_guards : list (guard dst) :=
  [ (* if value is None: *)
    (["value"], fun st => match d_x st with None => true | Some _ => false end);
    (* if value in store: *)
    (["value"; "reverse_map"],
     fun st => match d_x st with
               | Some v => dmem v (get_ns (d_s st) (d_n st))
               | None => false
               end);
    (* if idx is None: *)
    (["idx"], fun st => match d_idx st with None => true | Some _ => false end) ].

Definition run_add_to_store (t : list stm) (s : store) (n : ns) (x : option Z)
  : option (res (store * option Z)) :=
  match walk_list dst d_reads d_clear d_ev no_loop no_raise d_exit t
                  (mkDst s n x None None None false []) d_guards with
  | WOk st _ true =>
      if d_err st then Some ErrAlloc else Some (Ok (d_s st, d_ret st))
  | _ => None
  end.

(* ================================================== ResultStoreBase.add *)
Record sst := mkSst {
  s_s : store;
  s_op : op;                                   (* (tag, sequence_id, value) *)
  s_v : option (option Z);                     (* value_idx, once computed *)
  s_t : option (option Z);
  s_q : option (option Z);
  s_err : bool;
  s_reads : list string }.

Definition s_note (st : sst) (c : string) : sst :=
  mkSst (s_s st) (s_op st) (s_v st) (s_t st) (s_q st) (s_err st) (c :: s_reads st).
Definition s_clear (st : sst) : sst :=
  mkSst (s_s st) (s_op st) (s_v st) (s_t st) (s_q st) (s_err st) [].

(* the reverse map passed to _add_to_store names the namespace, and with it
   which of the three arguments is being stored *)
Definition s_ev (e : ev) (st : sst) : option sst :=
  match e with
  | Rd c => Some (s_note st c)
  | Call f =>
      if String.eqb f "add_to_store" then
        if s_err st then Some st else
        let '(tag, sq, value) := s_op st in
        let go n x :=
            match add_to_store (s_s st) n x with
            | ErrAlloc => Some (mkSst (s_s st) (s_op st) (s_v st) (s_t st)
                                      (s_q st) true [])
            | Ok (s1, i) =>
                Some (match n with
                      | NsValue => mkSst s1 (s_op st) (Some i) (s_t st) (s_q st)
                                         false []
                      | NsTag => mkSst s1 (s_op st) (s_v st) (Some i) (s_q st)
                                       false []
                      | NsSeq => mkSst s1 (s_op st) (s_v st) (s_t st) (Some i)
                                       false []
                      end)
            end in
        if reads_eq ["value_store"] (s_reads st) then go NsValue value
        else if reads_eq ["tag_store"] (s_reads st) then go NsTag tag
        else if reads_eq ["sequence_id_store"] (s_reads st) then go NsSeq sq
        else None
      else None
  | _ => None
  end.

Definition run_store_add (t : list stm) (s : store) (o : op)
  : option (res (store * ret)) :=
  match walk_list sst s_reads s_clear s_ev no_loop no_raise (fun st => Some st) t
                  (mkSst s o None None None false []) [] with
  | WOk st _ true =>
      if s_err st then Some ErrAlloc
      else match s_v st, s_t st, s_q st with
           | Some vi, Some ti, Some si => Some (Ok (s_s st, (ti, si, vi)))
           | _, _, _ => None
           end
  | _ => None
  end.

(* ================================================== (a) expected shapes *)
(* _add_to_store: the None test first; the reverse-map hit returns before
   any allocation; then allocate; (then the reverse-map write - an access,
   checked by the walker) *)
Definition expected_add_to_store : list stm :=
  [ SIf [SExit] [];                               (* if value is None: return None *)
    SIf [SExit] [];                               (* if value in store: return store[value] *)
    SIf [SEv (Call "allocate_next")] [];          (* if idx is None: idx = self._allocate_next(value) *)
    SExit ].                                      (* store[value] = idx; return idx *)

(* _allocate_next: the equality scan over data first, then the allocation:
   with a block, the walk that leaves at the first free index, else raise;
   without, len(data); one write of data *)
Definition expected_allocate_next : list stm :=
  [ SEv (Call "scan_data"); SLoop [SIf [SExit] []];
    SIf [SLoop [SIf [SExit] []]; SRaise "ResultStoreException"] [];
    SExit ].

Definition expected_allocations : list stm :=
  [ SIf [SExit] [];
    SIf [SEv (Call "preallocator")] [SIf [SEv (Call "preallocator")] []];
    SExit ].

(* add: _add_to_store three times (value, tag, sequence id: the walker
   checks which map each call gets) *)
Definition expected_store_add : list stm :=
  [ SEv (Call "add_to_store"); SEv (Call "add_to_store");
    SEv (Call "add_to_store"); SExit ].

(* sync / unproxy_results / preallocate: the accesses ARE the point: whole
   trees *)
Definition expected_sync : list stm :=
  [ SEv (Acq "store");
    SLoop [SIf [SEv (Wr "data")] []];
    SLoop [SEv (Rd "value_store"); SEv (Call "add_to_store")];
    SLoop [SEv (Rd "tag_store"); SEv (Call "add_to_store")];
    SLoop [SEv (Rd "sequence_id_store"); SEv (Call "add_to_store")];
    SEv (Rel "store") ].

Definition expected_preallocate : list stm :=
  [ SEv (Acq "store"); SEv (Rd "alloc_pointer"); SEv (Rd "alloc_pointer");
    SEv (Wr "alloc_pointer"); SEv (Rel "store"); SExit ].

(* unproxy: each of the four dicts is read and re-assigned under the lock;
   reads for logging are erased, writes and lock operations kept *)
Fixpoint writes_only (l : list stm) : list stm :=
  match l with
  | [] => []
  | SEv (Rd _) :: r => writes_only r
  | x :: r => x :: writes_only r
  end.

Definition expected_unproxy_writes : list stm :=
  [ SEv (Acq "store"); SEv (Wr "data"); SEv (Wr "value_store");
    SEv (Wr "tag_store"); SEv (Wr "sequence_id_store"); SEv (Rel "store") ].

(* ---- result.py (C05) ---- *)
Definition expected_store_result : list stm :=
  [ SEv (Call "groups");
    SIf [SLoop [SEv (Call "group"); SEv (Call "save_part")]]
        [SEv (Call "group"); SEv (Call "save_part")] ].

Definition expected_save_part : list stm :=
  [ SIf [SIf [SEv (Call "index_to_name"); SEv (Call "ensure_type")] []] [];
    SEv (Call "store_add"); SIf [] []; SEv (Call "parts_append") ].

Definition expected_get_store_id : list stm :=
  [ SLoop [SIf [SIf [SExit] []] [SIf [SExit] []]; SIf [SExit] []]; SExit ].

Definition expected_result_get : list stm :=
  [ SEv (Call "get_store_id"); SIf [SExit] []; SExit ].

(* ================================================== round 3: the remaining
   functions of results_store.py / result.py *)

(* erase reads everywhere (writes, calls, lock operations, raises, returns
   and the nesting stay) *)
Fixpoint no_reads (s : stm) : list stm :=
  let go := fix go (l : list stm) : list stm :=
              match l with [] => [] | x :: r => (no_reads x ++ go r)%list end in
  match s with
  | SEv (Rd _) => []
  | SEv e => [SEv e]
  | SRaise x => [SRaise x]
  | SExit => [SExit]
  | SIf a b => [SIf (go a) (go b)]
  | SLoop b => [SLoop (go b)]
  | STry b hs o f =>
      [STry (go b) (map (fun h => (fst h, go (snd h))) hs) (go o) (go f)]
  end.
Fixpoint no_reads_list (l : list stm) : list stm :=
  match l with [] => [] | x :: r => (no_reads x ++ no_reads_list r)%list end.

(* ---- ResultStoreParallel.local: who may use a worker-local store ---- *)
Inductive local_res :=
| LNew        (* a new ResultStoreSimple(f_preallocator=self.preallocate,
                 prealloc_block_size=self.prealloc_block_size) owned by pid *)
| LOwn        (* the store this process created *)
| LForeign.   (* ResultStoreException: created by another process *)

Definition local_model (owner : option Z) (pid : Z) : local_res :=
  match owner with
  | None => LNew
  | Some o => if Z.eqb o pid then LOwn else LForeign
  end.

Record lst := mkLst {
  l_owner : option Z; l_pid : option Z;   (* pid once os.getpid() was called *)
  l_made : bool;                          (* ResultStoreSimple(...) built, not yet assigned *)
  l_new : bool; l_raised : bool; l_reads : list string }.

Definition l_ev (e : ev) (st : lst) : option lst :=
  match e with
  | Rd c => Some (mkLst (l_owner st) (l_pid st) (l_made st) (l_new st)
                        (l_raised st) (c :: l_reads st))
  | Call f =>
      if String.eqb f "getpid" then
        Some (mkLst (l_owner st) (Some 0%Z) (l_made st) (l_new st) (l_raised st)
                    (l_reads st))
      else if String.eqb f "new_local_store"
              && reads_has ["preallocate_fn"; "bsize"] (l_reads st) then
        Some (mkLst (l_owner st) (l_pid st) true (l_new st) (l_raised st) [])
      else None
  | Wr c =>
      (* self._local_store = {'store': store, 'owner': pid} - only ever
         right after building a new store *)
      if String.eqb c "local_store" && l_made st then
        match l_pid st with
        | Some _ => Some (mkLst (l_owner st) (l_pid st) false true (l_raised st) [])
        | None => None
        end
      else None
  | _ => None
  end.

Definition l_raise (x : string) (st : lst) : option (lst * bool) :=
  if String.eqb x "ResultStoreException"
  then Some (mkLst (l_owner st) (l_pid st) (l_made st) (l_new st) true
                   (l_reads st), true)
  else None.

Definition l_exit (st : lst) : option lst :=
  if reads_eq ["local_store"] (l_reads st) then Some st else None.

(* [pid] is abstract: the tests compare the recorded owner with it *)
Definition l_guards (pid : Z) : list (guard lst) :=
  [ (* if self._local_store is None: *)
    (["local_store"],
     fun st => match l_owner st with None => true | Some _ => false end);
    (* elif self._local_store['owner'] != pid: *)
    (["local_store"],
     fun st => match l_owner st with
               | Some o => negb (Z.eqb o pid)
               | None => false
               end) ].

Definition run_local (t : list stm) (owner : option Z) (pid : Z)
  : option local_res :=
  match walk_list lst l_reads
                  (fun st => mkLst (l_owner st) (l_pid st) (l_made st) (l_new st)
                                   (l_raised st) [])
                  l_ev no_loop l_raise l_exit t
                  (mkLst owner None false false false []) (l_guards pid) with
  | WOk st _ true =>
      match l_pid st with
      | None => None                       (* pid never obtained *)
      | Some _ =>
          if l_raised st then Some LForeign
          else if l_new st then Some LNew else Some LOwn
      end
  | _ => None
  end.

Definition expected_rsp_local : list stm :=
  [ SEv (Call "getpid");
    SIf [SEv (Call "new_local_store"); SEv (Wr "local_store")]
        [SIf [SRaise "ResultStoreException"] []];
    SExit ].

(* ---- the other ResultStoreParallel / ResultStoreBase functions ---- *)
(* __init__: the base initialiser first, then the pointer and the four dicts
   replaced by manager objects, no local store yet *)
Definition expected_rsp_init : list stm :=
  [ SEv (Call "base_init"); SEv (Call "mgr_value"); SEv (Wr "alloc_pointer");
    SEv (Call "mgr_dict"); SEv (Wr "data");
    SEv (Call "mgr_dict"); SEv (Wr "value_store");
    SEv (Call "mgr_dict"); SEv (Wr "tag_store");
    SEv (Call "mgr_dict"); SEv (Wr "sequence_id_store");
    SEv (Wr "local_store") ].

(* _allocate_next: the base function under the store lock, nothing else *)
Definition expected_rsp_allocate_next : list stm :=
  [ SEv (Acq "store"); SEv (Call "base_allocate_next"); SExit;
    SEv (Rel "store") ].

(* add: delegated to the local store, the shared dicts untouched *)
Definition expected_rsp_add : list stm := [ SEv (Call "local_add"); SExit ].

(* sync, seen from the worker-local tables: each is read once (iterated),
   none is written / cleared *)
Definition expected_sync_local : list stm :=
  [ SEv (Acq "store");
    SEv (Rd "local_data"); SLoop [SIf [] []];
    SEv (Rd "local_value_store"); SLoop [];
    SEv (Rd "local_tag_store"); SLoop [];
    SEv (Rd "local_sequence_id_store"); SLoop [];
    SEv (Rel "store") ].

(* ---- result.py ---- *)
Definition expected_result_base_init : list stm :=
  [ SEv (Call "base_init"); SEv (Wr "store"); SEv (Wr "linenumber");
    SEv (Wr "section_id") ].

(* __iter__: one store.get per part, in order *)
Definition expected_result_iter : list stm :=
  [ SEv (Rd "parts"); SLoop [SEv (Call "store_get")] ].

Definition expected_minimal_init : list stm :=
  [ SEv (Wr "parts"); SEv (Wr "meta"); SEv (Wr "linenumber");
    SEv (Wr "source_id"); SEv (Wr "section_id");
    SIf [SEv (Wr "field_names")] [SEv (Wr "field_names")];
    SEv (Wr "store") ].

(* __getattr__: (name is not 'field_names') -> (field_names and name in
   field_names) -> get(name); otherwise AttributeError *)
Definition expected_minimal_getattr : list stm :=
  [ SIf [SEv (Rd "field_names"); SEv (Rd "field_names");
         SIf [SEv (Call "get"); SExit] []] [];
    SRaise "AttributeError" ].

(* tag / sequence_id: the metadata slot; None -> None; else store.get *)
Definition expected_minimal_meta : list stm :=
  [ SEv (Rd "meta"); SIf [SExit] []; SEv (Call "store_get"); SExit ].

Definition expected_register_results_store : list stm := [ SEv (Wr "store") ].

(* SearchResult.__init__ without reads: sequence_id is set (None, then the
   definition's sequence id) BEFORE the store_result_contents early return;
   store_result comes last *)
Definition expected_result_init : list stm :=
  [ SEv (Wr "store"); SEv (Wr "parts"); SEv (Wr "linenumber");
    SEv (Wr "source_id"); SEv (Wr "tag"); SEv (Wr "section_id");
    SEv (Wr "sequence_id");
    SIf [SIf [SRaise "FileSearchException"] []; SEv (Wr "sequence_id")] [];
    SEv (Wr "field_info");
    SIf [SExit] [];
    SEv (Call "store_result") ].

(* metadata: ONE results_store.add(self.tag, self.sequence_id, None), on
   every evaluation, nothing remembered anywhere *)
Definition expected_result_metadata : list stm :=
  [ SEv (Rd "tag"); SEv (Rd "sequence_id"); SEv (Call "store_add"); SExit ].

Definition expected_result_export : list stm :=
  [ SEv (Rd "parts"); SEv (Rd "metadata_property"); SEv (Rd "linenumber");
    SEv (Rd "source_id"); SEv (Rd "section_id"); SEv (Rd "field_info");
    SEv (Call "new_minimal"); SExit ].

(* ---- SearchResult.__init__ walked against the model's view of it ---- *)
Inductive init_res :=
| InitRaise                                 (* FileSearchException *)
| InitOk (has_seq_id stored : bool).        (* sequence_id set? store_result run? *)

(* Model/Result.make_result takes the sequence id as given, whether or not
   the contents are stored *)
Definition init_model (is_seq_part section_given store_contents : bool)
  : init_res :=
  if is_seq_part && negb section_given then InitRaise
  else InitOk is_seq_part store_contents.

Record rst := mkRst { r_seq : bool; r_stored : bool; r_raised : bool;
                      r_reads : list string }.

Definition r_ev (e : ev) (st : rst) : option rst :=
  match e with
  | Rd c => Some (mkRst (r_seq st) (r_stored st) (r_raised st) (c :: r_reads st))
  | Wr c =>
      if String.eqb c "sequence_id"
      then Some (mkRst (in_strs "def_sequence_id" (r_reads st)) (r_stored st)
                       (r_raised st) [])
      else Some (mkRst (r_seq st) (r_stored st) (r_raised st) [])
  | Call f =>
      if String.eqb f "store_result"
      then Some (mkRst (r_seq st) true (r_raised st) [])
      else None
  | _ => None
  end.

Definition r_raise (x : string) (st : rst) : option (rst * bool) :=
  if String.eqb x "FileSearchException"
  then Some (mkRst (r_seq st) (r_stored st) true (r_reads st), true)
  else None.

Definition r_guards (is_seq_part section_given store_contents : bool)
  : list (guard rst) :=
  [ (["def_sequence"], fun _ => is_seq_part);        (* if search_def.sequence_def: *)
    ([], fun _ => negb section_given);               (*   if sequence_section_id is None: *)
    (["def_store_contents"], fun _ => negb store_contents) ].

Definition run_result_init (t : list stm)
           (is_seq_part section_given store_contents : bool) : option init_res :=
  match walk_list rst r_reads
                  (fun st => mkRst (r_seq st) (r_stored st) (r_raised st) [])
                  r_ev no_loop r_raise (fun st => Some st) t
                  (mkRst false false false [])
                  (r_guards is_seq_part section_given store_contents) with
  | WOk st _ _ =>
      if r_raised st then Some InitRaise
      else Some (InitOk (r_seq st) (r_stored st))
  | WErr => None
  end.

(* ---- a cheap normal form: "if a: if b: X" (nothing else in the outer
   body, no else branches) is "if a and b: X" ---- *)
Fixpoint collapse (s : stm) : stm :=
  let go := fix go (l : list stm) : list stm :=
              match l with [] => [] | x :: r => collapse x :: go r end in
  match s with
  | SIf a b =>
      match go a, go b with
      | [SIf x []], [] => SIf x []
      | a', b' => SIf a' b'
      end
  | SLoop b => SLoop (go b)
  | STry b hs o f =>
      STry (go b) (map (fun h => (fst h, go (snd h))) hs) (go o) (go f)
  | other => other
  end.
Definition collapse_list (l : list stm) : list stm := map collapse l.

(* ================================================== semantic normal forms
   (behaviour-preserving rewrites of the source must not matter) *)

(* ---- 1. the SET OF PATHS of a tree: every way through the ifs, as the
   sequence of events met; a return / raise ends the path.  Early return vs
   else branch, a negated test with swapped branches, "if a: if b:" vs
   "if a and b:" all give the same set.  Loops are blocks: "[" alternatives
   of the body "]". ---- *)
Inductive tok :=
| TE (e : ev) | TRaise (x : string) | TLb | TLe | TAlt | TExit | TTry.

Definition tok_eqb (a b : tok) : bool :=
  match a, b with
  | TE x, TE y => ev_is x y
  | TRaise x, TRaise y => String.eqb x y
  | TLb, TLb | TLe, TLe | TAlt, TAlt | TExit, TExit | TTry, TTry => true
  | _, _ => false
  end.

Fixpoint toks_eqb (x y : list tok) : bool :=
  match x, y with
  | [], [] => true
  | a :: r, b :: s => tok_eqb a b && toks_eqb r s
  | _, _ => false
  end.

Fixpoint paths (s : stm) : list (list tok * bool) :=
  let seqp := fix seqp (l : list stm) : list (list tok * bool) :=
    match l with
    | [] => [([], false)]
    | x :: r =>
        flat_map (fun p : list tok * bool =>
                    if snd p then [p]
                    else map (fun q : list tok * bool =>
                                ((fst p ++ fst q)%list, snd q)) (seqp r))
                 (paths x)
    end in
  match s with
  | SEv e => [([TE e], false)]
  | SRaise x => [([TRaise x], true)]
  | SExit => [([], true)]
  | SIf a b => (seqp a ++ seqp b)%list
  | SLoop b =>
      [((TLb :: flat_map (fun p : list tok * bool =>
                            (TAlt :: fst p ++ (if snd p then [TExit] else []))%list)
                         (seqp b) ++ [TLe])%list, false)]
  | STry _ _ _ _ => [([TTry], false)]
  end.

Fixpoint paths_list (l : list stm) : list (list tok * bool) :=
  match l with
  | [] => [([], false)]
  | x :: r =>
      flat_map (fun p : list tok * bool =>
                  if snd p then [p]
                  else map (fun q : list tok * bool =>
                              ((fst p ++ fst q)%list, snd q)) (paths_list r))
               (paths x)
  end.

Definition path_subset (a b : list (list tok)) : bool :=
  forallb (fun p => existsb (toks_eqb p) b) a.

(* the two trees have the same set of paths *)
Definition same_paths (t u : list stm) : bool :=
  let a := map fst (paths_list t) in
  let b := map fst (paths_list u) in
  path_subset a b && path_subset b a.

(* ---- 2. loops: a nest of loops around a body is that body looped; equal
   single-call loops in a row are one ("for m in (a, b, c): for x in m: f(x)"
   = three loops) ---- *)
Fixpoint unnest (s : stm) : stm :=
  let go := fix go (l : list stm) : list stm :=
              match l with [] => [] | x :: r => unnest x :: go r end in
  match s with
  | SLoop b => match go b with
               | [SLoop c] => SLoop c
               | b' => SLoop b'
               end
  | SIf a b => SIf (go a) (go b)
  | other => other
  end.

Fixpoint merge_loops (l : list stm) : list stm :=
  match l with
  | [] => []
  | x :: r =>
      match x, r with
      | SLoop [SEv (Call f)], SLoop [SEv (Call g)] :: _ =>
          if String.eqb f g then merge_loops r else x :: merge_loops r
      | _, _ => x :: merge_loops r
      end
  end.

Definition loop_norm (t : list stm) : list stm :=
  merge_loops (map unnest (no_reads_list t)).

(* ---- 3. static number of occurrences of an event in a tree ---- *)
Fixpoint occ (p : ev -> bool) (s : stm) : nat :=
  let go := fix go (l : list stm) : nat :=
              match l with [] => O | x :: r => (occ p x + go r)%nat end in
  match s with
  | SEv e => if p e then 1%nat else O
  | SIf a b => (go a + go b)%nat
  | SLoop b => go b
  | STry b hs o f =>
      (go b + fold_right (fun h n => (go (snd h) + n)%nat) O hs + go o + go f)%nat
  | _ => O
  end.
Fixpoint occ_list (p : ev -> bool) (l : list stm) : nat :=
  match l with [] => O | x :: r => (occ p x + occ_list p r)%nat end.

Definition is_rd (c : string) (e : ev) : bool :=
  match e with Rd d => String.eqb c d | _ => false end.
Definition is_wr_any (e : ev) : bool :=
  match e with Wr _ => true | _ => false end.

(* sync, normal form: under the lock, the guarded copy loop into data, then
   the merges through _add_to_store *)
Definition expected_sync_norm : list stm :=
  [ SEv (Acq "store"); SLoop [SIf [SEv (Wr "data")] []];
    SLoop [SEv (Call "add_to_store")]; SEv (Rel "store") ].
